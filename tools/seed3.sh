#!/bin/bash
# usage: tools/seed3.sh <Cxx> <k> <demo-package-dir> [extra go test flags for the demo]
# Confirms a round-3 seed from /tmp/seed3-<Cxx> and evaluates it with the property's quick check.
p=$1; k=$2; dir=$3; shift 3
sd=/tmp/seed${SEEDROUND:-3}-$p
{
echo "=== $p #$k ($dir $*)"
/verif/tools/seedconfirm2.sh $sd $k $dir "$@"
/verif/tools/seedcheck2.sh $sd/patch$k.diff $p
} 2>&1 | tee -a /tmp/seed${SEEDROUND:-3}-results.log
