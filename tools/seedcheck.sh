#!/bin/bash
# usage: tools/seedcheck.sh <patch.diff> <Cxx> [tier] [more Cxx ...]
# Applies a seeded change to /repo, runs the given checks, and always restores the tree.
set -u
patch=$1; shift
tier=quick
props=()
for a in "$@"; do case "$a" in quick|thorough) tier=$a;; *) props+=("$a");; esac; done
cd /repo || exit 9
if ! git diff --quiet; then echo "repo dirty, refusing"; exit 9; fi
if ! git apply "$patch"; then echo "PATCH DOES NOT APPLY"; exit 8; fi
export GOFLAGS=-mod=mod GOPROXY=off GOSUMDB=off GOTOOLCHAIN=local
if ! go build ./... 2>/tmp/seed_build.log; then echo "SEEDED CHANGE DOES NOT BUILD"; head -5 /tmp/seed_build.log; git checkout -- .; exit 8; fi
if [ "${SEED_RUN_TESTS:-1}" = 1 ]; then
  if go test -vet=off -count=1 ./... >/tmp/seed_tests.log 2>&1; then echo "existing tests: pass"; else echo "existing tests: FAIL"; grep -E "^(--- FAIL|FAIL)" /tmp/seed_tests.log | head -5; fi
fi
cd /verif
for p in "${props[@]}"; do
  timeout 1800 ./vcheck "$p" "$tier" > /tmp/seed_out.log 2>&1; rc=$?
  grep -E "VIOLATION-DETAIL" /tmp/seed_out.log | cut -c1-330 | head -3
  grep -E "\[vcheck\] C" /tmp/seed_out.log
  echo "seed result $p $tier: exit=$rc ($( [ $rc -eq 1 ] && echo DETECTED || echo MISSED ))"
done
cd /repo && git checkout -- . && git clean -fdq
rm -f /verif/replays/C*.json /verif/replays/rapid/* /verif/replays/fuzz/* 2>/dev/null
exit 0
