#!/usr/bin/env python3
"""Validate MANIFEST.json and every evidence file against the task schemas (run with python3-vt)."""
import glob, json, sys
import jsonschema
ok = True
m = json.load(open('/verif/MANIFEST.json'))
try:
    jsonschema.validate(m, json.load(open('/root/.vp/MANIFEST.schema.json')))
    print("MANIFEST ok: %d checks, %d not_applicable" % (len(m['checks']), len(m.get('not_applicable', []))))
except Exception as e:
    ok = False; print("MANIFEST INVALID:", e)
es = json.load(open('/root/.vp/EVIDENCE.schema.json'))
for f in sorted(glob.glob('/verif/evidence/C*.json')):
    try:
        e = json.load(open(f)); jsonschema.validate(e, es)
        c = e['coverage']
        print("%s ok tier=%s evals=%d nontrivial=%d viol=%s wall=%.0fs" % (f[-8:], e['tier'], c.get('evaluations', 0), c.get('distinct_nontrivial', 0), e.get('violations'), e['wall_s']))
    except Exception as ex:
        ok = False; print(f, "INVALID:", str(ex)[:300])
ids = {json.loads(l)['id'] for l in open('/verif/properties.jsonl')}
claimed = {c['property_id'] for c in m['checks']}
na = {c['property_id'] for c in m.get('not_applicable', [])}
if claimed | na != ids or claimed & na:
    ok = False; print("coverage of property ids wrong: missing", ids - claimed - na, "both", claimed & na)
sys.exit(0 if ok else 1)
