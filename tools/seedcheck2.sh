#!/bin/bash
# usage: tools/seedcheck2.sh <patch.diff> <Cxx> [Cxx ...]   — evaluates a seeded change on a scratch worktree of
# /repo (so /repo itself stays untouched and other runs are not disturbed); quick tier.
set -u
patch=$1; shift
wt=/tmp/seedrepo-$$
git -C /repo worktree add --detach $wt HEAD >/dev/null 2>&1 || { echo "cannot create worktree"; exit 9; }
tag=$(python3 -c "import hashlib,os,sys;print(hashlib.sha1(os.path.realpath(sys.argv[1]).encode()).hexdigest()[:8])" $wt)
trap 'git -C /repo worktree remove --force '$wt' >/dev/null 2>&1; rm -f /verif/replays/C*.json /verif/replays/rapid/* /verif/.build/*.'$tag'.* /verif/.build/check-tool.*.'$tag' 2>/dev/null' EXIT
cd $wt
if ! git apply "$patch"; then echo "PATCH DOES NOT APPLY"; exit 8; fi
export GOFLAGS=-mod=mod GOPROXY=off GOSUMDB=off GOTOOLCHAIN=local
if ! go build ./... 2>/tmp/seed_build.$$; then echo "SEEDED CHANGE DOES NOT BUILD"; head -5 /tmp/seed_build.$$; rm -f /tmp/seed_build.$$; exit 8; fi
rm -f /tmp/seed_build.$$
cd /verif
for p in "$@"; do
  VERIF_REPO=$wt timeout 1800 ./vcheck "$p" quick > /tmp/seed_out.$$ 2>&1; rc=$?
  grep -E "VIOLATION-DETAIL|INCONCLUSIVE" /tmp/seed_out.$$ | cut -c1-330 | head -3
  grep -E "\[vcheck\] C" /tmp/seed_out.$$
  echo "seed result $p quick: exit=$rc ($( [ $rc -eq 1 ] && echo DETECTED || echo MISSED ))"
  rm -f /tmp/seed_out.$$
done
