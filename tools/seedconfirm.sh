#!/bin/bash
# usage: tools/seedconfirm.sh <Cxx> <k> <demo-package-dir> [extra go test flags]
# Confirms a seeded change in its scratch worktree: demo passes without, existing suite passes with, demo fails with.
set -u
id=$1; k=$2; dir=$3; shift 3
wt=/tmp/wt-$id; sd=/tmp/seed-$id
export GOFLAGS=-mod=mod GOPROXY=off GOSUMDB=off GOTOOLCHAIN=local
cd $wt || exit 9
git checkout -q -- . && git clean -fdq
cp $sd/demo${k}_test.go $wt/$dir/zz_seed_demo_test.go
if go test -vet=off -count=1 "$@" ./$dir/ >/tmp/confirm1.log 2>&1; then echo "demo without change: PASS"; else echo "demo without change: FAIL (unexpected)"; tail -5 /tmp/confirm1.log; fi
rm $wt/$dir/zz_seed_demo_test.go
if ! git apply $sd/patch$k.diff; then echo "patch does not apply"; exit 8; fi
if go test -vet=off -count=1 ./... >/tmp/confirm2.log 2>&1; then echo "existing suite with change: PASS"; else echo "existing suite with change: FAIL"; grep -E "^(--- FAIL|FAIL)" /tmp/confirm2.log | head; fi
cp $sd/demo${k}_test.go $wt/$dir/zz_seed_demo_test.go
if go test -vet=off -count=1 "$@" ./$dir/ >/tmp/confirm3.log 2>&1; then echo "demo with change: PASS (unexpected)"; else echo "demo with change: FAIL (as intended)"; fi
git checkout -q -- . && git clean -fdq
