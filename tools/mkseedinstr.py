#!/usr/bin/env python3
"""Writes the instructions for one round of independently seeded changes.

usage: tools/mkseedinstr.py <round>      -> /tmp/seed<round>-<Cxx>/INSTRUCTIONS.txt for every property

A sub-agent gets nothing from /verif: only the text of its property, what the earlier rounds' changes needed in order
to manifest (so that it does not repeat them) and its own scratch worktree /tmp/wt<round>-<Cxx> of /repo.
"""
import glob
import json
import os
import sys

rnd = int(sys.argv[1])
VERIF = os.path.dirname(os.path.dirname(os.path.abspath(__file__)))
props = [json.loads(l) for l in open(os.path.join(VERIF, "properties.jsonl")) if l.strip()]
words = {18: "eighteen", 16: "sixteen", 2: "two", 4: "four", 6: "six", 8: "eight", 10: "ten", 12: "twelve", 14: "fourteen"}

STEER = {
    10: ("Read the code the property is anchored in AND the code it relies on elsewhere in the repository and in its dependencies, and look for places the list above has not touched. "
         "This round, prefer changes of these kinds: (a) a PARTIAL regression of a defence the code already has: look at `git log` for the commits whose message starts with 'fix:' "
         "(and at the checks around them) and weaken one of them for a sub-case only - a neighbouring field, a second code path that needs the same check, one of two entry points, "
         "one size, one encoding - so that the original reproducer of the fix still passes; (b) values the API RETURNS or KEEPS: results that alias the caller's input or an internal "
         "table (so that what the caller does with a result afterwards changes a later call), results that differ between the first and a repeated call, error values whose identity "
         "or wrapping callers rely on (errors.Is / errors.As against the exported error variables); (c) documented but unusual ways of calling: nil and typed-nil arguments, zero "
         "values of the option structs, option structs copied by value between calls, one TimeSet or pool shared by several Options values, inputs modified by the caller after the "
         "call returned; (d) numbers, dates and text at their edges: dates with fractional seconds, other time zones or leap seconds in the JSON documents, numbers with exponents "
         "or leading zeros, byte order of a multi-byte field, signed versus unsigned comparisons, lengths that are multiples of a block size, Unicode look-alikes and case folding "
         "in names and identifiers; (e) two generated dimensions that only matter TOGETHER: pick two things a test generator would vary independently (for example the certificate "
         "kind and the CRL encoding, the module version and the component order, the input format and a policy field) and make the code wrong only for one combination of them; "
         "(f) the order and the short-circuiting of checks: a check skipped when an earlier one logged a warning, an error overwritten by a later success, a loop that stops at the "
         "first match where all must match. "
         "A generated-input harness that already covers single-field mutations, boundary values, permutations, concurrency, 32-bit builds, time-shifted worlds, call histories on one "
         "Options value (including the level-report API and failing calls of every stage), long histories over hundreds of distinct inputs, byte-level differential testing of the "
         "parsers against reference readers, transient failures and races of devices / getters / the TSM, the process environment (certificate store, GODEBUG, TZ, log verbosity, "
         "processor count), hand-crafted DER, look-alike certificates, trust bundles with several certificates, checksum collisions, inputs of megabytes made of very many parts "
         "under time limits, and the check tool's flag / config grid should still be likely to miss the change."),
    9: ("Read the code the property is anchored in AND the code it relies on elsewhere in the repository and in its dependencies, and look for places the list above has not touched. "
        "This round, prefer changes of these kinds: (a) the public API AROUND the main entry points - exported helpers, option constructors and their defaults, URL builders, exported "
        "error values and error types that callers test with errors.Is / errors.As, exported variables and command-line flags of the packages that a caller may set between calls - "
        "where a change breaks the property for a caller who uses that API as documented; (b) the less common but genuine shapes of Intel's data: processor-CA instead of platform-CA "
        "certificates, the optional members of the SGX extension, TCB Infos with several TDX module identities, several TCB levels with equal dates or equal SVNs, quotes with the "
        "optional trailing bytes, certificate chains and CRLs as the real PCS sends them (encodings, header spellings, several header values); (c) two settings, options or flags that "
        "interact: each behaves correctly alone, the defect needs both (or needs one to be set and another left at its zero value); (d) work that grows faster than the input: a "
        "quadratic scan, a retry that never gives up, recursion on attacker-controlled depth - for properties that promise an answer, a call that does not come back within minutes on "
        "an input of a few hundred kilobytes is a violation; (e) cleanup and state on the error paths: a deferred restore that is skipped on one return, a field of the caller's "
        "Options or message left half-updated after a failure, a temporary file or configfs entry left behind that changes the next call. "
        "A generated-input harness that already covers single-field mutations, boundary values, permutations, concurrency, 32-bit builds, time-shifted worlds, call histories on one "
        "Options value, long histories over hundreds of distinct inputs, byte-level differential testing of the parsers against reference readers, transient failures and races of "
        "devices / getters / the TSM, the process environment (certificate store, GODEBUG, TZ, log verbosity), hand-crafted DER (odd serial numbers, look-alike certificates) and the "
        "check tool's flag / config grid should still be likely to miss the change."),
    8: ("Read the code the property is anchored in AND the code it relies on elsewhere in the repository and in its dependencies, and look for places the list above has not touched. "
        "This round, work from the PROPERTY TEXT: split the statement into its clauses (every 'and', every 'only if', every 'never', every item of the quantification) and pick the "
        "clauses the earlier changes touched least - a clause that reads like an afterthought is a good candidate. Then prefer changes of these kinds: (a) legal but rare forms at the "
        "boundary between two layers: PEM with CRLF line ends, headers, blank lines or text between blocks; JSON with escapes (\\u0041), a byte-order mark, insignificant white space, "
        "exponent or leading-zero number spellings, deep nesting; percent-encoding variants and repeated / differently cased HTTP header fields; DER alternatives the standard library "
        "accepts; protobuf text and binary forms with unknown fields, default values, repeated scalar occurrences (last one wins), packed versus unpacked lists; (b) counts and sizes one "
        "past a power of two that a narrower type would hold (255 / 256 entries, 65535 / 65536 bytes), empty collections, exactly-full buffers; (c) the environment of the process as an "
        "input: command-line flags given twice or in another order, flag values with surrounding white space, relative paths and the working directory, file modes, symbolic links, "
        "environment variables the standard library reads (proxy settings, TZ, GODEBUG, SSL_CERT_FILE), standard input versus file input; (d) asymmetries between sibling code paths "
        "that should agree: raw bytes versus message entry point, platform versus processor CA, TCB Info versus QE Identity handling, flag versus config file, binary versus text "
        "config, GetQuote versus GetRawQuote, the collateral level versus the revocation level - change one sibling only; (e) a default that changes: a zero value that used to mean "
        "'unset' now means something, or the other way round. A generated-input harness that already covers single-field mutations, boundary values, permutations, concurrency of "
        "independent calls, 32-bit builds, time-shifted worlds, call histories on one Options value, long histories over hundreds of distinct inputs in one process, byte-level "
        "differential testing of the parsers against reference readers, and transient failures of devices, getters and the TSM should still be likely to miss the change."),
    7: ("Read the code the property is anchored in AND the code it relies on elsewhere in the repository and in its dependencies (encoding/asn1, encoding/json, crypto/x509, "
        "encoding/pem, net/http and net/url, google.golang.org/protobuf and the generated getters, go-configfs-tsm, go-eventlog, the logger) and look for places the list above has "
        "not touched. This round, prefer changes of these kinds: (a) the library leans on a guarantee of a dependency that the change quietly gives up (strictness of a decoder, "
        "what a parser does with duplicates / unknown fields / trailing data / optional parts / case, ordering of results, copy-versus-alias of returned slices and maps, which "
        "errors are typed); (b) something that only shows after a number of calls or a particular order of calls in one process (counters, small caches with eviction, memoised "
        "parses, lazily initialised package state, values kept in an Options or policy value between calls); (c) conversions between integer widths / signedness, between text and "
        "numbers, between time zones or time resolutions, between string and byte forms (Unicode case folding, white space, NUL, percent- and base64-decoding variants); "
        "(d) error handling: an error replaced, wrapped so that its type is lost, deferred, or returned together with a usable result; a cleanup that runs on one path only; "
        "(e) a check made on one representation and the use on another (raw bytes versus parsed message, first versus last duplicate, canonical versus given spelling). "
        "The change should read like an innocent refactoring, optimisation, feature or fix, and a generated-input harness that already covers single-field mutations, boundary "
        "values, permutations, concurrency of independent calls, 32-bit builds, time-shifted worlds and call histories on one Options value should still be likely to miss it."),
}


def earlier(pid):
    out = []
    for f in sorted(glob.glob(os.path.join(VERIF, "seeded", pid + "-*", "meta.json")), key=lambda p: int(os.path.basename(os.path.dirname(p)).split("-")[1])):
        m = json.load(open(f))
        if m.get("round", 0) < rnd:
            out.append(m.get("needs_to_manifest", "").strip())
    return [o for o in out if o]


for p in props:
    pid = p["id"]
    done = earlier(pid)
    wt, sd = f"/tmp/wt{rnd}-{pid}", f"/tmp/seed{rnd}-{pid}"
    os.makedirs(sd, exist_ok=True)
    files = ", ".join(p.get("anchors", {}).get("files", []))
    txt = f"""You are helping evaluate a verification effort for the Go library google/go-tdx-guest (fetches, parses, verifies and policy-validates Intel TDX attestation quotes). Your job: produce TWO NEW, different, realistic code changes ("seeded defects") that each BREAK the semantic property below while the code still compiles and the repository's existing test suite still passes. {words.get(len(done), str(len(done))).capitalize()} changes for this property were produced by earlier rounds (listed below); yours must be genuinely different from all of them — aim for the kind of defect that a careful reviewer and a generated-input test harness would both be likely to miss.

Working copy: {wt} is your own scratch git worktree of the repository (HEAD is the current tree). Work ONLY there and in {sd} (output directory). Do NOT read or touch /verif or /repo or any other /tmp/wt* or /tmp/seed* directory. There is no network. For every go command export: GOFLAGS=-mod=mod GOPROXY=off GOSUMDB=off GOTOOLCHAIN=local . Existing test suite: `cd {wt} && go test -vet=off -count=1 ./...` (must still pass with each change applied). Use unique temporary file names (prefix them with {pid}r{rnd}) if you need scratch files outside your two directories. NEVER use `git stash` (the stash is shared by all worktrees of the repository and other workers are active): switch between changed and unchanged trees with `git diff > file`, `git apply`, `git apply -R` and `git checkout -- .` only.

THE PROPERTY
{pid} — {p['title']}
{p['statement']}
Quantified over: {p['quantifier']['text']}
Files the property is anchored in: {files}

ALREADY DONE BY EARLIER ROUNDS (do NOT repeat these or close variants; pick other code sites, other fields, other mechanisms):
""" + "\n".join("- a change that needed: " + d for d in done) + f"""

{STEER[rnd]}

Requirements for each of the two new changes:
1. It must break the property for some inputs / sequences / interleavings, but need something SPECIFIC to manifest (a rare value or combination of values, a boundary that is hard to hit by chance, an unusual but legal input shape, an error path taken only under a particular failure, a particular history, or two cooperating code sites that each look fine alone). The two changes must differ from each other in nature and location. It must break THIS property as stated (a behaviour the property text does not pin down — a particular retry schedule, a particular error text — is not a violation).
2. It must compile and the existing tests must pass unchanged (do not edit existing tests).
3. Provide a demonstration per change that FAILS with the change applied and PASSES on the unmodified tree: a Go test file (placed in the worktree only for running; save a copy in the output dir). You may construct inputs any way you like (own P-256 keys / certificates / CRLs with crypto/x509 using the exact subject names the verifier demands, quotes built and signed byte by byte following abi/abi.go, own signed collateral through a custom trust.HTTPSGetter, scripted devices / clients, in-package tests calling unexported functions together with an explanation of how the public API reaches them). Actually run it both ways and record the outputs. A demonstration must terminate (give hangs a time limit inside the test).

Deliverables in {sd}/: for change k in {{1,2}}: `patch<k>.diff` (output of `git diff` for repository source files only, applicable with `git apply` to the unmodified tree), `demo<k>_test.go` — put a comment at the top of the demo saying in which package directory it must be placed and the exact command to run it (including -race or a GOARCH if needed) —, and `notes<k>.md` (what the change does, why it breaks the property, a section headed "## What is needed for it to manifest", the commands you ran and their results with and without the change). When done, leave the worktree clean (`git -C {wt} checkout -- . && git -C {wt} clean -fd`). Reply with a short summary of the two changes, stating for each the package directory of its demo and whether the demo needs -race.
"""
    open(os.path.join(sd, "INSTRUCTIONS.txt"), "w").write(txt)
    print(pid, len(done), "earlier changes")
