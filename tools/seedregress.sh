#!/bin/bash
# Re-runs every stored seeded change against the check of the property it breaks (quick tier, scratch worktree).
# usage: tools/seedregress.sh [k n]   — with k and n only every n-th seed, starting at the k-th (for parallel streams)
cd /verif
k=${1:-0}; n=${2:-1}; i=0
for d in seeded/*/; do
  i=$((i+1)); [ $((i % n)) -eq $k ] || continue
  id=$(basename $d); prop=$(python3 -c "import json;m=json.load(open('$d/meta.json'));print(m.get('check_property') or m['breaks_property'])")
  res=$(tools/seedcheck2.sh $PWD/$d/patch.diff $prop 2>&1 | grep "seed result" | tail -1)
  echo "$id $res"
done
