#!/bin/bash
# Re-runs every stored seeded change against the check of the property it breaks (quick tier, scratch worktree).
# usage: tools/seedregress.sh [k n]   — with k and n only every n-th seed, starting at the k-th (for parallel streams)
# SEEDORDER=mixed visits the seeds in a fixed pseudo-random order (a run that is cut short still samples every property)
cd /verif
k=${1:-0}; n=${2:-1}; i=0
list=$(ls -d seeded/*/)
[ "${SEEDORDER:-}" = mixed ] && list=$(for d in $list; do echo "$(echo $d | md5sum | cut -c1-8) $d"; done | sort | cut -d' ' -f2)
for d in $list; do
  i=$((i+1)); [ $((i % n)) -eq $k ] || continue
  id=$(basename $d); prop=$(python3 -c "import json;m=json.load(open('$d/meta.json'));print(m.get('check_property') or m['breaks_property'])")
  res=$(tools/seedcheck2.sh $PWD/$d/patch.diff $prop 2>&1 | grep "seed result" | tail -1)
  echo "$id $res"
done
