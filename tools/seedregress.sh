#!/bin/bash
# Re-runs every stored seeded change against the check of the property it breaks (quick tier, scratch worktree).
cd /verif
for d in seeded/*/; do
  id=$(basename $d); prop=$(python3 -c "import json;print(json.load(open('$d/meta.json'))['breaks_property'])")
  res=$(tools/seedcheck2.sh $PWD/$d/patch.diff $prop 2>&1 | grep "seed result" | tail -1)
  echo "$id $res"
done
