#!/bin/bash
# usage: tools/mutant.sh <file-in-repo> <python-regex-old> <new> <Cxx> [tier]
# Applies a one-off textual mutation to /repo, runs the check, and always restores the tree.
set -u
f=$1; old=$2; new=$3; prop=$4; tier=${5:-quick}
cd /repo || exit 9
if ! git diff --quiet; then echo "repo dirty, refusing"; exit 9; fi
python3 - "$f" "$old" "$new" <<'P'
import re,sys
p,old,new=sys.argv[1:4]
s=open(p).read()
s2,n=re.subn(old,new,s,count=1,flags=re.S)
if n!=1: print("MUTATION DID NOT APPLY"); sys.exit(3)
open(p,'w').write(s2)
P
rc=$?
if [ $rc -ne 0 ]; then git checkout -- .; exit 9; fi
export GOFLAGS=-mod=mod GOPROXY=off GOSUMDB=off GOTOOLCHAIN=local
if ! go build ./... 2>/tmp/mutant_build.log; then echo "MUTANT DOES NOT BUILD"; cat /tmp/mutant_build.log | head -5; git checkout -- .; exit 8; fi
cd /verif && timeout 900 ./vcheck "$prop" "$tier" > /tmp/mutant_out.log 2>&1; rc=$?
grep -E "VIOLATION-DETAIL|\[vcheck\] C" /tmp/mutant_out.log | cut -c1-260 | head -4
echo "mutant result: exit=$rc ($( [ $rc -eq 1 ] && echo KILLED || echo SURVIVED ))"
cd /repo && git checkout -- . 
rm -f /verif/replays/C*.json /verif/replays/rapid/* 2>/dev/null
exit 0
