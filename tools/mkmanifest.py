#!/usr/bin/env python3
"""Regenerates /verif/MANIFEST.json from the table below (keeps it schema-valid at all times)."""
import json
import os
import subprocess
import sys

sys.path.insert(0, os.path.dirname(__file__))

# id -> (level, technique, text, note, design_ref)
CHECKS = {
 "C01": ("exploration", "generated forgeries and bit mutants against a reference link verifier (rapid + exhaustive bit sweep + native fuzz)",
         "Worlds whose private keys the harness owns let it present self-consistent forgeries: every single bit of the signed regions, ~25 structured forgery classes with a verdict known by construction, random multi-edit mutants and a coverage-guided fuzz target; whenever the library accepts, an independent 40-line link verifier must agree that all three links hold on the very bytes given. Histories on one Options value mix raw and message calls of genuine and forged quotes (incl. a forgery with the genuine quote's length and CRC-32); a companion built with -race verifies genuine quotes and forged siblings in parallel. Sampling-based: it shows absence of violations only on what was generated.",
         "Trusts Go's crypto/ecdsa, crypto/x509 and the harness's reference codec; low-S/high-S malleability is outside the property and not generated.", "DESIGN.md §4 C01"),
 "C02": ("exploration", "generated PKI pairs, look-alike substitutions and role-confusion chains with an independent x509 path oracle (rapid)",
         "Quotes fully self-consistent under one generated PKI are verified against pools built from other PKIs with identical subject names, with one chain element substituted, and with wrong-role leaves; acceptance implies an independently checked path to the given pool. Root-of-trust configurations are checked exactly (trust iff listed; blank paths, path names with expansion characters). A state machine re-uses long-lived Options values (incl. pools the API hands out); a third of the cases replay the trusted PKI's genuine collateral at the collateral / revocation levels.",
         "Trusts crypto/x509 path building as the independent oracle; don't-care classes listed in DESIGN.md.", "DESIGN.md §4 C02"),
 "C03": ("fault_enumeration", "enumerated alterations of signed collateral responses against a reference authenticator + reduced-response metamorphic relation",
         "Every bit of genuine signed responses and issuer-chain headers (sampled in quick, all in thorough), foreign / wrong-role signers, re-encodings without re-signing and unsigned duplicate members under exact, case- and Unicode-fold spellings are served to the verifier; a strict tokenizer decides authenticity and the allowed verdict is {reject, verdict of the response reduced to its signed member}. Also: Intel's recorded collateral under a private root, the level report after the kept documents expired, every call under a 30 s watchdog.",
         "The reference authenticator's reading of 'the member whose raw bytes verify'; encoding/json is used by the code under test only.", "DESIGN.md §4 C03"),
 "C04": ("exploration", "reference model of Intel's TCB-level selection, both directions, over a small-scope abstraction plus random vectors (rapid)",
         "Platform SVN vectors, ordered level lists with all 7 statuses, module identities and identity fields are generated, the TCB-Info document is signed for each, and the verdict of verify.TdxQuote must equal a 60-line model of the statement; the level-reporting API must error when nothing matches.",
         "Module identity ids are pinned to the tree's two-digit lower-case hex form; malformed levels may be skipped or refuse the document.", "DESIGN.md §4 C04"),
 "C05": ("fault_enumeration", "enumerated revocation faults (revoked sets, signers, endpoint outcomes) against a reference model, both directions",
         "CRLs are signed by the harness: serial sets with near misses and large serials, wrong signers, every endpoint outcome and distribution-point subsets; the verdict must equal the model and revocation without collateral must always fail (also when requested through a root-of-trust config). CRLs altered after signing, authentic-lists-first histories, reason codes, hand-encoded lists (UTF8String names, no number), serial twins modulo 2^64.",
         "Don't-care: first distribution point serving a parsable CRL of the wrong issuer.", "DESIGN.md §4 C05"),
 "C06": ("exploration", "boundary grid {-1s,-1ns,0,+1ns,+0.5s,+1s} on every expiry with five distinct times, against a time model; monotonicity metamorphic (rapid + grid)",
         "Validity windows of all nine certificate roles, both documents and both CRLs and the five TimeSet instants are generated; the verdict must equal the model in an otherwise honest world, and advancing the governing time of a rejected case must keep it rejected. Times in non-UTC locations, epochs around 2262, every ordered pair (about to expire, expired), time-set entries of disabled checks left zero.",
         "Inclusive bounds as confirmed on the tree; notBefore of non-path certificates is a don't-care.", "DESIGN.md §4 C06"),
 "C07": ("exploration", "reference model of QE identity matching over re-signed QE reports, both directions (rapid)",
         "QE reports are re-signed with the PCK key for every generated field value and checked against generated identities (masks of any content, wrong lengths, ordered levels with all statuses and past / future dates); verdict must equal the model; a signed identity that omits what an unsigned twin supplies must be rejected.",
         "Trusts the model's reading of mask application (report value AND mask == identity value).", "DESIGN.md §4 C07"),
 "C08": ("exploration", "reference model of policy validation over generated quotes x options, crash-freedom for malformed options (rapid + native fuzz)",
         "Each option field independently unset / empty / equal / one bit off / wrong length, RTMR and AnyMrTd lists of every small shape, SVNs around their minimums and every single XFAM / TD_ATTRIBUTES bit; well-formed options must give exactly the model's verdict, malformed ones must not crash nor accept a quote that misses an expectation. Every pair of expectations (one met, one missed), options converted from a policy, and a state machine over one long-lived options value with in-place edits; messages with a missing or resized field; a race-build companion validating different quotes at the same time.",
         "Fixed masks taken from the constants' documentation (XFAM fixed1 0x3 fixed0 0x6DBE7; TD_ATTRIBUTES bits 0,28,30,63).", "DESIGN.md §4 C08"),
 "C09": ("exploration", "differential testing against an independent reference codec + round trips (rapid, exhaustive truncation/boundary grids, native fuzz)",
         "An own codec written from the Intel layout with literal offsets decides accept/reject and every field; parse-then-serialise must be the identity on accepted inputs and serialise-then-parse on well-formed messages. All truncation lengths and all boundary values of each size/type field (singly and in pairs) are enumerated; the rest is sampled and fuzzed. The parsed quote must be independent of the caller's buffer; messages whose byte strings share one buffer, nil / empty representations; returned bytes stay put while other messages are serialised; a race-build companion serialises and parses several quotes at once; a GOARCH=386 companion repeats the size-field grids with a 32-bit int.",
         "Assumes header bytes 8-9 = pce_svn, 10-11 = qe_svn (tree's assignment).", "DESIGN.md §4 C09"),
 "C10": ("exploration", "crash/hang oracle over structure-aware mutants of every untrusted input kind at every entry point (rapid + one native fuzz target per entry point)",
         "All truncations and size-field boundary values, every single structural mutation of a valid message, arbitrary collateral / CRL / header responses served to an otherwise valid quote, arbitrary DER in the SGX extension; date spellings, CRL framings, distribution-point mixes, odd certificate kinds in issuer chains; the only oracle is 'returns a value or an error, no panic, no hang'.",
         "GetRtmrsFromTdQuote has a documented precondition and is called only after it holds.", "DESIGN.md §4 C10"),
 "C11": ("exploration", "completeness: generated honest worlds must verify at all three levels (rapid), Intel samples under the embedded root",
         "Guards the soundness checks against 'reject everything': random contents, auth data up to 64 KiB, extra bytes, NUL, level lists with the matching UpToDate level at any position, module branch, arbitrary satisfied masks, both hex cases, several distribution points (leading ones failing), five distinct times, permuted / extended SGX extensions, hand-encoded CRLs, short validity periods around each artifact's own time; a -race companion verifies many worlds in parallel.",
         "Harness self-check (reference links, x509 path, models) runs first so generator bugs surface as exit 2.", "DESIGN.md §4 C11"),
 "C12": ("exploration", "metamorphic monotonicity across option levels, request-log oracle, and a rapid state machine comparing a shared Options value with fresh ones",
         "Every world (honest or with one fault) is verified under all four option combinations with a recording getter: accept(more checks) implies accept(fewer), no fetch without GetCollateral, CRL URLs only with CheckRevocations, FMSPC / CA named in URLs; histories through one shared Options value must match fresh options step by step and the stateless expectation (incl. collateral twins: same quote, later and worse collateral); identical calls give identical verdicts; the caller's time set is never modified.",
         "One real-clock scenario for Options.Now == nil; lateness is inconclusive.", "DESIGN.md §4 C12"),
 "C13": ("exploration", "exact-value oracle over generated DER encodings of the SGX extension and byte-level differential testing against an own strict DER reader; listed malformations must error (rapid + native fuzz)",
         "Own DER encoder emits any order, integer width, wrong types and trailing bytes; well-formed encodings must yield exactly the generated values, malformed ones an error; unknown neighbour members and the legacy wrapped form may be refused but never yield other values; a -race companion decodes different certificates in parallel; a reference reader classifies arbitrary bytes (well formed / malformed as listed / unclassified) for a differential check over tree and byte edits, for histories over hundreds of certificates with revisits, and for a native fuzz target.",
         "Duplicated / unknown OIDs and a missing sub-extension among >= 4 are don't-care.", "DESIGN.md §4 C13"),
 "C14": ("exploration", "policy messages x quotes: conversion rules and the C08 reference model on the message's literal fields (rapid)",
         "Each field absent / empty / right size / one short / one long, SVN minimums around 2^16, list shapes; conversion must fail on the listed malformations, and a converted policy must validate exactly as the message literally says without crashing.",
         "Empty-but-non-nil byte strings are don't-care.", "DESIGN.md §4 C14"),
 "C15": ("fault_enumeration", "complete grid of scripted device / provider behaviours against a protocol model",
         "A scripted client.Device enumerates report result x quote result x status x OutLen x errors completely (exhaustive grid) with random contents; success iff the model says so, result exactly Data[:OutLen], requests carry the caller's data. Ten kinds of error value (incl. EINTR with a filled buffer), result codes 0..70, the fall-back path with openable non-TDX paths, values that are device and provider at once, a -race companion with parallel fetches.",
         "Decided against scripted interfaces, not the real ioctl path.", "DESIGN.md §4 C15"),
 "C16": ("exploration", "capacity-deep before/after snapshots around every call + race detector under concurrent stress",
         "A reflective walker snapshots every byte slice reachable from quote, raw input and options up to its capacity; nothing may change and parsed quotes may not alias the input. Built with -race, goroutine mixes on one shared quote must be silent and agree with the solo verdict. Messages with stale size fields; options compared with a deep copy taken before validation.",
         "The schedule quantifier is covered only as far as the race detector and stress rounds reach.", "DESIGN.md §4 C16"),
 "C17": ("exploration", "rapid state machine against a model TSM (register-file model)",
         "Histories of extend requests over indexes, digest lengths, hash algorithms and logs run against an in-memory configfs TSM that records every operation; invalid requests must not write, valid ones write exactly one digest to the right entry; registers must equal the model's extend chains after every step. A -race companion extends through one client from several goroutines; where a private mount namespace is available the client-less entry points run against the real configfs client on a tmpfs.",
         "Decided against configfsi.Client; the real configfs client only on a tmpfs stand-in (no kernel TSM semantics).", "DESIGN.md §4 C17"),
 "C18": ("fault_enumeration", "enumerated RTMR bit flips and gate faults on re-signed CCEL quotes",
         "The sample CCEL log with quotes re-signed under a generated PKI: every single-bit change of measured RTMRs, each signature/trust fault and each policy mismatch must give (nil, error); the untouched control returns a state. Whole-register replacements, unsigned single-bit changes in every field, collateral-level faults, the same options value called again after the collateral turned bad.",
         "Sample log only; RTMR3 (unmeasured) is a don't-care.", "DESIGN.md §4 C18"),
 "C19": ("exploration", "exit-code model over generated config x flags x quote x roots, executing the built tool as a process",
         "The check tool is built from the working tree and executed; a model of the README decides the exit code for single fault classes, 0 only without faults, never a crash marker on stderr. Exhaustive / focused sub-properties where a single setting decides: root-of-trust precedence, config decoding, one policy setting at a time; fake PCS over a local CONNECT proxy; TZ and near-now certificate windows.",
         "Reachable-network success path with live Intel collateral is out of reach offline.", "DESIGN.md §4 C19"),
 "C20": ("fault_enumeration", "schedule model under a virtual clock (testing/synctest, Go 1.26.8) over failure/success scripts x timeout/delay grid",
         "k failures then success for all k, failures forever, attempt durations and a grid of Timeout / MaxRetryDelay; first success returned intact with no further attempt, waits bounded by MaxRetryDelay and positive, termination by roughly Timeout + one delay. Eight kinds of failure value, headers on failed and successful attempts, 2-5 callers sharing one getter (stall watchdog), real-clock companion also under the pre-1.23 timer semantics.",
         "Virtual-clock part runs on Go 1.26.8's runtime.", "DESIGN.md §4 C20"),
}

# additions of the ninth seeding round (DESIGN.md section 12, Round 9)
ROUND9 = {
 "C01": "Every forgery under 1 / 2 / 3 / 4 / 5 / 8 processors; concurrent callers that start from DefaultOptions().",
 "C02": "A nil pool followed by a caller's pool on one options value (and back), bundles with PEM blocks of other kinds between two roots.",
 "C03": "A signature that matches bytes parked as an unsigned member of the other response; issuer-chain headers escaped tens of thousands of times over (30 s watchdog).",
 "C04": "tcbType values other than 0.",
 "C05": "Trust bundles that also list the issuing CA; options values that served failing calls (incl. the level report) before the judged one.",
 "C06": "No time set and one options value across a history of calls on the real clock; an expired issuing-CA certificate in the quote with the renewed one in the bundle.",
 "C07": "Options values that served failing calls before the judged one.",
 "C08": "Options from rtmr.TdxDefaultOpts for several sessions; allow-lists of up to 1000 entries holding a near miss of MR_TD.",
 "C09": "Pairs of quotes colliding under CRC-32 / CRC-64 / Adler-32 parsed in a row; parsed messages with a field replaced by assignment.",
 "C10": "The library's own getter against any HTTP status / Retry-After answer (45 s watchdog); leaves lacking an SGX-extension member, with collateral.",
 "C11": "Authentic CRLs whose DER ends in a line break, blank, NUL (re-signed until the signature's last bytes fit).",
 "C12": "The exported level report never downloads with collateral off; a getter that verifies another quote through the same options value.",
 "C13": "Identifiers derived from the exported ones with append; tens of thousands of unknown members answered within 60 s.",
 "C14": "Allow-list histories on one converted policy; 16000 wrongly sized entries refused within 20 s.",
 "C15": "Requests crossing through the linuxabi helpers; devices and providers that are zero values of their types.",
 "C16": "Concurrent callers with their own revocation lists; leaves with permuted SGX extensions in the concurrent rounds.",
 "C17": "Entries vanishing between the listing and the index read; fresh entries whose index reads empty.",
 "C18": "An 800 kB quote with 36000 extension members answered within 90 s; revocation faults judged at the real clock (Now nil).",
 "C19": "Message inputs with a field wider than the wire format.",
 "C20": "Settings as large as the type allows; millions of immediate failures in a child process with a 32 MiB stack.",
}
for _k, _v in ROUND9.items():
    _c = CHECKS[_k]
    CHECKS[_k] = (_c[0], _c[1], _c[2] + " " + _v, _c[3], _c[4])

# additions of the tenth seeding round (DESIGN.md section 12, Round 10)
ROUND10 = {
 "C01": "Message mutants on parser-made messages (fields replaced by assignment); relocated digests.",
 "C02": "A leaf issued directly by the trusted root with the genuine intermediate carried; two authorities of one name and key identifier in a bundle.",
 "C04": "Near misses of the status UpToDate; returned extension values overwritten by the caller before the judged call.",
 "C05": "Leaves sharing their serial with a certificate of the root; returned chain certificates changed by the caller.",
 "C06": "Windows starting centuries before their end; document dates with numeric offsets.",
 "C07": "A 32-bit companion for QE levels above 2^31; messages sharing one buffer whose authentication data mirrors the bytes behind the key.",
 "C08": "Expectations in another byte order; allow-list-only policies naming a value twice, converted twice.",
 "C09": "Text encodings of quotes; 16-bit content fields at every boundary value.",
 "C10": "Announced lengths up to 2^63-1; inputs made of very many parts within 60 s.",
 "C11": "Time sets and document dates in other zones; members added later.",
 "C12": "Signature-less repeats after a good download; relation-only worlds.",
 "C13": "Right-sized values that look like DER; results overwritten by the caller.",
 "C15": "OutLen inside a quote; concurrent providers asked for the same report data.",
 "C16": "Vendor IDs in GUID byte order; module versions without identity in the concurrent rounds.",
 "C17": "Digests that mean something.",
 "C18": "Future-dated CRL entries; an unsigned twin supplying what the signed TCB Info omits.",
 "C19": "Forged and re-signed quotes through the tool; the rtmrs flag over a config list.",
 "C20": "A real-time watchdog around every virtual-clock case; sub-millisecond delays; negative timeouts.",
}
for _k, _v in ROUND10.items():
    _c = CHECKS[_k]
    CHECKS[_k] = (_c[0], _c[1], _c[2] + " " + _v, _c[3], _c[4])

BUILT_FILE = os.path.join(os.path.dirname(__file__), "built.txt")


def main():
    built = [l.strip() for l in open(BUILT_FILE) if l.strip() and not l.startswith("#")] if os.path.exists(BUILT_FILE) else []
    checks = []
    for pid in sorted(CHECKS):
        if pid not in built:
            continue
        level, tech, text, note, ref = CHECKS[pid]
        checks.append({
            "property_id": pid,
            "quick_cmd": f"./vcheck {pid} quick",
            "thorough_cmd": f"./vcheck {pid} thorough",
            "evidence_file": f"/verif/evidence/{pid}.json",
            "replay_cmd_template": "./vcheck replay {path}",
            "engine": "harness26" if pid == "C20" else "harness",
            "level_claimed": {"category": level, "text": text, "design_ref": ref},
            "level_note": note,
            "technique": tech,
        })
    na = [{"property_id": pid, "reason": "check designed (DESIGN.md) but not yet built and validated in this tree; not claimed until it is"} for pid in sorted(CHECKS) if pid not in built]
    m = {
        "version": 1,
        "setup_cmd": "./vcheck setup",
        "hooks": {
            "guard": "verif",
            "enable": "no hooks are needed: every property is observed through exported API, caller-supplied interfaces or the process boundary; the harness modules replace github.com/google/go-tdx-guest with /repo so every check rebuilds from the working tree",
            "baseline_off_cmd": "cd /repo && GOFLAGS=-mod=mod GOPROXY=off GOSUMDB=off go test -vet=off -count=1 ./...",
            "source_commits": [],
            "add_only": True,
        },
        "engines": [
            {"name": "harness", "path": "/verif/harness", "serves_properties": [p for p in sorted(CHECKS) if p != "C20"], "kind_free_text": "Go module: rapid v1.3.0 properties, exhaustive grids, native go-fuzz targets, reference models and codec (default toolchain)"},
            {"name": "harness26", "path": "/verif/harness26", "serves_properties": ["C20"], "kind_free_text": "Go 1.26.8 module using testing/synctest for a virtual clock"},
        ],
        "checks": checks,
        "notes": "Technique family: property-based testing and fuzzing. ./vcheck <id> <tier> builds the harness against /repo's working tree, runs the property in its own processes, merges evidence and maps outcomes to exit 0/1/2 (2 = inconclusive). Known findings: KNOWN_FINDINGS.txt.",
        "not_applicable": na,
    }
    json.dump(m, open("/verif/MANIFEST.json", "w"), indent=1)
    print("wrote MANIFEST.json with", len(checks), "checks")


if __name__ == "__main__":
    main()
