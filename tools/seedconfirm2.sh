#!/bin/bash
# usage: tools/seedconfirm2.sh <seeddir> <k> <demo-package-dir> [extra go test flags]  (scratch worktree per call)
set -u
sd=$1; k=$2; dir=$3; shift 3
wt=/tmp/seedconf-$$
git -C /repo worktree add --detach $wt HEAD >/dev/null 2>&1 || exit 9
trap 'git -C /repo worktree remove --force '$wt' >/dev/null 2>&1' EXIT
export GOFLAGS=-mod=mod GOPROXY=off GOSUMDB=off GOTOOLCHAIN=local
cd $wt
cp $sd/demo${k}_test.go $wt/$dir/zz_seed_demo_test.go
if go test -vet=off -count=1 "$@" ./$dir/ >/tmp/confirm.$$ 2>&1; then echo "demo without change: PASS"; else echo "demo without change: FAIL (unexpected)"; tail -5 /tmp/confirm.$$; fi
rm $wt/$dir/zz_seed_demo_test.go
if ! git apply $sd/patch$k.diff; then echo "patch does not apply"; exit 8; fi
if go test -vet=off -count=1 ./... >/tmp/confirm.$$ 2>&1; then echo "existing suite with change: PASS"; else echo "existing suite with change: FAIL"; grep -E "^(--- FAIL|FAIL)" /tmp/confirm.$$ | head; fi
cp $sd/demo${k}_test.go $wt/$dir/zz_seed_demo_test.go
if go test -vet=off -count=1 "$@" ./$dir/ >/tmp/confirm.$$ 2>&1; then echo "demo with change: PASS (unexpected)"; else echo "demo with change: FAIL (as intended)"; fi
rm -f /tmp/confirm.$$
