module verifharness26

go 1.26.8

require (
	a0quiet v0.0.0
	github.com/google/go-tdx-guest v0.0.0
	github.com/google/logger v1.1.1
	pgregory.net/rapid v1.3.0
	verifharness v0.0.0
)

require (
	go.uber.org/multierr v1.11.0 // indirect
	golang.org/x/crypto v0.17.0 // indirect
	google.golang.org/protobuf v1.34.2 // indirect
)

replace github.com/google/go-tdx-guest => /repo

replace verifharness => ../harness

replace a0quiet => ../harness/quiet
