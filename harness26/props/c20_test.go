package props

import (
	"context"
	"errors"
	"fmt"
	"io"
	"math"
	"net/url"
	"os"
	"reflect"
	"runtime"
	"strings"
	"sync/atomic"
	"testing"
	"testing/synctest"
	"time"

	"github.com/google/go-tdx-guest/verify/trust"
	"pgregory.net/rapid"
	"verifharness/gen"
)

// scripted wrapped getter: attempt i (1-based) fails unless i == successAt; each attempt
// takes dur of (virtual) time.
type scripted struct {
	successAt int // 0 = never
	dur       time.Duration
	header    map[string][]string
	body      []byte
	starts    []time.Time
	ends      []time.Time
	runaway   bool
	overrun   bool // an attempt was made after the successful one, or attemptsCap was reached
	extra     int  // attempts after the successful one
	cap       int  // > 0: more attempts than this are beyond every bound of the case (timeouts of zero or less: one attempt)
	same      int // consecutive attempts started at the same (virtual) instant
	errKind   int // which error value failed attempts return (varied per attempt)
	firstDur  time.Duration
}

// netTimeout is a net.Error-shaped failure.
type netTimeout struct{}

func (netTimeout) Error() string   { return "i/o timeout" }
func (netTimeout) Timeout() bool   { return true }
func (netTimeout) Temporary() bool { return true }

// sliceErr and structErr are error values of uncomparable dynamic types (an aggregate of errors, a value with a slice
// field): comparing two of them with == panics at run time.
type sliceErr []string

func (e sliceErr) Error() string { return "several errors: " + fmt.Sprint([]string(e)) }

type structErr struct {
	op    string
	parts []string
}

func (e structErr) Error() string { return e.op + fmt.Sprint(e.parts) }

const nErrKinds = 10

// failure returns the error of a failed attempt: whatever its kind, a failed attempt is just a failed attempt.
func failure(kind int, u string) error {
	switch kind % nErrKinds {
	case 1:
		return io.EOF
	case 2:
		return &url.Error{Op: "Get", URL: u, Err: context.DeadlineExceeded} // what an http.Client with its own Timeout returns
	case 3:
		return fmt.Errorf("wrapped: %w", context.Canceled)
	case 4:
		return os.ErrDeadlineExceeded
	case 5:
		return netTimeout{}
	case 6:
		return errors.New("timeout")
	case 7:
		return context.DeadlineExceeded
	case 8:
		return sliceErr{"connection reset", u}
	case 9:
		return structErr{"get ", []string{u}}
	}
	return errors.New("scripted failure")
}

const runawayAttempts = 20000

// attemptsCap is far above what any case of the checks lets a correct getter make (the grid's ten minutes of 1 ms waits: 600000).
const attemptsCap = 5000000

const overrunSentinel = "verif: the retrying getter went on after the success / beyond every bound"

func (s *scripted) durOf(attempt int) time.Duration {
	if attempt == 1 && s.firstDur > 0 {
		return s.firstDur
	}
	return s.dur
}

func (s *scripted) Get(url string) (map[string][]string, []byte, error) {
	now := time.Now()
	if n := len(s.starts); n > 0 && now.Equal(s.starts[n-1]) {
		s.same++
	} else {
		s.same = 0
	}
	if s.same >= runawayAttempts {
		// a retry loop that never lets (virtual) time advance: force the clock forward so the call can end, and report it
		s.runaway = true
		time.Sleep(24 * time.Hour)
		return nil, nil, errors.New("scripted failure (runaway)")
	}
	if s.successAt > 0 && len(s.starts) >= s.successAt {
		// an attempt after the successful one (from the call itself or from something it left running): noted, and
		// answered with the success again so that whatever loop asks comes to an end
		s.overrun = true
		s.extra++
		if s.extra < 1000 {
			return s.header, s.body, nil
		}
	}
	if len(s.starts) >= attemptsCap || s.extra >= 1000 || (s.cap > 0 && len(s.starts) >= s.cap) {
		// more attempts than any setting of the checks allows: with a timeout as large as the type allows such a call
		// would go on for ever - unwind it (safeGet reports what happened)
		s.overrun = true
		panic(overrunSentinel)
	}
	s.starts = append(s.starts, now)
	if d := s.durOf(len(s.starts)); d > 0 {
		time.Sleep(d)
	}
	s.ends = append(s.ends, time.Now())
	if len(s.starts) == s.successAt {
		return s.header, s.body, nil
	}
	return failedHeaders[(s.errKind*7+len(s.starts))%len(failedHeaders)], []byte("failure body"), failure(s.errKind+len(s.starts)*(s.errKind/nErrKinds), url)
}

// failedHeaders are what a failed attempt may return next to its error (e.g. the headers of a 429 / 503 answer):
// they are not a success, and whatever they say the waits stay positive and at most MaxRetryDelay.
var failedHeaders = []map[string][]string{
	nil, {"X-Failed": {"1"}}, {"Retry-After": {"0"}}, {"Retry-After": {"1"}}, {"retry-after": {"0"}}, {"Retry-After": {"-5"}}, {"Retry-After": {"99999999999999999999"}},
	{"Retry-After": {"Wed, 21 Oct 2015 07:28:00 GMT"}}, {"Retry-After": {"0", "30"}}, {"Retry-After": {""}}, {"Retry-After": {"86400"}}, {},
}

type c20Case struct {
	Timeout, MaxDelay, Dur time.Duration
	FirstDur               time.Duration // duration of the first attempt when it differs from the others (0 = Dur)
	Earlier                time.Duration // > 0: the getter value served an earlier call, this long before the judged one
	SuccessAt              int
	HeaderKind, BodyLen    int
	ErrKind                int // < nErrKinds: every failure of that kind; >= nErrKinds: kinds vary per attempt
}

func (c c20Case) String() string {
	first := ""
	if c.FirstDur > 0 {
		first = fmt.Sprintf(" firstAttemptDuration=%v", c.FirstDur)
	}
	if c.Earlier > 0 {
		first += fmt.Sprintf(" getterValueUsed=%vEarlier", c.Earlier)
	}
	return fmt.Sprintf("timeout=%v maxRetryDelay=%v attemptDuration=%v%s successAt=%d errKind=%d", c.Timeout, c.MaxDelay, c.Dur, first, c.SuccessAt, c.ErrKind)
}

// newScripted builds the wrapped getter of one call.
func newScripted(c c20Case, s *gen.Stream) (*scripted, []byte) {
	sg := &scripted{successAt: c.SuccessAt, dur: c.Dur, errKind: c.ErrKind, firstDur: c.FirstDur}
	if c.Timeout < 0 {
		sg.cap = 1000 // the time is up before the call starts
	}
	switch c.HeaderKind {
	case 0:
		sg.header = nil
	case 1:
		sg.header = map[string][]string{}
	default:
		// (a success is a success whatever its headers claim about the body)
		sg.header = map[string][]string{"Tcb-Info-Issuer-Chain": {string(s.Bytes(40))}, "X-Multi": {"a", "b"}, "Content-Length": {"1048577"}, "content-length": {"7"}, "Retry-After": {"120"}, "Transfer-Encoding": {"chunked"}}
	}
	if c.BodyLen >= 0 {
		sg.body = s.Bytes(c.BodyLen)
		// bodies that begin or end like text a tidy-minded layer would normalise: a UTF-8 byte-order mark (once, twice,
		// alone), leading / trailing white space, a trailing NUL - the body is returned byte for byte
		shapes := [][2]string{{"", ""}, {"\xef\xbb\xbf", ""}, {"\xef\xbb\xbf\xef\xbb\xbf", ""}, {" \r\n\t", ""}, {"", "\r\n"}, {"", "\x00"}, {"\xff\xfe", ""}, {"\xef\xbb", ""}}
		sh := shapes[(c.BodyLen+c.HeaderKind*3+c.ErrKind)%len(shapes)]
		if c.BodyLen >= 8 {
			copy(sg.body, sh[0])
			copy(sg.body[len(sg.body)-len(sh[1]):], sh[1])
		} else if c.BodyLen == 1 && c.ErrKind%2 == 1 {
			sg.body = []byte("\xef\xbb\xbf") // nothing but a byte-order mark
		}
	}
	var wantBody []byte
	if sg.body != nil {
		wantBody = append([]byte{}, sg.body...)
	}
	return sg, wantBody
}

// judge applies the oracle to one finished call. It returns (key, detail) on violation.
func judge(c c20Case, sg *scripted, wantBody []byte, h map[string][]string, b []byte, err error, elapsed time.Duration) (string, string) {
	attempts := len(sg.starts)
	if sg.overrun {
		if sg.successAt > 0 {
			return "attempt-after-success", fmt.Sprintf("%s: attempt %d succeeded and a further attempt was made", c, sg.successAt)
		}
		return "no-give-up", fmt.Sprintf("%s: %d attempts and no end", c, attempts)
	}
	if sg.runaway {
		return "busy-loop", fmt.Sprintf("%s: %d attempts in a row without the clock advancing", c, runawayAttempts)
	}
	// (2) spacing between failed attempts
	for i := 1; i < attempts; i++ {
		gap := sg.starts[i].Sub(sg.ends[i-1])
		if gap > c.MaxDelay {
			return "wait-exceeds-max-retry-delay", fmt.Sprintf("%s: wait %d lasted %v", c, i, gap)
		}
		if c.MaxDelay > 0 && gap <= 0 {
			return "busy-loop", fmt.Sprintf("%s: no wait before attempt %d", c, i+1)
		}
	}
	if err == nil {
		// (1) the first success, intact, and nothing after it
		if c.SuccessAt == 0 || attempts != c.SuccessAt {
			return "success-from-wrong-attempt", fmt.Sprintf("%s: nil error after %d attempts", c, attempts)
		}
		if !reflect.DeepEqual(h, sg.header) || (h == nil) != (sg.header == nil) {
			return "headers-modified", fmt.Sprintf("%s: got %v want %v", c, h, sg.header)
		}
		if string(b) != string(wantBody) || (b == nil) != (wantBody == nil) {
			return "body-modified", fmt.Sprintf("%s: got %d bytes want %d", c, len(b), len(wantBody))
		}
		return "", ""
	}
	// error outcome
	if c.SuccessAt != 0 && attempts >= c.SuccessAt {
		return "success-discarded", fmt.Sprintf("%s: attempt %d succeeded but an error was returned: %v", c, c.SuccessAt, err)
	}
	// (3) bounded give-up
	bound := satAdd(satAdd(maxDur(c.Timeout, 0), c.MaxDelay), 2*c.Dur+time.Millisecond)
	if c.FirstDur > 0 && attempts <= 1 {
		bound = satAdd(bound, c.FirstDur) // the only attempt was the slow one: it is allowed to finish
	}
	if elapsed > bound {
		return "gives-up-too-late", fmt.Sprintf("%s: returned the error after %v (bound %v)", c, elapsed, bound)
	}
	// (1') must not give up while the timeout still allows the successful attempt
	if c.SuccessAt != 0 {
		latestStart := satAdd(satMul(c.SuccessAt-1, satAdd(c.Dur, c.MaxDelay)), maxDur(c.FirstDur-c.Dur, 0))
		if satAdd(latestStart, c.Dur) < c.Timeout {
			return "gives-up-too-early", fmt.Sprintf("%s: attempt %d would have started by %v at the latest, well inside the timeout, but an error was returned after %d attempts at %v", c, c.SuccessAt, latestStart, attempts, elapsed)
		}
	}
	return "", ""
}

// runCase executes the retrying getter inside the current bubble and applies the oracle.
// It returns (key, detail) on violation.
func runCase(c c20Case, s *gen.Stream) (string, string) {
	sg, wantBody := newScripted(c, s)
	r := &trust.RetryHTTPSGetter{Timeout: c.Timeout, MaxRetryDelay: c.MaxDelay, Getter: sg}
	if c.Earlier > 0 {
		// the getter VALUE has been used before (a long-lived Options value): an earlier call that succeeded at once,
		// then a pause; every call has its own timeout
		warm := &scripted{successAt: 1, body: []byte("earlier answer")}
		r.Getter = byURL{"https://example.test/earlier": warm, "https://example.test/x": sg}
		if _, _, err, crash := safeGet(r, "https://example.test/earlier"); err != nil || crash != "" {
			return "earlier-call-failed", fmt.Sprintf("%s: an immediate success was answered with %v %s", c, err, crash)
		}
		time.Sleep(c.Earlier)
	}
	t0 := time.Now()
	h, b, err, crash := safeGet(r, "https://example.test/x")
	if crash != "" && !sg.overrun {
		return "panic", fmt.Sprintf("%s: Get crashed: %s", c, crash)
	}
	elapsed := time.Since(t0)
	attempts := len(sg.starts)
	if key, detail := judge(c, sg, wantBody, h, b, err, elapsed); key != "" {
		return key, detail
	}
	if err == nil {
		time.Sleep(3 * time.Hour) // virtual: would expose a background retry
		synctest.Wait()
		if len(sg.starts) != attempts {
			return "attempt-after-success", fmt.Sprintf("%s: %d further attempts after the success was returned", c, len(sg.starts)-attempts)
		}
	}
	return "", ""
}

// safeGet calls the retrying getter and turns a panic into a value (the property: "returns ... or an error").
func safeGet(r *trust.RetryHTTPSGetter, u string) (h map[string][]string, b []byte, err error, crash string) {
	defer func() {
		if p := recover(); p != nil {
			crash = fmt.Sprint(p)
		}
	}()
	h, b, err = r.Get(u)
	return
}

// byURL dispatches to one scripted getter per URL, so that several callers can share one retrying getter.
type byURL map[string]*scripted

func (m byURL) Get(u string) (map[string][]string, []byte, error) { return m[u].Get(u) }

// runConcurrent lets len(cs) callers use ONE retrying getter at overlapping times (same Timeout and
// MaxRetryDelay, taken from cs[0]); every call is judged by the same oracle as a lone call, measured from its own start.
func runConcurrent(cs []c20Case, s *gen.Stream) (string, string) {
	type result struct {
		h       map[string][]string
		b       []byte
		err     error
		elapsed time.Duration
	}
	m := byURL{}
	sgs := make([]*scripted, len(cs))
	wants := make([][]byte, len(cs))
	for i := range cs {
		cs[i].Timeout, cs[i].MaxDelay = cs[0].Timeout, cs[0].MaxDelay
		sgs[i], wants[i] = newScripted(cs[i], s)
		m[fmt.Sprintf("https://example.test/%d", i)] = sgs[i]
	}
	r := &trust.RetryHTTPSGetter{Timeout: cs[0].Timeout, MaxRetryDelay: cs[0].MaxDelay, Getter: m}
	res := make([]result, len(cs))
	done := make(chan int, len(cs))
	for i := range cs {
		go func(i int) {
			t0 := time.Now()
			h, b, err, crash := safeGet(r, fmt.Sprintf("https://example.test/%d", i))
			if crash != "" {
				err = fmt.Errorf("Get crashed: %s", crash)
				crashed.Store(crash)
			}
			res[i] = result{h, b, err, time.Since(t0)}
			done <- i
		}(i)
	}
	for range cs {
		<-done
	}
	if c, ok := crashed.Load().(string); ok && c != "" {
		crashed.Store("")
		return "panic:concurrent", fmt.Sprintf("a caller sharing one retrying getter crashed: %s", c)
	}
	for i, c := range cs {
		if key, detail := judge(c, sgs[i], wants[i], res[i].h, res[i].b, res[i].err, res[i].elapsed); key != "" {
			return key + ":concurrent", fmt.Sprintf("caller %d of %d sharing one retrying getter: %s", i+1, len(cs), detail)
		}
	}
	return "", ""
}

var crashed atomic.Value

var durs = []time.Duration{0, time.Millisecond, time.Second, 4 * time.Second, 5 * time.Second, 30 * time.Second, 2 * time.Minute, 10 * time.Minute}

func fail(t gen.TB, key, detail string, c c20Case) {
	gen.Fail(t, gen.Violation{Key: key, Oracle: "first success returned intact with no further attempt; waits positive and at most MaxRetryDelay; error by roughly Timeout + one delay", Detail: detail,
		Replay: map[string]any{"kind": "retry", "timeout_ns": int64(c.Timeout), "max_ns": int64(c.MaxDelay), "dur_ns": int64(c.Dur), "success_at": c.SuccessAt, "header_kind": c.HeaderKind, "body_len": c.BodyLen, "err_kind": c.ErrKind}})
}

func TestC20(t *testing.T) {
	// (a) the grid, every k from 0 up to beyond what the timeout allows, and failures forever
	gen.Direct(t, "grid", func(t *testing.T) {
		timeouts := []time.Duration{0, time.Millisecond, time.Second, 5 * time.Second, 2 * time.Minute, 10 * time.Minute}
		maxes := []time.Duration{0, time.Millisecond, time.Second, 4 * time.Second, 30 * time.Second, 10 * time.Minute}
		attemptDurs := []time.Duration{0, time.Millisecond, 100 * time.Millisecond, 3 * time.Second}
		idx := 0
		for _, to := range timeouts {
			for _, mx := range maxes {
				for _, d := range attemptDurs {
					if mx == 0 && d == 0 {
						continue // zero wait and zero-length attempts never let (virtual) time advance: not a meaningful schedule
					}
					// how many attempts could at most fit: waits are at least ~min(mx, 1ms) > 0 apart
					step := d + mx
					if mx > 4*time.Second {
						step = d + 4*time.Second
					}
					kmax := int(to/step) + 3
					if kmax > 60 {
						kmax = 60
					}
					for k := 0; k <= kmax; k++ {
						idx++
						if !gen.ShardOwns(idx) {
							continue
						}
						c := c20Case{Timeout: to, MaxDelay: mx, Dur: d, SuccessAt: k, HeaderKind: idx % 3, BodyLen: []int{-1, 0, 17, 1 << 16}[idx%4], ErrKind: (idx / 3) % (2 * nErrKinds)}
						var key, detail string
						if wk, wd := watched(func() {
							synctest.Test(t, func(t *testing.T) {
								key, detail = runCase(c, gen.NewStream(uint64(idx), "c20"))
							})
						}); wk != "" {
							key, detail = wk, c.String()+": "+wd
						}
						if key == "inconclusive" {
							gen.Inconclusive(detail)
							return
						}
						gen.Eval()
						if key != "" {
							fail(t, key, detail, c)
							return
						}
						if k != 1 {
							gen.NonTrivial(c.String())
						}
						gen.Class(map[bool]string{true: "failures-forever", false: "k-failures-then-success"}[k == 0])
						if idx%97 == 0 {
							gen.Sample("grid", c.String())
						}
					}
				}
			}
		}
		gen.Exhaustive("grid of 6 timeouts x 6 max delays x 4 attempt durations x every k from 'never' to beyond what the timeout allows (capped at 60)", true)
	})
	// (a') settings as large as the type allows: "retry for ever" is written as the largest duration (or a century or
	// two); a success after a few failures is still returned, the waits are still waits
	gen.Direct(t, "largest-settings", func(t *testing.T) {
		year := 365 * 24 * time.Hour
		// (negative timeouts: the time is up before the call starts - one attempt, then the error)
		timeouts := []time.Duration{math.MaxInt64, math.MaxInt64 - time.Second, math.MaxInt64 / 2, math.MaxInt64/2 + 1, 200 * year, 150 * year, 100 * year, -time.Nanosecond, -time.Second, -100 * year, math.MinInt64}
		maxes := []time.Duration{time.Nanosecond, 999 * time.Nanosecond, 10 * time.Microsecond, 999 * time.Microsecond, time.Millisecond, time.Second, 4 * time.Second, 30 * time.Second, 10 * time.Minute, 100 * year, 150 * year, math.MaxInt64}
		idx := 0
		for _, to := range timeouts {
			for _, mx := range maxes {
				for _, d := range []time.Duration{0, time.Millisecond, 3 * time.Second} {
					for _, k := range []int{0, 1, 2, 3, 7, 20} {
						if k == 0 && to > time.Second {
							continue // failures for ever under a timeout of centuries: no end to wait for
						}
						idx++
						if !gen.ShardOwns(idx) {
							continue
						}
						c := c20Case{Timeout: to, MaxDelay: mx, Dur: d, SuccessAt: k, HeaderKind: idx % 3, BodyLen: []int{-1, 0, 17, 300}[idx%4], ErrKind: (idx / 3) % (2 * nErrKinds)}
						if idx%5 == 0 {
							c.Earlier = time.Hour
						}
						var key, detail string
						if wk, wd := watched(func() {
							synctest.Test(t, func(t *testing.T) {
								key, detail = runCase(c, gen.NewStream(uint64(idx), "c20big"))
							})
						}); wk != "" {
							key, detail = wk, c.String()+": "+wd
						}
						if key == "inconclusive" {
							gen.Inconclusive(detail)
							return
						}
						gen.Eval()
						if key != "" {
							fail(t, key, detail, c)
							return
						}
						if k != 1 {
							gen.NonTrivial(c.String())
						}
						gen.Class("largest-settings")
						if idx%41 == 0 {
							gen.Sample("largest-settings", c.String())
						}
					}
				}
			}
		}
	})
	// (b) random settings under the virtual clock
	gen.Prop(t, "random", gen.N(3000, 400000), func(t *rapid.T) {
		c := c20Case{
			Timeout:    time.Duration(rapid.OneOf(rapid.SampledFrom(durs), rapid.Map(rapid.Int64Range(0, int64(20*time.Minute)), func(v int64) time.Duration { return time.Duration(v) })).Draw(t, "timeout")),
			MaxDelay:   time.Duration(rapid.OneOf(rapid.SampledFrom(durs), rapid.Map(rapid.Int64Range(0, int64(2*time.Minute)), func(v int64) time.Duration { return time.Duration(v) })).Draw(t, "max")),
			Dur:        time.Duration(rapid.SampledFrom([]time.Duration{0, time.Microsecond, time.Millisecond, 250 * time.Millisecond, 3 * time.Second, time.Minute}).Draw(t, "dur")),
			SuccessAt:  rapid.OneOf(rapid.Just(0), rapid.IntRange(1, 12), rapid.IntRange(1, 200)).Draw(t, "successAt"),
			HeaderKind: rapid.IntRange(0, 2).Draw(t, "hdr"),
			BodyLen:    rapid.SampledFrom([]int{-1, 0, 1, 300, 1 << 20}).Draw(t, "body"),
			ErrKind:    rapid.IntRange(0, 2*nErrKinds-1).Draw(t, "errkind"),
		}
		if c.MaxDelay < time.Microsecond && c.Dur == 0 {
			c.Dur = time.Millisecond
		}
		// a first attempt that is much slower than the later ones (a cold connection): the timeout runs from the start of
		// the call, not from the end of the first attempt
		switch rapid.IntRange(0, 5).Draw(t, "getterValueUsedBefore") {
		case 0:
			c.Earlier = time.Nanosecond
		case 1:
			c.Earlier = c.Timeout/2 + time.Millisecond
		case 2:
			c.Earlier = 2*c.Timeout + time.Second
		}
		switch rapid.IntRange(0, 3).Draw(t, "slowFirstAttempt") {
		case 0:
			c.FirstDur = c.Timeout * 9 / 10
		case 1:
			c.FirstDur = c.Timeout / 2
		}
		// keep the number of attempts a case can make bounded
		if step := c.Dur + minDur(c.MaxDelay, 4*time.Second); step > 0 && c.Timeout/step > 5000 {
			c.Timeout = step * 5000
		}
		var key, detail string
		if wk, wd := watched(func() {
			rapid.SyncTest(t, func(t *rapid.T) {
				key, detail = runCase(c, gen.NewStream(uint64(c.Timeout)^uint64(c.SuccessAt), "c20r"))
			})
		}); wk != "" {
			key, detail = wk, c.String()+": "+wd
		}
		if key == "inconclusive" {
			gen.Inconclusive(detail)
			t.Skip("inconclusive")
		}
		gen.Eval()
		if key != "" {
			fail(t, key, detail, c)
			return
		}
		if c.SuccessAt != 1 {
			gen.NonTrivial(c.String())
		}
		gen.Sample("random", c.String())
	})
	// (c) several callers sharing one retrying getter at overlapping times (the default getter is one shared value)
	gen.Direct(t, "concurrent-callers", func(t *testing.T) {
		n := gen.N(600, 60000)
		tos := []time.Duration{0, time.Second, 5 * time.Second, 2 * time.Minute}
		mxs := []time.Duration{time.Millisecond, time.Second, 4 * time.Second, 30 * time.Second}
		ds := []time.Duration{0, time.Millisecond, 250 * time.Millisecond, 3 * time.Second}
		for i := 0; i < n; i++ {
			s := gen.NewStream(gen.ProcSeed()+uint64(i), "c20conc")
			cs := make([]c20Case, 2+s.Intn(4))
			to, mx := tos[s.Intn(len(tos))], mxs[s.Intn(len(mxs))]
			for j := range cs {
				cs[j] = c20Case{Timeout: to, MaxDelay: mx, Dur: ds[s.Intn(len(ds))], SuccessAt: s.Intn(7) * s.Intn(2), HeaderKind: s.Intn(3), BodyLen: []int{-1, 0, 300}[s.Intn(3)], ErrKind: s.Intn(2 * nErrKinds)}
			}
			key, detail := runConcurrentWatched(t, cs, s)
			gen.EvalN(len(cs))
			if key == "inconclusive" {
				gen.Inconclusive(detail)
				return
			}
			if key != "" {
				var calls []any
				for _, c := range cs {
					calls = append(calls, map[string]any{"timeout_ns": int64(c.Timeout), "max_ns": int64(c.MaxDelay), "dur_ns": int64(c.Dur), "success_at": c.SuccessAt, "header_kind": c.HeaderKind, "body_len": c.BodyLen, "err_kind": c.ErrKind})
				}
				gen.Fail(t, gen.Violation{Key: key, Oracle: "every caller of a shared retrying getter gets its own first success intact, or its own error by roughly Timeout + one delay", Detail: detail,
					Replay: map[string]any{"kind": "retry-concurrent", "calls": calls}})
				return
			}
			failing := 0
			for _, c := range cs {
				if c.SuccessAt != 1 {
					failing++
				}
			}
			if failing >= 2 {
				gen.NonTrivial("concurrent", fmt.Sprint(cs))
			}
			gen.Class(fmt.Sprintf("concurrent-callers:%d", len(cs)))
			if i < 5 {
				gen.Sample("concurrent", fmt.Sprint(cs))
			}
		}
	})
}

// runConcurrentWatched runs the callers in a bubble of their own under a real-time watchdog. Inside a
// bubble the virtual clock only advances when every goroutine is durably blocked; a caller parked on a
// lock that a sleeping caller holds is not, so such a getter stalls the bubble for good. The watchdog
// then inspects the goroutine stacks: a caller waiting for a lock inside RetryHTTPSGetter.Get while
// another one sleeps there is reported (callers are serialised behind each other's retry loops, so the
// give-up bound cannot hold for the later ones); any other stall is inconclusive.
func runConcurrentWatched(t *testing.T, cs []c20Case, s *gen.Stream) (key, detail string) {
	done := make(chan struct{})
	go func() {
		defer close(done)
		synctest.Test(t, func(t *testing.T) { key, detail = runConcurrent(cs, s) })
	}()
	select {
	case <-done:
		return key, detail
	case <-time.After(45 * time.Second):
	}
	buf := make([]byte, 1<<20)
	buf = buf[:runtime.Stack(buf, true)]
	for _, g := range strings.Split(string(buf), "\n\n") {
		if strings.Contains(g, "trust.(*RetryHTTPSGetter).Get") && (strings.Contains(g, "sync.(*Mutex).Lock") || strings.Contains(g, "sync.(*RWMutex).") || strings.Contains(g, "sync.runtime_Semacquire")) {
			return "callers-block-each-other:concurrent", fmt.Sprintf("%d callers sharing one retrying getter: a caller waits for a lock inside RetryHTTPSGetter.Get while another caller sleeps between attempts, so the later caller cannot give up by its own Timeout + one delay (settings %v)", len(cs), cs)
		}
	}
	return "inconclusive", "concurrent callers did not finish within 45 s of real time and no caller is waiting for a lock"
}

// watched runs one virtual-clock case under a real-time limit. A case takes milliseconds of real time whatever its
// virtual durations; one that is still going after 40 s is spinning inside the bubble (virtual time only advances when
// every goroutine of the bubble is blocked) - or the machine is hopelessly slow, which is reported as inconclusive.
// spinning is set once a call has been found spinning: the goroutine cannot be stopped and keeps a processor busy, every
// further case that meets the same defect would cost another 40 s - the finding is reported, the rest of the run is cut short.
var spinning atomic.Bool

func watched(run func()) (key, detail string) {
	if spinning.Load() {
		return "", ""
	}
	done := make(chan struct{})
	go func() {
		defer close(done)
		run()
	}()
	select {
	case <-done:
		return "", ""
	case <-time.After(40 * time.Second):
	}
	buf := make([]byte, 1<<20)
	buf = buf[:runtime.Stack(buf, true)]
	for _, g := range strings.Split(string(buf), "\n\n") {
		if strings.Contains(g, "trust.(*RetryHTTPSGetter).Get") && (strings.Contains(g, "[running") || strings.Contains(g, "[runnable")) {
			spinning.Store(true)
			return "busy-loop", "the call keeps the processor without letting (virtual) time pass: still running after 40 s of real time, not blocked in a wait"
		}
	}
	return "inconclusive", "a virtual-clock case did not finish within 40 s of real time and the retrying getter is not on the processor"
}

// satAdd and satMul are additions / multiplications of non-negative durations that stop at the largest duration (the
// settings are caller-chosen and may be as large as the type allows).
func satAdd(a, b time.Duration) time.Duration {
	if a > math.MaxInt64-b {
		return math.MaxInt64
	}
	return a + b
}

func satMul(n int, d time.Duration) time.Duration {
	if n <= 0 || d <= 0 {
		return 0
	}
	if d > math.MaxInt64/time.Duration(n) {
		return math.MaxInt64
	}
	return time.Duration(n) * d
}

func minDur(a, b time.Duration) time.Duration {
	if a < b {
		return a
	}
	return b
}

func maxDur(a, b time.Duration) time.Duration {
	if a > b {
		return a
	}
	return b
}
