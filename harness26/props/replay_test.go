package props

import (
	"encoding/json"
	"fmt"
	"os"
	"testing"
	"testing/synctest"
	"time"

	"verifharness/gen"
)

// TestReplayFile re-runs a saved retry case (the outcome of a tie in select is random, so the
// case is repeated; one violating run is enough).
func TestReplayFile(t *testing.T) {
	path := os.Getenv("VERIF_REPLAY_FILE")
	if path == "" {
		t.Skip("no replay file")
	}
	b, err := os.ReadFile(path)
	if err != nil {
		t.Fatal(err)
	}
	var v gen.Violation
	if err := json.Unmarshal(b, &v); err != nil {
		t.Fatal(err)
	}
	if v.Replay["kind"] == "retry-concurrent" {
		var cs []c20Case
		for _, e := range v.Replay["calls"].([]any) {
			m := e.(map[string]any)
			g := func(k string) int64 { x, _ := m[k].(float64); return int64(x) }
			cs = append(cs, c20Case{Timeout: time.Duration(g("timeout_ns")), MaxDelay: time.Duration(g("max_ns")), Dur: time.Duration(g("dur_ns")), SuccessAt: int(g("success_at")), HeaderKind: int(g("header_kind")), BodyLen: int(g("body_len")), ErrKind: int(g("err_kind"))})
		}
		for i := 0; i < 20; i++ {
			var key, detail string
			key, detail = runConcurrentWatched(t, cs, gen.NewStream(uint64(i), "replay"))
			if key != "" && key != "inconclusive" {
				fmt.Printf("REPLAY-VIOLATION property=%s key=%s %s\n", v.Property, key, detail)
				return
			}
		}
		fmt.Println("REPLAY-OK")
		return
	}
	if v.Replay["kind"] != "retry" {
		fmt.Println("REPLAY-UNSUPPORTED kind=", v.Replay["kind"])
		return
	}
	f := func(k string) int64 { x, _ := v.Replay[k].(float64); return int64(x) }
	c := c20Case{Timeout: time.Duration(f("timeout_ns")), MaxDelay: time.Duration(f("max_ns")), Dur: time.Duration(f("dur_ns")), SuccessAt: int(f("success_at")), HeaderKind: int(f("header_kind")), BodyLen: int(f("body_len")), ErrKind: int(f("err_kind"))}
	for i := 0; i < 60; i++ {
		var key, detail string
		synctest.Test(t, func(t *testing.T) { key, detail = runCase(c, gen.NewStream(uint64(i), "replay")) })
		if key != "" {
			fmt.Printf("REPLAY-VIOLATION property=%s key=%s %s\n", v.Property, key, detail)
			return
		}
	}
	fmt.Println("REPLAY-OK")
}
