package gen

import (
	"errors"
	"fmt"
	"strings"
)

// A reference reader for the SGX extension of a PCK certificate, written from Intel's description of the
// extension and from the property text, on an own strict DER reader (no encoding/asn1). It classifies any byte
// string three ways:
//
//	SgxWell      — the encoding is well formed and carries all six values exactly once: extraction must succeed and
//	               return exactly these values;
//	SgxMalformed — the encoding has a defect the property lists (broken DER framing, trailing bytes at any depth,
//	               a known member or TCB element that is not a pair, a wrong ASN.1 type, a wrong size, an integer
//	               that does not fit, not 18 TCB elements, fewer than four members): extraction must fail;
//	SgxDontCare  — anything the property does not classify (duplicates, unknown object identifiers in place of
//	               known ones, the legacy wrapped octet strings, constructed encodings of primitive types, tags
//	               above 30, odd unknown members): extraction may do either, it must only not crash.
type SgxClass int

const (
	SgxWell SgxClass = iota
	SgxMalformed
	SgxDontCare
)

func (c SgxClass) String() string { return [...]string{"well-formed", "malformed", "unclassified"}[c] }

type tlv struct {
	class       int
	tag         int
	constructed bool
	content     []byte
}

var errHighTag = errors.New("tag above 30")

// readTLV reads one strictly DER-framed element.
func readTLV(b []byte) (t tlv, rest []byte, err error) {
	if len(b) < 2 {
		return t, nil, errors.New("truncated header")
	}
	t.class, t.constructed, t.tag = int(b[0]>>6), b[0]&0x20 != 0, int(b[0]&0x1f)
	if t.tag == 0x1f {
		return t, nil, errHighTag
	}
	l := int(b[1])
	off := 2
	switch {
	case l == 0x80:
		return t, nil, errors.New("indefinite length")
	case l > 0x80:
		n := l & 0x7f
		if n > 4 || len(b) < 2+n {
			return t, nil, errors.New("bad length of length")
		}
		l = 0
		for i := 0; i < n; i++ {
			l = l<<8 | int(b[2+i])
		}
		if b[2] == 0 || l < 0x80 {
			return t, nil, errors.New("non-minimal length")
		}
		off = 2 + n
	}
	if l < 0 || len(b)-off < l {
		return t, nil, errors.New("content runs past the end")
	}
	t.content = b[off : off+l]
	return t, b[off+l:], nil
}

func readAll(b []byte) ([]tlv, error) {
	var out []tlv
	for len(b) > 0 {
		t, rest, err := readTLV(b)
		if err != nil {
			return nil, err
		}
		out = append(out, t)
		b = rest
	}
	return out, nil
}

func (t tlv) isSeq() bool { return t.class == 0 && t.tag == 0x10 && t.constructed }

// oidArcs decodes an OBJECT IDENTIFIER strictly (minimal base-128 groups, arcs that fit an int32).
func oidArcs(c []byte) ([]int, error) {
	if len(c) == 0 {
		return nil, errors.New("empty OID")
	}
	var vals []int64
	var cur int64
	started := false
	for i, b := range c {
		if !started && b == 0x80 {
			return nil, errors.New("non-minimal OID arc")
		}
		started = true
		cur = cur<<7 | int64(b&0x7f)
		if cur > 1<<31-1 {
			return nil, errors.New("OID arc too large")
		}
		if b&0x80 == 0 {
			vals = append(vals, cur)
			cur, started = 0, false
		} else if i == len(c)-1 {
			return nil, errors.New("truncated OID arc")
		}
	}
	first := vals[0]
	var arcs []int
	switch {
	case first < 40:
		arcs = []int{0, int(first)}
	case first < 80:
		arcs = []int{1, int(first - 40)}
	default:
		arcs = []int{2, int(first - 80)}
	}
	for _, v := range vals[1:] {
		arcs = append(arcs, int(v))
	}
	return arcs, nil
}

func arcsEqual(a []int, b ...int) bool {
	if len(a) != len(b) {
		return false
	}
	for i := range a {
		if a[i] != b[i] {
			return false
		}
	}
	return true
}

type sgxVerdict struct {
	class SgxClass
	why   string
}

func malformed(f string, a ...any) sgxVerdict {
	return sgxVerdict{SgxMalformed, fmt.Sprintf(f, a...)}
}
func dontCare(f string, a ...any) sgxVerdict { return sgxVerdict{SgxDontCare, fmt.Sprintf(f, a...)} }

// refInt reads a DER INTEGER that must lie in 0..max.
func refInt(t tlv, max int64, what string) (int64, *sgxVerdict) {
	if t.class != 0 || t.tag != 0x02 {
		if t.class == 0 && t.tag == 0x10 || t.class != 0 || t.tag == 0x0a || t.tag == 0x05 || t.tag == 0x01 || t.tag == 0x04 || t.tag == 0x0c || t.tag == 0x03 || t.tag == 0x06 || t.tag == 0x13 || t.tag == 0x16 || t.tag == 0x17 || t.tag == 0x11 || t.tag == 0x09 {
			v := malformed("%s has another ASN.1 type (class %d tag %d)", what, t.class, t.tag)
			return 0, &v
		}
		v := dontCare("%s has a type outside the catalogue (tag %d)", what, t.tag)
		return 0, &v
	}
	if t.constructed {
		v := dontCare("%s is a constructed INTEGER", what)
		return 0, &v
	}
	c := t.content
	if len(c) == 0 {
		v := malformed("%s is an empty INTEGER", what)
		return 0, &v
	}
	if len(c) > 1 && (c[0] == 0 && c[1]&0x80 == 0 || c[0] == 0xff && c[1]&0x80 != 0) {
		v := malformed("%s is not minimally encoded", what)
		return 0, &v
	}
	if c[0]&0x80 != 0 {
		v := malformed("%s is negative", what)
		return 0, &v
	}
	if len(c) > 8 {
		v := malformed("%s does not fit (more than 8 bytes)", what)
		return 0, &v
	}
	var n int64
	for _, b := range c {
		n = n<<8 | int64(b)
	}
	if n > max {
		v := malformed("%s = %d does not fit its field", what, n)
		return 0, &v
	}
	return n, nil
}

// refOctets reads an OCTET STRING of exactly n bytes.
func refOctets(t tlv, n int, what string) ([]byte, *sgxVerdict) {
	if t.class != 0 || t.tag != 0x04 {
		v := malformed("%s has another ASN.1 type (class %d tag %d)", what, t.class, t.tag)
		return nil, &v
	}
	if t.constructed {
		v := dontCare("%s is a constructed OCTET STRING", what)
		return nil, &v
	}
	if len(t.content) == n {
		return t.content, nil
	}
	// the legacy wrapped form: an OCTET STRING whose content is the DER encoding of an OCTET STRING
	if in, rest, err := readTLV(t.content); err == nil && len(rest) == 0 && in.class == 0 && in.tag == 0x04 {
		v := dontCare("%s is in the wrapped form", what)
		return nil, &v
	}
	v := malformed("%s has %d bytes, not %d", what, len(t.content), n)
	return nil, &v
}

// RefSgxDecode classifies der and, when it is well formed, returns the values it encodes.
func RefSgxDecode(der []byte) (*SgxValues, SgxClass, string) {
	v, verdict, _ := refSgxDecode(der)
	if verdict.class != SgxWell {
		v = nil
	}
	return v, verdict.class, verdict.why
}

// RefSgxPartial is for encodings that are unclassified ONLY because TCB elements carry unknown object identifiers
// (so that some of the 18 known elements are missing): it returns the values of the known elements that are present
// exactly once (filled[k], k = 1..18) - an unknown element is no component, whatever it looks like.
func RefSgxPartial(der []byte) (*SgxValues, [19]bool, bool) {
	v, verdict, p := refSgxDecode(der)
	if verdict.class != SgxDontCare || !p.onlyUnknownTcbElements {
		return nil, [19]bool{}, false
	}
	return v, p.filled, true
}

type sgxPartial struct {
	filled                 [19]bool
	onlyUnknownTcbElements bool
}

func refSgxDecode(der []byte) (*SgxValues, sgxVerdict, sgxPartial) {
	v, verdict, part := refSgxDecode0(der)
	return v, verdict, part
}

func refSgxDecode0(der []byte) (out0 *SgxValues, verdict0 sgxVerdict, part sgxPartial) {
	part.onlyUnknownTcbElements = true
	otherReason := func() { part.onlyUnknownTcbElements = false }
	_ = otherReason
	out0, verdict0 = refSgxDecode1(der, &part)
	return
}

func refSgxDecode1(der []byte, part *sgxPartial) (*SgxValues, sgxVerdict) {
	hi := func(err error) bool { return errors.Is(err, errHighTag) }
	top, rest, err := readTLV(der)
	if err != nil {
		if hi(err) {
			return nil, dontCare("high tag at the top")
		}
		return nil, malformed("outer framing: %v", err)
	}
	if len(rest) != 0 {
		return nil, malformed("%d trailing bytes behind the extension value", len(rest))
	}
	if !top.isSeq() {
		return nil, malformed("the extension value is not a SEQUENCE")
	}
	members, err := readAll(top.content)
	if err != nil {
		if hi(err) {
			return nil, dontCare("high tag among the members")
		}
		return nil, malformed("member framing: %v", err)
	}
	if len(members) < 4 {
		return nil, malformed("only %d members", len(members))
	}
	out := &SgxValues{}
	seen := map[string]int{}
	var pending *sgxVerdict // the first don't-care reason; a later malformed finding still wins
	note := func(v sgxVerdict) *sgxVerdict {
		if v.class == SgxMalformed {
			return &v
		}
		if !strings.Contains(v.why, "carries an unknown object identifier") && !strings.HasSuffix(v.why, "appears 0 times") || strings.HasPrefix(v.why, "the ") {
			part.onlyUnknownTcbElements = false
		}
		if pending == nil {
			pending = &v
		}
		return nil
	}
	for mi, m := range members {
		if !m.isSeq() {
			return nil, malformed("member %d is not a SEQUENCE", mi)
		}
		first, restM, err := readTLV(m.content)
		if err != nil {
			if hi(err) {
				note(dontCare("high tag inside member %d", mi))
				continue
			}
			return nil, malformed("member %d: %v", mi, err)
		}
		if first.class != 0 || first.tag != 0x06 || first.constructed {
			return nil, malformed("member %d does not start with an object identifier", mi)
		}
		arcs, err := oidArcs(first.content)
		if err != nil {
			return nil, malformed("member %d: %v", mi, err)
		}
		known := ""
		switch {
		case arcsEqual(arcs, 1, 2, 840, 113741, 1, 13, 1, 1):
			known = "ppid"
		case arcsEqual(arcs, 1, 2, 840, 113741, 1, 13, 1, 2):
			known = "tcb"
		case arcsEqual(arcs, 1, 2, 840, 113741, 1, 13, 1, 3):
			known = "pceid"
		case arcsEqual(arcs, 1, 2, 840, 113741, 1, 13, 1, 4):
			known = "fmspc"
		}
		vals, verr := readAll(restM)
		if known == "" {
			// an unknown member is of no concern to the extraction; only the plainest shapes are surely harmless
			plain := verr == nil && len(vals) == 1 && vals[0].class == 0 && (vals[0].tag == 0x04 && !vals[0].constructed || vals[0].tag == 0x0a && !vals[0].constructed || vals[0].tag == 0x01 && !vals[0].constructed && len(vals[0].content) == 1 || vals[0].isSeq())
			if !plain {
				note(dontCare("unknown member %d of an odd shape", mi))
			}
			continue
		}
		seen[known]++
		if verr != nil {
			if hi(verr) {
				note(dontCare("high tag inside the %s member", known))
				continue
			}
			return nil, malformed("the %s member: %v", known, verr)
		}
		if len(vals) != 1 {
			return nil, malformed("the %s member has %d elements", known, len(vals)+1)
		}
		val := vals[0]
		switch known {
		case "ppid":
			b, bad := refOctets(val, 16, "PPID")
			if bad != nil {
				if r := note(*bad); r != nil {
					return nil, *r
				}
				continue
			}
			copy(out.PPID[:], b)
		case "pceid":
			b, bad := refOctets(val, 2, "PCE-ID")
			if bad != nil {
				if r := note(*bad); r != nil {
					return nil, *r
				}
				continue
			}
			copy(out.PceID[:], b)
		case "fmspc":
			b, bad := refOctets(val, 6, "FMSPC")
			if bad != nil {
				if r := note(*bad); r != nil {
					return nil, *r
				}
				continue
			}
			copy(out.Fmspc[:], b)
		case "tcb":
			if !val.isSeq() {
				return nil, malformed("the TCB value is not a SEQUENCE")
			}
			elems, err := readAll(val.content)
			if err != nil {
				if hi(err) {
					note(dontCare("high tag among the TCB elements"))
					continue
				}
				return nil, malformed("TCB element framing: %v", err)
			}
			if len(elems) != 18 {
				return nil, malformed("%d TCB elements", len(elems))
			}
			got := map[int]int{}
			for ei, e := range elems {
				if !e.isSeq() {
					return nil, malformed("TCB element %d is not a SEQUENCE", ei)
				}
				ek, err := readAll(e.content)
				if err != nil {
					if hi(err) {
						note(dontCare("high tag inside TCB element %d", ei))
						continue
					}
					return nil, malformed("TCB element %d: %v", ei, err)
				}
				if len(ek) != 2 {
					return nil, malformed("TCB element %d has %d elements", ei, len(ek))
				}
				if ek[0].class != 0 || ek[0].tag != 0x06 || ek[0].constructed {
					return nil, malformed("TCB element %d does not start with an object identifier", ei)
				}
				ea, err := oidArcs(ek[0].content)
				if err != nil {
					return nil, malformed("TCB element %d: %v", ei, err)
				}
				k := 0
				if len(ea) == 9 && arcsEqual(ea[:8], 1, 2, 840, 113741, 1, 13, 1, 2) && ea[8] >= 1 && ea[8] <= 18 {
					k = ea[8]
				}
				if k == 0 {
					note(dontCare("TCB element %d carries an unknown object identifier", ei))
					continue
				}
				got[k]++
				switch {
				case k <= 16:
					n, bad := refInt(ek[1], 255, fmt.Sprintf("component %d", k))
					if bad != nil {
						if r := note(*bad); r != nil {
							return nil, *r
						}
						continue
					}
					out.Comp[k-1] = byte(n)
				case k == 17:
					n, bad := refInt(ek[1], 65535, "PCE SVN")
					if bad != nil {
						if r := note(*bad); r != nil {
							return nil, *r
						}
						continue
					}
					out.PceSvn = uint16(n)
				default:
					b, bad := refOctets(ek[1], 16, "CPU SVN")
					if bad != nil {
						if bad.class == SgxDontCare && bad.why == "CPU SVN is in the wrapped form" {
							// the TCB path knows no wrapped form: a CPU SVN of another size is a wrong size
							m := malformed("CPU SVN has %d bytes, not 16", len(ek[1].content))
							bad = &m
						}
						if r := note(*bad); r != nil {
							return nil, *r
						}
						continue
					}
					copy(out.CpuSvn[:], b)
				}
			}
			for k := 1; k <= 18; k++ {
				if got[k] != 1 {
					note(dontCare("TCB element %d appears %d times", k, got[k]))
				} else {
					part.filled[k] = true
				}
			}
		}
	}
	for _, k := range []string{"ppid", "tcb", "pceid", "fmspc"} {
		if seen[k] != 1 {
			note(dontCare("the %s member appears %d times", k, seen[k]))
		}
	}
	if pending != nil {
		return out, *pending
	}
	return out, sgxVerdict{SgxWell, ""}
}
