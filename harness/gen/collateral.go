package gen

import (
	"encoding/hex"
	"encoding/json"
	"fmt"
	"net/url"
	"strings"
	"time"
)

// Status values of Intel's TCB levels.
var Statuses = []string{"UpToDate", "SWHardeningNeeded", "ConfigurationNeeded", "ConfigurationAndSWHardeningNeeded", "OutOfDate", "OutOfDateConfigurationNeeded", "Revoked"}

// Canonical header names (as net/http canonicalises them).
const (
	HdrTcbInfo = "Tcb-Info-Issuer-Chain"
	HdrQeID    = "Sgx-Enclave-Identity-Issuer-Chain"
	HdrPckCrl  = "Sgx-Pck-Crl-Issuer-Chain"

	QeIdentityURL = "https://api.trustedservices.intel.com/tdx/certification/v4/qe/identity"
)

// TcbInfoURL is the PCS URL for a TCB info document (fmspc as lower-case hex).
func TcbInfoURL(fmspcHex string) string {
	return "https://api.trustedservices.intel.com/tdx/certification/v4/tcb?fmspc=" + fmspcHex
}

// PlatformLevel is one entry of tcbInfo.tcbLevels.
type PlatformLevel struct {
	Sgx    [16]byte
	PceSvn uint16
	Tdx    [16]byte
	Status string
	Date   string // tcbDate; "" = a fixed default
	// SgxShape / TdxShape deform the component list of the level: "" (16 entries), "absent" (member missing),
	// "empty" ([]), "null", "short" (15 entries), "long" (17 entries), "one" (1 entry)
	SgxShape, TdxShape string
	// TdxTypes / SgxTypes label single components the way the PCS does ("category" and "type" members next to "svn"):
	// informational text, no part of the comparison. "" = no label.
	TdxTypes, SgxTypes [16]string
}

// Malformed tells whether a component list of the level is not a list of 16 entries.
func (l PlatformLevel) Malformed() bool { return l.SgxShape != "" || l.TdxShape != "" }

func compsShaped(key string, v [16]byte, shape string, types ...[16]string) string {
	full := comps(v)
	if len(types) == 1 {
		full = compsLabelled(v, types[0])
	}
	switch shape {
	case "absent":
		return ""
	case "empty":
		return `"` + key + `":[],`
	case "null":
		return `"` + key + `":null,`
	case "short":
		return `"` + key + `":` + full[:strings.LastIndex(full, ",")] + `],`
	case "long":
		return `"` + key + `":` + full[:len(full)-1] + `,{"svn":0}],`
	case "one":
		return `"` + key + `":` + full[:strings.Index(full, ",")] + `],`
	}
	return `"` + key + `":` + full + `,`
}

// ModuleLevel is one entry of a TDX module identity's tcbLevels.
type ModuleLevel struct {
	Isvsvn uint32
	Status string
	Date   string
	RawSvn string // see QeLevel.RawSvn
}

func svnText(v uint32, raw string) string {
	if raw != "" {
		return raw
	}
	return fmt.Sprint(v)
}

// ModuleIdentity is one entry of tcbInfo.tdxModuleIdentities.
type ModuleIdentity struct {
	ID         string
	Mrsigner   []byte
	Attributes []byte
	Mask       []byte
	Levels     []ModuleLevel
}

// TcbInfoDoc describes a TCB Info document.
type TcbInfoDoc struct {
	// DateZone: issueDate / nextUpdate are spelled in this zone with a numeric offset (the same instants; nil = "Z")
	DateZone *time.Location
	// UnknownMembers: the signed document carries members a later schema revision might add (ignored by today's readers)
	UnknownMembers bool
	TcbType        int // the document's tcbType member (0 in everything Intel has published so far; the level comparison is the same whatever it says)
	ID             string
	Version        int
	IssueDate      time.Time
	NextUpdate     time.Time
	Fmspc          string // rendered verbatim
	PceID          string // rendered verbatim
	Mrsigner       []byte
	Attributes     []byte
	Mask           []byte
	Identities     []ModuleIdentity
	Levels         []PlatformLevel
	UpperHex       bool
}

func (d *TcbInfoDoc) hx(b []byte) string {
	s := hex.EncodeToString(b)
	if d.UpperHex {
		s = strings.ToUpper(s)
	}
	return s
}

// js renders a string as a JSON string literal (control and non-ASCII characters escaped the JSON way).
func js(v string) string {
	b, _ := json.Marshal(v)
	return string(b)
}

func ts(t time.Time) string { return t.UTC().Format("2006-01-02T15:04:05Z") }

// tsIn spells the instant t in the given zone, with a numeric offset (RFC 3339 allows both); nil = UTC with "Z".
func tsIn(t time.Time, zone *time.Location) string {
	if zone == nil {
		return ts(t)
	}
	if y := t.In(zone).Year(); y < 1 || y > 9999 {
		return ts(t) // (the last day of year 9999 has no spelling east of Greenwich)
	}
	return t.In(zone).Format("2006-01-02T15:04:05-07:00")
}

// unknownMembers are JSON members no version of the documents defines: a later schema revision adds members like these,
// and a reader of today ignores them.
func unknownMembers(on bool, where string) string {
	if !on {
		return ""
	}
	return `"x-` + where + `-added-later":{"note":"ignore me","list":[1,2,3]},"zz` + where + `":null,`
}

func comps(v [16]byte) string { return compsLabelled(v, [16]string{}) }

func compsLabelled(v [16]byte, types [16]string) string {
	var sb strings.Builder
	sb.WriteString("[")
	for i, c := range v {
		if i > 0 {
			sb.WriteString(",")
		}
		if types[i] != "" {
			fmt.Fprintf(&sb, `{"svn":%d,"category":%s,"type":%s}`, c, js(map[bool]string{true: "BIOS", false: "OS/VMM"}[i%2 == 0]), js(types[i]))
		} else {
			fmt.Fprintf(&sb, `{"svn":%d}`, c)
		}
	}
	sb.WriteString("]")
	return sb.String()
}

// Render returns the canonical JSON of the tcbInfo member.
func (d *TcbInfoDoc) Render() []byte {
	var sb strings.Builder
	fmt.Fprintf(&sb, `{%s"id":%s,"version":%d,"issueDate":%q,"nextUpdate":%q,"fmspc":%s,"pceId":%s,"tcbType":%d,"tcbEvaluationDataNumber":17,`,
		unknownMembers(d.UnknownMembers, "tcbinfo"), js(d.ID), d.Version, tsIn(d.IssueDate, d.DateZone), tsIn(d.NextUpdate, d.DateZone), js(d.Fmspc), js(d.PceID), d.TcbType)
	fmt.Fprintf(&sb, `"tdxModule":{"mrsigner":%q,"attributes":%q,"attributesMask":%q},`, d.hx(d.Mrsigner), d.hx(d.Attributes), d.hx(d.Mask))
	sb.WriteString(`"tdxModuleIdentities":[`)
	for i, m := range d.Identities {
		if i > 0 {
			sb.WriteString(",")
		}
		fmt.Fprintf(&sb, `{"id":%s,"mrsigner":%q,"attributes":%q,"attributesMask":%q,"tcbLevels":[`, js(m.ID), d.hx(m.Mrsigner), d.hx(m.Attributes), d.hx(m.Mask))
		for j, l := range m.Levels {
			if j > 0 {
				sb.WriteString(",")
			}
			fmt.Fprintf(&sb, `{"tcb":{"isvsvn":%d},"tcbDate":%q,"tcbStatus":%q}`, l.Isvsvn, dateOr(l.Date), l.Status)
		}
		sb.WriteString("]}")
	}
	sb.WriteString(`],"tcbLevels":[`)
	for i, l := range d.Levels {
		if i > 0 {
			sb.WriteString(",")
		}
		tdx := compsShaped("tdxtcbcomponents", l.Tdx, l.TdxShape, l.TdxTypes)
		fmt.Fprintf(&sb, `{%s"tcb":{%s"pcesvn":%d%s},"tcbDate":%q,"tcbStatus":%q}`, unknownMembers(d.UnknownMembers && i%2 == 0, "level"),
			compsShaped("sgxtcbcomponents", l.Sgx, l.SgxShape, l.SgxTypes), l.PceSvn, strings.TrimSuffix(","+tdx, ","), dateOr(l.Date), l.Status)
	}
	sb.WriteString("]}")
	return []byte(sb.String())
}

// QeLevel is one entry of enclaveIdentity.tcbLevels.
type QeLevel struct {
	Isvsvn uint32
	Status string
	Date   string
	RawSvn string // when non-empty, rendered verbatim as the isvsvn value (numbers the field cannot hold, other JSON types)
}

func dateOr(d string) string {
	if d == "" {
		return "2024-03-13T00:00:00Z"
	}
	return d
}

// LevelDates are tcbDate values in deliberately non-monotonic order (the order of the level list,
// not the dates, decides which level is selected).
// Some lie after every time the harness judges at (a level's date says when Intel assessed it, not from when it counts).
var LevelDates = []string{"2022-11-09T00:00:00Z", "2024-03-13T00:00:00Z", "2023-08-09T00:00:00Z", "2021-01-01T00:00:00Z", "2025-05-14T00:00:00Z", "", "2071-06-01T00:00:00Z", "9999-12-31T23:59:59Z"}

// QeIdentityDoc describes a QE Identity document.
type QeIdentityDoc struct {
	ID             string
	Version        int
	IssueDate      time.Time
	NextUpdate     time.Time
	Miscselect     []byte
	MiscselectMask []byte
	Attributes     []byte
	AttributesMask []byte
	Mrsigner       []byte
	IsvProdID      uint16
	RawIsvProdID   string // when non-empty, rendered verbatim as the isvprodid value
	Levels         []QeLevel
	UpperHex       bool
	DateZone       *time.Location // see TcbInfoDoc.DateZone
	UnknownMembers bool           // see TcbInfoDoc.UnknownMembers
}

func (d *QeIdentityDoc) hx(b []byte) string {
	s := hex.EncodeToString(b)
	if d.UpperHex {
		s = strings.ToUpper(s)
	}
	return s
}

// Render returns the canonical JSON of the enclaveIdentity member.
func (d *QeIdentityDoc) Render() []byte {
	var sb strings.Builder
	fmt.Fprintf(&sb, `{%s"id":%q,"version":%d,"issueDate":%q,"nextUpdate":%q,"tcbEvaluationDataNumber":17,`, unknownMembers(d.UnknownMembers, "qeidentity"), d.ID, d.Version, tsIn(d.IssueDate, d.DateZone), tsIn(d.NextUpdate, d.DateZone))
	prod := fmt.Sprint(d.IsvProdID)
	if d.RawIsvProdID != "" {
		prod = d.RawIsvProdID
	}
	fmt.Fprintf(&sb, `"miscselect":%q,"miscselectMask":%q,"attributes":%q,"attributesMask":%q,"mrsigner":%q,"isvprodid":%s,"tcbLevels":[`,
		d.hx(d.Miscselect), d.hx(d.MiscselectMask), d.hx(d.Attributes), d.hx(d.AttributesMask), d.hx(d.Mrsigner), prod)
	for i, l := range d.Levels {
		if i > 0 {
			sb.WriteString(",")
		}
		fmt.Fprintf(&sb, `{%s"tcb":{"isvsvn":%s},"tcbDate":%q,"tcbStatus":%q}`, unknownMembers(d.UnknownMembers && i%2 == 1, "qelevel"), svnText(l.Isvsvn, l.RawSvn), dateOr(l.Date), l.Status)
	}
	sb.WriteString("]}")
	return []byte(sb.String())
}

// SignedBody wraps raw member bytes and a hex signature: {"<member>":<raw>,"signature":"<hex>"}.
func SignedBody(member string, raw []byte, key *Key) []byte {
	sig := key.SignRaw(raw)
	return WrapBody(member, raw, hex.EncodeToString(sig))
}

// WrapBody builds the response body from parts.
func WrapBody(member string, raw []byte, sigHex string) []byte {
	return []byte(`{"` + member + `":` + string(raw) + `,"signature":"` + sigHex + `"}`)
}

// IssuerChainHeader renders an issuer-chain header value (URL-escaped PEM signer||root).
func IssuerChainHeader(certs ...*Cert) string {
	return url.QueryEscape(string(ChainPEM(certs...)))
}

// Response is one scripted endpoint answer.
type Response struct {
	Header map[string][]string
	Body   []byte
	Err    error
}
