package gen

import (
	"crypto/x509/pkix"
	"encoding/asn1"
)

// Own DER encoder for the SGX PCK extension (OID 1.2.840.113741.1.13.1), so that
// any order, integer width, type or trailing garbage can be emitted.

// Node is a DER TLV tree.
type Node struct {
	Tag      byte
	Kids     []*Node // when constructed
	Content  []byte  // when primitive (used if Kids == nil)
	Trailing []byte  // raw bytes appended after this TLV (malformation)
	Raw      []byte  // if non-nil, emitted verbatim instead of Tag/Content
}

func derLen(n int) []byte {
	switch {
	case n < 0x80:
		return []byte{byte(n)}
	case n < 0x100:
		return []byte{0x81, byte(n)}
	case n < 0x10000:
		return []byte{0x82, byte(n >> 8), byte(n)}
	default:
		return []byte{0x83, byte(n >> 16), byte(n >> 8), byte(n)}
	}
}

// Encode renders the tree.
func (n *Node) Encode() []byte {
	if n.Raw != nil {
		return append(append([]byte{}, n.Raw...), n.Trailing...)
	}
	var content []byte
	if n.Kids != nil {
		for _, k := range n.Kids {
			content = append(content, k.Encode()...)
		}
	} else {
		content = n.Content
	}
	out := []byte{n.Tag}
	out = append(out, derLen(len(content))...)
	out = append(out, content...)
	out = append(out, n.Trailing...)
	return out
}

// Clone deep-copies a tree.
func (n *Node) Clone() *Node {
	c := &Node{Tag: n.Tag, Content: append([]byte(nil), n.Content...), Trailing: append([]byte(nil), n.Trailing...)}
	if n.Raw != nil {
		c.Raw = append([]byte{}, n.Raw...)
	}
	if n.Kids != nil {
		c.Kids = make([]*Node, len(n.Kids))
		for i, k := range n.Kids {
			c.Kids[i] = k.Clone()
		}
	}
	return c
}

// Seq builds a SEQUENCE.
func Seq(kids ...*Node) *Node {
	if kids == nil {
		kids = []*Node{}
	}
	return &Node{Tag: 0x30, Kids: kids}
}

// Octet builds an OCTET STRING.
func Octet(b []byte) *Node { return &Node{Tag: 0x04, Content: append([]byte{}, b...)} }

// IntMin builds a minimally encoded INTEGER.
func IntMin(v int64) *Node {
	var b []byte
	neg := v < 0
	u := uint64(v)
	for i := 7; i >= 0; i-- {
		b = append(b, byte(u>>(8*uint(i))))
	}
	// strip redundant leading bytes
	for len(b) > 1 {
		if !neg && b[0] == 0x00 && b[1]&0x80 == 0 {
			b = b[1:]
		} else if neg && b[0] == 0xff && b[1]&0x80 != 0 {
			b = b[1:]
		} else {
			break
		}
	}
	return &Node{Tag: 0x02, Content: b}
}

// IntRaw builds an INTEGER with the given content bytes (possibly non-minimal).
func IntRaw(b []byte) *Node { return &Node{Tag: 0x02, Content: append([]byte{}, b...)} }

// Enum builds an ENUMERATED.
func Enum(v byte) *Node { return &Node{Tag: 0x0a, Content: []byte{v}} }

// OID builds an OBJECT IDENTIFIER.
func OID(arcs ...int) *Node {
	b := []byte{byte(arcs[0]*40 + arcs[1])}
	for _, a := range arcs[2:] {
		var tmp []byte
		tmp = append(tmp, byte(a&0x7f))
		a >>= 7
		for a > 0 {
			tmp = append([]byte{byte(a&0x7f) | 0x80}, tmp...)
			a >>= 7
		}
		b = append(b, tmp...)
	}
	return &Node{Tag: 0x06, Content: b}
}

var sgxArc = []int{1, 2, 840, 113741, 1, 13, 1}

// SgxOID returns the asn1 object identifier of the SGX extension.
func SgxOID() asn1.ObjectIdentifier { return asn1.ObjectIdentifier(append([]int{}, sgxArc...)) }

func sgxOID(suffix ...int) *Node { return OID(append(append([]int{}, sgxArc...), suffix...)...) }

// SgxValues are the values a PCK certificate's SGX extension carries.
type SgxValues struct {
	PPID   [16]byte
	Comp   [16]byte
	PceSvn uint16
	CpuSvn [16]byte
	PceID  [2]byte
	Fmspc  [6]byte
	// optional elements Intel issues
	WithSgxType     bool
	WithPlatformIns bool // platform instance id (OID .6), 16-byte octet string
	WithConfig      bool // configuration (OID .7), sequence of booleans
}

// SgxTree builds the canonical extension tree:
// SEQUENCE { SEQ{.1 PPID} SEQ{.2 TCB} SEQ{.3 PCEID} SEQ{.4 FMSPC} [SEQ{.5 type}] [.6] [.7] }
// Index of top-level elements: 0 PPID, 1 TCB, 2 PCEID, 3 FMSPC, then optional ones.
func SgxTree(v *SgxValues) *Node {
	tcb := Seq()
	for i := 0; i < 16; i++ {
		tcb.Kids = append(tcb.Kids, Seq(sgxOID(2, i+1), IntMin(int64(v.Comp[i]))))
	}
	tcb.Kids = append(tcb.Kids, Seq(sgxOID(2, 17), IntMin(int64(v.PceSvn))))
	tcb.Kids = append(tcb.Kids, Seq(sgxOID(2, 18), Octet(v.CpuSvn[:])))
	top := Seq(
		Seq(sgxOID(1), Octet(v.PPID[:])),
		Seq(sgxOID(2), tcb),
		Seq(sgxOID(3), Octet(v.PceID[:])),
		Seq(sgxOID(4), Octet(v.Fmspc[:])),
	)
	if v.WithSgxType {
		top.Kids = append(top.Kids, Seq(sgxOID(5), Enum(1)))
	}
	if v.WithPlatformIns {
		top.Kids = append(top.Kids, Seq(sgxOID(6), Octet(make([]byte, 16))))
	}
	if v.WithConfig {
		top.Kids = append(top.Kids, Seq(sgxOID(7), Seq(
			Seq(sgxOID(7, 1), &Node{Tag: 0x01, Content: []byte{0xff}}),
			Seq(sgxOID(7, 2), &Node{Tag: 0x01, Content: []byte{0x00}}),
		)))
	}
	return top
}

// SgxExtension wraps encoded extension bytes as a pkix.Extension.
func SgxExtension(der []byte) pkix.Extension {
	return pkix.Extension{Id: SgxOID(), Value: der}
}

// Permute reorders kids according to perm (perm[i] = index of the kid placed at i).
func Permute(kids []*Node, perm []int) []*Node {
	out := make([]*Node, len(kids))
	for i, p := range perm {
		out[i] = kids[p]
	}
	return out
}
