package gen

import (
	"bufio"
	"crypto/sha256"
	"encoding/binary"
	"encoding/hex"
	"encoding/json"
	"flag"
	"fmt"
	"os"
	"path/filepath"
	"regexp"
	"runtime/debug"
	"sort"
	"strconv"
	"strings"
	"sync"
	"syscall"
	"testing"
	"time"

	"pgregory.net/rapid"
)

// ---------------------------------------------------------------------------
// Run configuration (from the driver)
// ---------------------------------------------------------------------------

// VerifDir is the root of the verification tree.
func VerifDir() string {
	if d := os.Getenv("VERIF_DIR"); d != "" {
		return d
	}
	return "/verif"
}

// RepoDir is the repository under test.
func RepoDir() string {
	if d := os.Getenv("VERIF_REPO"); d != "" {
		return d
	}
	return "/repo"
}

// Tier returns "quick" or "thorough".
func Tier() string {
	if os.Getenv("VERIF_TIER") == "thorough" {
		return "thorough"
	}
	return "quick"
}

// Seed returns the base seed (never 0).
func Seed() uint64 {
	s, _ := strconv.ParseUint(os.Getenv("VERIF_SEED"), 10, 64)
	if s == 0 {
		s = 1
	}
	return s
}

// Shard returns (index, count) of this process within a sharded run.
func Shard() (int, int) {
	i, _ := strconv.Atoi(os.Getenv("VERIF_SHARD"))
	n, _ := strconv.Atoi(os.Getenv("VERIF_NSHARDS"))
	if n <= 0 {
		n = 1
	}
	return i, n
}

// ProcSeed is the seed of this process: seed*1000+shard.
func ProcSeed() uint64 {
	i, _ := Shard()
	return Seed()*1000 + uint64(i)
}

// N picks a case count by tier; thorough counts are divided among shards.
func N(quick, thorough int) int {
	if Tier() == "thorough" {
		_, n := Shard()
		c := thorough / n
		if c < 1 {
			c = 1
		}
		return c
	}
	_, n := Shard()
	c := quick / n
	if c < 1 {
		c = 1
	}
	return c
}

// ShardOwns tells whether this shard should handle item i of an enumerated space.
func ShardOwns(i int) bool {
	s, n := Shard()
	return i%n == s
}

// ---------------------------------------------------------------------------
// Statistics
// ---------------------------------------------------------------------------

type collector struct {
	mu         sync.Mutex
	prop       string
	evals      int64
	nontrivial map[uint64]struct{}
	classes    map[string]int64
	samples    []any
	sampleKeys map[string]int
	excluded   map[string]int64
	knownSeen  map[string]string
	violations int
	inconcl    []string
	exhaustive map[string]bool
	start      time.Time
}

var stats = &collector{
	nontrivial: map[uint64]struct{}{},
	classes:    map[string]int64{},
	sampleKeys: map[string]int{},
	excluded:   map[string]int64{},
	knownSeen:  map[string]string{},
	exhaustive: map[string]bool{},
	start:      time.Now(),
}

// SetProperty names the property this process checks.
func SetProperty(id string) { stats.prop = id }

// Eval counts one evaluation (one call into the code under test with an oracle applied).
func Eval() {
	stats.mu.Lock()
	stats.evals++
	stats.mu.Unlock()
}

// EvalN counts n evaluations.
func EvalN(n int) {
	stats.mu.Lock()
	stats.evals += int64(n)
	stats.mu.Unlock()
}

// NonTrivial records a non-trivial case by its descriptor; distinctness is by hash.
func NonTrivial(parts ...any) {
	h := sha256.New()
	for _, p := range parts {
		switch v := p.(type) {
		case []byte:
			h.Write(v)
		case string:
			h.Write([]byte(v))
		default:
			fmt.Fprintf(h, "%v", v)
		}
		h.Write([]byte{0})
	}
	k := binary.LittleEndian.Uint64(h.Sum(nil))
	stats.mu.Lock()
	stats.nontrivial[k] = struct{}{}
	stats.mu.Unlock()
}

// Class increments a class counter (distribution of what the generator produced).
func Class(name string) {
	stats.mu.Lock()
	stats.classes[name]++
	stats.mu.Unlock()
}

// Sample keeps up to three samples per kind (twelve overall).
func Sample(kind string, v any) {
	stats.mu.Lock()
	defer stats.mu.Unlock()
	if stats.sampleKeys[kind] >= 3 || len(stats.samples) >= 12 {
		return
	}
	stats.sampleKeys[kind]++
	stats.samples = append(stats.samples, map[string]any{"kind": kind, "case": v})
}

// Exhaustive marks a named finite sub-space as completely enumerated by this run.
func Exhaustive(name string, complete bool) {
	stats.mu.Lock()
	prev, ok := stats.exhaustive[name]
	stats.exhaustive[name] = complete && (!ok || prev)
	stats.mu.Unlock()
}

// Inconclusive records a scenario that could not be decided (never a violation).
func Inconclusive(what string) {
	stats.mu.Lock()
	stats.inconcl = append(stats.inconcl, what)
	stats.mu.Unlock()
	fmt.Printf("INCONCLUSIVE: %s\n", what)
}

// ---------------------------------------------------------------------------
// Known findings
// ---------------------------------------------------------------------------

type knownEntry struct {
	prop, key, text string
}

var (
	knownOnce sync.Once
	knownList []knownEntry
)

var knownRe = regexp.MustCompile(`^known:\s+property=(C\d+)\s+key=(\S+)\s*(.*)$`)

func loadKnown() {
	knownOnce.Do(func() {
		f, err := os.Open(filepath.Join(VerifDir(), "KNOWN_FINDINGS.txt"))
		if err != nil {
			return
		}
		defer f.Close()
		sc := bufio.NewScanner(f)
		for sc.Scan() {
			m := knownRe.FindStringSubmatch(strings.TrimSpace(sc.Text()))
			if m != nil {
				knownList = append(knownList, knownEntry{m[1], m[2], m[3]})
			}
		}
	})
}

// IsKnown tells whether (property, key) is listed as a known, unrepaired finding.
func IsKnown(prop, key string) (string, bool) {
	loadKnown()
	for _, k := range knownList {
		if k.prop == prop && k.key == key {
			return k.text, true
		}
	}
	return "", false
}

// ---------------------------------------------------------------------------
// Violations
// ---------------------------------------------------------------------------

// Violation describes one failed oracle with a self-contained case.
type Violation struct {
	Property string         `json:"property"`
	Key      string         `json:"key"`    // stable identity of WHAT failed (class, site) — never random bytes
	Oracle   string         `json:"oracle"` // which oracle failed
	Detail   string         `json:"detail"`
	Replay   map[string]any `json:"replay,omitempty"` // concrete artifacts for ./vcheck replay
	Test     string         `json:"test,omitempty"`
	Seed     uint64         `json:"seed,omitempty"`
	FailFile string         `json:"rapid_failfile,omitempty"`
}

var (
	lastMu        sync.Mutex
	lastViolation *Violation
)

// TB is the subset of testing.TB / *rapid.T used for failing.
type TB interface {
	Fatalf(format string, args ...any)
}

// Fail reports a violation. A violation whose key is listed in KNOWN_FINDINGS.txt is counted
// as an excluded known finding and the caller continues (Fail returns true); otherwise the
// current case fails (rapid shrinks it) and Fail does not return.
func Fail(t TB, v Violation) bool {
	if v.Property == "" {
		v.Property = stats.prop
	}
	if text, ok := IsKnown(v.Property, v.Key); ok {
		stats.mu.Lock()
		stats.excluded[v.Key]++
		stats.knownSeen[v.Key] = text
		stats.mu.Unlock()
		return true
	}
	lastMu.Lock()
	vv := v
	lastViolation = &vv
	lastMu.Unlock()
	t.Fatalf("VIOLATED %s key=%s oracle=%s: %s", v.Property, v.Key, v.Oracle, v.Detail)
	return false
}

// HarnessError aborts the case as a harness defect (exit 2, never a violation).
func HarnessError(t TB, format string, args ...any) {
	msg := fmt.Sprintf(format, args...)
	fmt.Printf("HARNESS-ERROR: %s\n", msg)
	lastMu.Lock()
	lastViolation = nil
	harnessErr = true
	lastMu.Unlock()
	t.Fatalf("HARNESS-ERROR: %s", msg)
}

var harnessErr bool

func takeViolation() *Violation {
	lastMu.Lock()
	defer lastMu.Unlock()
	v := lastViolation
	lastViolation = nil
	return v
}

func writeReplay(v *Violation) string {
	dir := filepath.Join(VerifDir(), "replays")
	_ = os.MkdirAll(dir, 0o755)
	if a := os.Getenv("VERIF_GOARCH"); a != "" && v.Replay != nil {
		v.Replay["needs_goarch"] = a // found by a build for another word size: replay with the same build
	}
	b, _ := json.MarshalIndent(v, "", " ")
	h := sha256.Sum256(b)
	safeKey := regexp.MustCompile(`[^A-Za-z0-9_.-]+`).ReplaceAllString(v.Key, "_")
	if len(safeKey) > 60 {
		safeKey = safeKey[:60]
	}
	path := filepath.Join(dir, fmt.Sprintf("%s-%s-%s.json", v.Property, safeKey, hex.EncodeToString(h[:4])))
	_ = os.WriteFile(path, b, 0o644)
	return path
}

func announce(v *Violation, test string) {
	v.Test = test
	v.Seed = ProcSeed()
	// keep rapid's own fail file next to the case file when there is one
	if matches, _ := filepath.Glob(filepath.Join("testdata", "rapid", strings.ReplaceAll(test, "/", "_")+"*", "*.fail")); len(matches) == 0 {
		if m2, _ := filepath.Glob(filepath.Join("testdata", "rapid", "*", "*.fail")); len(m2) > 0 {
			matches = m2
		}
		if len(matches) > 0 {
			sort.Strings(matches)
			v.FailFile = copyFailFile(matches[len(matches)-1])
		}
	} else {
		sort.Strings(matches)
		v.FailFile = copyFailFile(matches[len(matches)-1])
	}
	path := writeReplay(v)
	stats.mu.Lock()
	stats.violations++
	stats.mu.Unlock()
	fmt.Printf("VIOLATION property=%s replay=%s\n", v.Property, path)
	fmt.Printf("VIOLATION-DETAIL property=%s key=%s oracle=%s %s\n", v.Property, v.Key, v.Oracle, oneLine(v.Detail))
}

func copyFailFile(src string) string {
	b, err := os.ReadFile(src)
	if err != nil {
		return ""
	}
	dir := filepath.Join(VerifDir(), "replays", "rapid")
	_ = os.MkdirAll(dir, 0o755)
	dst := filepath.Join(dir, filepath.Base(filepath.Dir(src))+"-"+filepath.Base(src))
	_ = os.WriteFile(dst, b, 0o644)
	_ = os.Remove(src)
	return dst
}

func oneLine(s string) string {
	s = strings.ReplaceAll(s, "\n", " | ")
	if len(s) > 400 {
		s = s[:400] + "…"
	}
	return s
}

// Prop runs one rapid property as a sub-test with n cases. A failure is shrunk by rapid,
// the minimal case's Violation is written as a replay file and announced.
func Prop(t *testing.T, name string, n int, prop func(*rapid.T)) {
	t.Helper()
	_ = flag.Set("rapid.checks", strconv.Itoa(n))
	_ = flag.Set("rapid.seed", strconv.FormatUint(ProcSeed(), 10))
	_ = flag.Set("rapid.shrinktime", "20s")
	takeViolation()
	ok := t.Run(name, func(t *testing.T) {
		rapid.Check(t, prop)
	})
	if ok {
		return
	}
	if v := takeViolation(); v != nil {
		announce(v, t.Name()+"/"+name)
		return
	}
	if !harnessErr {
		fmt.Printf("HARNESS-ERROR: %s/%s failed without a recorded violation (see test output)\n", t.Name(), name)
	}
}

// Direct runs a non-rapid (enumerating) check as a sub-test. The body reports through FailNow.
func Direct(t *testing.T, name string, body func(t *testing.T)) {
	t.Helper()
	takeViolation()
	ok := t.Run(name, body)
	if ok {
		return
	}
	if v := takeViolation(); v != nil {
		announce(v, t.Name()+"/"+name)
		return
	}
	if !harnessErr {
		fmt.Printf("HARNESS-ERROR: %s/%s failed without a recorded violation (see test output)\n", t.Name(), name)
	}
}

// ---------------------------------------------------------------------------
// Calling the code under test
// ---------------------------------------------------------------------------

// Verdict is the outcome of one call into the library.
type Verdict struct {
	Err   error
	Panic string // non-empty when the call panicked
	Stack string
}

// Accepted is true when the call returned nil.
func (v Verdict) Accepted() bool { return v.Panic == "" && v.Err == nil }

// Rejected is true when the call returned an error or crashed.
func (v Verdict) Rejected() bool { return !v.Accepted() }

// Panicked is true when the call crashed.
func (v Verdict) Panicked() bool { return v.Panic != "" }

func (v Verdict) String() string {
	switch {
	case v.Panic != "":
		return "panic: " + v.Panic
	case v.Err != nil:
		return "reject: " + v.Err.Error()
	default:
		return "accept"
	}
}

// Short is "accept", "reject" or "panic".
func (v Verdict) Short() string {
	switch {
	case v.Panic != "":
		return "panic"
	case v.Err != nil:
		return "reject"
	default:
		return "accept"
	}
}

// Call runs f, converting a panic into a Verdict.
func Call(f func() error) (v Verdict) {
	defer func() {
		if r := recover(); r != nil {
			v.Panic = fmt.Sprint(r)
			v.Stack = string(debug.Stack())
		}
	}()
	v.Err = f()
	return
}

// CallWatch runs f with a watchdog; hung reports a timeout (the goroutine is abandoned).
func CallWatch(d time.Duration, f func() error) (v Verdict, hung bool) {
	ch := make(chan Verdict, 1)
	go func() { ch <- Call(f) }()
	select {
	case v = <-ch:
		return v, false
	case <-time.After(d):
		return Verdict{}, true
	}
}

var frameRe = regexp.MustCompile(`(?m)^(github\.com/google/go-tdx-guest/[^\s(]+)\(`)

// PanicSite returns the innermost frame of the repository in a panic stack (stable key for crashes).
func PanicSite(stack string) string {
	m := frameRe.FindStringSubmatch(stack)
	if m == nil {
		return "unknown"
	}
	s := strings.TrimPrefix(m[1], "github.com/google/go-tdx-guest/")
	return s
}

// ---------------------------------------------------------------------------
// Evidence parts
// ---------------------------------------------------------------------------

type part struct {
	Property    string            `json:"property"`
	Tier        string            `json:"tier"`
	Seed        uint64            `json:"seed"`
	Shard       int               `json:"shard"`
	Evaluations int64             `json:"evaluations"`
	Classes     map[string]int64  `json:"classes"`
	Samples     []any             `json:"samples"`
	Excluded    map[string]int64  `json:"excluded_known"`
	KnownSeen   map[string]string `json:"known_seen"`
	Violations  int               `json:"violations"`
	Inconcl     []string          `json:"inconclusive"`
	Exhaustive  map[string]bool   `json:"exhaustive"`
	WallS       float64           `json:"wall_s"`
	HashFile    string            `json:"hash_file"`
	NonTrivial  int               `json:"nontrivial_in_shard"`
}

// WriteParts dumps this process's statistics for the driver to merge, and prints
// KNOWN-FINDING lines for known findings that were re-observed.
func WriteParts() {
	if stats.prop == "" {
		return
	}
	stats.mu.Lock()
	defer stats.mu.Unlock()
	dir := filepath.Join(VerifDir(), "evidence", ".parts")
	_ = os.MkdirAll(dir, 0o755)
	sh, _ := Shard()
	base := fmt.Sprintf("%s.%d", stats.prop, sh)
	hb := make([]byte, 0, 8*len(stats.nontrivial))
	for k := range stats.nontrivial {
		var b [8]byte
		binary.LittleEndian.PutUint64(b[:], k)
		hb = append(hb, b[:]...)
	}
	hashFile := filepath.Join(dir, base+".hashes")
	_ = os.WriteFile(hashFile, hb, 0o644)
	p := part{Property: stats.prop, Tier: Tier(), Seed: Seed(), Shard: sh, Evaluations: stats.evals, Classes: stats.classes,
		Samples: stats.samples, Excluded: stats.excluded, KnownSeen: stats.knownSeen, Violations: stats.violations,
		Inconcl: stats.inconcl, Exhaustive: stats.exhaustive, WallS: time.Since(stats.start).Seconds(), HashFile: hashFile, NonTrivial: len(stats.nontrivial)}
	b, _ := json.MarshalIndent(p, "", " ")
	_ = os.WriteFile(filepath.Join(dir, base+".json"), b, 0o644)
	for k, text := range stats.knownSeen {
		fmt.Printf("KNOWN-FINDING: property=%s key=%s %s (excluded %d cases)\n", stats.prop, k, text, stats.excluded[k])
	}
}

// Hex is a short helper for samples.
func Hex(b []byte) string {
	if len(b) > 48 {
		return hex.EncodeToString(b[:48]) + fmt.Sprintf("…(%d bytes)", len(b))
	}
	return hex.EncodeToString(b)
}

// FailAsync reports a violation found outside a rapid property / sub-test (e.g. a background
// real-clock scenario): it is announced directly.
func FailAsync(v Violation) {
	if text, ok := IsKnown(v.Property, v.Key); ok {
		stats.mu.Lock()
		stats.excluded[v.Key]++
		stats.knownSeen[v.Key] = text
		stats.mu.Unlock()
		return
	}
	asyncMu.Lock()
	asyncCount++
	asyncMu.Unlock()
	if os.Getenv("VERIF_REPLAY_FILE") != "" {
		return
	}
	announce(&v, "async")
	asyncFailed = true
}

var (
	asyncMu     sync.Mutex
	asyncCount  int
	asyncFailed bool
)

// AsyncViolations returns how many asynchronous violations were reported so far.
func AsyncViolations() int {
	asyncMu.Lock()
	defer asyncMu.Unlock()
	return asyncCount
}

// AsyncFailed tells TestMain to exit non-zero.
func AsyncFailed() bool { return asyncFailed }

// CPUSeconds returns the processor time (user + system) this process has used so far. A bounded-time check that must
// tell microseconds from many seconds looks at it instead of at the wall clock: a busy machine stretches the wall
// clock, not the work.
func CPUSeconds() float64 {
	var ru syscall.Rusage
	if err := syscall.Getrusage(syscall.RUSAGE_SELF, &ru); err != nil {
		return 0
	}
	return float64(ru.Utime.Sec) + float64(ru.Utime.Usec)/1e6 + float64(ru.Stime.Sec) + float64(ru.Stime.Usec)/1e6
}
