package gen

import (
	"crypto/x509"
	"hash/crc32"
	"testing"
)

func TestExtraHelpers(t *testing.T) {
	s := NewStream(7, "extra")
	for i := 0; i < 200; i++ {
		a := s.Bytes(40 + s.Intn(2000))
		want := uint32(s.Uint64())
		pos := s.Intn(len(a) - 4)
		ForgeCRC32(a, pos, want)
		if crc32.ChecksumIEEE(a) != want {
			t.Fatalf("ForgeCRC32 failed at %d", i)
		}
	}
	p := NewPKI(PKISpec{Seed: "extra"})
	for _, withNumber := range []bool{true, false} {
		for _, raw := range [][]byte{nil, RawNameUTF8(p.Int.X.Subject)} {
			der := MakeCRLByHand(p.Int, p.Int.Key, CRLSpec{Revoked: [][]byte{{0x7f, 1, 2}, {0x81, 3}}}, raw, withNumber)
			crl, err := x509.ParseRevocationList(der)
			if err != nil {
				t.Fatalf("hand-made CRL does not parse (number=%v raw=%v): %v", withNumber, raw != nil, err)
			}
			if err := crl.CheckSignatureFrom(p.Int.X); err != nil {
				t.Fatalf("hand-made CRL signature: %v", err)
			}
			if (crl.Number != nil) != withNumber || len(crl.RevokedCertificateEntries) != 2 {
				t.Fatalf("hand-made CRL content: number=%v entries=%d", crl.Number, len(crl.RevokedCertificateEntries))
			}
			if crl.Issuer.String() != p.Int.X.Subject.String() {
				t.Fatalf("issuer %q vs %q", crl.Issuer.String(), p.Int.X.Subject.String())
			}
		}
	}
}
