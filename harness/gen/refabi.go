package gen

import (
	"bytes"
	"crypto/sha256"
	"crypto/x509"
	"encoding/binary"
	"encoding/pem"
	"errors"
	"fmt"

	pb "github.com/google/go-tdx-guest/proto/tdx"
)

// Reference codec for the Intel TDX DCAP quote v4 layout, written from the
// specification with literal offsets. It shares no constant with package abi.

// RefQuote is the field-by-field view of a v4 quote.
type RefQuote struct {
	Version  uint16
	AKType   uint16
	TeeType  uint32
	Word8    [2]byte // header bytes 8..9  (tree: pce_svn)
	Word10   [2]byte // header bytes 10..11 (tree: qe_svn)
	VendorID [16]byte
	UserData [20]byte

	TeeTcbSvn     [16]byte
	MrSeam        [48]byte
	MrSignerSeam  [48]byte
	SeamAttr      [8]byte
	TdAttr        [8]byte
	Xfam          [8]byte
	MrTd          [48]byte
	MrConfigID    [48]byte
	MrOwner       [48]byte
	MrOwnerConfig [48]byte
	Rtmr          [4][48]byte
	ReportData    [64]byte

	SignedDataSize uint32
	Sig            [64]byte
	AttKey         [64]byte
	CertType       uint16
	CertSize       uint32

	QeCpuSvn     [16]byte
	QeMiscSelect uint32
	QeRes1       [28]byte
	QeAttributes [16]byte
	QeMrEnclave  [32]byte
	QeRes2       [32]byte
	QeMrSigner   [32]byte
	QeRes3       [96]byte
	QeIsvProdID  uint16
	QeIsvSvn     uint16
	QeRes4       [60]byte
	QeReportData [64]byte

	QeSig     [64]byte
	AuthSize  uint16
	Auth      []byte
	ChainType uint16
	ChainSize uint32
	Chain     []byte
	Extra     []byte
}

// Clone deep-copies the quote.
func (q *RefQuote) Clone() *RefQuote {
	c := *q
	c.Auth = append([]byte(nil), q.Auth...)
	c.Chain = append([]byte(nil), q.Chain...)
	c.Extra = append([]byte(nil), q.Extra...)
	return &c
}

// FixSizes makes every size field consistent with the actual lengths.
func (q *RefQuote) FixSizes() {
	q.AuthSize = uint16(len(q.Auth))
	q.ChainSize = uint32(len(q.Chain))
	q.CertSize = uint32(384 + 64 + 2 + len(q.Auth) + 6 + len(q.Chain))
	q.SignedDataSize = 64 + 64 + 6 + q.CertSize
}

// HeaderBytes returns bytes 0..47.
func (q *RefQuote) HeaderBytes() []byte {
	b := make([]byte, 48)
	binary.LittleEndian.PutUint16(b[0:], q.Version)
	binary.LittleEndian.PutUint16(b[2:], q.AKType)
	binary.LittleEndian.PutUint32(b[4:], q.TeeType)
	copy(b[8:10], q.Word8[:])
	copy(b[10:12], q.Word10[:])
	copy(b[12:28], q.VendorID[:])
	copy(b[28:48], q.UserData[:])
	return b
}

// BodyBytes returns the 584-byte TD quote body.
func (q *RefQuote) BodyBytes() []byte {
	var b []byte
	b = append(b, q.TeeTcbSvn[:]...)
	b = append(b, q.MrSeam[:]...)
	b = append(b, q.MrSignerSeam[:]...)
	b = append(b, q.SeamAttr[:]...)
	b = append(b, q.TdAttr[:]...)
	b = append(b, q.Xfam[:]...)
	b = append(b, q.MrTd[:]...)
	b = append(b, q.MrConfigID[:]...)
	b = append(b, q.MrOwner[:]...)
	b = append(b, q.MrOwnerConfig[:]...)
	for i := 0; i < 4; i++ {
		b = append(b, q.Rtmr[i][:]...)
	}
	b = append(b, q.ReportData[:]...)
	return b
}

// QeReportBytes returns the 384-byte QE report.
func (q *RefQuote) QeReportBytes() []byte {
	b := make([]byte, 0, 384)
	b = append(b, q.QeCpuSvn[:]...)
	var u4 [4]byte
	binary.LittleEndian.PutUint32(u4[:], q.QeMiscSelect)
	b = append(b, u4[:]...)
	b = append(b, q.QeRes1[:]...)
	b = append(b, q.QeAttributes[:]...)
	b = append(b, q.QeMrEnclave[:]...)
	b = append(b, q.QeRes2[:]...)
	b = append(b, q.QeMrSigner[:]...)
	b = append(b, q.QeRes3[:]...)
	var u2 [2]byte
	binary.LittleEndian.PutUint16(u2[:], q.QeIsvProdID)
	b = append(b, u2[:]...)
	binary.LittleEndian.PutUint16(u2[:], q.QeIsvSvn)
	b = append(b, u2[:]...)
	b = append(b, q.QeRes4[:]...)
	b = append(b, q.QeReportData[:]...)
	return b
}

// Encode renders the quote with the size/type fields exactly as set.
func (q *RefQuote) Encode() []byte {
	b := q.HeaderBytes()
	b = append(b, q.BodyBytes()...)
	var u4 [4]byte
	var u2 [2]byte
	binary.LittleEndian.PutUint32(u4[:], q.SignedDataSize)
	b = append(b, u4[:]...)
	b = append(b, q.Sig[:]...)
	b = append(b, q.AttKey[:]...)
	binary.LittleEndian.PutUint16(u2[:], q.CertType)
	b = append(b, u2[:]...)
	binary.LittleEndian.PutUint32(u4[:], q.CertSize)
	b = append(b, u4[:]...)
	b = append(b, q.QeReportBytes()...)
	b = append(b, q.QeSig[:]...)
	binary.LittleEndian.PutUint16(u2[:], q.AuthSize)
	b = append(b, u2[:]...)
	b = append(b, q.Auth...)
	binary.LittleEndian.PutUint16(u2[:], q.ChainType)
	b = append(b, u2[:]...)
	binary.LittleEndian.PutUint32(u4[:], q.ChainSize)
	b = append(b, u4[:]...)
	b = append(b, q.Chain...)
	b = append(b, q.Extra...)
	return b
}

// RefParse is the reference parser: it accepts exactly the byte strings that
// follow the v4 layout with consistent nested size and type fields.
func RefParse(b []byte) (*RefQuote, error) {
	if len(b) < 636 {
		return nil, errors.New("ref: shorter than header+body+size")
	}
	q := &RefQuote{}
	q.Version = binary.LittleEndian.Uint16(b[0:])
	q.AKType = binary.LittleEndian.Uint16(b[2:])
	q.TeeType = binary.LittleEndian.Uint32(b[4:])
	if q.Version != 4 {
		return nil, errors.New("ref: version")
	}
	if q.AKType != 2 {
		return nil, errors.New("ref: key type")
	}
	if q.TeeType != 0x81 {
		return nil, errors.New("ref: tee type")
	}
	copy(q.Word8[:], b[8:10])
	copy(q.Word10[:], b[10:12])
	copy(q.VendorID[:], b[12:28])
	copy(q.UserData[:], b[28:48])
	o := 48
	take := func(dst []byte) {
		copy(dst, b[o:o+len(dst)])
		o += len(dst)
	}
	take(q.TeeTcbSvn[:])
	take(q.MrSeam[:])
	take(q.MrSignerSeam[:])
	take(q.SeamAttr[:])
	take(q.TdAttr[:])
	take(q.Xfam[:])
	take(q.MrTd[:])
	take(q.MrConfigID[:])
	take(q.MrOwner[:])
	take(q.MrOwnerConfig[:])
	for i := 0; i < 4; i++ {
		take(q.Rtmr[i][:])
	}
	take(q.ReportData[:])
	if o != 632 {
		panic("ref layout")
	}
	q.SignedDataSize = binary.LittleEndian.Uint32(b[632:])
	rest := b[636:]
	if uint64(q.SignedDataSize) > uint64(len(rest)) {
		return nil, errors.New("ref: signed data size beyond input")
	}
	sd := rest[:q.SignedDataSize]
	q.Extra = append([]byte(nil), rest[q.SignedDataSize:]...)
	if len(sd) < 64+64+6 {
		return nil, errors.New("ref: signed data shorter than fixed part")
	}
	copy(q.Sig[:], sd[0:64])
	copy(q.AttKey[:], sd[64:128])
	q.CertType = binary.LittleEndian.Uint16(sd[128:])
	q.CertSize = binary.LittleEndian.Uint32(sd[130:])
	if q.CertType != 6 {
		return nil, errors.New("ref: certification data type")
	}
	cd := sd[134:]
	if uint64(q.CertSize) != uint64(len(cd)) {
		return nil, errors.New("ref: certification data size")
	}
	if len(cd) < 384+64+2 {
		return nil, errors.New("ref: QE certification data shorter than fixed part")
	}
	r := cd[:384]
	copy(q.QeCpuSvn[:], r[0:16])
	q.QeMiscSelect = binary.LittleEndian.Uint32(r[16:])
	copy(q.QeRes1[:], r[20:48])
	copy(q.QeAttributes[:], r[48:64])
	copy(q.QeMrEnclave[:], r[64:96])
	copy(q.QeRes2[:], r[96:128])
	copy(q.QeMrSigner[:], r[128:160])
	copy(q.QeRes3[:], r[160:256])
	q.QeIsvProdID = binary.LittleEndian.Uint16(r[256:])
	q.QeIsvSvn = binary.LittleEndian.Uint16(r[258:])
	copy(q.QeRes4[:], r[260:320])
	copy(q.QeReportData[:], r[320:384])
	copy(q.QeSig[:], cd[384:448])
	q.AuthSize = binary.LittleEndian.Uint16(cd[448:])
	ad := cd[450:]
	if int(q.AuthSize) > len(ad) {
		return nil, errors.New("ref: auth data size beyond region")
	}
	q.Auth = append([]byte(nil), ad[:q.AuthSize]...)
	ch := ad[q.AuthSize:]
	if len(ch) < 6 {
		return nil, errors.New("ref: chain header missing")
	}
	q.ChainType = binary.LittleEndian.Uint16(ch[0:])
	q.ChainSize = binary.LittleEndian.Uint32(ch[2:])
	if q.ChainType != 5 {
		return nil, errors.New("ref: chain type")
	}
	if uint64(q.ChainSize) != uint64(len(ch)-6) {
		return nil, errors.New("ref: chain size")
	}
	q.Chain = append([]byte(nil), ch[6:]...)
	return q, nil
}

// ToProto builds the protobuf message the reference expects for this quote.
func (q *RefQuote) ToProto() *pb.QuoteV4 {
	c := func(b []byte) []byte { return append([]byte{}, b...) }
	m := &pb.QuoteV4{
		Header: &pb.Header{
			Version:            uint32(q.Version),
			AttestationKeyType: uint32(q.AKType),
			TeeType:            q.TeeType,
			PceSvn:             c(q.Word8[:]),
			QeSvn:              c(q.Word10[:]),
			QeVendorId:         c(q.VendorID[:]),
			UserData:           c(q.UserData[:]),
		},
		TdQuoteBody: &pb.TDQuoteBody{
			TeeTcbSvn:      c(q.TeeTcbSvn[:]),
			MrSeam:         c(q.MrSeam[:]),
			MrSignerSeam:   c(q.MrSignerSeam[:]),
			SeamAttributes: c(q.SeamAttr[:]),
			TdAttributes:   c(q.TdAttr[:]),
			Xfam:           c(q.Xfam[:]),
			MrTd:           c(q.MrTd[:]),
			MrConfigId:     c(q.MrConfigID[:]),
			MrOwner:        c(q.MrOwner[:]),
			MrOwnerConfig:  c(q.MrOwnerConfig[:]),
			Rtmrs:          [][]byte{c(q.Rtmr[0][:]), c(q.Rtmr[1][:]), c(q.Rtmr[2][:]), c(q.Rtmr[3][:])},
			ReportData:     c(q.ReportData[:]),
		},
		SignedDataSize: q.SignedDataSize,
		SignedData: &pb.Ecdsa256BitQuoteV4AuthData{
			Signature:           c(q.Sig[:]),
			EcdsaAttestationKey: c(q.AttKey[:]),
			CertificationData: &pb.CertificationData{
				CertificateDataType: uint32(q.CertType),
				Size:                q.CertSize,
				QeReportCertificationData: &pb.QEReportCertificationData{
					QeReport: &pb.EnclaveReport{
						CpuSvn:     c(q.QeCpuSvn[:]),
						MiscSelect: q.QeMiscSelect,
						Reserved1:  c(q.QeRes1[:]),
						Attributes: c(q.QeAttributes[:]),
						MrEnclave:  c(q.QeMrEnclave[:]),
						Reserved2:  c(q.QeRes2[:]),
						MrSigner:   c(q.QeMrSigner[:]),
						Reserved3:  c(q.QeRes3[:]),
						IsvProdId:  uint32(q.QeIsvProdID),
						IsvSvn:     uint32(q.QeIsvSvn),
						Reserved4:  c(q.QeRes4[:]),
						ReportData: c(q.QeReportData[:]),
					},
					QeReportSignature: c(q.QeSig[:]),
					QeAuthData:        &pb.QeAuthData{ParsedDataSize: uint32(q.AuthSize), Data: c(q.Auth)},
					PckCertificateChainData: &pb.PCKCertificateChainData{
						CertificateDataType: uint32(q.ChainType),
						Size:                q.ChainSize,
						PckCertChain:        c(q.Chain),
					},
				},
			},
		},
	}
	if len(q.Extra) > 0 {
		m.ExtraBytes = c(q.Extra)
	}
	return m
}

// DiffProto compares a parsed message with the reference view, field by field.
// It returns "" when every field agrees, else the name of the first differing field.
func (q *RefQuote) DiffProto(m *pb.QuoteV4) string {
	if m == nil {
		return "nil message"
	}
	eq := func(name string, a, b []byte) string {
		if !bytes.Equal(a, b) {
			return fmt.Sprintf("%s: got %x want %x", name, a, b)
		}
		return ""
	}
	h := m.GetHeader()
	body := m.GetTdQuoteBody()
	sd := m.GetSignedData()
	cd := sd.GetCertificationData()
	qc := cd.GetQeReportCertificationData()
	r := qc.GetQeReport()
	if h == nil || body == nil || sd == nil || cd == nil || qc == nil || r == nil || qc.GetQeAuthData() == nil || qc.GetPckCertificateChainData() == nil {
		return "missing sub-message"
	}
	checks := []string{
		eq("header.pce_svn(bytes 8-9)", h.GetPceSvn(), q.Word8[:]),
		eq("header.qe_svn(bytes 10-11)", h.GetQeSvn(), q.Word10[:]),
		eq("header.qe_vendor_id", h.GetQeVendorId(), q.VendorID[:]),
		eq("header.user_data", h.GetUserData(), q.UserData[:]),
		eq("tee_tcb_svn", body.GetTeeTcbSvn(), q.TeeTcbSvn[:]),
		eq("mr_seam", body.GetMrSeam(), q.MrSeam[:]),
		eq("mr_signer_seam", body.GetMrSignerSeam(), q.MrSignerSeam[:]),
		eq("seam_attributes", body.GetSeamAttributes(), q.SeamAttr[:]),
		eq("td_attributes", body.GetTdAttributes(), q.TdAttr[:]),
		eq("xfam", body.GetXfam(), q.Xfam[:]),
		eq("mr_td", body.GetMrTd(), q.MrTd[:]),
		eq("mr_config_id", body.GetMrConfigId(), q.MrConfigID[:]),
		eq("mr_owner", body.GetMrOwner(), q.MrOwner[:]),
		eq("mr_owner_config", body.GetMrOwnerConfig(), q.MrOwnerConfig[:]),
		eq("report_data", body.GetReportData(), q.ReportData[:]),
		eq("signature", sd.GetSignature(), q.Sig[:]),
		eq("attestation_key", sd.GetEcdsaAttestationKey(), q.AttKey[:]),
		eq("qe.cpu_svn", r.GetCpuSvn(), q.QeCpuSvn[:]),
		eq("qe.reserved1", r.GetReserved1(), q.QeRes1[:]),
		eq("qe.attributes", r.GetAttributes(), q.QeAttributes[:]),
		eq("qe.mr_enclave", r.GetMrEnclave(), q.QeMrEnclave[:]),
		eq("qe.reserved2", r.GetReserved2(), q.QeRes2[:]),
		eq("qe.mr_signer", r.GetMrSigner(), q.QeMrSigner[:]),
		eq("qe.reserved3", r.GetReserved3(), q.QeRes3[:]),
		eq("qe.reserved4", r.GetReserved4(), q.QeRes4[:]),
		eq("qe.report_data", r.GetReportData(), q.QeReportData[:]),
		eq("qe_report_signature", qc.GetQeReportSignature(), q.QeSig[:]),
		eq("qe_auth_data", qc.GetQeAuthData().GetData(), q.Auth),
		eq("pck_cert_chain", qc.GetPckCertificateChainData().GetPckCertChain(), q.Chain),
		eq("extra_bytes", m.GetExtraBytes(), q.Extra),
	}
	for _, c := range checks {
		if c != "" {
			return c
		}
	}
	if len(body.GetRtmrs()) != 4 {
		return fmt.Sprintf("rtmr count %d", len(body.GetRtmrs()))
	}
	for i := 0; i < 4; i++ {
		if s := eq(fmt.Sprintf("rtmr%d", i), body.GetRtmrs()[i], q.Rtmr[i][:]); s != "" {
			return s
		}
	}
	type num struct {
		name string
		a, b uint64
	}
	for _, n := range []num{
		{"header.version", uint64(h.GetVersion()), uint64(q.Version)},
		{"header.attestation_key_type", uint64(h.GetAttestationKeyType()), uint64(q.AKType)},
		{"header.tee_type", uint64(h.GetTeeType()), uint64(q.TeeType)},
		{"signed_data_size", uint64(m.GetSignedDataSize()), uint64(q.SignedDataSize)},
		{"certification.type", uint64(cd.GetCertificateDataType()), uint64(q.CertType)},
		{"certification.size", uint64(cd.GetSize()), uint64(q.CertSize)},
		{"qe.misc_select", uint64(r.GetMiscSelect()), uint64(q.QeMiscSelect)},
		{"qe.isv_prod_id", uint64(r.GetIsvProdId()), uint64(q.QeIsvProdID)},
		{"qe.isv_svn", uint64(r.GetIsvSvn()), uint64(q.QeIsvSvn)},
		{"auth.parsed_data_size", uint64(qc.GetQeAuthData().GetParsedDataSize()), uint64(q.AuthSize)},
		{"chain.type", uint64(qc.GetPckCertificateChainData().GetCertificateDataType()), uint64(q.ChainType)},
		{"chain.size", uint64(qc.GetPckCertificateChainData().GetSize()), uint64(q.ChainSize)},
	} {
		if n.a != n.b {
			return fmt.Sprintf("%s: got %d want %d", n.name, n.a, n.b)
		}
	}
	return ""
}

// ---- reference link verifier (oracle for "accepted => all three links hold") ----

// LinkStatus reports which links of the signature chain hold on raw quote bytes.
type LinkStatus struct {
	Parsed   bool
	BodySig  bool // header||body signed by the attestation key in the quote
	HashBind bool // QE report data == SHA-256(att key || auth) || 0^32
	QeSig    bool // QE report signed by the first certificate of the chain
	Detail   string
}

// AllHold is true when the three links hold.
func (s LinkStatus) AllHold() bool { return s.Parsed && s.BodySig && s.HashBind && s.QeSig }

// RefLinks evaluates the three links on raw bytes, using only the standard library.
func RefLinks(raw []byte) LinkStatus {
	var st LinkStatus
	q, err := RefParse(raw)
	if err != nil {
		st.Detail = err.Error()
		return st
	}
	st.Parsed = true
	return RefLinksQuote(q, raw[:632])
}

// RefLinksQuote evaluates the links for a reference view; signedRegion is header||body.
func RefLinksQuote(q *RefQuote, signedRegion []byte) LinkStatus {
	st := LinkStatus{Parsed: true}
	st.BodySig = VerifyRaw(q.AttKey[:], signedRegion, q.Sig[:])
	h := sha256.New()
	h.Write(q.AttKey[:])
	h.Write(q.Auth)
	sum := h.Sum(nil)
	st.HashBind = bytes.Equal(q.QeReportData[:32], sum) && bytes.Equal(q.QeReportData[32:], make([]byte, 32))
	blk, _ := pem.Decode(q.Chain)
	if blk == nil {
		st.Detail = "no PEM block in chain"
		return st
	}
	cert, err := x509.ParseCertificate(blk.Bytes)
	if err != nil {
		st.Detail = "leaf does not parse: " + err.Error()
		return st
	}
	pub, ok := leafPubRaw(cert)
	if !ok {
		st.Detail = "leaf key is not P-256"
		return st
	}
	st.QeSig = VerifyRaw(pub, q.QeReportBytes(), q.QeSig[:])
	return st
}
