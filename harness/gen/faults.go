package gen

import (
	"bytes"
	"crypto/x509"
	"encoding/hex"
	"fmt"
	"math/big"
	"strings"
	"time"
)

// Fault is a single deviation injected into an otherwise honest world before Build
// (Pre) or after it (Post). MinLevel is the lowest checking level at which the fault must
// be noticed (LvlBase = at every level); NeverNoticed faults are benign.
type Fault struct {
	Name     string
	Pre      func(w *World)
	Post     func(w *World)
	MinLevel Level
	Benign   bool
	NewPKI   func(seed string) PKISpec // when the fault needs a different PKI
	// GetterOnly: the fault lives in the shape of the header map a getter returns and cannot be expressed over real HTTP
	// (which canonicalises header names)
	GetterOnly bool
	// EditsQuote: the pre-build part changes quote fields (the world must be built afterwards)
	EditsQuote bool
	// Unjudged: the statement does not say whether such a world is accepted; it is used for relations between runs
	// (monotonicity, history independence) only
	Unjudged bool
}

// Faults is the catalogue shared by the option-gating and event-log checks.
var Faults = []Fault{
	{Name: "none", Benign: true},
	{Name: "body-bit-flipped", Post: func(w *World) { w.Raw[48+100] ^= 0x04 }, MinLevel: LvlBase},
	{Name: "qe-report-bit-flipped", Post: func(w *World) { w.Raw[770+130] ^= 0x01 }, MinLevel: LvlBase},
	{Name: "attestation-key-replaced-and-body-resigned", Post: func(w *World) {
		// breaks only the hash binding between the QE report and the attestation key
		q := w.Q.Clone()
		k := DeriveKey("fault/other-att-key")
		copy(q.AttKey[:], k.PubRaw())
		SignBody(q, k)
		w.Raw = q.Encode()
	}, MinLevel: LvlBase},
	{Name: "auth-data-bit-flipped", Post: func(w *World) {
		q := w.Q.Clone()
		if len(q.Auth) == 0 {
			q.Auth = []byte{1}
			q.FixSizes()
		} else {
			q.Auth[len(q.Auth)/2] ^= 0x08
		}
		w.Raw = q.Encode()
	}, MinLevel: LvlBase},
	{Name: "qe-report-resigned-by-foreign-key", Post: func(w *World) {
		q := w.Q.Clone()
		SignQe(q, DeriveKey("fault/foreign-pck"))
		w.Raw = q.Encode()
	}, MinLevel: LvlBase},
	{Name: "chain-replaced-by-foreign-twin", Post: func(w *World) {
		// a look-alike chain: intermediate and leaf carry the genuine names AND serial numbers but foreign keys,
		// and the leaf claims the highest SVNs and another FMSPC; the genuine root ends the chain
		fi := MakeCert(CertSpec{CN: w.PKI.Int.X.Subject.CommonName, KeyLabel: "fault/twin-int", Serial: w.PKI.Int.X.SerialNumber.Bytes(), NotBefore: Wide.NotBefore, NotAfter: Wide.NotAfter, CA: true, CRLDP: w.PKI.Spec.RootCRLDP},
			MakeCert(CertSpec{CN: CNRoot, KeyLabel: "fault/twin-root", Serial: w.PKI.Root.X.SerialNumber.Bytes(), NotBefore: Wide.NotBefore, NotAfter: Wide.NotAfter, CA: true, CRLDP: w.PKI.Spec.RootCRLDP}, nil))
		sgx := w.Sgx
		for i := range sgx.Comp {
			sgx.Comp[i] = 255
		}
		sgx.PceSvn = 65535
		sgx.Fmspc[0] ^= 0x5a
		ls := w.LeafSpec
		ls.KeyLabel, ls.Serial, ls.SgxDER = "fault/twin-leaf", w.Leaf.X.SerialNumber.Bytes(), SgxTree(&sgx).Encode()
		ls.CRLDP = w.Leaf.X.CRLDistributionPoints
		tl := MakeLeaf(fi, ls)
		q := w.Q.Clone()
		q.Chain = ChainPEM(tl, fi, w.PKI.Root)
		q.FixSizes()
		SignQe(q, tl.Key)
		w.Raw = q.Encode()
		w.Sgx = sgx // the SGX values of the certificate the quote now carries
	}, MinLevel: LvlBase},
	{Name: "intermediate-replaced-by-the-other-cas-certificate", Post: func(w *World) {
		// the chain's second certificate is a CA certificate of the OTHER kind (processor for a platform leaf and vice
		// versa), genuinely issued by the root; the leaf is not its child, so the chain is invalid — and the PCK CRL, if
		// asked for at all, is still that of the CA that issued the PCK certificate
		cn := CNProcessor
		if w.PKI.Int.X.Subject.CommonName == CNProcessor {
			cn = CNPlatform
		}
		other := MakeCert(CertSpec{CN: cn, KeyLabel: w.PKI.Spec.Seed + "/other-kind-int", Serial: serialOr(nil, w.PKI.Spec.Seed+"/other-kind-int"), NotBefore: Wide.NotBefore, NotAfter: Wide.NotAfter, CA: true, CRLDP: w.PKI.Spec.RootCRLDP}, w.PKI.Root)
		q := w.Q.Clone()
		q.Chain = ChainPEM(w.Leaf, other, w.PKI.Root)
		q.FixSizes()
		w.Raw = q.Encode()
	}, MinLevel: LvlBase},
	{Name: "intermediate-not-yet-valid-while-the-crl-header-carries-a-valid-edition", Post: func(w *World) {
		// the quote embeds an edition of the issuing CA's certificate (same name, same key) that becomes valid a day after
		// the verification time; the PCK CRL answer carries the currently valid edition in its issuer-chain header. The
		// chain in the quote is what is judged: data fetched for a further check never repairs it.
		spec := w.PKI.Spec
		notYet := MakeCert(CertSpec{CN: w.PKI.Int.X.Subject.CommonName, KeyLabel: spec.Seed + "/int", Serial: serialOr(nil, spec.Seed+"/int-not-yet-valid"), NotBefore: w.Times.PckCertChain.Add(24 * time.Hour), NotAfter: Wide.NotAfter, CA: true, CRLDP: spec.RootCRLDP}, w.PKI.Root)
		q := w.Q.Clone()
		q.Chain = ChainPEM(w.Leaf, notYet, w.PKI.Root)
		q.FixSizes()
		w.Raw = q.Encode()
	}, MinLevel: LvlBase},
	{Name: "quote-carries-an-expired-edition-of-the-trusted-root", Post: func(w *World) {
		// the root certificate IN THE QUOTE is an edition (same name, same key) that expired an hour before the
		// verification time; the relying party trusts the current edition. The intermediate verifies under both, x509 path
		// building is content with the trusted edition - the expired certificate the quote carries is refused all the same,
		// at every level
		spec := w.PKI.Spec
		rk := spec.RootKeyLabel
		if rk == "" {
			rk = spec.Seed + "/root"
		}
		old := MakeCert(CertSpec{CN: CNRoot, KeyLabel: rk, Serial: serialOr(nil, spec.Seed+"/root-expired-edition"), NotBefore: Wide.NotBefore, NotAfter: w.Times.PckCertChain.Add(-time.Hour).Truncate(time.Second), CA: true, CRLDP: spec.RootCRLDP, SKI: spec.RootSKI, RawSubject: spec.RootRawSubject}, nil)
		q := w.Q.Clone()
		q.Chain = ChainPEM(w.Leaf, w.PKI.Int, old)
		q.FixSizes()
		w.Raw = q.Encode()
	}, MinLevel: LvlBase},
	{Name: "qe-identity-signed-under-a-look-alike-of-the-trusted-root", Post: func(w *World) {
		// the QE Identity (same content) re-signed by a certificate issued under a root that copies the trusted root byte
		// for byte - serial, names, validity, even the signature value - except for its public key
		fake := LookAlikeKeepingSignature(w.PKI.Root, DeriveKey("fault/look-alike-root-key"))
		signer := MakeCert(CertSpec{CN: CNTcbSigner, KeyLabel: "fault/look-alike-signer", Serial: w.PKI.QeSig.X.SerialNumber.Bytes(), NotBefore: Wide.NotBefore, NotAfter: Wide.NotAfter, CRLDP: w.PKI.Spec.RootCRLDP}, fake)
		w.Resp[QeIdentityURL] = Response{Header: map[string][]string{HdrQeID: {IssuerChainHeader(signer, fake)}}, Body: SignedBody("enclaveIdentity", w.QeID.Render(), signer.Key)}
	}, MinLevel: LvlColl},
	{Name: "tcbinfo-signature-member-missing", Post: func(w *World) {
		// the response carries the (genuine) document and no signature member at all
		u := TcbInfoURL(w.FmspcHex())
		r := w.Resp[u]
		r.Body = []byte(`{"tcbInfo":` + string(w.TcbInfo.Render()) + `}`)
		w.Resp[u] = r
	}, MinLevel: LvlColl},
	{Name: "qeid-signature-member-null", Post: func(w *World) {
		r := w.Resp[QeIdentityURL]
		r.Body = []byte(`{"enclaveIdentity":` + string(w.QeID.Render()) + `,"signature":null}`)
		w.Resp[QeIdentityURL] = r
	}, MinLevel: LvlColl},
	{Name: "issuer-chain-header-only-under-two-other-spellings", Post: func(w *World) {
		// no header under the canonical name; the genuine chain under an all-lower-case name and a foreign chain under
		// an all-upper-case name: whichever a tolerant lookup would pick, it must pick the same one every time
		u := TcbInfoURL(w.FmspcHex())
		r := w.Resp[u]
		f := NewPKI(PKISpec{Seed: "fault/foreign-header"})
		r.Header = map[string][]string{strings.ToLower(HdrTcbInfo): r.Header[HdrTcbInfo], strings.ToUpper(HdrTcbInfo): {IssuerChainHeader(f.TcbSig, f.Root)}}
		w.Resp[u] = r
	}, MinLevel: LvlColl, GetterOnly: true},
	{Name: "leaf-expired", Pre: func(w *World) {
		w.LeafSpec.W = Window{Wide.NotBefore, w.Times.PckCertChain.Add(-time.Hour)}
	}, MinLevel: LvlBase},
	{Name: "processor-ca", NewPKI: func(seed string) PKISpec { return PKISpec{Seed: seed + "-proc", IntCN: CNProcessor} }, MinLevel: LvlBase},
	{Name: "tcbinfo-expired", Pre: func(w *World) { w.TcbInfo.NextUpdate = w.Times.TcbInfo.Add(-time.Second) }, MinLevel: LvlColl},
	{Name: "qeid-expired", Pre: func(w *World) { w.QeID.NextUpdate = w.Times.QeIdentity.Add(-time.Second) }, MinLevel: LvlColl},
	{Name: "tcb-level-out-of-date", Pre: func(w *World) {
		for i := range w.TcbInfo.Levels {
			w.TcbInfo.Levels[i].Status = "OutOfDate"
		}
	}, MinLevel: LvlColl},
	{Name: "qe-level-revoked", Pre: func(w *World) {
		for i := range w.QeID.Levels {
			w.QeID.Levels[i].Status = "Revoked"
		}
	}, MinLevel: LvlColl},
	{Name: "module-out-of-date-with-lenient-identity-listed-last", Pre: func(w *World) {
		// TDX-module branch; the identity of the quote's module version says OutOfDate for this module SVN, and a
		// more lenient identity of ANOTHER version is listed after it
		q := w.Q
		if q.TeeTcbSvn[1] == 0 {
			q.TeeTcbSvn[1] = 3
		}
		if q.TeeTcbSvn[0] < 2 {
			q.TeeTcbSvn[0] = 2
		}
		if q.TeeTcbSvn[0] == 255 {
			q.TeeTcbSvn[0] = 254
		}
		w.HonestCollateral()
		own := w.TcbInfo.Identities[0]
		own.Levels = []ModuleLevel{{Isvsvn: uint32(q.TeeTcbSvn[0]) + 1, Status: "UpToDate"}, {Isvsvn: 0, Status: "OutOfDate"}}
		decoy := own
		decoy.ID = fmt.Sprintf("TDX_%02x", q.TeeTcbSvn[1]%200+7)
		decoy.Levels = []ModuleLevel{{Isvsvn: 0, Status: "UpToDate"}}
		w.TcbInfo.Identities = []ModuleIdentity{own, decoy}
	}, MinLevel: LvlColl, EditsQuote: true},
	{Name: "qeid-wrong-mrsigner", Pre: func(w *World) { w.QeID.Mrsigner[3] ^= 0x20 }, MinLevel: LvlColl},
	{Name: "tcbinfo-wrong-fmspc", Pre: func(w *World) { w.TcbInfo.Fmspc = "0123456789ab" }, MinLevel: LvlColl},
	{Name: "tcbinfo-endpoint-down", Post: func(w *World) { delete(w.Resp, TcbInfoURL(w.FmspcHex())) }, MinLevel: LvlColl},
	{Name: "tcbinfo-signature-corrupt", Post: func(w *World) {
		r := w.Resp[TcbInfoURL(w.FmspcHex())]
		b := append([]byte{}, r.Body...)
		b[len(b)-10] ^= 0x01
		r.Body = b
		w.Resp[TcbInfoURL(w.FmspcHex())] = r
	}, MinLevel: LvlColl},
	{Name: "leaf-revoked", Pre: func(w *World) {
		w.BuildLeaf()
		w.PckCrl.Revoked = append(w.PckCrl.Revoked, w.Leaf.X.SerialNumber.Bytes())
	}, MinLevel: LvlCRL},
	{Name: "intermediate-revoked", Pre: func(w *World) {
		w.RootCrl.Revoked = append(w.RootCrl.Revoked, w.PKI.Int.X.SerialNumber.Bytes())
	}, MinLevel: LvlCRL},
	{Name: "intermediate-revoked-and-the-trusted-bundle-also-lists-it", Pre: func(w *World) {
		// the relying party's bundle holds the whole chain (root and issuing CA): the shortest path x509 finds ends at the
		// issuing CA - which the Root CA CRL revokes
		w.RootCrl.Revoked = append(w.RootCrl.Revoked, w.PKI.Int.X.SerialNumber.Bytes())
		w.PoolExtra = []*Cert{w.PKI.Int}
	}, MinLevel: LvlCRL},
	{Name: "quote-carries-an-expired-edition-of-the-issuing-ca-and-the-trusted-bundle-lists-the-renewed-one", Post: func(w *World) {
		// the issuing CA certificate IN THE QUOTE expired an hour before the verification time; the relying party's bundle
		// lists the root and the renewed certificate of that CA (same name, same key): x509 finds a path through the
		// renewed one, the expired certificate the quote carries is refused all the same, at every level
		spec := w.PKI.Spec
		old := MakeCert(CertSpec{CN: w.PKI.Int.X.Subject.CommonName, KeyLabel: spec.Seed + "/int", Serial: serialOr(nil, spec.Seed+"/int-expired-edition"), NotBefore: Wide.NotBefore, NotAfter: w.Times.PckCertChain.Add(-time.Hour).Truncate(time.Second), CA: true, CRLDP: spec.RootCRLDP}, w.PKI.Root)
		q := w.Q.Clone()
		q.Chain = ChainPEM(w.Leaf, old, w.PKI.Root)
		q.FixSizes()
		w.Raw = q.Encode()
		w.PoolExtra = []*Cert{w.PKI.Int}
	}, MinLevel: LvlBase},
	{Name: "leaf-revoked-with-an-entry-dated-after-the-verification-time", Pre: func(w *World) {
		// the date of a CRL entry says when the CA learnt of the compromise, not from when the serial counts as revoked
		w.BuildLeaf()
		for len(w.PckCrl.RevokedAt) < len(w.PckCrl.Revoked) {
			w.PckCrl.RevokedAt = append(w.PckCrl.RevokedAt, time.Time{})
		}
		w.PckCrl.Revoked = append(w.PckCrl.Revoked, w.Leaf.X.SerialNumber.Bytes())
		w.PckCrl.RevokedAt = append(w.PckCrl.RevokedAt, w.Times.PckCrl.Add(48*time.Hour).Truncate(time.Second))
	}, MinLevel: LvlCRL},
	{Name: "intermediate-revoked-with-an-entry-dated-after-the-verification-time", Pre: func(w *World) {
		for len(w.RootCrl.RevokedAt) < len(w.RootCrl.Revoked) {
			w.RootCrl.RevokedAt = append(w.RootCrl.RevokedAt, time.Time{})
		}
		w.RootCrl.Revoked = append(w.RootCrl.Revoked, w.PKI.Int.X.SerialNumber.Bytes())
		w.RootCrl.RevokedAt = append(w.RootCrl.RevokedAt, w.Times.RootCaCrl.Add(time.Hour).Truncate(time.Second))
	}, MinLevel: LvlCRL},
	{Name: "signed-tcbinfo-lacks-the-module-identities-an-unsigned-twin-supplies-them", Pre: func(w *World) {
		if w.Q.TeeTcbSvn[1] == 0 {
			w.Q.TeeTcbSvn[1] = 1
			w.HonestCollateral()
		}
	}, Post: func(w *World) {
		// the genuinely signed TCB Info has the older layout without tdxModuleIdentities; an unsigned member of the same
		// response, spelled TCBINFO, carries the full document. The quote's module version needs an identity: there is
		// none in what Intel signed.
		full := w.TcbInfo.Render()
		signed := append([]byte{}, full...)
		if i := bytes.Index(signed, []byte(`"tdxModuleIdentities":[`)); i >= 0 {
			if j := bytes.Index(signed[i:], []byte(`],"tcbLevels":[`)); j >= 0 {
				signed = append(append([]byte{}, signed[:i]...), signed[i+j+2:]...) // the member is ABSENT from what is signed
			}
		}
		sig := hex.EncodeToString(w.PKI.TcbSig.Key.SignRaw(signed))
		u := TcbInfoURL(w.FmspcHex())
		r := w.Resp[u]
		r.Body = []byte(`{"TCBINFO":` + string(full) + `,"tcbInfo":` + string(signed) + `,"signature":"` + sig + `"}`)
		w.Resp[u] = r
	}, MinLevel: LvlColl, EditsQuote: true},
	{Name: "tcb-signer-revoked", Pre: func(w *World) {
		w.RootCrl.Revoked = append(w.RootCrl.Revoked, w.PKI.TcbSig.X.SerialNumber.Bytes())
	}, MinLevel: LvlCRL},
	{Name: "pck-crl-endpoint-down", Post: func(w *World) { delete(w.Resp, PckCrlURL(w.IssuerCA())) }, MinLevel: LvlCRL},
	{Name: "root-crl-endpoint-down", Post: func(w *World) {
		for _, u := range w.PKI.Root.X.CRLDistributionPoints {
			delete(w.Resp, u)
		}
	}, MinLevel: LvlCRL},
	{Name: "pck-crl-expired", Pre: func(w *World) { w.PckCrl.NextUpdate = w.Times.PckCrl.Add(-time.Second) }, MinLevel: LvlCRL},
	{Name: "root-crl-expired", Pre: func(w *World) { w.RootCrl.NextUpdate = w.Times.RootCaCrl.Add(-time.Second) }, MinLevel: LvlCRL},
}

// ApplyPre runs the pre-build part of a fault.
func (f Fault) ApplyPre(w *World) {
	if f.Pre != nil {
		f.Pre(w)
	}
}

// ApplyPost runs the post-build part of a fault.
func (f Fault) ApplyPost(w *World) {
	if f.Post != nil {
		f.Post(w)
	}
}

// RejectedAt tells whether the fault must cause rejection at level l.
func (f Fault) RejectedAt(l Level) bool {
	if l == LvlCRLNoColl {
		return true
	}
	if f.Benign {
		return false
	}
	return l >= f.MinLevel
}

// RelationOnlyFaults are worlds the statement does not classify (accepted or not): they serve the relations between
// runs - monotonicity across levels, independence of history - only.
var RelationOnlyFaults = []Fault{
	{Name: "tcbinfo-header-root-is-an-odd-edition-of-the-trusted-root", Post: func(w *World) {
		// the issuer chain of the TCB Info ends in a certificate that carries the trusted root's name and key and is
		// signed with that key - under ECDSA with SHA-384 (the PKI uses SHA-256 throughout), another serial number. It is
		// not the certificate the relying party trusts; whatever a verifier makes of it, it makes the same of it at every level.
		tmpl := *w.PKI.Root.X
		tmpl.SignatureAlgorithm = x509.ECDSAWithSHA384
		tmpl.SerialNumber = big.NewInt(0x384384)
		der, err := x509.CreateCertificate(nil, &tmpl, &tmpl, &w.PKI.Root.Key.Pub, w.PKI.Root.Key)
		if err != nil {
			return
		}
		odd, err := CertFromDER(der, w.PKI.Root.Key)
		if err != nil {
			return
		}
		u := TcbInfoURL(w.FmspcHex())
		r := w.Resp[u]
		r.Header = map[string][]string{HdrTcbInfo: {IssuerChainHeader(w.PKI.TcbSig, odd)}}
		w.Resp[u] = r
	}, MinLevel: LvlColl, Benign: false, Unjudged: true},
}
