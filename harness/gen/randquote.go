package gen

// RandomRefQuote fills every field from the stream (no cryptographic consistency):
// a structurally valid v4 quote with the given variable-length regions.
func RandomRefQuote(s *Stream, authLen, chainLen, extraLen int) *RefQuote {
	q := &RefQuote{Version: 4, AKType: 2, TeeType: 0x81, CertType: 6, ChainType: 5}
	s.Fill(q.Word8[:])
	s.Fill(q.Word10[:])
	s.Fill(q.VendorID[:])
	s.Fill(q.UserData[:])
	s.Fill(q.TeeTcbSvn[:])
	s.Fill(q.MrSeam[:])
	s.Fill(q.MrSignerSeam[:])
	s.Fill(q.SeamAttr[:])
	s.Fill(q.TdAttr[:])
	s.Fill(q.Xfam[:])
	s.Fill(q.MrTd[:])
	s.Fill(q.MrConfigID[:])
	s.Fill(q.MrOwner[:])
	s.Fill(q.MrOwnerConfig[:])
	for i := range q.Rtmr {
		s.Fill(q.Rtmr[i][:])
	}
	s.Fill(q.ReportData[:])
	s.Fill(q.Sig[:])
	s.Fill(q.AttKey[:])
	s.Fill(q.QeCpuSvn[:])
	q.QeMiscSelect = uint32(s.Uint64())
	s.Fill(q.QeRes1[:])
	s.Fill(q.QeAttributes[:])
	s.Fill(q.QeMrEnclave[:])
	s.Fill(q.QeRes2[:])
	s.Fill(q.QeMrSigner[:])
	s.Fill(q.QeRes3[:])
	q.QeIsvProdID = uint16(s.Uint64())
	q.QeIsvSvn = uint16(s.Uint64())
	s.Fill(q.QeRes4[:])
	s.Fill(q.QeReportData[:])
	s.Fill(q.QeSig[:])
	q.Auth = s.Bytes(authLen)
	q.Chain = s.Bytes(chainLen)
	// certification data that ends (and begins) the way a PEM chain does, with and without the C-string terminator
	if chainLen >= 64 && s.Intn(3) == 0 {
		copy(q.Chain, "-----BEGIN CERTIFICATE-----\n")
		suffix := []string{"-----END CERTIFICATE-----\n", "-----END CERTIFICATE-----\n\x00", "-----END CERTIFICATE-----\x00", "-----END CERTIFICATE-----\r\n\x00", "-----END CERTIFICATE-----\n\n", "-----END CERTIFICATE----- \x00", "\x00\x00"}[s.Intn(7)]
		copy(q.Chain[chainLen-len(suffix):], suffix)
	}
	q.Extra = s.Bytes(extraLen)
	q.FixSizes()
	return q
}

// Offsets of the size / type fields of a consistent quote with the given auth length.
type FieldPos struct {
	Name string
	Off  int
	Len  int
}

// SizeFields lists the header discriminators and every nested size/type field.
func SizeFields(authLen int) []FieldPos {
	return []FieldPos{
		{"version", 0, 2}, {"key_type", 2, 2}, {"tee_type", 4, 4},
		{"signed_data_size", 632, 4},
		{"cert_type", 636 + 128, 2}, {"cert_size", 636 + 130, 4},
		{"auth_size", 636 + 134 + 448, 2},
		{"chain_type", 636 + 134 + 450 + authLen, 2}, {"chain_size", 636 + 134 + 452 + authLen, 4},
	}
}
