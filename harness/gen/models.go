package gen

import (
	"bytes"
	"encoding/binary"
)

// ---------------------------------------------------------------------------
// Policy-validation reference model (C08, C14), written from the property text and
// the option doc comments. It never looks at package validate.
// ---------------------------------------------------------------------------

// PolicyFields is the literal content of a policy (options or message), field by field.
// A nil slice means "absent"; an empty non-nil slice is kept distinct so callers can
// classify it.
type PolicyFields struct {
	MinQeSvn, MinPceSvn uint32
	QeVendorID          []byte
	MinTeeTcbSvn        []byte
	MrSeam              []byte
	TdAttributes        []byte
	Xfam                []byte
	MrTd                []byte
	MrConfigID          []byte
	MrOwner             []byte
	MrOwnerConfig       []byte
	ReportData          []byte
	Rtmrs               [][]byte
	AnyMrTd             [][]byte
}

// PolicyVerdict is the model's answer.
type PolicyVerdict struct {
	Malformed   bool   // some option has a wrong non-zero size (or an empty non-nil minimum TEE TCB SVN / wrong RTMR count)
	EmptyNonNil bool   // some field is empty but non-nil
	DontCare    bool   // verdict left open by the property (AnyMrTd with an empty entry)
	Miss        string // first missed expectation among the well-formed part ("" = none)
	Configured  int    // number of configured expectations
	Near        bool   // some configured expectation differs from the quote in at most one bit / one SVN step
}

// Fixed masks (documented next to the constants / Intel TDX module spec).
const (
	XfamFixed1    uint64 = 0x3
	XfamFixed0    uint64 = 0x0006DBE7
	TdAttrAllowed uint64 = 1<<0 | 1<<28 | 1<<30 | 1<<63
)

func bitDistance(a, b []byte) int {
	if len(a) != len(b) {
		return 1 << 20
	}
	d := 0
	for i := range a {
		x := a[i] ^ b[i]
		for x != 0 {
			d++
			x &= x - 1
		}
	}
	return d
}

// PolicyModel evaluates a policy against a quote (reference view).
func PolicyModel(q *RefQuote, p *PolicyFields) PolicyVerdict {
	var v PolicyVerdict
	miss := func(s string) {
		if v.Miss == "" {
			v.Miss = s
		}
	}
	exact := func(name string, size int, given, want []byte) {
		if want != nil && len(want) == 0 {
			v.EmptyNonNil = true
		}
		if len(want) == 0 {
			return
		}
		if len(want) != size {
			v.Malformed = true
			return
		}
		v.Configured++
		d := bitDistance(given, want)
		if d <= 1 {
			v.Near = true
		}
		if d != 0 {
			miss(name)
		}
	}
	exact("qe_vendor_id", 16, q.VendorID[:], p.QeVendorID)
	exact("mr_seam", 48, q.MrSeam[:], p.MrSeam)
	exact("td_attributes", 8, q.TdAttr[:], p.TdAttributes)
	exact("xfam", 8, q.Xfam[:], p.Xfam)
	exact("mr_td", 48, q.MrTd[:], p.MrTd)
	exact("mr_config_id", 48, q.MrConfigID[:], p.MrConfigID)
	exact("mr_owner", 48, q.MrOwner[:], p.MrOwner)
	exact("mr_owner_config", 48, q.MrOwnerConfig[:], p.MrOwnerConfig)
	exact("report_data", 64, q.ReportData[:], p.ReportData)
	if len(p.Rtmrs) != 0 {
		if len(p.Rtmrs) != 4 {
			v.Malformed = true
		} else {
			for i := 0; i < 4; i++ {
				exact("rtmr", 48, q.Rtmr[i][:], p.Rtmrs[i])
			}
		}
	}
	if len(p.AnyMrTd) != 0 {
		found := false
		for _, e := range p.AnyMrTd {
			if len(e) == 0 {
				v.DontCare = true
			}
			if len(e) == 48 {
				d := bitDistance(q.MrTd[:], e)
				if d <= 1 {
					v.Near = true
				}
				if d == 0 {
					found = true
				}
			}
		}
		v.Configured++
		if !found {
			miss("any_mr_td")
		}
	}
	if p.MinTeeTcbSvn != nil {
		if len(p.MinTeeTcbSvn) != 16 {
			v.Malformed = true
			if len(p.MinTeeTcbSvn) == 0 {
				v.EmptyNonNil = true
			}
		} else {
			v.Configured++
			for i := 0; i < 16; i++ {
				if int(q.TeeTcbSvn[i])-int(p.MinTeeTcbSvn[i]) >= -1 && int(q.TeeTcbSvn[i])-int(p.MinTeeTcbSvn[i]) <= 1 && p.MinTeeTcbSvn[i] != 0 {
					v.Near = true
				}
				if q.TeeTcbSvn[i] < p.MinTeeTcbSvn[i] {
					miss("minimum_tee_tcb_svn")
				}
			}
		}
	}
	qe := uint32(binary.LittleEndian.Uint16(q.Word10[:]))
	pce := uint32(binary.LittleEndian.Uint16(q.Word8[:]))
	if p.MinQeSvn > 0 {
		v.Configured++
		if d := int64(qe) - int64(p.MinQeSvn); d >= -1 && d <= 1 {
			v.Near = true
		}
	}
	if p.MinPceSvn > 0 {
		v.Configured++
		if d := int64(pce) - int64(p.MinPceSvn); d >= -1 && d <= 1 {
			v.Near = true
		}
	}
	if qe < p.MinQeSvn {
		miss("minimum_qe_svn")
	}
	if pce < p.MinPceSvn {
		miss("minimum_pce_svn")
	}
	x := binary.LittleEndian.Uint64(q.Xfam[:])
	if x&XfamFixed1 != XfamFixed1 || x&^XfamFixed0 != 0 {
		miss("xfam fixed bits")
	}
	a := binary.LittleEndian.Uint64(q.TdAttr[:])
	if a&^TdAttrAllowed != 0 {
		miss("td_attributes fixed bits")
	}
	return v
}

// BytesEq reports equality treating nil and empty alike.
func BytesEq(a, b []byte) bool { return bytes.Equal(a, b) }

// ---------------------------------------------------------------------------
// TCB status reference model (C04), from the property statement.
// ---------------------------------------------------------------------------

// TcbOutcome is the model's decision.
type TcbOutcome struct {
	Accept        bool
	Reason        string
	PlatformLevel int // index of the selected platform level, -1 if none
	ModuleLevel   int // index of the selected module level, -1 if none / not applicable
	ModuleBranch  bool
	// MalformedLevel: some platform level does not carry two lists of 16 components. Such a level never matches in
	// this model; a verifier that refuses the whole document instead is equally acceptable (see the check).
	MalformedLevel bool
}

func hexEqFold(a, b string) bool {
	if len(a) != len(b) {
		return false
	}
	for i := 0; i < len(a); i++ {
		x, y := a[i], b[i]
		if x >= 'A' && x <= 'Z' {
			x += 'a' - 'A'
		}
		if y >= 'A' && y <= 'Z' {
			y += 'a' - 'A'
		}
		if x != y {
			return false
		}
	}
	return true
}

// TcbModel evaluates Intel's TCB-level selection for a world's platform, TD body and TCB Info.
func TcbModel(w *World) TcbOutcome {
	out := TcbOutcome{PlatformLevel: -1, ModuleLevel: -1}
	d := &w.TcbInfo
	q := w.Q
	if !hexEqFold(d.Fmspc, w.FmspcHex()) {
		out.Reason = "fmspc differs"
		return out
	}
	if !hexEqFold(d.PceID, Hex(w.Sgx.PceID[:])) {
		out.Reason = "pceId differs"
		return out
	}
	if !bytes.Equal(d.Mrsigner, q.MrSignerSeam[:]) {
		out.Reason = "mrsignerseam differs"
		return out
	}
	if len(d.Mask) != 8 || len(d.Attributes) != 8 {
		out.Reason = "attributes / mask size"
		return out
	}
	for i := 0; i < 8; i++ {
		if q.SeamAttr[i]&d.Mask[i] != d.Attributes[i] {
			out.Reason = "masked seam attributes differ"
			return out
		}
	}
	out.ModuleBranch = q.TeeTcbSvn[1] != 0
	start := 0
	if out.ModuleBranch {
		start = 2
	}
	for _, l := range d.Levels {
		if l.Malformed() {
			out.MalformedLevel = true
		}
	}
	for li, l := range d.Levels {
		if l.Malformed() {
			continue
		}
		ok := l.PceSvn <= w.Sgx.PceSvn
		for i := 0; i < 16 && ok; i++ {
			if l.Sgx[i] > w.Sgx.Comp[i] {
				ok = false
			}
		}
		for i := start; i < 16 && ok; i++ {
			if l.Tdx[i] > q.TeeTcbSvn[i] {
				ok = false
			}
		}
		if ok {
			out.PlatformLevel = li
			break
		}
	}
	if out.PlatformLevel < 0 {
		out.Reason = "no platform level matches"
		return out
	}
	if d.Levels[out.PlatformLevel].Status != "UpToDate" {
		out.Reason = "platform level is " + d.Levels[out.PlatformLevel].Status
		return out
	}
	if out.ModuleBranch {
		want := "TDX_" + Hex([]byte{q.TeeTcbSvn[1]})
		found := -1
		for i, id := range d.Identities {
			if id.ID == want {
				found = i
				break
			}
		}
		if found < 0 {
			out.Reason = "module identity " + want + " missing"
			return out
		}
		for li, l := range d.Identities[found].Levels {
			if l.Isvsvn <= uint32(q.TeeTcbSvn[0]) {
				out.ModuleLevel = li
				break
			}
		}
		if out.ModuleLevel < 0 {
			out.Reason = "no module level matches"
			return out
		}
		if st := d.Identities[found].Levels[out.ModuleLevel].Status; st != "UpToDate" {
			out.Reason = "module level is " + st
			return out
		}
	}
	out.Accept = true
	return out
}

// ---------------------------------------------------------------------------
// QE identity reference model (C07)
// ---------------------------------------------------------------------------

// QeOutcome is the model's decision.
type QeOutcome struct {
	Accept bool
	Reason string
	Level  int
}

// QeModel evaluates the QE report of the world's quote against its QE Identity document.
func QeModel(w *World) QeOutcome {
	q, d := w.Q, &w.QeID
	out := QeOutcome{Level: -1}
	if len(d.Miscselect) != 4 || len(d.MiscselectMask) != 4 {
		out.Reason = "miscselect size"
		return out
	}
	var ms [4]byte
	binary.LittleEndian.PutUint32(ms[:], q.QeMiscSelect)
	for i := 0; i < 4; i++ {
		if ms[i]&d.MiscselectMask[i] != d.Miscselect[i] {
			out.Reason = "masked miscselect differs"
			return out
		}
	}
	if len(d.AttributesMask) != 16 || len(d.Attributes) != 16 {
		out.Reason = "attributes size"
		return out
	}
	for i := 0; i < 16; i++ {
		if q.QeAttributes[i]&d.AttributesMask[i] != d.Attributes[i] {
			out.Reason = "masked attributes differ"
			return out
		}
	}
	if d.RawIsvProdID != "" {
		out.Reason = "isvprodid is not a number the field can hold"
		return out
	}
	for _, l := range d.Levels {
		if l.RawSvn != "" {
			out.Reason = "a level's isvsvn is not a number the field can hold"
			return out
		}
	}
	if !bytes.Equal(d.Mrsigner, q.QeMrSigner[:]) {
		out.Reason = "mrsigner differs"
		return out
	}
	if d.IsvProdID != q.QeIsvProdID {
		out.Reason = "isvprodid differs"
		return out
	}
	for i, l := range d.Levels {
		if l.Isvsvn <= uint32(q.QeIsvSvn) {
			out.Level = i
			break
		}
	}
	if out.Level < 0 {
		out.Reason = "no QE level matches"
		return out
	}
	if st := d.Levels[out.Level].Status; st != "UpToDate" {
		out.Reason = "QE level is " + st
		return out
	}
	out.Accept = true
	return out
}
