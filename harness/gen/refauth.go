package gen

import (
	"bytes"
	"crypto/x509"
	"encoding/hex"
	"encoding/json"
	"encoding/pem"
	"io"
	"net/url"
	"strings"
	"time"
)

// Reference authenticator for collateral responses (C03). It looks at a response on its own:
// it splits the top-level JSON object into members with a streaming tokenizer (no struct
// decoding, no case folding), and asks whether SOME member's raw bytes verify under SOME
// top-level string value taken as hex signature, with the header's first certificate, that
// certificate being a TCB-signing certificate issued by the header's second, self-signed root
// certificate and chaining to the trusted pool. Spelling of the member / signature keys is
// deliberately ignored: what matters is which bytes are signed.

// Member is one top-level member of a response body.
type Member struct {
	Key string
	Raw []byte
}

// SplitTopLevel returns the top-level members in order, or ok=false when the body is not
// exactly one JSON object.
func SplitTopLevel(body []byte) ([]Member, bool) {
	dec := json.NewDecoder(bytes.NewReader(body))
	tok, err := dec.Token()
	if err != nil {
		return nil, false
	}
	if d, ok := tok.(json.Delim); !ok || d != '{' {
		return nil, false
	}
	var out []Member
	for dec.More() {
		kt, err := dec.Token()
		if err != nil {
			return nil, false
		}
		k, ok := kt.(string)
		if !ok {
			return nil, false
		}
		var raw json.RawMessage
		if err := dec.Decode(&raw); err != nil {
			return nil, false
		}
		out = append(out, Member{Key: k, Raw: append([]byte{}, raw...)})
	}
	if tok, err = dec.Token(); err != nil {
		return nil, false
	}
	if d, ok := tok.(json.Delim); !ok || d != '}' {
		return nil, false
	}
	// nothing but white space may follow
	rest, _ := io.ReadAll(io.MultiReader(dec.Buffered()))
	if _, err := dec.Token(); err != io.EOF {
		return nil, false
	}
	_ = rest
	return out, true
}

// HeaderCerts decodes an issuer-chain header value into its certificates (URL-escaped PEM).
func HeaderCerts(value string) []*x509.Certificate {
	un, err := url.QueryUnescape(value)
	if err != nil {
		return nil
	}
	var out []*x509.Certificate
	rest := []byte(un)
	for {
		var blk *pem.Block
		blk, rest = pem.Decode(rest)
		if blk == nil {
			break
		}
		if blk.Type != "CERTIFICATE" {
			out = append(out, nil)
			continue
		}
		c, err := x509.ParseCertificate(blk.Bytes)
		if err != nil {
			out = append(out, nil)
			continue
		}
		out = append(out, c)
	}
	return out
}

// AuthPair is a (member bytes, signature) pair that verifies under an acceptable signer.
type AuthPair struct {
	Raw    []byte
	SigHex string
}

// SignerAcceptable applies the property's conditions on the issuer chain.
func SignerAcceptable(certs []*x509.Certificate, pool *x509.CertPool, at time.Time) bool {
	if len(certs) < 2 || certs[0] == nil || certs[1] == nil {
		return false
	}
	signer, root := certs[0], certs[1]
	if signer.Subject.CommonName != CNTcbSigner || root.Subject.CommonName != CNRoot {
		return false
	}
	if root.CheckSignatureFrom(root) != nil {
		return false
	}
	if signer.CheckSignatureFrom(root) != nil {
		return false
	}
	if _, err := signer.Verify(x509.VerifyOptions{Roots: pool, CurrentTime: at, KeyUsages: []x509.ExtKeyUsage{x509.ExtKeyUsageAny}}); err != nil {
		return false
	}
	return true
}

// Authenticate returns every authentic (member, signature) pair of a response.
func Authenticate(body []byte, headerValues []string, pool *x509.CertPool, at time.Time) []AuthPair {
	members, ok := SplitTopLevel(body)
	if !ok {
		return nil
	}
	var sigs []string
	for _, m := range members {
		var s string
		if json.Unmarshal(m.Raw, &s) == nil && len(m.Raw) > 0 && m.Raw[0] == '"' {
			sigs = append(sigs, s)
		}
	}
	var out []AuthPair
	for _, hv := range headerValues {
		certs := HeaderCerts(hv)
		if !SignerAcceptable(certs, pool, at) {
			continue
		}
		pub, ok := leafPubRaw(certs[0])
		if !ok {
			continue
		}
		for _, m := range members {
			for _, s := range sigs {
				sb, err := hex.DecodeString(s)
				if err != nil || len(sb) != 64 {
					continue
				}
				if VerifyRaw(pub, m.Raw, sb) {
					out = append(out, AuthPair{Raw: m.Raw, SigHex: s})
				}
			}
		}
	}
	return out
}

// DocFieldsOK checks id, version and a non-empty level list on the raw signed member.
func DocFieldsOK(raw []byte, wantID string, wantVersion float64) bool {
	var m map[string]json.RawMessage
	if json.Unmarshal(raw, &m) != nil {
		return false
	}
	var id string
	var ver float64
	var levels []json.RawMessage
	if json.Unmarshal(m["id"], &id) != nil || id != wantID {
		return false
	}
	if json.Unmarshal(m["version"], &ver) != nil || ver != wantVersion {
		return false
	}
	if json.Unmarshal(m["tcbLevels"], &levels) != nil || len(levels) == 0 {
		return false
	}
	return true
}

// FoldVariants returns spellings of a key that Go's encoding/json matches to the same struct
// field: other case, and Unicode fold characters (K for k, ſ for s).
func FoldVariants(key string) []string {
	out := []string{strings.ToUpper(key), strings.ToLower(key), strings.ToUpper(key[:1]) + key[1:]}
	if i := strings.IndexAny(key, "sS"); i >= 0 {
		out = append(out, key[:i]+"ſ"+key[i+1:])
	}
	if i := strings.IndexAny(key, "kK"); i >= 0 {
		out = append(out, key[:i]+"K"+key[i+1:])
	}
	return out
}
