package gen

import (
	"bytes"
	"crypto/sha256"
	"crypto/x509"
	"encoding/binary"
	"encoding/hex"
	"errors"
	"fmt"
	"strings"
	"sync"
	"time"

	"github.com/google/go-tdx-guest/verify"
)

// Stream is a deterministic byte stream expanded from a drawn 64-bit value; it fills the
// "any content" fields so that rapid's own draws stay few (structure) and shrink well.
type Stream struct {
	seed [32]byte
	ctr  uint64
	buf  []byte
}

// NewStream creates a stream from a value and a label.
func NewStream(v uint64, label string) *Stream {
	var b [8]byte
	binary.LittleEndian.PutUint64(b[:], v)
	return &Stream{seed: sha256.Sum256(append(b[:], label...))}
}

// Bytes returns n pseudo-random bytes.
func (s *Stream) Bytes(n int) []byte {
	for len(s.buf) < n {
		var c [8]byte
		binary.LittleEndian.PutUint64(c[:], s.ctr)
		s.ctr++
		h := sha256.Sum256(append(s.seed[:], c[:]...))
		s.buf = append(s.buf, h[:]...)
	}
	out := append([]byte{}, s.buf[:n]...)
	s.buf = s.buf[n:]
	return out
}

// Fill fills dst.
func (s *Stream) Fill(dst []byte) { copy(dst, s.Bytes(len(dst))) }

// Uint64 returns a value.
func (s *Stream) Uint64() uint64 { return binary.LittleEndian.Uint64(s.Bytes(8)) }

// Intn returns a value in [0,n).
func (s *Stream) Intn(n int) int { return int(s.Uint64() % uint64(n)) }

// ---------------------------------------------------------------------------

// Getter is a scripted, recording trust.HTTPSGetter.
type Getter struct {
	mu     sync.Mutex
	Resp   map[string]Response
	Script map[string][]Response // consumed first, one per call
	Log    []string
}

// Get implements trust.HTTPSGetter.
func (g *Getter) Get(url string) (map[string][]string, []byte, error) {
	g.mu.Lock()
	defer g.mu.Unlock()
	g.Log = append(g.Log, url)
	if s := g.Script[url]; len(s) > 0 {
		r := s[0]
		g.Script[url] = s[1:]
		return r.Header, r.Body, r.Err
	}
	r, ok := g.Resp[url]
	if !ok {
		return nil, nil, fmt.Errorf("404: %s", url)
	}
	return r.Header, r.Body, r.Err
}

// Requests returns a copy of the request log.
func (g *Getter) Requests() []string {
	g.mu.Lock()
	defer g.mu.Unlock()
	return append([]string{}, g.Log...)
}

// ---------------------------------------------------------------------------

// Level is a checking level.
type Level int

// Checking levels.
const (
	LvlBase      Level = iota // signatures and chain only
	LvlColl                   // + collateral
	LvlCRL                    // + revocation
	LvlCRLNoColl              // CheckRevocations without GetCollateral (always rejects)
)

func (l Level) String() string {
	return [...]string{"base", "collateral", "collateral+crl", "crl-without-collateral"}[l]
}

// World is a complete attestation scenario; every signed artifact is derived from it by Build.
type World struct {
	PKI *PKI

	Sgx      SgxValues
	SgxDER   []byte // overrides the encoding of Sgx when non-nil
	LeafSpec LeafSpec
	Leaf     *Cert // set by Build unless preset

	AttKey        *Key
	Q             *RefQuote // quote fields; signatures, chain and sizes are filled by Build
	ChainNUL      bool
	ChainStyle    string // "" | "crlf" | "blank-lines-between-blocks" | "no-final-newline": other legal ways of writing the PEM chain
	ChainOverride []byte // use these chain bytes instead of leaf||int||root

	TcbInfo TcbInfoDoc
	QeID    QeIdentityDoc
	PckCrl  CRLSpec
	RootCrl CRLSpec

	Times  verify.TimeSet
	NowNil bool // verify with Options.Now == nil (Times must then be the real current time)
	// FromDefault: Options() starts from verify.DefaultOptions() and fills in every setting (what a caller following
	// the documentation does) instead of building the value itself
	FromDefault bool
	// PoolExtra: certificates the relying party's trust bundle lists next to the root (people put whole chains, or a
	// renewed issuing-CA certificate, into bundles); used by Options when no pool is given
	PoolExtra []*Cert

	// CrossIssuerSerials makes each CRL also list the serial numbers of the certificates the OTHER CA issued
	// (the PCK CRL those of intermediate / signers / root, the root CRL that of the leaf): a serial number means
	// something only together with its issuer, so an honest quote stays acceptable.
	CrossIssuerSerials bool
	// RootDPFail makes that many leading CRL distribution points of the root fail (alternately with a download
	// error and with a body that is not a CRL); as long as a later one works the Root CA CRL is obtainable.
	RootDPFail int
	// RootDPSpec gives single CRL distribution points of the root (by position) a list of their own, or (Response set)
	// an answer of their own; the others serve RootCrl.
	RootDPSpec map[int]*CRLSpec
	RootDPResp map[int]Response
	// CRLIssuerUTF8: the CRLs spell their issuer's name with UTF8String attribute values (as Intel's do) while the
	// certificates made by the standard library use PrintableString: the same name in other bytes.
	CRLIssuerUTF8 bool
	// CRLNoNumber: bit 0 = the PCK CRL, bit 1 = the CRL served by the first root distribution point carries no
	// cRLNumber extension (any further distribution point serves a numbered one).
	CRLNoNumber int

	// Outputs of Build
	Raw  []byte
	Resp map[string]Response
}

// FmspcHex is the lower-case hex FMSPC of the platform.
func (w *World) FmspcHex() string { return hex.EncodeToString(w.Sgx.Fmspc[:]) }

// NewWorld builds an honest world whose free contents come from stream s.
// Structure (auth length, levels …) is canonical; callers vary it before Build.
func NewWorld(p *PKI, s *Stream) *World {
	w := &World{PKI: p}
	s.Fill(w.Sgx.PPID[:])
	s.Fill(w.Sgx.Comp[:])
	w.Sgx.PceSvn = uint16(s.Uint64())
	s.Fill(w.Sgx.CpuSvn[:])
	s.Fill(w.Sgx.PceID[:])
	s.Fill(w.Sgx.Fmspc[:])
	w.Sgx.WithSgxType = true
	id := hex.EncodeToString(s.Bytes(6))
	w.LeafSpec = LeafSpec{KeyLabel: p.Spec.Seed + "/leaf/" + id}
	w.AttKey = DeriveKey(p.Spec.Seed + "/att/" + id)

	q := &RefQuote{Version: 4, AKType: 2, TeeType: 0x81, CertType: 6, ChainType: 5}
	s.Fill(q.Word8[:])
	s.Fill(q.Word10[:])
	s.Fill(q.VendorID[:])
	s.Fill(q.UserData[:])
	s.Fill(q.TeeTcbSvn[:])
	q.TeeTcbSvn[1] = 0
	s.Fill(q.MrSeam[:])
	s.Fill(q.MrSignerSeam[:])
	s.Fill(q.SeamAttr[:])
	s.Fill(q.TdAttr[:])
	s.Fill(q.Xfam[:])
	s.Fill(q.MrTd[:])
	s.Fill(q.MrConfigID[:])
	s.Fill(q.MrOwner[:])
	s.Fill(q.MrOwnerConfig[:])
	for i := range q.Rtmr {
		s.Fill(q.Rtmr[i][:])
	}
	s.Fill(q.ReportData[:])
	s.Fill(q.QeCpuSvn[:])
	q.QeMiscSelect = uint32(s.Uint64())
	s.Fill(q.QeRes1[:])
	s.Fill(q.QeAttributes[:])
	s.Fill(q.QeMrEnclave[:])
	s.Fill(q.QeRes2[:])
	s.Fill(q.QeMrSigner[:])
	s.Fill(q.QeRes3[:])
	q.QeIsvProdID = uint16(s.Uint64())
	q.QeIsvSvn = uint16(s.Uint64())
	s.Fill(q.QeRes4[:])
	q.Auth = s.Bytes(32)
	w.Q = q

	w.Times = verify.TimeSet{PckCertChain: T0, TcbInfo: T0.Add(time.Hour), QeIdentity: T0.Add(2 * time.Hour), PckCrl: T0.Add(3 * time.Hour), RootCaCrl: T0.Add(4 * time.Hour)}
	w.HonestCollateral()
	return w
}

// HonestCollateral (re)derives TCB Info and QE Identity documents that match the world's
// platform, TD body and QE report exactly, with single UpToDate levels.
func (w *World) HonestCollateral() {
	q := w.Q
	lvl := PlatformLevel{Sgx: w.Sgx.Comp, PceSvn: w.Sgx.PceSvn, Status: "UpToDate"}
	lvl.Tdx = q.TeeTcbSvn
	w.TcbInfo = TcbInfoDoc{
		ID: "TDX", Version: 3, IssueDate: Wide.NotBefore, NextUpdate: Wide.NotAfter,
		Fmspc: hex.EncodeToString(w.Sgx.Fmspc[:]), PceID: hex.EncodeToString(w.Sgx.PceID[:]),
		Mrsigner: append([]byte{}, q.MrSignerSeam[:]...), Attributes: append([]byte{}, q.SeamAttr[:]...), Mask: bytesOf(0xff, 8),
		Levels: []PlatformLevel{lvl},
	}
	if q.TeeTcbSvn[1] != 0 {
		w.TcbInfo.Identities = []ModuleIdentity{{
			ID: fmt.Sprintf("TDX_%02x", q.TeeTcbSvn[1]), Mrsigner: append([]byte{}, q.MrSignerSeam[:]...), Attributes: append([]byte{}, q.SeamAttr[:]...), Mask: bytesOf(0xff, 8),
			Levels: []ModuleLevel{{Isvsvn: uint32(q.TeeTcbSvn[0]), Status: "UpToDate"}},
		}}
	}
	ms := make([]byte, 4)
	binary.LittleEndian.PutUint32(ms, q.QeMiscSelect)
	w.QeID = QeIdentityDoc{
		ID: "TD_QE", Version: 2, IssueDate: Wide.NotBefore, NextUpdate: Wide.NotAfter,
		Miscselect: ms, MiscselectMask: bytesOf(0xff, 4),
		Attributes: append([]byte{}, q.QeAttributes[:]...), AttributesMask: bytesOf(0xff, 16),
		Mrsigner: append([]byte{}, q.QeMrSigner[:]...), IsvProdID: q.QeIsvProdID,
		Levels: []QeLevel{{Isvsvn: uint32(q.QeIsvSvn), Status: "UpToDate"}},
	}
}

func bytesOf(v byte, n int) []byte {
	b := make([]byte, n)
	for i := range b {
		b[i] = v
	}
	return b
}

// IssuerCA returns "platform" or "processor" according to the intermediate's name.
func (w *World) IssuerCA() string {
	if w.PKI.Int.X.Subject.CommonName == CNProcessor {
		return "processor"
	}
	return "platform"
}

// BuildLeaf creates the leaf from the world's SGX values unless one is preset.
func (w *World) BuildLeaf() {
	if w.Leaf != nil {
		return
	}
	ls := w.LeafSpec
	if ls.SgxDER == nil {
		if w.SgxDER != nil {
			ls.SgxDER = w.SgxDER
		} else {
			ls.SgxDER = SgxTree(&w.Sgx).Encode()
		}
	}
	if ls.CRLDP == nil {
		ls.CRLDP = []string{PckCrlURL(w.IssuerCA())}
	}
	w.Leaf = MakeLeaf(w.PKI.Int, ls)
}

// SignQuote fills chain, sizes, attestation key, body signature, hash binding and QE signature.
func (w *World) SignQuote() {
	w.BuildLeaf()
	q := w.Q
	if w.ChainOverride != nil {
		q.Chain = append([]byte{}, w.ChainOverride...)
	} else {
		q.Chain = ChainPEM(w.Leaf, w.PKI.Int, w.PKI.Root)
		switch w.ChainStyle {
		case "crlf":
			q.Chain = bytes.ReplaceAll(q.Chain, []byte("\n"), []byte("\r\n"))
		case "blank-lines-between-blocks":
			q.Chain = bytes.ReplaceAll(q.Chain, []byte("-----END CERTIFICATE-----\n-----BEGIN"), []byte("-----END CERTIFICATE-----\n\n-----BEGIN"))
		case "no-final-newline":
			q.Chain = bytes.TrimRight(q.Chain, "\n")
		}
		if w.ChainNUL {
			q.Chain = append(q.Chain, 0)
		}
	}
	q.FixSizes()
	copy(q.AttKey[:], w.AttKey.PubRaw())
	SignBody(q, w.AttKey)
	BindHash(q)
	SignQe(q, w.Leaf.Key)
	w.Raw = q.Encode()
}

// SignBody signs header||body with key and stores the signature.
func SignBody(q *RefQuote, key *Key) {
	copy(q.Sig[:], key.SignRaw(append(q.HeaderBytes(), q.BodyBytes()...)))
}

// BindHash sets QE report data to SHA-256(att key || auth) || 0^32.
func BindHash(q *RefQuote) {
	h := sha256.New()
	h.Write(q.AttKey[:])
	h.Write(q.Auth)
	var rd [64]byte
	copy(rd[:], h.Sum(nil))
	q.QeReportData = rd
}

// SignQe signs the QE report with key and stores the signature.
func SignQe(q *RefQuote, key *Key) {
	copy(q.QeSig[:], key.SignRaw(q.QeReportBytes()))
}

// TcbInfoResponse renders and signs the TCB-Info response.
func (w *World) TcbInfoResponse() Response {
	return Response{
		Header: map[string][]string{HdrTcbInfo: {IssuerChainHeader(w.PKI.TcbSig, w.PKI.Root)}},
		Body:   SignedBody("tcbInfo", w.TcbInfo.Render(), w.PKI.TcbSig.Key),
	}
}

// QeIDResponse renders and signs the QE-Identity response.
func (w *World) QeIDResponse() Response {
	return Response{
		Header: map[string][]string{HdrQeID: {IssuerChainHeader(w.PKI.QeSig, w.PKI.Root)}},
		Body:   SignedBody("enclaveIdentity", w.QeID.Render(), w.PKI.QeSig.Key),
	}
}

// BuildCollateral fills Resp with the four endpoints.
func (w *World) BuildCollateral() {
	w.Resp = map[string]Response{}
	pckCrl, rootCrl := w.PckCrl, w.RootCrl
	if w.CrossIssuerSerials {
		pckCrl.Revoked = append(append([][]byte{}, pckCrl.Revoked...), w.PKI.Int.X.SerialNumber.Bytes(), w.PKI.TcbSig.X.SerialNumber.Bytes(), w.PKI.QeSig.X.SerialNumber.Bytes(), w.PKI.Root.X.SerialNumber.Bytes())
		if w.Leaf != nil {
			rootCrl.Revoked = append(append([][]byte{}, rootCrl.Revoked...), w.Leaf.X.SerialNumber.Bytes())
		}
	}
	w.Resp[TcbInfoURL(w.FmspcHex())] = w.TcbInfoResponse()
	w.Resp[QeIdentityURL] = w.QeIDResponse()
	mk := func(c *Cert, cs CRLSpec, noNumber bool) []byte {
		if !w.CRLIssuerUTF8 && !noNumber && len(cs.RevokedRaw) == 0 {
			return MakeCRL(c, c.Key, cs)
		}
		var raw []byte
		if w.CRLIssuerUTF8 {
			raw = RawNameUTF8(c.X.Subject)
		}
		return MakeCRLByHand(c, c.Key, cs, raw, !noNumber)
	}
	w.Resp[PckCrlURL(w.IssuerCA())] = Response{
		Header: map[string][]string{HdrPckCrl: {IssuerChainHeader(w.PKI.Int, w.PKI.Root)}},
		Body:   mk(w.PKI.Int, pckCrl, w.CRLNoNumber&1 != 0),
	}
	root := mk(w.PKI.Root, rootCrl, false)
	rootNoNumber := mk(w.PKI.Root, rootCrl, true)
	for i, u := range w.PKI.Root.X.CRLDistributionPoints {
		switch {
		case w.RootDPSpec[i] != nil:
			w.Resp[u] = Response{Body: mk(w.PKI.Root, *w.RootDPSpec[i], false)}
		case hasResp(w.RootDPResp, i):
			w.Resp[u] = w.RootDPResp[i]
		case w.CRLNoNumber&2 != 0 && i == w.RootDPFail && i < len(w.PKI.Root.X.CRLDistributionPoints):
			w.Resp[u] = Response{Body: rootNoNumber}
		case i < w.RootDPFail && i < len(w.PKI.Root.X.CRLDistributionPoints)-1 && i%2 == 0:
			w.Resp[u] = Response{Err: errors.New("scripted: distribution point unreachable")}
		case i < w.RootDPFail && i < len(w.PKI.Root.X.CRLDistributionPoints)-1:
			w.Resp[u] = Response{Body: []byte("<html><body>503 Service Unavailable</body></html>")}
		default:
			w.Resp[u] = Response{Body: root}
		}
	}
}

func hasResp(m map[int]Response, i int) bool {
	_, ok := m[i]
	return ok
}

// Build signs the quote and builds all collateral.
func (w *World) Build() *World {
	w.SignQuote()
	w.BuildCollateral()
	return w
}

// CollateralTwin returns a world with the SAME quote, PKI and times whose collateral is rebuilt with fault f applied
// (f must be a fault of the collateral / revocation data only). It models what the PCS serves at a later moment.
func (w *World) CollateralTwin(f Fault) *World {
	t := *w
	t.TcbInfo.Levels = append([]PlatformLevel{}, w.TcbInfo.Levels...)
	t.TcbInfo.Identities = nil
	for _, id := range w.TcbInfo.Identities {
		id.Levels = append([]ModuleLevel{}, id.Levels...)
		t.TcbInfo.Identities = append(t.TcbInfo.Identities, id)
	}
	t.TcbInfo.Mrsigner, t.TcbInfo.Attributes, t.TcbInfo.Mask = append([]byte{}, w.TcbInfo.Mrsigner...), append([]byte{}, w.TcbInfo.Attributes...), append([]byte{}, w.TcbInfo.Mask...)
	t.QeID.Levels = append([]QeLevel{}, w.QeID.Levels...)
	t.QeID.Mrsigner = append([]byte{}, w.QeID.Mrsigner...)
	t.PckCrl.Revoked = append([][]byte{}, w.PckCrl.Revoked...)
	t.RootCrl.Revoked = append([][]byte{}, w.RootCrl.Revoked...)
	f.ApplyPre(&t)
	t.BuildCollateral()
	f.ApplyPost(&t)
	return &t
}

// CollateralOnlyFaults are the catalogue faults that live in the collateral / revocation data alone.
func CollateralOnlyFaults() []Fault {
	var out []Fault
	for _, f := range Faults {
		switch f.Name {
		case "tcbinfo-expired", "qeid-expired", "tcb-level-out-of-date", "qe-level-revoked", "qeid-wrong-mrsigner", "tcbinfo-wrong-fmspc", "tcbinfo-endpoint-down", "tcbinfo-signature-corrupt",
			"leaf-revoked", "intermediate-revoked", "tcb-signer-revoked", "pck-crl-endpoint-down", "root-crl-endpoint-down", "pck-crl-expired", "root-crl-expired",
			"tcbinfo-signature-member-missing", "qeid-signature-member-null":
			out = append(out, f)
		}
	}
	return out
}

// NewGetter returns a fresh recording getter over the world's responses.
func (w *World) NewGetter() *Getter {
	m := make(map[string]Response, len(w.Resp))
	for k, v := range w.Resp {
		m[k] = v
	}
	return &Getter{Resp: m, Script: map[string][]Response{}}
}

// Options returns fresh verify options for a level, trusting pool (nil pool = world's PKI).
func (w *World) Options(l Level, g *Getter, pool *x509.CertPool) *verify.Options {
	if pool == nil {
		pool = w.PKI.Pool()
		if len(w.PoolExtra) > 0 {
			pool = PoolOf(append([]*Cert{w.PKI.Root}, w.PoolExtra...)...)
		}
	}
	ts := w.Times
	o := &verify.Options{TrustedRoots: pool, Now: &ts}
	if w.FromDefault {
		o = verify.DefaultOptions()
		o.TrustedRoots, o.Now, o.GetCollateral, o.CheckRevocations = pool, &ts, false, false
	}
	if w.NowNil {
		o.Now = nil
	}
	if g != nil {
		o.Getter = g
	} else {
		o.Getter = FailGetter{}
	}
	switch l {
	case LvlColl:
		o.GetCollateral = true
	case LvlCRL:
		o.GetCollateral, o.CheckRevocations = true, true
	case LvlCRLNoColl:
		o.CheckRevocations = true
	}
	return o
}

// UseRealNow makes the world be judged at the real current time through the default time set
// (Options.Now == nil). Call before applying time-relative faults and before Build.
func (w *World) UseRealNow() {
	now := time.Now()
	w.Times = verify.TimeSet{PckCertChain: now, TcbInfo: now, QeIdentity: now, PckCrl: now, RootCaCrl: now}
	w.NowNil = true
}

// FailGetter fails every request (used where no request may happen).
type FailGetter struct{}

// Get implements trust.HTTPSGetter.
func (FailGetter) Get(url string) (map[string][]string, []byte, error) {
	return nil, nil, errors.New("harness: unexpected fetch of " + url)
}

// VerifyRaw verifies the world's raw quote at a level with a fresh getter.
func (w *World) VerifyRaw(l Level) (Verdict, *Getter) {
	g := w.NewGetter()
	o := w.Options(l, g, nil)
	return Call(func() error { return verify.RawTdxQuote(w.Raw, o) }), g
}

// SelfCheck validates the harness's own world with independent means: reference links,
// x509 path to the PKI root, and signatures of the collateral. It returns "" when consistent.
func (w *World) SelfCheck() string {
	st := RefLinks(w.Raw)
	if !st.AllHold() {
		return fmt.Sprintf("reference links do not hold: %+v", st)
	}
	inter := x509.NewCertPool()
	inter.AddCert(w.PKI.Int.X)
	if _, err := w.Leaf.X.Verify(x509.VerifyOptions{Roots: w.PKI.Pool(), Intermediates: inter, CurrentTime: w.Times.PckCertChain}); err != nil {
		return "leaf does not chain: " + err.Error()
	}
	return ""
}

// CaseFile renders the concrete artifacts of a verification case for a replay file.
func (w *World) CaseFile(l Level, raw []byte, resp map[string]Response, pool []*Cert, expect string) map[string]any {
	if raw == nil {
		raw = w.Raw
	}
	if resp == nil {
		resp = w.Resp
	}
	rs := map[string]any{}
	for u, r := range resp {
		e := map[string]any{"header": r.Header, "body_hex": hex.EncodeToString(r.Body)}
		if r.Err != nil {
			e["error"] = r.Err.Error()
		}
		rs[u] = e
	}
	var roots []string
	if pool == nil {
		pool = append([]*Cert{w.PKI.Root}, w.PoolExtra...)
	}
	for _, c := range pool {
		roots = append(roots, string(c.PEM))
	}
	return map[string]any{
		"kind": "verify_raw", "raw_hex": hex.EncodeToString(raw), "level": int(l), "roots_pem": strings.Join(roots, ""),
		"responses": rs, "expect": expect,
		"times": []string{w.Times.PckCertChain.Format(time.RFC3339), w.Times.TcbInfo.Format(time.RFC3339), w.Times.QeIdentity.Format(time.RFC3339), w.Times.PckCrl.Format(time.RFC3339), w.Times.RootCaCrl.Format(time.RFC3339)},
	}
}
