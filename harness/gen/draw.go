package gen

import (
	"crypto/x509"
	"encoding/binary"
	"fmt"
	"strings"
	"time"

	"github.com/google/go-tdx-guest/verify"
	"pgregory.net/rapid"
)

// PKISeeds is the small pool of PKI identities worlds are drawn from (certificates are memoised).
var PKISeeds = []string{"pki-A", "pki-B", "pki-C", "pki-D"}

// WorldCfg bounds the honest-world generator.
type WorldCfg struct {
	MaxAuth     int  // maximum QE auth data length
	Simple      bool // canonical structure (single levels, all-ones masks) — for checks that vary one other thing
	FixedPKI    string
	NoModule    bool // never take the TDX-module branch
	ForceModule bool
	LowerHexIDs bool // render fmspc / pceId in lower case only (used until upper-case handling is known to work)
	RealNow     bool // sometimes judge at the real current time through Options.Now == nil
}

// Drawn records the structural choices of a drawn world (labels for coverage statistics).
type Drawn struct {
	Labels []string
}

func (d *Drawn) add(cond bool, l string) {
	if cond {
		d.Labels = append(d.Labels, l)
	}
}

// Has tells whether a label was recorded.
func (d *Drawn) Has(l string) bool {
	for _, x := range d.Labels {
		if x == l {
			return true
		}
	}
	return false
}

func (d *Drawn) String() string { return strings.Join(d.Labels, ",") }

func maskedLE32(v uint32, mask []byte) []byte {
	b := make([]byte, 4)
	binary.LittleEndian.PutUint32(b, v)
	for i := range b {
		b[i] &= mask[i]
	}
	return b
}

func andBytes(a, m []byte) []byte {
	out := make([]byte, len(a))
	for i := range a {
		out[i] = a[i] & m[i]
	}
	return out
}

// DrawMask draws a mask of n bytes: all ones, all zeros, random, or all ones except one bit.
func DrawMask(t *rapid.T, s *Stream, n int, label string) []byte {
	switch rapid.IntRange(0, 4).Draw(t, label) {
	case 0:
		return bytesOf(0xff, n)
	case 1:
		return make([]byte, n)
	case 2:
		m := bytesOf(0xff, n)
		bit := rapid.IntRange(0, n*8-1).Draw(t, label+"-bit")
		m[bit/8] &^= 1 << uint(bit%8)
		return m
	default:
		return s.Bytes(n)
	}
}

// DrawWorld draws an honest world (not yet built). Every artifact is in date at w.Times,
// the collateral matches and is UpToDate, CRLs list only unrelated serials.
func DrawWorld(t *rapid.T, cfg WorldCfg) (*World, *Drawn) {
	d := &Drawn{}
	s := NewStream(rapid.Uint64().Draw(t, "content"), "world")
	seed := cfg.FixedPKI
	if seed == "" {
		seed = rapid.SampledFrom(PKISeeds).Draw(t, "pki")
	}
	spec := PKISpec{Seed: seed}
	if !cfg.Simple {
		switch rapid.IntRange(0, 3).Draw(t, "crldp") {
		case 1:
			spec.RootCRLDP = []string{RootCrlURL, "https://crl.example.test/second.der"}
			d.add(true, "dp>=2")
		case 2:
			spec.RootCRLDP = []string{"https://crl.example.test/first.der", RootCrlURL, "https://crl.example.test/third.der"}
			d.add(true, "dp>=2")
		}
		spec.SameSigner = rapid.IntRange(0, 3).Draw(t, "samesigner") == 0
		// the authority key identifier of a certificate is a hint, not part of what makes it genuine
		spec.OddAKI = rapid.IntRange(0, 3).Draw(t, "oddAuthorityKeyIds") == 0
		d.add(spec.OddAKI, "authority-key-identifiers-that-match-nothing")
	}
	useRealNow := cfg.RealNow && rapid.IntRange(0, 3).Draw(t, "realNow") == 0
	// five distinct instants anywhere inside the wide windows, drawn first so that validity periods can be laid around them
	var times *verify.TimeSet
	tight := false
	if !cfg.Simple {
		span := int64(Wide.NotAfter.Sub(Wide.NotBefore)/time.Second) - 20
		pick := func(label string) time.Time {
			return Wide.NotBefore.Add(time.Duration(10+rapid.Int64Range(0, span).Draw(t, label)) * time.Second)
		}
		times = &verify.TimeSet{PckCertChain: pick("tChain"), TcbInfo: pick("tTcb"), QeIdentity: pick("tQe"), PckCrl: pick("tPckCrl"), RootCaCrl: pick("tRootCrl")}
		// a quarter of the worlds are "freshly rolled over": the validity periods of the leaf and of the two collateral
		// signers (when they are two certificates) are short and lie around their OWN judging time only
		if !spec.SameSigner && !useRealNow && rapid.IntRange(0, 3).Draw(t, "tightValidityPeriods") == 0 {
			tight = true
			around := func(at time.Time, label string) Window {
				before := rapid.SampledFrom([]time.Duration{time.Second, time.Hour, 30 * 24 * time.Hour}).Draw(t, label+"-before")
				after := rapid.SampledFrom([]time.Duration{time.Second, time.Hour, 30 * 24 * time.Hour}).Draw(t, label+"-after")
				return Window{at.Add(-before).Truncate(time.Second), at.Add(after).Truncate(time.Second).Add(time.Second)}
			}
			spec.TcbW, spec.QeW = around(times.TcbInfo, "tcbSigner"), around(times.QeIdentity, "qeSigner")
			d.add(true, "short-validity-periods-around-own-times")
		}
	}
	// validity periods that end far in the future: beyond 2262-04-11T23:47:16Z (where a count of nanoseconds since 1970
	// no longer fits 63 bits), up to 9999-12-31T23:59:59Z, the "no well-defined expiration" value of RFC 5280
	var farEnd time.Time
	if !cfg.Simple && !tight && rapid.IntRange(0, 3).Draw(t, "validityEndsFarInTheFuture") == 0 {
		farEnd = rapid.SampledFrom([]time.Time{time.Date(2262, 4, 11, 23, 47, 16, 0, time.UTC), time.Date(2262, 4, 12, 0, 0, 0, 0, time.UTC), time.Date(2300, 1, 1, 0, 0, 0, 0, time.UTC), time.Date(2554, 7, 21, 23, 34, 34, 0, time.UTC), time.Date(9999, 12, 31, 23, 59, 59, 0, time.UTC)}).Draw(t, "farEnd")
		far := Window{Wide.NotBefore, farEnd}
		which := rapid.IntRange(0, 4).Draw(t, "farWhat")
		if which == 0 || which == 4 {
			spec.RootW = far
		}
		if which == 1 || which == 4 {
			spec.IntW = far
		}
		if which == 2 || which == 4 {
			spec.TcbW, spec.QeW = far, far
		}
		d.add(true, "validity-ends-far-in-the-future")
	}
	p := NewPKI(spec)
	w := NewWorld(p, s)
	if !farEnd.IsZero() {
		if rapid.Bool().Draw(t, "farLeaf") {
			w.LeafSpec.W = Window{Wide.NotBefore, farEnd}
		}
	}
	if tight {
		before := rapid.SampledFrom([]time.Duration{time.Second, time.Hour, 30 * 24 * time.Hour}).Draw(t, "leaf-before")
		after := rapid.SampledFrom([]time.Duration{time.Second, time.Hour, 30 * 24 * time.Hour}).Draw(t, "leaf-after")
		w.LeafSpec.W = Window{times.PckCertChain.Add(-before).Truncate(time.Second), times.PckCertChain.Add(after).Truncate(time.Second).Add(time.Second)}
	}
	if spec.OddAKI {
		w.LeafSpec.AKI = []byte{0xc1, 0xc2, 0xc3, 0xc4, 0xc5, 0xc6, 0xc7, 0xc8, 0xc9, 0xca, 0xcb, 0xcc, 0xcd, 0xce, 0xcf, 0xd0, 0xd1, 0xd2, 0xd3, 0xd4}
	}
	if len(spec.RootCRLDP) >= 2 && rapid.Bool().Draw(t, "leadingDistributionPointsFail") {
		w.RootDPFail = rapid.IntRange(1, len(spec.RootCRLDP)-1).Draw(t, "failingDPs")
		d.add(true, "leading-crl-distribution-points-fail")
	}
	q := w.Q
	// raw identifiers whose bytes happen to look like a DER OCTET STRING header of the remaining length: they are plain
	// values of exactly the right size
	if rapid.IntRange(0, 7).Draw(t, "identifiersLookLikeDER") == 0 {
		switch s.Intn(3) {
		case 0:
			w.Sgx.Fmspc[0], w.Sgx.Fmspc[1] = 0x04, 0x04
		case 1:
			w.Sgx.PPID[0], w.Sgx.PPID[1] = 0x04, 0x0e
		default:
			w.Sgx.PceID = [2]byte{0x04, 0x00}
		}
		d.add(true, "identifier-looks-like-der")
	}
	// serial numbers are only unique per honest CA: a third of the worlds re-use one of two leaf serials, so that
	// different certificates (other key, other SGX values) of one issuer collide on (issuer, serial) within a process
	if rapid.IntRange(0, 2).Draw(t, "sharedLeafSerial") == 0 {
		// (long enough never to coincide with the random "unrelated" serials the CRLs list)
		w.LeafSpec.Serial = [][]byte{{0x11, 0x22, 0x33, 0x44, 0x55, 0x66, 0x77, 0x08, 0x09, 0x0a}, {0x2a, 0x2b, 0x2c, 0x2d, 0x2e, 0x2f, 0x30, 0x31, 0x32, 0x33, 0x34, 0x35}}[s.Intn(2)]
		d.add(true, "shared-leaf-serial")
	}

	// leave head-room so that "higher than the platform" levels can be expressed
	for i := range w.Sgx.Comp {
		if w.Sgx.Comp[i] == 255 && i%3 == 0 {
			w.Sgx.Comp[i] = 254
		}
	}
	if w.Sgx.PceSvn == 65535 {
		w.Sgx.PceSvn = 65534
	}
	for i := range q.TeeTcbSvn {
		if q.TeeTcbSvn[i] == 255 && i%3 != 1 {
			q.TeeTcbSvn[i] = 254
		}
	}
	if q.QeIsvSvn == 65535 {
		q.QeIsvSvn = 65534
	}
	// bias a few components to interesting byte values
	for i := 0; i < 3; i++ {
		w.Sgx.Comp[s.Intn(16)] = []byte{0, 1, 127, 128, 254, 200}[s.Intn(6)]
	}

	module := !cfg.NoModule && (cfg.ForceModule || rapid.IntRange(0, 2).Draw(t, "module") == 0)
	if module {
		q.TeeTcbSvn[1] = byte(rapid.OneOf(rapid.IntRange(1, 9), rapid.IntRange(10, 255), rapid.SampledFrom([]int{10, 15, 16, 99, 100, 255})).Draw(t, "moduleVersion"))
		d.add(true, "module-branch")
	} else {
		q.TeeTcbSvn[1] = 0
	}

	// quote shape
	if cfg.MaxAuth > 0 {
		al := rapid.OneOf(rapid.IntRange(0, 64), rapid.SampledFrom([]int{0, 1, 31, 32, 33, 255, 256, 1000, cfg.MaxAuth})).Draw(t, "authLen")
		if al > cfg.MaxAuth {
			al = cfg.MaxAuth
		}
		q.Auth = s.Bytes(al)
		d.add(al > 64, "long-auth")
		d.add(al == 0, "empty-auth")
	}
	if !cfg.Simple {
		if rapid.IntRange(0, 2).Draw(t, "extra") == 0 {
			q.Extra = s.Bytes(rapid.IntRange(1, 64).Draw(t, "extraLen"))
			d.add(true, "extra-bytes")
		}
		w.ChainNUL = rapid.IntRange(0, 2).Draw(t, "nul") == 0
		d.add(w.ChainNUL, "nul")
		w.ChainStyle = rapid.SampledFrom([]string{"", "", "", "", "crlf", "blank-lines-between-blocks", "no-final-newline"}).Draw(t, "chainPemStyle")
		if w.ChainStyle == "no-final-newline" && w.ChainNUL {
			w.ChainStyle = "" // an END line followed directly by a NUL is not a form the property claims
		}
		d.add(w.ChainStyle != "", "pem-chain-written-"+w.ChainStyle)
		w.Sgx.WithPlatformIns = rapid.Bool().Draw(t, "platformInstance")
		w.Sgx.WithConfig = rapid.Bool().Draw(t, "configuration")
		// the order of the elements inside the certificate's SGX extension is free
		if rapid.IntRange(0, 2).Draw(t, "sgxExtensionOrder") == 0 {
			top := SgxTree(&w.Sgx)
			tcb := top.Kids[1].Kids[1]
			for i := len(tcb.Kids) - 1; i > 0; i-- {
				j := s.Intn(i + 1)
				tcb.Kids[i], tcb.Kids[j] = tcb.Kids[j], tcb.Kids[i]
			}
			for i := len(top.Kids) - 1; i > 0; i-- {
				j := s.Intn(i + 1)
				top.Kids[i], top.Kids[j] = top.Kids[j], top.Kids[i]
			}
			// further members the verifier does not know, with object identifiers NEAR the known ones and values shaped
			// like an FMSPC / PCE-ID, behind the real members: they must not stand in for the real values
			if s.Intn(2) == 0 {
				for _, oid := range [][]int{{1, 2, 840, 113741, 1, 13, 1, 4, 1}, {1, 2, 840, 113741, 1, 13, 14, 4}, {1, 2, 840, 113741, 1, 13, 1, 40}, {1, 2, 840, 113741, 1, 13, 1, 3, 7}}[:1+s.Intn(4)] {
					vb := s.Bytes([]int{6, 6, 2}[s.Intn(3)])
					vb[0] |= 0x10
					top.Kids = append(top.Kids, Seq(OID(oid...), Octet(vb)))
				}
				d.add(true, "sgx-extension-with-unknown-neighbour-members")
			}
			w.SgxDER = top.Encode()
			d.add(true, "sgx-extension-elements-permuted")
		}
		// how the CRLs spell their issuer and whether they carry a number is free too
		w.CRLIssuerUTF8 = rapid.IntRange(0, 3).Draw(t, "crlIssuerUTF8") == 0
		w.CRLNoNumber = rapid.SampledFrom([]int{0, 0, 0, 1, 2, 3}).Draw(t, "crlNoNumber")
		d.add(w.CRLIssuerUTF8, "crl-issuer-name-in-utf8string")
		d.add(w.CRLNoNumber != 0, "crl-without-number")
		// the leaf's own CRL distribution point is not what decides which PCK CRL is asked for (the issuing CA is)
		switch rapid.IntRange(0, 5).Draw(t, "leafCrlDP") {
		case 1:
			w.LeafSpec.CRLDP = []string{PckCrlURL("processor")} // names the OTHER CA's list (worlds drawn here are platform-CA worlds)
			d.add(true, "leaf-crldp-names-other-ca")
		case 2:
			w.LeafSpec.CRLDP = []string{"https://crl.example.test/pck.crl"}
			d.add(true, "leaf-crldp-unrelated")
		case 3:
			w.LeafSpec.CRLDP = []string{"https://crl.example.test/pck.crl", PckCrlURL("processor"), PckCrlURL("platform")}
			d.add(true, "leaf-crldp-several")
		}
	}

	w.HonestCollateral()
	var timeSetZone *time.Location
	// the caller's five instants may carry any time zone (time.Now() in a local zone, a parsed date with an offset): the
	// instant is what counts. The documents may spell their dates with a numeric offset, and may carry members that a
	// later schema revision adds.
	if !cfg.Simple {
		zones := []*time.Location{nil, nil, time.FixedZone("east", 14*3600), time.FixedZone("west", -12*3600), time.FixedZone("half", 5*3600+1800), time.FixedZone("", -3600)}
		timeSetZone = rapid.SampledFrom(zones).Draw(t, "timeSetZone")
		w.TcbInfo.DateZone = rapid.SampledFrom(zones).Draw(t, "tcbInfoDateZone")
		w.QeID.DateZone = rapid.SampledFrom(zones).Draw(t, "qeIdentityDateZone")
		d.add(w.TcbInfo.DateZone != nil || w.QeID.DateZone != nil, "document-dates-with-a-numeric-offset")
		if rapid.IntRange(0, 3).Draw(t, "documentsCarryUnknownMembers") == 0 {
			w.TcbInfo.UnknownMembers, w.QeID.UnknownMembers = true, true
			d.add(true, "documents-with-members-added-later")
		}
	}
	// how the caller comes by its options value: built by hand, or verify.DefaultOptions() with every setting filled in
	w.FromDefault = rapid.IntRange(0, 3).Draw(t, "optionsStartFromDefaultOptions") == 0
	d.add(w.FromDefault, "options-from-DefaultOptions")
	if !cfg.Simple {
		// what the relying party trusts besides the root: nothing, or the issuing CA's certificate too (whole chains end up
		// in bundles); used wherever a check builds its options without a pool of its own
		if rapid.IntRange(0, 4).Draw(t, "bundleAlsoListsTheIssuingCA") == 0 {
			w.PoolExtra = []*Cert{w.PKI.Int}
			d.add(true, "bundle-also-lists-the-issuing-ca")
		}
		upper := rapid.Bool().Draw(t, "upperHex")
		w.TcbInfo.UpperHex, w.QeID.UpperHex = upper, rapid.Bool().Draw(t, "upperHexQe")
		d.add(upper || w.QeID.UpperHex, "upper-hex")
		if !cfg.LowerHexIDs && rapid.Bool().Draw(t, "upperIDs") {
			w.TcbInfo.Fmspc = strings.ToUpper(w.TcbInfo.Fmspc)
			w.TcbInfo.PceID = strings.ToUpper(w.TcbInfo.PceID)
			d.add(true, "upper-ids")
		}
		// TDX module mask
		w.TcbInfo.TcbType = rapid.SampledFrom([]int{0, 0, 0, 1, 1, 2, 255}).Draw(t, "tcbType")
		d.add(w.TcbInfo.TcbType != 0, "tcbType-other-than-0")
		w.TcbInfo.Mask = DrawMask(t, s, 8, "seamMask")
		w.TcbInfo.Attributes = andBytes(q.SeamAttr[:], w.TcbInfo.Mask)
		// platform levels: matching UpToDate level at position k
		k := rapid.IntRange(0, 3).Draw(t, "levelPos")
		after := rapid.IntRange(0, 2).Draw(t, "levelsAfter")
		var levels []PlatformLevel
		for i := 0; i < k; i++ {
			levels = append(levels, nonMatchingLevel(t, w, s, module))
		}
		levels = append(levels, matchingLevel(w, s, module, "UpToDate"))
		for i := 0; i < after; i++ {
			l := matchingLevel(w, s, module, rapid.SampledFrom(Statuses).Draw(t, "afterStatus"))
			levels = append(levels, l)
		}
		for i := range levels {
			levels[i].Date = LevelDates[s.Intn(len(LevelDates))]
		}
		w.TcbInfo.Levels = levels
		d.add(k > 0, "level-pos>0")
		if module {
			id := fmt.Sprintf("TDX_%02x", q.TeeTcbSvn[1])
			mk := rapid.IntRange(0, 2).Draw(t, "modLevelPos")
			if q.TeeTcbSvn[0] == 255 {
				mk = 0
			}
			var ml []ModuleLevel
			for i := 0; i < mk; i++ {
				lv := ModuleLevel{Isvsvn: uint32(q.TeeTcbSvn[0]) + 1 + uint32(s.Intn(3)), Status: rapid.SampledFrom(Statuses).Draw(t, "modEarlierStatus")}
				if s.Intn(3) == 0 {
					// far above the module's SVN, with low 8 / 16 bits the module reaches
					lv.Isvsvn = []uint32{256, 65536, 1 << 24, 1 << 31}[s.Intn(4)] + uint32(s.Intn(int(q.TeeTcbSvn[0])+1))
				}
				ml = append(ml, lv)
			}
			ml = append(ml, ModuleLevel{Isvsvn: uint32(s.Intn(int(q.TeeTcbSvn[0]) + 1)), Status: "UpToDate"})
			if rapid.Bool().Draw(t, "modAfter") {
				ml = append(ml, ModuleLevel{Isvsvn: 0, Status: rapid.SampledFrom(Statuses).Draw(t, "modAfterStatus")})
			}
			ids := []ModuleIdentity{{ID: id, Mrsigner: append([]byte{}, q.MrSignerSeam[:]...), Attributes: make([]byte, 8), Mask: bytesOf(0xff, 8), Levels: ml}}
			// unrelated identities before / after
			otherID := fmt.Sprintf("TDX_%02x", (int(q.TeeTcbSvn[1])+3)%16+16)
			if dec := fmt.Sprintf("TDX_%02d", q.TeeTcbSvn[1]); dec != id {
				otherID = dec // the decimal spelling of the version names a DIFFERENT identity
			}
			other := ModuleIdentity{ID: otherID, Mrsigner: s.Bytes(48), Attributes: make([]byte, 8), Mask: bytesOf(0xff, 8), Levels: []ModuleLevel{{Isvsvn: 0, Status: "Revoked"}}}
			switch rapid.IntRange(0, 2).Draw(t, "otherIdentity") {
			case 1:
				ids = append([]ModuleIdentity{other}, ids...)
			case 2:
				ids = append(ids, other)
			}
			w.TcbInfo.Identities = ids
			d.add(mk > 0, "module-level-pos>0")
		} else if rapid.Bool().Draw(t, "unusedIdentity") {
			w.TcbInfo.Identities = []ModuleIdentity{{ID: "TDX_01", Mrsigner: s.Bytes(48), Attributes: make([]byte, 8), Mask: bytesOf(0xff, 8), Levels: []ModuleLevel{{Isvsvn: 200, Status: "OutOfDate"}}}}
		}
		// QE identity
		w.QeID.MiscselectMask = DrawMask(t, s, 4, "miscMask")
		w.QeID.Miscselect = maskedLE32(q.QeMiscSelect, w.QeID.MiscselectMask)
		w.QeID.AttributesMask = DrawMask(t, s, 16, "qeAttrMask")
		w.QeID.Attributes = andBytes(q.QeAttributes[:], w.QeID.AttributesMask)
		d.add(!allOnes(w.QeID.AttributesMask) || !allOnes(w.QeID.MiscselectMask) || !allOnes(w.TcbInfo.Mask), "nontrivial-mask")
		qk := rapid.IntRange(0, 2).Draw(t, "qeLevelPos")
		var ql []QeLevel
		for i := 0; i < qk; i++ {
			lv := QeLevel{Isvsvn: uint32(q.QeIsvSvn) + 1 + uint32(s.Intn(5)), Status: rapid.SampledFrom(Statuses).Draw(t, "qeEarlierStatus")}
			if s.Intn(3) == 0 {
				lv.Isvsvn = []uint32{65536, 1 << 17, 1 << 24, 1 << 31}[s.Intn(4)] + uint32(s.Intn(int(q.QeIsvSvn)+1))
			}
			ql = append(ql, lv)
		}
		ql = append(ql, QeLevel{Isvsvn: uint32(s.Intn(int(q.QeIsvSvn) + 1)), Status: "UpToDate"})
		if rapid.Bool().Draw(t, "qeAfter") {
			ql = append(ql, QeLevel{Isvsvn: 0, Status: rapid.SampledFrom(Statuses).Draw(t, "qeAfterStatus")})
		}
		for i := range ql {
			ql[i].Date = LevelDates[s.Intn(len(LevelDates))]
		}
		w.QeID.Levels = ql
		d.add(qk > 0, "qe-level-pos>0")
		// CRLs with unrelated serials
		n1 := rapid.SampledFrom([]int{0, 0, 1, 5, 40}).Draw(t, "pckCrlEntries")
		for i := 0; i < n1; i++ {
			w.PckCrl.Revoked = append(w.PckCrl.Revoked, unrelatedSerial(s))
		}
		n2 := rapid.SampledFrom([]int{0, 0, 1, 5, 40}).Draw(t, "rootCrlEntries")
		for i := 0; i < n2; i++ {
			w.RootCrl.Revoked = append(w.RootCrl.Revoked, unrelatedSerial(s))
		}
		d.add(n1+n2 > 0, "crl-entries")
		w.CrossIssuerSerials = rapid.IntRange(0, 2).Draw(t, "crossIssuerSerials") == 0
		d.add(w.CrossIssuerSerials, "crl-lists-serials-of-the-other-issuer")
		span := int64(Wide.NotAfter.Sub(Wide.NotBefore)/time.Second) - 20
		w.Times = *times
		if tight {
			// documents and lists issued shortly before, due shortly after their own judging time
			w.TcbInfo.IssueDate, w.TcbInfo.NextUpdate = w.Times.TcbInfo.Add(-time.Second).Truncate(time.Second), w.Times.TcbInfo.Add(time.Hour)
			w.QeID.IssueDate, w.QeID.NextUpdate = w.Times.QeIdentity.Add(-time.Second).Truncate(time.Second), w.Times.QeIdentity.Add(time.Hour)
			w.PckCrl.NextUpdate, w.RootCrl.NextUpdate = w.Times.PckCrl.Add(time.Hour), w.Times.RootCaCrl.Add(time.Hour)
			w.PckCrl.ThisUpdate, w.RootCrl.ThisUpdate = w.Times.PckCrl.Add(-time.Hour), w.Times.RootCaCrl.Add(-time.Hour)
		}
		if !farEnd.IsZero() {
			if rapid.Bool().Draw(t, "farDocuments") {
				w.TcbInfo.NextUpdate, w.QeID.NextUpdate = farEnd, farEnd
			}
			if rapid.Bool().Draw(t, "farLists") {
				w.PckCrl.NextUpdate, w.RootCrl.NextUpdate = farEnd, farEnd
			}
		}
		// revocation dates of the (unrelated) entries are informational: anywhere, including after the judging times
		for i := range w.PckCrl.Revoked {
			w.PckCrl.RevokedAt = append(w.PckCrl.RevokedAt, Wide.NotBefore.Add(time.Duration(s.Intn(int(span)))*time.Second))
			_ = i
		}
	}
	if z := timeSetZone; z != nil {
		w.Times = verify.TimeSet{PckCertChain: w.Times.PckCertChain.In(z), TcbInfo: w.Times.TcbInfo.In(z), QeIdentity: w.Times.QeIdentity.In(z), PckCrl: w.Times.PckCrl.In(z), RootCaCrl: w.Times.RootCaCrl.In(z)}
		d.add(true, "time-set-in-another-zone")
	}
	if useRealNow {
		w.UseRealNow()
		d.add(true, "default-time-set")
	}
	return w, d
}

func allOnes(b []byte) bool {
	for _, x := range b {
		if x != 0xff {
			return false
		}
	}
	return true
}

func unrelatedSerial(s *Stream) []byte {
	b := s.Bytes(1 + s.Intn(19))
	b[0] &= 0x7f
	if b[0] == 0 {
		b[0] = 0x55
	}
	return b
}

// matchingLevel returns a level whose every compared value is <= the platform's.
func matchingLevel(w *World, s *Stream, module bool, status string) PlatformLevel {
	l := PlatformLevel{Status: status}
	for i := range l.Sgx {
		l.Sgx[i] = byte(s.Intn(int(w.Sgx.Comp[i]) + 1))
	}
	l.PceSvn = uint16(s.Intn(int(w.Sgx.PceSvn) + 1))
	for i := range l.Tdx {
		l.Tdx[i] = byte(s.Intn(int(w.Q.TeeTcbSvn[i]) + 1))
	}
	if module {
		// indexes 0 and 1 are not compared on the module branch: any value is fine
		l.Tdx[0], l.Tdx[1] = byte(s.Intn(256)), byte(s.Intn(256))
	}
	if s.Intn(3) == 0 { // exactly equal is the boundary
		l.Sgx, l.PceSvn = w.Sgx.Comp, w.Sgx.PceSvn
		if !module {
			l.Tdx = w.Q.TeeTcbSvn
		}
	}
	return l
}

// nonMatchingLevel returns a level that exceeds the platform in exactly one compared value.
func nonMatchingLevel(t *rapid.T, w *World, s *Stream, module bool) PlatformLevel {
	l := matchingLevel(w, s, module, rapid.SampledFrom(Statuses).Draw(t, "earlierStatus"))
	for tries := 0; tries < 50; tries++ {
		switch s.Intn(3) {
		case 0:
			i := s.Intn(16)
			if w.Sgx.Comp[i] < 255 {
				l.Sgx[i] = w.Sgx.Comp[i] + 1
				return l
			}
		case 1:
			if w.Sgx.PceSvn < 65535 {
				l.PceSvn = w.Sgx.PceSvn + 1
				return l
			}
		case 2:
			i := s.Intn(16)
			if module && i < 2 {
				i += 2
			}
			if w.Q.TeeTcbSvn[i] < 255 {
				l.Tdx[i] = w.Q.TeeTcbSvn[i] + 1
				return l
			}
		}
	}
	l.PceSvn = w.Sgx.PceSvn + 1
	return l
}

// PoolOf builds a cert pool from certificates.
func PoolOf(cs ...*Cert) *x509.CertPool {
	p := x509.NewCertPool()
	for _, c := range cs {
		p.AddCert(c.X)
	}
	return p
}
