package gen

import (
	"bytes"
	"crypto"
	"crypto/hmac"
	"crypto/sha256"
	"crypto/x509"
	"crypto/x509/pkix"
	"encoding/asn1"
	"encoding/binary"
	"encoding/pem"
	"fmt"
	"hash/adler32"
	"hash/crc32"
	"hash/crc64"
	"math/big"
	"time"
)

// ---------------------------------------------------------------------------
// CRC-32 twins
// ---------------------------------------------------------------------------

var crcRev [256]byte

func init() {
	for i := 0; i < 256; i++ {
		crcRev[byte(crc32.IEEETable[i]>>24)] = byte(i)
	}
}

// ForgeCRC32 overwrites data[pos:pos+4] so that crc32.ChecksumIEEE(data) == want.
func ForgeCRC32(data []byte, pos int, want uint32) {
	tab := crc32.IEEETable
	fwd := ^uint32(0)
	for _, b := range data[:pos] {
		fwd = tab[byte(fwd)^b] ^ (fwd >> 8)
	}
	bwd := ^want
	for i := len(data) - 1; i >= pos+4; i-- {
		idx := crcRev[byte(bwd>>24)]
		bwd = ((bwd ^ tab[idx]) << 8) | uint32(idx^data[i])
	}
	state := bwd
	var idxs [4]byte
	for i := 3; i >= 0; i-- {
		idxs[i] = crcRev[byte(state>>24)]
		state = (state ^ tab[idxs[i]]) << 8
	}
	cur := fwd
	for i := 0; i < 4; i++ {
		data[pos+i] = byte(cur) ^ idxs[i]
		cur = tab[idxs[i]] ^ (cur >> 8)
	}
}

// ForgeLinear overwrites data[pos:pos+n] so that sum(data) == want, for any checksum that is affine over GF(2) in the
// message bits (every CRC, whatever its polynomial, width and conditioning; XOR folds). It solves the linear system
// made of the effect of each free bit. It reports whether a solution exists (n*8 >= the width of the sum is enough for
// CRCs).
func ForgeLinear(data []byte, pos, n int, sum func([]byte) uint64, want uint64) bool {
	for i := 0; i < n; i++ {
		data[pos+i] = 0
	}
	base := sum(data)
	nb := n * 8
	cols := make([]uint64, nb)
	for j := 0; j < nb; j++ {
		data[pos+j/8] ^= 1 << uint(j%8)
		cols[j] = sum(data) ^ base
		data[pos+j/8] ^= 1 << uint(j%8)
	}
	// Gaussian elimination: find a subset of columns whose XOR equals want ^ base
	target := want ^ base
	type row struct {
		v    uint64
		comb []uint64 // which columns make up v (bit set)
	}
	words := (nb + 63) / 64
	var basis [64]*row
	for j := 0; j < nb; j++ {
		r := &row{v: cols[j], comb: make([]uint64, words)}
		r.comb[j/64] |= 1 << uint(j%64)
		for b := 63; b >= 0 && r.v != 0; b-- {
			if r.v>>uint(b)&1 == 0 {
				continue
			}
			if basis[b] == nil {
				basis[b] = r
				break
			}
			r.v ^= basis[b].v
			for k := range r.comb {
				r.comb[k] ^= basis[b].comb[k]
			}
		}
	}
	sel := make([]uint64, words)
	for b := 63; b >= 0; b-- {
		if target>>uint(b)&1 == 0 {
			continue
		}
		if basis[b] == nil {
			return false
		}
		target ^= basis[b].v
		for k := range sel {
			sel[k] ^= basis[b].comb[k]
		}
	}
	for j := 0; j < nb; j++ {
		if sel[j/64]>>uint(j%64)&1 == 1 {
			data[pos+j/8] ^= 1 << uint(j%8)
		}
	}
	return sum(data) == want
}

// ChecksumTwins lists cheap checksums a cache might key its entries with; Twin(a, b, pos) makes b (same length as a,
// 8 free bytes at pos) collide with a under the checksum and reports whether it managed to.
var ChecksumTwins = []struct {
	Name string
	Twin func(a, b []byte, pos int) bool
}{
	{"crc32-ieee", func(a, b []byte, pos int) bool {
		return ForgeLinear(b, pos, 4, func(d []byte) uint64 { return uint64(crc32.ChecksumIEEE(d)) }, uint64(crc32.ChecksumIEEE(a)))
	}},
	{"crc32-castagnoli", func(a, b []byte, pos int) bool {
		tab := crc32.MakeTable(crc32.Castagnoli)
		return ForgeLinear(b, pos, 4, func(d []byte) uint64 { return uint64(crc32.Checksum(d, tab)) }, uint64(crc32.Checksum(a, tab)))
	}},
	{"crc32-koopman", func(a, b []byte, pos int) bool {
		tab := crc32.MakeTable(crc32.Koopman)
		return ForgeLinear(b, pos, 4, func(d []byte) uint64 { return uint64(crc32.Checksum(d, tab)) }, uint64(crc32.Checksum(a, tab)))
	}},
	{"crc64-iso", func(a, b []byte, pos int) bool {
		tab := crc64.MakeTable(crc64.ISO)
		return ForgeLinear(b, pos, 8, func(d []byte) uint64 { return crc64.Checksum(d, tab) }, crc64.Checksum(a, tab))
	}},
	{"crc64-ecma", func(a, b []byte, pos int) bool {
		tab := crc64.MakeTable(crc64.ECMA)
		return ForgeLinear(b, pos, 8, func(d []byte) uint64 { return crc64.Checksum(d, tab) }, crc64.Checksum(a, tab))
	}},
	{"adler32-and-byte-sums", func(a, b []byte, pos int) bool {
		// b := a with +1, -2, +1 on three neighbouring bytes: the byte sum and the position-weighted sum (Adler-32,
		// Fletcher) are those of a
		copy(b, a)
		for i := pos; i+2 < len(b) && i < pos+64; i++ {
			if b[i] < 255 && b[i+1] >= 2 && b[i+2] < 255 {
				b[i]++
				b[i+1] -= 2
				b[i+2]++
				return adler32.Checksum(a) == adler32.Checksum(b)
			}
		}
		return false
	}},
}

// ---------------------------------------------------------------------------
// Names in another DER spelling; CRLs built by hand
// ---------------------------------------------------------------------------

// RawNameUTF8 encodes a distinguished name with every attribute value as a UTF8String (Go's encoder picks
// PrintableString where it can; Intel's certificates use UTF8String). The name is the same, the bytes differ.
func RawNameUTF8(name pkix.Name) []byte {
	var rdns []*Node
	for _, rdn := range name.ToRDNSequence() {
		var atvs []*Node
		for _, atv := range rdn {
			s, _ := atv.Value.(string)
			atvs = append(atvs, Seq(OID(atv.Type...), &Node{Tag: 0x0c, Content: []byte(s)}))
		}
		rdns = append(rdns, &Node{Tag: 0x31, Kids: atvs})
	}
	return Seq(rdns...).Encode()
}

func derTime(t time.Time) *Node {
	t = t.UTC()
	if t.Year() >= 1950 && t.Year() < 2050 {
		return &Node{Tag: 0x17, Content: []byte(t.Format("060102150405Z"))}
	}
	return &Node{Tag: 0x18, Content: []byte(t.Format("20060102150405Z"))}
}

// MakeCRLByHand encodes and signs a CRL with an own DER encoder. issuerRaw is the DER of the issuer name (nil = the
// issuer certificate's subject bytes); withNumber adds the cRLNumber extension (and the version field v2), without
// it the list (still marked v2, the only version the standard library reads) has no extensions at all.
func MakeCRLByHand(issuer *Cert, key *Key, cs CRLSpec, issuerRaw []byte, withNumber bool) []byte {
	tu, nu := cs.ThisUpdate, cs.NextUpdate
	if tu.IsZero() {
		tu = Wide.NotBefore
	}
	if nu.IsZero() {
		nu = Wide.NotAfter
	}
	if issuerRaw == nil {
		issuerRaw = issuer.X.RawSubject
	}
	sigAlg := Seq(OID(1, 2, 840, 10045, 4, 3, 2))
	tbsKids := []*Node{IntMin(1), sigAlg, &Node{Raw: issuerRaw}, derTime(tu), derTime(nu)}
	if len(cs.Revoked) > 0 {
		var entries []*Node
		for i, s := range cs.Revoked {
			at := tu
			if i < len(cs.RevokedAt) && !cs.RevokedAt[i].IsZero() {
				at = cs.RevokedAt[i]
			}
			b := new(big.Int).SetBytes(s).Bytes()
			if len(b) == 0 || b[0]&0x80 != 0 {
				b = append([]byte{0}, b...)
			}
			entries = append(entries, Seq(IntRaw(b), derTime(at)))
		}
		tbsKids = append(tbsKids, Seq(entries...))
	}
	if len(cs.RevokedRaw) > 0 {
		var entries []*Node
		if len(cs.Revoked) > 0 {
			entries = tbsKids[len(tbsKids)-1].Kids
			tbsKids = tbsKids[:len(tbsKids)-1]
		}
		for _, raw := range cs.RevokedRaw {
			entries = append(entries, Seq(IntRaw(raw), derTime(tu)))
		}
		tbsKids = append(tbsKids, Seq(entries...))
	}
	if withNumber {
		num := Seq(OID(2, 5, 29, 20), Octet(IntMin(cs.Number+1).Encode()))
		tbsKids = append(tbsKids, &Node{Tag: 0xa0, Kids: []*Node{Seq(num)}})
	}
	tbs := Seq(tbsKids...).Encode()
	d := sha256.Sum256(tbs)
	sig, err := key.Sign(nil, d[:], crypto.SHA256)
	if err != nil {
		panic("harness: sign CRL: " + err.Error())
	}
	return Seq(&Node{Raw: tbs}, sigAlg, &Node{Tag: 0x03, Content: append([]byte{0}, sig...)}).Encode()
}

// splitTLVs cuts the content of a constructed DER value into the full encodings of its elements.
func splitTLVs(content []byte) ([][]byte, error) {
	var out [][]byte
	for len(content) > 0 {
		_, rest, err := readTLV(content)
		if err != nil {
			return nil, err
		}
		out = append(out, content[:len(content)-len(rest)])
		content = rest
	}
	return out, nil
}

// ResignEndingWith re-signs a signed DER document (certificate or CRL: SEQUENCE { tbs, algorithm, BIT STRING }) with
// key so that the signature - and so the whole document - ENDS in the given bytes (a line break, a blank, a NUL, "==":
// the last bytes of an ECDSA signature are the low bytes of s, which are as good as random). It tries other nonces
// until one fits; two bytes take some 65000 tries (about a second).
func ResignEndingWith(der []byte, key *Key, suffix []byte, maxTries int) ([]byte, bool) {
	outer, rest, err := readTLV(der)
	if err != nil || len(rest) != 0 {
		return nil, false
	}
	parts, err := splitTLVs(outer.content)
	if err != nil || len(parts) != 3 {
		return nil, false
	}
	digest := sha256.Sum256(parts[0])
	z := new(big.Int).SetBytes(digest[:])
	for ctr := uint32(0); int(ctr) < maxTries; ctr++ {
		m := hmac.New(sha256.New, key.D.Bytes())
		m.Write(digest[:])
		m.Write([]byte("ending-with"))
		var c [4]byte
		binary.BigEndian.PutUint32(c[:], ctr)
		m.Write(c[:])
		k := new(big.Int).SetBytes(m.Sum(nil))
		k.Mod(k, p256N)
		if k.Sign() == 0 {
			continue
		}
		rx, _ := p256.ScalarBaseMult(k.Bytes())
		r := new(big.Int).Mod(rx, p256N)
		if r.Sign() == 0 {
			continue
		}
		sv := new(big.Int).Mul(r, key.D)
		sv.Add(sv, z)
		sv.Mul(sv, new(big.Int).ModInverse(k, p256N))
		sv.Mod(sv, p256N)
		if sv.Sign() == 0 {
			continue
		}
		sb := sv.Bytes()
		if len(sb) < len(suffix) || !bytes.HasSuffix(sb, suffix) {
			continue
		}
		sig, err := asn1.Marshal(struct{ R, S *big.Int }{r, sv})
		if err != nil {
			return nil, false
		}
		return Seq(&Node{Raw: parts[0]}, &Node{Raw: parts[1]}, &Node{Tag: 0x03, Content: append([]byte{0}, sig...)}).Encode(), true
	}
	return nil, false
}

// RebuildCert re-encodes a certificate after edit has changed the elements of its TBSCertificate (kids: [0] version,
// serial, signature algorithm, issuer, validity, subject, subjectPublicKeyInfo, ...; each the full DER of the element).
// With a signer the result is signed afresh (ECDSA with SHA-256, as all certificates of the harness are); without one
// the old signature value is kept (it then no longer matches: a certificate that merely looks like the original).
// It makes certificates the standard library refuses to create (a serial number of zero, a negative one) and
// look-alikes that keep another certificate's signature bytes.
func RebuildCert(der []byte, signer *Key, edit func(kids [][]byte) [][]byte) ([]byte, error) {
	outer, rest, err := readTLV(der)
	if err != nil || len(rest) != 0 {
		return nil, fmt.Errorf("certificate framing: %v", err)
	}
	parts, err := splitTLVs(outer.content)
	if err != nil || len(parts) != 3 {
		return nil, fmt.Errorf("certificate has %d parts: %v", len(parts), err)
	}
	tbs, _, err := readTLV(parts[0])
	if err != nil {
		return nil, err
	}
	kids, err := splitTLVs(tbs.content)
	if err != nil {
		return nil, err
	}
	kids = edit(kids)
	var body []byte
	for _, k := range kids {
		body = append(body, k...)
	}
	newTBS := (&Node{Tag: 0x30, Content: body}).Encode()
	sig := parts[2]
	if signer != nil {
		h := sha256.Sum256(newTBS)
		s, err := signer.Sign(nil, h[:], nil)
		if err != nil {
			return nil, err
		}
		sig = (&Node{Tag: 0x03, Content: append([]byte{0}, s...)}).Encode()
	}
	return (&Node{Tag: 0x30, Content: append(append(append([]byte{}, newTBS...), parts[1]...), sig...)}).Encode(), nil
}

// CertFromDER wraps a DER certificate (parsed by the standard library) the way MakeCert's results are wrapped.
func CertFromDER(der []byte, key *Key) (*Cert, error) {
	x, err := x509.ParseCertificate(der)
	if err != nil {
		return nil, err
	}
	return &Cert{X: x, DER: der, PEM: pem.EncodeToMemory(&pem.Block{Type: "CERTIFICATE", Bytes: der}), Key: key}, nil
}

// LookAlikeKeepingSignature returns a certificate that is byte for byte the given one except for its public key, which
// is key's: serial, names, validity, extensions AND the signature value are the original's (the signature therefore
// does not verify - it is merely the same bytes).
func LookAlikeKeepingSignature(c *Cert, key *Key) *Cert {
	spki, err := x509.MarshalPKIXPublicKey(&key.Pub)
	if err != nil {
		panic("harness: " + err.Error())
	}
	der, err := RebuildCert(c.DER, nil, func(k [][]byte) [][]byte {
		k[6] = spki
		return k
	})
	if err != nil {
		panic("harness: " + err.Error())
	}
	out, err := CertFromDER(der, key)
	if err != nil {
		panic("harness: " + err.Error())
	}
	return out
}
