package gen

import (
	"crypto"
	"crypto/sha256"
	"crypto/x509/pkix"
	"hash/crc32"
	"math/big"
	"time"
)

// ---------------------------------------------------------------------------
// CRC-32 twins
// ---------------------------------------------------------------------------

var crcRev [256]byte

func init() {
	for i := 0; i < 256; i++ {
		crcRev[byte(crc32.IEEETable[i]>>24)] = byte(i)
	}
}

// ForgeCRC32 overwrites data[pos:pos+4] so that crc32.ChecksumIEEE(data) == want.
func ForgeCRC32(data []byte, pos int, want uint32) {
	tab := crc32.IEEETable
	fwd := ^uint32(0)
	for _, b := range data[:pos] {
		fwd = tab[byte(fwd)^b] ^ (fwd >> 8)
	}
	bwd := ^want
	for i := len(data) - 1; i >= pos+4; i-- {
		idx := crcRev[byte(bwd>>24)]
		bwd = ((bwd ^ tab[idx]) << 8) | uint32(idx^data[i])
	}
	state := bwd
	var idxs [4]byte
	for i := 3; i >= 0; i-- {
		idxs[i] = crcRev[byte(state>>24)]
		state = (state ^ tab[idxs[i]]) << 8
	}
	cur := fwd
	for i := 0; i < 4; i++ {
		data[pos+i] = byte(cur) ^ idxs[i]
		cur = tab[idxs[i]] ^ (cur >> 8)
	}
}

// ---------------------------------------------------------------------------
// Names in another DER spelling; CRLs built by hand
// ---------------------------------------------------------------------------

// RawNameUTF8 encodes a distinguished name with every attribute value as a UTF8String (Go's encoder picks
// PrintableString where it can; Intel's certificates use UTF8String). The name is the same, the bytes differ.
func RawNameUTF8(name pkix.Name) []byte {
	var rdns []*Node
	for _, rdn := range name.ToRDNSequence() {
		var atvs []*Node
		for _, atv := range rdn {
			s, _ := atv.Value.(string)
			atvs = append(atvs, Seq(OID(atv.Type...), &Node{Tag: 0x0c, Content: []byte(s)}))
		}
		rdns = append(rdns, &Node{Tag: 0x31, Kids: atvs})
	}
	return Seq(rdns...).Encode()
}

func derTime(t time.Time) *Node {
	t = t.UTC()
	if t.Year() >= 1950 && t.Year() < 2050 {
		return &Node{Tag: 0x17, Content: []byte(t.Format("060102150405Z"))}
	}
	return &Node{Tag: 0x18, Content: []byte(t.Format("20060102150405Z"))}
}

// MakeCRLByHand encodes and signs a CRL with an own DER encoder. issuerRaw is the DER of the issuer name (nil = the
// issuer certificate's subject bytes); withNumber adds the cRLNumber extension (and the version field v2), without
// it the list (still marked v2, the only version the standard library reads) has no extensions at all.
func MakeCRLByHand(issuer *Cert, key *Key, cs CRLSpec, issuerRaw []byte, withNumber bool) []byte {
	tu, nu := cs.ThisUpdate, cs.NextUpdate
	if tu.IsZero() {
		tu = Wide.NotBefore
	}
	if nu.IsZero() {
		nu = Wide.NotAfter
	}
	if issuerRaw == nil {
		issuerRaw = issuer.X.RawSubject
	}
	sigAlg := Seq(OID(1, 2, 840, 10045, 4, 3, 2))
	tbsKids := []*Node{IntMin(1), sigAlg, &Node{Raw: issuerRaw}, derTime(tu), derTime(nu)}
	if len(cs.Revoked) > 0 {
		var entries []*Node
		for i, s := range cs.Revoked {
			at := tu
			if i < len(cs.RevokedAt) && !cs.RevokedAt[i].IsZero() {
				at = cs.RevokedAt[i]
			}
			b := new(big.Int).SetBytes(s).Bytes()
			if len(b) == 0 || b[0]&0x80 != 0 {
				b = append([]byte{0}, b...)
			}
			entries = append(entries, Seq(IntRaw(b), derTime(at)))
		}
		tbsKids = append(tbsKids, Seq(entries...))
	}
	if withNumber {
		num := Seq(OID(2, 5, 29, 20), Octet(IntMin(cs.Number+1).Encode()))
		tbsKids = append(tbsKids, &Node{Tag: 0xa0, Kids: []*Node{Seq(num)}})
	}
	tbs := Seq(tbsKids...).Encode()
	d := sha256.Sum256(tbs)
	sig, err := key.Sign(nil, d[:], crypto.SHA256)
	if err != nil {
		panic("harness: sign CRL: " + err.Error())
	}
	return Seq(&Node{Raw: tbs}, sigAlg, &Node{Tag: 0x03, Content: append([]byte{0}, sig...)}).Encode()
}
