package gen

import (
	"crypto"
	"crypto/sha256"
	"crypto/x509"
	"crypto/x509/pkix"
	"encoding/pem"
	"fmt"
	"hash/crc32"
	"math/big"
	"time"
)

// ---------------------------------------------------------------------------
// CRC-32 twins
// ---------------------------------------------------------------------------

var crcRev [256]byte

func init() {
	for i := 0; i < 256; i++ {
		crcRev[byte(crc32.IEEETable[i]>>24)] = byte(i)
	}
}

// ForgeCRC32 overwrites data[pos:pos+4] so that crc32.ChecksumIEEE(data) == want.
func ForgeCRC32(data []byte, pos int, want uint32) {
	tab := crc32.IEEETable
	fwd := ^uint32(0)
	for _, b := range data[:pos] {
		fwd = tab[byte(fwd)^b] ^ (fwd >> 8)
	}
	bwd := ^want
	for i := len(data) - 1; i >= pos+4; i-- {
		idx := crcRev[byte(bwd>>24)]
		bwd = ((bwd ^ tab[idx]) << 8) | uint32(idx^data[i])
	}
	state := bwd
	var idxs [4]byte
	for i := 3; i >= 0; i-- {
		idxs[i] = crcRev[byte(state>>24)]
		state = (state ^ tab[idxs[i]]) << 8
	}
	cur := fwd
	for i := 0; i < 4; i++ {
		data[pos+i] = byte(cur) ^ idxs[i]
		cur = tab[idxs[i]] ^ (cur >> 8)
	}
}

// ---------------------------------------------------------------------------
// Names in another DER spelling; CRLs built by hand
// ---------------------------------------------------------------------------

// RawNameUTF8 encodes a distinguished name with every attribute value as a UTF8String (Go's encoder picks
// PrintableString where it can; Intel's certificates use UTF8String). The name is the same, the bytes differ.
func RawNameUTF8(name pkix.Name) []byte {
	var rdns []*Node
	for _, rdn := range name.ToRDNSequence() {
		var atvs []*Node
		for _, atv := range rdn {
			s, _ := atv.Value.(string)
			atvs = append(atvs, Seq(OID(atv.Type...), &Node{Tag: 0x0c, Content: []byte(s)}))
		}
		rdns = append(rdns, &Node{Tag: 0x31, Kids: atvs})
	}
	return Seq(rdns...).Encode()
}

func derTime(t time.Time) *Node {
	t = t.UTC()
	if t.Year() >= 1950 && t.Year() < 2050 {
		return &Node{Tag: 0x17, Content: []byte(t.Format("060102150405Z"))}
	}
	return &Node{Tag: 0x18, Content: []byte(t.Format("20060102150405Z"))}
}

// MakeCRLByHand encodes and signs a CRL with an own DER encoder. issuerRaw is the DER of the issuer name (nil = the
// issuer certificate's subject bytes); withNumber adds the cRLNumber extension (and the version field v2), without
// it the list (still marked v2, the only version the standard library reads) has no extensions at all.
func MakeCRLByHand(issuer *Cert, key *Key, cs CRLSpec, issuerRaw []byte, withNumber bool) []byte {
	tu, nu := cs.ThisUpdate, cs.NextUpdate
	if tu.IsZero() {
		tu = Wide.NotBefore
	}
	if nu.IsZero() {
		nu = Wide.NotAfter
	}
	if issuerRaw == nil {
		issuerRaw = issuer.X.RawSubject
	}
	sigAlg := Seq(OID(1, 2, 840, 10045, 4, 3, 2))
	tbsKids := []*Node{IntMin(1), sigAlg, &Node{Raw: issuerRaw}, derTime(tu), derTime(nu)}
	if len(cs.Revoked) > 0 {
		var entries []*Node
		for i, s := range cs.Revoked {
			at := tu
			if i < len(cs.RevokedAt) && !cs.RevokedAt[i].IsZero() {
				at = cs.RevokedAt[i]
			}
			b := new(big.Int).SetBytes(s).Bytes()
			if len(b) == 0 || b[0]&0x80 != 0 {
				b = append([]byte{0}, b...)
			}
			entries = append(entries, Seq(IntRaw(b), derTime(at)))
		}
		tbsKids = append(tbsKids, Seq(entries...))
	}
	if len(cs.RevokedRaw) > 0 {
		var entries []*Node
		if len(cs.Revoked) > 0 {
			entries = tbsKids[len(tbsKids)-1].Kids
			tbsKids = tbsKids[:len(tbsKids)-1]
		}
		for _, raw := range cs.RevokedRaw {
			entries = append(entries, Seq(IntRaw(raw), derTime(tu)))
		}
		tbsKids = append(tbsKids, Seq(entries...))
	}
	if withNumber {
		num := Seq(OID(2, 5, 29, 20), Octet(IntMin(cs.Number+1).Encode()))
		tbsKids = append(tbsKids, &Node{Tag: 0xa0, Kids: []*Node{Seq(num)}})
	}
	tbs := Seq(tbsKids...).Encode()
	d := sha256.Sum256(tbs)
	sig, err := key.Sign(nil, d[:], crypto.SHA256)
	if err != nil {
		panic("harness: sign CRL: " + err.Error())
	}
	return Seq(&Node{Raw: tbs}, sigAlg, &Node{Tag: 0x03, Content: append([]byte{0}, sig...)}).Encode()
}

// splitTLVs cuts the content of a constructed DER value into the full encodings of its elements.
func splitTLVs(content []byte) ([][]byte, error) {
	var out [][]byte
	for len(content) > 0 {
		_, rest, err := readTLV(content)
		if err != nil {
			return nil, err
		}
		out = append(out, content[:len(content)-len(rest)])
		content = rest
	}
	return out, nil
}

// RebuildCert re-encodes a certificate after edit has changed the elements of its TBSCertificate (kids: [0] version,
// serial, signature algorithm, issuer, validity, subject, subjectPublicKeyInfo, ...; each the full DER of the element).
// With a signer the result is signed afresh (ECDSA with SHA-256, as all certificates of the harness are); without one
// the old signature value is kept (it then no longer matches: a certificate that merely looks like the original).
// It makes certificates the standard library refuses to create (a serial number of zero, a negative one) and
// look-alikes that keep another certificate's signature bytes.
func RebuildCert(der []byte, signer *Key, edit func(kids [][]byte) [][]byte) ([]byte, error) {
	outer, rest, err := readTLV(der)
	if err != nil || len(rest) != 0 {
		return nil, fmt.Errorf("certificate framing: %v", err)
	}
	parts, err := splitTLVs(outer.content)
	if err != nil || len(parts) != 3 {
		return nil, fmt.Errorf("certificate has %d parts: %v", len(parts), err)
	}
	tbs, _, err := readTLV(parts[0])
	if err != nil {
		return nil, err
	}
	kids, err := splitTLVs(tbs.content)
	if err != nil {
		return nil, err
	}
	kids = edit(kids)
	var body []byte
	for _, k := range kids {
		body = append(body, k...)
	}
	newTBS := (&Node{Tag: 0x30, Content: body}).Encode()
	sig := parts[2]
	if signer != nil {
		h := sha256.Sum256(newTBS)
		s, err := signer.Sign(nil, h[:], nil)
		if err != nil {
			return nil, err
		}
		sig = (&Node{Tag: 0x03, Content: append([]byte{0}, s...)}).Encode()
	}
	return (&Node{Tag: 0x30, Content: append(append(append([]byte{}, newTBS...), parts[1]...), sig...)}).Encode(), nil
}

// CertFromDER wraps a DER certificate (parsed by the standard library) the way MakeCert's results are wrapped.
func CertFromDER(der []byte, key *Key) (*Cert, error) {
	x, err := x509.ParseCertificate(der)
	if err != nil {
		return nil, err
	}
	return &Cert{X: x, DER: der, PEM: pem.EncodeToMemory(&pem.Block{Type: "CERTIFICATE", Bytes: der}), Key: key}, nil
}

// LookAlikeKeepingSignature returns a certificate that is byte for byte the given one except for its public key, which
// is key's: serial, names, validity, extensions AND the signature value are the original's (the signature therefore
// does not verify - it is merely the same bytes).
func LookAlikeKeepingSignature(c *Cert, key *Key) *Cert {
	spki, err := x509.MarshalPKIXPublicKey(&key.Pub)
	if err != nil {
		panic("harness: " + err.Error())
	}
	der, err := RebuildCert(c.DER, nil, func(k [][]byte) [][]byte {
		k[6] = spki
		return k
	})
	if err != nil {
		panic("harness: " + err.Error())
	}
	out, err := CertFromDER(der, key)
	if err != nil {
		panic("harness: " + err.Error())
	}
	return out
}
