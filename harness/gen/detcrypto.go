package gen

import (
	"crypto"
	"crypto/ecdsa"
	"crypto/elliptic"
	"crypto/hmac"
	"crypto/sha256"
	"encoding/asn1"
	"encoding/binary"
	"io"
	"math/big"
	"sync"
)

// Key is a P-256 key whose private scalar is derived from a label and whose
// signatures use a deterministic nonce, so that every generated artifact is a
// pure function of the drawn parameters. Test-only cryptography.
type Key struct {
	Label string
	D     *big.Int
	Pub   ecdsa.PublicKey
}

var (
	p256    = elliptic.P256()
	p256N   = p256.Params().N
	keyMu   sync.Mutex
	keyPool = map[string]*Key{}
)

// DeriveKey returns the key for a label (memoised).
func DeriveKey(label string) *Key {
	keyMu.Lock()
	defer keyMu.Unlock()
	if k, ok := keyPool[label]; ok {
		return k
	}
	var d *big.Int
	for ctr := uint32(0); ; ctr++ {
		h := sha256.New()
		h.Write([]byte("verif-key|"))
		h.Write([]byte(label))
		var c [4]byte
		binary.BigEndian.PutUint32(c[:], ctr)
		h.Write(c[:])
		d = new(big.Int).SetBytes(h.Sum(nil))
		if d.Sign() > 0 && d.Cmp(p256N) < 0 {
			break
		}
	}
	x, y := p256.ScalarBaseMult(d.Bytes())
	k := &Key{Label: label, D: d, Pub: ecdsa.PublicKey{Curve: p256, X: x, Y: y}}
	keyPool[label] = k
	return k
}

// Public implements crypto.Signer.
func (k *Key) Public() crypto.PublicKey { return &k.Pub }

// SignRS signs a 32-byte digest and returns (r, s).
func (k *Key) SignRS(digest []byte) (*big.Int, *big.Int) {
	z := new(big.Int).SetBytes(digest)
	if len(digest) > 32 {
		z = new(big.Int).SetBytes(digest[:32])
	}
	for ctr := uint32(0); ; ctr++ {
		m := hmac.New(sha256.New, k.D.Bytes())
		m.Write(digest)
		var c [4]byte
		binary.BigEndian.PutUint32(c[:], ctr)
		m.Write(c[:])
		kk := new(big.Int).SetBytes(m.Sum(nil))
		kk.Mod(kk, p256N)
		if kk.Sign() == 0 {
			continue
		}
		rx, _ := p256.ScalarBaseMult(kk.Bytes())
		r := new(big.Int).Mod(rx, p256N)
		if r.Sign() == 0 {
			continue
		}
		kinv := new(big.Int).ModInverse(kk, p256N)
		s := new(big.Int).Mul(r, k.D)
		s.Add(s, z)
		s.Mul(s, kinv)
		s.Mod(s, p256N)
		if s.Sign() == 0 {
			continue
		}
		return r, s
	}
}

// Sign implements crypto.Signer (ASN.1 DER signature over the given digest).
func (k *Key) Sign(_ io.Reader, digest []byte, _ crypto.SignerOpts) ([]byte, error) {
	r, s := k.SignRS(digest)
	return asn1.Marshal(struct{ R, S *big.Int }{r, s})
}

// SignRaw returns the 64-byte r||s signature over SHA-256(msg).
func (k *Key) SignRaw(msg []byte) []byte {
	h := sha256.Sum256(msg)
	r, s := k.SignRS(h[:])
	out := make([]byte, 64)
	r.FillBytes(out[:32])
	s.FillBytes(out[32:])
	return out
}

// PubRaw returns X||Y, 32 bytes each.
func (k *Key) PubRaw() []byte {
	out := make([]byte, 64)
	k.Pub.X.FillBytes(out[:32])
	k.Pub.Y.FillBytes(out[32:])
	return out
}

// VerifyRaw verifies a 64-byte r||s signature over SHA-256(msg) under a raw
// X||Y public key using only the standard library (independent of the code under test).
func VerifyRaw(pubXY, msg, sig []byte) bool {
	if len(pubXY) != 64 || len(sig) != 64 {
		return false
	}
	x := new(big.Int).SetBytes(pubXY[:32])
	y := new(big.Int).SetBytes(pubXY[32:])
	if x.Sign() == 0 && y.Sign() == 0 {
		return false
	}
	if !p256.IsOnCurve(x, y) {
		return false
	}
	pub := &ecdsa.PublicKey{Curve: p256, X: x, Y: y}
	h := sha256.Sum256(msg)
	r := new(big.Int).SetBytes(sig[:32])
	s := new(big.Int).SetBytes(sig[32:])
	return ecdsa.Verify(pub, h[:], r, s)
}
