package gen

import (
	"crypto/ecdsa"
	"crypto/sha256"
	"crypto/x509"
	"crypto/x509/pkix"
	"encoding/pem"
	"fmt"
	"math/big"
	"sync"
	"time"
)

// Role names the verifier demands.
const (
	CNRoot      = "Intel SGX Root CA"
	CNPlatform  = "Intel SGX PCK Platform CA"
	CNProcessor = "Intel SGX PCK Processor CA"
	CNLeaf      = "Intel SGX PCK Certificate"
	CNTcbSigner = "Intel SGX TCB Signing"

	RootCrlURL = "https://certificates.trustedservices.intel.com/IntelSGXRootCA.der"
)

// T0 is the reference instant around which default validity windows are centred.
var T0 = time.Date(2031, 3, 14, 15, 9, 26, 0, time.UTC)

// Cert bundles a parsed certificate with its encodings and its private key.
type Cert struct {
	X   *x509.Certificate
	DER []byte
	PEM []byte
	Key *Key
}

// CertSpec describes one certificate.
type CertSpec struct {
	CN         string
	KeyLabel   string
	Serial     []byte
	NotBefore  time.Time
	NotAfter   time.Time
	CA         bool
	CRLDP      []string
	ExtraExt   []pkix.Extension
	NoSKI      bool
	SKI        []byte // overrides the key-derived subject key identifier
	RawSubject []byte // DER subject copied verbatim (exact look-alike of another certificate's name)
	AKI        []byte // authority key identifier written into the certificate instead of the issuer's subject key identifier (it is only a hint)
	// SerialRaw, when set, is the DER INTEGER content of the serial number, put in after the standard library has made
	// the certificate (which refuses zero and negative numbers) and signed again by the issuer: {0x00} is zero, {0xfb} is -5
	SerialRaw []byte
}

func intelName(cn string) pkix.Name {
	return pkix.Name{
		CommonName:   cn,
		Organization: []string{"Intel Corporation"},
		Locality:     []string{"Santa Clara"},
		Province:     []string{"CA"},
		Country:      []string{"US"},
	}
}

func ski(k *Key) []byte {
	h := sha256.Sum256(k.PubRaw())
	return h[:20]
}

var (
	certMu    sync.Mutex
	certCache = map[string]*Cert{}
)

// MakeCert creates (memoised) a certificate for spec issued by issuer (nil = self-signed).
func MakeCert(spec CertSpec, issuer *Cert) *Cert {
	key := DeriveKey(spec.KeyLabel)
	ck := fmt.Sprintf("%s|%s|%x|%d|%d|%v|%v|%d|%v|%x|aki:%x", spec.CN, spec.KeyLabel, spec.Serial, spec.NotBefore.Unix(), spec.NotAfter.Unix(), spec.CA, spec.CRLDP, len(spec.ExtraExt), spec.NoSKI, append(append([]byte{}, spec.SKI...), spec.RawSubject...), spec.AKI)
	for _, e := range spec.ExtraExt {
		ck += fmt.Sprintf("|%x%v", sha256.Sum256(e.Value), e.Critical)
	}
	if issuer != nil {
		ck += fmt.Sprintf("|iss:%x", sha256.Sum256(issuer.DER))
	}
	certMu.Lock()
	if c, ok := certCache[ck]; ok {
		certMu.Unlock()
		return c
	}
	certMu.Unlock()

	tmpl := &x509.Certificate{
		SerialNumber:          new(big.Int).SetBytes(spec.Serial),
		Subject:               intelName(spec.CN),
		NotBefore:             spec.NotBefore,
		NotAfter:              spec.NotAfter,
		BasicConstraintsValid: true,
		IsCA:                  spec.CA,
		CRLDistributionPoints: spec.CRLDP,
		ExtraExtensions:       spec.ExtraExt,
		SignatureAlgorithm:    x509.ECDSAWithSHA256,
	}
	if spec.RawSubject != nil {
		tmpl.RawSubject = spec.RawSubject
	}
	if !spec.NoSKI {
		tmpl.SubjectKeyId = ski(key)
		if spec.SKI != nil {
			tmpl.SubjectKeyId = spec.SKI
		}
	}
	if spec.CA {
		tmpl.KeyUsage = x509.KeyUsageCertSign | x509.KeyUsageCRLSign
	} else {
		tmpl.KeyUsage = x509.KeyUsageDigitalSignature | x509.KeyUsageContentCommitment
	}
	parent := tmpl
	signer := key
	if issuer != nil {
		parent = issuer.X
		signer = issuer.Key
		if spec.AKI != nil {
			// the standard library copies the parent's subject key identifier unless the parent has none
			pc := *issuer.X
			pc.SubjectKeyId = nil
			parent = &pc
			tmpl.AuthorityKeyId = spec.AKI
		}
	}
	der, err := x509.CreateCertificate(nil, tmpl, parent, &key.Pub, signer)
	if err != nil {
		panic(fmt.Sprintf("harness: CreateCertificate(%s): %v", spec.CN, err))
	}
	if spec.SerialRaw != nil {
		der, err = RebuildCert(der, signer, func(k [][]byte) [][]byte {
			k[1] = (&Node{Tag: 0x02, Content: spec.SerialRaw}).Encode()
			return k
		})
		if err != nil {
			panic(fmt.Sprintf("harness: RebuildCert(%s): %v", spec.CN, err))
		}
	}
	x, err := x509.ParseCertificate(der)
	if err != nil {
		panic(fmt.Sprintf("harness: ParseCertificate(%s): %v", spec.CN, err))
	}
	c := &Cert{X: x, DER: der, PEM: pem.EncodeToMemory(&pem.Block{Type: "CERTIFICATE", Bytes: der}), Key: key}
	certMu.Lock()
	if len(certCache) > 20000 {
		certCache = map[string]*Cert{}
	}
	certCache[ck] = c
	certMu.Unlock()
	return c
}

func leafPubRaw(c *x509.Certificate) ([]byte, bool) {
	pk, ok := c.PublicKey.(*ecdsa.PublicKey)
	if !ok || pk.Curve != p256 {
		return nil, false
	}
	out := make([]byte, 64)
	pk.X.FillBytes(out[:32])
	pk.Y.FillBytes(out[32:])
	return out, true
}

// Window is a validity period.
type Window struct{ NotBefore, NotAfter time.Time }

// Wide is the default window: far from every time the harness uses.
var Wide = Window{T0.AddDate(-12, 0, 0), T0.AddDate(25, 0, 0)}

// PKISpec parametrises a PKI. Zero windows mean Wide.
type PKISpec struct {
	Seed           string
	IntCN          string // default platform CA
	RootW          Window
	IntW           Window
	TcbW           Window // TCB-Info signer
	QeW            Window // QE-Identity signer (distinct certificate)
	RootSerial     []byte
	IntSerial      []byte
	IntSerialRaw   []byte // see CertSpec.SerialRaw
	TcbSerialRaw   []byte
	TcbSerial      []byte
	QeSerial       []byte
	RootCRLDP      []string
	SameSigner     bool // QE identity signed by the same certificate as TCB info
	QeSameKey      bool // QE identity signer is a second certificate (own serial) for the TCB signer's key: same subject key identifier
	OddAKI         bool // intermediate and collateral signers carry an authority key identifier that is NOT the root's subject key identifier
	RootKeyLabel   string
	RootSKI        []byte // subject key identifier copied onto the root (look-alike of another root)
	RootRawSubject []byte
}

// PKI is a root / intermediate / TCB-signers hierarchy (leaves are made per platform).
type PKI struct {
	Spec     PKISpec
	Root     *Cert
	Int      *Cert
	TcbSig   *Cert // signs TCB Info
	QeSig    *Cert // signs QE Identity
	pool     *x509.CertPool
	poolOnce sync.Once
}

func orWide(w Window) Window {
	if w.NotBefore.IsZero() && w.NotAfter.IsZero() {
		return Wide
	}
	return w
}

func serialOr(b []byte, label string) []byte {
	if len(b) > 0 {
		return b
	}
	h := sha256.Sum256([]byte("serial|" + label))
	s := append([]byte{}, h[:19]...)
	s[0] &= 0x7f
	if s[0] == 0 {
		s[0] = 1
	}
	return s
}

// NewPKI builds (memoised at the certificate level) a PKI.
func NewPKI(spec PKISpec) *PKI {
	if spec.IntCN == "" {
		spec.IntCN = CNPlatform
	}
	if spec.RootCRLDP == nil {
		spec.RootCRLDP = []string{RootCrlURL}
	}
	rk := spec.RootKeyLabel
	if rk == "" {
		rk = spec.Seed + "/root"
	}
	rw, iw, tw, qw := orWide(spec.RootW), orWide(spec.IntW), orWide(spec.TcbW), orWide(spec.QeW)
	p := &PKI{Spec: spec}
	p.Root = MakeCert(CertSpec{CN: CNRoot, KeyLabel: rk, Serial: serialOr(spec.RootSerial, spec.Seed+"/root"), NotBefore: rw.NotBefore, NotAfter: rw.NotAfter, CA: true, CRLDP: spec.RootCRLDP, SKI: spec.RootSKI, RawSubject: spec.RootRawSubject}, nil)
	var aki []byte
	if spec.OddAKI {
		aki = []byte{0xa1, 0xa2, 0xa3, 0xa4, 0xa5, 0xa6, 0xa7, 0xa8, 0xa9, 0xaa, 0xab, 0xac, 0xad, 0xae, 0xaf, 0xb0, 0xb1, 0xb2, 0xb3, 0xb4}
	}
	p.Int = MakeCert(CertSpec{CN: spec.IntCN, KeyLabel: spec.Seed + "/int", Serial: serialOr(spec.IntSerial, spec.Seed+"/int"), SerialRaw: spec.IntSerialRaw, NotBefore: iw.NotBefore, NotAfter: iw.NotAfter, CA: true, CRLDP: spec.RootCRLDP, AKI: aki}, p.Root)
	p.TcbSig = MakeCert(CertSpec{CN: CNTcbSigner, KeyLabel: spec.Seed + "/tcb", Serial: serialOr(spec.TcbSerial, spec.Seed+"/tcb"), SerialRaw: spec.TcbSerialRaw, NotBefore: tw.NotBefore, NotAfter: tw.NotAfter, CRLDP: spec.RootCRLDP, AKI: aki}, p.Root)
	if spec.SameSigner {
		p.QeSig = p.TcbSig
	} else {
		ql := spec.Seed + "/qesig"
		if spec.QeSameKey {
			ql = spec.Seed + "/tcb"
		}
		p.QeSig = MakeCert(CertSpec{AKI: aki, CN: CNTcbSigner, KeyLabel: ql, Serial: serialOr(spec.QeSerial, spec.Seed+"/qesig"), NotBefore: qw.NotBefore, NotAfter: qw.NotAfter, CRLDP: spec.RootCRLDP}, p.Root)
	}
	return p
}

// RootEdition returns another certificate of this PKI's root CA: same name, same key, same validity, another serial
// number (a re-issued / renewed root which a relying party may trust next to the first one).
func (p *PKI) RootEdition(n int) *Cert {
	spec := p.Spec
	rk := spec.RootKeyLabel
	if rk == "" {
		rk = spec.Seed + "/root"
	}
	rw := orWide(spec.RootW)
	return MakeCert(CertSpec{CN: CNRoot, KeyLabel: rk, Serial: serialOr(nil, fmt.Sprintf("%s/root-edition-%d", spec.Seed, n)), NotBefore: rw.NotBefore, NotAfter: rw.NotAfter, CA: true, CRLDP: spec.RootCRLDP, SKI: spec.RootSKI, RawSubject: spec.RootRawSubject}, nil)
}

// Pool returns a cert pool holding exactly this PKI's root.
func (p *PKI) Pool() *x509.CertPool {
	p.poolOnce.Do(func() {
		p.pool = x509.NewCertPool()
		p.pool.AddCert(p.Root.X)
	})
	return p.pool
}

// PckCrlURL is the PCS URL of the PCK CRL for ca ("platform" / "processor").
func PckCrlURL(ca string) string {
	return "https://api.trustedservices.intel.com/sgx/certification/v4/pckcrl?ca=" + ca + "&encoding=der"
}

// LeafSpec parametrises a PCK leaf.
type LeafSpec struct {
	KeyLabel    string
	Serial      []byte
	W           Window
	SgxDER      []byte // encoded SGX extension value; nil = none
	SgxCritical bool   // mark the SGX extension critical (Intel does not)
	CN          string
	CA          bool
	CRLDP       []string
	AKI         []byte // see CertSpec.AKI
	SerialRaw   []byte // see CertSpec.SerialRaw
}

// MakeLeaf issues a PCK leaf from issuer.
func MakeLeaf(issuer *Cert, ls LeafSpec) *Cert {
	w := orWide(ls.W)
	cn := ls.CN
	if cn == "" {
		cn = CNLeaf
	}
	dp := ls.CRLDP
	if dp == nil {
		dp = []string{PckCrlURL("platform")}
	}
	var ext []pkix.Extension
	if ls.SgxDER != nil {
		e := SgxExtension(ls.SgxDER)
		e.Critical = ls.SgxCritical
		ext = []pkix.Extension{e}
	}
	return MakeCert(CertSpec{CN: cn, KeyLabel: ls.KeyLabel, Serial: serialOr(ls.Serial, ls.KeyLabel), NotBefore: w.NotBefore, NotAfter: w.NotAfter, CA: ls.CA, CRLDP: dp, ExtraExt: ext, AKI: ls.AKI, SerialRaw: ls.SerialRaw}, issuer)
}

// ChainPEM concatenates PEM encodings.
func ChainPEM(cs ...*Cert) []byte {
	var b []byte
	for _, c := range cs {
		b = append(b, c.PEM...)
	}
	return b
}

// CRLSpec parametrises a revocation list.
type CRLSpec struct {
	Revoked    [][]byte    // serial numbers (big-endian)
	RevokedRaw [][]byte    // further entries given as the DER INTEGER content of the serial number ({0x00} zero, {0xfb} -5): hand-encoded lists only
	RevokedAt  []time.Time // per-entry revocation time (missing / zero = ThisUpdate); the date of an entry is informational
	Reasons    []int       // per-entry CRL reason code (missing / 0 = no reason extension); a listed serial is revoked whatever the reason says
	ThisUpdate time.Time
	NextUpdate time.Time
	Number     int64
}

// MakeCRL signs a CRL with issuer's name and the given key (normally issuer.Key).
func MakeCRL(issuer *Cert, key *Key, cs CRLSpec) []byte {
	tu, nu := cs.ThisUpdate, cs.NextUpdate
	if tu.IsZero() {
		tu = Wide.NotBefore
	}
	if nu.IsZero() {
		nu = Wide.NotAfter
	}
	var entries []x509.RevocationListEntry
	for i, s := range cs.Revoked {
		at := tu
		if i < len(cs.RevokedAt) && !cs.RevokedAt[i].IsZero() {
			at = cs.RevokedAt[i]
		}
		e := x509.RevocationListEntry{SerialNumber: new(big.Int).SetBytes(s), RevocationTime: at}
		if i < len(cs.Reasons) {
			e.ReasonCode = cs.Reasons[i]
		}
		entries = append(entries, e)
	}
	tmpl := &x509.RevocationList{
		SignatureAlgorithm:        x509.ECDSAWithSHA256,
		RevokedCertificateEntries: entries,
		Number:                    big.NewInt(cs.Number + 1),
		ThisUpdate:                tu,
		NextUpdate:                nu,
	}
	der, err := x509.CreateRevocationList(nil, tmpl, issuer.X, key)
	if err != nil {
		panic("harness: CreateRevocationList: " + err.Error())
	}
	return der
}

// PKISeedRoot returns the root certificate of the i-th standard PKI.
func PKISeedRoot(i int) *Cert { return NewPKI(PKISpec{Seed: PKISeeds[i%len(PKISeeds)]}).Root }
