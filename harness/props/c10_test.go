package props

import (
	"bytes"
	"crypto/ecdsa"
	"crypto/ed25519"
	"crypto/elliptic"
	"crypto/rand"
	"crypto/rsa"
	"crypto/x509"
	"encoding/hex"
	"encoding/json"
	"encoding/pem"
	"errors"
	"fmt"
	"github.com/google/go-tdx-guest/verify/trust"
	"io"
	"math"
	"math/big"
	"net/http"
	"net/url"
	"regexp"
	"sort"
	"strings"
	"sync/atomic"
	"testing"
	"time"

	"github.com/google/go-eventlog/extract"
	"github.com/google/go-tdx-guest/abi"
	"github.com/google/go-tdx-guest/pcs"
	pb "github.com/google/go-tdx-guest/proto/tdx"
	"github.com/google/go-tdx-guest/rtmr"
	"github.com/google/go-tdx-guest/validate"
	"github.com/google/go-tdx-guest/verify"
	"google.golang.org/protobuf/proto"
	"google.golang.org/protobuf/reflect/protoreflect"
	"pgregory.net/rapid"
	"verifharness/gen"
)

const c10Watch = 40 * time.Second

// c10Call runs one entry point under the crash / hang oracle.
// c10Hung is set once a call did not come back: its goroutine is still spinning, and every further call of this process
// would only pile more of them up (the finding is reported; the remaining cases of the process are skipped).
var c10Hung atomic.Bool

func c10Call(t gen.TB, entry string, rp map[string]any, f func() error) gen.Verdict {
	if c10Hung.Load() {
		return gen.Verdict{}
	}
	gen.Eval()
	v, hung := gen.CallWatch(c10Watch, f)
	if hung {
		c10Hung.Store(true)
		gen.Fail(t, gen.Violation{Key: "hang@" + entry, Oracle: "every entry point returns within the watchdog", Detail: entry + " did not return within the watchdog time", Replay: rp})
		return v
	}
	if v.Panicked() {
		gen.Fail(t, gen.Violation{Key: "panic@" + gen.PanicSite(v.Stack) + "<-" + entry, Oracle: "every entry point returns a result or an error; none panics", Detail: entry + ": " + v.Panic, Replay: rp})
	}
	return v
}

// messageEntryPoints calls every entry point that takes a quote message.
func messageEntryPoints(t gen.TB, w *gen.World, m any, rp map[string]any, ccel, table []byte) {
	c10Call(t, "abi.QuoteToAbiBytes", rp, func() error { _, err := abi.QuoteToAbiBytes(m); return err })
	if q, ok := m.(*pb.QuoteV4); ok {
		c10Call(t, "abi.CheckQuoteV4", rp, func() error { return abi.CheckQuoteV4(q) })
		c10Call(t, "abi.HeaderToAbiBytes", rp, func() error { _, err := abi.HeaderToAbiBytes(q.GetHeader()); return err })
		c10Call(t, "abi.TdQuoteBodyToAbiBytes", rp, func() error { _, err := abi.TdQuoteBodyToAbiBytes(q.GetTdQuoteBody()); return err })
		c10Call(t, "abi.EnclaveReportToAbiBytes", rp, func() error {
			_, err := abi.EnclaveReportToAbiBytes(q.GetSignedData().GetCertificationData().GetQeReportCertificationData().GetQeReport())
			return err
		})
	}
	c10Call(t, "verify.ExtractChainFromQuote", rp, func() error { _, err := verify.ExtractChainFromQuote(m); return err })
	for _, l := range []gen.Level{gen.LvlBase, gen.LvlCRL} {
		o := w.Options(l, w.NewGetter(), nil)
		c10Call(t, "verify.TdxQuote", rp, func() error { return verify.TdxQuote(m, o) })
	}
	c10Call(t, "validate.TdxQuote", rp, func() error { return validate.TdxQuote(m, &validate.Options{}) })
	full := fieldsToOptions(&gen.PolicyFields{MinQeSvn: 1, MinPceSvn: 1, QeVendorID: make([]byte, 16), MinTeeTcbSvn: make([]byte, 16), MrSeam: make([]byte, 48), TdAttributes: make([]byte, 8), Xfam: make([]byte, 8),
		MrTd: make([]byte, 48), MrConfigID: make([]byte, 48), MrOwner: make([]byte, 48), MrOwnerConfig: make([]byte, 48), ReportData: make([]byte, 64), Rtmrs: [][]byte{make([]byte, 48), make([]byte, 48), make([]byte, 48), make([]byte, 48)}, AnyMrTd: [][]byte{make([]byte, 48)}})
	c10Call(t, "validate.TdxQuote(full policy)", rp, func() error { return validate.TdxQuote(m, full) })
	// policies that pin a single register / a single allow-list entry (the other entries empty)
	for k := 0; k < 4; k++ {
		rt := make([][]byte, 4)
		rt[k] = make([]byte, 48)
		sparse := &validate.Options{TdQuoteBodyOptions: validate.TdQuoteBodyOptions{Rtmrs: rt}}
		c10Call(t, fmt.Sprintf("validate.TdxQuote(only RTMR%d pinned)", k), rp, func() error { return validate.TdxQuote(m, sparse) })
	}
	c10Call(t, "rtmr.GetRtmrsFromTdQuote(after CheckQuoteV4)", rp, func() error {
		// documented precondition: the caller has checked the quote
		if q, ok := m.(*pb.QuoteV4); !ok || abi.CheckQuoteV4(q) != nil {
			return nil
		}
		_, err := rtmr.GetRtmrsFromTdQuote(m)
		return err
	})
	if ccel != nil {
		opts := &rtmr.ParseTdxCcelOpts{Validation: &validate.Options{}, Verification: w.Options(gen.LvlBase, w.NewGetter(), nil), ExtractOpt: extract.Opts{Loader: extract.GRUB}}
		c10Call(t, "rtmr.ParseCcelWithTdQuote", rp, func() error { _, err := rtmr.ParseCcelWithTdQuote(ccel, table, m, opts); return err })
	}
}

// thenSupported calls the level-reporting API with the very Options value a verification has just used (the
// verification stores the collateral it fetched in that value, verified or not, accepted or not).
func thenSupported(t gen.TB, w *gen.World, o *verify.Options, name string, rp map[string]any) {
	rp2 := map[string]any{}
	for k, v := range rp {
		rp2[k] = v
	}
	rp2["then_supported"] = true
	c10Call(t, "verify.SupportedTcbLevelsFromCollateral(same options)+"+name, rp2, func() error {
		m, err := abi.QuoteToProto(w.Raw)
		if err != nil {
			return err
		}
		_, _, err = verify.SupportedTcbLevelsFromCollateral(m, o)
		return err
	})
}

func rawEntryPoints(t gen.TB, w *gen.World, b []byte, rp map[string]any) {
	c10Call(t, "abi.QuoteToProto", rp, func() error { _, err := abi.QuoteToProto(b); return err })
	for _, l := range []gen.Level{gen.LvlBase, gen.LvlColl} {
		o := w.Options(l, w.NewGetter(), nil)
		c10Call(t, "verify.RawTdxQuote", rp, func() error { return verify.RawTdxQuote(b, o) })
	}
	c10Call(t, "validate.RawTdxQuote", rp, func() error { return validate.RawTdxQuote(b, &validate.Options{}) })
}

// structuralMutations enumerates every single structural mutation of a message:
// each sub-message cleared, each bytes field at length 0 / n-1 / n+1 / huge, each scalar at
// boundary values, each repeated bytes field at count 0..5 with a nil entry.
func structuralMutations(root proto.Message) []struct {
	Name  string
	Apply func(proto.Message)
} {
	type mut = struct {
		Name  string
		Apply func(proto.Message)
	}
	var out []mut
	var walk func(path []protoreflect.FieldDescriptor, m protoreflect.Message)
	resolve := func(path []protoreflect.FieldDescriptor, r proto.Message) protoreflect.Message {
		cur := r.ProtoReflect()
		for _, fd := range path {
			cur = cur.Mutable(fd).Message()
		}
		return cur
	}
	name := func(path []protoreflect.FieldDescriptor, fd protoreflect.FieldDescriptor) string {
		var s []string
		for _, p := range path {
			s = append(s, string(p.Name()))
		}
		return strings.Join(append(s, string(fd.Name())), ".")
	}
	walk = func(path []protoreflect.FieldDescriptor, m protoreflect.Message) {
		fds := m.Descriptor().Fields()
		for i := 0; i < fds.Len(); i++ {
			fd := fds.Get(i)
			p := append([]protoreflect.FieldDescriptor{}, path...)
			n := name(path, fd)
			switch {
			case fd.IsList() && fd.Kind() == protoreflect.BytesKind:
				for cnt := 0; cnt <= 5; cnt++ {
					cnt := cnt
					out = append(out, mut{fmt.Sprintf("%s:count=%d", n, cnt), func(r proto.Message) {
						l := resolve(p, r).Mutable(fd).List()
						l.Truncate(0)
						for j := 0; j < cnt; j++ {
							l.Append(protoreflect.ValueOfBytes(make([]byte, 48)))
						}
					}})
				}
				// the same number of bytes in another grouping: fewer, more or unequal entries whose lengths add up to the
				// four 48-byte entries (a check on the joined bytes and a use entry by entry must not disagree into a crash)
				for _, sizes := range [][]int{{64, 64, 64}, {96, 96}, {192}, {38, 38, 38, 38, 40}, {47, 49, 48, 48}, {0, 96, 48, 48}, {48, 48, 96}, {192, 0, 0, 0}} {
					sizes := sizes
					out = append(out, mut{fmt.Sprintf("%s:regrouped=%v", n, sizes), func(r proto.Message) {
						l := resolve(p, r).Mutable(fd).List()
						l.Truncate(0)
						for _, sz := range sizes {
							l.Append(protoreflect.ValueOfBytes(make([]byte, sz)))
						}
					}})
				}
				out = append(out, mut{n + ":nil-entry", func(r proto.Message) {
					l := resolve(p, r).Mutable(fd).List()
					if l.Len() > 1 {
						l.Set(1, protoreflect.ValueOfBytes(nil))
					}
				}})
				out = append(out, mut{n + ":short-entry", func(r proto.Message) {
					l := resolve(p, r).Mutable(fd).List()
					if l.Len() > 2 {
						l.Set(2, protoreflect.ValueOfBytes(make([]byte, 47)))
					}
				}})
			case fd.Kind() == protoreflect.MessageKind:
				out = append(out, mut{n + ":nil", func(r proto.Message) { resolve(p, r).Clear(fd) }})
				out = append(out, mut{n + ":empty", func(r proto.Message) {
					pm := resolve(p, r)
					pm.Set(fd, protoreflect.ValueOfMessage(pm.NewField(fd).Message()))
				}})
				if m.Has(fd) {
					walk(append(p, fd), m.Get(fd).Message())
				}
			case fd.Kind() == protoreflect.BytesKind:
				cur := len(m.Get(fd).Bytes())
				for _, ln := range []int{0, cur - 1, cur + 1, 70000} {
					if ln < 0 {
						continue
					}
					ln := ln
					out = append(out, mut{fmt.Sprintf("%s:len=%d", n, ln), func(r proto.Message) {
						old := resolve(p, r).Get(fd).Bytes()
						nb := make([]byte, ln)
						copy(nb, old)
						resolve(p, r).Set(fd, protoreflect.ValueOfBytes(nb))
					}})
				}
				out = append(out, mut{n + ":nil", func(r proto.Message) { resolve(p, r).Clear(fd) }})
			case fd.Kind() == protoreflect.Uint32Kind:
				cur := uint32(m.Get(fd).Uint())
				for _, v := range []uint32{0, 1, 1 << 16, 1<<16 - 1, 1<<32 - 1, 1 << 31, 1<<31 - 1, cur - 1, cur + 1, cur + 2, cur + 3, cur + 4, cur + 9, cur + 1000, cur / 2} {
					v := v
					out = append(out, mut{fmt.Sprintf("%s=%d", n, v), func(r proto.Message) { resolve(p, r).Set(fd, protoreflect.ValueOfUint32(v)) }})
				}
			}
		}
	}
	walk(nil, root.ProtoReflect())
	return out
}

// jsonMutate replaces one random node of a JSON document by a value of another shape.
func jsonMutate(t *rapid.T, doc []byte) []byte {
	var v any
	if json.Unmarshal(doc, &v) != nil {
		return doc
	}
	repl := []any{nil, 0, -1, 1e99, "", "zz", "0", true, []any{}, map[string]any{}, []any{nil}, map[string]any{"svn": "x"}, "abc", 256, 65536, 4294967296.0, "2023-13-45T00:00:00Z",
		[]any{[]any{[]any{[]any{}}}}}
	type site struct {
		set func(any)
		cur any
	}
	var sites []site
	var walk func(x any, set func(any))
	walk = func(x any, set func(any)) {
		sites = append(sites, site{set, x})
		switch c := x.(type) {
		case map[string]any:
			keys := make([]string, 0, len(c))
			for k := range c {
				keys = append(keys, k)
			}
			sort.Strings(keys)
			for _, k := range keys {
				k := k
				walk(c[k], func(n any) { c[k] = n })
			}
		case []any:
			for i := range c {
				i := i
				walk(c[i], func(n any) { c[i] = n })
			}
		}
	}
	root := v
	walk(root, func(n any) { root = n })
	n := rapid.IntRange(1, 2).Draw(t, "jsonEdits")
	for i := 0; i < n; i++ {
		s := sites[rapid.IntRange(0, len(sites)-1).Draw(t, "site")]
		if rapid.Bool().Draw(t, "typeAware") {
			// keep the type, change the size / magnitude
			switch c := s.cur.(type) {
			case string:
				s.set(rapid.SampledFrom([]string{c + "00", c + "0000000000", c + c, strings.ToUpper(c), "00", c[:len(c)/2], c[:len(c)-len(c)%2-min(2, len(c))], c + "0"}).Draw(t, "str"))
			case float64:
				s.set(rapid.SampledFrom([]float64{c + 1, c - 1, 255, 256, 65535, 65536, 4294967295, 4294967296, -1, 0.5}).Draw(t, "num"))
			case []any:
				switch rapid.IntRange(0, 3).Draw(t, "arr") {
				case 0:
					s.set([]any{})
				case 1:
					if len(c) > 0 {
						s.set(c[:len(c)-1])
					}
				case 2:
					if len(c) > 0 {
						s.set(append(append([]any{}, c...), c[0]))
					}
				case 3:
					if len(c) > 0 {
						s.set(append([]any{nil}, c[1:]...))
					}
				}
			default:
				s.set(rapid.SampledFrom(repl).Draw(t, "replacement"))
			}
			continue
		}
		s.set(rapid.SampledFrom(repl).Draw(t, "replacement"))
	}
	out, err := json.Marshal(root)
	if err != nil {
		return doc
	}
	return out
}

// jsonSizeVariants enumerates, for every string / array / number node of a JSON document, variants
// that keep the node's type but change its size or magnitude.
func jsonSizeVariants(doc []byte) (out [][]byte, names []string) {
	var root any
	if json.Unmarshal(doc, &root) != nil {
		return nil, nil
	}
	type site struct {
		path string
		set  func(any)
		cur  any
	}
	var sites []site
	var walk func(path string, x any, set func(any))
	walk = func(path string, x any, set func(any)) {
		sites = append(sites, site{path, set, x})
		switch c := x.(type) {
		case map[string]any:
			keys := make([]string, 0, len(c))
			for k := range c {
				keys = append(keys, k)
			}
			sort.Strings(keys)
			for _, k := range keys {
				k := k
				walk(path+"."+k, c[k], func(n any) { c[k] = n })
			}
		case []any:
			for i := range c {
				i := i
				walk(fmt.Sprintf("%s[%d]", path, i), c[i], func(n any) { c[i] = n })
			}
		}
	}
	walk("", root, func(n any) { root = n })
	emit := func(st site, name string, v any) {
		st.set(v)
		b, err := json.Marshal(root)
		st.set(st.cur)
		if err == nil {
			out = append(out, b)
			names = append(names, st.path+":"+name)
		}
	}
	for _, st := range sites {
		switch c := st.cur.(type) {
		case string:
			emit(st, "grow-1-byte", c+"00")
			emit(st, "grow-odd", c+"0")
			emit(st, "double", c+c)
			emit(st, "empty", "")
			if len(c) >= 2 {
				emit(st, "shrink-1-byte", c[:len(c)-2])
			}
		case float64:
			emit(st, "plus-1", c+1)
			emit(st, "256", 256.0)
			emit(st, "65536", 65536.0)
			emit(st, "minus-1", -1.0)
		case []any:
			emit(st, "empty", []any{})
			if len(c) > 0 {
				emit(st, "shorter", append([]any{}, c[:len(c)-1]...))
				emit(st, "longer", append(append([]any{}, c...), c[0]))
				emit(st, "null-first", append([]any{nil}, c[1:]...))
			}
		case map[string]any:
			emit(st, "null", nil)
		}
	}
	return out, names
}

func TestC10(t *testing.T) {
	replayDir(t, "C10")
	base := gen.NewWorld(gen.NewPKI(gen.PKISpec{Seed: "pki-A"}), gen.NewStream(gen.Seed(), "c10")).Build()
	ccel := readRepoFile(t, "testing/testdata/ccel/ccel_data.dat")
	table := readRepoFile(t, "testing/testdata/ccel/ccel_table.dat")

	// (1) every single structural mutation of a valid message, at every message entry point.
	// the library's own getter (trust.SimpleHTTPSGetter over net/http's default transport, replaced in process) against
	// whatever a server may answer: any status, any Retry-After / Date / Content-Length header, bodies that end early.
	// Every request returns (a response or an error) - well inside a minute
	gen.Direct(t, "library-getter-against-any-http-answer", func(t *testing.T) {
		if sh, _ := gen.Shard(); sh != 0 {
			return // replaces a process-wide transport: one shard is enough
		}
		saved := http.DefaultTransport
		defer func() { http.DefaultTransport = saved }()
		far := time.Now().AddDate(3, 0, 0).UTC().Format(http.TimeFormat)
		retryAfter := []string{"", far, "0", "1", "120", "86400", "-5", "99999999999999999999", time.Now().Add(-time.Hour).UTC().Format(http.TimeFormat), "Wed, 21 Oct 2099 07:28:00 GMT", "soon", " 3", "1.5"}
		i := 0
		for _, status := range []int{200, 201, 204, 206, 301, 304, 400, 401, 403, 404, 408, 429, 500, 502, 503, 504, 599} {
			for _, ra := range retryAfter {
				for _, body := range []string{"", "x", "{\"tcbInfo\":{}}"} {
					i++
					if status != 429 && status != 503 && status != 200 && i%3 != 0 {
						continue
					}
					h := http.Header{}
					if ra != "" {
						h.Set("Retry-After", ra)
					}
					if i%5 == 0 {
						h.Set("Date", far)
					}
					// what the transport reports as the announced length is the server's word too: unknown, right, zero, or absurd
					cl := []int64{-1, int64(len(body)), 0, 1 << 50, 1 << 62, math.MaxInt64, int64(len(body)) + 1}[i%7]
					if cl > 0 {
						h.Set("Content-Length", fmt.Sprint(cl))
					}
					http.DefaultTransport = roundTripFunc(func(req *http.Request) (*http.Response, error) {
						return &http.Response{StatusCode: status, Status: fmt.Sprintf("%d status", status), Header: h, Body: io.NopCloser(strings.NewReader(body)), Request: req, ContentLength: cl}, nil
					})
					g := &trust.SimpleHTTPSGetter{}
					gen.Eval()
					v, hung := gen.CallWatch(45*time.Second, func() error {
						_, _, err := g.Get("https://api.trustedservices.intel.com/tdx/certification/v4/qe/identity")
						return err
					})
					if hung || v.Panicked() {
						gen.Fail(t, gen.Violation{Key: fmt.Sprintf("getter-no-answer:status-%d", status), Oracle: "every entry point returns a result or an error; none panics or hangs", Detail: fmt.Sprintf("trust.SimpleHTTPSGetter.Get against a server answering %d with Retry-After %q, an announced length of %d and a body of %d bytes: no answer within 45 s %s", status, ra, cl, len(body), v.Panic), Replay: map[string]any{"kind": "c10-http-answer", "status": status, "retry_after": ra}})
						return
					}
					gen.NonTrivial("c10http", status, ra, len(body))
				}
			}
		}
		gen.Class("library-getter-against-any-http-answer")
	})
	// a genuinely issued PCK leaf whose SGX extension lacks one of its members (the TCB member, the PPID, ...) while two
	// optional members keep it above the minimum count - verified WITH collateral, then asked for the level report
	gen.Direct(t, "leaf-lacking-an-sgx-member-with-collateral", func(t *testing.T) {
		i := 0
		for drop := 0; drop < 5; drop++ {
			for _, seed := range gen.PKISeeds {
				i++
				if !gen.ShardOwns(i) {
					continue
				}
				w := gen.NewWorld(gen.NewPKI(gen.PKISpec{Seed: seed}), gen.NewStream(gen.Seed()+uint64(i), "c10lack"))
				w.HonestCollateral()
				v := w.Sgx
				top := gen.SgxTree(&v)
				names := []string{"ppid", "tcb", "pceid", "fmspc", "type"}
				top.Kids = append(top.Kids[:drop], top.Kids[drop+1:]...)
				top.Kids = append(top.Kids, gen.Seq(gen.OID(1, 2, 840, 113741, 1, 13, 1, 6), gen.Octet(make([]byte, 16))), gen.Seq(gen.OID(1, 2, 840, 113741, 1, 13, 1, 7), gen.Seq(gen.Seq(gen.OID(1, 2, 840, 113741, 1, 13, 1, 7, 1), &gen.Node{Tag: 0x01, Content: []byte{0xff}}))))
				w.SgxDER = top.Encode()
				w.Build()
				msg := w.Q.ToProto()
				for _, l := range []gen.Level{gen.LvlColl, gen.LvlCRL} {
					o := w.Options(l, w.NewGetter(), nil)
					gen.Eval()
					vv, hung := gen.CallWatch(40*time.Second, func() error { return verify.RawTdxQuote(w.Raw, o) })
					v2 := gen.Call(func() error { _, _, err := verify.SupportedTcbLevelsFromCollateral(msg, o); return err })
					for _, x := range []gen.Verdict{vv, v2} {
						if hung || x.Panicked() {
							gen.Fail(t, gen.Violation{Key: "panic@" + gen.PanicSite(x.Stack), Oracle: "every entry point returns a result or an error; none panics or hangs", Detail: fmt.Sprintf("PCK leaf whose SGX extension lacks its %s member (two optional members present), level %s: %s", names[drop], l, x.Panic), Replay: withFields(w.CaseFile(l, nil, nil, nil, "nopanic"), map[string]any{"then_supported": true})})
							return
						}
					}
					gen.NonTrivial("c10lack", names[drop], seed, int(l))
				}
			}
		}
		gen.Class("leaf-lacking-an-sgx-member")
	})
	// inputs of a few megabytes made of very many small parts - thousands of TCB levels, tens of thousands of QE levels
	// and CRL entries, thousands of certificates behind the chain - are answered (accepted or refused) within a minute
	gen.Direct(t, "inputs-made-of-very-many-parts", func(t *testing.T) {
		for i, kind := range []string{"tcb-levels", "qe-levels", "pck-crl-entries", "root-crl-entries", "certificates-behind-the-chain", "module-identities"} {
			if !gen.ShardOwns(i) {
				continue
			}
			s := gen.NewStream(gen.Seed()+uint64(i), "c10many")
			w := gen.NewWorld(gen.NewPKI(gen.PKISpec{Seed: gen.PKISeeds[i%len(gen.PKISeeds)]}), s)
			w.HonestCollateral()
			n := 0
			switch kind {
			case "tcb-levels":
				n = 4000
				good := w.TcbInfo.Levels
				var lv []gen.PlatformLevel
				for k := 0; k < n; k++ {
					l := gen.PlatformLevel{Status: "OutOfDate", PceSvn: 65535}
					for c := range l.Sgx {
						l.Sgx[c], l.Tdx[c] = 255, 255
					}
					l.Sgx[k%16] = byte(k / 16)
					lv = append(lv, l)
				}
				w.TcbInfo.Levels = append(lv, good...)
			case "qe-levels":
				n = 40000
				good := w.QeID.Levels
				var lv []gen.QeLevel
				for k := 0; k < n; k++ {
					lv = append(lv, gen.QeLevel{Isvsvn: uint32(1000000 + n - k), Status: "OutOfDate"})
				}
				w.QeID.Levels = append(lv, good...)
			case "pck-crl-entries", "root-crl-entries":
				n = 60000
				var rev [][]byte
				for k := 0; k < n; k++ {
					rev = append(rev, []byte{0x5a, byte(k >> 16), byte(k >> 8), byte(k), 0x01, 0x02, 0x03, 0x04, 0x05})
				}
				if kind == "pck-crl-entries" {
					w.PckCrl.Revoked = rev
				} else {
					w.RootCrl.Revoked = rev
				}
			case "module-identities":
				n = 3000
				for k := 0; k < n; k++ {
					w.TcbInfo.Identities = append(w.TcbInfo.Identities, gen.ModuleIdentity{ID: fmt.Sprintf("TDX_%04d", 100+k), Mrsigner: s.Bytes(48), Attributes: make([]byte, 8), Mask: bytes.Repeat([]byte{0xff}, 8), Levels: []gen.ModuleLevel{{Isvsvn: 1, Status: "UpToDate"}}})
				}
			case "certificates-behind-the-chain":
				n = 1500
				w.BuildLeaf()
				chain := gen.ChainPEM(w.Leaf, w.PKI.Int, w.PKI.Root)
				for k := 0; k < n; k++ {
					chain = append(chain, gen.PKISeedRoot(k%4).PEM...)
				}
				w.ChainOverride = chain
			}
			w.Build()
			for _, l := range []gen.Level{gen.LvlBase, gen.LvlCRL} {
				o := w.Options(l, w.NewGetter(), nil)
				gen.Eval()
				t0 := time.Now()
				v, hung := gen.CallWatch(60*time.Second, func() error { return verify.RawTdxQuote(w.Raw, o) })
				if hung || v.Panicked() {
					gen.Fail(t, gen.Violation{Key: "no-answer:very-many-parts:" + kind, Oracle: "every entry point returns a result or an error; none panics or hangs", Detail: fmt.Sprintf("%d %s, level %s: no answer within 60 s %s", n, kind, l, v.Panic), Replay: map[string]any{"kind": "c10-many-parts", "what": kind}})
					return
				}
				gen.NonTrivial("c10many", kind, int(l))
				gen.Sample("very-many-parts", map[string]any{"what": kind, "n": n, "level": l.String(), "verdict": v.Short(), "seconds": time.Since(t0).Seconds()})
			}
		}
		gen.Class("inputs-made-of-very-many-parts")
	})
	gen.Direct(t, "message-structure", func(t *testing.T) {
		// the valid message as the parser produces it for a quote without trailing bytes, with three trailing bytes, and
		// with an empty-but-present trailing-bytes field (which only a hand-built or wire-decoded message has)
		nMuts := 0
		for vi, extra := range [][]byte{nil, {0xaa, 0xbb, 0xcc}, {}} {
			valid := base.Q.ToProto()
			valid.ExtraBytes = extra
			muts := structuralMutations(valid)
			nMuts += len(muts)
			for i, mu := range muts {
				if !gen.ShardOwns(i + vi) {
					continue
				}
				m := proto.Clone(valid).(*pb.QuoteV4)
				if extra != nil && len(extra) == 0 {
					m.ExtraBytes = []byte{} // Clone drops an empty slice
				}
				mu.Apply(m)
				b, _ := proto.Marshal(m)
				rp := map[string]any{"kind": "crash-message", "proto_hex": hex.EncodeToString(b), "mutation": mu.Name}
				if extra != nil && len(extra) == 0 {
					rp["empty_extra_bytes"] = true
				}
				messageEntryPoints(t, base, m, rp, ccel, table)
				if abi.CheckQuoteV4(valid) == nil {
					gen.NonTrivial("msg", mu.Name, vi)
				}
				gen.Class("message-mutation")
				if i%29 == 0 && vi == 0 {
					gen.Sample("message-mutation", mu.Name)
				}
			}
		}
		// degenerate messages and non-quote types
		for _, m := range []any{&pb.QuoteV4{}, (*pb.QuoteV4)(nil), nil, &pb.Header{}, "quote", 42, []byte{1, 2, 3}, struct{}{}} {
			rp := map[string]any{"kind": "crash-degenerate", "type": fmt.Sprintf("%T", m)}
			messageEntryPoints(t, base, m, rp, ccel, table)
			gen.NonTrivial("degenerate", fmt.Sprintf("%T", m))
		}
		gen.Exhaustive(fmt.Sprintf("all %d single structural mutations of a valid QuoteV4 message (without, with and with empty trailing bytes) + degenerate values", nMuts), true)
	})

	// (2) raw bytes: all truncations and size-field boundaries (shared with C09's enumerations), at every raw entry point.
	gen.Direct(t, "raw-truncations-and-sizes", func(t *testing.T) {
		b := base.Raw
		i := 0
		for n := 0; n <= len(b); n++ {
			i++
			if !gen.ShardOwns(i) || (gen.Tier() == "quick" && n%3 != 0 && n < len(b)-1300) {
				continue
			}
			rawEntryPoints(t, base, b[:n], map[string]any{"kind": "crash-raw", "raw_hex": hex.EncodeToString(b[:n])})
			if n >= 1020 {
				gen.NonTrivial("trunc", n)
			}
		}
		// the QE auth-data size swallowing the chain structure down to its last r bytes (all outer sizes stay consistent)
		authOff := 636 + 134 + 448
		after := len(b) - (authOff + 2) // bytes behind the auth-size field
		for r := 0; r <= 16; r++ {
			i++
			if after-r > 0xffff || !gen.ShardOwns(i) {
				continue
			}
			m := append([]byte{}, b...)
			putLE(m, authOff, 2, uint64(after-r))
			rawEntryPoints(t, base, m, map[string]any{"kind": "crash-raw", "raw_hex": hex.EncodeToString(m)})
			gen.NonTrivial("auth-swallows-chain", r)
		}
		for _, f := range gen.SizeFields(len(base.Q.Auth)) {
			for _, v := range boundaryVals(fixedPart(f.Name), getLE(b, f.Off, f.Len)) {
				i++
				if !gen.ShardOwns(i) {
					continue
				}
				m := append([]byte{}, b...)
				putLE(m, f.Off, f.Len, v)
				rawEntryPoints(t, base, m, map[string]any{"kind": "crash-raw", "raw_hex": hex.EncodeToString(m)})
				gen.NonTrivial("size", f.Name, v)
			}
		}
	})

	// (2b) every size / magnitude variant of every node of the two collateral documents, CORRECTLY RE-SIGNED, so
	// that the value logic behind the signature check is reached with each odd shape.
	gen.Direct(t, "signed-collateral-shapes", func(t *testing.T) {
		i := 0
		for _, mod := range []byte{0, 1} {
			w := gen.NewWorld(base.PKI, gen.NewStream(gen.Seed()+uint64(mod), "c10shape"))
			w.Q.TeeTcbSvn[1] = mod
			w.HonestCollateral()
			w.Build()
			for _, k := range []c03Kind{kindTcb, kindQe} {
				docs, names := jsonSizeVariants(k.render(w))
				for di, doc := range docs {
					i++
					if !gen.ShardOwns(i) {
						continue
					}
					saved := w.Resp[k.url(w)]
					w.Resp[k.url(w)] = gen.Response{Header: saved.Header, Body: gen.SignedBody(k.member, doc, k.signer(w).Key)}
					for _, l := range []gen.Level{gen.LvlColl, gen.LvlCRL} {
						o := w.Options(l, w.NewGetter(), nil)
						rp := w.CaseFile(l, nil, nil, nil, "nopanic")
						c10Call(t, "verify.RawTdxQuote+signed-"+k.name+"-shape", rp, func() error { return verify.RawTdxQuote(w.Raw, o) })
						thenSupported(t, w, o, "signed-"+k.name+"-shape", rp)
					}
					// the same deformed document as the exact-name member next to a well-formed, differently spelled twin
					// (a shape check that looks at one parse and a use that looks at the other must not disagree into a crash)
					good := k.render(w)
					twin := gen.FoldVariants(k.member)[di%len(gen.FoldVariants(k.member))]
					sig := hex.EncodeToString(k.signer(w).Key.SignRaw(doc))
					for oi, body := range []string{
						`{"` + k.member + `":` + string(doc) + `,"signature":"` + sig + `","` + twin + `":` + string(good) + `}`,
						`{"` + twin + `":` + string(good) + `,"` + k.member + `":` + string(doc) + `,"signature":"` + sig + `"}`,
					} {
						if (di+oi)%2 == 1 {
							continue // one of the two orders per variant
						}
						w.Resp[k.url(w)] = gen.Response{Header: saved.Header, Body: []byte(body)}
						o := w.Options(gen.LvlColl, w.NewGetter(), nil)
						rp := w.CaseFile(gen.LvlColl, nil, nil, nil, "nopanic")
						c10Call(t, "verify.RawTdxQuote+signed-"+k.name+"-shape-with-twin", rp, func() error { return verify.RawTdxQuote(w.Raw, o) })
						thenSupported(t, w, o, "signed-"+k.name+"-shape-with-twin", rp)
						o2 := w.Options(gen.LvlColl, w.NewGetter(), nil)
						c10Call(t, "verify.SupportedTcbLevelsFromCollateral+signed-"+k.name+"-shape-with-twin", rp, func() error {
							m, err := abi.QuoteToProto(w.Raw)
							if err != nil {
								return err
							}
							_, _, err = verify.SupportedTcbLevelsFromCollateral(m, o2)
							return err
						})
					}
					w.Resp[k.url(w)] = saved
					gen.NonTrivial("shape", k.name, names[di], mod)
					if di%41 == 0 {
						gen.Sample("signed-collateral-shape", k.name+names[di])
					}
					gen.Class("signed-collateral-shape")
				}
			}
		}
		gen.Exhaustive("size / magnitude variants of every JSON node of correctly re-signed TCB Info and QE Identity documents", true)
	})

	// (2c) the error paths of the revocation checks: the certificate a CRL revokes (PCK leaf, issuing CA, TCB / QE signer)
	// has a serial number of 1 .. 64 octets (RFC 5280 asks for at most 20, crypto/x509 parses and issues longer ones),
	// with and without a leading 0x80 bit; revoked or merely listed next to a revoked neighbour.
	gen.Direct(t, "revocation-paths-with-serials-of-any-length", func(t *testing.T) {
		i := 0
		for _, n := range []int{1, 8, 16, 19, 20, 21, 22, 32, 33, 64} {
			for _, who := range []string{"leaf", "intermediate", "tcb-signer", "qe-signer", "none"} {
				i++
				if !gen.ShardOwns(i) {
					continue
				}
				s := gen.NewStream(gen.Seed()+uint64(i), "c10serial")
				serial := s.Bytes(n)
				serial[0] = 0x7f // stays positive, takes exactly n octets
				spec := gen.PKISpec{Seed: fmt.Sprintf("c10-serial-%d-%s", n, who)}
				switch who {
				case "intermediate":
					spec.IntSerial = serial
				case "tcb-signer":
					spec.TcbSerial = serial
				case "qe-signer":
					spec.QeSerial = serial
				}
				w := gen.NewWorld(gen.NewPKI(spec), s)
				if who == "leaf" || who == "none" {
					w.LeafSpec.Serial = serial
				}
				w.SignQuote()
				switch who {
				case "leaf":
					w.PckCrl.Revoked = [][]byte{w.Leaf.X.SerialNumber.Bytes()}
				case "intermediate":
					w.RootCrl.Revoked = [][]byte{w.PKI.Int.X.SerialNumber.Bytes()}
				case "tcb-signer":
					w.RootCrl.Revoked = [][]byte{w.PKI.TcbSig.X.SerialNumber.Bytes()}
				case "qe-signer":
					w.RootCrl.Revoked = [][]byte{w.PKI.QeSig.X.SerialNumber.Bytes()}
				default:
					w.PckCrl.Revoked = [][]byte{append(append([]byte{}, serial[:n-1]...), serial[n-1]^1)} // a neighbour of the leaf's serial
				}
				// the entry that revokes carries a reason code: none, the defined ones, undefined ones, negative ones
				reason := []int{0, 1, 5, 10, 11, 255, -1, -128, 1<<31 - 1, -1 << 31}[(i/3)%10]
				w.PckCrl.Reasons, w.RootCrl.Reasons = []int{reason}, []int{reason}
				w.BuildCollateral()
				rp := w.CaseFile(gen.LvlCRL, nil, nil, nil, "nopanic")
				o := w.Options(gen.LvlCRL, w.NewGetter(), nil)
				c10Call(t, fmt.Sprintf("verify.RawTdxQuote+revoked-%s-serial-of-%d-octets-reason-%d", who, n, reason), rp, func() error { return verify.RawTdxQuote(w.Raw, o) })
				thenSupported(t, w, o, "revoked-"+who, rp)
				gen.NonTrivial("long-serial", n, who)
				gen.Class("revocation-path:" + who)
			}
		}
		gen.Exhaustive("10 serial-number lengths x {leaf, issuing CA, TCB signer, QE signer revoked; neighbour serial listed}", true)
	})

	// (2d) certificate chains in the quote whose certificates name each other in odd ways (only names matter before any
	// signature is looked at): two CA certificates that name each other as issuer, a leaf that names itself, the same
	// certificate three times, the root first, four and five blocks. Every entry point returns.
	gen.Direct(t, "pck-chain-issuer-graphs", func(t *testing.T) {
		w := gen.NewWorld(gen.NewPKI(gen.PKISpec{Seed: "pki-A"}), gen.NewStream(gen.Seed()+33, "c10graph"))
		w.SignQuote()
		mk := func(cn, key string, issuer *gen.Cert, ca bool) *gen.Cert {
			return gen.MakeCert(gen.CertSpec{CN: cn, KeyLabel: "c10graph/" + key, Serial: []byte{0x33, byte(len(key))}, NotBefore: gen.Wide.NotBefore, NotAfter: gen.Wide.NotAfter, CA: ca, CRLDP: []string{gen.RootCrlURL}}, issuer)
		}
		y0 := mk(gen.CNRoot, "y0", nil, true)
		x := mk(gen.CNPlatform, "x", y0, true)
		y := mk(gen.CNRoot, "y", x, true) // named like the root, issued (by name) by the platform CA: x and y name each other
		leafX := gen.MakeLeaf(x, gen.LeafSpec{KeyLabel: "c10graph/leaf", SgxDER: gen.SgxTree(&w.Sgx).Encode()})
		selfLeaf := gen.MakeLeaf(nil, gen.LeafSpec{KeyLabel: "c10graph/selfleaf", SgxDER: gen.SgxTree(&w.Sgx).Encode()})
		p := w.PKI
		chains := map[string][]*gen.Cert{
			"two-cas-naming-each-other": {leafX, x, y}, "two-cas-naming-each-other-swapped": {leafX, y, x}, "cycle-without-a-leaf": {x, y, x},
			"self-issued-leaf-first": {selfLeaf, p.Int, p.Root}, "leaf-three-times": {w.Leaf, w.Leaf, w.Leaf}, "root-three-times": {p.Root, p.Root, p.Root},
			"root-first": {p.Root, p.Int, w.Leaf}, "intermediate-first": {p.Int, w.Leaf, p.Root}, "four-blocks": {w.Leaf, p.Int, p.Root, y}, "five-blocks-with-a-cycle": {w.Leaf, p.Int, x, y, p.Root},
			"leaf-under-the-cycle-and-genuine-root": {leafX, x, p.Root}, "intermediate-twice": {w.Leaf, p.Int, p.Int},
		}
		names := make([]string, 0, len(chains))
		for n := range chains {
			names = append(names, n)
		}
		sort.Strings(names)
		for i, name := range names {
			if !gen.ShardOwns(i) {
				continue
			}
			q := w.Q.Clone()
			q.Chain = gen.ChainPEM(chains[name]...)
			q.FixSizes()
			raw := q.Encode()
			rp := map[string]any{"kind": "crash-raw", "raw_hex": hex.EncodeToString(raw)}
			rawEntryPoints(t, w, raw, rp)
			if rq, err := gen.RefParse(raw); err == nil {
				c10Call(t, "verify.ExtractChainFromQuote+"+name, rp, func() error { _, err := verify.ExtractChainFromQuote(rq.ToProto()); return err })
			}
			gen.NonTrivial("chain-graph", name)
			gen.Class("pck-chain-issuer-graph")
		}
	})

	// (2b) the dates of correctly signed documents: every pairing of issueDate / nextUpdate spellings, including equal
	// instants (same or different zone spelling), sub-microsecond distances, reversed order, absent and non-date values.
	gen.Direct(t, "signed-collateral-dates", func(t *testing.T) {
		w := gen.NewWorld(base.PKI, gen.NewStream(gen.Seed()+77, "c10dates")).Build()
		spell := []string{`"2040-01-01T00:00:00Z"`, `"2040-01-01T02:00:00+02:00"`, `"2039-12-31T19:00:00-05:00"`, `"2040-01-01T00:00:00.000000001Z"`, `"2040-01-01T00:00:00.00000005Z"`, `"2040-01-01T00:00:01Z"`,
			`"2039-12-31T23:59:59Z"`, `"2031-03-14T01:00:00Z"`, `"2031-03-14T02:00:00Z"`, `"0001-01-01T00:00:00Z"`, `"9999-12-31T23:59:59Z"`, `"2262-04-11T23:47:16.854775807Z"`, `"2262-04-11T23:47:16.854775808Z"`,
			`"0000-00-00T00:00:00Z"`, `"2040-01-01"`, `""`, `null`, `0`, `2040`, `[]`, `{}`, `"not a date"`, ``}
		dateRe := func(key string) *regexp.Regexp { return regexp.MustCompile(`"` + key + `":"[^"]*",`) }
		i := 0
		for _, k := range []c03Kind{kindTcb, kindQe} {
			doc0 := k.render(w)
			for _, is := range spell {
				for _, nu := range spell {
					i++
					if !gen.ShardOwns(i) {
						continue
					}
					repl := func(doc []byte, key, val string) []byte {
						if val == "" {
							return dateRe(key).ReplaceAll(doc, nil) // member absent
						}
						return dateRe(key).ReplaceAll(doc, []byte(`"`+key+`":`+val+`,`))
					}
					doc := repl(repl(doc0, "issueDate", is), "nextUpdate", nu)
					saved := w.Resp[k.url(w)]
					w.Resp[k.url(w)] = gen.Response{Header: saved.Header, Body: gen.SignedBody(k.member, doc, k.signer(w).Key)}
					for _, l := range []gen.Level{gen.LvlColl, gen.LvlCRL} {
						o := w.Options(l, w.NewGetter(), nil)
						c10Call(t, "verify.RawTdxQuote+signed-"+k.name+"-dates", w.CaseFile(l, nil, nil, nil, "nopanic"), func() error { return verify.RawTdxQuote(w.Raw, o) })
						thenSupported(t, w, o, "signed-"+k.name+"-dates", w.CaseFile(l, nil, nil, nil, "nopanic"))
						o2 := w.Options(l, w.NewGetter(), nil)
						c10Call(t, "verify.SupportedTcbLevelsFromCollateral+signed-"+k.name+"-dates", w.CaseFile(l, nil, nil, nil, "nopanic"), func() error {
							m, err := abi.QuoteToProto(w.Raw)
							if err != nil {
								return err
							}
							_, _, err = verify.SupportedTcbLevelsFromCollateral(m, o2)
							return err
						})
					}
					w.Resp[k.url(w)] = saved
					gen.NonTrivial("dates", k.name, is, nu)
					gen.Class("signed-collateral-dates")
					if i%97 == 0 {
						gen.Sample("signed-collateral-dates", map[string]any{"document": k.name, "issueDate": is, "nextUpdate": nu})
					}
				}
			}
		}
		gen.Exhaustive("23 x 23 spellings of issueDate / nextUpdate in correctly re-signed TCB Info and QE Identity documents", true)
	})

	// (2c) what a CRL endpoint may answer: DER, PEM in several framings (well-formed, damaged, empty, foreign type), text.
	gen.Direct(t, "crl-body-shapes", func(t *testing.T) {
		w := gen.NewWorld(base.PKI, gen.NewStream(gen.Seed()+78, "c10crl")).Build()
		i := 0
		for _, u := range []string{gen.PckCrlURL("platform"), gen.RootCrlURL} {
			der := w.Resp[u].Body
			pemOK := string(pem.EncodeToMemory(&pem.Block{Type: "X509 CRL", Bytes: der}))
			lines := strings.Split(strings.TrimSpace(pemOK), "\n")
			inner := strings.Join(lines[1:len(lines)-1], "\n")
			begin, end := "-----BEGIN X509 CRL-----", "-----END X509 CRL-----"
			shapes := map[string]string{
				"pem": pemOK, "pem-leading-blanks": "  \n\t" + pemOK, "pem-trailing-text": pemOK + "trailing\n", "pem-crlf": strings.ReplaceAll(pemOK, "\n", "\r\n"),
				"pem-markers-only": begin + "\n" + end + "\n", "pem-markers-one-line": begin + end, "pem-no-newline-at-end": strings.TrimSpace(pemOK),
				"pem-garbage-inside": begin + "\n!!!! this is not base64 !!!!\n" + end + "\n", "pem-html-inside": begin + "\n<html><body>502 Bad Gateway</body></html>\n" + end + "\n",
				"pem-one-char-damaged": begin + "\n" + strings.Replace(inner, inner[10:11], "*", 1) + "\n" + end + "\n", "pem-one-char-missing": begin + "\n" + inner[:20] + inner[21:] + "\n" + end + "\n",
				"pem-no-end": begin + "\n" + inner + "\n", "pem-no-begin": inner + "\n" + end + "\n", "pem-end-before-begin": end + "\n" + inner + "\n" + begin + "\n",
				"pem-with-headers": begin + "\nProc-Type: 4,ENCRYPTED\n\n" + inner + "\n" + end + "\n", "pem-other-type": strings.ReplaceAll(pemOK, "X509 CRL", "CERTIFICATE"),
				"pem-twice": pemOK + pemOK, "pem-of-garbage": string(pem.EncodeToMemory(&pem.Block{Type: "X509 CRL", Bytes: []byte{0x30, 0x82, 0xff, 0xff, 1, 2, 3}})), "pem-of-empty": string(pem.EncodeToMemory(&pem.Block{Type: "X509 CRL", Bytes: nil})),
				"html": "<html><body>404</body></html>", "der-with-begin-prefix": begin + "\n" + string(der), "begin-only": begin, "dashes": "-----", "blank": " \n", "empty": "",
				"base64-der": inner, "der-twice": string(der) + string(der), "der-trailing-byte": string(der) + "\x00",
			}
			names := make([]string, 0, len(shapes))
			for n := range shapes {
				names = append(names, n)
			}
			sort.Strings(names)
			for _, n := range names {
				i++
				if !gen.ShardOwns(i) {
					continue
				}
				saved := w.Resp[u]
				r := saved
				r.Body = []byte(shapes[n])
				w.Resp[u] = r
				o := w.Options(gen.LvlCRL, w.NewGetter(), nil)
				c10Call(t, "verify.RawTdxQuote+crl-body:"+n, w.CaseFile(gen.LvlCRL, nil, nil, nil, "nopanic"), func() error { return verify.RawTdxQuote(w.Raw, o) })
				w.Resp[u] = saved
				gen.NonTrivial("crl-shape", u, n)
				gen.Class("crl-body-shape")
				if i%7 == 0 {
					gen.Sample("crl-body-shape", n)
				}
			}
		}
		gen.Exhaustive("30 framings of the PCK CRL and Root CA CRL response bodies", true)
	})

	// (2c') several root-CRL distribution points answering with lists of different make: with and without a cRLNumber,
	// issuer names in another string type, one of them unreachable — in every order
	gen.Direct(t, "crl-distribution-point-mixes", func(t *testing.T) {
		dps := []string{gen.RootCrlURL, "https://crl.example.test/mirror-b.der", "https://crl.example.test/mirror-c.der"}
		i := 0
		for n := 2; n <= 3; n++ {
			p := gen.NewPKI(gen.PKISpec{Seed: fmt.Sprintf("c10-dp%d", n), RootCRLDP: dps[:n]})
			w := gen.NewWorld(p, gen.NewStream(gen.Seed()+80+uint64(n), "c10dp")).Build()
			spec := gen.CRLSpec{Revoked: [][]byte{{0x31, 0x32, 0x33}}}
			kinds := map[string]gen.Response{
				"numbered":          {Body: gen.MakeCRLByHand(p.Root, p.Root.Key, spec, nil, true)},
				"no-number":         {Body: gen.MakeCRLByHand(p.Root, p.Root.Key, spec, nil, false)},
				"no-number-utf8":    {Body: gen.MakeCRLByHand(p.Root, p.Root.Key, spec, gen.RawNameUTF8(p.Root.X.Subject), false)},
				"stdlib":            {Body: gen.MakeCRL(p.Root, p.Root.Key, spec)},
				"unreachable":       {Err: errors.New("scripted: unreachable")},
				"number-huge":       {Body: gen.MakeCRLByHand(p.Root, p.Root.Key, gen.CRLSpec{Number: 1<<62 - 2}, nil, true)},
				"empty-list-no-num": {Body: gen.MakeCRLByHand(p.Root, p.Root.Key, gen.CRLSpec{}, nil, false)},
			}
			names := make([]string, 0, len(kinds))
			for k := range kinds {
				names = append(names, k)
			}
			sort.Strings(names)
			var rec func(assign []string)
			rec = func(assign []string) {
				if len(assign) == n {
					i++
					if !gen.ShardOwns(i) {
						return
					}
					for di, u := range dps[:n] {
						w.Resp[u] = kinds[assign[di]]
					}
					o := w.Options(gen.LvlCRL, w.NewGetter(), nil)
					c10Call(t, "verify.RawTdxQuote+crl-distribution-points:"+strings.Join(assign, ","), w.CaseFile(gen.LvlCRL, nil, nil, nil, "nopanic"), func() error { return verify.RawTdxQuote(w.Raw, o) })
					gen.NonTrivial("dp-mix", strings.Join(assign, ","))
					gen.Class("crl-distribution-point-mix")
					if i%37 == 0 {
						gen.Sample("crl-distribution-point-mix", strings.Join(assign, ","))
					}
					return
				}
				for _, k := range names {
					rec(append(append([]string{}, assign...), k))
				}
			}
			rec(nil)
		}
		gen.Exhaustive("every assignment of 7 kinds of answer to 2 and to 3 root-CRL distribution points", true)
	})

	// (2d) certificates of unexpected kinds in the issuer-chain headers (nothing has authenticated them when they are
	// first looked at): RSA, Ed25519, P-384 keys, and certificates whose key algorithm the standard library does not know
	gen.Direct(t, "issuer-chain-certificate-kinds", func(t *testing.T) {
		w := gen.NewWorld(base.PKI, gen.NewStream(gen.Seed()+79, "c10hdr")).Build()
		odd := oddCertificates(t, w)
		names := make([]string, 0, len(odd))
		for n := range odd {
			names = append(names, n)
		}
		sort.Strings(names)
		i := 0
		for _, u := range []string{gen.TcbInfoURL(w.FmspcHex()), gen.QeIdentityURL, gen.PckCrlURL("platform")} {
			hk := map[string]string{gen.TcbInfoURL(w.FmspcHex()): gen.HdrTcbInfo, gen.QeIdentityURL: gen.HdrQeID, gen.PckCrlURL("platform"): gen.HdrPckCrl}[u]
			first := w.PKI.TcbSig
			if hk == gen.HdrPckCrl {
				first = w.PKI.Int
			}
			for _, n := range names {
				for pos := 0; pos < 3; pos++ {
					i++
					if !gen.ShardOwns(i) {
						continue
					}
					var chain string
					switch pos {
					case 0:
						chain = string(odd[n]) + string(w.PKI.Root.PEM)
					case 1:
						chain = string(first.PEM) + string(odd[n])
					default:
						chain = string(odd[n]) + string(odd[n])
					}
					saved := w.Resp[u]
					r := saved
					r.Header = map[string][]string{hk: {url.QueryEscape(chain)}}
					w.Resp[u] = r
					for _, l := range []gen.Level{gen.LvlColl, gen.LvlCRL} {
						o := w.Options(l, w.NewGetter(), nil)
						c10Call(t, "verify.RawTdxQuote+issuer-chain:"+n, w.CaseFile(l, nil, nil, nil, "nopanic"), func() error { return verify.RawTdxQuote(w.Raw, o) })
					}
					w.Resp[u] = saved
					gen.NonTrivial("hdr-cert", u, n, pos)
					gen.Class("issuer-chain-certificate-kind")
					if i%11 == 0 {
						gen.Sample("issuer-chain-certificate-kind", map[string]any{"header": hk, "certificate": n, "position": pos})
					}
				}
			}
		}
		gen.Exhaustive("three issuer-chain headers x certificate kinds x position (signer, root, both)", true)
	})

	// (3) random: mutated raw quotes, random message edits, arbitrary collateral, arbitrary SGX extension DER.
	gen.Prop(t, "random-inputs", gen.N(2500, 200000), func(t *rapid.T) {
		s := gen.NewStream(rapid.Uint64().Draw(t, "content"), "c10r")
		kind := rapid.SampledFrom([]string{"raw-mutant", "message-multi-mutation", "collateral-json-signed", "collateral-json-unsigned", "collateral-bytes", "crl-bytes", "header-junk", "sgx-ext-der", "sgx-ext-in-leaf"}).Draw(t, "kind")
		gen.Class("kind:" + kind)
		switch kind {
		case "raw-mutant":
			b := append([]byte{}, base.Raw...)
			for i, n := 0, rapid.IntRange(1, 6).Draw(t, "edits"); i < n && len(b) > 1; i++ {
				pos := rapid.IntRange(0, len(b)-1).Draw(t, "pos")
				switch rapid.IntRange(0, 3).Draw(t, "op") {
				case 0:
					b[pos] = rapid.Byte().Draw(t, "b")
				case 1:
					b = b[:pos]
				case 2:
					b = append(b[:pos], b[pos+1:]...)
				case 3:
					b = append(b[:pos], append(s.Bytes(rapid.IntRange(1, 9).Draw(t, "n")), b[pos:]...)...)
				}
			}
			rawEntryPoints(t, base, b, map[string]any{"kind": "crash-raw", "raw_hex": hex.EncodeToString(b)})
			if len(b) >= 1020 {
				gen.NonTrivial(b)
			}
		case "message-multi-mutation":
			valid := base.Q.ToProto()
			muts := structuralMutations(valid)
			m := proto.Clone(valid).(*pb.QuoteV4)
			var names []string
			for i, n := 0, rapid.IntRange(2, 4).Draw(t, "n"); i < n; i++ {
				mu := muts[rapid.IntRange(0, len(muts)-1).Draw(t, "mut")]
				func() {
					defer func() { _ = recover() }() // a path cleared by an earlier mutation: skip
					mu.Apply(m)
					names = append(names, mu.Name)
				}()
			}
			b, _ := proto.Marshal(m)
			messageEntryPoints(t, base, m, map[string]any{"kind": "crash-message", "proto_hex": hex.EncodeToString(b), "mutation": strings.Join(names, "+")}, nil, nil)
			gen.NonTrivial("multi", strings.Join(names, "+"))
		case "collateral-json-signed", "collateral-json-unsigned", "collateral-bytes", "crl-bytes", "header-junk":
			w := gen.NewWorld(base.PKI, gen.NewStream(s.Uint64(), "c10w")).Build()
			k := rapid.SampledFrom([]c03Kind{kindTcb, kindQe}).Draw(t, "which")
			desc := kind
			switch kind {
			case "collateral-json-signed":
				doc := jsonMutate(t, k.render(w))
				w.Resp[k.url(w)] = gen.Response{Header: w.Resp[k.url(w)].Header, Body: gen.SignedBody(k.member, doc, k.signer(w).Key)}
				desc += ": " + string(doc[:min(len(doc), 200)])
			case "collateral-json-unsigned":
				body := jsonMutate(t, w.Resp[k.url(w)].Body)
				w.Resp[k.url(w)] = gen.Response{Header: w.Resp[k.url(w)].Header, Body: body}
			case "collateral-bytes":
				r := w.Resp[k.url(w)]
				switch rapid.IntRange(0, 3).Draw(t, "shape") {
				case 0:
					r.Body = s.Bytes(rapid.IntRange(0, 300).Draw(t, "n"))
				case 1:
					r.Body = r.Body[:rapid.IntRange(0, len(r.Body)).Draw(t, "cut")]
				case 2:
					r.Body = []byte(rapid.SampledFrom([]string{"", "null", "[]", "{}", `{"tcbInfo":null,"signature":null}`, `{"tcbInfo":{},"signature":""}`, `{"enclaveIdentity":[],"signature":"00"}`, `"x"`, "0", `{"tcbInfo":{"tcbLevels":[null]},"signature":"` + strings.Repeat("0", 128) + `"}`, strings.Repeat("[", 5000), `{"tcbInfo":` + strings.Repeat(`{"a":`, 2000) + "1" + strings.Repeat("}", 2000) + "}"}).Draw(t, "lit"))
				case 3:
					r.Body = nil
				}
				w.Resp[k.url(w)] = r
			case "crl-bytes":
				u := rapid.SampledFrom([]string{gen.PckCrlURL("platform"), gen.RootCrlURL}).Draw(t, "crl")
				r := w.Resp[u]
				switch rapid.IntRange(0, 3).Draw(t, "shape") {
				case 0:
					r.Body = s.Bytes(rapid.IntRange(0, 300).Draw(t, "n"))
				case 1:
					r.Body = r.Body[:rapid.IntRange(0, len(r.Body)).Draw(t, "cut")]
				case 2:
					b := append([]byte{}, r.Body...)
					b[rapid.IntRange(0, len(b)-1).Draw(t, "pos")] = rapid.Byte().Draw(t, "b")
					r.Body = b
				case 3:
					r.Body, r.Err = nil, nil
				}
				w.Resp[u] = r
			case "header-junk":
				u := rapid.SampledFrom([]string{k.url(w), gen.PckCrlURL("platform")}).Draw(t, "hdrOf")
				r := w.Resp[u]
				hk := k.hdr
				if u == gen.PckCrlURL("platform") {
					hk = gen.HdrPckCrl
				}
				good := r.Header[hk][0]
				val := rapid.SampledFrom([]string{"", "%zz", "%", good[:len(good)/2], good[:40], "-----BEGIN%20CERTIFICATE-----%0A-----END%20CERTIFICATE-----%0A", strings.Repeat("A", 5000), good + good, "-----BEGIN CERTIFICATE-----\nAAAA\n-----END CERTIFICATE-----\n", strings.Replace(good, "CERTIFICATE", "X", 1)}).Draw(t, "hdrVal")
				switch rapid.IntRange(0, 3).Draw(t, "hdrShape") {
				case 0:
					r.Header = map[string][]string{hk: {val}}
				case 1:
					r.Header = nil
				case 2:
					r.Header = map[string][]string{hk: nil}
				case 3:
					r.Header = map[string][]string{hk: {val, val}}
				}
				w.Resp[u] = r
			}
			rp := w.CaseFile(gen.LvlCRL, nil, nil, nil, "nopanic")
			for _, l := range []gen.Level{gen.LvlColl, gen.LvlCRL} {
				o := w.Options(l, w.NewGetter(), nil)
				rp["level"] = int(l)
				c10Call(t, "verify.RawTdxQuote+"+kind, rp, func() error { return verify.RawTdxQuote(w.Raw, o) })
				thenSupported(t, w, o, kind, rp)
			}
			gen.NonTrivial(desc, w.Resp[k.url(w)].Body, fmt.Sprint(w.Resp[k.url(w)].Header))
		case "sgx-ext-der", "sgx-ext-in-leaf":
			v := drawSgxValues(t, s)
			top := gen.SgxTree(v)
			var der []byte
			if cat := rapid.IntRange(0, 2).Draw(t, "catalogue"); cat == 0 {
				der, _, _ = c13Mutate(t, rapid.SampledFrom(c13Malformations).Draw(t, "variant"), top, s)
			} else if cat == 1 {
				der = c13Oddity(t, rapid.SampledFrom(c13Oddities).Draw(t, "oddity"), top)
			} else {
				der = top.Encode()
				for i, n := 0, rapid.IntRange(1, 4).Draw(t, "edits"); i < n; i++ {
					pos := rapid.IntRange(0, len(der)-1).Draw(t, "pos")
					der[pos] = rapid.Byte().Draw(t, "b")
				}
				if rapid.IntRange(0, 4).Draw(t, "rand") == 0 {
					der = s.Bytes(rapid.IntRange(0, 100).Draw(t, "n"))
				}
			}
			rp := map[string]any{"kind": "sgxext", "sgx_hex": hex.EncodeToString(der), "n_ext": 6, "pos": 5, "include": true, "expect": "nopanic"}
			if kind == "sgx-ext-der" {
				c10Call(t, "pcs.PckCertificateExtensions", rp, func() error { _, err := pcs.PckCertificateExtensions(certWith(der, 6, 5, true)); return err })
				c10Call(t, "pcs.PckCertificateExtensions(no extensions)", rp, func() error { _, err := pcs.PckCertificateExtensions(&x509.Certificate{}); return err })
			} else {
				w := gen.NewWorld(base.PKI, gen.NewStream(s.Uint64(), "c10x"))
				w.SgxDER = der
				w.LeafSpec.KeyLabel = "c10/leaf/" + hex.EncodeToString(s.Bytes(4))
				ok := true
				func() {
					defer func() {
						if recover() != nil {
							ok = false // the standard library refuses to issue a certificate with this extension
						}
					}()
					w.Build()
				}()
				if ok {
					o := w.Options(gen.LvlColl, w.NewGetter(), nil)
					c10Call(t, "verify.RawTdxQuote+sgx-ext", w.CaseFile(gen.LvlColl, nil, nil, nil, "nopanic"), func() error { return verify.RawTdxQuote(w.Raw, o) })
				}
			}
			gen.NonTrivial("sgx", der)
		}
	})
	_ = errors.New
}

// oddCertificates returns PEM certificates of kinds the verifier does not expect in an issuer chain.
func oddCertificates(t gen.TB, w *gen.World) map[string][]byte {
	out := map[string][]byte{}
	mk := func(name string, pub any, priv any) {
		tmpl := &x509.Certificate{SerialNumber: big.NewInt(77), Subject: w.PKI.Root.X.Subject, NotBefore: gen.Wide.NotBefore, NotAfter: gen.Wide.NotAfter, IsCA: true, BasicConstraintsValid: true, KeyUsage: x509.KeyUsageCertSign | x509.KeyUsageCRLSign}
		der, err := x509.CreateCertificate(rand.Reader, tmpl, tmpl, pub, priv)
		if err != nil {
			gen.HarnessError(t, "cannot create the %s certificate: %v", name, err)
		}
		out[name] = pem.EncodeToMemory(&pem.Block{Type: "CERTIFICATE", Bytes: der})
	}
	rk, err := rsa.GenerateKey(rand.Reader, 1024)
	if err != nil {
		gen.HarnessError(t, "rsa: %v", err)
	}
	mk("rsa-root", &rk.PublicKey, rk)
	ep, es, _ := ed25519.GenerateKey(rand.Reader)
	mk("ed25519-root", ep, es)
	p384, _ := ecdsa.GenerateKey(elliptic.P384(), rand.Reader)
	mk("p384-root", &p384.PublicKey, p384)
	// the genuine root / signer / intermediate with the key-algorithm identifier altered to one nobody knows
	// (1.2.840.10045.2.1 -> 1.2.840.10045.2.9) and, separately, the named curve altered
	for name, c := range map[string]*gen.Cert{"root": w.PKI.Root, "signer": w.PKI.TcbSig, "intermediate": w.PKI.Int} {
		for kind, oid := range map[string][2][]byte{
			"unknown-key-algorithm": {{0x2a, 0x86, 0x48, 0xce, 0x3d, 0x02, 0x01}, {0x2a, 0x86, 0x48, 0xce, 0x3d, 0x02, 0x09}},
			"unknown-curve":         {{0x2a, 0x86, 0x48, 0xce, 0x3d, 0x03, 0x01, 0x07}, {0x2a, 0x86, 0x48, 0xce, 0x3d, 0x03, 0x01, 0x09}},
		} {
			der := append([]byte{}, c.DER...)
			if i := bytes.Index(der, oid[0]); i >= 0 {
				copy(der[i:], oid[1])
				out[name+"-with-"+kind] = pem.EncodeToMemory(&pem.Block{Type: "CERTIFICATE", Bytes: der})
			}
		}
	}
	return out
}

func min(a, b int) int {
	if a < b {
		return a
	}
	return b
}

func init() {
	replayKinds["crash-raw"] = func(c map[string]any) string {
		b, _ := hex.DecodeString(c["raw_hex"].(string))
		w := gen.NewWorld(gen.NewPKI(gen.PKISpec{Seed: "pki-A"}), gen.NewStream(1, "c10")).Build()
		var msg string
		rawEntryPoints(failRecorder{&msg}, w, b, c)
		return msg
	}
	replayKinds["crash-message"] = func(c map[string]any) string {
		b, _ := hex.DecodeString(c["proto_hex"].(string))
		m := &pb.QuoteV4{}
		if err := proto.Unmarshal(b, m); err != nil {
			return "bad replay message"
		}
		if c["empty_extra_bytes"] == true {
			m.ExtraBytes = []byte{}
		}
		w := gen.NewWorld(gen.NewPKI(gen.PKISpec{Seed: "pki-A"}), gen.NewStream(1, "c10")).Build()
		var msg string
		messageEntryPoints(failRecorder{&msg}, w, m, c, nil, nil)
		return msg
	}
	replayKinds["crash-degenerate"] = func(c map[string]any) string {
		w := gen.NewWorld(gen.NewPKI(gen.PKISpec{Seed: "pki-A"}), gen.NewStream(1, "c10")).Build()
		var msg string
		for _, m := range []any{&pb.QuoteV4{}, (*pb.QuoteV4)(nil), nil, &pb.Header{}, "quote", 42} {
			if fmt.Sprintf("%T", m) == c["type"] {
				messageEntryPoints(failRecorder{&msg}, w, m, c, nil, nil)
			}
		}
		return msg
	}
}

// failRecorder turns gen.Fail into a recorded message (for replays).
type failRecorder struct{ msg *string }

func (f failRecorder) Fatalf(format string, args ...any) {
	if *f.msg == "" {
		*f.msg = fmt.Sprintf(format, args...)
	}
}

type roundTripFunc func(req *http.Request) (*http.Response, error)

func (f roundTripFunc) RoundTrip(req *http.Request) (*http.Response, error) { return f(req) }
