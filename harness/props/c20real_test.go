package props

import (
	"errors"
	"fmt"
	"os"
	"os/exec"
	"reflect"
	"runtime/debug"
	"strings"
	"testing"
	"time"

	"github.com/google/go-tdx-guest/verify/trust"
	"verifharness/gen"
)

// Real-clock cases for C20 on the default toolchain (the virtual-clock model lives in harness26).
// Lower bounds are exact (a timer never fires early); upper bounds carry generous slack and an
// overrun is reported as inconclusive, never as a violation.

type realGetter struct {
	successAt int
	dur       time.Duration
	starts    []time.Time
	ends      []time.Time
	header    map[string][]string
	body      []byte
}

func (g *realGetter) Get(string) (map[string][]string, []byte, error) {
	g.starts = append(g.starts, time.Now())
	if g.dur > 0 {
		time.Sleep(g.dur)
	}
	g.ends = append(g.ends, time.Now())
	if len(g.starts) == g.successAt {
		return g.header, g.body, nil
	}
	return nil, nil, errors.New("scripted failure")
}

// TestC20StackChild runs in a process of its own (started by TestC20Real): MaxRetryDelay 0 and a wrapped getter that
// fails at once, for ever - the getter retries as fast as it can until the timeout and then returns an error. The
// process runs with a 32 MiB goroutine stack limit (runtime/debug.SetMaxStack; the default is 1 GiB on 64-bit and
// 250 MiB on 32-bit machines): however many attempts are made, the call needs no more stack than one attempt.
func TestC20StackChild(t *testing.T) {
	to := os.Getenv("VERIF_C20_STACK_CHILD")
	if to == "" {
		t.Skip("runs as a child process of TestC20Real")
	}
	timeout, err := time.ParseDuration(to)
	if err != nil {
		t.Fatal(err)
	}
	debug.SetMaxStack(32 << 20)
	n := 0
	g := getterFunc(func(string) (map[string][]string, []byte, error) { n++; return nil, nil, errors.New("refused") })
	r := &trust.RetryHTTPSGetter{Timeout: timeout, MaxRetryDelay: 0, Getter: g}
	t0 := time.Now()
	_, _, gerr := r.Get("https://example.test/stack")
	fmt.Printf("C20CHILD returned err=%v attempts=%d elapsed=%v\n", gerr != nil, n, time.Since(t0).Round(time.Millisecond))
}

func c20StackChild(to string) (string, error) {
	cmd := exec.Command(os.Args[0], "-test.run", "^TestC20StackChild$", "-test.count=1", "-test.timeout=120s")
	cmd.Env = append(os.Environ(), "VERIF_C20_STACK_CHILD="+to, "VERIF_FUZZ=1", "VERIF_REPLAY_FILE=")
	out, err := cmd.CombinedOutput()
	return string(out), err
}

func init() {
	replayKinds["real-clock-retry-stack"] = func(c map[string]any) string {
		to, _ := c["timeout"].(string)
		txt, _ := c20StackChild(to)
		if strings.Contains(txt, "stack overflow") || strings.Contains(txt, "stack exceeds") || strings.Contains(txt, "C20CHILD returned err=false") {
			return "the retrying getter's process died (or returned no error) again: " + strings.Join(strings.Fields(fmt.Sprintf("%.200s", txt)), " ")
		}
		return ""
	}
}

type getterFunc func(string) (map[string][]string, []byte, error)

func (f getterFunc) Get(u string) (map[string][]string, []byte, error) { return f(u) }

func TestC20Real(t *testing.T) {
	gen.Direct(t, "many-fast-failures-in-a-process-of-its-own", func(t *testing.T) {
		for i, to := range []string{"300ms", "3s"} {
			_ = i
			txt, err := c20StackChild(to)
			gen.Eval()
			desc := fmt.Sprintf("real clock, own process with a 32 MiB stack limit: timeout=%s maxRetryDelay=0 and a wrapped getter that fails at once, for ever", to)
			switch {
			case strings.Contains(txt, "C20CHILD returned err=true"):
				line := txt[strings.Index(txt, "C20CHILD"):]
				gen.NonTrivial("real-stack", to)
				gen.Class("real-clock-many-fast-failures")
				gen.Sample("real-clock-stack", desc+": "+strings.SplitN(line, "\n", 2)[0])
			case strings.Contains(txt, "stack overflow") || strings.Contains(txt, "stack exceeds"):
				first := txt
				if j := strings.Index(txt, "goroutine "); j > 0 {
					first = txt[:j]
				}
				gen.Fail(t, gen.Violation{Key: "real-clock-crash-instead-of-error", Oracle: "when the wrapped getter keeps failing the retrying getter returns an error", Detail: desc + ": the process died: " + strings.Join(strings.Fields(first), " "), Replay: map[string]any{"kind": "real-clock-retry-stack", "timeout": to}})
				return
			case strings.Contains(txt, "C20CHILD returned err=false"):
				gen.Fail(t, gen.Violation{Key: "real-clock-success-from-nothing", Oracle: "when the wrapped getter keeps failing the retrying getter returns an error", Detail: desc + ": nil error", Replay: map[string]any{"kind": "real-clock-retry-stack", "timeout": to}})
				return
			default:
				gen.Inconclusive(fmt.Sprintf("%s: the child process ended without a verdict (%v): %.200s", desc, err, txt))
			}
		}
	})
	const slack = 5 * time.Second
	type rc struct {
		timeout, max, dur time.Duration
		successAt         int
	}
	cases := []rc{
		{400 * time.Millisecond, 20 * time.Millisecond, 0, 1},
		{400 * time.Millisecond, 20 * time.Millisecond, 0, 2},
		{400 * time.Millisecond, 20 * time.Millisecond, 0, 5},
		{600 * time.Millisecond, 30 * time.Millisecond, 5 * time.Millisecond, 8},
		{300 * time.Millisecond, 25 * time.Millisecond, 0, 0},
		{200 * time.Millisecond, 50 * time.Millisecond, 10 * time.Millisecond, 0},
		{100 * time.Millisecond, 0, 2 * time.Millisecond, 0},
		// failing attempts that take longer than the wait that follows them
		{700 * time.Millisecond, 20 * time.Millisecond, 60 * time.Millisecond, 0},
		{900 * time.Millisecond, 30 * time.Millisecond, 90 * time.Millisecond, 6},
		{0, 20 * time.Millisecond, 0, 1},
		{0, 20 * time.Millisecond, 0, 0},
	}
	gen.Direct(t, "real-clock", func(t *testing.T) {
		for i, c := range cases {
			g := &realGetter{successAt: c.successAt, dur: c.dur, header: map[string][]string{"X-Attempt": {fmt.Sprint(c.successAt)}}, body: []byte(fmt.Sprintf("body-%d", i))}
			r := &trust.RetryHTTPSGetter{Timeout: c.timeout, MaxRetryDelay: c.max, Getter: g}
			desc := fmt.Sprintf("real clock: timeout=%v maxRetryDelay=%v attemptDuration=%v successAt=%d", c.timeout, c.max, c.dur, c.successAt)
			done := make(chan struct{})
			var h map[string][]string
			var b []byte
			var err error
			t0 := time.Now()
			go func() { h, b, err = r.Get("https://example.test/real"); close(done) }()
			select {
			case <-done:
			case <-time.After(c.timeout + c.max + 2*c.dur + 30*time.Second):
				gen.Fail(t, gen.Violation{Key: "real-clock-hang", Oracle: "the retrying getter gives up in bounded time", Detail: desc + ": no return 30 s after the bound", Replay: map[string]any{"kind": "real-clock-retry"}})
				return
			}
			elapsed := time.Since(t0)
			gen.Eval()
			rp := map[string]any{"kind": "real-clock-retry", "case": i}
			// exact lower bounds: every wait lasts at least min(MaxRetryDelay, 4s) when MaxRetryDelay > 0 ... and never more than MaxRetryDelay (+ slack)
			for j := 1; j < len(g.starts); j++ {
				gap := g.starts[j].Sub(g.ends[j-1])
				if c.max > 0 && gap < c.max && c.max <= 4*time.Second {
					gen.Fail(t, gen.Violation{Key: "real-clock-wait-too-short", Oracle: "between failed attempts the getter waits (no busy loop)", Detail: fmt.Sprintf("%s: wait %d lasted %v", desc, j, gap), Replay: rp})
					return
				}
				if gap > c.max+slack {
					gen.Inconclusive(fmt.Sprintf("%s: wait %d lasted %v (machine too busy to judge the upper bound)", desc, j, gap))
					continue
				}
			}
			if err == nil {
				if c.successAt == 0 || len(g.starts) != c.successAt || !reflect.DeepEqual(h, g.header) || string(b) != string(g.body) {
					gen.Fail(t, gen.Violation{Key: "real-clock-wrong-success", Oracle: "the first successful response is returned intact", Detail: fmt.Sprintf("%s: %d attempts, header %v", desc, len(g.starts), h), Replay: rp})
					return
				}
			} else {
				if c.successAt != 0 && len(g.starts) >= c.successAt {
					gen.Fail(t, gen.Violation{Key: "real-clock-success-discarded", Oracle: "the first successful response is returned", Detail: desc, Replay: rp})
					return
				}
				if elapsed > c.timeout+c.max+2*c.dur+slack {
					gen.Inconclusive(fmt.Sprintf("%s: error after %v (machine too busy to judge the upper bound)", desc, elapsed))
				}
				if c.successAt != 0 && time.Duration(c.successAt-1)*(c.dur+c.max)+c.dur+slack < c.timeout {
					gen.Fail(t, gen.Violation{Key: "real-clock-gives-up-early", Oracle: "retries continue while the timeout allows", Detail: fmt.Sprintf("%s: error after %d attempts at %v", desc, len(g.starts), elapsed), Replay: rp})
					return
				}
			}
			n0 := len(g.starts)
			time.Sleep(3 * c.max)
			if len(g.starts) != n0 {
				gen.Fail(t, gen.Violation{Key: "real-clock-attempt-after-return", Oracle: "no further attempt after the call returned", Detail: desc, Replay: rp})
				return
			}
			gen.NonTrivial("real", desc)
			gen.Class("real-clock-case")
			gen.Sample("real-clock", desc)
		}
	})
}
