package props

import (
	"bytes"
	"crypto"
	"crypto/sha512"
	"errors"
	"fmt"
	"github.com/google/go-configfs-tsm/configfs/configfsi"
	"io"
	"io/fs"
	"math"
	"os"
	"path"
	"sort"
	"strconv"
	"strings"
	"syscall"
	"testing"
	"time"

	"github.com/google/go-tdx-guest/rtmr"
	"pgregory.net/rapid"
	"verifharness/gen"
)

const tsmRoot = "/sys/kernel/config/tsm/rtmrs"

type tsmEntry struct {
	bound    bool
	index    int
	junk     []byte // content of the index file when not bound
	register [48]byte
	isFile   bool // a plain file in the directory, not an entry
}

type tsmOp struct {
	op, path string
	data     []byte
}

// modelTSM is an in-memory configfs TSM RTMR subsystem that records every operation.
type modelTSM struct {
	entries map[string]*tsmEntry
	ops     []tsmOp
	counter int
	// failOnce makes the next operation of that kind ("mkdirtemp", "readdir", "readfile:index", "writefile:index",
	// "writefile:digest") fail with a transient I/O error without doing anything; it is cleared when it has struck
	failOnce  string
	failLeft  int   // how many operations of that kind fail in a row (0 = one)
	failErr   error // the error they fail with (nil = errTransient)
	struck    int
	strikeErr error // the error the operation that has just struck returns
	// afterReadDir runs once, right after the next successful listing of the directory (another process acting between
	// the library's listing and its next step)
	afterReadDir func()
	// strayDigest lists attempted digest writes to entries that are not bound (the TSM refuses them)
	strayDigest []string
	// freshIndex is what the index attribute of a newly made, not yet bound entry reads as
	freshIndex []byte
}

var errTransient = errors.New("modelTSM: EIO (transient)")

func (m *modelTSM) strikes(kind string) bool {
	if m.failOnce == kind {
		m.struck++
		if m.failLeft > 1 {
			m.failLeft--
		} else {
			m.failOnce = ""
		}
		m.rec("failed:"+kind, "", nil)
		m.strikeErr = errTransient
		if m.failErr != nil {
			m.strikeErr = m.failErr
		}
		return true
	}
	return false
}

// tsmValueClient is a client used BY VALUE whose type holds a map and a func (a legal configfsi.Client; it cannot be a
// map key and cannot be compared).
type tsmValueClient struct {
	m     *modelTSM
	notes map[string]string
	hook  func()
}

func (h tsmValueClient) MkdirTemp(dir, pattern string) (string, error) {
	return h.m.MkdirTemp(dir, pattern)
}
func (h tsmValueClient) ReadFile(name string) ([]byte, error)          { return h.m.ReadFile(name) }
func (h tsmValueClient) ReadDir(dirname string) ([]os.DirEntry, error) { return h.m.ReadDir(dirname) }
func (h tsmValueClient) WriteFile(name string, contents []byte) error {
	return h.m.WriteFile(name, contents)
}
func (h tsmValueClient) RemoveAll(p string) error { return h.m.RemoveAll(p) }

// tsmHandle is a client value of its own in front of a shared model TSM (two handles = two users of one TSM).
type tsmHandle struct{ m *modelTSM }

func (h *tsmHandle) MkdirTemp(dir, pattern string) (string, error) {
	return h.m.MkdirTemp(dir, pattern)
}
func (h *tsmHandle) ReadFile(name string) ([]byte, error)          { return h.m.ReadFile(name) }
func (h *tsmHandle) ReadDir(dirname string) ([]os.DirEntry, error) { return h.m.ReadDir(dirname) }
func (h *tsmHandle) WriteFile(name string, contents []byte) error {
	return h.m.WriteFile(name, contents)
}
func (h *tsmHandle) RemoveAll(p string) error { return h.m.RemoveAll(p) }

var tcgMaps = map[int]string{0: "1,7\n", 1: "2-6\n", 2: "8-15\n", 3: "\n"}

type dirEnt struct {
	name  string
	isDir bool
}

func (d dirEnt) Name() string { return d.name }
func (d dirEnt) IsDir() bool  { return d.isDir }
func (d dirEnt) Type() fs.FileMode {
	if d.isDir {
		return fs.ModeDir
	}
	return 0
}
func (d dirEnt) Info() (fs.FileInfo, error) { return nil, errors.New("no info") }

func (m *modelTSM) rec(op, p string, data []byte) {
	m.ops = append(m.ops, tsmOp{op, p, append([]byte(nil), data...)})
}

func (m *modelTSM) split(p string) (entry, attr string, ok bool) {
	p = path.Clean(p)
	if !strings.HasPrefix(p, tsmRoot+"/") {
		return "", "", false
	}
	rest := strings.TrimPrefix(p, tsmRoot+"/")
	parts := strings.Split(rest, "/")
	if len(parts) == 1 {
		return parts[0], "", true
	}
	if len(parts) == 2 {
		return parts[0], parts[1], true
	}
	return "", "", false
}

func (m *modelTSM) MkdirTemp(dir, pattern string) (string, error) {
	if m.strikes("mkdirtemp") {
		return "", m.strikeErr
	}
	m.rec("mkdirtemp", dir+"|"+pattern, nil)
	if path.Clean(dir) != tsmRoot {
		return "", fmt.Errorf("modelTSM: mkdir outside %s: %s", tsmRoot, dir)
	}
	m.counter++
	name := strings.Replace(pattern, "*", "", 1) + fmt.Sprintf("%010d", m.counter)
	fresh := m.freshIndex
	if fresh == nil {
		fresh = []byte("-1\n")
	}
	m.entries[name] = &tsmEntry{junk: fresh}
	return path.Join(tsmRoot, name), nil
}

func (m *modelTSM) ReadFile(name string) ([]byte, error) {
	m.rec("readfile", name, nil)
	e, attr, ok := m.split(name)
	ent := m.entries[e]
	if !ok || ent == nil || ent.isFile {
		return nil, os.ErrNotExist
	}
	if attr == "index" && m.strikes("readfile:index") {
		return nil, m.strikeErr
	}
	switch attr {
	case "index":
		if ent.bound {
			return []byte(strconv.Itoa(ent.index) + "\n"), nil
		}
		if ent.junk == nil {
			return nil, errors.New("modelTSM: index not readable")
		}
		return ent.junk, nil
	case "digest":
		return append([]byte{}, ent.register[:]...), nil
	case "tcg_map":
		if ent.bound {
			if tm, ok := tcgMaps[ent.index]; ok {
				return []byte(tm), nil // what the kernel (and the dependency's fake) serve: RTMR3 maps to no PCR
			}
			return []byte("\n"), nil
		}
		return []byte{}, nil
	}
	return nil, os.ErrNotExist
}

func (m *modelTSM) ReadDir(dirname string) ([]os.DirEntry, error) {
	if m.strikes("readdir") {
		return nil, m.strikeErr
	}
	m.rec("readdir", dirname, nil)
	if path.Clean(dirname) != tsmRoot {
		return nil, os.ErrNotExist
	}
	var names []string
	for n := range m.entries {
		names = append(names, n)
	}
	sort.Strings(names)
	var out []os.DirEntry
	for _, n := range names {
		out = append(out, dirEnt{n, !m.entries[n].isFile})
	}
	if f := m.afterReadDir; f != nil {
		m.afterReadDir = nil
		f()
	}
	return out, nil
}

func (m *modelTSM) WriteFile(name string, contents []byte) error {
	if _, attr, _ := m.split(name); (attr == "index" || attr == "digest") && m.strikes("writefile:"+attr) {
		return m.strikeErr
	}
	m.rec("writefile", name, contents)
	e, attr, ok := m.split(name)
	ent := m.entries[e]
	if !ok || ent == nil || ent.isFile {
		return os.ErrNotExist
	}
	switch attr {
	case "index":
		if ent.bound {
			return &fs.PathError{Op: "write", Path: name, Err: syscall.EBUSY} // entry already bound
		}
		idx, err := strconv.Atoi(strings.TrimSpace(string(contents)))
		if err != nil || idx < 0 {
			return &fs.PathError{Op: "write", Path: name, Err: syscall.EINVAL}
		}
		for _, o := range m.entries {
			if o.bound && o.index == idx {
				return &fs.PathError{Op: "write", Path: name, Err: syscall.EBUSY} // index bound elsewhere
			}
		}
		ent.bound, ent.index = true, idx
		return nil
	case "digest":
		if !ent.bound {
			m.strayDigest = append(m.strayDigest, e)
			return &fs.PathError{Op: "write", Path: name, Err: syscall.ENXIO} // digest write to an unbound entry
		}
		if len(contents) != 48 {
			return &fs.PathError{Op: "write", Path: name, Err: syscall.EINVAL}
		}
		h := sha512.New384()
		h.Write(ent.register[:])
		h.Write(contents)
		copy(ent.register[:], h.Sum(nil))
		return nil
	}
	return os.ErrPermission
}

func (m *modelTSM) RemoveAll(p string) error {
	m.rec("removeall", p, nil)
	e, _, ok := m.split(p)
	if ok {
		delete(m.entries, e)
	}
	return nil
}

func (m *modelTSM) mutations(from int) []tsmOp {
	var out []tsmOp
	for _, o := range m.ops[from:] {
		if o.op == "mkdirtemp" || o.op == "writefile" || o.op == "removeall" {
			out = append(out, o)
		}
	}
	return out
}

func (m *modelTSM) boundEntry(idx int) (string, *tsmEntry) {
	for n, e := range m.entries {
		if e.bound && e.index == idx {
			return n, e
		}
	}
	return "", nil
}

func extendChain(reg [48]byte, d []byte) [48]byte {
	h := sha512.New384()
	h.Write(reg[:])
	h.Write(d)
	var out [48]byte
	copy(out[:], h.Sum(nil))
	return out
}

func TestC17(t *testing.T) {
	replayDir(t, "C17")
	idxGen := rapid.OneOf(rapid.IntRange(0, 3), rapid.IntRange(0, 3), rapid.IntRange(0, 1), rapid.IntRange(-1, 5), rapid.SampledFrom([]int{math.MinInt, -1, 4, 5, math.MaxInt32, math.MaxInt}))
	lenGen := rapid.OneOf(rapid.Just(48), rapid.Just(48), rapid.Just(48), rapid.Just(48), rapid.IntRange(0, 64), rapid.SampledFrom([]int{0, 32, 47, 49, 64, 96}))
	hashGen := rapid.SampledFrom([]crypto.Hash{crypto.SHA384, crypto.SHA384, crypto.SHA384, crypto.SHA384, crypto.SHA384, crypto.SHA384, crypto.SHA384, crypto.SHA384, crypto.SHA256, crypto.SHA512, crypto.SHA1, crypto.Hash(0), crypto.SHA3_384})
	// event logs of 16 MiB and a little more: the digest extended is that of the WHOLE log (two logs that agree on their
	// first 16 MiB are different logs)
	gen.Direct(t, "large-event-logs", func(t *testing.T) {
		for i, n := range []int{16<<20 - 1, 16 << 20, 16<<20 + 1, 16<<20 + 4096, 33 << 20} {
			if !gen.ShardOwns(i) {
				continue
			}
			s := gen.NewStream(gen.Seed()+uint64(i), "c17big")
			log := bytes.Repeat(s.Bytes(64), n/64+1)[:n]
			copy(log[n-8:], s.Bytes(8))
			m := &modelTSM{entries: map[string]*tsmEntry{}}
			idx := i % 4
			gen.Eval()
			v := gen.Call(func() error { return rtmr.ExtendEventLogClient(m, idx, crypto.SHA384, log) })
			sum := sha512.Sum384(log)
			var dw []tsmOp
			for _, o := range m.mutations(0) {
				if o.op == "writefile" && strings.HasSuffix(o.path, "/digest") {
					dw = append(dw, o)
				}
			}
			gen.NonTrivial("biglog", n)
			gen.Class("large-event-log")
			if !v.Accepted() || len(dw) != 1 || !bytes.Equal(dw[0].data, sum[:]) {
				gen.Fail(t, gen.Violation{Key: "wrong-digest-written:large-log", Oracle: "exactly the given digest (or SHA-384 of the log) is extended", Detail: fmt.Sprintf("event log of %d bytes: %s, %d digest writes, digest of the whole log written=%v", n, v, len(dw), len(dw) == 1 && bytes.Equal(dw[0].data, sum[:])), Replay: map[string]any{"kind": "tsm-large-log", "bytes": n}})
				return
			}
		}
	})
	gen.Prop(t, "histories", gen.N(2500, 250000), func(t *rapid.T) {
		s := gen.NewStream(rapid.Uint64().Draw(t, "content"), "c17")
		m := &modelTSM{entries: map[string]*tsmEntry{}}
		model := map[int][48]byte{} // index -> expected register
		m.freshIndex = rapid.SampledFrom([][]byte{[]byte("-1\n"), []byte("-1\n"), []byte(""), []byte("\n"), []byte(" \n")}).Draw(t, "freshIndex")
		// initial state
		pre := rapid.SliceOfNDistinct(rapid.SampledFrom([]int{0, 1, 2, 3, 4, 7}), 0, 4, func(i int) int { return i }).Draw(t, "prebound")
		for k, idx := range pre {
			e := &tsmEntry{bound: true, index: idx}
			s.Fill(e.register[:])
			m.entries[fmt.Sprintf("%s%d", rapid.SampledFrom([]string{"rtmr", "zz", "a", "entry-"}).Draw(t, "name"), k)] = e
			model[idx] = e.register
		}
		for k := 0; k < rapid.IntRange(0, 2).Draw(t, "unbound"); k++ {
			junk := rapid.SampledFrom([][]byte{[]byte("-1\n"), []byte("abc"), []byte(""), nil, []byte("0x1\n"), []byte(" 2\n")}).Draw(t, "junk")
			m.entries[fmt.Sprintf("unbound%d", k)] = &tsmEntry{junk: junk}
		}
		if rapid.Bool().Draw(t, "plainfile") {
			m.entries["README"] = &tsmEntry{isFile: true}
		}
		// requests arrive through one of three client values in front of the same TSM: the model itself and two handles
		// (two users of one machine's TSM): what one of them created, the others must find
		handles := []configfsi.Client{m, &tsmHandle{m}, &tsmHandle{m}, tsmValueClient{m: m, notes: map[string]string{"k": "v"}, hook: func() {}}}
		pickClient := func(t *rapid.T) configfsi.Client {
			return handles[rapid.SampledFrom([]int{0, 0, 1, 2, 3}).Draw(t, "client")]
		}
		accepted, rejected, hiccups := map[int]int{}, 0, 0
		var hist []string
		step := func(desc string, idx int, digest []byte, valid bool, call func() error) {
			from := len(m.ops)
			before, _ := m.boundEntry(idx)
			gen.Eval()
			v, hung := gen.CallWatch(20*time.Second, call)
			hist = append(hist, fmt.Sprintf("%s -> %s", desc, v.Short()))
			rp := map[string]any{"kind": "tsm-history", "history": hist}
			if hung {
				gen.Fail(t, gen.Violation{Key: "no-answer", Oracle: "extend returns nil or an error", Detail: desc + ": no answer within 20 s; history: " + strings.Join(hist, " ; "), Replay: rp})
				t.Fatalf("a request hangs: the history cannot go on")
			}
			if len(m.strayDigest) > 0 {
				gen.Fail(t, gen.Violation{Key: "wrong-register:digest-sent-to-an-unbound-entry", Oracle: "the extend lands on the RTMR entry bound to the requested index", Detail: fmt.Sprintf("%s: digest written to %v, which is bound to no index", desc, m.strayDigest), Replay: rp})
				m.strayDigest = nil
				return
			}
			if v.Panicked() {
				gen.Fail(t, gen.Violation{Key: "panic@" + gen.PanicSite(v.Stack), Oracle: "extend returns nil or an error", Detail: desc + ": " + v.Panic, Replay: rp})
				return
			}
			muts := m.mutations(from)
			if !valid {
				rejected++
				if v.Accepted() {
					gen.Fail(t, gen.Violation{Key: "accepts-invalid-request", Oracle: "an invalid request fails", Detail: desc, Replay: rp})
					return
				}
				if len(muts) != 0 {
					gen.Fail(t, gen.Violation{Key: "invalid-request-writes", Oracle: "an invalid request fails without writing anything to the TSM interface", Detail: fmt.Sprintf("%s: %d mutating operations, first %s %s", desc, len(muts), muts[0].op, muts[0].path), Replay: rp})
					return
				}
				return
			}
			if !v.Accepted() {
				gen.Fail(t, gen.Violation{Key: "rejects-valid-request", Oracle: "a valid request succeeds", Detail: desc + ": " + v.String(), Replay: rp})
				return
			}
			var digestWrites, mkdirs, indexWrites, others []tsmOp
			for _, o := range muts {
				switch {
				case o.op == "writefile" && strings.HasSuffix(o.path, "/digest"):
					digestWrites = append(digestWrites, o)
				case o.op == "writefile" && strings.HasSuffix(o.path, "/index"):
					indexWrites = append(indexWrites, o)
				case o.op == "mkdirtemp":
					mkdirs = append(mkdirs, o)
				default:
					others = append(others, o)
				}
			}
			if len(digestWrites) != 1 {
				gen.Fail(t, gen.Violation{Key: "digest-write-count", Oracle: "a valid request results in exactly one extend", Detail: fmt.Sprintf("%s: %d digest writes", desc, len(digestWrites)), Replay: rp})
				return
			}
			if !bytes.Equal(digestWrites[0].data, digest) {
				gen.Fail(t, gen.Violation{Key: "wrong-digest-written", Oracle: "exactly the given digest (or SHA-384 of the log) is extended", Detail: fmt.Sprintf("%s: wrote %x want %x", desc, digestWrites[0].data, digest), Replay: rp})
				return
			}
			ename, _, _ := m.split(digestWrites[0].path)
			ent := m.entries[ename]
			if ent == nil || !ent.bound || ent.index != idx {
				gen.Fail(t, gen.Violation{Key: "wrong-register", Oracle: "the extend lands on the RTMR entry bound to the requested index", Detail: fmt.Sprintf("%s: wrote to entry %q (bound=%v index=%d)", desc, ename, ent != nil && ent.bound, func() int {
					if ent != nil {
						return ent.index
					}
					return -99
				}()), Replay: rp})
				return
			}
			if before != "" {
				if len(mkdirs) != 0 || len(indexWrites) != 0 || ename != before {
					gen.Fail(t, gen.Violation{Key: "entry-not-reused", Oracle: "an existing entry for the index is re-used", Detail: fmt.Sprintf("%s: existing entry %q, mkdirs=%d indexWrites=%d wrote to %q", desc, before, len(mkdirs), len(indexWrites), ename), Replay: rp})
					return
				}
			} else if len(mkdirs) > 1 || len(indexWrites) != 1 {
				// (binding an entry that is already there but bound to nothing, instead of making a new one, is within the
				// property: the extend still lands on the one entry bound to the index)
				gen.Fail(t, gen.Violation{Key: "entry-creation", Oracle: "exactly one entry is bound when none exists", Detail: fmt.Sprintf("%s: mkdirs=%d indexWrites=%d", desc, len(mkdirs), len(indexWrites)), Replay: rp})
				return
			}
			if len(others) != 0 {
				gen.Fail(t, gen.Violation{Key: "stray-mutation", Oracle: "nothing else is written", Detail: fmt.Sprintf("%s: %s %s", desc, others[0].op, others[0].path), Replay: rp})
				return
			}
			model[idx] = extendChain(model[idx], digest)
			accepted[idx]++
		}
		t.Repeat(map[string]func(*rapid.T){
			"digest": func(t *rapid.T) {
				idx := idxGen.Draw(t, "idx")
				d := s.Bytes(lenGen.Draw(t, "len"))
				if len(d) == 48 {
					// digests that mean something: SHA-384 of nothing, of one zero byte, all zero, all ones - a digest is a digest
					switch rapid.IntRange(0, 11).Draw(t, "specialDigest") {
					case 0:
						e := sha512.Sum384(nil)
						d = e[:]
					case 1:
						e := sha512.Sum384([]byte{0})
						d = e[:]
					case 2:
						d = make([]byte, 48)
					case 3:
						d = bytes.Repeat([]byte{0xff}, 48)
					}
				}
				valid := idx >= 0 && idx <= 3 && len(d) == 48
				cl := pickClient(t)
				step(fmt.Sprintf("ExtendDigestClient(%d, %d bytes)", idx, len(d)), idx, d, valid, func() error { return rtmr.ExtendDigestClient(cl, idx, d) })
			},
			"eventlog": func(t *rapid.T) {
				idx := idxGen.Draw(t, "idx")
				h := hashGen.Draw(t, "hash")
				log := s.Bytes(rapid.SampledFrom([]int{0, 1, 1, 7, 48, 48, 300, 4096, 65536}).Draw(t, "loglen"))
				if s.Intn(1500) == 0 {
					// a log of 16 MiB and a little more: two logs that agree on their first 16 MiB are different logs
					n := 16<<20 + rapid.SampledFrom([]int{-1, 0, 1, 4096}).Draw(t, "over16MiB")
					log = bytes.Repeat(s.Bytes(64), n/64+1)[:n]
					copy(log[n-8:], s.Bytes(8))
				}
				valid := idx >= 0 && idx <= 3 && h == crypto.SHA384 && len(log) > 0
				sum := sha512.Sum384(log)
				cl := pickClient(t)
				step(fmt.Sprintf("ExtendEventLogClient(%d, hash=%d, %d bytes)", idx, h, len(log)), idx, sum[:], valid, func() error { return rtmr.ExtendEventLogClient(cl, idx, h, log) })
			},
			// a valid request during which one TSM operation fails transiently: it either fails without having extended
			// anything or succeeds with exactly one extend, and it leaves nothing behind that makes later requests fail
			"tsm-hiccup": func(t *rapid.T) {
				idx := rapid.IntRange(0, 3).Draw(t, "idx")
				d := s.Bytes(48)
				kind := rapid.SampledFrom([]string{"mkdirtemp", "readdir", "readfile:index", "writefile:index", "writefile:digest"}).Draw(t, "failing")
				times := rapid.SampledFrom([]int{1, 1, 1, 2, 3, 4, 5, 8, 100}).Draw(t, "timesInARow")
				ferr := rapid.SampledFrom([]error{nil, syscall.EBUSY, syscall.EINTR, syscall.EAGAIN, syscall.EIO, &fs.PathError{Op: "write", Path: "digest", Err: syscall.EBUSY}, os.ErrPermission, io.EOF}).Draw(t, "failsWith")
				m.failOnce, m.failLeft, m.failErr, m.struck = kind, times, ferr, 0
				from := len(m.ops)
				cl := pickClient(t)
				gen.Eval()
				v := gen.Call(func() error { return rtmr.ExtendDigestClient(cl, idx, d) })
				struck := m.struck > 0
				m.failOnce, m.failLeft, m.failErr = "", 0, nil
				desc := fmt.Sprintf("ExtendDigestClient(%d, 48 bytes) while the next %d %s operations fail with %v (struck %d times)", idx, times, kind, ferr, m.struck)
				hist = append(hist, fmt.Sprintf("%s -> %s", desc, v.Short()))
				rp := map[string]any{"kind": "tsm-history", "history": hist}
				if v.Panicked() {
					gen.Fail(t, gen.Violation{Key: "panic@" + gen.PanicSite(v.Stack), Oracle: "extend returns nil or an error", Detail: desc + ": " + v.Panic, Replay: rp})
					return
				}
				var dw []tsmOp
				for _, o := range m.mutations(from) {
					if o.op == "writefile" && strings.HasSuffix(o.path, "/digest") {
						dw = append(dw, o)
					}
				}
				switch {
				case !struck && !v.Accepted():
					gen.Fail(t, gen.Violation{Key: "rejects-valid-request", Oracle: "a valid request succeeds", Detail: desc + ": " + v.String(), Replay: rp})
				case v.Accepted() && (len(dw) != 1 || !bytes.Equal(dw[0].data, d)):
					gen.Fail(t, gen.Violation{Key: "digest-write-count", Oracle: "a valid request results in exactly one extend", Detail: fmt.Sprintf("%s: %d digest writes", desc, len(dw)), Replay: rp})
				case !v.Accepted() && len(dw) != 0:
					gen.Fail(t, gen.Violation{Key: "failed-request-extends", Oracle: "each register equals the SHA-384 extend chain of the accepted digests for its index", Detail: fmt.Sprintf("%s: returned an error after %d digest writes", desc, len(dw)), Replay: rp})
				case v.Accepted():
					model[idx] = extendChain(model[idx], d)
					accepted[idx]++
				default:
					hiccups++
				}
			},
			// a valid request that loses a race: right after the library has listed the directory, another process creates
			// and binds the entry for the same index. The library either reports the failure (and has written no digest
			// anywhere) or extends the entry that IS bound to the index - exactly once.
			"lost-bind-race": func(t *rapid.T) {
				idx := rapid.IntRange(0, 3).Draw(t, "idx")
				if _, e := m.boundEntry(idx); e != nil {
					t.Skip("index already has an entry")
				}
				d := s.Bytes(48)
				raced := false
				m.afterReadDir = func() {
					raced = true
					e := &tsmEntry{bound: true, index: idx}
					if reg, ok := model[idx]; ok {
						e.register = reg
					}
					m.counter++
					m.entries[fmt.Sprintf("rtmr%d-racer%d", idx, m.counter)] = e
					model[idx] = e.register
				}
				from := len(m.ops)
				cl := pickClient(t)
				gen.Eval()
				v, hung := gen.CallWatch(20*time.Second, func() error { return rtmr.ExtendDigestClient(cl, idx, d) })
				m.afterReadDir = nil
				desc := fmt.Sprintf("ExtendDigestClient(%d, 48 bytes) while another process binds index %d right after the listing (raced=%v)", idx, idx, raced)
				hist = append(hist, fmt.Sprintf("%s -> %s", desc, v.Short()))
				rp := map[string]any{"kind": "tsm-history", "history": hist}
				if hung || v.Panicked() {
					gen.Fail(t, gen.Violation{Key: "no-answer-or-crash", Oracle: "extend returns nil or an error", Detail: desc + ": " + v.Panic, Replay: rp})
					if hung {
						t.Fatalf("a request hangs")
					}
					return
				}
				if len(m.strayDigest) > 0 {
					gen.Fail(t, gen.Violation{Key: "wrong-register:digest-sent-to-an-unbound-entry", Oracle: "the extend lands on the RTMR entry bound to the requested index", Detail: fmt.Sprintf("%s: digest written to %v, which is bound to no index", desc, m.strayDigest), Replay: rp})
					m.strayDigest = nil
					return
				}
				var dw []tsmOp
				for _, o := range m.mutations(from) {
					if o.op == "writefile" && strings.HasSuffix(o.path, "/digest") {
						dw = append(dw, o)
					}
				}
				switch {
				case v.Accepted() && (len(dw) != 1 || !bytes.Equal(dw[0].data, d)):
					gen.Fail(t, gen.Violation{Key: "digest-write-count", Oracle: "a valid request results in exactly one extend", Detail: fmt.Sprintf("%s: %d digest writes", desc, len(dw)), Replay: rp})
				case !v.Accepted() && len(dw) != 0:
					gen.Fail(t, gen.Violation{Key: "failed-request-extends", Oracle: "each register equals the SHA-384 extend chain of the accepted digests for its index", Detail: fmt.Sprintf("%s: returned an error after %d digest writes", desc, len(dw)), Replay: rp})
				case v.Accepted():
					model[idx] = extendChain(model[idx], d)
					accepted[idx]++
				default:
					hiccups++
				}
			},
			// a valid request for an index that has its entry, during which another entry of the directory goes away (its
			// owner removes it) between the library's listing and its reading of that entry's index: the request succeeds
			// through the existing entry all the same
			"entry-vanishes-after-listing": func(t *rapid.T) {
				idx := rapid.IntRange(0, 3).Draw(t, "idx")
				before, _ := m.boundEntry(idx)
				if before == "" {
					t.Skip("index has no entry yet")
				}
				n := len(before)
				cands := []string{before[:n-1], before[:n-1] + string(rune(before[n-1]-1)) + "~", before[:n-1] + string(rune(before[n-1]-1)) + "zzzz", "0-first", "zzzz-last", fmt.Sprintf("rtmr%d-0000000000", idx)}
				if rapid.Bool().Draw(t, "anywhere") {
					cands = cands[3:]
				}
				decoy := ""
				for _, c := range cands {
					if c == "" || strings.ContainsAny(c, "/\x00") || m.entries[c] != nil {
						continue
					}
					decoy = c
					break
				}
				if decoy == "" {
					t.Skip("no free name")
				}
				m.entries[decoy] = &tsmEntry{junk: rapid.SampledFrom([][]byte{[]byte("-1\n"), []byte(""), []byte("7\n")}).Draw(t, "decoyIndex")}
				gone := false
				m.afterReadDir = func() { gone = true; delete(m.entries, decoy) }
				d := s.Bytes(48)
				cl := pickClient(t)
				step(fmt.Sprintf("ExtendDigestClient(%d, 48 bytes) while entry %q (next to %q) is removed right after the listing", idx, decoy, before), idx, d, true, func() error { return rtmr.ExtendDigestClient(cl, idx, d) })
				m.afterReadDir = nil
				if !gone {
					delete(m.entries, decoy)
				}
				gen.Class("history:entry-vanishes-after-listing")
			},
			// somebody else (another process) binds an entry for an index that has none yet, under a name of its own
			"bound-by-someone-else": func(t *rapid.T) {
				idx := rapid.IntRange(0, 3).Draw(t, "idx")
				if _, e := m.boundEntry(idx); e != nil {
					t.Skip("index already has an entry")
				}
				e := &tsmEntry{bound: true, index: idx}
				if reg, ok := model[idx]; ok {
					e.register = reg
				}
				m.counter++
				m.entries[fmt.Sprintf("%s%d-%d", rapid.SampledFrom([]string{"rtmr", "other-", "x"}).Draw(t, "name"), idx, m.counter)] = e
				model[idx] = e.register
				hist = append(hist, fmt.Sprintf("another process binds an entry to index %d", idx))
			},
			"": func(t *rapid.T) {
				seen := map[int]string{}
				for n, e := range m.entries {
					if !e.bound {
						continue
					}
					if o, dup := seen[e.index]; dup {
						gen.Fail(t, gen.Violation{Key: "two-entries-one-index", Oracle: "at most one entry is bound per index", Detail: o + " and " + n, Replay: map[string]any{"kind": "tsm-history", "history": hist}})
						return
					}
					seen[e.index] = n
					if want, ok := model[e.index]; ok && want != e.register {
						gen.Fail(t, gen.Violation{Key: "register-diverges", Oracle: "each register equals the SHA-384 extend chain of the accepted digests for its index", Detail: fmt.Sprintf("index %d: %x want %x", e.index, e.register, want), Replay: map[string]any{"kind": "tsm-history", "history": hist}})
						return
					}
				}
			},
		})
		two := false
		for _, n := range accepted {
			if n >= 2 {
				two = true
			}
		}
		gen.Class(fmt.Sprintf("history:twoAccepted=%v,rejected=%v,prebound=%d", two, rejected > 0, len(pre)))
		if hiccups > 0 {
			gen.Class("history:with-a-request-that-failed-on-a-transient-TSM-error")
		}
		if two && rejected > 0 {
			gen.NonTrivial(strings.Join(hist, ";"))
		}
		gen.Sample("history", hist)
	})
	_ = time.Now
}
