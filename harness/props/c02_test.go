package props

import (
	"crypto/x509"
	"encoding/binary"
	"encoding/pem"
	"fmt"
	"google.golang.org/protobuf/encoding/prototext"
	"google.golang.org/protobuf/proto"
	"os"
	"path/filepath"
	"strings"
	"testing"
	"time"

	ccpb "github.com/google/go-tdx-guest/proto/checkconfig"
	"github.com/google/go-tdx-guest/testing/testdata"
	"github.com/google/go-tdx-guest/verify"
	"pgregory.net/rapid"
	"verifharness/gen"
)

var embeddedRoot *x509.Certificate

func embeddedIntelRoot(t gen.TB) *x509.Certificate {
	if embeddedRoot == nil {
		b, err := os.ReadFile(filepath.Join(gen.RepoDir(), "verify", "trusted_root.pem"))
		if err != nil {
			gen.HarnessError(t, "cannot read the embedded root: %v", err)
		}
		blk, _ := pem.Decode(b)
		c, err := x509.ParseCertificate(blk.Bytes)
		if err != nil {
			gen.HarnessError(t, "embedded root does not parse: %v", err)
		}
		embeddedRoot = c
	}
	return embeddedRoot
}

// trustOracle decides, independently of the library, whether the property's condition for
// acceptance holds: the first PEM certificate is PCK-named, carries the SGX extension and
// chains via the second PEM certificate to a certificate of the pool.
func trustOracle(chain []byte, roots []*x509.Certificate, at time.Time) (bool, string) {
	b1, rest := pem.Decode(chain)
	if b1 == nil {
		return false, "no first PEM block"
	}
	leaf, err := x509.ParseCertificate(b1.Bytes)
	if err != nil {
		return false, "leaf does not parse"
	}
	b2, _ := pem.Decode(rest)
	if b2 == nil {
		return false, "no second PEM block"
	}
	inter, err := x509.ParseCertificate(b2.Bytes)
	if err != nil {
		return false, "intermediate does not parse"
	}
	if leaf.Subject.CommonName != gen.CNLeaf {
		return false, "leaf is not named as a PCK certificate: " + leaf.Subject.CommonName
	}
	hasSgx := false
	for _, e := range leaf.Extensions {
		if e.Id.Equal(gen.SgxOID()) {
			hasSgx = true
		}
	}
	if !hasSgx {
		return false, "leaf has no SGX extension"
	}
	pool := x509.NewCertPool()
	for _, r := range roots {
		pool.AddCert(r)
	}
	ip := x509.NewCertPool()
	ip.AddCert(inter)
	chains, err := leaf.Verify(x509.VerifyOptions{Roots: pool, Intermediates: ip, CurrentTime: at, KeyUsages: []x509.ExtKeyUsage{x509.ExtKeyUsageAny}})
	if err != nil {
		return false, "no path to the pool: " + err.Error()
	}
	for _, c := range chains {
		if len(c) == 3 && c[1].Equal(inter) {
			return true, ""
		}
	}
	return false, "path does not pass through the intermediate carried in the quote"
}

type c02Case struct {
	name     string
	chain    func(a, b *gen.World) ([]byte, *gen.Key) // chain bytes and the key signing the QE report
	dontCare bool
}

func pkiWorld(t *rapid.T, seed string, s *gen.Stream) *gen.World {
	w := gen.NewWorld(gen.NewPKI(gen.PKISpec{Seed: seed}), s)
	return w
}

func c02Cases() []c02Case {
	mk := func(cs ...*gen.Cert) []byte { return gen.ChainPEM(cs...) }
	return []c02Case{
		{"genuine", func(a, b *gen.World) ([]byte, *gen.Key) { return mk(a.Leaf, a.PKI.Int, a.PKI.Root), a.Leaf.Key }, false},
		{"all-from-B", func(a, b *gen.World) ([]byte, *gen.Key) { return mk(b.Leaf, b.PKI.Int, b.PKI.Root), b.Leaf.Key }, false},
		{"leafB-intA-rootA", func(a, b *gen.World) ([]byte, *gen.Key) { return mk(b.Leaf, a.PKI.Int, a.PKI.Root), b.Leaf.Key }, false},
		{"leafA-intB-rootA", func(a, b *gen.World) ([]byte, *gen.Key) { return mk(a.Leaf, b.PKI.Int, a.PKI.Root), a.Leaf.Key }, false},
		{"leafB-intB-rootA", func(a, b *gen.World) ([]byte, *gen.Key) { return mk(b.Leaf, b.PKI.Int, a.PKI.Root), b.Leaf.Key }, false},
		{"leafA-intA-rootB", func(a, b *gen.World) ([]byte, *gen.Key) { return mk(a.Leaf, a.PKI.Int, b.PKI.Root), a.Leaf.Key }, true},
		{"leafA-intA-cross-certified-under-a-rogue-root", func(a, b *gen.World) ([]byte, *gen.Key) {
			// the genuine intermediate's KEY certified once more, by a self-made "Intel SGX Root CA": leaf A verifies under
			// this intermediate, the in-quote chain is self-consistent, but it ends in a root nobody trusts
			rogue := gen.MakeCert(gen.CertSpec{CN: gen.CNRoot, KeyLabel: "c02/rogue-root", Serial: []byte{7, 7}, NotBefore: gen.Wide.NotBefore, NotAfter: gen.Wide.NotAfter, CA: true, CRLDP: []string{gen.RootCrlURL}}, nil)
			cross := gen.MakeCert(gen.CertSpec{CN: a.PKI.Int.X.Subject.CommonName, KeyLabel: a.PKI.Spec.Seed + "/int", Serial: []byte{7, 8}, NotBefore: gen.Wide.NotBefore, NotAfter: gen.Wide.NotAfter, CA: true, CRLDP: []string{gen.RootCrlURL}}, rogue)
			return mk(a.Leaf, cross, rogue), a.Leaf.Key
		}, false},
		{"tcb-signer-as-leaf", func(a, b *gen.World) ([]byte, *gen.Key) {
			return mk(a.PKI.TcbSig, a.PKI.Int, a.PKI.Root), a.PKI.TcbSig.Key
		}, false},
		{"tcb-signer-with-sgx-ext-as-leaf", func(a, b *gen.World) ([]byte, *gen.Key) {
			c := gen.MakeCert(gen.CertSpec{CN: gen.CNTcbSigner, KeyLabel: "c02/tcbsgx", Serial: []byte{9, 9}, NotBefore: gen.Wide.NotBefore, NotAfter: gen.Wide.NotAfter,
				CRLDP: []string{gen.RootCrlURL}, ExtraExt: a.Leaf.X.Extensions[len(a.Leaf.X.Extensions)-1:]}, a.PKI.Root)
			return mk(c, a.PKI.Root, a.PKI.Root), c.Key
		}, false},
		{"tcb-signer-named-issued-by-int-with-sgx-ext", func(a, b *gen.World) ([]byte, *gen.Key) {
			c := gen.MakeLeaf(a.PKI.Int, gen.LeafSpec{KeyLabel: "c02/tcbnamed", CN: gen.CNTcbSigner, SgxDER: gen.SgxTree(&a.Sgx).Encode()})
			return mk(c, a.PKI.Int, a.PKI.Root), c.Key
		}, false},
		{"intermediate-as-leaf", func(a, b *gen.World) ([]byte, *gen.Key) { return mk(a.PKI.Int, a.PKI.Int, a.PKI.Root), a.PKI.Int.Key }, false},
		{"intermediate-as-leaf-root-as-int", func(a, b *gen.World) ([]byte, *gen.Key) { return mk(a.PKI.Int, a.PKI.Root, a.PKI.Root), a.PKI.Int.Key }, false},
		{"pck-named-issued-by-non-ca-leaf", func(a, b *gen.World) ([]byte, *gen.Key) {
			c := gen.MakeLeaf(a.Leaf, gen.LeafSpec{KeyLabel: "c02/subleaf", SgxDER: gen.SgxTree(&a.Sgx).Encode()})
			return mk(c, a.Leaf, a.PKI.Root), c.Key
		}, false},
		{"pck-named-issued-by-non-ca-leaf-4-blocks", func(a, b *gen.World) ([]byte, *gen.Key) {
			c := gen.MakeLeaf(a.Leaf, gen.LeafSpec{KeyLabel: "c02/subleaf", SgxDER: gen.SgxTree(&a.Sgx).Encode()})
			return mk(c, a.Leaf, a.PKI.Int, a.PKI.Root), c.Key
		}, false},
		{"pck-named-ca-leaf-issuing-pck-leaf", func(a, b *gen.World) ([]byte, *gen.Key) {
			ca := gen.MakeLeaf(a.PKI.Int, gen.LeafSpec{KeyLabel: "c02/caleaf", CA: true, CN: gen.CNPlatform, SgxDER: nil})
			c := gen.MakeLeaf(ca, gen.LeafSpec{KeyLabel: "c02/deep", SgxDER: gen.SgxTree(&a.Sgx).Encode()})
			// a path of length 4 exists to the root, but not "through the intermediate carried in the quote" plus root
			return mk(c, ca, a.PKI.Root), c.Key
		}, false},
		{"pck-named-issued-by-root-genuine-int-carried", func(a, b *gen.World) ([]byte, *gen.Key) {
			// a certificate with the PCK name and the SGX extension issued DIRECTLY by the trusted root; the quote carries
			// the genuine intermediate and root: a path leaf -> root exists, but not through the intermediate in the quote
			c := gen.MakeLeaf(a.PKI.Root, gen.LeafSpec{KeyLabel: "c02/rootleaf2", SgxDER: gen.SgxTree(&a.Sgx).Encode()})
			return mk(c, a.PKI.Int, a.PKI.Root), c.Key
		}, false},
		{"pck-named-issued-by-root-root-as-int", func(a, b *gen.World) ([]byte, *gen.Key) {
			c := gen.MakeLeaf(a.PKI.Root, gen.LeafSpec{KeyLabel: "c02/rootleaf", SgxDER: gen.SgxTree(&a.Sgx).Encode()})
			return mk(c, a.PKI.Root, a.PKI.Root), c.Key
		}, true},
		{"self-signed-pck-named-leaf", func(a, b *gen.World) ([]byte, *gen.Key) {
			c := gen.MakeLeaf(nil, gen.LeafSpec{KeyLabel: "c02/selfleaf", SgxDER: gen.SgxTree(&a.Sgx).Encode()})
			return mk(c, a.PKI.Int, a.PKI.Root), c.Key
		}, false},
		{"two-blocks", func(a, b *gen.World) ([]byte, *gen.Key) { return mk(a.Leaf, a.PKI.Int), a.Leaf.Key }, false},
		{"four-blocks", func(a, b *gen.World) ([]byte, *gen.Key) {
			return mk(a.Leaf, a.PKI.Int, a.PKI.Root, b.PKI.Root), a.Leaf.Key
		}, true},
		{"non-certificate-block", func(a, b *gen.World) ([]byte, *gen.Key) {
			x := pem.EncodeToMemory(&pem.Block{Type: "X509 CRL", Bytes: a.PKI.Int.DER})
			return append(append(append([]byte{}, a.Leaf.PEM...), x...), a.PKI.Root.PEM...), a.Leaf.Key
		}, true},
		{"trailing-garbage", func(a, b *gen.World) ([]byte, *gen.Key) {
			return append(mk(a.Leaf, a.PKI.Int, a.PKI.Root), 'x', 'y'), a.Leaf.Key
		}, true},
		{"genuine-but-sgx-extension-marked-critical", func(a, b *gen.World) ([]byte, *gen.Key) {
			c := gen.MakeLeaf(a.PKI.Int, gen.LeafSpec{KeyLabel: "c02/critical", SgxDER: gen.SgxTree(&a.Sgx).Encode(), SgxCritical: true})
			return mk(c, a.PKI.Int, a.PKI.Root), c.Key
		}, false},
		{"leaf-without-sgx-extension", func(a, b *gen.World) ([]byte, *gen.Key) {
			c := gen.MakeLeaf(a.PKI.Int, gen.LeafSpec{KeyLabel: "c02/nosgx"})
			return mk(c, a.PKI.Int, a.PKI.Root), c.Key
		}, false},
	}
}

func TestC02(t *testing.T) {
	replayDir(t, "C02")
	cases := c02Cases()
	poolKinds := []string{"A", "B", "A+B", "B+C", "empty", "nil-embedded", "reissued-A", "A-intermediate-as-root", "A-leaf-as-root"}
	gen.Prop(t, "pools-and-chains", gen.N(2500, 150000), func(t *rapid.T) {
		s := gen.NewStream(rapid.Uint64().Draw(t, "content"), "c02")
		seeds := rapid.Permutation([]string{"pki-A", "pki-B", "pki-C", "pki-D"}).Draw(t, "seeds")
		a, b := pkiWorld(t, seeds[0], s), pkiWorld(t, seeds[1], s)
		cloneIntel := rapid.IntRange(0, 5).Draw(t, "cloneIntelIdentity") == 0
		if cloneIntel {
			// PKI A's root copies everything an attacker can copy from the embedded Intel root: subject and
			// subject key identifier (but of course not the key)
			er := embeddedIntelRoot(t)
			a = gen.NewWorld(gen.NewPKI(gen.PKISpec{Seed: seeds[0] + "-intel-clone", RootSKI: er.SubjectKeyId, RootRawSubject: er.RawSubject, RootSerial: er.SerialNumber.Bytes()}), s)
			gen.Class("pkiA-clones-intel-root-identity")
		}
		b.Sgx = a.Sgx
		a.BuildLeaf()
		b.BuildLeaf()
		c := gen.NewPKI(gen.PKISpec{Seed: seeds[2]})
		cs := rapid.SampledFrom(cases).Draw(t, "case")
		chain, qeKey := cs.chain(a, b)
		nul := rapid.IntRange(0, 3).Draw(t, "nul") == 0
		if nul {
			chain = append(chain, 0)
		}
		// a quote that is fully self-consistent for the chain it carries
		a.ChainOverride = chain
		a.SignQuote()
		q := a.Q
		gen.SignQe(q, qeKey)
		raw := q.Encode()
		if st := gen.RefLinks(raw); !st.AllHold() && cs.name != "two-blocks" {
			gen.HarnessError(t, "case %s: quote is not self-consistent: %+v", cs.name, st)
		}
		pk := rapid.SampledFrom(poolKinds).Draw(t, "pool")
		var roots []*x509.Certificate
		var pool *x509.CertPool
		var poolCerts []*gen.Cert
		switch pk {
		case "A":
			poolCerts = []*gen.Cert{a.PKI.Root}
		case "B":
			poolCerts = []*gen.Cert{b.PKI.Root}
		case "A+B":
			poolCerts = []*gen.Cert{b.PKI.Root, a.PKI.Root}
		case "B+C":
			poolCerts = []*gen.Cert{b.PKI.Root, c.Root}
		case "reissued-A":
			re := gen.MakeCert(gen.CertSpec{CN: gen.CNRoot, KeyLabel: seeds[0] + "/root", Serial: []byte{0x42, 0x42}, NotBefore: gen.Wide.NotBefore.AddDate(1, 0, 0), NotAfter: gen.Wide.NotAfter.AddDate(-1, 0, 0), CA: true, CRLDP: []string{gen.RootCrlURL}}, nil)
			poolCerts = []*gen.Cert{re}
		case "A-intermediate-as-root":
			poolCerts = []*gen.Cert{a.PKI.Int}
		case "A-leaf-as-root":
			poolCerts = []*gen.Cert{a.Leaf}
		}
		switch pk {
		case "nil-embedded":
			roots = []*x509.Certificate{embeddedIntelRoot(t)}
		case "empty":
			pool = x509.NewCertPool()
		default:
			pool = gen.PoolOf(poolCerts...)
			for _, pc := range poolCerts {
				roots = append(roots, pc.X)
			}
		}
		ts := a.Times
		o := &verify.Options{TrustedRoots: pool, Now: &ts, Getter: gen.FailGetter{}}
		// in a third of the cases collateral (and revocation) checking is on, and the collateral served is the genuine,
		// matching collateral OF THE TRUSTED PKI (what an attacker can simply replay): trust in the quote's chain must not
		// follow from the collateral being good
		lvl := rapid.SampledFrom([]gen.Level{gen.LvlBase, gen.LvlBase, gen.LvlBase, gen.LvlColl, gen.LvlCRL}).Draw(t, "level")
		if lvl != gen.LvlBase {
			cp := a.PKI
			hasA := false
			for _, pc := range poolCerts {
				if pc == a.PKI.Root {
					hasA = true
				}
			}
			if !hasA && len(poolCerts) > 0 {
				switch poolCerts[0] {
				case b.PKI.Root:
					cp = b.PKI
				case c.Root:
					cp = c
				}
			}
			cw := *a
			cw.PKI = cp
			cw.Leaf = a.Leaf
			cw.BuildCollateral()
			o.Getter = cw.NewGetter()
			o.GetCollateral, o.CheckRevocations = true, lvl == gen.LvlCRL
			gen.Class("level:" + lvl.String())
		}
		at := a.Times.PckCertChain
		if rapid.IntRange(0, 2).Draw(t, "defaultTimeSet") == 0 {
			// the default time set (Options.Now == nil): every generated certificate is valid at the real current time
			o.Now = nil
			at = time.Now()
			gen.Class("default-time-set")
		}
		gen.Eval()
		v := gen.Call(func() error { return verify.RawTdxQuote(raw, o) })
		ok, why := trustOracle(chain, roots, at)
		cls := cs.name + "|" + pk
		gen.Class("case:" + cs.name)
		gen.Class("pool:" + pk)
		rp := a.CaseFile(gen.LvlBase, raw, map[string]gen.Response{}, poolCerts, "reject")
		if pk == "nil-embedded" {
			rp["embedded_root"] = true
		}
		if pk == "empty" {
			rp["roots_pem"] = ""
		}
		dontCare := cs.dontCare || pk == "A-intermediate-as-root" || pk == "A-leaf-as-root"
		if cs.name == "genuine-but-sgx-extension-marked-critical" && (pk == "A" || pk == "A+B" || pk == "reissued-A") {
			dontCare = true // the path exists; whether an unknown critical extension must stop it is not the property's business
		}
		if v.Accepted() && !ok && !dontCare {
			gen.Fail(t, gen.Violation{Key: "trusts-outside-pool:" + cls, Oracle: "accepted => the leaf is a PCK certificate chaining via the quote's intermediate to the given pool", Detail: fmt.Sprintf("case=%s pool=%s accepted, oracle says: %s", cs.name, pk, why), Replay: rp})
			return
		}
		if cs.name == "genuine" && (pk == "A" || pk == "A+B") && !v.Accepted() {
			rp["expect"] = "accept"
			gen.Fail(t, gen.Violation{Key: "rejects-trusted:" + cls, Oracle: "a genuine chain rooted in the pool is accepted", Detail: v.String(), Replay: rp})
			return
		}
		if pk != "empty" && pk != "nil-embedded" {
			gen.NonTrivial(cls, seeds[0], seeds[1], nul)
		}
		gen.Sample("pool-chain", map[string]any{"case": cs.name, "pool": pk, "verdict": v.Short(), "oracle": ok})
	})

	// (i') histories: a few long-lived Options values are used again and again (as a service does), with the
	// same and different quotes, in any order. The oracle is the stateless one of (i): whatever happened
	// before, a quote is accepted only if its chain leads to the pool of the Options value used.
	// one Options value that starts without a pool (the embedded Intel root decides) and is then given one, or the
	// other way round: the genuine Intel sample and its re-rooted twin, judged by whatever TrustedRoots holds AT THE CALL
	gen.Prop(t, "nil-pool-and-caller-pools-on-one-options-value", gen.N(300, 20000), func(t *rapid.T) {
		forged, ts := intelReRootedSample(t)
		fq, err := gen.RefParse(forged)
		if err != nil {
			gen.HarnessError(t, "re-rooted sample: %v", err)
		}
		var rogue *x509.Certificate
		for rest := fq.Chain; ; {
			var blk *pem.Block
			blk, rest = pem.Decode(rest)
			if blk == nil {
				break
			}
			rogue, _ = x509.ParseCertificate(blk.Bytes)
		}
		er := embeddedIntelRoot(t)
		o := &verify.Options{Now: &ts, Getter: gen.FailGetter{}}
		if rapid.Bool().Draw(t, "fromDefaultOptions") {
			o = verify.DefaultOptions()
			o.Now, o.Getter = &ts, gen.FailGetter{}
		}
		state := "nil"
		var hist []string
		t.Repeat(map[string]func(*rapid.T){
			"assign": func(t *rapid.T) {
				state = rapid.SampledFrom([]string{"nil", "intel", "look-alike", "look-alike", "empty", "both"}).Draw(t, "pool")
				switch state {
				case "nil":
					o.TrustedRoots = nil
				case "intel":
					o.TrustedRoots = x509.NewCertPool()
					o.TrustedRoots.AddCert(er)
				case "look-alike":
					o.TrustedRoots = x509.NewCertPool()
					o.TrustedRoots.AddCert(rogue)
				case "empty":
					o.TrustedRoots = x509.NewCertPool()
				case "both":
					o.TrustedRoots = x509.NewCertPool()
					o.TrustedRoots.AddCert(er)
					o.TrustedRoots.AddCert(rogue)
				}
				hist = append(hist, "TrustedRoots="+state)
			},
			"verify-genuine-sample": func(t *rapid.T) {
				raw := append([]byte{}, testdata.RawQuote...)
				gen.Eval()
				v := gen.Call(func() error { return verify.RawTdxQuote(raw, o) })
				hist = append(hist, "genuine sample -> "+v.Short())
				rp := map[string]any{"kind": "c02-intel-history", "history": append([]string{}, hist...)}
				want := state == "nil" || state == "intel" || state == "both"
				if v.Accepted() && !want {
					gen.Fail(t, gen.Violation{Key: "history:trusts-outside-pool:intel-sample|" + state, Oracle: "accepted => the chain ends in a certificate of the pool the Options value holds at the call", Detail: fmt.Sprintf("%v", hist), Replay: rp})
				}
				if !v.Accepted() && want {
					gen.Fail(t, gen.Violation{Key: "history:rejects-trusted:intel-sample|" + state, Oracle: "a genuine chain rooted in the pool in force (nil = the embedded Intel root) is accepted", Detail: fmt.Sprintf("%v: %s", hist, v), Replay: rp})
				}
			},
			"verify-re-rooted-sample": func(t *rapid.T) {
				raw := append([]byte{}, forged...)
				gen.Eval()
				v := gen.Call(func() error { return verify.RawTdxQuote(raw, o) })
				hist = append(hist, "re-rooted sample -> "+v.Short())
				if v.Accepted() && (state == "nil" || state == "intel" || state == "empty") {
					gen.Fail(t, gen.Violation{Key: "history:trusts-outside-pool:re-rooted-sample|" + state, Oracle: "accepted => the chain ends in a certificate of the pool the Options value holds at the call", Detail: fmt.Sprintf("%v", hist), Replay: map[string]any{"kind": "c02-intel-history", "history": append([]string{}, hist...)}})
				}
			},
		})
		gen.NonTrivial("c02intelhist", fmt.Sprint(hist))
		gen.Class("history:nil-pool-and-caller-pools")
	})
	gen.Prop(t, "histories-on-long-lived-options", gen.N(400, 30000), func(t *rapid.T) {
		s := gen.NewStream(rapid.Uint64().Draw(t, "content"), "c02h")
		a, b := pkiWorld(t, "pki-A", s), pkiWorld(t, "pki-B", s)
		b.Sgx = a.Sgx
		a.BuildLeaf()
		b.BuildLeaf()
		type quote struct {
			name  string
			chain []byte
			raw   []byte
		}
		var quotes []quote
		for _, cs := range cases {
			switch cs.name {
			case "genuine", "all-from-B", "leafB-intA-rootA", "leafB-intB-rootA", "leafA-intB-rootA", "leafA-intA-cross-certified-under-a-rogue-root":
				w := *a
				w.Q = a.Q.Clone()
				chain, qeKey := cs.chain(a, b)
				w.ChainOverride = chain
				w.SignQuote()
				gen.SignQe(w.Q, qeKey)
				quotes = append(quotes, quote{cs.name, chain, w.Q.Encode()})
			}
		}
		type optv struct {
			name  string
			o     *verify.Options
			roots []*x509.Certificate
		}
		ts := a.Times
		mk := func(name string, pool *x509.CertPool, roots ...*x509.Certificate) optv {
			return optv{name, &verify.Options{TrustedRoots: pool, Now: &ts, Getter: gen.FailGetter{}}, roots}
		}
		er := embeddedIntelRoot(t)
		opts := []optv{mk("pool-A", gen.PoolOf(a.PKI.Root), a.PKI.Root.X), mk("pool-B", gen.PoolOf(b.PKI.Root), b.PKI.Root.X), mk("nil-pool", nil, er)}
		d := verify.DefaultOptions()
		d.Now, d.Getter = &ts, gen.FailGetter{}
		opts = append(opts, optv{"DefaultOptions()", d, []*x509.Certificate{er}})
		var hist []string
		last := [2]int{-1, -1}
		step := func(oi, qi int) {
			ov, q := opts[oi], quotes[qi]
			hist = append(hist, ov.name+"<-"+q.name)
			gen.Eval()
			v := gen.Call(func() error { return verify.RawTdxQuote(q.raw, ov.o) })
			ok, why := trustOracle(q.chain, ov.roots, a.Times.PckCertChain)
			rp := map[string]any{"kind": "c02-history", "history": append([]string{}, hist...)}
			if v.Accepted() && !ok {
				gen.Fail(t, gen.Violation{Key: "history:trusts-outside-pool:" + q.name + "|" + ov.name, Oracle: "accepted => the leaf is a PCK certificate chaining via the quote's intermediate to the pool of the Options value used, whatever was verified before", Detail: fmt.Sprintf("after %v: accepted, oracle says: %s", hist, why), Replay: rp})
			}
			if !v.Accepted() && ((q.name == "genuine" && ov.name == "pool-A") || (q.name == "all-from-B" && ov.name == "pool-B")) {
				gen.Fail(t, gen.Violation{Key: "history:rejects-trusted:" + q.name + "|" + ov.name, Oracle: "a genuine chain rooted in the pool is accepted, whatever was verified before", Detail: fmt.Sprintf("after %v: %s", hist, v), Replay: rp})
			}
			if last == [2]int{oi, qi} && !ok {
				gen.NonTrivial("repeat-untrusted", ov.name, q.name, len(hist))
			}
			last = [2]int{oi, qi}
		}
		t.Repeat(map[string]func(*rapid.T){
			"verify": func(t *rapid.T) {
				step(rapid.IntRange(0, len(opts)-1).Draw(t, "options"), rapid.IntRange(0, len(quotes)-1).Draw(t, "quote"))
			},
			"verify-again": func(t *rapid.T) {
				if last[0] < 0 {
					t.Skip("nothing verified yet")
				}
				step(last[0], last[1])
			},
			"caller-assigns-another-pool": func(t *rapid.T) {
				// the caller replaces the TrustedRoots of a long-lived options value: from now on the new pool decides
				// (any of the values, the one that started with a nil pool and the one from DefaultOptions() included)
				i := rapid.IntRange(0, len(opts)-1).Draw(t, "whichOptions")
				switch rapid.SampledFrom([]string{"A", "A", "B", "B", "nil"}).Draw(t, "to") {
				case "B":
					opts[i].o.TrustedRoots, opts[i].roots, opts[i].name = gen.PoolOf(b.PKI.Root), []*x509.Certificate{b.PKI.Root.X}, "pool-B"
				case "A":
					opts[i].o.TrustedRoots, opts[i].roots, opts[i].name = gen.PoolOf(a.PKI.Root), []*x509.Certificate{a.PKI.Root.X}, "pool-A"
				default:
					opts[i].o.TrustedRoots, opts[i].roots, opts[i].name = nil, []*x509.Certificate{er}, "nil-pool"
				}
				hist = append(hist, fmt.Sprintf("options #%d: TrustedRoots = %s", i, opts[i].name))
				last = [2]int{-1, -1}
			},
			"caller-extends-a-pool-the-api-handed-out": func(t *rapid.T) {
				// a caller that wants "the defaults plus my lab root" adds to whatever pool DefaultOptions() returns
				// (nil on this tree: then there is nothing to add to and the caller builds its own pool)
				do := verify.DefaultOptions()
				if do.TrustedRoots != nil {
					do.TrustedRoots.AddCert(a.PKI.Root.X)
					hist = append(hist, "DefaultOptions().TrustedRoots.AddCert(root-A)")
				} else {
					hist = append(hist, "DefaultOptions().TrustedRoots==nil")
				}
			},
		})
		gen.Class(fmt.Sprintf("history-length:%d", len(hist)/4*4))
		gen.Sample("history", hist)
	})

	// (ii) root-of-trust configurations trust exactly what they list.
	dir := t.TempDir()
	gen.Prop(t, "root-of-trust-config", gen.N(1200, 60000), func(t *rapid.T) {
		s := gen.NewStream(rapid.Uint64().Draw(t, "content"), "c02rot")
		pkis := []*gen.PKI{gen.NewPKI(gen.PKISpec{Seed: "pki-A"}), gen.NewPKI(gen.PKISpec{Seed: "pki-B"}), gen.NewPKI(gen.PKISpec{Seed: "pki-C"}), gen.NewPKI(gen.PKISpec{Seed: "pki-Z"})} // Z is never listed
		listed := map[int]bool{}
		rot := &ccpb.RootOfTrust{CheckCrl: rapid.Bool().Draw(t, "crl"), GetCollateral: rapid.Bool().Draw(t, "coll")}
		broken := ""
		nFiles := rapid.IntRange(0, 2).Draw(t, "files")
		nInline := rapid.IntRange(0, 2).Draw(t, "inline")
		bundle := func(label string) string {
			kind := rapid.SampledFrom([]string{"one", "one", "two", "with-comment", "empty", "non-pem", "pem-non-cert-only", "large-text-then-root", "root-large-text-root", "root-other-pem-block-root", "root-other-pem-block-root", "look-alike-then-root", "look-alike-then-root"}).Draw(t, label)
			switch kind {
			case "empty":
				broken = "empty bundle"
				return ""
			case "non-pem":
				broken = "non-PEM bundle"
				return "this is not a certificate\n"
			case "pem-non-cert-only":
				broken = "bundle without certificates"
				return string(pem.EncodeToMemory(&pem.Block{Type: "PRIVATE KEY", Bytes: []byte{1, 2, 3}}))
			}
			i := rapid.IntRange(0, 2).Draw(t, label+"-root")
			listed[i] = true
			out := string(pkis[i].Root.PEM)
			if kind == "two" {
				j := rapid.IntRange(0, 2).Draw(t, label+"-root2")
				listed[j] = true
				out += string(pkis[j].Root.PEM)
			}
			if kind == "with-comment" {
				out = "# trusted root\n" + out + "\ntrailing text\n"
			}
			if kind == "look-alike-then-root" {
				// two authorities with one name: a certificate with the SAME subject and the same subject key identifier
				// (another key) stands before the listed root - or the other way round. Both are listed.
				la := gen.NewPKI(gen.PKISpec{Seed: fmt.Sprintf("pki-look-alike-of-%d", i), RootSKI: pkis[i].Root.X.SubjectKeyId})
				if rapid.Bool().Draw(t, label+"-lookAlikeFirst") {
					out = string(la.Root.PEM) + out
				} else {
					out = out + string(la.Root.PEM)
				}
				gen.Class("rot:bundle-with-two-authorities-of-one-name-and-key-identifier")
			}
			if kind == "root-other-pem-block-root" {
				// a bundle file that also carries PEM blocks of other kinds (the CA's CRL, a public key, parameters, a block
				// with headers) between two certificates: every certificate of the file is listed
				j := rapid.IntRange(0, 2).Draw(t, label+"-firstRoot")
				listed[j] = true
				other := rapid.SampledFrom([]*pem.Block{{Type: "X509 CRL", Bytes: gen.MakeCRL(pkis[j].Root, pkis[j].Root.Key, gen.CRLSpec{})}, {Type: "PUBLIC KEY", Bytes: []byte{0x30, 0x03, 0x02, 0x01, 0x01}}, {Type: "EC PARAMETERS", Bytes: []byte{6, 8, 0x2a, 0x86, 0x48, 0xce, 0x3d, 3, 1, 7}}, {Type: "CERTIFICATE REQUEST", Bytes: []byte{0x30, 0}}, {Type: "TRUSTED CERTIFICATE", Bytes: pkis[3].Root.X.Raw}, {Type: "certificate", Bytes: pkis[3].Root.X.Raw}}).Draw(t, label+"-otherBlock")
				out = string(pkis[j].Root.PEM) + string(pem.EncodeToMemory(other)) + out
				gen.Class("rot:bundle-with-another-kind-of-pem-block-between-two-roots")
			}
			if kind == "large-text-then-root" || kind == "root-large-text-root" {
				// a site-wide bundle with a lot of explanatory text (ca-certificates style): a listed certificate is
				// listed wherever it stands in the file, also behind megabytes of other content
				size := rapid.SampledFrom([]int{60000, 1<<20 - 2000, 1<<20 - 700, 1<<20 - 300, 1<<20 + 5, 2<<20 + 3, 5 << 20}).Draw(t, label+"-textBytes")
				line := "# " + strings.Repeat("explanatory text ", 4) + "\n"
				text := strings.Repeat(line, size/len(line)+1)[:size-1] + "\n"
				if kind == "root-large-text-root" {
					j := rapid.IntRange(0, 2).Draw(t, label+"-firstRoot")
					listed[j] = true
					out = string(pkis[j].Root.PEM) + text + out
				} else {
					out = text + out
				}
				gen.Class("rot:bundle-with-much-text-before-a-listed-root")
			}
			return out
		}
		var filePaths, fileContents []string
		for i := 0; i < nFiles; i++ {
			switch rapid.IntRange(0, 9).Draw(t, "missing") {
			case 0:
				rot.CabundlePaths = append(rot.CabundlePaths, filepath.Join(dir, "does-not-exist.pem"))
				broken = "missing file"
				continue
			case 1:
				// a path entry that names nothing: blank or white space only
				rot.CabundlePaths = append(rot.CabundlePaths, rapid.SampledFrom([]string{"", " ", "   ", "\t", "\n"}).Draw(t, "blankPath"))
				broken = "blank bundle path"
				continue
			}
			// a listed path is a path: characters that mean something to a shell or to an expansion routine ($VAR, ${VAR},
			// ~, %VAR%, *, white space) are part of the file name. A decoy bundle (a root that is listed nowhere) sits where
			// an expansion of the name would lead.
			base := fmt.Sprintf("bundle-%d-%d.pem", s.Intn(1<<30), i)
			odd := rapid.SampledFrom([]string{"", "", "", "$VERIF_NO_SUCH_VARIABLE_", "${VERIF_NO_SUCH_VARIABLE_}", "$HOME-", "~", "%TEMP%", "a b ", "*", "$$"}).Draw(t, fmt.Sprintf("oddName%d", i))
			p := filepath.Join(dir, odd+base)
			filePaths, fileContents = append(filePaths, p), append(fileContents, bundle(fmt.Sprintf("file%d", i)))
			defer os.Remove(p)
			if exp := os.ExpandEnv(p); exp != p && filepath.Dir(exp) == dir {
				if err := os.WriteFile(exp, gen.NewPKI(gen.PKISpec{Seed: "pki-decoy"}).Root.PEM, 0o644); err == nil {
					defer os.Remove(exp)
				}
				gen.Class("rot:path-with-expansion-characters")
			}
			rot.CabundlePaths = append(rot.CabundlePaths, p)
		}
		for i := 0; i < nInline; i++ {
			rot.Cabundles = append(rot.Cabundles, bundle(fmt.Sprintf("inline%d", i)))
		}
		// every bundle is a list of its own: a certificate that NO bundle lists in one piece - the first half of its PEM
		// block at the end of one bundle, the second half at the start of the next - is listed nowhere
		if all := len(fileContents) + len(rot.Cabundles); broken == "" && all >= 2 && rapid.IntRange(0, 2).Draw(t, "splitAnUnlistedCertificate") == 0 {
			k := rapid.IntRange(0, all-2).Draw(t, "splitAfterBundle")
			lines := strings.SplitAfter(string(pkis[3].Root.PEM), "\n")
			mid := 2 + s.Intn(len(lines)-4)
			head, tail := strings.Join(lines[:mid], ""), strings.Join(lines[mid:], "")
			at := func(i int) *string {
				if i < len(fileContents) {
					return &fileContents[i]
				}
				return &rot.Cabundles[i-len(fileContents)]
			}
			*at(k) = *at(k) + head
			*at(k + 1) = tail + *at(k + 1)
			gen.Class("rot:unlisted-certificate-split-across-two-bundles")
		}
		for i, p := range filePaths {
			if err := os.WriteFile(p, []byte(fileContents[i]), 0o644); err != nil {
				gen.HarnessError(t, "cannot write bundle: %v", err)
			}
		}
		gen.Eval()
		var o *verify.Options
		v := gen.Call(func() error {
			var err error
			o, err = verify.RootOfTrustToOptions(rot)
			return err
		})
		rp := map[string]any{"kind": "rot", "detail": fmt.Sprintf("files=%d inline=%d broken=%q listed=%v", nFiles, nInline, broken, listed)}
		if v.Panicked() {
			gen.Fail(t, gen.Violation{Key: "rot-panic", Oracle: "conversion returns options or an error", Detail: v.Panic, Replay: rp})
			return
		}
		if broken != "" {
			gen.Class("rot:broken:" + broken)
			gen.NonTrivial("broken", broken, nFiles, nInline, fmt.Sprint(listed))
			if v.Accepted() {
				gen.Fail(t, gen.Violation{Key: "rot-accepts-broken-bundle:" + broken, Oracle: "an empty / non-PEM / missing bundle makes the configuration fail rather than silently trusting something else", Detail: rp["detail"].(string), Replay: rp})
			}
			return
		}
		if !v.Accepted() {
			gen.Fail(t, gen.Violation{Key: "rot-rejects-valid-config", Oracle: "a configuration listing PEM certificates converts", Detail: v.String(), Replay: rp})
			return
		}
		if o.CheckRevocations != rot.CheckCrl || o.GetCollateral != rot.GetCollateral {
			gen.Fail(t, gen.Violation{Key: "rot-flags-not-copied", Oracle: "check_crl / get_collateral are taken from the configuration", Detail: fmt.Sprintf("%+v vs %+v", o, rot), Replay: rp})
			return
		}
		none := nFiles == 0 && nInline == 0
		// quotes under each PKI: accepted iff listed (base level, fixed times)
		for i, p := range pkis {
			w := gen.NewWorld(p, gen.NewStream(uint64(i)+1, "c02rotw")).Build()
			oo := *o
			oo.CheckRevocations, oo.GetCollateral = false, false
			ts := w.Times
			oo.Now = &ts
			if (i+nFiles+nInline)%2 == 0 {
				oo.Now = nil // as RootOfTrustToOptions returns it: judged at the real current time
			}
			oo.Getter = gen.FailGetter{}
			gen.Eval()
			vv := gen.Call(func() error { return verify.RawTdxQuote(w.Raw, &oo) })
			want := listed[i] && !none
			if vv.Accepted() != want {
				k := "rot-trusts-unlisted-root"
				if want {
					k = "rot-ignores-listed-root"
				}
				gen.Fail(t, gen.Violation{Key: k, Oracle: "a root-of-trust configuration trusts exactly the certificates it lists", Detail: fmt.Sprintf("PKI %d listed=%v accepted=%v (%s); %s", i, listed[i], vv.Accepted(), vv, rp["detail"]), Replay: rp})
				return
			}
		}
		// the Intel sample: accepted iff no bundles are configured (embedded root)
		at := time.Date(2023, time.July, 1, 1, 0, 0, 0, time.UTC)
		oo := *o
		oo.CheckRevocations, oo.GetCollateral = false, false
		oo.Now = &verify.TimeSet{PckCertChain: at, TcbInfo: at, QeIdentity: at, PckCrl: at, RootCaCrl: at}
		oo.Getter = gen.FailGetter{}
		gen.Eval()
		vs := gen.Call(func() error { return verify.RawTdxQuote(testdata.RawQuote, &oo) })
		if vs.Accepted() != none {
			gen.Fail(t, gen.Violation{Key: fmt.Sprintf("rot-embedded-root:none=%v", none), Oracle: "the embedded Intel root is used exactly when no bundle is configured", Detail: fmt.Sprintf("bundles configured=%v, Intel sample verdict %s", !none, vs), Replay: rp})
			return
		}
		gen.Class(fmt.Sprintf("rot:files=%d,inline=%d", nFiles, nInline))
		gen.NonTrivial("rot", nFiles, nInline, fmt.Sprint(listed))
		gen.Sample("rot", rp["detail"])
	})
	gen.Direct(t, "embedded-root-and-a-re-rooted-sample", func(t *testing.T) {
		intelReRootedCheck(t, "accepted => the leaf chains through the intermediate carried in the quote to a trusted root")
	})
	// The same question asked of the command line tool: which roots are in force when -trusted_roots, a config file with
	// cabundle_paths, both (in either order on the command line) or neither is given? The flag, when given, wins; without
	// any of them the embedded Intel root. A quote is accepted (exit 0) exactly if its root is among the roots in force.
	gen.Direct(t, "check-tool-roots-in-force", func(t *testing.T) {
		tool := os.Getenv("VERIF_CHECK_TOOL")
		if tool == "" {
			gen.HarnessError(t, "VERIF_CHECK_TOOL is not set (the driver builds tools/check from the working tree)")
		}
		sh, _ := gen.Shard()
		dir := filepath.Join(gen.VerifDir(), ".build", "c02tool", fmt.Sprintf("%d-%d", sh, os.Getpid()))
		_ = os.RemoveAll(dir)
		defer os.RemoveAll(dir)
		if err := os.MkdirAll(dir, 0o755); err != nil {
			gen.HarnessError(t, "mkdir: %v", err)
		}
		wr := func(name string, b []byte) string {
			p := filepath.Join(dir, name)
			if err := os.WriteFile(p, b, 0o644); err != nil {
				gen.HarnessError(t, "write %s: %v", p, err)
			}
			return p
		}
		pA, pB := gen.NewPKI(gen.PKISpec{Seed: "pki-A"}), gen.NewPKI(gen.PKISpec{Seed: "pki-B"})
		wA := gen.NewWorld(pA, gen.NewStream(gen.Seed()+2, "c02tool"))
		binary.LittleEndian.PutUint64(wA.Q.Xfam[:], gen.XfamFixed1)
		binary.LittleEndian.PutUint64(wA.Q.TdAttr[:], 0)
		wA.Build()
		rootA, rootB := wr("rootA.pem", pA.Root.PEM), wr("rootB.pem", pB.Root.PEM)
		quotes := map[string]string{"intel-sample": wr("intel.dat", testdata.RawQuote), "own-quote-under-A": wr("a.dat", wA.Raw)}
		rootOf := map[string]string{"intel-sample": "intel", "own-quote-under-A": "A"}
		i := 0
		for _, qn := range []string{"intel-sample", "own-quote-under-A"} {
			for _, flagRoots := range []string{"", "A", "B"} {
				for _, cfgKind := range []string{"none", "policy-only", "roots-A", "roots-B"} {
					for _, text := range []bool{true, false} {
						for _, flagFirst := range []bool{true, false} {
							if cfgKind == "none" && (!text || !flagFirst) {
								continue
							}
							i++
							if !gen.ShardOwns(i) {
								continue
							}
							var args []string
							rootsArg := ""
							if flagRoots != "" {
								rootsArg = "-trusted_roots=" + map[string]string{"A": rootA, "B": rootB}[flagRoots]
							}
							cfgArg := ""
							cfgRoots := ""
							if cfgKind != "none" {
								cfg := &ccpb.Config{Policy: &ccpb.Policy{HeaderPolicy: &ccpb.HeaderPolicy{}, TdQuoteBodyPolicy: &ccpb.TDQuoteBodyPolicy{}}}
								if cfgKind == "roots-A" {
									cfg.RootOfTrust, cfgRoots = &ccpb.RootOfTrust{CabundlePaths: []string{rootA}}, "A"
								}
								if cfgKind == "roots-B" {
									cfg.RootOfTrust, cfgRoots = &ccpb.RootOfTrust{CabundlePaths: []string{rootB}}, "B"
								}
								var b []byte
								name := "config.pb"
								if text {
									b, _ = prototext.Marshal(cfg)
									name = "config.textproto"
								} else {
									b, _ = proto.Marshal(cfg)
								}
								cfgArg = "-config=" + wr(name, b)
							}
							for _, a := range map[bool][]string{true: {rootsArg, cfgArg}, false: {cfgArg, rootsArg}}[flagFirst] {
								if a != "" {
									args = append(args, a)
								}
							}
							args = append(args, "-inform=bin", "-in="+quotes[qn])
							inForce := "intel"
							if cfgRoots != "" {
								inForce = cfgRoots
							}
							if flagRoots != "" {
								inForce = flagRoots
							}
							want := 2
							if inForce == rootOf[qn] {
								want = 0
							}
							c := &c19Case{classes: map[int]string{}, netMode: "unreachable", args: args}
							gen.Eval()
							code, stderr, err := runTool(tool, c)
							if err != nil {
								gen.HarnessError(t, "cannot execute the tool: %v", err)
							}
							gen.NonTrivial("tool-roots", qn, flagRoots, cfgKind, text, flagFirst)
							gen.Class(fmt.Sprintf("tool-roots-in-force:%s,exit%d", inForce, want))
							if code != want {
								gen.Fail(t, gen.Violation{Key: fmt.Sprintf("tool-roots-in-force:exit-%d-instead-of-%d", code, want), Oracle: "a quote is accepted only if its chain ends in a root that is in force: the roots of -trusted_roots when given, else the config's bundles, else the embedded Intel root",
									Detail: fmt.Sprintf("%s, -trusted_roots=%q, config %s (text=%v, flag first=%v): roots in force %s: exit %d, want %d; %s", qn, flagRoots, cfgKind, text, flagFirst, inForce, code, want, lastLine(stderr)), Replay: map[string]any{"kind": "c02-tool", "args": relArgs(args, dir)}})
								return
							}
						}
					}
				}
			}
		}
	})
}
