package props

import (
	"crypto/x509"
	"encoding/hex"
	"encoding/json"
	"errors"
	"fmt"
	"os"
	"runtime"
	"testing"
	"time"

	"github.com/google/go-tdx-guest/abi"
	pb "github.com/google/go-tdx-guest/proto/tdx"
	"github.com/google/go-tdx-guest/verify"
	"google.golang.org/protobuf/proto"
	"verifharness/gen"
)

// replayKinds maps a case kind to a function that re-evaluates the recorded expectation on
// the concrete artifacts, bypassing rapid. It returns "" when the property holds on the case.
var replayKinds = map[string]func(c map[string]any) string{
	"parse": func(c map[string]any) string {
		b, _ := hex.DecodeString(c["raw_hex"].(string))
		if key, oracle, detail := c09Oracle(b); key != "" {
			return fmt.Sprintf("%s (%s): %s", key, oracle, detail)
		}
		return ""
	},
	"verify_raw": replayVerifyRaw,
}

func decodeResponses(c map[string]any) map[string]gen.Response {
	resp := map[string]gen.Response{}
	rs, _ := c["responses"].(map[string]any)
	for u, e := range rs {
		m := e.(map[string]any)
		r := gen.Response{}
		if h, ok := m["header"].(map[string]any); ok {
			r.Header = map[string][]string{}
			for k, v := range h {
				for _, x := range v.([]any) {
					r.Header[k] = append(r.Header[k], x.(string))
				}
				if len(v.([]any)) == 0 {
					r.Header[k] = []string{}
				}
			}
		}
		if bh, ok := m["body_hex"].(string); ok {
			r.Body, _ = hex.DecodeString(bh)
		}
		if es, ok := m["error"].(string); ok {
			r.Err = errors.New(es)
		}
		resp[u] = r
	}
	return resp
}

func decodeOptions(c map[string]any) (*verify.Options, *gen.Getter) {
	g := &gen.Getter{Resp: decodeResponses(c), Script: map[string][]gen.Response{}}
	o := &verify.Options{Getter: g}
	if pemS, ok := c["roots_pem"].(string); ok {
		pool := x509.NewCertPool()
		pool.AppendCertsFromPEM([]byte(pemS))
		o.TrustedRoots = pool
	}
	if c["embedded_root"] == true {
		o.TrustedRoots = nil
	}
	if ts, ok := c["times"].([]any); ok && len(ts) == 5 {
		var tt [5]time.Time
		for i := range tt {
			tt[i], _ = time.Parse(time.RFC3339, ts[i].(string))
		}
		o.Now = &verify.TimeSet{PckCertChain: tt[0], TcbInfo: tt[1], QeIdentity: tt[2], PckCrl: tt[3], RootCaCrl: tt[4]}
	}
	switch gen.Level(int(c["level"].(float64))) {
	case gen.LvlColl:
		o.GetCollateral = true
	case gen.LvlCRL:
		o.GetCollateral, o.CheckRevocations = true, true
	case gen.LvlCRLNoColl:
		o.CheckRevocations = true
	}
	return o, g
}

func replayVerifyRaw(c map[string]any) string {
	raw, _ := hex.DecodeString(c["raw_hex"].(string))
	o, _ := decodeOptions(c)
	if n, ok := c["gomaxprocs"].(float64); ok && n >= 1 {
		defer runtime.GOMAXPROCS(runtime.GOMAXPROCS(int(n)))
	}
	if k, ok := c["prehistory"].(float64); ok {
		optionsPrehistory(raw, o, int(k), nil)
	}
	v := gen.Call(func() error { return verify.RawTdxQuote(raw, o) })
	if ph, ok := c["proto_hex"].(string); ok {
		// the case is a message (which raw bytes cannot express, e.g. a field of another size): raw_hex is the genuine quote
		pbytes, _ := hex.DecodeString(ph)
		m := &pb.QuoteV4{}
		if err := proto.Unmarshal(pbytes, m); err != nil {
			return "case file does not hold a message: " + err.Error()
		}
		v = gen.Call(func() error { return verify.TdxQuote(m, o) })
	}
	if c["then_supported"] == true && !v.Panicked() {
		if m, err := abi.QuoteToProto(raw); err == nil {
			v = gen.Call(func() error { _, _, err := verify.SupportedTcbLevelsFromCollateral(m, o); return err })
		}
	}
	switch c["expect"] {
	case "reject":
		if v.Accepted() {
			return "expected rejection, verification accepted"
		}
	case "accept":
		if !v.Accepted() {
			return "expected acceptance, got " + v.String()
		}
	case "nopanic":
		if v.Panicked() {
			return "crashed: " + v.Panic
		}
	case "links":
		if v.Accepted() && !gen.RefLinks(raw).AllHold() {
			return fmt.Sprintf("accepted although the reference link verifier says %+v", gen.RefLinks(raw))
		}
	}
	return ""
}

// TestReplayFile is the plain regression entry: ./vcheck replay <file>.
func TestReplayFile(t *testing.T) {
	path := os.Getenv("VERIF_REPLAY_FILE")
	if path == "" {
		t.Skip("no replay file")
	}
	b, err := os.ReadFile(path)
	if err != nil {
		t.Fatal(err)
	}
	var v gen.Violation
	if err := json.Unmarshal(b, &v); err != nil {
		t.Fatal(err)
	}
	kind, _ := v.Replay["kind"].(string)
	f, ok := replayKinds[kind]
	if !ok {
		fmt.Println("REPLAY-UNSUPPORTED kind=" + kind)
		return
	}
	if msg := f(v.Replay); msg != "" {
		fmt.Printf("REPLAY-VIOLATION property=%s key=%s %s\n", v.Property, v.Key, msg)
		return
	}
	fmt.Println("REPLAY-OK")
}

// TestReplaysOfFixedFindings re-runs every committed replay (regression tier, seconds long).
func replayDir(t *testing.T, prop string) {
	if sh, _ := gen.Shard(); sh != 0 {
		return // the regression tier runs once, in shard 0
	}
	entries, _ := os.ReadDir(gen.VerifDir() + "/replays/fixed")
	for _, e := range entries {
		if e.IsDir() || len(e.Name()) < 4 || e.Name()[:3] != prop {
			continue
		}
		b, err := os.ReadFile(gen.VerifDir() + "/replays/fixed/" + e.Name())
		if err != nil {
			continue
		}
		var v gen.Violation
		if json.Unmarshal(b, &v) != nil {
			continue
		}
		kind, _ := v.Replay["kind"].(string)
		f, ok := replayKinds[kind]
		if !ok {
			continue
		}
		name := e.Name()
		gen.Direct(t, "regress:"+name, func(t *testing.T) {
			gen.Eval()
			gen.Class("regression-replays")
			if msg := f(v.Replay); msg != "" {
				vv := v
				vv.Detail = "regression of a fixed finding: " + msg
				gen.Fail(t, vv)
			}
		})
	}
}

func withFields(c map[string]any, extra map[string]any) map[string]any {
	for k, v := range extra {
		c[k] = v
	}
	return c
}
