package props

import (
	"bufio"
	"crypto/ecdsa"
	"crypto/elliptic"
	"crypto/rand"
	"crypto/tls"
	"crypto/x509"
	"crypto/x509/pkix"
	"encoding/pem"
	"fmt"
	"math/big"
	"net"
	"net/http"
	"os"
	"path/filepath"
	"strings"
	"sync"
	"time"

	"verifharness/gen"
)

// fakePCS is an in-process stand-in for Intel's PCS that a separately executed tool reaches
// through HTTPS_PROXY + SSL_CERT_FILE: a CONNECT proxy that terminates TLS with certificates
// issued on the fly by its own CA and answers from the current case's response map.
type fakePCS struct {
	ln     net.Listener
	caKey  *ecdsa.PrivateKey
	caCert *x509.Certificate
	caFile string

	mu    sync.Mutex
	resp  map[string]gen.Response
	hits  []string
	certs map[string]*tls.Certificate
}

func startFakePCS(dir string) (*fakePCS, error) {
	ln, err := net.Listen("tcp", "127.0.0.1:0")
	if err != nil {
		return nil, err
	}
	key, err := ecdsa.GenerateKey(elliptic.P256(), rand.Reader)
	if err != nil {
		return nil, err
	}
	tmpl := &x509.Certificate{SerialNumber: big.NewInt(1), Subject: pkix.Name{CommonName: "verif fake PCS CA"}, NotBefore: time.Now().Add(-time.Hour), NotAfter: time.Now().Add(240 * time.Hour),
		IsCA: true, BasicConstraintsValid: true, KeyUsage: x509.KeyUsageCertSign | x509.KeyUsageDigitalSignature}
	der, err := x509.CreateCertificate(rand.Reader, tmpl, tmpl, &key.PublicKey, key)
	if err != nil {
		return nil, err
	}
	ca, _ := x509.ParseCertificate(der)
	f := &fakePCS{ln: ln, caKey: key, caCert: ca, certs: map[string]*tls.Certificate{}, resp: map[string]gen.Response{}}
	f.caFile = filepath.Join(dir, "fake-pcs-ca.pem")
	if err := os.WriteFile(f.caFile, pem.EncodeToMemory(&pem.Block{Type: "CERTIFICATE", Bytes: der}), 0o644); err != nil {
		return nil, err
	}
	go f.serve()
	return f, nil
}

func (f *fakePCS) env() []string {
	return []string{"HTTPS_PROXY=http://" + f.ln.Addr().String(), "https_proxy=http://" + f.ln.Addr().String(), "SSL_CERT_FILE=" + f.caFile, "SSL_CERT_DIR=/nonexistent-verif", "NO_PROXY=", "no_proxy="}
}

func (f *fakePCS) set(resp map[string]gen.Response) {
	f.mu.Lock()
	f.resp = resp
	f.hits = nil
	f.mu.Unlock()
}

func (f *fakePCS) requests() []string {
	f.mu.Lock()
	defer f.mu.Unlock()
	return append([]string{}, f.hits...)
}

func (f *fakePCS) certFor(host string) (*tls.Certificate, error) {
	f.mu.Lock()
	defer f.mu.Unlock()
	if c, ok := f.certs[host]; ok {
		return c, nil
	}
	key, err := ecdsa.GenerateKey(elliptic.P256(), rand.Reader)
	if err != nil {
		return nil, err
	}
	tmpl := &x509.Certificate{SerialNumber: big.NewInt(int64(len(f.certs) + 2)), Subject: pkix.Name{CommonName: host}, DNSNames: []string{host},
		NotBefore: time.Now().Add(-time.Hour), NotAfter: time.Now().Add(240 * time.Hour), KeyUsage: x509.KeyUsageDigitalSignature, ExtKeyUsage: []x509.ExtKeyUsage{x509.ExtKeyUsageServerAuth}}
	der, err := x509.CreateCertificate(rand.Reader, tmpl, f.caCert, &key.PublicKey, f.caKey)
	if err != nil {
		return nil, err
	}
	c := &tls.Certificate{Certificate: [][]byte{der}, PrivateKey: key}
	f.certs[host] = c
	return c, nil
}

func (f *fakePCS) serve() {
	for {
		conn, err := f.ln.Accept()
		if err != nil {
			return
		}
		go f.handle(conn)
	}
}

func (f *fakePCS) handle(conn net.Conn) {
	defer conn.Close()
	_ = conn.SetDeadline(time.Now().Add(20 * time.Second))
	br := bufio.NewReader(conn)
	req, err := http.ReadRequest(br)
	if err != nil || req.Method != http.MethodConnect {
		fmt.Fprint(conn, "HTTP/1.1 405 Method Not Allowed\r\nConnection: close\r\n\r\n")
		return
	}
	host := req.URL.Hostname()
	if host == "" {
		host = strings.Split(req.Host, ":")[0]
	}
	fmt.Fprint(conn, "HTTP/1.1 200 Connection established\r\n\r\n")
	tc := tls.Server(conn, &tls.Config{GetCertificate: func(h *tls.ClientHelloInfo) (*tls.Certificate, error) {
		n := h.ServerName
		if n == "" {
			n = host
		}
		return f.certFor(n)
	}})
	if err := tc.Handshake(); err != nil {
		return
	}
	defer tc.Close()
	tr := bufio.NewReader(tc)
	for {
		r, err := http.ReadRequest(tr)
		if err != nil {
			return
		}
		u := "https://" + host + r.URL.RequestURI()
		f.mu.Lock()
		f.hits = append(f.hits, u)
		resp, ok := f.resp[u]
		f.mu.Unlock()
		status := "200 OK"
		var body []byte
		hdr := ""
		switch {
		case !ok:
			status, body = "404 Not Found", []byte("not found")
		case resp.Err != nil:
			status, body = "503 Service Unavailable", []byte("scripted failure")
		default:
			body = resp.Body
			for k, vs := range resp.Header {
				for _, v := range vs {
					hdr += k + ": " + v + "\r\n"
				}
			}
		}
		fmt.Fprintf(tc, "HTTP/1.1 %s\r\n%sContent-Length: %d\r\nConnection: close\r\n\r\n", status, hdr, len(body))
		_, _ = tc.Write(body)
		return
	}
}
