package props

import (
	"bytes"
	"fmt"
	"reflect"
	"testing"

	"github.com/google/go-tdx-guest/abi"
	pb "github.com/google/go-tdx-guest/proto/tdx"
	"google.golang.org/protobuf/proto"
	"pgregory.net/rapid"
	"verifharness/gen"
)

// scribble overwrites, in place, every byte of every byte string reachable from the message.
func scribble(v reflect.Value) {
	if v.Kind() == reflect.Ptr {
		if v.IsNil() {
			return
		}
		v = v.Elem()
	}
	if v.Kind() != reflect.Struct {
		return
	}
	for i := 0; i < v.NumField(); i++ {
		if !v.Type().Field(i).IsExported() {
			continue
		}
		fv := v.Field(i)
		switch {
		case fv.Type() == bytesType:
			b := fv.Bytes()
			for j := range b {
				b[j] ^= 0xa5
			}
		case fv.Type() == bytesListType:
			for k := 0; k < fv.Len(); k++ {
				b := fv.Index(k).Bytes()
				for j := range b {
					b[j] ^= 0xa5
				}
			}
		case fv.Kind() == reflect.Ptr:
			scribble(fv)
		}
	}
}

// c09Histories: parsing is a function of the bytes. A caller that edits a parsed message in place (it owns it) does
// not change what later parses return - of the same bytes, or of other quotes that carry the same certificate chain.
func c09Histories(t *testing.T) {
	gen.Prop(t, "parsed-messages-are-independent", gen.N(1500, 100000), func(t *rapid.T) {
		s := gen.NewStream(rapid.Uint64().Draw(t, "content"), "c09h")
		chainLen := rapid.SampledFrom([]int{0, 10, 300, 3600}).Draw(t, "chain")
		a := gen.RandomRefQuote(s, rapid.SampledFrom([]int{0, 32, 64}).Draw(t, "auth"), chainLen, rapid.SampledFrom([]int{0, 5}).Draw(t, "extra"))
		b := gen.RandomRefQuote(s, 32, chainLen, 0)
		b.Chain = append([]byte{}, a.Chain...) // another quote of the same platform: same certification data
		b.FixSizes()
		rawA, rawB := a.Encode(), b.Encode()
		var hist []string
		parse := func(raw []byte, name string) *pb.QuoteV4 {
			gen.Eval()
			m, err := abi.QuoteToProto(append([]byte{}, raw...))
			hist = append(hist, "parse "+name)
			if err != nil {
				gen.Fail(t, gen.Violation{Key: "history:rejects-wellformed", Oracle: "accepts exactly the byte strings that follow the v4 layout", Detail: fmt.Sprintf("after %v: %v", hist, err), Replay: map[string]any{"kind": "parse", "raw_hex": gen.Hex(raw)}})
				return nil
			}
			q := m.(*pb.QuoteV4)
			back, err := abi.QuoteToAbiBytes(q)
			if err != nil || !bytes.Equal(back, raw) {
				gen.Fail(t, gen.Violation{Key: "history:roundtrip-bytes", Oracle: "parse-then-serialise reproduces the quote byte for byte (whatever was parsed, and done to the results, before)", Detail: fmt.Sprintf("after %v: err=%v %s", hist, err, firstDiff(back, raw)), Replay: map[string]any{"kind": "parse", "raw_hex": gen.Hex(raw)}})
				return nil
			}
			return q
		}
		var held []*pb.QuoteV4
		for i, n := 0, rapid.IntRange(3, 8).Draw(t, "steps"); i < n; i++ {
			switch rapid.SampledFrom([]string{"parseA", "parseA", "parseB", "edit-in-place", "edit-in-place"}).Draw(t, "step") {
			case "parseA":
				if m := parse(rawA, "A"); m != nil {
					held = append(held, m)
				} else {
					return
				}
			case "parseB":
				if m := parse(rawB, "B"); m != nil {
					held = append(held, m)
				} else {
					return
				}
			default:
				if len(held) > 0 {
					k := s.Intn(len(held))
					scribble(reflect.ValueOf(held[k]))
					held = append(held[:k], held[k+1:]...)
					hist = append(hist, "edit a parsed message in place")
				}
			}
		}
		// the messages still held (never edited) are what they were
		for _, m := range held {
			back, err := abi.QuoteToAbiBytes(m)
			if err != nil || (!bytes.Equal(back, rawA) && !bytes.Equal(back, rawB)) {
				gen.Fail(t, gen.Violation{Key: "history:held-message-changed", Oracle: "a parsed message does not change when other parsed messages are edited", Detail: fmt.Sprintf("after %v: a message nobody edited no longer serialises to its quote (err=%v)", hist, err), Replay: map[string]any{"kind": "parse", "raw_hex": gen.Hex(rawA)}})
				return
			}
		}
		_ = proto.Equal
		gen.NonTrivial("c09hist", fmt.Sprint(hist), rawA[:40])
		gen.Class("history:parsed-messages")
	})
	// Inputs whose TOTAL length is a round number (the 16 KiB buffer of the guest driver, other powers of two and their
	// neighbours), the bytes behind the signed data all zero, ending in zero bytes, or not: every byte is part of the quote.
	gen.Direct(t, "round-total-lengths-with-zero-tails", func(t *testing.T) {
		i := 0
		for _, total := range []int{4096, 8191, 8192, 8193, 16383, 16384, 16385, 32768, 65535, 65536, 65537} {
			for _, tail := range []string{"all-zero", "ends-in-one-zero", "ends-in-many-zeros", "ends-in-ff", "zero-then-one"} {
				i++
				if !gen.ShardOwns(i) {
					continue
				}
				s := gen.NewStream(gen.Seed()+uint64(i), "c09round")
				q := gen.RandomRefQuote(s, 32, 100, 0)
				base := len(q.Encode())
				if total <= base {
					continue
				}
				extra := s.Bytes(total - base)
				switch tail {
				case "all-zero":
					extra = make([]byte, total-base)
				case "ends-in-one-zero":
					extra[len(extra)-1] = 0
					if len(extra) > 1 {
						extra[len(extra)-2] = 0x5a
					}
				case "ends-in-many-zeros":
					for k := len(extra) / 2; k < len(extra); k++ {
						extra[k] = 0
					}
				case "ends-in-ff":
					extra[len(extra)-1] = 0xff
				default:
					for k := range extra {
						extra[k] = 0
					}
					extra[len(extra)-1] = 1
				}
				q.Extra = extra
				q.FixSizes()
				raw := q.Encode()
				if len(raw) != total {
					gen.HarnessError(t, "own quote has %d bytes, wanted %d", len(raw), total)
				}
				c09Check(t, raw, fmt.Sprintf("total length %d, bytes behind the signed data %s", total, tail))
				gen.NonTrivial("round", total, tail)
				gen.Class("round-total-length")
			}
		}
	})
	// A quote may be large: certification data and trailing bytes are bounded by their 32-bit size fields only.
	gen.Direct(t, "large-quotes", func(t *testing.T) {
		for i, size := range []int{1 << 20, 16<<20 - 700, 16 << 20, 16<<20 + 1, 20 << 20} {
			if !gen.ShardOwns(i) {
				continue
			}
			for _, where := range []string{"chain", "extra"} {
				s := gen.NewStream(gen.Seed()+uint64(i), "c09big")
				q := gen.RandomRefQuote(s, 32, 100, 0)
				filler := bytes.Repeat(s.Bytes(64), size/64+1)[:size]
				if where == "chain" {
					q.Chain = filler
				} else {
					q.Extra = filler
				}
				q.FixSizes()
				raw := q.Encode()
				gen.Eval()
				m, err := abi.QuoteToProto(raw)
				if err != nil {
					gen.Fail(t, gen.Violation{Key: "rejects-wellformed:large-" + where, Oracle: "accepts exactly the byte strings that follow the v4 layout", Detail: fmt.Sprintf("a well-formed quote of %d bytes (%s of %d bytes): %v", len(raw), where, size, err), Replay: map[string]any{"kind": "c09-large", "where": where, "size": size}})
					return
				}
				back, err := abi.QuoteToAbiBytes(m)
				if err != nil || !bytes.Equal(back, raw) {
					gen.Fail(t, gen.Violation{Key: "roundtrip-bytes:large-" + where, Oracle: "parse-then-serialise reproduces the quote byte for byte", Detail: fmt.Sprintf("quote of %d bytes: err=%v %s", len(raw), err, firstDiff(back, raw)), Replay: map[string]any{"kind": "c09-large", "where": where, "size": size}})
					return
				}
				gen.NonTrivial("large", where, size)
				gen.Class("large-quote:" + where)
			}
		}
	})
}

func init() {
	replayKinds["c09-large"] = func(c map[string]any) string {
		size := int(c["size"].(float64))
		q := gen.RandomRefQuote(gen.NewStream(1, "c09big"), 32, 100, 0)
		filler := bytes.Repeat([]byte("0123456789abcdef"), size/16+1)[:size]
		if c["where"] == "chain" {
			q.Chain = filler
		} else {
			q.Extra = filler
		}
		q.FixSizes()
		raw := q.Encode()
		m, err := abi.QuoteToProto(raw)
		if err != nil {
			return fmt.Sprintf("a well-formed quote of %d bytes is rejected: %v", len(raw), err)
		}
		if back, err := abi.QuoteToAbiBytes(m); err != nil || !bytes.Equal(back, raw) {
			return "a large quote does not survive the round trip"
		}
		return ""
	}
}
