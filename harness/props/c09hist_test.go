package props

import (
	"bytes"
	"encoding/hex"
	"fmt"
	"google.golang.org/protobuf/reflect/protoreflect"
	"reflect"
	"strings"
	"testing"

	"github.com/google/go-tdx-guest/abi"
	pb "github.com/google/go-tdx-guest/proto/tdx"
	"google.golang.org/protobuf/proto"
	"pgregory.net/rapid"
	"verifharness/gen"
)

// scribble overwrites, in place, every byte of every byte string reachable from the message.
func scribble(v reflect.Value) {
	if v.Kind() == reflect.Ptr {
		if v.IsNil() {
			return
		}
		v = v.Elem()
	}
	if v.Kind() != reflect.Struct {
		return
	}
	for i := 0; i < v.NumField(); i++ {
		if !v.Type().Field(i).IsExported() {
			continue
		}
		fv := v.Field(i)
		switch {
		case fv.Type() == bytesType:
			b := fv.Bytes()
			for j := range b {
				b[j] ^= 0xa5
			}
		case fv.Type() == bytesListType:
			for k := 0; k < fv.Len(); k++ {
				b := fv.Index(k).Bytes()
				for j := range b {
					b[j] ^= 0xa5
				}
			}
		case fv.Kind() == reflect.Ptr:
			scribble(fv)
		}
	}
}

// c09Histories: parsing is a function of the bytes. A caller that edits a parsed message in place (it owns it) does
// not change what later parses return - of the same bytes, or of other quotes that carry the same certificate chain.
func c09Histories(t *testing.T) {
	// two different quotes of the same length that agree under a cheap checksum (any CRC-32 / CRC-64 polynomial,
	// Adler-32, byte sums), parsed one after the other: each parse is a function of ITS bytes
	gen.Prop(t, "checksum-twins-parsed-in-a-row", gen.N(600, 40000), func(t *rapid.T) {
		s := gen.NewStream(rapid.Uint64().Draw(t, "content"), "c09tw")
		a := gen.RandomRefQuote(s, rapid.SampledFrom([]int{0, 32, 64}).Draw(t, "auth"), rapid.SampledFrom([]int{0, 10, 300, 3600}).Draw(t, "chain"), rapid.SampledFrom([]int{0, 5}).Draw(t, "extra"))
		rawA := a.Encode()
		rawB := append([]byte{}, rawA...)
		// B differs from A somewhere in the header's user data or the body, and has free bytes elsewhere in the body
		rawB[28+s.Intn(20+584)] ^= byte(1 + s.Intn(255))
		tw := gen.ChecksumTwins[rapid.IntRange(0, len(gen.ChecksumTwins)-1).Draw(t, "checksum")]
		pos := 48 + rapid.SampledFrom([]int{16, 64, 136, 184, 280, 328, 520}).Draw(t, "freeBytesAt") + s.Intn(40)
		if !tw.Twin(rawA, rawB, pos) || bytes.Equal(rawA, rawB) {
			t.Skip("no twin")
		}
		order := rapid.SampledFrom([]string{"AB", "ABA", "BAB", "AAB", "ABBA"}).Draw(t, "order")
		for i, c := range order {
			raw := map[rune][]byte{'A': rawA, 'B': rawB}[c]
			gen.Eval()
			m, err := abi.QuoteToProto(append([]byte{}, raw...))
			if err != nil {
				gen.Fail(t, gen.Violation{Key: "history:rejects-wellformed", Oracle: "accepts exactly the byte strings that follow the v4 layout", Detail: fmt.Sprintf("parse %d of %s (twins under %s): %v", i+1, order, tw.Name, err), Replay: map[string]any{"kind": "c09-twins", "a_hex": gen.Hex(rawA), "b_hex": gen.Hex(rawB), "order": order}})
				return
			}
			back, err := abi.QuoteToAbiBytes(m.(*pb.QuoteV4))
			if err != nil || !bytes.Equal(back, raw) {
				gen.Fail(t, gen.Violation{Key: "history:roundtrip-bytes:checksum-twins", Oracle: "parse-then-serialise reproduces the quote byte for byte (whatever was parsed before)", Detail: fmt.Sprintf("parse %d of %s, A and B having the same length and the same %s: err=%v %s", i+1, order, tw.Name, err, firstDiff(back, raw)), Replay: map[string]any{"kind": "c09-twins", "a_hex": gen.Hex(rawA), "b_hex": gen.Hex(rawB), "order": order}})
				return
			}
		}
		gen.NonTrivial("c09twins", tw.Name, order, rawA[48:80])
		gen.Class("history:checksum-twins:" + tw.Name)
	})
	// a parsed message belongs to the caller: a bytes field REPLACED by assignment (not edited in place) is what the
	// serialiser writes, whichever field it is
	gen.Prop(t, "parsed-message-with-a-field-replaced", gen.N(1500, 100000), func(t *rapid.T) {
		s := gen.NewStream(rapid.Uint64().Draw(t, "content"), "c09rep")
		a := gen.RandomRefQuote(s, rapid.SampledFrom([]int{0, 32, 64}).Draw(t, "auth"), rapid.SampledFrom([]int{0, 10, 300}).Draw(t, "chain"), rapid.SampledFrom([]int{0, 5}).Draw(t, "extra"))
		raw := a.Encode()
		gen.Eval()
		m0, err := abi.QuoteToProto(append([]byte{}, raw...))
		if err != nil {
			gen.Fail(t, gen.Violation{Key: "history:rejects-wellformed", Oracle: "accepts exactly the byte strings that follow the v4 layout", Detail: err.Error(), Replay: map[string]any{"kind": "parse", "raw_hex": gen.Hex(raw)}})
			return
		}
		q := m0.(*pb.QuoteV4)
		if rapid.Bool().Draw(t, "throughClone") {
			q = proto.Clone(q).(*pb.QuoteV4)
		}
		// every non-empty bytes field of the message tree, in a fixed order
		type slot struct {
			msg  protoreflect.Message
			fd   protoreflect.FieldDescriptor
			path string
		}
		var slots []slot
		var walk func(m protoreflect.Message, path string)
		walk = func(m protoreflect.Message, path string) {
			fds := m.Descriptor().Fields()
			for i := 0; i < fds.Len(); i++ {
				fd := fds.Get(i)
				switch {
				case fd.IsList() || fd.IsMap():
				case fd.Kind() == protoreflect.BytesKind && len(m.Get(fd).Bytes()) > 0:
					slots = append(slots, slot{m, fd, path + string(fd.Name())})
				case fd.Kind() == protoreflect.MessageKind && m.Has(fd):
					walk(m.Get(fd).Message(), path+string(fd.Name())+".")
				}
			}
		}
		walk(q.ProtoReflect(), "")
		if len(slots) == 0 {
			t.Skip("no bytes fields")
		}
		nrep := rapid.IntRange(1, 2).Draw(t, "replacements")
		var names []string
		for r := 0; r < nrep; r++ {
			sl := slots[rapid.IntRange(0, len(slots)-1).Draw(t, "field")]
			old := sl.msg.Get(sl.fd).Bytes()
			nv := s.Bytes(len(old))
			nv[0] = old[0] ^ 0x5a
			sl.msg.Set(sl.fd, protoreflect.ValueOfBytes(nv))
			names = append(names, sl.path)
		}
		gen.Eval()
		back, err := abi.QuoteToAbiBytes(q)
		if err != nil {
			// (a replaced field may make the message unserialisable - e.g. a signature component; that is a refusal)
			gen.Class("history:field-replaced:refused")
			return
		}
		m1, err := abi.QuoteToProto(append([]byte{}, back...))
		if err != nil {
			gen.Class("history:field-replaced:bytes-refused")
			return
		}
		if !proto.Equal(q, m1.(*pb.QuoteV4)) {
			gen.Fail(t, gen.Violation{Key: "history:roundtrip-message:field-replaced:" + names[0], Oracle: "serialise-then-parse reproduces the message (a parsed message whose field the caller replaced included)", Detail: fmt.Sprintf("parsed message with %v replaced by assignment: the serialised bytes parse to another message", names), Replay: map[string]any{"kind": "c09-field-replaced", "raw_hex": gen.Hex(raw), "fields": names}})
			return
		}
		gen.NonTrivial("c09rep", names, raw[:40])
		gen.Class("history:field-replaced:" + names[0])
	})
	gen.Prop(t, "parsed-messages-are-independent", gen.N(1500, 100000), func(t *rapid.T) {
		s := gen.NewStream(rapid.Uint64().Draw(t, "content"), "c09h")
		chainLen := rapid.SampledFrom([]int{0, 10, 300, 3600}).Draw(t, "chain")
		a := gen.RandomRefQuote(s, rapid.SampledFrom([]int{0, 32, 64}).Draw(t, "auth"), chainLen, rapid.SampledFrom([]int{0, 5}).Draw(t, "extra"))
		b := gen.RandomRefQuote(s, 32, chainLen, 0)
		b.Chain = append([]byte{}, a.Chain...) // another quote of the same platform: same certification data
		b.FixSizes()
		rawA, rawB := a.Encode(), b.Encode()
		var hist []string
		parse := func(raw []byte, name string) *pb.QuoteV4 {
			gen.Eval()
			m, err := abi.QuoteToProto(append([]byte{}, raw...))
			hist = append(hist, "parse "+name)
			if err != nil {
				gen.Fail(t, gen.Violation{Key: "history:rejects-wellformed", Oracle: "accepts exactly the byte strings that follow the v4 layout", Detail: fmt.Sprintf("after %v: %v", hist, err), Replay: map[string]any{"kind": "parse", "raw_hex": gen.Hex(raw)}})
				return nil
			}
			q := m.(*pb.QuoteV4)
			back, err := abi.QuoteToAbiBytes(q)
			if err != nil || !bytes.Equal(back, raw) {
				gen.Fail(t, gen.Violation{Key: "history:roundtrip-bytes", Oracle: "parse-then-serialise reproduces the quote byte for byte (whatever was parsed, and done to the results, before)", Detail: fmt.Sprintf("after %v: err=%v %s", hist, err, firstDiff(back, raw)), Replay: map[string]any{"kind": "parse", "raw_hex": gen.Hex(raw)}})
				return nil
			}
			// the serialised bytes are the caller's too: overwritten, they change neither the message nor what a second
			// serialisation returns
			for i := range back {
				back[i] ^= 0xff
			}
			if again, err := abi.QuoteToAbiBytes(q); err != nil || !bytes.Equal(again, raw) {
				gen.Fail(t, gen.Violation{Key: "history:serialised-bytes-alias-the-message", Oracle: "parse-then-serialise reproduces the quote byte for byte (whatever was parsed, and done to the results, before)", Detail: fmt.Sprintf("after %v: the caller overwrote the bytes QuoteToAbiBytes returned; a second serialisation of the same message: err=%v %s", hist, err, firstDiff(again, raw)), Replay: map[string]any{"kind": "parse", "raw_hex": gen.Hex(raw)}})
				return nil
			}
			return q
		}
		var held []*pb.QuoteV4
		for i, n := 0, rapid.IntRange(3, 8).Draw(t, "steps"); i < n; i++ {
			switch rapid.SampledFrom([]string{"parseA", "parseA", "parseB", "edit-in-place", "edit-in-place"}).Draw(t, "step") {
			case "parseA":
				if m := parse(rawA, "A"); m != nil {
					held = append(held, m)
				} else {
					return
				}
			case "parseB":
				if m := parse(rawB, "B"); m != nil {
					held = append(held, m)
				} else {
					return
				}
			default:
				if len(held) > 0 {
					k := s.Intn(len(held))
					scribble(reflect.ValueOf(held[k]))
					held = append(held[:k], held[k+1:]...)
					hist = append(hist, "edit a parsed message in place")
				}
			}
		}
		// the messages still held (never edited) are what they were
		for _, m := range held {
			back, err := abi.QuoteToAbiBytes(m)
			if err != nil || (!bytes.Equal(back, rawA) && !bytes.Equal(back, rawB)) {
				gen.Fail(t, gen.Violation{Key: "history:held-message-changed", Oracle: "a parsed message does not change when other parsed messages are edited", Detail: fmt.Sprintf("after %v: a message nobody edited no longer serialises to its quote (err=%v)", hist, err), Replay: map[string]any{"kind": "parse", "raw_hex": gen.Hex(rawA)}})
				return
			}
		}
		_ = proto.Equal
		gen.NonTrivial("c09hist", fmt.Sprint(hist), rawA[:40])
		gen.Class("history:parsed-messages")
	})
	// Inputs whose TOTAL length is a round number (the 16 KiB buffer of the guest driver, other powers of two and their
	// neighbours), the bytes behind the signed data all zero, ending in zero bytes, or not: every byte is part of the quote.
	gen.Direct(t, "round-total-lengths-with-zero-tails", func(t *testing.T) {
		i := 0
		for _, total := range []int{4096, 8191, 8192, 8193, 16383, 16384, 16385, 32768, 65535, 65536, 65537} {
			for _, tail := range []string{"all-zero", "ends-in-one-zero", "ends-in-many-zeros", "ends-in-ff", "zero-then-one"} {
				i++
				if !gen.ShardOwns(i) {
					continue
				}
				s := gen.NewStream(gen.Seed()+uint64(i), "c09round")
				q := gen.RandomRefQuote(s, 32, 100, 0)
				base := len(q.Encode())
				if total <= base {
					continue
				}
				extra := s.Bytes(total - base)
				switch tail {
				case "all-zero":
					extra = make([]byte, total-base)
				case "ends-in-one-zero":
					extra[len(extra)-1] = 0
					if len(extra) > 1 {
						extra[len(extra)-2] = 0x5a
					}
				case "ends-in-many-zeros":
					for k := len(extra) / 2; k < len(extra); k++ {
						extra[k] = 0
					}
				case "ends-in-ff":
					extra[len(extra)-1] = 0xff
				default:
					for k := range extra {
						extra[k] = 0
					}
					extra[len(extra)-1] = 1
				}
				q.Extra = extra
				q.FixSizes()
				raw := q.Encode()
				if len(raw) != total {
					gen.HarnessError(t, "own quote has %d bytes, wanted %d", len(raw), total)
				}
				c09Check(t, raw, fmt.Sprintf("total length %d, bytes behind the signed data %s", total, tail))
				gen.NonTrivial("round", total, tail)
				gen.Class("round-total-length")
			}
		}
	})
	// A quote may be large: certification data and trailing bytes are bounded by their 32-bit size fields only.
	gen.Direct(t, "large-quotes", func(t *testing.T) {
		for i, size := range []int{1 << 20, 16<<20 - 700, 16 << 20, 16<<20 + 1, 20 << 20} {
			if !gen.ShardOwns(i) {
				continue
			}
			for _, where := range []string{"chain", "extra"} {
				s := gen.NewStream(gen.Seed()+uint64(i), "c09big")
				q := gen.RandomRefQuote(s, 32, 100, 0)
				filler := bytes.Repeat(s.Bytes(64), size/64+1)[:size]
				if where == "chain" {
					q.Chain = filler
				} else {
					q.Extra = filler
				}
				q.FixSizes()
				raw := q.Encode()
				gen.Eval()
				m, err := abi.QuoteToProto(raw)
				if err != nil {
					gen.Fail(t, gen.Violation{Key: "rejects-wellformed:large-" + where, Oracle: "accepts exactly the byte strings that follow the v4 layout", Detail: fmt.Sprintf("a well-formed quote of %d bytes (%s of %d bytes): %v", len(raw), where, size, err), Replay: map[string]any{"kind": "c09-large", "where": where, "size": size}})
					return
				}
				back, err := abi.QuoteToAbiBytes(m)
				if err != nil || !bytes.Equal(back, raw) {
					gen.Fail(t, gen.Violation{Key: "roundtrip-bytes:large-" + where, Oracle: "parse-then-serialise reproduces the quote byte for byte", Detail: fmt.Sprintf("quote of %d bytes: err=%v %s", len(raw), err, firstDiff(back, raw)), Replay: map[string]any{"kind": "c09-large", "where": where, "size": size}})
					return
				}
				gen.NonTrivial("large", where, size)
				gen.Class("large-quote:" + where)
			}
		}
	})
}

func init() {
	replayKinds["c09-large"] = func(c map[string]any) string {
		size := int(c["size"].(float64))
		q := gen.RandomRefQuote(gen.NewStream(1, "c09big"), 32, 100, 0)
		filler := bytes.Repeat([]byte("0123456789abcdef"), size/16+1)[:size]
		if c["where"] == "chain" {
			q.Chain = filler
		} else {
			q.Extra = filler
		}
		q.FixSizes()
		raw := q.Encode()
		m, err := abi.QuoteToProto(raw)
		if err != nil {
			return fmt.Sprintf("a well-formed quote of %d bytes is rejected: %v", len(raw), err)
		}
		if back, err := abi.QuoteToAbiBytes(m); err != nil || !bytes.Equal(back, raw) {
			return "a large quote does not survive the round trip"
		}
		return ""
	}
}

func init() {
	replayKinds["c09-twins"] = func(c map[string]any) string {
		a, _ := hex.DecodeString(c["a_hex"].(string))
		b, _ := hex.DecodeString(c["b_hex"].(string))
		order, _ := c["order"].(string)
		for i, ch := range order {
			raw := map[rune][]byte{'A': a, 'B': b}[ch]
			m, err := abi.QuoteToProto(append([]byte{}, raw...))
			if err != nil {
				return fmt.Sprintf("parse %d of %s: %v", i+1, order, err)
			}
			if back, err := abi.QuoteToAbiBytes(m); err != nil || !bytes.Equal(back, raw) {
				return fmt.Sprintf("parse %d of %s does not reproduce its input", i+1, order)
			}
		}
		return ""
	}
}

func init() {
	replayKinds["c09-field-replaced"] = func(c map[string]any) string {
		raw, _ := hex.DecodeString(c["raw_hex"].(string))
		m0, err := abi.QuoteToProto(raw)
		if err != nil {
			return "rejects: " + err.Error()
		}
		q := m0.(*pb.QuoteV4)
		fields, _ := c["fields"].([]any)
		for _, f := range fields {
			m := q.ProtoReflect()
			parts := strings.Split(f.(string), ".")
			for _, p := range parts[:len(parts)-1] {
				m = m.Get(m.Descriptor().Fields().ByName(protoreflect.Name(p))).Message()
			}
			fd := m.Descriptor().Fields().ByName(protoreflect.Name(parts[len(parts)-1]))
			nv := append([]byte{}, m.Get(fd).Bytes()...)
			nv[0] ^= 0x5a
			m.Set(fd, protoreflect.ValueOfBytes(nv))
		}
		back, err := abi.QuoteToAbiBytes(q)
		if err != nil {
			return ""
		}
		m1, err := abi.QuoteToProto(back)
		if err == nil && !proto.Equal(q, m1.(*pb.QuoteV4)) {
			return "a parsed message with a replaced field does not survive serialise-then-parse"
		}
		return ""
	}
}
