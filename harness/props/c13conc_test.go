package props

import (
	"crypto/x509"
	"encoding/hex"
	"fmt"
	"strings"
	"sync"
	"testing"

	"verifharness/gen"
)

// Concurrent extraction (companion of TestC13, built with -race): extraction is a function of the
// certificate alone, so G goroutines extracting from G different certificates at the same time must
// each get exactly their own values. The oracle is the same exact-value comparison as in the
// sequential check; a race-detector report about library code is reported as well.

type c13ConcItem struct {
	cert *x509.Certificate
	want *gen.SgxValues
	der  []byte
}

func c13ConcItems(s *gen.Stream, n int) []c13ConcItem {
	items := make([]c13ConcItem, n)
	for i := range items {
		v := &gen.SgxValues{}
		s.Fill(v.PPID[:])
		s.Fill(v.CpuSvn[:])
		s.Fill(v.PceID[:])
		s.Fill(v.Fmspc[:])
		s.Fill(v.Comp[:])
		for j := range v.Comp {
			if v.Comp[j] == 0 {
				v.Comp[j] = byte(1 + i + j) // a dropped component (left at 0) is visible
			}
		}
		v.PceSvn = uint16(s.Intn(65535) + 1)
		v.PPID[0] |= 0x10
		v.PceID[0] |= 0x10
		v.Fmspc[0] |= 0x10
		v.WithSgxType, v.WithPlatformIns, v.WithConfig = s.Intn(2) == 0, s.Intn(2) == 0, s.Intn(2) == 0
		top := gen.SgxTree(v)
		if s.Intn(2) == 0 {
			tcb := tcbNode(top)
			r := 1 + s.Intn(17)
			tcb.Kids = append(append([]*gen.Node{}, tcb.Kids[r:]...), tcb.Kids[:r]...)
		}
		der := top.Encode()
		items[i] = c13ConcItem{cert: certWith(der, 6, s.Intn(6), true), want: v, der: der}
	}
	return items
}

// c13ConcRound runs one round; it returns a description of the first wrong result ("" if none).
func c13ConcRound(items []c13ConcItem, reps int) string {
	var wg sync.WaitGroup
	bad := make([]string, len(items))
	start := make(chan struct{})
	for i := range items {
		wg.Add(1)
		go func(i int) {
			defer wg.Done()
			<-start
			for r := 0; r < reps; r++ {
				got, vd := c13Extract(items[i].cert)
				if vd.Panicked() {
					bad[i] = "crashed: " + vd.Panic
					return
				}
				if !vd.Accepted() {
					bad[i] = "well-formed extension rejected: " + vd.String()
					return
				}
				if d := c13Exact(items[i].want, got); d != "" {
					bad[i] = d
					return
				}
			}
		}(i)
	}
	close(start)
	wg.Wait()
	for i, b := range bad {
		if b != "" {
			return fmt.Sprintf("goroutine %d of %d: %s", i, len(items), b)
		}
	}
	return ""
}

func raceSite(rep string) string {
	for _, line := range strings.Split(rep, "\n") {
		l := strings.TrimSpace(line)
		if strings.HasPrefix(l, "github.com/google/go-tdx-guest/") && strings.HasSuffix(l, "()") {
			return strings.NewReplacer("(", "", ")", "", "*", "").Replace(strings.TrimSuffix(strings.TrimPrefix(l, "github.com/google/go-tdx-guest/"), "()"))
		}
	}
	return "unknown"
}

func c13ConcReplayCase(items []c13ConcItem, reps int) map[string]any {
	var ders, vals []string
	for _, it := range items {
		ders = append(ders, hex.EncodeToString(it.der))
		vals = append(vals, valuesHex(it.want))
	}
	return map[string]any{"kind": "sgxext-concurrent", "needs_race": true, "sgx_hex": ders, "values_hex": vals, "reps": reps}
}

func TestC13Concurrent(t *testing.T) {
	gen.Direct(t, "concurrent-extraction", func(t *testing.T) {
		rounds := gen.N(40, 1500)
		for round := 0; round < rounds; round++ {
			s := gen.NewStream(gen.ProcSeed()+uint64(round), "c13conc")
			g := 2 + s.Intn(15)
			reps := []int{1, 20, 200}[s.Intn(3)]
			items := c13ConcItems(s, g)
			gen.EvalN(g * reps)
			rp := c13ConcReplayCase(items, reps)
			if d := c13ConcRound(items, reps); d != "" {
				gen.Fail(t, gen.Violation{Key: "wrong-value:concurrent", Oracle: "well-formed extension yields exactly the encoded values (also when other certificates are being decoded at the same time)", Detail: d, Replay: rp})
				return
			}
			if rep := raceLogs(); rep != "" {
				rp["race_report"] = rep[:min(len(rep), 6000)]
				gen.Fail(t, gen.Violation{Key: "data-race@" + raceSite(rep), Oracle: "extraction from different certificates in different goroutines shares no mutable state", Detail: "race detector report starts: " + firstLines(rep, 12), Replay: rp})
				return
			}
			gen.NonTrivial("conc", g, reps, items[0].der)
			gen.Class(fmt.Sprintf("concurrent-round:goroutines=%d", g))
			if round < 3 {
				gen.Sample("concurrent", map[string]any{"goroutines": g, "extractions_each": reps})
			}
		}
	})
}

func c13ConcReplay(c map[string]any) string {
	var items []c13ConcItem
	ders, _ := c["sgx_hex"].([]any)
	vals, _ := c["values_hex"].([]any)
	for i := range ders {
		der, _ := hex.DecodeString(ders[i].(string))
		b, _ := hex.DecodeString(vals[i].(string))
		want := &gen.SgxValues{}
		copy(want.PPID[:], b[0:16])
		copy(want.Comp[:], b[16:32])
		want.PceSvn = uint16(b[32])<<8 | uint16(b[33])
		copy(want.CpuSvn[:], b[34:50])
		copy(want.PceID[:], b[50:52])
		copy(want.Fmspc[:], b[52:58])
		items = append(items, c13ConcItem{cert: certWith(der, 6, i%6, true), want: want, der: der})
	}
	reps := 200
	for k := 0; k < 50; k++ {
		if d := c13ConcRound(items, reps); d != "" {
			return d
		}
		if rep := raceLogs(); rep != "" {
			return "data race: " + firstLines(rep, 8)
		}
	}
	return ""
}

func init() { replayKinds["sgxext-concurrent"] = c13ConcReplay }
