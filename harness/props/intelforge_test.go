package props

import (
	"crypto/x509"
	"crypto/x509/pkix"
	"encoding/pem"
	"fmt"
	"math/big"
	"testing"
	"time"

	"github.com/google/go-tdx-guest/testing/testdata"
	"github.com/google/go-tdx-guest/verify"
	"verifharness/gen"
)

// The genuine Intel sample quote with its chain re-rooted: the genuine PCK leaf, then a certificate that carries the
// genuine Platform CA's subject and PUBLIC KEY but is issued by a self-made "Intel SGX Root CA", then that root. The
// leaf verifies under the certificate in the quote, the chain in the quote is self-consistent - and it ends in a root
// nobody trusts. Under the embedded Intel root (TrustedRoots nil) it is rejected, whatever the process has verified
// before; the genuine sample is accepted.
func intelReRootedSample(t gen.TB) (forged []byte, at verify.TimeSet) {
	q, err := gen.RefParse(testdata.RawQuote)
	if err != nil {
		gen.HarnessError(t, "the sample quote does not parse: %v", err)
	}
	var certs []*x509.Certificate
	var blocks []*pem.Block
	rest := q.Chain
	for {
		var b *pem.Block
		b, rest = pem.Decode(rest)
		if b == nil {
			break
		}
		c, err := x509.ParseCertificate(b.Bytes)
		if err != nil {
			gen.HarnessError(t, "sample chain: %v", err)
		}
		certs, blocks = append(certs, c), append(blocks, b)
	}
	if len(certs) != 3 {
		gen.HarnessError(t, "sample chain has %d certificates", len(certs))
	}
	rogueKey := gen.DeriveKey("intel-forge/rogue-root")
	nb, na := time.Date(2018, 1, 1, 0, 0, 0, 0, time.UTC), time.Date(2049, 1, 1, 0, 0, 0, 0, time.UTC)
	rootT := &x509.Certificate{SerialNumber: big.NewInt(0x7001), Subject: certs[2].Subject, NotBefore: nb, NotAfter: na, IsCA: true, BasicConstraintsValid: true, KeyUsage: x509.KeyUsageCertSign | x509.KeyUsageCRLSign, CRLDistributionPoints: certs[2].CRLDistributionPoints}
	rootDER, err := x509.CreateCertificate(nil, rootT, rootT, &rogueKey.Pub, rogueKey)
	if err != nil {
		gen.HarnessError(t, "rogue root: %v", err)
	}
	rogueRoot, _ := x509.ParseCertificate(rootDER)
	intT := &x509.Certificate{SerialNumber: big.NewInt(0x7002), Subject: pkix.Name{}, RawSubject: certs[1].RawSubject, NotBefore: nb, NotAfter: na, IsCA: true, BasicConstraintsValid: true, KeyUsage: x509.KeyUsageCertSign | x509.KeyUsageCRLSign, CRLDistributionPoints: certs[1].CRLDistributionPoints, SubjectKeyId: certs[1].SubjectKeyId}
	intDER, err := x509.CreateCertificate(nil, intT, rogueRoot, certs[1].PublicKey, rogueKey)
	if err != nil {
		gen.HarnessError(t, "re-rooted platform CA: %v", err)
	}
	chain := append([]byte{}, pem.EncodeToMemory(blocks[0])...)
	chain = append(chain, pem.EncodeToMemory(&pem.Block{Type: "CERTIFICATE", Bytes: intDER})...)
	chain = append(chain, pem.EncodeToMemory(&pem.Block{Type: "CERTIFICATE", Bytes: rootDER})...)
	q.Chain = chain
	q.FixSizes()
	ref := time.Date(2023, time.July, 1, 1, 0, 0, 0, time.UTC)
	return q.Encode(), verify.TimeSet{PckCertChain: ref, TcbInfo: ref, QeIdentity: ref, PckCrl: ref, RootCaCrl: ref}
}

// intelReRootedCheck runs forged / genuine / forged under the embedded root; prop is "C02" or "C12" (wording only).
func intelReRootedCheck(t *testing.T, oracle string) {
	forged, ts := intelReRootedSample(t)
	if st := gen.RefLinks(forged); !st.AllHold() {
		gen.HarnessError(t, "the re-rooted sample is not self-consistent: %+v", st)
	}
	run := func(raw []byte, how string) gen.Verdict {
		t1 := ts
		o := &verify.Options{Now: &t1, Getter: gen.FailGetter{}}
		if how == "DefaultOptions" {
			o = verify.DefaultOptions()
			o.Now, o.Getter = &t1, gen.FailGetter{}
		}
		gen.Eval()
		return gen.Call(func() error { return verify.RawTdxQuote(raw, o) })
	}
	for round, how := range []string{"literal", "DefaultOptions", "literal"} {
		for step, c := range []struct {
			name string
			raw  []byte
			want bool
		}{{"re-rooted", forged, false}, {"genuine", testdata.RawQuote, true}, {"re-rooted", forged, false}, {"re-rooted", forged, false}} {
			v := run(c.raw, how)
			gen.NonTrivial("intel-re-rooted", round, step)
			gen.Class("intel-sample-re-rooted:" + c.name)
			if v.Panicked() || v.Accepted() != c.want {
				key := "history:trusts-outside-pool:intel-sample-re-rooted-under-a-rogue-root"
				if c.want {
					key = "history:rejects-trusted:intel-sample"
				}
				gen.Fail(t, gen.Violation{Key: key, Oracle: oracle, Detail: fmt.Sprintf("round %d step %d (%s options, TrustedRoots nil = embedded Intel root): the %s sample: %s", round, step, how, c.name, v), Replay: map[string]any{"kind": "intel-re-rooted"}})
				return
			}
		}
	}
}

func init() {
	replayKinds["intel-re-rooted"] = func(c map[string]any) string {
		forged, ts := intelReRootedSample(failRecorder{new(string)})
		for i, raw := range [][]byte{testdata.RawQuote, forged, forged} {
			t1 := ts
			o := &verify.Options{Now: &t1, Getter: gen.FailGetter{}}
			v := gen.Call(func() error { return verify.RawTdxQuote(raw, o) })
			if v.Accepted() != (i == 0) {
				return fmt.Sprintf("step %d: %s", i, v)
			}
		}
		return ""
	}
}
