//go:build linux

package props

import (
	"crypto"
	"crypto/sha512"
	"encoding/hex"
	"encoding/json"
	"fmt"
	"os"
	"os/exec"
	"path/filepath"
	"strings"
	"syscall"
	"testing"

	"github.com/google/go-tdx-guest/rtmr"
	"verifharness/gen"
)

// The client-less entry points rtmr.ExtendDigest / rtmr.ExtendEventLog open the real configfs TSM tree under
// /sys/kernel/config/tsm and cannot be handed a model. Where the process may create a private mount namespace
// (root / CAP_SYS_ADMIN), a child process mounts a tmpfs over /sys/kernel in a namespace of its own, creates the
// tsm/report and tsm/rtmrs directories there and calls the real functions; the files they leave behind tell
// which digest was written to which index. Nothing outside the child sees the mount. Without that privilege the
// sub-check records "unavailable" and nothing else.

type c17RealCase struct {
	Fn      string `json:"fn"` // "digest" | "eventlog"
	Idx     int    `json:"idx"`
	Hash    uint   `json:"hash"`
	DataHex string `json:"data_hex"`
}

type c17RealEntry struct {
	Name, Index, DigestHex string
	Files                  []string
}

type c17RealResult struct {
	Unavailable string
	Err         string
	Entries     []c17RealEntry
}

// TestC17RealChild is the child side; it does nothing unless started by TestC17Real.
func TestC17RealChild(t *testing.T) {
	enc := os.Getenv("VERIF_C17_CHILD")
	if enc == "" {
		return
	}
	var c c17RealCase
	res := c17RealResult{}
	out := func() {
		b, _ := json.Marshal(res)
		fmt.Printf("\nC17REAL-RESULT %s\n", b)
	}
	if err := json.Unmarshal([]byte(enc), &c); err != nil {
		res.Unavailable = "bad case: " + err.Error()
		out()
		return
	}
	if err := syscall.Mount("none", "/", "", syscall.MS_REC|syscall.MS_PRIVATE, ""); err != nil {
		res.Unavailable = "cannot make mounts private: " + err.Error()
		out()
		return
	}
	if err := syscall.Mount("tmpfs", "/sys/kernel", "tmpfs", 0, ""); err != nil {
		res.Unavailable = "cannot mount a tmpfs over /sys/kernel: " + err.Error()
		out()
		return
	}
	for _, d := range []string{"/sys/kernel/config/tsm/report", "/sys/kernel/config/tsm/rtmrs"} {
		if err := os.MkdirAll(d, 0o755); err != nil {
			res.Unavailable = "mkdir: " + err.Error()
			out()
			return
		}
	}
	data, _ := hex.DecodeString(c.DataHex)
	v := gen.Call(func() error {
		if c.Fn == "digest" {
			return rtmr.ExtendDigest(c.Idx, data)
		}
		return rtmr.ExtendEventLog(c.Idx, crypto.Hash(c.Hash), data)
	})
	if v.Panicked() {
		res.Err = "PANIC: " + v.Panic
	} else if v.Err != nil {
		res.Err = v.Err.Error()
	}
	ents, _ := os.ReadDir("/sys/kernel/config/tsm/rtmrs")
	for _, e := range ents {
		en := c17RealEntry{Name: e.Name()}
		dir := filepath.Join("/sys/kernel/config/tsm/rtmrs", e.Name())
		if fs, err := os.ReadDir(dir); err == nil {
			for _, f := range fs {
				en.Files = append(en.Files, f.Name())
			}
		}
		if b, err := os.ReadFile(filepath.Join(dir, "index")); err == nil {
			en.Index = strings.TrimSpace(string(b))
		}
		if b, err := os.ReadFile(filepath.Join(dir, "digest")); err == nil {
			en.DigestHex = hex.EncodeToString(b)
		}
		res.Entries = append(res.Entries, en)
	}
	out()
}

func c17RealRun(c c17RealCase) (c17RealResult, error) {
	b, _ := json.Marshal(c)
	cmd := exec.Command(os.Args[0], "-test.run", "^TestC17RealChild$", "-test.count=1")
	cmd.Env = append(os.Environ(), "VERIF_C17_CHILD="+string(b), "VERIF_FUZZ=1") // VERIF_FUZZ: the child writes no evidence parts
	cmd.SysProcAttr = &syscall.SysProcAttr{Unshareflags: syscall.CLONE_NEWNS}
	outb, err := cmd.CombinedOutput()
	var res c17RealResult
	for _, line := range strings.Split(string(outb), "\n") {
		if strings.HasPrefix(line, "C17REAL-RESULT ") {
			if e := json.Unmarshal([]byte(strings.TrimPrefix(line, "C17REAL-RESULT ")), &res); e == nil {
				return res, nil
			}
		}
	}
	if err != nil {
		return res, fmt.Errorf("child could not run: %v: %s", err, lastLine(string(outb)))
	}
	return res, fmt.Errorf("child printed no result: %s", lastLine(string(outb)))
}

func TestC17Real(t *testing.T) {
	gen.Direct(t, "client-less-entry-points", func(t *testing.T) {
		s := gen.NewStream(gen.ProcSeed()*47, "c17real")
		type tc struct {
			c     c17RealCase
			valid bool
			want  []byte // digest expected on the entry of c.Idx
		}
		var cases []tc
		for idx := 0; idx < 4; idx++ {
			d := s.Bytes(48)
			cases = append(cases, tc{c17RealCase{Fn: "digest", Idx: idx, DataHex: hex.EncodeToString(d)}, true, d})
			log := s.Bytes([]int{1, 48, 300, 4096}[idx])
			sum := sha512.Sum384(log)
			cases = append(cases, tc{c17RealCase{Fn: "eventlog", Idx: idx, Hash: uint(crypto.SHA384), DataHex: hex.EncodeToString(log)}, true, sum[:]})
		}
		for _, n := range []int{0, 32, 47, 49, 64, 96} {
			cases = append(cases, tc{c17RealCase{Fn: "digest", Idx: 2, DataHex: hex.EncodeToString(s.Bytes(n))}, false, nil})
		}
		for _, idx := range []int{-1, 4, 5, 1 << 20} {
			cases = append(cases, tc{c17RealCase{Fn: "digest", Idx: idx, DataHex: hex.EncodeToString(s.Bytes(48))}, false, nil})
			cases = append(cases, tc{c17RealCase{Fn: "eventlog", Idx: idx, Hash: uint(crypto.SHA384), DataHex: hex.EncodeToString(s.Bytes(20))}, false, nil})
		}
		cases = append(cases, tc{c17RealCase{Fn: "eventlog", Idx: 1, Hash: uint(crypto.SHA256), DataHex: hex.EncodeToString(s.Bytes(20))}, false, nil})
		cases = append(cases, tc{c17RealCase{Fn: "eventlog", Idx: 1, Hash: uint(crypto.SHA384), DataHex: ""}, false, nil})
		for i, c := range cases {
			res, err := c17RealRun(c.c)
			desc := fmt.Sprintf("rtmr.%s(index %d, %d bytes, hash %d) through the real configfs client on a private tmpfs", map[string]string{"digest": "ExtendDigest", "eventlog": "ExtendEventLog"}[c.c.Fn], c.c.Idx, len(c.c.DataHex)/2, c.c.Hash)
			if err != nil || res.Unavailable != "" {
				gen.Class("client-less-entry-points:unavailable")
				if i == 0 {
					why := res.Unavailable
					if err != nil {
						why = err.Error()
					}
					gen.Sample("client-less-entry-points", "not exercised here: "+why)
				}
				return
			}
			gen.Eval()
			rp := map[string]any{"kind": "tsm-real", "case": c.c}
			if strings.HasPrefix(res.Err, "PANIC") {
				gen.Fail(t, gen.Violation{Key: "client-less:panic", Oracle: "extend returns nil or an error", Detail: desc + ": " + res.Err, Replay: rp})
				return
			}
			if !c.valid {
				if res.Err == "" {
					gen.Fail(t, gen.Violation{Key: "client-less:accepts-invalid-request", Oracle: "an invalid request fails", Detail: desc, Replay: rp})
					return
				}
				if len(res.Entries) != 0 {
					gen.Fail(t, gen.Violation{Key: "client-less:invalid-request-writes", Oracle: "an invalid request fails without writing anything to the TSM interface", Detail: fmt.Sprintf("%s: left %d entries behind (%v)", desc, len(res.Entries), res.Entries), Replay: rp})
					return
				}
			} else {
				if res.Err != "" {
					gen.Fail(t, gen.Violation{Key: "client-less:rejects-valid-request", Oracle: "a valid request succeeds", Detail: desc + ": " + res.Err, Replay: rp})
					return
				}
				if len(res.Entries) != 1 || res.Entries[0].Index != fmt.Sprint(c.c.Idx) {
					gen.Fail(t, gen.Violation{Key: "client-less:wrong-register", Oracle: "exactly one entry, bound to the requested index, is written", Detail: fmt.Sprintf("%s: entries %v", desc, res.Entries), Replay: rp})
					return
				}
				if res.Entries[0].DigestHex != hex.EncodeToString(c.want) {
					gen.Fail(t, gen.Violation{Key: "client-less:wrong-digest-written", Oracle: "exactly the given digest (or the SHA-384 of the given event log) is extended", Detail: fmt.Sprintf("%s: wrote %s want %x", desc, res.Entries[0].DigestHex, c.want), Replay: rp})
					return
				}
			}
			gen.NonTrivial("client-less", c.c.Fn, c.c.Idx, len(c.c.DataHex), c.c.Hash)
			gen.Class("client-less-entry-points:" + map[bool]string{true: "valid", false: "invalid"}[c.valid])
			if i%5 == 0 {
				gen.Sample("client-less-entry-points", desc)
			}
		}
	})
}
