package props

import (
	"bytes"
	"crypto/x509"
	"encoding/hex"
	"fmt"
	"regexp"
	"strings"
	"testing"
	"time"

	"github.com/google/go-tdx-guest/abi"
	pb "github.com/google/go-tdx-guest/proto/tdx"
	"github.com/google/go-tdx-guest/testing/testdata"
	"github.com/google/go-tdx-guest/verify"
	"google.golang.org/protobuf/encoding/prototext"
	"google.golang.org/protobuf/proto"
	"pgregory.net/rapid"
	"verifharness/gen"
)

var errNoise = regexp.MustCompile(`"[^"]*"|\([^)]*\)|[0-9a-fA-F]{6,}|\d+`)

// errClass reduces an error text to a stable class (no hex, no numbers, no quoted values).
func errClass(err error) string {
	if err == nil {
		return "nil"
	}
	s := errNoise.ReplaceAllString(err.Error(), "")
	f := strings.Fields(s)
	if len(f) > 8 {
		f = f[:8]
	}
	return strings.Join(f, "_")
}

func TestC11(t *testing.T) {
	replayDir(t, "C11")
	maxAuth := 8192
	if gen.Tier() == "thorough" {
		maxAuth = 65535
	}
	gen.Prop(t, "honest-worlds", gen.N(1600, 60000), func(t *rapid.T) {
		w, d := gen.DrawWorld(t, gen.WorldCfg{MaxAuth: maxAuth, RealNow: true})
		w.Build()
		if sc := w.SelfCheck(); sc != "" {
			gen.HarnessError(t, "generated world is not self-consistent: %s", sc)
		}
		// extra unrelated roots in the pool
		pool := w.PKI.Pool()
		extraRoots := rapid.IntRange(0, 2).Draw(t, "extraRoots")
		certs := []*gen.Cert{w.PKI.Root}
		if extraRoots > 0 {
			for i := 0; i < extraRoots; i++ {
				certs = append(certs, gen.NewPKI(gen.PKISpec{Seed: fmt.Sprintf("unrelated-%d", i)}).Root)
			}
			if rapid.Bool().Draw(t, "rootLast") {
				certs[0], certs[len(certs)-1] = certs[len(certs)-1], certs[0]
			}
			pool = gen.PoolOf(certs...)
		}
		// the relying party also trusts another edition of the same root CA (same name and key, another serial number),
		// listed before or after the edition the quote carries
		switch rapid.SampledFrom([]string{"none", "none", "before", "after", "both-sides"}).Draw(t, "otherRootEdition") {
		case "before":
			certs = append([]*gen.Cert{w.PKI.RootEdition(1)}, certs...)
			pool = gen.PoolOf(certs...)
			gen.Class("pool:other-edition-of-the-root-first")
		case "after":
			certs = append(certs, w.PKI.RootEdition(1))
			pool = gen.PoolOf(certs...)
			gen.Class("pool:other-edition-of-the-root-last")
		case "both-sides":
			certs = append(append([]*gen.Cert{w.PKI.RootEdition(1)}, certs...), w.PKI.RootEdition(2))
			pool = gen.PoolOf(certs...)
			gen.Class("pool:other-edition-of-the-root-first")
		}
		// a trust bundle that also lists the issuing CA's certificate (people put whole chains into bundles)
		switch rapid.SampledFrom([]string{"no", "no", "no", "first", "last"}).Draw(t, "bundleAlsoListsTheIssuingCA") {
		case "first":
			certs = append([]*gen.Cert{w.PKI.Int}, certs...)
			pool = gen.PoolOf(certs...)
			gen.Class("pool:also-lists-the-issuing-ca")
		case "last":
			certs = append(certs, w.PKI.Int)
			pool = gen.PoolOf(certs...)
			gen.Class("pool:also-lists-the-issuing-ca")
		}
		msg := w.Q.ToProto()
		// one options value carried through the levels (as a caller raising the checking level would do)
		shared := w.Options(gen.LvlBase, w.NewGetter(), pool)
		for _, l := range []gen.Level{gen.LvlColl, gen.LvlBase, gen.LvlColl, gen.LvlCRL} {
			shared.GetCollateral, shared.CheckRevocations = l >= gen.LvlColl, l == gen.LvlCRL
			gen.Eval()
			if v := gen.Call(func() error { return verify.RawTdxQuote(w.Raw, shared) }); !v.Accepted() {
				key := fmt.Sprintf("rejects-honest:reused-options:%s:%s", l, errClass(v.Err))
				gen.Fail(t, gen.Violation{Key: key, Oracle: "every honest in-date quote is accepted at every level", Detail: fmt.Sprintf("options value re-used across levels, now %s, world=[%s]: %s", l, d, v), Replay: w.CaseFile(l, nil, nil, certs, "accept")})
				return
			}
		}
		for _, l := range []gen.Level{gen.LvlBase, gen.LvlColl, gen.LvlCRL} {
			for _, viaRaw := range []bool{true, false} {
				g := w.NewGetter()
				o := w.Options(l, g, pool)
				if pk := prehistoryKind(w.Raw[len(w.Raw)/2:]); pk != 0 && viaRaw {
					// an options value that has been in use (earlier failing calls) accepts the honest quote all the same
					optionsPrehistory(w.Raw, o, pk, w.NewGetter())
					gen.Class("options-value-used-before")
				}
				gen.Eval()
				var v gen.Verdict
				if viaRaw {
					v = gen.Call(func() error { return verify.RawTdxQuote(w.Raw, o) })
				} else {
					v = gen.Call(func() error { return verify.TdxQuote(msg, o) })
				}
				if !v.Accepted() {
					key := fmt.Sprintf("rejects-honest:%s:%s", l, errClass(v.Err))
					if v.Panicked() {
						key = "panic@" + gen.PanicSite(v.Stack)
					}
					gen.Fail(t, gen.Violation{Key: key, Oracle: "every honest in-date quote is accepted at every level", Detail: fmt.Sprintf("level=%s raw=%v world=[%s]: %s", l, viaRaw, d, v),
						Replay: w.CaseFile(l, nil, nil, certs, "accept")})
					return
				}
			}
		}
		// the message in the forms in which it reaches a verifier: as the parser returns it, and after a trip through the
		// protobuf binary or text encoding (tools/attest -outform proto|textproto -> tools/check -inform ...), where an
		// empty bytes field comes back absent
		{
			form := rapid.SampledFrom([]string{"parsed", "binary-wire", "text-wire"}).Draw(t, "messageForm")
			var m2 *pb.QuoteV4
			switch form {
			case "parsed":
				pm, err := abi.QuoteToProto(w.Raw)
				if err != nil {
					gen.Fail(t, gen.Violation{Key: "rejects-honest:parse", Oracle: "every honest quote parses", Detail: err.Error(), Replay: w.CaseFile(gen.LvlBase, nil, nil, certs, "accept")})
					return
				}
				m2 = pm.(*pb.QuoteV4)
			case "binary-wire":
				wb, err := proto.Marshal(msg)
				m2 = &pb.QuoteV4{}
				if err != nil || proto.Unmarshal(wb, m2) != nil {
					gen.HarnessError(t, "message does not survive the binary encoding: %v", err)
				}
			default:
				wb, err := prototext.Marshal(msg)
				m2 = &pb.QuoteV4{}
				if err != nil || prototext.Unmarshal(wb, m2) != nil {
					gen.HarnessError(t, "message does not survive the text encoding: %v", err)
				}
			}
			l := rapid.SampledFrom([]gen.Level{gen.LvlBase, gen.LvlColl, gen.LvlCRL}).Draw(t, "formLevel")
			o := w.Options(l, w.NewGetter(), pool)
			gen.Eval()
			if v := gen.Call(func() error { return verify.TdxQuote(m2, o) }); !v.Accepted() {
				key := fmt.Sprintf("rejects-honest:message-%s:%s:%s", form, l, errClass(v.Err))
				if v.Panicked() {
					key = "panic@" + gen.PanicSite(v.Stack)
				}
				mb, _ := proto.Marshal(m2)
				gen.Fail(t, gen.Violation{Key: key, Oracle: "every honest in-date quote is accepted at every level", Detail: fmt.Sprintf("message form %s (auth data %d bytes), level=%s world=[%s]: %s", form, len(w.Q.Auth), l, d, v),
					Replay: withFields(w.CaseFile(l, nil, nil, certs, "accept"), map[string]any{"proto_hex": hex.EncodeToString(mb)})})
				return
			}
			gen.Class("message-form:" + form)
			if len(w.Q.Auth) == 0 && form != "parsed" {
				gen.Class("message-form:empty-auth-data-through-the-wire")
			}
		}
		if len(d.Labels) >= 3 {
			gen.NonTrivial(w.Raw, d.String())
		}
		for _, l := range d.Labels {
			gen.Class("world:" + l)
		}
		gen.Class(fmt.Sprintf("dimensions:%d", len(d.Labels)))
		gen.Sample("honest", map[string]any{"labels": d.String(), "auth": len(w.Q.Auth), "quote_len": len(w.Raw), "levels": len(w.TcbInfo.Levels), "qe_levels": len(w.QeID.Levels)})
	})
	// The genuine Intel samples under the embedded root at their reference time.
	// DER is binary: a CRL (or a certificate of an issuer chain) whose last bytes - the low bytes of its ECDSA signature
	// - happen to be a line break, a blank, a NUL, "==" is the same authentic document, and the honest quote is accepted
	gen.Direct(t, "signed-documents-whose-bytes-end-like-text", func(t *testing.T) {
		i := 0
		for _, suffix := range []string{"\r\n", "\n\n", "\n", "\r", " ", "\x00", "\t", "=", "\xff"} {
			for _, target := range []string{"root-crl", "pck-crl"} {
				i++
				if !gen.ShardOwns(i) {
					continue
				}
				w := gen.NewWorld(gen.NewPKI(gen.PKISpec{Seed: gen.PKISeeds[i%len(gen.PKISeeds)]}), gen.NewStream(gen.Seed()+uint64(i), "c11end"))
				w.HonestCollateral()
				w.Build()
				u, key := gen.RootCrlURL, w.PKI.Root.Key
				if target == "pck-crl" {
					u, key = gen.PckCrlURL(w.IssuerCA()), w.PKI.Int.Key
				}
				r := w.Resp[u]
				der, ok := gen.ResignEndingWith(r.Body, key, []byte(suffix), 600000)
				if !ok {
					gen.Inconclusive(fmt.Sprintf("no signature ending in %q found for the %s", suffix, target))
					continue
				}
				if _, err := x509.ParseRevocationList(der); err != nil || !bytes.HasSuffix(der, []byte(suffix)) {
					gen.HarnessError(t, "re-signed CRL does not parse or does not end as wanted: %v", err)
				}
				r.Body = der
				w.Resp[u] = r
				for _, viaRaw := range []bool{true, false} {
					o := w.Options(gen.LvlCRL, w.NewGetter(), nil)
					gen.Eval()
					var v gen.Verdict
					if viaRaw {
						v = gen.Call(func() error { return verify.RawTdxQuote(w.Raw, o) })
					} else {
						m := w.Q.ToProto()
						v = gen.Call(func() error { return verify.TdxQuote(m, o) })
					}
					if !v.Accepted() {
						gen.Fail(t, gen.Violation{Key: "rejects-honest:document-ending-like-text:" + target, Oracle: "every honest in-date quote is accepted at every level", Detail: fmt.Sprintf("the %s (authentic, in date) ends in the bytes %q: %s", target, suffix, v), Replay: w.CaseFile(gen.LvlCRL, nil, nil, nil, "accept")})
						return
					}
				}
				gen.NonTrivial("c11end", suffix, target)
			}
		}
		gen.Class("signed-documents-ending-like-text")
	})
	gen.Direct(t, "intel-samples", func(t *testing.T) {
		ref := time.Date(2023, time.July, 1, 1, 0, 0, 0, time.UTC)
		ts := &verify.TimeSet{PckCertChain: ref, TcbInfo: ref, QeIdentity: ref, PckCrl: ref, RootCaCrl: ref}
		check := func(name string, raw []byte, o *verify.Options) {
			gen.Eval()
			v := gen.Call(func() error { return verify.RawTdxQuote(raw, o) })
			if !v.Accepted() {
				gen.Fail(t, gen.Violation{Key: "rejects-intel-sample:" + name, Oracle: "genuine Intel sample quotes are accepted under the embedded root at their reference time", Detail: v.String(),
					Replay: map[string]any{"kind": "intel-sample", "name": name}})
			}
			m, err := abi.QuoteToProto(raw)
			if err != nil {
				gen.Fail(t, gen.Violation{Key: "rejects-intel-sample:" + name + ":parse", Oracle: "sample parses", Detail: err.Error(), Replay: map[string]any{"kind": "intel-sample", "name": name}})
			}
			o2 := *o
			v = gen.Call(func() error { return verify.TdxQuote(m.(*pb.QuoteV4), &o2) })
			if !v.Accepted() {
				gen.Fail(t, gen.Violation{Key: "rejects-intel-sample:" + name + ":proto", Oracle: "genuine Intel sample quotes are accepted", Detail: v.String(), Replay: map[string]any{"kind": "intel-sample", "name": name}})
			}
			gen.NonTrivial("intel", name, o.GetCollateral, o.CheckRevocations)
		}
		t1 := *ts
		check("spr-e4/base", testdata.RawQuote, &verify.Options{Now: &t1, Getter: gen.FailGetter{}})
		// (The recorded collateral in testing/testdata does not list a TCB level matching the sample's
		// platform, so the property's claim for the samples is the base level only.)
		ccel := readRepoFile(t, "testing/testdata/ccel/cos-113-tdx-quote.dat")
		refCcel := time.Date(2024, time.November, 1, 0, 0, 0, 0, time.UTC)
		t4 := verify.TimeSet{PckCertChain: refCcel, TcbInfo: refCcel, QeIdentity: refCcel, PckCrl: refCcel, RootCaCrl: refCcel}
		check("ccel-cos-113/base", ccel, &verify.Options{Now: &t4, Getter: gen.FailGetter{}})
		gen.Class("intel-samples")
	})
	c11LongHistories(t)
}
