package props

import (
	"bytes"
	"fmt"
	"os"
	"sort"
	"strings"
	"sync"
	"testing"

	"github.com/google/go-tdx-guest/rtmr"
	"verifharness/gen"
)

// lockedTSM serialises the operations of a model TSM (configfs is atomic per operation).
type lockedTSM struct {
	mu sync.Mutex
	m  *modelTSM
}

func (l *lockedTSM) MkdirTemp(dir, pattern string) (string, error) {
	l.mu.Lock()
	defer l.mu.Unlock()
	return l.m.MkdirTemp(dir, pattern)
}
func (l *lockedTSM) ReadFile(name string) ([]byte, error) {
	l.mu.Lock()
	defer l.mu.Unlock()
	return l.m.ReadFile(name)
}
func (l *lockedTSM) ReadDir(dirname string) ([]os.DirEntry, error) {
	l.mu.Lock()
	defer l.mu.Unlock()
	return l.m.ReadDir(dirname)
}
func (l *lockedTSM) WriteFile(name string, contents []byte) error {
	l.mu.Lock()
	defer l.mu.Unlock()
	return l.m.WriteFile(name, contents)
}
func (l *lockedTSM) RemoveAll(p string) error {
	l.mu.Lock()
	defer l.mu.Unlock()
	return l.m.RemoveAll(p)
}

// TestC17Concurrent (race build): after every register has been extended once (so its entry exists), several
// goroutines extend registers through ONE client at the same time. Every valid request must succeed and result
// in exactly one digest write of exactly its digest on the entry bound to its index, and nothing else is written.
func TestC17Concurrent(t *testing.T) {
	gen.Direct(t, "concurrent-extends", func(t *testing.T) {
		rounds := gen.N(40, 3000)
		for round := 0; round < rounds; round++ {
			s := gen.NewStream(gen.ProcSeed()*43+uint64(round), "c17conc")
			l := &lockedTSM{m: &modelTSM{entries: map[string]*tsmEntry{}}}
			for idx := 0; idx < 4; idx++ {
				if err := rtmr.ExtendDigestClient(l, idx, s.Bytes(48)); err != nil {
					gen.Inconclusive(fmt.Sprintf("sequential warm-up extend of register %d failed: %v (the sequential check reports that)", idx, err))
					return
				}
			}
			from := len(l.m.ops)
			n := 2 + s.Intn(7)
			reps := 1 + s.Intn(12)
			sameIndex := s.Intn(2) == 0
			type req struct {
				idx    int
				digest []byte
				err    string
			}
			reqs := make([][]*req, n)
			for g := range reqs {
				for r := 0; r < reps; r++ {
					idx := s.Intn(4)
					if sameIndex {
						idx = round % 4
					}
					reqs[g] = append(reqs[g], &req{idx: idx, digest: s.Bytes(48)})
				}
			}
			start := make(chan struct{})
			var wg sync.WaitGroup
			for g := range reqs {
				wg.Add(1)
				go func(g int) {
					defer wg.Done()
					<-start
					for _, r := range reqs[g] {
						v := gen.Call(func() error { return rtmr.ExtendDigestClient(l, r.idx, r.digest) })
						if !v.Accepted() {
							r.err = v.String()
						}
					}
				}(g)
			}
			close(start)
			wg.Wait()
			gen.EvalN(n * reps)
			rp := map[string]any{"kind": "c17-concurrent", "needs_race": true, "goroutines": n, "extends_each": reps, "same_index": sameIndex}
			want := map[int][]string{}
			for g := range reqs {
				for _, r := range reqs[g] {
					if r.err != "" {
						gen.Fail(t, gen.Violation{Key: "concurrent:rejects-valid-request", Oracle: "a valid request succeeds, also while other requests are in progress on the same client", Detail: fmt.Sprintf("%d goroutines x %d extends (same index=%v): ExtendDigestClient(%d) -> %s", n, reps, sameIndex, r.idx, r.err), Replay: rp})
						return
					}
					want[r.idx] = append(want[r.idx], string(r.digest))
				}
			}
			got := map[int][]string{}
			for _, o := range l.m.mutations(from) {
				if o.op != "writefile" || !strings.HasSuffix(o.path, "/digest") {
					gen.Fail(t, gen.Violation{Key: "concurrent:stray-mutation", Oracle: "nothing but the requested digests is written", Detail: fmt.Sprintf("%s %s (%d bytes)", o.op, o.path, len(o.data)), Replay: rp})
					return
				}
				ename, _, _ := l.m.split(o.path)
				ent := l.m.entries[ename]
				if ent == nil || !ent.bound {
					gen.Fail(t, gen.Violation{Key: "concurrent:wrong-register", Oracle: "the extend lands on the RTMR entry bound to the requested index", Detail: "digest written to " + o.path, Replay: rp})
					return
				}
				got[ent.index] = append(got[ent.index], string(o.data))
			}
			for idx := 0; idx < 4; idx++ {
				a, b := append([]string{}, want[idx]...), append([]string{}, got[idx]...)
				sort.Strings(a)
				sort.Strings(b)
				if len(a) != len(b) || !bytes.Equal([]byte(strings.Join(a, "")), []byte(strings.Join(b, ""))) {
					gen.Fail(t, gen.Violation{Key: "concurrent:digest-writes-differ", Oracle: "each accepted request results in exactly one extend of exactly its digest on its register", Detail: fmt.Sprintf("register %d: %d requests accepted, %d digest writes; the sets differ", idx, len(a), len(b)), Replay: rp})
					return
				}
			}
			if rep := raceLogs(); rep != "" {
				rp["race_report"] = rep[:min(len(rep), 6000)]
				gen.Fail(t, gen.Violation{Key: "data-race@" + raceSite(rep), Oracle: "extends through one client from several goroutines share no unsynchronised state in the library", Detail: "race detector report starts: " + firstLines(rep, 12), Replay: rp})
				return
			}
			gen.NonTrivial("c17conc", n, reps, sameIndex, round)
			gen.Class(fmt.Sprintf("concurrent-round:sameIndex=%v", sameIndex))
			if round < 3 {
				gen.Sample("concurrent", map[string]any{"goroutines": n, "extends_each": reps, "same_index": sameIndex})
			}
		}
	})
}
