package props

import (
	"fmt"
	"sync"
	"testing"

	"github.com/google/go-tdx-guest/verify"
	"verifharness/gen"
)

// Concurrency companions (built with -race) of the verification properties: a service verifies many
// quotes at once, each goroutine with its own quote and its own Options value. Nothing is shared on
// the caller's side, so every call must give exactly the verdict it gives alone.

type concJob struct {
	name   string
	w      *gen.World
	raw    []byte
	level  gen.Level
	accept bool
}

// runConcJobs runs every job reps times in its own goroutine; it returns the first job whose verdict is wrong.
func runConcJobs(jobs []concJob, reps int) (int, gen.Verdict) {
	bad := make([]*gen.Verdict, len(jobs))
	start := make(chan struct{})
	var wg sync.WaitGroup
	for i := range jobs {
		wg.Add(1)
		go func(i int) {
			defer wg.Done()
			j := jobs[i]
			<-start
			for r := 0; r < reps; r++ {
				o := j.w.Options(j.level, j.w.NewGetter(), nil)
				if (i+r)%2 == 1 {
					// a caller that starts from the library's defaults and fills in its own settings: every value
					// DefaultOptions() hands out is the caller's own
					d := verify.DefaultOptions()
					d.TrustedRoots, d.Now, d.Getter, d.GetCollateral, d.CheckRevocations = o.TrustedRoots, o.Now, o.Getter, o.GetCollateral, o.CheckRevocations
					o = d
				}
				v := gen.Call(func() error { return verify.RawTdxQuote(j.raw, o) })
				if v.Panicked() || v.Accepted() != j.accept {
					bad[i] = &v
					return
				}
			}
		}(i)
	}
	close(start)
	wg.Wait()
	for i, b := range bad {
		if b != nil {
			return i, *b
		}
	}
	return -1, gen.Verdict{}
}

func concRaceCheck(t *testing.T, prop string, rp map[string]any) bool {
	if rep := raceLogs(); rep != "" {
		rp["race_report"] = rep[:min(len(rep), 6000)]
		gen.Fail(t, gen.Violation{Key: "data-race@" + raceSite(rep), Oracle: "verifications of different quotes with different Options values share no mutable state", Detail: "race detector report starts: " + firstLines(rep, 12), Replay: rp})
		return false
	}
	return true
}

// TestC01Concurrent: genuine quotes and forged siblings (body or QE report altered, genuine signatures kept;
// attestation key swapped and body re-signed) are verified at the same time. A forgery must be rejected
// however its verification interleaves with that of the quote whose signatures it carries.
func TestC01Concurrent(t *testing.T) {
	gen.Direct(t, "forged-siblings-concurrently", func(t *testing.T) {
		rounds := gen.N(25, 1200)
		for round := 0; round < rounds; round++ {
			s := gen.NewStream(gen.ProcSeed()*31+uint64(round), "c01conc")
			var jobs []concJob
			nw := 1 + s.Intn(3)
			for k := 0; k < nw; k++ {
				w := gen.NewWorld(gen.NewPKI(gen.PKISpec{Seed: gen.PKISeeds[s.Intn(4)]}), s)
				w.Q.Auth = s.Bytes([]int{32, 0, 100}[s.Intn(3)])
				w.Build()
				lvl := []gen.Level{gen.LvlBase, gen.LvlColl, gen.LvlCRL}[s.Intn(3)]
				for c := 0; c < 1+s.Intn(3); c++ {
					jobs = append(jobs, concJob{"genuine", w, w.Raw, lvl, true})
				}
				for c := 0; c < 1+s.Intn(4); c++ {
					f := c01Forgeries[1+s.Intn(len(c01Forgeries)-1)]
					if f.expect != "reject" {
						continue
					}
					q := w.Q.Clone()
					f.apply(w, q, s)
					jobs = append(jobs, concJob{"forgery:" + f.name, w, q.Encode(), lvl, false})
				}
				// the plainest forgery: one body byte altered, every signature kept
				raw := append([]byte{}, w.Raw...)
				raw[48+s.Intn(584)] ^= byte(1 << uint(s.Intn(8)))
				jobs = append(jobs, concJob{"forgery:body-byte-altered-signature-kept", w, raw, lvl, false})
			}
			reps := []int{5, 40}[s.Intn(2)]
			gen.EvalN(len(jobs) * reps)
			i, v := runConcJobs(jobs, reps)
			var names []string
			for _, j := range jobs {
				names = append(names, j.name)
			}
			rp := map[string]any{"kind": "c01-concurrent", "needs_race": true, "jobs": names}
			if i >= 0 {
				j := jobs[i]
				rp = j.w.CaseFile(j.level, j.raw, nil, nil, map[bool]string{true: "accept", false: "reject"}[j.accept])
				key := "concurrent:accepts-" + j.name
				if j.accept {
					key = "concurrent:rejects-genuine"
				}
				if v.Panicked() {
					key = "panic@" + gen.PanicSite(v.Stack)
				}
				gen.Fail(t, gen.Violation{Key: key, Oracle: "a forged quote is rejected and a genuine one accepted, also while other quotes are being verified", Detail: fmt.Sprintf("%d goroutines %v, job %d (%s, level %s): %s", len(jobs), names, i, j.name, j.level, v), Replay: rp})
				return
			}
			if !concRaceCheck(t, "C01", rp) {
				return
			}
			gen.NonTrivial("c01conc", fmt.Sprint(names), jobs[0].raw)
			gen.Class(fmt.Sprintf("concurrent-round:jobs=%d", len(jobs)/4*4))
			if round < 3 {
				gen.Sample("concurrent", map[string]any{"jobs": names, "repetitions": reps})
			}
		}
	})
}

// TestC11Concurrent: honest worlds, one per goroutine, at every level at the same time.
func TestC11Concurrent(t *testing.T) {
	gen.Direct(t, "honest-worlds-concurrently", func(t *testing.T) {
		rounds := gen.N(25, 1200)
		for round := 0; round < rounds; round++ {
			s := gen.NewStream(gen.ProcSeed()*37+uint64(round), "c11conc")
			var jobs []concJob
			n := 2 + s.Intn(12)
			for k := 0; k < n; k++ {
				w := gen.NewWorld(gen.NewPKI(gen.PKISpec{Seed: gen.PKISeeds[s.Intn(4)]}), s)
				w.Q.Auth = s.Bytes([]int{32, 0, 300}[s.Intn(3)])
				w.ChainNUL = s.Intn(2) == 0
				w.CrossIssuerSerials = s.Intn(2) == 0
				for i := 0; i < 4; i++ {
					w.Sgx.Comp[s.Intn(16)] = []byte{0, 1, 127, 128, 255}[s.Intn(5)]
				}
				w.HonestCollateral()
				w.Build()
				jobs = append(jobs, concJob{"honest", w, w.Raw, []gen.Level{gen.LvlBase, gen.LvlColl, gen.LvlCRL, gen.LvlCRL}[s.Intn(4)], true})
			}
			reps := []int{3, 30}[s.Intn(2)]
			gen.EvalN(len(jobs) * reps)
			i, v := runConcJobs(jobs, reps)
			rp := map[string]any{"kind": "c11-concurrent", "needs_race": true, "jobs": len(jobs)}
			if i >= 0 {
				j := jobs[i]
				key := "concurrent:rejects-honest:" + j.level.String() + ":" + errClass(v.Err)
				if v.Panicked() {
					key = "panic@" + gen.PanicSite(v.Stack)
				}
				gen.Fail(t, gen.Violation{Key: key, Oracle: "every honest in-date quote is accepted at every level, also while other quotes are being verified", Detail: fmt.Sprintf("%d goroutines, job %d at level %s: %s", len(jobs), i, j.level, v), Replay: j.w.CaseFile(j.level, nil, nil, nil, "accept")})
				return
			}
			if !concRaceCheck(t, "C11", rp) {
				return
			}
			gen.NonTrivial("c11conc", n, reps, jobs[0].raw)
			gen.Class(fmt.Sprintf("concurrent-round:worlds=%d", n/4*4))
			if round < 3 {
				gen.Sample("concurrent", map[string]any{"worlds": n, "repetitions": reps})
			}
		}
	})
}
