package props

import (
	"crypto/x509"
	"encoding/hex"
	"testing"

	"github.com/google/go-tdx-guest/pcs"
	pb "github.com/google/go-tdx-guest/proto/tdx"
	"github.com/google/go-tdx-guest/testing/testdata"
	"github.com/google/go-tdx-guest/validate"
	"github.com/google/go-tdx-guest/verify"
	"google.golang.org/protobuf/proto"
	"pgregory.net/rapid"
	"verifharness/gen"
)

// Native coverage-guided fuzz targets (thorough tier). Every target carries its semantic oracle;
// a failing input is saved by the Go fuzzer and moved to replays/fuzz by the driver.

func fuzzWorld() *gen.World {
	return gen.NewWorld(gen.NewPKI(gen.PKISpec{Seed: "pki-A"}), gen.NewStream(7, "fuzz")).Build()
}

func hostileConstants(f *testing.F, w *gen.World) {
	f.Add(w.Raw)
	f.Add(testdata.RawQuote)
	f.Add(w.Raw[:1020])
	f.Add(w.Raw[:1226])
	for _, fld := range gen.SizeFields(len(w.Q.Auth)) {
		for _, v := range []uint64{0, 1, 0xffff, 0xffffffff} {
			b := append([]byte{}, w.Raw...)
			putLE(b, fld.Off, fld.Len, v)
			f.Add(b)
		}
	}
	q := gen.RandomRefQuote(gen.NewStream(3, "fz"), 0, 0, 0)
	f.Add(q.Encode())
	f.Add([]byte{4, 0, 2, 0, 0x81, 0, 0, 0})
}

func FuzzC09Parse(f *testing.F) {
	hostileConstants(f, fuzzWorld())
	f.Fuzz(func(t *testing.T, b []byte) {
		c09Check(t, b, "native fuzz")
	})
}

func FuzzC01Verify(f *testing.F) {
	w := fuzzWorld()
	hostileConstants(f, w)
	for _, fg := range c01Forgeries {
		q := w.Q.Clone()
		fg.apply(w, q, gen.NewStream(1, "fz"))
		f.Add(q.Encode())
	}
	f.Fuzz(func(t *testing.T, b []byte) {
		c01Verify(t, w, b, gen.LvlBase, "", "native-fuzz")
	})
}

func FuzzC08Validate(f *testing.F) {
	prop := func(t *rapid.T) {
		s := gen.NewStream(rapid.Uint64().Draw(t, "content"), "c08f")
		q := drawPolicyQuote(t, s)
		p := drawPolicyFields(t, q, s)
		if key, oracle, detail := c08Oracle(q, p, rapid.Bool().Draw(t, "raw")); key != "" {
			t.Fatalf("VIOLATED C08 key=%s oracle=%s: %s", key, oracle, detail)
		}
	}
	f.Add([]byte{})
	f.Add(make([]byte, 512))
	f.Fuzz(rapid.MakeFuzz(prop))
}

func FuzzC10QuoteToProto(f *testing.F) {
	w := fuzzWorld()
	hostileConstants(f, w)
	f.Fuzz(func(t *testing.T, b []byte) {
		rawEntryPoints(t, w, b, map[string]any{"kind": "crash-raw", "raw_hex": hex.EncodeToString(b)})
	})
}

func FuzzC10VerifyRaw(f *testing.F) {
	w := fuzzWorld()
	hostileConstants(f, w)
	f.Fuzz(func(t *testing.T, b []byte) {
		for _, l := range []gen.Level{gen.LvlColl, gen.LvlCRL} {
			o := w.Options(l, w.NewGetter(), nil)
			if v := gen.Call(func() error { return verify.RawTdxQuote(b, o) }); v.Panicked() {
				t.Fatalf("VIOLATED C10 key=panic@%s<-verify.RawTdxQuote: %s", gen.PanicSite(v.Stack), v.Panic)
			}
		}
	})
}

func FuzzC10ValidateRaw(f *testing.F) {
	w := fuzzWorld()
	hostileConstants(f, w)
	full := fieldsToOptions(&gen.PolicyFields{MinQeSvn: 1, MinTeeTcbSvn: make([]byte, 16), MrSeam: make([]byte, 48), Rtmrs: [][]byte{make([]byte, 48), nil, make([]byte, 48), make([]byte, 48)}, AnyMrTd: [][]byte{make([]byte, 48)}})
	f.Fuzz(func(t *testing.T, b []byte) {
		if v := gen.Call(func() error { return validate.RawTdxQuote(b, full) }); v.Panicked() {
			t.Fatalf("VIOLATED C10 key=panic@%s<-validate.RawTdxQuote: %s", gen.PanicSite(v.Stack), v.Panic)
		}
	})
}

func FuzzC10ProtoMessage(f *testing.F) {
	w := fuzzWorld()
	valid := w.Q.ToProto()
	b, _ := proto.Marshal(valid)
	f.Add(b)
	for i, mu := range structuralMutations(valid) {
		if i%9 != 0 {
			continue
		}
		m := proto.Clone(valid).(*pb.QuoteV4)
		mu.Apply(m)
		mb, _ := proto.Marshal(m)
		f.Add(mb)
	}
	f.Fuzz(func(t *testing.T, b []byte) {
		m := &pb.QuoteV4{}
		if proto.Unmarshal(b, m) != nil {
			return
		}
		messageEntryPoints(t, w, m, map[string]any{"kind": "crash-message", "proto_hex": hex.EncodeToString(b)}, nil, nil)
	})
}

func FuzzC10PckExtension(f *testing.F) {
	v := &gen.SgxValues{WithSgxType: true}
	f.Add(gen.SgxTree(v).Encode())
	v.Comp[3], v.PceSvn = 200, 40000
	f.Add(gen.SgxTree(v).Encode())
	f.Add([]byte{0x30, 0x00})
	f.Fuzz(func(t *testing.T, der []byte) {
		if vd := gen.Call(func() error { _, err := pcs.PckCertificateExtensions(certWith(der, 6, 2, true)); return err }); vd.Panicked() {
			t.Fatalf("VIOLATED C10 key=panic@%s<-pcs.PckCertificateExtensions: %s", gen.PanicSite(vd.Stack), vd.Panic)
		}
		_ = x509.Certificate{}
	})
}

func FuzzC10Collateral(f *testing.F) {
	w := fuzzWorld()
	f.Add(w.TcbInfo.Render(), w.QeID.Render(), true)
	f.Add(w.Resp[gen.TcbInfoURL(w.FmspcHex())].Body, w.Resp[gen.QeIdentityURL].Body, false)
	f.Add([]byte(`{"tcbLevels":[{"tcb":{"sgxtcbcomponents":null}}]}`), []byte(`{"tcbLevels":[null],"miscselect":"","attributesMask":"00"}`), true)
	f.Fuzz(func(t *testing.T, tcb, qe []byte, sign bool) {
		ww := *w
		ww.Resp = map[string]gen.Response{}
		for k, v := range w.Resp {
			ww.Resp[k] = v
		}
		tu := gen.TcbInfoURL(w.FmspcHex())
		if sign {
			// correctly signed arbitrary documents: the value logic behind the signature check is reached
			ww.Resp[tu] = gen.Response{Header: w.Resp[tu].Header, Body: gen.SignedBody("tcbInfo", tcb, w.PKI.TcbSig.Key)}
			ww.Resp[gen.QeIdentityURL] = gen.Response{Header: w.Resp[gen.QeIdentityURL].Header, Body: gen.SignedBody("enclaveIdentity", qe, w.PKI.QeSig.Key)}
		} else {
			ww.Resp[tu] = gen.Response{Header: w.Resp[tu].Header, Body: tcb}
			ww.Resp[gen.QeIdentityURL] = gen.Response{Header: w.Resp[gen.QeIdentityURL].Header, Body: qe}
		}
		o := ww.Options(gen.LvlCRL, ww.NewGetter(), nil)
		if v := gen.Call(func() error { return verify.RawTdxQuote(ww.Raw, o) }); v.Panicked() {
			t.Fatalf("VIOLATED C10 key=panic@%s<-verify.RawTdxQuote(collateral): %s", gen.PanicSite(v.Stack), v.Panic)
		}
	})
}

func FuzzC13Extension(f *testing.F) {
	prop := func(t *rapid.T) {
		s := gen.NewStream(rapid.Uint64().Draw(t, "content"), "c13f")
		v := drawSgxValues(t, s)
		top := gen.SgxTree(v)
		if rapid.Bool().Draw(t, "malformed") {
			kind := rapid.SampledFrom(c13Malformations).Draw(t, "variant")
			der, nExt, include := c13Mutate(t, kind, top, s)
			got, vd := c13Extract(certWith(der, nExt, 0, include))
			if vd.Panicked() || vd.Accepted() {
				t.Fatalf("VIOLATED C13 key=accepts-malformed:%s: %v %+v", kind, vd, got)
			}
			return
		}
		top.Kids = gen.Permute(top.Kids, rapid.Permutation(seqInts(len(top.Kids))).Draw(t, "topperm"))
		tcb := top.Kids[indexOfTCB(top)].Kids[1]
		tcb.Kids = gen.Permute(tcb.Kids, rapid.Permutation(seqInts(18)).Draw(t, "tcbperm"))
		got, vd := c13Extract(certWith(top.Encode(), 6, rapid.IntRange(0, 5).Draw(t, "pos"), true))
		if !vd.Accepted() {
			t.Fatalf("VIOLATED C13 key=rejects-wellformed: %v", vd)
		}
		if d := c13Exact(v, got); d != "" {
			t.Fatalf("VIOLATED C13 key=wrong-value: %s", d)
		}
	}
	f.Add([]byte{})
	f.Add(make([]byte, 256))
	f.Fuzz(rapid.MakeFuzz(prop))
}

// FuzzC13Differential: arbitrary bytes as the SGX extension value, judged against the reference reader.
func FuzzC13Differential(f *testing.F) {
	v := &gen.SgxValues{WithSgxType: true, WithConfig: true}
	f.Add(gen.SgxTree(v).Encode())
	v.Comp[3], v.Comp[15], v.PceSvn = 200, 255, 40000
	v.PPID[0], v.Fmspc[5] = 0x99, 0x77
	f.Add(gen.SgxTree(v).Encode())
	top := gen.SgxTree(v)
	top.Kids[0].Kids = append(top.Kids[0].Kids, gen.IntMin(5))
	f.Add(top.Encode())
	f.Add([]byte{0x30, 0x00})
	f.Fuzz(func(t *testing.T, der []byte) {
		if key, oracle, detail, _ := c13DiffOracle(der, 2); key != "" {
			t.Fatalf("VIOLATED C13 key=%s oracle=%s: %s", key, oracle, detail)
		}
	})
}
