package props

import (
	"encoding/binary"
	"fmt"
	"sync"
	"testing"

	"github.com/google/go-tdx-guest/validate"
	"verifharness/gen"
)

// TestC08Concurrent (race build): validations of different quotes against different options at the same time, each
// goroutine with its own quote and options; every verdict must be the stateless model's.
func TestC08Concurrent(t *testing.T) {
	gen.Direct(t, "concurrent-validations", func(t *testing.T) {
		rounds := gen.N(30, 2000)
		for round := 0; round < rounds; round++ {
			s := gen.NewStream(gen.ProcSeed()*53+uint64(round), "c08conc")
			n := 2 + s.Intn(12)
			reps := []int{5, 50, 300}[s.Intn(3)]
			type job struct {
				q    *gen.RefQuote
				p    *gen.PolicyFields
				want bool
				bad  string
			}
			jobs := make([]*job, n)
			for i := range jobs {
				q := gen.RandomRefQuote(s, 8, 16, 0)
				binary.LittleEndian.PutUint64(q.Xfam[:], gen.XfamFixed1|(s.Uint64()&gen.XfamFixed0))
				binary.LittleEndian.PutUint64(q.TdAttr[:], s.Uint64()&gen.TdAttrAllowed)
				p := &gen.PolicyFields{QeVendorID: append([]byte{}, q.VendorID[:]...), MrTd: append([]byte{}, q.MrTd[:]...), ReportData: append([]byte{}, q.ReportData[:]...), MrSeam: append([]byte{}, q.MrSeam[:]...)}
				if s.Intn(2) == 0 {
					// one expectation missed
					switch s.Intn(4) {
					case 0:
						p.QeVendorID[s.Intn(16)] ^= 0x04
					case 1:
						p.MrTd[s.Intn(48)] ^= 0x04
					case 2:
						p.ReportData[s.Intn(64)] ^= 0x04
					default:
						p.MrSeam[s.Intn(48)] ^= 0x04
					}
				}
				mv := gen.PolicyModel(q, p)
				jobs[i] = &job{q: q, p: p, want: mv.Miss == "" && !mv.Malformed}
			}
			start := make(chan struct{})
			var wg sync.WaitGroup
			for _, j := range jobs {
				wg.Add(1)
				go func(j *job) {
					defer wg.Done()
					opts := fieldsToOptions(j.p)
					m := j.q.ToProto()
					raw := j.q.Encode()
					<-start
					for r := 0; r < reps; r++ {
						var v gen.Verdict
						if r%2 == 0 {
							v = gen.Call(func() error { return validate.TdxQuote(m, opts) })
						} else {
							v = gen.Call(func() error { return validate.RawTdxQuote(raw, opts) })
						}
						if v.Panicked() || v.Accepted() != j.want {
							j.bad = fmt.Sprintf("model accepts=%v, validation: %s", j.want, v)
							return
						}
					}
				}(j)
			}
			close(start)
			wg.Wait()
			gen.EvalN(n * reps)
			rp := map[string]any{"kind": "c08-concurrent", "needs_race": true, "goroutines": n, "validations_each": reps}
			for i, j := range jobs {
				if j.bad != "" {
					key := "concurrent:accepts-miss"
					if j.want {
						key = "concurrent:rejects-conforming"
					}
					gen.Fail(t, gen.Violation{Key: key, Oracle: "succeeds exactly when every configured expectation holds, also while other quotes are being validated", Detail: fmt.Sprintf("goroutine %d of %d: %s", i, n, j.bad), Replay: rp})
					return
				}
			}
			if rep := raceLogs(); rep != "" {
				rp["race_report"] = rep[:min(len(rep), 6000)]
				gen.Fail(t, gen.Violation{Key: "data-race@" + raceSite(rep), Oracle: "validations of different quotes against different options share no mutable state", Detail: "race detector report starts: " + firstLines(rep, 12), Replay: rp})
				return
			}
			gen.NonTrivial("c08conc", n, reps, round)
			gen.Class(fmt.Sprintf("concurrent-round:goroutines=%d", n/4*4))
			if round < 3 {
				gen.Sample("concurrent", map[string]any{"goroutines": n, "validations_each": reps})
			}
		}
	})
}
