package props

import (
	"crypto/x509"
	"encoding/hex"
	"fmt"
	"testing"
	"time"

	"pgregory.net/rapid"
	"verifharness/gen"
)

// Byte-level differential check of the SGX-extension extraction against gen.RefSgxDecode, an own strict DER reader
// that classifies ANY byte string as well formed (with its values), malformed in a way the property lists, or
// unclassified. Oracle:
//
//	well formed  => extraction succeeds and returns exactly the reference's values
//	malformed    => extraction fails
//	unclassified => extraction does not crash
//
// It complements the catalogue of named malformations: the defects here are whatever byte and tree edits produce.

func c13DiffOracle(der []byte, pos int) (key, oracle, detail string, class gen.SgxClass) {
	want, class, why := gen.RefSgxDecode(der)
	got, vd := c13Extract(certWith(der, 6, pos, true))
	if vd.Panicked() {
		return "panic@" + gen.PanicSite(vd.Stack), "extraction returns values or an error", vd.Panic, class
	}
	switch class {
	case gen.SgxWell:
		if !vd.Accepted() {
			return "rejects-wellformed:differential", "a well-formed extension yields exactly the encoded values", "the reference reader finds all six values; extraction says: " + vd.String(), class
		}
		if d := c13Exact(want, got); d != "" {
			return "wrong-value:differential", "a well-formed extension yields exactly the encoded values", d, class
		}
		// the result is the caller's: what the caller does to it (here: every byte of its slices inverted) is nobody
		// else's business - a later extraction of the same certificate returns the encoded values again
		for i := range got.TCB.CPUSvn {
			got.TCB.CPUSvn[i] ^= 0xff
		}
		for i := range got.TCB.CPUSvnComponents {
			got.TCB.CPUSvnComponents[i] ^= 0xff
		}
		got.TCB.PCESvn ^= 0xffff
		got.PPID, got.PCEID, got.FMSPC = "", "", ""
	case gen.SgxDontCare:
		// elements with unknown object identifiers are no components: the known elements that are there keep their values
		if pv, filled, ok := gen.RefSgxPartial(der); ok && vd.Accepted() && got != nil && len(got.TCB.CPUSvnComponents) == 16 {
			for k := 1; k <= 16; k++ {
				if filled[k] && got.TCB.CPUSvnComponents[k-1] != pv.Comp[k-1] {
					return "wrong-value:differential", "never a silently wrong value", fmt.Sprintf("component %d is encoded as %d (next to an element with an unknown object identifier), extraction returned %d", k, pv.Comp[k-1], got.TCB.CPUSvnComponents[k-1]), class
				}
			}
			if filled[17] && got.TCB.PCESvn != pv.PceSvn {
				return "wrong-value:differential", "never a silently wrong value", fmt.Sprintf("PCE SVN is encoded as %d (next to an element with an unknown object identifier), extraction returned %d", pv.PceSvn, got.TCB.PCESvn), class
			}
		}
	case gen.SgxMalformed:
		if vd.Accepted() {
			return "accepts-malformed:differential", "malformed variants yield an error, never a silently wrong value", fmt.Sprintf("the reference reader says: %s; extraction returned %+v", why, got), class
		}
	}
	return "", "", "", class
}

// c13TreeEdit applies one structure-preserving edit (lengths stay consistent) somewhere in the tree.
func c13TreeEdit(t *rapid.T, top *gen.Node, s *gen.Stream) string {
	var nodes []*gen.Node
	var walk func(n *gen.Node)
	walk = func(n *gen.Node) {
		nodes = append(nodes, n)
		for _, k := range n.Kids {
			walk(k)
		}
	}
	walk(top)
	n := nodes[rapid.IntRange(0, len(nodes)-1).Draw(t, "node")]
	kind := rapid.SampledFrom([]string{"oid-arc", "oid-arc", "tag", "append-kid", "drop-kid", "dup-kid", "swap-kids", "content-grow", "content-shrink", "content-byte", "wrap", "trailing", "to-primitive"}).Draw(t, "treeEdit")
	switch kind {
	case "oid-arc":
		// an object identifier with one arc changed (a sibling arc, another last arc)
		for _, c := range nodes {
			if c.Tag == 0x06 && len(c.Content) >= 9 && s.Intn(6) == 0 {
				cc := append([]byte{}, c.Content...)
				cc[len(cc)-1-s.Intn(2)] = byte(1 + s.Intn(20))
				c.Content = cc
				break
			}
		}
	case "tag":
		n.Tag = rapid.SampledFrom([]byte{0x02, 0x04, 0x30, 0x31, 0x06, 0x0a, 0x05, 0x01, 0x0c, 0x13, 0x03, 0x24, 0x22, 0x10, 0x80, 0xa0, 0x1e, 0x17}).Draw(t, "newTag")
	case "append-kid":
		if n.Kids != nil {
			extra := []*gen.Node{gen.IntMin(int64(s.Intn(300))), gen.Octet(s.Bytes(s.Intn(20))), gen.Seq(), gen.Enum(1)}[s.Intn(4)]
			if len(nodes) > 3 && s.Intn(2) == 0 {
				extra = nodes[1+s.Intn(len(nodes)-1)].Clone()
			}
			n.Kids = append(n.Kids, extra)
		}
	case "drop-kid":
		if len(n.Kids) > 0 {
			i := s.Intn(len(n.Kids))
			n.Kids = append(append([]*gen.Node{}, n.Kids[:i]...), n.Kids[i+1:]...)
		}
	case "dup-kid":
		if len(n.Kids) > 0 {
			i := s.Intn(len(n.Kids))
			n.Kids = append(n.Kids, n.Kids[i].Clone())
		}
	case "swap-kids":
		if len(n.Kids) > 1 {
			i, j := s.Intn(len(n.Kids)), s.Intn(len(n.Kids))
			n.Kids[i], n.Kids[j] = n.Kids[j], n.Kids[i]
		}
	case "content-grow":
		if n.Kids == nil {
			n.Content = append(append([]byte{}, n.Content...), s.Bytes(1+s.Intn(3))...)
		}
	case "content-shrink":
		if n.Kids == nil && len(n.Content) > 0 {
			n.Content = n.Content[:len(n.Content)-1]
		}
	case "content-byte":
		if n.Kids == nil && len(n.Content) > 0 {
			c := append([]byte{}, n.Content...)
			c[s.Intn(len(c))] = []byte{0, 1, 0x7f, 0x80, 0xff, 0x04, 0x30}[s.Intn(7)]
			n.Content = c
		}
	case "wrap":
		inner := n.Clone()
		*n = *gen.Octet(inner.Encode())
	case "trailing":
		n.Trailing = s.Bytes(1 + s.Intn(2))
	case "to-primitive":
		if n.Kids != nil {
			raw := []byte{}
			for _, k := range n.Kids {
				raw = append(raw, k.Encode()...)
			}
			n.Kids, n.Content = nil, raw
			n.Tag &^= 0x20
		}
	}
	return kind
}

func c13ByteEdit(t *rapid.T, b []byte, s *gen.Stream) ([]byte, string) {
	if len(b) == 0 {
		return b, "none"
	}
	kind := rapid.SampledFrom([]string{"flip-bit", "set-byte", "delete", "insert", "truncate", "length-byte"}).Draw(t, "byteEdit")
	pos := rapid.IntRange(0, len(b)-1).Draw(t, "pos")
	out := append([]byte{}, b...)
	switch kind {
	case "flip-bit":
		out[pos] ^= 1 << uint(s.Intn(8))
	case "set-byte":
		out[pos] = []byte{0, 1, 2, 4, 6, 0x10, 0x30, 0x7f, 0x80, 0x81, 0x82, 0xff}[s.Intn(12)]
	case "delete":
		out = append(out[:pos], out[pos+1:]...)
	case "insert":
		out = append(out[:pos], append([]byte{byte(s.Intn(256))}, out[pos:]...)...)
	case "truncate":
		out = out[:pos]
	case "length-byte":
		// the byte after a tag byte of the canonical encoding is a length: nudge it
		if pos+1 < len(out) {
			out[pos+1] += []byte{1, 0xff, 2}[s.Intn(3)]
		}
	}
	return out, kind
}

func c13Differential(t *testing.T) {
	// an extension with tens of thousands of members the statement does not know (pairwise distinct identifiers, a few
	// hundred kilobytes): the answer - whatever the reference reader says - comes back in the time it takes to read it
	gen.Direct(t, "many-unknown-members-in-bounded-time", func(t *testing.T) {
		for i, c := range []struct {
			n     int
			where string
		}{{4000, "top"}, {30000, "top"}, {30000, "tcb"}, {45000, "top-front"}} {
			if !gen.ShardOwns(i) {
				continue
			}
			s := gen.NewStream(gen.Seed()+uint64(i), "c13big")
			v := &gen.SgxValues{}
			s.Fill(v.PPID[:])
			s.Fill(v.CpuSvn[:])
			s.Fill(v.Fmspc[:])
			s.Fill(v.PceID[:])
			top := gen.SgxTree(v)
			var extra []*gen.Node
			for k := 0; k < c.n; k++ {
				extra = append(extra, gen.Seq(gen.OID(1, 3, 6, 1, 4, 1, 99999, 1+k), &gen.Node{Tag: 0x05}))
			}
			switch c.where {
			case "top":
				top.Kids = append(top.Kids, extra...)
			case "top-front":
				top.Kids = append(extra, top.Kids...)
			case "tcb":
				tcb := top.Kids[indexOfTCB(top)].Kids[1]
				tcb.Kids = append(tcb.Kids, extra...)
			}
			der := top.Encode()
			gen.Eval()
			var key, oracle, detail string
			t0 := time.Now()
			_, hung := gen.CallWatch(60*time.Second, func() error { key, oracle, detail, _ = c13DiffOracle(der, 5); return nil })
			rp := map[string]any{"kind": "sgxext-many-members", "members": c.n, "where": c.where}
			if hung {
				gen.Fail(t, gen.Violation{Key: "no-answer:many-members:" + c.where, Oracle: "extraction returns the values or an error", Detail: fmt.Sprintf("an SGX extension of %d bytes with %d extra members of pairwise distinct unknown identifiers (%s): no answer within 60 s", len(der), c.n, c.where), Replay: rp})
				return
			}
			if key != "" {
				gen.Fail(t, gen.Violation{Key: key, Oracle: oracle, Detail: fmt.Sprintf("%d extra unknown members (%s): %s", c.n, c.where, detail), Replay: rp})
				return
			}
			gen.NonTrivial("c13big", c.n, c.where)
			gen.Class("many-unknown-members")
			gen.Sample("many-members", map[string]any{"members": c.n, "where": c.where, "bytes": len(der), "seconds": time.Since(t0).Seconds()})
		}
	})
	gen.Prop(t, "byte-level-differential", gen.N(30000, 3000000), func(t *rapid.T) {
		s := gen.NewStream(rapid.Uint64().Draw(t, "content"), "c13d")
		v := drawSgxValues(t, s)
		top := gen.SgxTree(v)
		if rapid.Bool().Draw(t, "permute") {
			top.Kids = gen.Permute(top.Kids, rapid.Permutation(seqInts(len(top.Kids))).Draw(t, "topperm"))
			tcb := top.Kids[indexOfTCB(top)].Kids[1]
			tcb.Kids = gen.Permute(tcb.Kids, rapid.Permutation(seqInts(18)).Draw(t, "tcbperm"))
		}
		var edits []string
		for i, n := 0, rapid.SampledFrom([]int{0, 1, 1, 1, 2, 3}).Draw(t, "treeEdits"); i < n; i++ {
			edits = append(edits, c13TreeEdit(t, top, s))
		}
		der := top.Encode()
		for i, n := 0, rapid.SampledFrom([]int{0, 0, 0, 1, 1, 2}).Draw(t, "byteEdits"); i < n; i++ {
			var k string
			der, k = c13ByteEdit(t, der, s)
			edits = append(edits, k)
		}
		pos := rapid.IntRange(0, 5).Draw(t, "pos")
		gen.Eval()
		key, oracle, detail, class := c13DiffOracle(der, pos)
		gen.Class("differential:" + class.String())
		if len(edits) > 0 && class != gen.SgxDontCare {
			gen.NonTrivial("diff", der)
		}
		if key != "" {
			gen.Fail(t, gen.Violation{Key: key, Oracle: oracle, Detail: fmt.Sprintf("edits %v: %s", edits, detail), Replay: map[string]any{"kind": "sgxext-differential", "sgx_hex": hex.EncodeToString(der), "pos": pos}})
			return
		}
		gen.Sample("differential", map[string]any{"edits": fmt.Sprint(edits), "class": class.String(), "bytes": len(der)})
	})
}

// c13Histories: extraction is a function of the certificate alone, so a long history of extractions — many distinct
// certificates, each presented again later; malformed ones presented several times in a row — gives, at every step,
// what the reference reader says about THAT certificate.
func c13Histories(t *testing.T) {
	gen.Prop(t, "histories", gen.N(150, 10000), func(t *rapid.T) {
		s := gen.NewStream(rapid.Uint64().Draw(t, "content"), "c13h")
		n := rapid.SampledFrom([]int{3, 20, 70, 130, 300}).Draw(t, "distinctCertificates")
		type item struct {
			der  []byte
			cert *x509.Certificate
		}
		items := make([]item, n)
		for i := range items {
			v := &gen.SgxValues{}
			s.Fill(v.PPID[:])
			s.Fill(v.CpuSvn[:])
			s.Fill(v.PceID[:])
			s.Fill(v.Fmspc[:])
			s.Fill(v.Comp[:])
			v.PceSvn = uint16(s.Intn(65536))
			v.PPID[0] |= 0x10
			v.PceID[0] |= 0x10
			v.Fmspc[0] |= 0x10
			v.WithSgxType = s.Intn(2) == 0
			top := gen.SgxTree(v)
			if s.Intn(4) == 0 {
				// a malformed sibling: one defect from the catalogue of tree edits
				tcb := tcbNode(top)
				switch s.Intn(6) {
				case 0:
					tcb.Kids[s.Intn(16)].Kids[1] = gen.IntMin(int64(256 + s.Intn(1000)))
				case 1:
					tcb.Kids[16].Kids[1] = gen.IntMin(int64(65536 + s.Intn(100000)))
				case 2:
					tcb.Kids[17].Kids[1] = gen.Octet(s.Bytes(15))
				case 3:
					tcb.Kids = tcb.Kids[:17]
				case 4:
					tcb.Kids[s.Intn(16)].Kids[1] = gen.Octet([]byte{byte(s.Intn(256))})
				default:
					top.Kids[3].Kids[1] = gen.Octet(s.Bytes(5))
				}
			}
			der := top.Encode()
			items[i] = item{der, certWith(der, 6, s.Intn(6), true)}
		}
		// order of presentation: every item once, then a second pass in a drawn order, malformed ones up to three times in a row
		order := make([]int, 0, 3*n)
		for i := range items {
			order = append(order, i)
		}
		second := rapid.SampledFrom([]string{"same-order", "reverse", "early-ones-only", "shuffled"}).Draw(t, "secondPass")
		switch second {
		case "same-order":
			for i := range items {
				order = append(order, i)
			}
		case "reverse":
			for i := n - 1; i >= 0; i-- {
				order = append(order, i)
			}
		case "early-ones-only":
			for i := 0; i < n && i < 20; i++ {
				order = append(order, i)
			}
		default:
			for i := 0; i < n; i++ {
				order = append(order, s.Intn(n))
			}
		}
		reps := rapid.IntRange(1, 3).Draw(t, "presentationsInARow")
		step := 0
		for _, i := range order {
			for r := 0; r < reps; r++ {
				step++
				gen.Eval()
				if key, oracle, detail, class := c13DiffOracle(items[i].der, 0); key != "" {
					_ = class
					gen.Fail(t, gen.Violation{Key: key + ":history", Oracle: oracle + " (extraction is a function of the certificate alone)", Detail: fmt.Sprintf("step %d of a history over %d distinct certificates (second pass %s, %d presentations in a row), certificate %d, presentation %d: %s", step, n, second, reps, i, r+1, detail),
						Replay: map[string]any{"kind": "sgxext-differential", "sgx_hex": hex.EncodeToString(items[i].der), "pos": 0}})
					return
				}
			}
		}
		gen.NonTrivial("history", n, second, reps, items[0].der[:40])
		gen.Class(fmt.Sprintf("history:distinct>64=%v,second-pass=%s", n > 64, second))
	})
}

func init() {
	replayKinds["sgxext-differential"] = func(c map[string]any) string {
		der, _ := hex.DecodeString(c["sgx_hex"].(string))
		pos := 0
		if p, ok := c["pos"].(float64); ok {
			pos = int(p)
		}
		if key, oracle, detail, _ := c13DiffOracle(der, pos); key != "" {
			return key + " (" + oracle + "): " + detail
		}
		return ""
	}
}
