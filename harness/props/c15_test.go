package props

import (
	"bytes"
	"context"
	"encoding/binary"
	"errors"
	"flag"
	"fmt"
	"io"
	"io/fs"
	"os"
	"strings"
	"syscall"
	"testing"

	"github.com/google/go-tdx-guest/abi"
	"github.com/google/go-tdx-guest/client"
	labi "github.com/google/go-tdx-guest/client/linuxabi"
	pb "github.com/google/go-tdx-guest/proto/tdx"
	"google.golang.org/protobuf/proto"
	"pgregory.net/rapid"
	"verifharness/gen"
)

// scriptDev is a scripted client.Device that records what it was asked.
type scriptDev struct {
	reportErr    error
	reportResult uintptr
	quoteErr     error
	quoteResult  uintptr
	status       uint64
	outLen       uint32
	untouched    bool // the device reports success but writes nothing back (OutLen, Status, Data stay as sent)
	errWrites    bool // a failing quote request has nevertheless filled the buffer (status 0, valid OutLen) before failing
	sawOutLen    []uint32
	viaABI       bool    // the request crosses into the device the way client.LinuxDevice hands it to the kernel: req.ABI(), Pointer(), Finish(req)
	setLength    *uint64 // the device rewrites the request's Length field (the request is handed over by pointer)
	tdReport     [labi.TdReportSize]byte
	data         []byte // what the device writes into the buffer (len <= ReqBufSize)

	sawReportData  [][64]byte
	sawQuoteReport [][]byte
	sawInLen       []uint32
	sawLength      []uint64
	order          []string
	unexpected     []string
}

func (d *scriptDev) Open(string) error { return nil }
func (d *scriptDev) Close() error      { return nil }
func (d *scriptDev) Ioctl(command uintptr, arg any) (uintptr, error) {
	switch req := arg.(type) {
	case *labi.TdxReportReq:
		d.order = append(d.order, "report")
		if command != labi.IocTdxGetReport {
			d.unexpected = append(d.unexpected, fmt.Sprintf("report request with command %#x", command))
		}
		d.sawReportData = append(d.sawReportData, req.ReportData)
		if d.reportErr != nil {
			return 0, d.reportErr
		}
		req.TdReport = d.tdReport
		return d.reportResult, nil
	case *labi.TdxQuoteReq:
		d.order = append(d.order, "quote")
		if command != labi.IocTdxGetQuote {
			d.unexpected = append(d.unexpected, fmt.Sprintf("quote request with command %#x", command))
		}
		hdr, ok := req.Buffer.(*labi.TdxQuoteHdr)
		if !ok {
			d.unexpected = append(d.unexpected, fmt.Sprintf("quote buffer of type %T", req.Buffer))
			return 0, errors.New("bad buffer")
		}
		if d.viaABI {
			// what client.LinuxDevice.Ioctl does around the system call; the "kernel" follows the raw
			// struct tdx_quote_req { u64 buf; u64 len } and fills the header it finds there
			conv := req.ABI()
			kreq := (*labi.TdxQuoteReqABI)(conv.Pointer())
			hdr = (*labi.TdxQuoteHdr)(kreq.Buffer)
			defer conv.Finish(req)
		}
		d.sawQuoteReport = append(d.sawQuoteReport, append([]byte{}, hdr.Data[:labi.TdReportSize]...))
		d.sawInLen = append(d.sawInLen, hdr.InLen)
		d.sawLength = append(d.sawLength, req.Length)
		d.sawOutLen = append(d.sawOutLen, hdr.OutLen)
		if d.setLength != nil {
			req.Length = *d.setLength
		}
		if d.quoteErr != nil {
			if d.errWrites {
				copy(hdr.Data[:], d.data)
				hdr.OutLen = d.outLen
				hdr.Status = d.status
			}
			return 0, d.quoteErr
		}
		if d.untouched {
			return d.quoteResult, nil
		}
		copy(hdr.Data[:], d.data)
		hdr.OutLen = d.outLen
		hdr.Status = d.status
		return d.quoteResult, nil
	}
	d.unexpected = append(d.unexpected, fmt.Sprintf("request of type %T", arg))
	return 0, errors.New("unexpected request")
}

// funcDev is a Device whose dynamic type is a func type; valDev one that is a struct used by value with slice and map
// fields: both are legal implementations of the interface (and neither can be a map key).
type funcDev func(op string, command uintptr, arg any) (uintptr, error)

func (f funcDev) Open(string) error { return nil }
func (f funcDev) Close() error      { return nil }
func (f funcDev) Ioctl(command uintptr, arg any) (uintptr, error) {
	return f("ioctl", command, arg)
}

type valDev struct {
	d    *scriptDev
	tags []string
	meta map[string]int
}

func (v valDev) Open(string) error { return nil }
func (v valDev) Close() error      { return nil }
func (v valDev) Ioctl(command uintptr, arg any) (uintptr, error) {
	return v.d.Ioctl(command, arg)
}

// zeroDev, nilPtrDev and nilMapDev are working devices whose VALUE is the zero value of its type: an empty struct used
// by value, a nil pointer whose methods do not touch the receiver, a nil map type with methods. (They serve the
// scripted device the harness has currently in hand; the checks that use them run one call at a time.)
var c15CurDev *scriptDev

type zeroDev struct{}

func (zeroDev) Open(string) error { return nil }
func (zeroDev) Close() error      { return nil }
func (zeroDev) Ioctl(command uintptr, arg any) (uintptr, error) {
	return c15CurDev.Ioctl(command, arg)
}

type nilPtrDev struct{ unused int }

func (*nilPtrDev) Open(string) error { return nil }
func (*nilPtrDev) Close() error      { return nil }
func (*nilPtrDev) Ioctl(command uintptr, arg any) (uintptr, error) {
	return c15CurDev.Ioctl(command, arg)
}

type nilMapDev map[string]int

func (nilMapDev) Open(string) error { return nil }
func (nilMapDev) Close() error      { return nil }
func (nilMapDev) Ioctl(command uintptr, arg any) (uintptr, error) {
	return c15CurDev.Ioctl(command, arg)
}

var c15CurProv *scriptProvider

type zeroProv struct{}

func (zeroProv) IsSupported() error                       { return c15CurProv.IsSupported() }
func (zeroProv) GetRawQuote(rd [64]byte) ([]uint8, error) { return c15CurProv.GetRawQuote(rd) }

type nilPtrProv struct{ unused int }

func (*nilPtrProv) IsSupported() error                       { return c15CurProv.IsSupported() }
func (*nilPtrProv) GetRawQuote(rd [64]byte) ([]uint8, error) { return c15CurProv.GetRawQuote(rd) }

type nilSliceProv []int

func (nilSliceProv) IsSupported() error                       { return c15CurProv.IsSupported() }
func (nilSliceProv) GetRawQuote(rd [64]byte) ([]uint8, error) { return c15CurProv.GetRawQuote(rd) }

// c15Provider returns the handle through which provider p is handed to the client.
func c15Provider(kind int, p *scriptProvider) client.QuoteProvider {
	c15CurProv = p
	switch kind {
	case 1:
		return zeroProv{}
	case 2:
		return (*nilPtrProv)(nil)
	case 3:
		return nilSliceProv(nil)
	}
	return p
}

func c15Device(kind int, d *scriptDev) client.Device {
	switch kind {
	case 4:
		c15CurDev = d
		return zeroDev{}
	case 5:
		c15CurDev = d
		return (*nilPtrDev)(nil)
	case 6:
		c15CurDev = d
		return nilMapDev(nil)
	case 1:
		return funcDev(func(_ string, command uintptr, arg any) (uintptr, error) { return d.Ioctl(command, arg) })
	case 2:
		return valDev{d: d, tags: []string{"by", "value"}, meta: map[string]int{"k": 1}}
	case 3:
		d.viaABI = true
	}
	return d
}

// c15Errors are the error values a failing request returns: whatever its kind, a failed request is a failed request.
var c15Errors = []error{errors.New("scripted failure"), syscall.EINTR, fmt.Errorf("ioctl: %w", syscall.EINTR), syscall.EAGAIN, syscall.EBUSY, syscall.ENOTTY, io.EOF, os.ErrDeadlineExceeded, context.Canceled, &os.PathError{Op: "ioctl", Path: "/dev/tdx_guest", Err: syscall.EINTR}}

type c15Cell struct {
	errKind    int  // index into c15Errors for failing requests
	errWrites  bool // see scriptDev.errWrites
	untouched  bool
	rErr, qErr bool
	rRes, qRes uintptr
	status     uint64
	outLen     uint32
	devKind    int  // 0: pointer device; 1: a named func type with the Device methods; 2: a struct used by value that holds a slice and a map
	qgsShaped  bool // the bytes the device writes look like a quote-generation-service reply that wraps a quote (they are still just the bytes the device wrote)
	lenWrite   int  // what the device leaves in the request's Length field: 0 = what it found, 1.. = c15LenWrites
	zeroTail   int  // with an embedded valid quote of exact length: the quote is followed by extra bytes, the last zeroTail of them 0x00
}

// c15LenWrites are values a device may leave in the Length field of the request (it is an input to the device: what
// the device does with it has no bearing on which bytes of the buffer are the quote).
func c15LenWrite(k int, outLen uint32) *uint64 {
	var v uint64
	switch k {
	case 0:
		return nil
	case 1:
		v = 0
	case 2:
		v = uint64(outLen) - 1
	case 3:
		v = labi.ReqBufSize + 1000
	case 4:
		v = 1<<64 - 1
	case 5:
		v = 4
	default:
		v = uint64(outLen)
	}
	return &v
}

func (c c15Cell) String() string {
	if c.untouched {
		return fmt.Sprintf("reportErr=%v reportResult=%d quoteErr=%v quoteResult=%d device-writes-nothing-back", c.rErr, c.rRes, c.qErr, c.qRes)
	}
	extra := ""
	if c.lenWrite != 0 {
		extra += fmt.Sprintf(" device-rewrites-Length(kind %d)", c.lenWrite)
	}
	if c.devKind != 0 {
		extra += []string{"", " device-is-a-func-value", " device-is-a-struct-by-value", " request-crosses-through-the-linuxabi-helpers", " device-is-an-empty-struct-by-value", " device-is-a-nil-pointer-with-methods", " device-is-a-nil-map-with-methods"}[c.devKind]
	}
	if c.qgsShaped {
		extra += " bytes-framed-like-a-service-reply"
	}
	if c.zeroTail != 0 {
		extra += fmt.Sprintf(" quote-followed-by-extra-bytes-ending-in-%d-zero-bytes", c.zeroTail)
	}
	return fmt.Sprintf("reportErr=%v reportResult=%d quoteErr=%v quoteResult=%d status=%#x outLen=%d%s", c.rErr, c.rRes, c.qErr, c.qRes, c.status, c.outLen, extra)
}

// c15Key gives a stable identity to the cell's class (not its random contents).
func (c c15Cell) class() string {
	st := "status-other"
	switch c.status {
	case 0:
		st = "status0"
	case labi.GetQuoteInFlight:
		st = "inflight"
	case labi.GetQuoteError:
		st = "status-error"
	case labi.GetQuoteServiceUnavailable:
		st = "unavailable"
	}
	ol := "outlen-ok"
	switch {
	case c.outLen == 0:
		ol = "outlen0"
	case c.outLen > labi.ReqBufSize:
		ol = "outlen-oversized"
	}
	if c.untouched {
		ol = "device-writes-nothing"
	}
	return fmt.Sprintf("rErr=%v,rRes0=%v,qErr=%v,qRes0=%v,%s,%s", c.rErr, c.rRes == 0, c.qErr, c.qRes == 0, st, ol)
}

func c15RunCell(c c15Cell, s *gen.Stream, validQuote bool) (key, oracle, detail string) {
	if c.untouched {
		// nothing is written back: the request's own (initial) status 0 and OutLen 0 stay in force
		c.status, c.outLen = 0, 0
	}
	d := &scriptDev{reportResult: c.rRes, quoteResult: c.qRes, status: c.status, outLen: c.outLen, untouched: c.untouched, errWrites: c.errWrites}
	if c.rErr {
		d.reportErr = c15Errors[c.errKind%len(c15Errors)]
	}
	if c.qErr {
		d.quoteErr = c15Errors[c.errKind%len(c15Errors)]
	}
	s.Fill(d.tdReport[:])
	d.data = s.Bytes(labi.ReqBufSize)
	if validQuote {
		rq := gen.RandomRefQuote(s, 16, 100, 0)
		if c.zeroTail > 0 {
			rq.Extra = append(s.Bytes(s.Intn(6)), make([]byte, c.zeroTail)...)
			if s.Intn(3) == 0 {
				rq.Extra = make([]byte, c.zeroTail) // nothing but zero bytes
			}
		}
		q := rq.Encode()
		if c.qgsShaped {
			// a quote wrapped the way a quote generation service frames its reply: 4-byte big-endian length, message
			// header (version 1.0, type GET_QUOTE_RESP, size, error code 0), id size, quote size, id, quote
			id := s.Bytes(s.Intn(9))
			total := 28 + len(id) + len(q)
			f := make([]byte, 0, total)
			f = binary.BigEndian.AppendUint32(f, uint32(total-4))
			f = binary.LittleEndian.AppendUint16(f, 1)
			f = binary.LittleEndian.AppendUint16(f, 0)
			f = binary.LittleEndian.AppendUint32(f, 1)
			f = binary.LittleEndian.AppendUint32(f, uint32(total-4))
			f = binary.LittleEndian.AppendUint32(f, 0)
			f = binary.LittleEndian.AppendUint32(f, uint32(len(id)))
			f = binary.LittleEndian.AppendUint32(f, uint32(len(q)))
			f = append(append(f, id...), q...)
			q = f
		}
		copy(d.data, q)
		switch c.outLen {
		case 0xAAAA: // marker: exact length of the embedded quote
			d.outLen = uint32(len(q))
			c.outLen = d.outLen
		case 0xAAAB: // marker: the device reports a length in the middle of the quote (the first OutLen bytes are the answer)
			d.outLen = uint32(636 + (len(q)-636)/2)
			c.outLen = d.outLen
		case 0xAAAC: // marker: header, body and the size field, nothing of the signed data
			d.outLen, c.outLen = 636, 636
		case 0xAAAD: // marker: one byte short of the quote
			d.outLen = uint32(len(q) - 1)
			c.outLen = d.outLen
		}
	}
	d.setLength = c15LenWrite(c.lenWrite, c.outLen)
	var rd [64]byte
	s.Fill(rd[:])
	gen.Eval()
	var got []byte
	v := gen.Call(func() error {
		var err error
		got, err = client.GetRawQuote(c15Device(c.devKind, d), rd)
		return err
	})
	wantOK := !c.rErr && c.rRes == 0 && !c.qErr && c.qRes == 0 && c.status == 0 && c.outLen > 0 && c.outLen <= labi.ReqBufSize
	cls := c.class()
	if v.Panicked() {
		return "panic:" + cls, "every device outcome yields a result or an error, never a crash", v.Panic
	}
	if len(d.unexpected) > 0 {
		return "unexpected-request", "requests use the device protocol", strings.Join(d.unexpected, "; ")
	}
	if len(d.sawReportData) != 1 || d.sawReportData[0] != rd {
		return "report-data-not-relayed", "the report request carries the caller's 64 bytes unchanged", fmt.Sprintf("%d report requests, data equal=%v", len(d.sawReportData), len(d.sawReportData) == 1 && d.sawReportData[0] == rd)
	}
	reportOK := !c.rErr && c.rRes == 0
	if !reportOK && len(d.sawQuoteReport) > 0 {
		return "quote-request-after-failed-report", "no quote request after a failed report request", c.String()
	}
	if reportOK {
		if len(d.sawQuoteReport) != 1 {
			return "quote-request-count", "exactly one quote request follows a successful report request", fmt.Sprint(len(d.sawQuoteReport))
		}
		if !bytes.Equal(d.sawQuoteReport[0], d.tdReport[:]) {
			return "td-report-not-relayed", "the quote request carries the 1024-byte TD report the device returned", gen.Hex(d.sawQuoteReport[0])
		}
	}
	if wantOK {
		if !v.Accepted() {
			return "rejects-good-device:" + cls, "both requests succeeded with status 0 and a valid OutLen", v.String()
		}
		if !bytes.Equal(got, d.data[:c.outLen]) {
			return "wrong-bytes:" + cls, "the result is exactly the first OutLen bytes the device wrote", fmt.Sprintf("got %d bytes, want %d; %s", len(got), c.outLen, firstDiff(got, d.data[:c.outLen]))
		}
	} else {
		if v.Accepted() {
			return "accepts-failed-device:" + cls, "any other device outcome yields an error", fmt.Sprintf("%s returned %d bytes and a nil error", c, len(got))
		}
	}
	// GetQuote == parse(GetRawQuote)
	d2 := *d
	d2.sawReportData, d2.sawQuoteReport, d2.order = nil, nil, nil
	var gq any
	v2 := gen.Call(func() error {
		var err error
		gq, err = client.GetQuote(c15Device(c.devKind, &d2), rd)
		return err
	})
	if v2.Panicked() {
		return "getquote-panic:" + cls, "GetQuote never crashes", v2.Panic
	}
	if wantOK {
		want, perr := abi.QuoteToProto(d.data[:c.outLen])
		if (perr == nil) != v2.Accepted() {
			return "getquote-verdict", "the parsed form equals parsing the raw form", fmt.Sprintf("parse err=%v, GetQuote=%v", perr, v2)
		}
		if perr == nil && !proto.Equal(want.(*pb.QuoteV4), gq.(*pb.QuoteV4)) {
			return "getquote-differs", "the parsed form equals parsing the raw form", "messages differ"
		}
	} else if v2.Accepted() {
		return "getquote-accepts-failed-device:" + cls, "any other device outcome yields an error", c.String()
	}
	return "", "", ""
}

// bothDev implements client.Device and client.QuoteProvider at once.
type bothDev struct {
	scriptDev
	prov scriptProvider
}

func (b *bothDev) IsSupported() error                       { return b.prov.IsSupported() }
func (b *bothDev) GetRawQuote(rd [64]byte) ([]uint8, error) { return b.prov.GetRawQuote(rd) }

var c15File string

// c15PlainFile returns the path of an ordinary (empty) file: it opens, and every ioctl on it fails.
func c15PlainFile() string {
	if c15File == "" {
		_ = os.MkdirAll(gen.VerifDir()+"/.build", 0o755)
		f, err := os.CreateTemp(gen.VerifDir()+"/.build", "c15-notadevice-")
		if err != nil {
			return "/dev/null"
		}
		c15File = f.Name()
		f.Close()
	}
	return c15File
}

type scriptProvider struct {
	supported error
	bytes     []byte
	err       error
	calls     int
}

func (p *scriptProvider) IsSupported() error { return p.supported }
func (p *scriptProvider) GetRawQuote(rd [64]byte) ([]uint8, error) {
	p.calls++
	return p.bytes, p.err
}

// reusingProvider answers every request from one buffer which it overwrites in place.
type reusingProvider struct {
	buf  []byte
	next []byte // what the next request produces
}

func (p *reusingProvider) IsSupported() error { return nil }
func (p *reusingProvider) GetRawQuote(rd [64]byte) ([]uint8, error) {
	if len(p.buf) != len(p.next) {
		p.buf = make([]byte, len(p.next))
	}
	copy(p.buf, p.next)
	return p.buf, nil
}

func c15Cells() []c15Cell {
	results := []uintptr{0, 1, 7, 8, 9, 10, 0xdead}
	statuses := []uint64{0, labi.GetQuoteInFlight, labi.GetQuoteError, labi.GetQuoteServiceUnavailable, 5, 1 << 63 >> 1}
	outLens := []uint32{0, 1, 0xAAAA, 0xAAAB, 0xAAAC, 0xAAAD, 5000, labi.ReqBufSize - 1, labi.ReqBufSize, labi.ReqBufSize + 1, 1 << 31, 1<<32 - 1}
	var cells []c15Cell
	for ri := -1; ri < len(results); ri++ {
		for qi := -1; qi < len(results); qi++ {
			for _, st := range statuses {
				for _, ol := range outLens {
					c := c15Cell{status: st, outLen: ol}
					if ri < 0 {
						c.rErr = true
					} else {
						c.rRes = results[ri]
					}
					if qi < 0 {
						c.qErr = true
					} else {
						c.qRes = results[qi]
					}
					cells = append(cells, c)
				}
			}
			// a device that reports success without writing anything back (interleaved with the successful cells
			// above, so that state kept between calls would show)
			u := c15Cell{untouched: true}
			if ri < 0 {
				u.rErr = true
			} else {
				u.rRes = results[ri]
			}
			if qi < 0 {
				u.qErr = true
			} else {
				u.qRes = results[qi]
			}
			cells = append(cells, u)
		}
	}
	return cells
}

func TestC15(t *testing.T) {
	defer func() {
		if c15File != "" {
			_ = os.Remove(c15File)
		}
	}()
	replayDir(t, "C15")
	_ = flag.Set("tdx_guest_device_path", "/nonexistent/verif-tdx-guest")
	cells := c15Cells()
	reps := gen.N(4, 400)
	gen.Direct(t, "device-grid", func(t *testing.T) {
		for rep := 0; rep < reps; rep++ {
			s := gen.NewStream(gen.ProcSeed()+uint64(rep)*7919, "c15")
			for i, c := range cells {
				valid := (i+rep)%2 == 0
				c.errKind, c.errWrites = (i/2+rep)%len(c15Errors), (i/3+rep)%2 == 0
				c.lenWrite, c.zeroTail = (i/5+rep)%7, []int{0, 1, 3, 0, 17}[(i/9+rep)%5]
				c.devKind, c.qgsShaped = (i/11+rep)%7, (i/13+rep)%4 == 0
				key, oracle, detail := c15RunCell(c, s, valid)
				nontrivial := c.rErr || c.qErr || c.rRes != 0 || c.qRes != 0 || c.status != 0 || c.outLen <= 1 || c.outLen >= labi.ReqBufSize
				if nontrivial {
					gen.NonTrivial("cell", c.String(), valid)
				}
				gen.Class("cell:" + map[bool]string{true: "fault-or-boundary", false: "plain-success"}[nontrivial])
				if rep == 0 && i%97 == 0 {
					gen.Sample("device-cell", c.String())
				}
				if key != "" {
					gen.Fail(t, gen.Violation{Key: key, Oracle: oracle, Detail: c.String() + ": " + detail,
						Replay: map[string]any{"kind": "device", "r_err": c.rErr, "q_err": c.qErr, "r_res": uint64(c.rRes), "q_res": uint64(c.qRes), "status": fmt.Sprint(c.status), "out_len": c.outLen, "valid": valid, "untouched": c.untouched, "err_kind": c.errKind, "err_writes": c.errWrites, "len_write": c.lenWrite, "zero_tail": c.zeroTail, "dev_kind": c.devKind, "qgs_shaped": c.qgsShaped}})
				}
			}
		}
		gen.Exhaustive(fmt.Sprintf("device grid: %d cells = 7 report outcomes x 7 quote outcomes x 6 statuses x 9 OutLen values", len(cells)), true)
	})
	gen.Prop(t, "device-random", gen.N(3000, 300000), func(t *rapid.T) {
		s := gen.NewStream(rapid.Uint64().Draw(t, "content"), "c15r")
		c := c15Cell{
			rErr: rapid.IntRange(0, 9).Draw(t, "rErr") == 0, qErr: rapid.IntRange(0, 9).Draw(t, "qErr") == 0,
			rRes:      uintptr(rapid.OneOf(rapid.SampledFrom([]uint64{0, 0, 0, 1, 9, 1 << 40}), rapid.Uint64Range(0, 70), rapid.SampledFrom([]uint64{255, 256, 65535, 1<<31 - 1, 1 << 31, 1<<32 - 1, 1<<63 - 1, 1<<64 - 1})).Draw(t, "rRes")),
			qRes:      uintptr(rapid.OneOf(rapid.SampledFrom([]uint64{0, 0, 0, 1, 8, 1 << 40}), rapid.Uint64Range(0, 70), rapid.SampledFrom([]uint64{255, 256, 65535, 1<<31 - 1, 1 << 31, 1<<32 - 1, 1<<63 - 1, 1<<64 - 1})).Draw(t, "qRes")),
			status:    rapid.OneOf(rapid.Just(uint64(0)), rapid.Uint64(), rapid.SampledFrom([]uint64{labi.GetQuoteInFlight, labi.GetQuoteError, labi.GetQuoteServiceUnavailable})).Draw(t, "status"),
			outLen:    rapid.OneOf(rapid.Uint32Range(0, labi.ReqBufSize+2), rapid.Uint32()).Draw(t, "outLen"),
			untouched: rapid.IntRange(0, 7).Draw(t, "untouched") == 0,
			errKind:   rapid.IntRange(0, len(c15Errors)-1).Draw(t, "errKind"), errWrites: rapid.Bool().Draw(t, "errWrites"),
			lenWrite: rapid.SampledFrom([]int{0, 0, 1, 2, 3, 4, 5, 6}).Draw(t, "lengthFieldRewritten"),
			devKind:  rapid.IntRange(0, 6).Draw(t, "deviceKind"), qgsShaped: rapid.IntRange(0, 3).Draw(t, "framedLikeAServiceReply") == 0,
		}
		valid := rapid.Bool().Draw(t, "valid")
		if valid && rapid.Bool().Draw(t, "exactLength") {
			c.outLen, c.zeroTail = 0xAAAA, rapid.SampledFrom([]int{0, 1, 2, 8}).Draw(t, "zeroTail")
		}
		if key, oracle, detail := c15RunCell(c, s, valid); key != "" {
			gen.Fail(t, gen.Violation{Key: key, Oracle: oracle, Detail: c.String() + ": " + detail,
				Replay: map[string]any{"kind": "device", "r_err": c.rErr, "q_err": c.qErr, "r_res": uint64(c.rRes), "q_res": uint64(c.qRes), "status": fmt.Sprint(c.status), "out_len": c.outLen, "valid": valid, "err_kind": c.errKind, "err_writes": c.errWrites, "len_write": c.lenWrite, "zero_tail": c.zeroTail, "dev_kind": c.devKind, "qgs_shaped": c.qgsShaped}})
		}
		gen.NonTrivial("rand", c.String())
	})
	gen.Prop(t, "provider", gen.N(3000, 200000), func(t *rapid.T) {
		s := gen.NewStream(rapid.Uint64().Draw(t, "content"), "c15p")
		p := &scriptProvider{}
		supported := rapid.Bool().Draw(t, "supported")
		if !supported {
			// "no support" is reported with whatever error the provider's probe ran into: its kind makes no difference
			p.supported = rapid.SampledFrom([]error{errors.New("configfs not supported"), errors.New("configfs not supported"), os.ErrPermission, syscall.EACCES, syscall.EPERM, fmt.Errorf("probe: %w", os.ErrPermission),
				&fs.PathError{Op: "stat", Path: "/sys/kernel/config/tsm/report", Err: syscall.EACCES}, os.ErrNotExist, &fs.PathError{Op: "stat", Path: "/sys/kernel/config/tsm/report", Err: syscall.ENOENT}, syscall.ENODEV, io.EOF, context.Canceled, os.ErrDeadlineExceeded}).Draw(t, "unsupportedError")
		}
		switch rapid.IntRange(0, 3).Draw(t, "bytes") {
		case 1:
			p.bytes = []byte{}
		case 2:
			p.bytes = s.Bytes(rapid.OneOf(rapid.IntRange(1, 3000), rapid.SampledFrom([]int{labi.ReqBufSize - 1, labi.ReqBufSize, labi.ReqBufSize + 1, 20000, 70000})).Draw(t, "n"))
		case 3:
			rq := gen.RandomRefQuote(s, 4, 50, 0)
			switch rapid.IntRange(0, 3).Draw(t, "tail") {
			case 1:
				rq.Extra = append(s.Bytes(5), 0) // extra bytes whose last one is zero
			case 2:
				rq.Extra = make([]byte, 1+s.Intn(40)) // nothing but zero bytes
			case 3:
				rq.Extra = s.Bytes(1 + s.Intn(9))
			}
			p.bytes = rq.Encode()
		}
		if rapid.Bool().Draw(t, "err") {
			p.err = errors.New("scripted provider failure")
		}
		var rd [64]byte
		s.Fill(rd[:])
		// where the fall-back looks for the device: nothing there, or something that opens but is not a TDX device
		devPath := rapid.SampledFrom([]string{"/nonexistent/verif-tdx-guest", "/nonexistent/verif-tdx-guest", "/dev/null", c15PlainFile()}).Draw(t, "devicePath")
		_ = flag.Set("tdx_guest_device_path", devPath)
		defer flag.Set("tdx_guest_device_path", "/nonexistent/verif-tdx-guest")
		// the provider is handed over as a pointer, or as a value that is the zero value of its type (an empty struct, a
		// nil pointer with methods that do not need the receiver, a nil slice type with methods): a provider all the same
		hk := rapid.SampledFrom([]int{0, 0, 0, 1, 2, 3}).Draw(t, "providerHandle")
		gen.Eval()
		var got []byte
		v := gen.Call(func() error {
			var err error
			got, err = client.GetRawQuote(c15Provider(hk, p), rd)
			return err
		})
		rp := map[string]any{"kind": "provider", "device_path": devPath, "handle": hk}
		if hk != 0 {
			gen.Class(fmt.Sprintf("provider:handle-is-a-zero-value(kind %d)", hk))
		}
		if v.Panicked() {
			gen.Fail(t, gen.Violation{Key: "provider-panic", Oracle: "never a crash", Detail: v.Panic, Replay: rp})
			return
		}
		if supported {
			if p.calls != 1 || !bytes.Equal(got, p.bytes) || (got == nil) != (p.bytes == nil) || v.Err != p.err {
				gen.Fail(t, gen.Violation{Key: "provider-not-verbatim", Oracle: "a supported provider's bytes and error are returned verbatim", Detail: fmt.Sprintf("calls=%d bytes equal=%v err=%v want %v", p.calls, bytes.Equal(got, p.bytes), v.Err, p.err), Replay: rp})
				return
			}
		} else {
			if p.calls != 0 {
				gen.Fail(t, gen.Violation{Key: "unsupported-provider-used", Oracle: "an unsupported provider is not asked for a quote", Detail: fmt.Sprint(p.calls), Replay: rp})
				return
			}
			if v.Accepted() || len(got) != 0 {
				gen.Fail(t, gen.Violation{Key: "fallback-device-failure-not-an-error", Oracle: "any device outcome other than success yields an error — also on the fall-back path taken when the provider reports no support", Detail: fmt.Sprintf("device path %s: returned %d bytes, error %v", devPath, len(got), v.Err), Replay: rp})
				return
			}
			if devPath == "/nonexistent/verif-tdx-guest" && !strings.Contains(v.Err.Error(), "neither TDX device, nor ConfigFs") {
				gen.Fail(t, gen.Violation{Key: "no-device-fallback", Oracle: "the device path is tried when the provider reports no support", Detail: v.String(), Replay: rp})
				return
			}
		}
		// parsed form equals parsing the raw form
		p2 := *p
		p2.calls = 0
		var gq any
		v2 := gen.Call(func() error {
			var err error
			gq, err = client.GetQuote(c15Provider(hk, &p2), rd)
			return err
		})
		if v2.Panicked() {
			gen.Fail(t, gen.Violation{Key: "provider-getquote-panic", Oracle: "never a crash", Detail: v2.Panic, Replay: rp})
			return
		}
		if supported && p.err == nil {
			want, perr := abi.QuoteToProto(p.bytes)
			if (perr == nil) != v2.Accepted() || (perr == nil && !proto.Equal(want.(*pb.QuoteV4), gq.(*pb.QuoteV4))) {
				gen.Fail(t, gen.Violation{Key: "provider-getquote-differs", Oracle: "the parsed form equals parsing the raw form", Detail: fmt.Sprintf("parse err=%v GetQuote=%v", perr, v2), Replay: rp})
				return
			}
		} else if v2.Accepted() {
			gen.Fail(t, gen.Violation{Key: "provider-getquote-accepts-error", Oracle: "errors are relayed", Detail: "GetQuote returned nil error", Replay: rp})
			return
		}
		gen.NonTrivial("provider", supported, len(p.bytes), p.err != nil)
		gen.Class(fmt.Sprintf("provider:supported=%v,err=%v", supported, p.err != nil))
		gen.Sample("provider", map[string]any{"supported": supported, "bytes": len(p.bytes), "err": p.err != nil})
	})
	// a provider that keeps ONE output buffer and overwrites it in place for every request (what a provider reading into
	// a fixed buffer does): a history of GetRawQuote / GetQuote calls, each answered with another quote of the same
	// length; every call returns the bytes / the parse of the quote the provider produced FOR THAT CALL
	gen.Prop(t, "provider-reusing-its-buffer", gen.N(800, 60000), func(t *rapid.T) {
		s := gen.NewStream(rapid.Uint64().Draw(t, "content"), "c15reuse")
		p := &reusingProvider{}
		var hist []string
		for i, n := 0, rapid.IntRange(2, 6).Draw(t, "calls"); i < n; i++ {
			q := gen.RandomRefQuote(s, 4, 50, 0)
			if rapid.IntRange(0, 3).Draw(t, "sameAsBefore") == 0 && p.next != nil {
				// the very same quote again
			} else if rapid.IntRange(0, 3).Draw(t, "oneByteDiffers") == 0 && p.next != nil {
				b := append([]byte{}, p.next...)
				b[48+s.Intn(584)] ^= 1 << uint(s.Intn(8))
				p.next = b
			} else {
				p.next = q.Encode()
			}
			want := append([]byte{}, p.next...)
			var rd [64]byte
			s.Fill(rd[:])
			gen.Eval()
			if rapid.Bool().Draw(t, "parsed") {
				var gq any
				v := gen.Call(func() error {
					var err error
					gq, err = client.GetQuote(p, rd)
					return err
				})
				hist = append(hist, "GetQuote->"+v.Short())
				wm, perr := abi.QuoteToProto(want)
				if v.Panicked() || (perr == nil) != v.Accepted() || (perr == nil && !proto.Equal(wm.(*pb.QuoteV4), gq.(*pb.QuoteV4))) {
					gen.Fail(t, gen.Violation{Key: "provider-getquote-differs:history", Oracle: "the parsed form equals parsing the raw form", Detail: fmt.Sprintf("history %v: call %d returned the parse of other bytes than the provider produced for it (parse err=%v, GetQuote=%v)", hist, i+1, perr, v), Replay: map[string]any{"kind": "provider-history"}})
					return
				}
			} else {
				var got []byte
				v := gen.Call(func() error {
					var err error
					got, err = client.GetRawQuote(p, rd)
					return err
				})
				hist = append(hist, "GetRawQuote->"+v.Short())
				if !v.Accepted() || !bytes.Equal(got, want) {
					gen.Fail(t, gen.Violation{Key: "provider-not-verbatim:history", Oracle: "a supported provider's bytes and error are returned verbatim", Detail: fmt.Sprintf("history %v: call %d: %v, bytes equal=%v", hist, i+1, v, bytes.Equal(got, want)), Replay: map[string]any{"kind": "provider-history"}})
					return
				}
			}
		}
		gen.NonTrivial("reuse", fmt.Sprint(hist), p.buf[:8])
		gen.Class("provider:history-on-a-reused-buffer")
	})
	// a value that is both a device and a quote provider: whichever route the client takes for it, GetRawQuote and
	// GetQuote take the same one — the parsed form equals parsing the raw form
	gen.Prop(t, "device-that-is-also-a-provider", gen.N(1500, 100000), func(t *rapid.T) {
		s := gen.NewStream(rapid.Uint64().Draw(t, "content"), "c15b")
		devQuote := gen.RandomRefQuote(s, 4, 50, 0).Encode()
		provQuote := gen.RandomRefQuote(s, 9, 70, 3).Encode()
		mk := func() *bothDev {
			b := &bothDev{}
			b.scriptDev.outLen, b.scriptDev.data = uint32(len(devQuote)), append(append([]byte{}, devQuote...), make([]byte, labi.ReqBufSize-len(devQuote))...)
			s.Fill(b.scriptDev.tdReport[:])
			b.prov.bytes = provQuote
			return b
		}
		b1, b2 := mk(), mk()
		switch rapid.IntRange(0, 3).Draw(t, "fault") {
		case 1:
			b1.scriptDev.quoteErr, b2.scriptDev.quoteErr = errors.New("scripted device failure"), errors.New("scripted device failure")
		case 2:
			b1.prov.err, b2.prov.err = errors.New("scripted provider failure"), errors.New("scripted provider failure")
		case 3:
			b1.prov.supported, b2.prov.supported = errors.New("not supported"), errors.New("not supported")
		}
		var rd [64]byte
		s.Fill(rd[:])
		gen.Eval()
		var raw []byte
		v1 := gen.Call(func() error {
			var err error
			raw, err = client.GetRawQuote(b1, rd)
			return err
		})
		var parsed any
		v2 := gen.Call(func() error {
			var err error
			parsed, err = client.GetQuote(b2, rd)
			return err
		})
		rp := map[string]any{"kind": "provider"}
		if v1.Panicked() || v2.Panicked() {
			gen.Fail(t, gen.Violation{Key: "both-panic", Oracle: "never a crash", Detail: v1.Panic + v2.Panic, Replay: rp})
			return
		}
		gen.Class("device-and-provider:raw=" + v1.Short())
		gen.NonTrivial("both", v1.Short(), v2.Short(), rd[:4])
		if v1.Accepted() != v2.Accepted() {
			gen.Fail(t, gen.Violation{Key: "getquote-verdict:device-and-provider", Oracle: "the parsed form equals parsing the raw form", Detail: fmt.Sprintf("a value implementing both interfaces: GetRawQuote %s, GetQuote %s", v1, v2), Replay: rp})
			return
		}
		if v1.Accepted() {
			want, perr := abi.QuoteToProto(raw)
			if perr != nil || !proto.Equal(want.(*pb.QuoteV4), parsed.(*pb.QuoteV4)) {
				gen.Fail(t, gen.Violation{Key: "getquote-differs:device-and-provider", Oracle: "the parsed form equals parsing the raw form", Detail: fmt.Sprintf("a value implementing both interfaces: GetRawQuote returned %d bytes (device quote: %v, provider quote: %v), GetQuote parsed something else", len(raw), bytes.Equal(raw, devQuote), bytes.Equal(raw, provQuote)), Replay: rp})
			}
		}
	})
	gen.Direct(t, "unsupported-type", func(t *testing.T) {
		for _, x := range []any{nil, 5, "dev", struct{}{}, (*scriptProvider)(nil)} {
			if _, isNilProv := x.(*scriptProvider); isNilProv {
				continue // a typed-nil provider is the caller's bug, outside the property
			}
			gen.Eval()
			v := gen.Call(func() error { _, err := client.GetRawQuote(x, [64]byte{}); return err })
			if !v.Rejected() || v.Panicked() {
				gen.Fail(t, gen.Violation{Key: "unsupported-type", Oracle: "unsupported provider types yield an error", Detail: fmt.Sprintf("%T: %v", x, v), Replay: map[string]any{"kind": "provider"}})
			}
		}
	})
}

func init() {
	replayKinds["device"] = func(c map[string]any) string {
		var st uint64
		fmt.Sscan(c["status"].(string), &st)
		cell := c15Cell{untouched: c["untouched"] == true, rErr: c["r_err"] == true, qErr: c["q_err"] == true, rRes: uintptr(c["r_res"].(float64)), qRes: uintptr(c["q_res"].(float64)), status: st, outLen: uint32(c["out_len"].(float64))}
		if ek, ok := c["err_kind"].(float64); ok {
			cell.errKind = int(ek)
		}
		cell.errWrites = c["err_writes"] == true
		if lw, ok := c["len_write"].(float64); ok {
			cell.lenWrite = int(lw)
		}
		if zt, ok := c["zero_tail"].(float64); ok {
			cell.zeroTail = int(zt)
		}
		if dk, ok := c["dev_kind"].(float64); ok {
			cell.devKind = int(dk)
		}
		cell.qgsShaped = c["qgs_shaped"] == true
		if key, oracle, detail := c15RunCell(cell, gen.NewStream(1, "replay"), c["valid"] == true); key != "" {
			return key + " (" + oracle + "): " + detail
		}
		return ""
	}
}
