package props

import (
	"bytes"
	"encoding/hex"
	"fmt"
	"github.com/google/go-tdx-guest/verify/trust"
	"os"
	"path/filepath"
	"reflect"
	"strings"
	"sync"
	"testing"
	"time"
	"unsafe"

	"github.com/google/go-tdx-guest/abi"
	ccpb "github.com/google/go-tdx-guest/proto/checkconfig"
	pb "github.com/google/go-tdx-guest/proto/tdx"
	"github.com/google/go-tdx-guest/validate"
	"github.com/google/go-tdx-guest/verify"
	"google.golang.org/protobuf/proto"
	"google.golang.org/protobuf/reflect/protoreflect"
	"pgregory.net/rapid"
	"verifharness/gen"
)

// region is one byte slice reachable from a value, captured up to its capacity.
type memRegion struct {
	name string
	full []byte // b[:cap(b)]
	snap []byte
	ln   int
}

func capture(name string, b []byte) memRegion {
	full := b[:cap(b)]
	return memRegion{name: name, full: full, snap: append([]byte{}, full...), ln: len(b)}
}

// messageRegions walks the generated Go struct of a protobuf message with package reflect (the
// protoreflect API hides slice capacity) and captures every []byte field to capacity.
func messageRegions(prefix string, m protoreflect.Message, out *[]memRegion) {
	structRegions(prefix, reflect.ValueOf(m.Interface()), out)
}

// sliceHeaders records, for every byte-string field reachable from v, the slice header the field holds.
func sliceHeaders(prefix string, v reflect.Value, out map[string]string) {
	if v.Kind() == reflect.Ptr {
		if v.IsNil() {
			return
		}
		v = v.Elem()
	}
	if v.Kind() != reflect.Struct {
		return
	}
	for i := 0; i < v.NumField(); i++ {
		f := v.Type().Field(i)
		if !f.IsExported() {
			continue
		}
		fv := v.Field(i)
		name := prefix + f.Name
		switch {
		case fv.Type() == bytesType:
			out[name] = fmt.Sprintf("nil=%v len=%d cap=%d at=%#x", fv.IsNil(), fv.Len(), fv.Cap(), fv.Pointer())
		case fv.Type() == bytesListType:
			out[name] = fmt.Sprintf("nil=%v len=%d cap=%d at=%#x", fv.IsNil(), fv.Len(), fv.Cap(), fv.Pointer())
			for j := 0; j < fv.Len(); j++ {
				e := fv.Index(j)
				out[fmt.Sprintf("%s[%d]", name, j)] = fmt.Sprintf("nil=%v len=%d cap=%d at=%#x", e.IsNil(), e.Len(), e.Cap(), e.Pointer())
			}
		case fv.Kind() == reflect.Ptr:
			sliceHeaders(name+".", fv, out)
		}
	}
}

var bytesType = reflect.TypeOf([]byte(nil))
var bytesListType = reflect.TypeOf([][]byte(nil))

func structRegions(prefix string, v reflect.Value, out *[]memRegion) {
	if v.Kind() == reflect.Ptr {
		if v.IsNil() {
			return
		}
		v = v.Elem()
	}
	if v.Kind() != reflect.Struct {
		return
	}
	for i := 0; i < v.NumField(); i++ {
		f := v.Type().Field(i)
		if !f.IsExported() {
			continue
		}
		fv := v.Field(i)
		name := prefix + f.Name
		switch {
		case fv.Type() == bytesType:
			if !fv.IsNil() {
				*out = append(*out, capture(name, fv.Bytes()))
			}
		case fv.Type() == bytesListType:
			for j := 0; j < fv.Len(); j++ {
				if !fv.Index(j).IsNil() {
					*out = append(*out, capture(fmt.Sprintf("%s[%d]", name, j), fv.Index(j).Bytes()))
				}
			}
		case fv.Kind() == reflect.Ptr && fv.Type().Elem().Kind() == reflect.Struct:
			structRegions(name+".", fv, out)
		}
	}
}

func changed(rs []memRegion) string {
	for _, r := range rs {
		if !bytes.Equal(r.full, r.snap) {
			for i := range r.full {
				if r.full[i] != r.snap[i] {
					where := "inside the field"
					if i >= r.ln {
						where = "in the spare capacity behind the field"
					}
					return fmt.Sprintf("%s: byte %d (len %d, cap %d) changed from %02x to %02x, %s", r.name, i, r.ln, len(r.full), r.snap[i], r.full[i], where)
				}
			}
		}
	}
	return ""
}

// rehome moves every bytes field of the message into its own allocation with spare capacity
// filled with a sentinel pattern.
func rehome(m protoreflect.Message, spare int) {
	rehomeStruct(reflect.ValueOf(m.Interface()), spare)
}

func rehomeStruct(v reflect.Value, spare int) {
	if v.Kind() == reflect.Ptr {
		if v.IsNil() {
			return
		}
		v = v.Elem()
	}
	mk := func(b []byte) []byte {
		nb := make([]byte, len(b)+spare)
		for i := range nb {
			nb[i] = 0xA5
		}
		copy(nb, b)
		return nb[: len(b) : len(b)+spare]
	}
	for i := 0; i < v.NumField(); i++ {
		f := v.Type().Field(i)
		if !f.IsExported() {
			continue
		}
		fv := v.Field(i)
		switch {
		case fv.Type() == bytesType:
			if !fv.IsNil() {
				fv.SetBytes(mk(fv.Bytes()))
			}
		case fv.Type() == bytesListType:
			for j := 0; j < fv.Len(); j++ {
				if !fv.Index(j).IsNil() {
					fv.Index(j).SetBytes(mk(fv.Index(j).Bytes()))
				}
			}
		case fv.Kind() == reflect.Ptr && fv.Type().Elem().Kind() == reflect.Struct:
			rehomeStruct(fv, spare)
		}
	}
}

func overlaps(a, b []byte) bool {
	if cap(a) == 0 || cap(b) == 0 {
		return false
	}
	a0 := uintptr(unsafe.Pointer(unsafe.SliceData(a)))
	b0 := uintptr(unsafe.Pointer(unsafe.SliceData(b)))
	return a0 < b0+uintptr(cap(b)) && b0 < a0+uintptr(cap(a))
}

type c16Call struct {
	name string
	run  func(w *gen.World, m *pb.QuoteV4, raw []byte) gen.Verdict
}

var c16Calls = []c16Call{
	{"verify.TdxQuote/base", func(w *gen.World, m *pb.QuoteV4, raw []byte) gen.Verdict {
		o := w.Options(gen.LvlBase, w.NewGetter(), nil)
		return gen.Call(func() error { return verify.TdxQuote(m, o) })
	}},
	{"verify.TdxQuote/collateral", func(w *gen.World, m *pb.QuoteV4, raw []byte) gen.Verdict {
		o := w.Options(gen.LvlColl, w.NewGetter(), nil)
		return gen.Call(func() error { return verify.TdxQuote(m, o) })
	}},
	{"verify.TdxQuote/collateral+crl", func(w *gen.World, m *pb.QuoteV4, raw []byte) gen.Verdict {
		o := w.Options(gen.LvlCRL, w.NewGetter(), nil)
		return gen.Call(func() error { return verify.TdxQuote(m, o) })
	}},
	{"verify.RawTdxQuote", func(w *gen.World, m *pb.QuoteV4, raw []byte) gen.Verdict {
		o := w.Options(gen.LvlColl, w.NewGetter(), nil)
		return gen.Call(func() error { return verify.RawTdxQuote(raw, o) })
	}},
	{"validate.TdxQuote", func(w *gen.World, m *pb.QuoteV4, raw []byte) gen.Verdict {
		return gen.Call(func() error { return validate.TdxQuote(m, c16Policy(w)) })
	}},
	{"validate.RawTdxQuote", func(w *gen.World, m *pb.QuoteV4, raw []byte) gen.Verdict {
		return gen.Call(func() error { return validate.RawTdxQuote(raw, c16Policy(w)) })
	}},
	{"verify.ExtractChainFromQuote", func(w *gen.World, m *pb.QuoteV4, raw []byte) gen.Verdict {
		return gen.Call(func() error { _, err := verify.ExtractChainFromQuote(m); return err })
	}},
	{"abi.QuoteToAbiBytes", func(w *gen.World, m *pb.QuoteV4, raw []byte) gen.Verdict {
		return gen.Call(func() error { _, err := abi.QuoteToAbiBytes(m); return err })
	}},
	{"abi.HeaderToAbiBytes", func(w *gen.World, m *pb.QuoteV4, raw []byte) gen.Verdict {
		return gen.Call(func() error { _, err := abi.HeaderToAbiBytes(m.GetHeader()); return err })
	}},
	{"abi.TdQuoteBodyToAbiBytes", func(w *gen.World, m *pb.QuoteV4, raw []byte) gen.Verdict {
		return gen.Call(func() error { _, err := abi.TdQuoteBodyToAbiBytes(m.GetTdQuoteBody()); return err })
	}},
	{"abi.EnclaveReportToAbiBytes", func(w *gen.World, m *pb.QuoteV4, raw []byte) gen.Verdict {
		return gen.Call(func() error {
			_, err := abi.EnclaveReportToAbiBytes(m.GetSignedData().GetCertificationData().GetQeReportCertificationData().GetQeReport())
			return err
		})
	}},
}

func c16Policy(w *gen.World) *validate.Options {
	q := w.Q
	// the expected QE vendor ID: none, the quote's, or the quote's written in "GUID" byte order (first three groups
	// reversed) - a mismatch, and bytes of the caller's that stay what they are
	var vendor []byte
	switch q.MrTd[0] % 3 {
	case 1:
		vendor = append([]byte{}, q.VendorID[:]...)
	case 2:
		v := q.VendorID
		vendor = []byte{v[3], v[2], v[1], v[0], v[5], v[4], v[7], v[6], v[8], v[9], v[10], v[11], v[12], v[13], v[14], v[15]}
	}
	return fieldsToOptions(&gen.PolicyFields{QeVendorID: vendor, MrTd: append([]byte{}, q.MrTd[:]...), ReportData: append([]byte{}, q.ReportData[:]...), MinTeeTcbSvn: make([]byte, 16),
		Rtmrs: [][]byte{append([]byte{}, q.Rtmr[0][:]...), nil, nil, append([]byte{}, q.Rtmr[3][:]...)}, AnyMrTd: [][]byte{make([]byte, 48), append([]byte{}, q.MrTd[:]...)}})
}

// c16Message produces the quote message from one of three sources.
func c16Message(t gen.TB, w *gen.World, source string) (*pb.QuoteV4, []byte) {
	raw := make([]byte, len(w.Raw), len(w.Raw)+512)
	copy(raw, w.Raw)
	for i := len(raw); i < cap(raw); i++ {
		raw[:cap(raw)][i] = 0x5A
	}
	switch source {
	case "parsed":
		a, err := abi.QuoteToProto(raw)
		if err != nil {
			gen.HarnessError(t, "valid quote does not parse: %v", err)
		}
		return a.(*pb.QuoteV4), raw
	case "built", "stale-sizes":
		m := w.Q.ToProto()
		rehome(m.ProtoReflect(), 64)
		return m, raw
	case "wire-with-unknown-fields":
		// as a newer sender's message arrives: fields this version of the schema does not know, at the top level and
		// inside nested messages; they are part of the caller's message (and are sent on when it is re-encoded)
		m := w.Q.ToProto()
		unk := []byte{0xf8, 0x07, 0x2a, 0xf2, 0x07, 0x03, 'n', 'e', 'w'} // field 127 varint 42, field 126 bytes "new"
		m.ProtoReflect().SetUnknown(unk)
		m.Header.ProtoReflect().SetUnknown(unk[:3])
		m.TdQuoteBody.ProtoReflect().SetUnknown(unk[3:])
		m.SignedData.CertificationData.QeReportCertificationData.QeReport.ProtoReflect().SetUnknown(unk)
		b, _ := proto.Marshal(m)
		m2 := &pb.QuoteV4{}
		if err := proto.Unmarshal(b, m2); err != nil || len(m2.ProtoReflect().GetUnknown()) == 0 {
			gen.HarnessError(t, "unknown fields do not survive the wire: %v", err)
		}
		return m2, raw
	default: // wire
		b, _ := proto.Marshal(w.Q.ToProto())
		m := &pb.QuoteV4{}
		if err := proto.Unmarshal(b, m); err != nil {
			gen.HarnessError(t, "wire round trip failed: %v", err)
		}
		return m, raw
	}
}

func cloneBytes(b []byte) []byte {
	if b == nil {
		return nil
	}
	return append([]byte{}, b...)
}

func cloneList(l [][]byte) [][]byte {
	if l == nil {
		return nil
	}
	out := make([][]byte, len(l))
	for i := range l {
		out[i] = cloneBytes(l[i])
	}
	return out
}

// deepCopyOptions copies the exported fields of validation options (nil-ness preserved).
func deepCopyOptions(o *validate.Options) *validate.Options {
	b := o.TdQuoteBodyOptions
	return &validate.Options{
		HeaderOptions: validate.HeaderOptions{MinimumQeSvn: o.HeaderOptions.MinimumQeSvn, MinimumPceSvn: o.HeaderOptions.MinimumPceSvn, QeVendorID: cloneBytes(o.HeaderOptions.QeVendorID)},
		TdQuoteBodyOptions: validate.TdQuoteBodyOptions{MinimumTeeTcbSvn: cloneBytes(b.MinimumTeeTcbSvn), MrSeam: cloneBytes(b.MrSeam), TdAttributes: cloneBytes(b.TdAttributes), Xfam: cloneBytes(b.Xfam), MrTd: cloneBytes(b.MrTd),
			MrConfigID: cloneBytes(b.MrConfigID), MrOwner: cloneBytes(b.MrOwner), MrOwnerConfig: cloneBytes(b.MrOwnerConfig), Rtmrs: cloneList(b.Rtmrs), ReportData: cloneBytes(b.ReportData), AnyMrTd: cloneList(b.AnyMrTd)},
	}
}

func sameBytesExact(a, b []byte) bool { return (a == nil) == (b == nil) && bytes.Equal(a, b) }

func sameListExact(a, b [][]byte) bool {
	if (a == nil) != (b == nil) || len(a) != len(b) {
		return false
	}
	for i := range a {
		if !sameBytesExact(a[i], b[i]) {
			return false
		}
	}
	return true
}

func sameBodyOptions(a, b *validate.TdQuoteBodyOptions) bool {
	return sameBytesExact(a.MinimumTeeTcbSvn, b.MinimumTeeTcbSvn) && sameBytesExact(a.MrSeam, b.MrSeam) && sameBytesExact(a.TdAttributes, b.TdAttributes) && sameBytesExact(a.Xfam, b.Xfam) &&
		sameBytesExact(a.MrTd, b.MrTd) && sameBytesExact(a.MrConfigID, b.MrConfigID) && sameBytesExact(a.MrOwner, b.MrOwner) && sameBytesExact(a.MrOwnerConfig, b.MrOwnerConfig) &&
		sameBytesExact(a.ReportData, b.ReportData) && sameListExact(a.Rtmrs, b.Rtmrs) && sameListExact(a.AnyMrTd, b.AnyMrTd)
}

func fieldsJSONOfOptions(o *validate.Options) map[string]any {
	b := o.TdQuoteBodyOptions
	return map[string]any{"rtmrs": hxs(b.Rtmrs), "any_mr_td": hxs(b.AnyMrTd), "mr_td": hx(b.MrTd), "mr_seam": hx(b.MrSeam)}
}

func raceLogs() string {
	dir := os.Getenv("VERIF_RACE_DIR")
	if dir == "" {
		return ""
	}
	files, _ := filepath.Glob(filepath.Join(dir, "race.*"))
	var sb strings.Builder
	for _, f := range files {
		b, _ := os.ReadFile(f)
		sb.Write(b)
	}
	return sb.String()
}

func TestC16(t *testing.T) {
	replayDir(t, "C16")
	sources := []string{"parsed", "built", "wire", "wire-with-unknown-fields"}
	snapshotSources := []string{"parsed", "built", "wire", "stale-sizes", "wire-with-unknown-fields"}

	// (1) deterministic: before/after snapshots to capacity around every single call; aliasing of parsed quotes.
	gen.Prop(t, "snapshots", gen.N(300, 20000), func(t *rapid.T) {
		w, _ := gen.DrawWorld(t, gen.WorldCfg{MaxAuth: 200, Simple: rapid.Bool().Draw(t, "simple")})
		w.Build()
		src := rapid.SampledFrom(snapshotSources).Draw(t, "source")
		m, raw := c16Message(t, w, src)
		if src == "stale-sizes" {
			// a message put together field by field whose size fields do not (or no longer) describe its contents
			// (the calls may well refuse it; they must not "repair" the caller's message)
			d := uint32(rapid.SampledFrom([]int{1, 2, 255, 65536}).Draw(t, "sizeDelta"))
			sub := rapid.Bool().Draw(t, "sizeTooSmall")
			adj := func(v *uint32) {
				if sub && *v >= d {
					*v -= d
				} else {
					*v += d
				}
			}
			switch rapid.IntRange(0, 4).Draw(t, "staleField") {
			case 0:
				adj(&m.SignedDataSize)
			case 1:
				adj(&m.SignedData.CertificationData.Size)
			case 2:
				adj(&m.SignedData.CertificationData.QeReportCertificationData.QeAuthData.ParsedDataSize)
			case 3:
				adj(&m.SignedData.CertificationData.QeReportCertificationData.PckCertificateChainData.Size)
			default:
				adj(&m.SignedData.CertificationData.Size)
				adj(&m.SignedDataSize)
			}
		}
		if len(m.ExtraBytes) == 0 && src != "parsed" && rapid.Bool().Draw(t, "emptyButPresentExtraBytes") {
			// a message put together by hand: the trailing-bytes field present, empty, with room behind it
			m.ExtraBytes = make([]byte, 0, 16)
		}
		call := rapid.SampledFrom(c16Calls).Draw(t, "call")
		var regions []memRegion
		messageRegions("quote.", m.ProtoReflect(), &regions)
		regions = append(regions, capture("raw-input", raw))
		before := proto.Clone(m)
		headersBefore := map[string]string{}
		sliceHeaders("quote.", reflect.ValueOf(m), headersBefore)
		spare := false
		for _, r := range regions {
			if len(r.full) > r.ln {
				spare = true
			}
		}
		gen.Eval()
		v := call.run(w, m, raw)
		rp := w.CaseFile(gen.LvlColl, nil, nil, nil, "nowrite")
		rp["kind"] = "memory"
		rp["source"], rp["call"] = src, call.name
		if v.Panicked() {
			gen.Fail(t, gen.Violation{Key: "panic@" + gen.PanicSite(v.Stack), Oracle: "calls return", Detail: call.name + ": " + v.Panic, Replay: rp})
			return
		}
		if d := changed(regions); d != "" {
			gen.Fail(t, gen.Violation{Key: "writes-to-input:" + call.name + ":" + strings.SplitN(d, ":", 2)[0], Oracle: "checking and serialising never write to any byte reachable from the quote message or the raw input, including spare capacity", Detail: fmt.Sprintf("source=%s call=%s: %s", src, call.name, d), Replay: rp})
			return
		}
		if !proto.Equal(before, m) {
			gen.Fail(t, gen.Violation{Key: "message-changed:" + call.name, Oracle: "the quote message is unchanged by the call", Detail: fmt.Sprintf("source=%s call=%s", src, call.name), Replay: rp})
			return
		}
		headersAfter := map[string]string{}
		sliceHeaders("quote.", reflect.ValueOf(m), headersAfter)
		for name, h := range headersBefore {
			if headersAfter[name] != h {
				gen.Fail(t, gen.Violation{Key: "message-changed:" + call.name + ":field-header:" + name, Oracle: "checking and serialising never write to the quote message (a byte-string field stays the very slice it was: nil or not, its length, its capacity, where it points)", Detail: fmt.Sprintf("source=%s call=%s: field %s was %s, is %s", src, call.name, name, h, headersAfter[name]), Replay: rp})
				return
			}
		}
		if src == "parsed" {
			for _, r := range regions[:len(regions)-1] {
				if overlaps(r.full, raw) {
					gen.Fail(t, gen.Violation{Key: "parsed-quote-aliases-input", Oracle: "a parsed quote shares no memory with the buffer it was parsed from", Detail: r.name, Replay: rp})
					return
				}
			}
			for i := range raw {
				raw[i] ^= 0xff
			}
			if !proto.Equal(before, m) {
				gen.Fail(t, gen.Violation{Key: "parsed-quote-follows-input", Oracle: "mutating the input after parsing leaves the parsed quote unchanged", Detail: "", Replay: rp})
				return
			}
		}
		gen.Class("source:" + src)
		gen.Class("call:" + call.name)
		if v.Accepted() && spare {
			gen.NonTrivial(src, call.name, w.Raw)
		}
		gen.Sample("snapshot", map[string]any{"source": src, "call": call.name, "verdict": v.Short(), "regions": len(regions)})
	})

	// (1a') every call x every size field of the message made stale (too large / too small by 1, 255, 65536) and every
	// call on the raw entry points given the hex dump of the quote instead of the quote: nothing reachable from the
	// caller's message or buffer changes (the calls may refuse such input)
	gen.Direct(t, "stale-sizes-and-hex-dumps", func(t *testing.T) {
		w := gen.NewWorld(gen.NewPKI(gen.PKISpec{Seed: "pki-B"}), gen.NewStream(gen.Seed()+91, "c16stale"))
		w.Q.Extra = []byte{1, 2, 3, 0}
		w.Build()
		type adj struct {
			name string
			get  func(m *pb.QuoteV4) *uint32
		}
		fields := []adj{
			{"signed_data_size", func(m *pb.QuoteV4) *uint32 { return &m.SignedDataSize }},
			{"certification_data.size", func(m *pb.QuoteV4) *uint32 { return &m.SignedData.CertificationData.Size }},
			{"qe_auth_data.parsed_data_size", func(m *pb.QuoteV4) *uint32 {
				return &m.SignedData.CertificationData.QeReportCertificationData.QeAuthData.ParsedDataSize
			}},
			{"pck_certificate_chain_data.size", func(m *pb.QuoteV4) *uint32 {
				return &m.SignedData.CertificationData.QeReportCertificationData.PckCertificateChainData.Size
			}},
			{"certification_data.certificate_data_type", func(m *pb.QuoteV4) *uint32 { return &m.SignedData.CertificationData.CertificateDataType }},
		}
		i := 0
		for _, call := range c16Calls {
			for _, f := range fields {
				for _, d := range []int64{1, -1, 255, 65536, -65536} {
					i++
					if !gen.ShardOwns(i) {
						continue
					}
					m, raw := c16Message(t, w, "built")
					p := f.get(m)
					if nv := int64(*p) + d; nv >= 0 && nv <= 1<<32-1 {
						*p = uint32(nv)
					} else {
						continue
					}
					var regions []memRegion
					messageRegions("quote.", m.ProtoReflect(), &regions)
					before := proto.Clone(m)
					gen.Eval()
					v := call.run(w, m, raw)
					rp := map[string]any{"kind": "memory", "source": "stale-sizes", "call": call.name, "field": f.name, "delta": d}
					if v.Panicked() {
						gen.Class("stale-size:call-crashes") // C10's business; here only what it does to the caller's message
					}
					if dd := changed(regions); dd != "" || !proto.Equal(before, m) {
						gen.Fail(t, gen.Violation{Key: "message-changed:" + call.name, Oracle: "the quote message is unchanged by the call", Detail: fmt.Sprintf("message with %s off by %d, call %s: %s", f.name, d, call.name, dd), Replay: rp})
						return
					}
					gen.NonTrivial("stale", call.name, f.name, d)
					gen.Class("stale-size-sweep")
				}
			}
			// the hex dump of the quote (what `xxd -p` prints), upper and lower case, with and without a trailing newline
			for hi, dump := range []string{hex.EncodeToString(w.Raw), strings.ToUpper(hex.EncodeToString(w.Raw)), hex.EncodeToString(w.Raw) + "\n", "  " + hex.EncodeToString(w.Raw) + "\n", hex.EncodeToString(w.Raw)[:len(w.Raw)] + "zz"} {
				i++
				if !gen.ShardOwns(i) {
					continue
				}
				raw := make([]byte, len(dump), len(dump)+64)
				copy(raw, dump)
				reg := capture("raw-input", raw)
				m, _ := c16Message(t, w, "built")
				gen.Eval()
				call.run(w, m, raw)
				if dd := changed([]memRegion{reg}); dd != "" {
					gen.Fail(t, gen.Violation{Key: "writes-to-input:" + call.name + ":raw-input", Oracle: "checking and serialising never write to any byte reachable from the quote message or the raw input, including spare capacity", Detail: fmt.Sprintf("raw input = hex dump of the quote (variant %d), call %s: %s", hi, call.name, dd), Replay: map[string]any{"kind": "memory", "source": "hex-dump", "call": call.name}})
					return
				}
				gen.NonTrivial("hexdump", call.name, hi)
				gen.Class("hex-dump-input")
			}
		}
		gen.Exhaustive("every call x 5 size / type fields x 5 offsets; every call x 5 hex-dump spellings of the raw input", true)
	})

	// (1b) policy and option byte strings with spare capacity.
	gen.Prop(t, "policy-snapshots", gen.N(300, 20000), func(t *rapid.T) {
		s := gen.NewStream(rapid.Uint64().Draw(t, "content"), "c16p")
		q := drawPolicyQuote(t, s)
		p := drawPolicyFields(t, q, s)
		p.MinQeSvn, p.MinPceSvn = 0, 0
		if rapid.Bool().Draw(t, "wellFormedSizes") {
			// every byte string of the right size (so that conversion succeeds and validation runs), lists with empty
			// entries in front of, between and behind full ones
			fix := func(b *[]byte, n int) {
				if *b != nil && len(*b) != n {
					*b = nil
				}
			}
			fix(&p.QeVendorID, 16)
			fix(&p.MinTeeTcbSvn, 16)
			fix(&p.MrSeam, 48)
			fix(&p.TdAttributes, 8)
			fix(&p.Xfam, 8)
			fix(&p.MrTd, 48)
			fix(&p.MrConfigID, 48)
			fix(&p.MrOwner, 48)
			fix(&p.MrOwnerConfig, 48)
			fix(&p.ReportData, 64)
			mkList := func(n int, label string) [][]byte {
				out := make([][]byte, n)
				for i := range out {
					switch rapid.IntRange(0, 2).Draw(t, fmt.Sprintf("%s%d", label, i)) {
					case 0:
						out[i] = []byte{}
					case 1:
						out[i] = s.Bytes(48)
					default:
						out[i] = append([]byte{}, q.MrTd[:]...)
					}
				}
				return out
			}
			p.AnyMrTd = mkList(rapid.IntRange(0, 4).Draw(t, "anyLen"), "any")
			p.Rtmrs = mkList(4, "rtmr")
			for i := range p.Rtmrs {
				if len(p.Rtmrs[i]) == 48 && rapid.Bool().Draw(t, fmt.Sprintf("rtmrEq%d", i)) {
					p.Rtmrs[i] = append([]byte{}, q.Rtmr[i][:]...)
				}
			}
			gen.Class("policy-snapshot:well-formed-sizes")
		}
		pol := fieldsToPolicy(p, false, false)
		rehome(pol.ProtoReflect(), 32)
		var regions []memRegion
		messageRegions("policy.", pol.ProtoReflect(), &regions)
		before := proto.Clone(pol)
		gen.Eval()
		var opts *validate.Options
		v := gen.Call(func() error {
			var err error
			opts, err = validate.PolicyToOptions(pol)
			return err
		})
		if v.Accepted() {
			m := q.ToProto()
			optsBefore := deepCopyOptions(opts)
			gen.Call(func() error { return validate.TdxQuote(m, opts) })
			gen.Class("policy-snapshot:validated")
			if !reflect.DeepEqual(optsBefore.HeaderOptions, opts.HeaderOptions) || !sameBodyOptions(&optsBefore.TdQuoteBodyOptions, &opts.TdQuoteBodyOptions) {
				gen.Fail(t, gen.Violation{Key: "writes-to-options", Oracle: "validation never writes to the options it is given (values, list entries, list order)", Detail: fmt.Sprintf("options before %v, after %v", fieldsJSONOfOptions(optsBefore), fieldsJSONOfOptions(opts)), Replay: map[string]any{"kind": "memory-policy"}})
				return
			}
		}
		if d := changed(regions); d != "" || !proto.Equal(before, pol) {
			gen.Fail(t, gen.Violation{Key: "writes-to-policy", Oracle: "conversion and validation never write to the policy / option byte strings", Detail: d, Replay: map[string]any{"kind": "memory-policy"}})
			return
		}
		gen.NonTrivial("policy", fmt.Sprint(fieldsJSON(p)))
		gen.Class("policy-snapshot")
		_ = ccpb.Policy{}
	})

	// (2) schedules: goroutines sharing one message, each with its own options, under the race detector.
	rounds := gen.N(30, 3000)
	// several callers verify the SAME quote at the same time, each through its own getter - and the getters do not
	// serve the same revocation lists (one caller's PCS mirror already lists the leaf, another's is down): every caller
	// gets the verdict its own data gives when it runs alone
	gen.Direct(t, "concurrent-callers-with-their-own-revocation-lists", func(t *testing.T) {
		for round := 0; round < gen.N(6, 300); round++ {
			s := gen.NewStream(gen.ProcSeed()*991+uint64(round), "c16crl")
			w := gen.NewWorld(gen.NewPKI(gen.PKISpec{Seed: gen.PKISeeds[round%4]}), s)
			w.HonestCollateral()
			w.Build()
			pckURL := gen.PckCrlURL(w.IssuerCA())
			revoking := w.PckCrl
			revoking.Revoked = append(append([][]byte{}, w.PckCrl.Revoked...), w.Leaf.X.SerialNumber.Bytes())
			revokingRoot := w.RootCrl
			revokingRoot.Revoked = append(append([][]byte{}, w.RootCrl.Revoked...), w.PKI.Int.X.SerialNumber.Bytes())
			type caller struct {
				name string
				mk   func() trust.HTTPSGetter
			}
			delay := time.Duration(1+s.Intn(4)) * time.Millisecond
			mkWith := func(edit func(g *gen.Getter)) func() trust.HTTPSGetter {
				return func() trust.HTTPSGetter {
					g := w.NewGetter()
					edit(g)
					return slowGetter{g, delay}
				}
			}
			callers := []caller{
				{"clean-lists", mkWith(func(g *gen.Getter) {})},
				{"pck-crl-lists-the-leaf", mkWith(func(g *gen.Getter) {
					r := g.Resp[pckURL]
					r.Body = gen.MakeCRL(w.PKI.Int, w.PKI.Int.Key, revoking)
					g.Resp[pckURL] = r
				})},
				{"root-crl-lists-the-issuing-ca", mkWith(func(g *gen.Getter) {
					for _, u := range append([]string{gen.RootCrlURL}, w.PKI.Root.X.CRLDistributionPoints...) {
						if r, ok := g.Resp[u]; ok {
							r.Body = gen.MakeCRL(w.PKI.Root, w.PKI.Root.Key, revokingRoot)
							g.Resp[u] = r
						}
					}
				})},
				{"pck-crl-endpoint-down", mkWith(func(g *gen.Getter) { delete(g.Resp, pckURL) })},
			}
			run := func(c caller) string {
				o := w.Options(gen.LvlCRL, nil, nil)
				o.Getter = c.mk()
				return gen.Call(func() error { return verify.RawTdxQuote(w.Raw, o) }).Short()
			}
			n := 4 + s.Intn(9)
			who := make([]caller, n)
			solo := make([]string, n)
			for i := range who {
				who[i] = callers[(i+s.Intn(2))%len(callers)]
				solo[i] = run(who[i])
			}
			if solo0 := run(callers[0]); solo0 != "accept" {
				gen.Inconclusive("concurrent callers: the clean world is not accepted alone: " + solo0)
				continue
			}
			got := make([][]string, n)
			start := make(chan struct{})
			var wg sync.WaitGroup
			for i := range who {
				wg.Add(1)
				go func(i int) {
					defer wg.Done()
					<-start
					for rep := 0; rep < 4; rep++ {
						got[i] = append(got[i], run(who[i]))
					}
				}(i)
			}
			close(start)
			wg.Wait()
			gen.EvalN(n * 5)
			for i := range who {
				for _, g := range got[i] {
					if g != solo[i] {
						var names []string
						for _, c := range who {
							names = append(names, c.name)
						}
						gen.Fail(t, gen.Violation{Key: "concurrent-verdict-differs:own-revocation-lists:" + who[i].name, Oracle: "concurrent calls give the same verdict as when run alone", Detail: fmt.Sprintf("%d callers %v verify one quote at the same time, each through its own getter: caller %d (%s) alone %s, concurrently %s", n, names, i, who[i].name, solo[i], g), Replay: map[string]any{"kind": "c16-own-lists", "needs_race": false}})
						return
					}
				}
			}
			gen.NonTrivial("c16crl", round, n)
			gen.Class("concurrent-callers-with-their-own-revocation-lists")
		}
	})
	gen.Direct(t, "concurrent", func(t *testing.T) {
		for round := 0; round < rounds; round++ {
			s := gen.NewStream(gen.ProcSeed()*977+uint64(round), "c16race")
			w := gen.NewWorld(gen.NewPKI(gen.PKISpec{Seed: gen.PKISeeds[round%4]}), s)
			w.Q.Auth = s.Bytes([]int{32, 0, 200, 5}[round%4])
			w.ChainNUL = s.Intn(2) == 0 // the optional terminator after the chain
			if s.Intn(3) == 0 {
				w.Q.Extra = s.Bytes(1 + s.Intn(40))
			}
			if round%3 == 2 {
				// a quote from a TDX module of a major version (2 or more) the TCB Info has no identity for - it lists an
				// older one only: verification with collateral fails at the very last step, and fails the same way every time
				w.Q.TeeTcbSvn[1] = byte(2 + s.Intn(100))
				w.HonestCollateral()
				for i := range w.TcbInfo.Identities {
					w.TcbInfo.Identities[i].ID = "TDX_01"
				}
				if len(w.TcbInfo.Identities) == 0 {
					w.TcbInfo.Identities = []gen.ModuleIdentity{{ID: "TDX_01", Mrsigner: w.Q.MrSignerSeam[:], Attributes: make([]byte, 8), Mask: bytes.Repeat([]byte{0xff}, 8), Levels: []gen.ModuleLevel{{Isvsvn: 0, Status: "UpToDate"}}}}
				}
			}
			if round%2 == 1 {
				// a PCK leaf whose SGX extension lists its members - and the members of its TCB sequence - in another
				// order (they are identified by their object identifiers, not by their position)
				v := w.Sgx
				top := gen.SgxTree(&v)
				tcb := tcbNode(top)
				perm := func(n int) []int {
					p := seqInts(n)
					for i := n - 1; i > 0; i-- {
						j := s.Intn(i + 1)
						p[i], p[j] = p[j], p[i]
					}
					return p
				}
				tcb.Kids = gen.Permute(tcb.Kids, perm(len(tcb.Kids)))
				if round%4 == 3 {
					top.Kids = gen.Permute(top.Kids, perm(len(top.Kids)))
				}
				w.SgxDER = top.Encode()
			}
			w.Build()
			src := sources[round%len(sources)]
			m, raw := c16Message(t, w, src)
			// every third round a second, different quote (other chain bytes) is verified by some of the goroutines
			var w2 *gen.World
			var m2 *pb.QuoteV4
			var raw2 []byte
			if round%3 == 1 {
				w2 = gen.NewWorld(gen.NewPKI(gen.PKISpec{Seed: gen.PKISeeds[(round+1)%4]}), gen.NewStream(gen.ProcSeed()*977+uint64(round)+500000, "c16race2"))
				w2.ChainNUL = s.Intn(2) == 0
				w2.Build()
				m2, raw2 = c16Message(t, w2, sources[(round+1)%len(sources)])
			}
			n := 2 + s.Intn(15)
			mix := make([]c16Call, n)
			solo := make([]string, n)
			for i := range mix {
				mix[i] = c16Calls[s.Intn(len(c16Calls))]
				if i < 2 {
					mix[i] = c16Calls[s.Intn(3)] // at least two verifications
				}
			}
			// bad siblings of the shared quote arrive at the same service: the attestation key replaced and the body re-signed
			// (fails at the QE report data), one body bit changed (fails at the signature), one QE report bit changed.
			// They are verified before the concurrent phase (rounds 0,1 of four) and during it (rounds 2,3), each with
			// its own options; what happens to them must not disturb the verifications of the shared quote.
			var siblings [][]byte
			{
				q := w.Q.Clone()
				k := gen.DeriveKey("c16/other-attestation-key")
				copy(q.AttKey[:], k.PubRaw())
				gen.SignBody(q, k)
				siblings = append(siblings, q.Encode())
				b := append([]byte{}, w.Raw...)
				b[48+s.Intn(584)] ^= 1 << uint(s.Intn(8))
				siblings = append(siblings, b)
				b = append([]byte{}, w.Raw...)
				b[770+s.Intn(384)] ^= 1 << uint(s.Intn(8))
				siblings = append(siblings, b)
				// both signatures wrong at once (the quote signature and the QE report signature)
				b = append([]byte{}, w.Raw...)
				b[636+s.Intn(64)] ^= 1 << uint(s.Intn(8))
				b[1154+s.Intn(64)] ^= 1 << uint(s.Intn(8))
				siblings = append(siblings, b)
			}
			runSibling := func(k int) string {
				o := w.Options(gen.LvlBase, w.NewGetter(), nil)
				v := gen.Call(func() error { return verify.RawTdxQuote(siblings[k], o) })
				return v.Short()
			}
			sibSolo := make([]string, len(siblings))
			sibGot := make([]string, len(siblings))
			if round%4 < 2 {
				for k := range siblings {
					sibSolo[k] = runSibling(k)
				}
			}
			useSecond := func(i int) bool { return w2 != nil && i%2 == 1 }
			runOne := func(i int) string {
				if useSecond(i) {
					return mix[i].run(w2, m2, raw2).Short()
				}
				return mix[i].run(w, m, raw).Short()
			}
			// in half of the rounds the solo verdicts are taken AFTER the concurrent phase, so that the very first
			// use of the library on this quote happens concurrently
			soloFirst := round%2 == 0
			if soloFirst {
				for i := range mix {
					solo[i] = runOne(i)
				}
			}
			var regions []memRegion
			messageRegions("quote.", m.ProtoReflect(), &regions)
			got := make([]string, n)
			start := make(chan struct{})
			var wg sync.WaitGroup
			for i := range mix {
				wg.Add(1)
				go func(i int) {
					defer wg.Done()
					<-start
					for rep := 0; rep < 3; rep++ {
						got[i] = runOne(i)
					}
				}(i)
			}
			if round%4 >= 2 {
				for k := range siblings {
					wg.Add(1)
					go func(k int) {
						defer wg.Done()
						<-start
						for rep := 0; rep < 3; rep++ {
							sibGot[k] = runSibling(k)
						}
					}(k)
				}
			}
			close(start)
			wg.Wait()
			if !soloFirst {
				for i := range mix {
					solo[i] = runOne(i)
				}
			}
			if round%4 >= 2 {
				for k := range siblings {
					sibSolo[k] = runSibling(k)
					if sibGot[k] != sibSolo[k] {
						gen.Fail(t, gen.Violation{Key: "concurrent-verdict-differs:bad-sibling", Oracle: "concurrent calls give the same verdict as when run alone", Detail: fmt.Sprintf("source=%s goroutines=%d sibling %d of the shared quote: solo %s, concurrent %s", src, n, k, sibSolo[k], sibGot[k]), Replay: w.CaseFile(gen.LvlBase, siblings[k], nil, nil, "reject")})
						return
					}
				}
			}
			gen.EvalN(n*3 + len(siblings)*3)
			var names []string
			for _, c := range mix {
				names = append(names, c.name)
			}
			rp := w.CaseFile(gen.LvlColl, nil, nil, nil, "norace")
			rp["kind"], rp["source"], rp["mix"] = "race", src, names
			for i := range mix {
				if got[i] != solo[i] {
					gen.Fail(t, gen.Violation{Key: "concurrent-verdict-differs:" + mix[i].name, Oracle: "concurrent calls give the same verdict as when run alone", Detail: fmt.Sprintf("source=%s goroutines=%d %s: solo %s, concurrent %s", src, n, mix[i].name, solo[i], got[i]), Replay: rp})
					return
				}
			}
			if d := changed(regions); d != "" {
				gen.Fail(t, gen.Violation{Key: "writes-to-input:concurrent:" + strings.SplitN(d, ":", 2)[0], Oracle: "no call writes to memory reachable from the shared quote", Detail: d, Replay: rp})
				return
			}
			if rep := raceLogs(); rep != "" {
				site := "unknown"
				for _, line := range strings.Split(rep, "\n") {
					if strings.Contains(line, "github.com/google/go-tdx-guest/") && strings.Contains(line, "()") {
						site = strings.TrimSpace(strings.Split(strings.TrimPrefix(strings.TrimSpace(line), "github.com/google/go-tdx-guest/"), "(")[0])
						break
					}
				}
				rp["race_report"] = rep[:min(len(rep), 6000)]
				gen.Fail(t, gen.Violation{Key: "data-race@" + site, Oracle: "one quote may be verified and validated concurrently from many goroutines without a data race", Detail: fmt.Sprintf("source=%s goroutines=%d mix=%v: race detector report starts: %s", src, n, names, firstLines(rep, 12)), Replay: rp})
				return
			}
			gen.NonTrivial("race-round", src, strings.Join(names, ","), w.Raw)
			gen.Class("race-round:" + src)
			if round < 3 {
				gen.Sample("race-round", map[string]any{"source": src, "goroutines": n, "mix": names})
			}
		}
	})
}

func firstLines(s string, n int) string {
	l := strings.Split(s, "\n")
	if len(l) > n {
		l = l[:n]
	}
	return strings.Join(l, " | ")
}

// slowGetter answers after a short pause (a download takes time: concurrent callers overlap inside it).
type slowGetter struct {
	inner trust.HTTPSGetter
	d     time.Duration
}

func (g slowGetter) Get(u string) (map[string][]string, []byte, error) {
	time.Sleep(g.d)
	return g.inner.Get(u)
}
