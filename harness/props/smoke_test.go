package props

import (
	"testing"

	"verifharness/gen"
)

func TestSmokeHonestWorld(t *testing.T) {
	p := gen.NewPKI(gen.PKISpec{Seed: "smoke"})
	w := gen.NewWorld(p, gen.NewStream(1, "smoke")).Build()
	if s := w.SelfCheck(); s != "" {
		t.Fatal(s)
	}
	for _, l := range []gen.Level{gen.LvlBase, gen.LvlColl, gen.LvlCRL} {
		v, g := w.VerifyRaw(l)
		t.Logf("%v: %v requests=%v", l, v, g.Requests())
		if !v.Accepted() {
			t.Errorf("level %v: %v", l, v)
		}
	}
	v, _ := w.VerifyRaw(gen.LvlCRLNoColl)
	if v.Accepted() {
		t.Errorf("crl without collateral accepted")
	}
}
