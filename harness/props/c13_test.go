package props

import (
	"bytes"
	"crypto/x509"
	"crypto/x509/pkix"
	"encoding/asn1"
	"encoding/hex"
	"fmt"
	"testing"

	"github.com/google/go-tdx-guest/pcs"
	"pgregory.net/rapid"
	"verifharness/gen"
)

var biasByte = rapid.OneOf(rapid.Byte(), rapid.SampledFrom([]byte{0, 1, 127, 128, 129, 254, 255}))
var biasU16 = rapid.OneOf(rapid.Uint16(), rapid.SampledFrom([]uint16{0, 1, 127, 128, 255, 256, 32767, 32768, 65534, 65535}))

func drawSgxValues(t *rapid.T, s *gen.Stream) *gen.SgxValues {
	v := &gen.SgxValues{}
	s.Fill(v.PPID[:])
	s.Fill(v.CpuSvn[:])
	s.Fill(v.PceID[:])
	s.Fill(v.Fmspc[:])
	for i := range v.Comp {
		v.Comp[i] = biasByte.Draw(t, "comp")
	}
	v.PceSvn = biasU16.Draw(t, "pcesvn")
	v.WithSgxType = rapid.Bool().Draw(t, "sgxtype")
	v.WithPlatformIns = rapid.Bool().Draw(t, "platformInstance")
	v.WithConfig = rapid.Bool().Draw(t, "configuration")
	// Octet-string contents must not themselves look like a DER octet string of another size
	// (the tree unwraps a nested octet string; avoided by construction, see DESIGN C13).
	v.PPID[0] |= 0x10
	v.PceID[0] |= 0x10
	v.Fmspc[0] |= 0x10
	// ... but a value of exactly the RIGHT size whose first bytes happen to read like the header of a DER octet string
	// of the remaining length is just a value: it is what extraction returns
	switch rapid.IntRange(0, 15).Draw(t, "valueLooksLikeDER") {
	case 0:
		v.PPID[0], v.PPID[1] = 0x04, 0x0e
	case 1:
		v.Fmspc[0], v.Fmspc[1] = 0x04, 0x04
	case 2:
		v.CpuSvn[0], v.CpuSvn[1] = 0x04, 0x0e
	case 3:
		v.PceID = [2]byte{0x04, 0x00}
	}
	return v
}

// certWith builds a certificate value holding the SGX extension at position pos among n extensions.
func certWith(sgx []byte, n, pos int, include bool) *x509.Certificate {
	exts := []pkix.Extension{}
	dummy := func(i int) pkix.Extension {
		return pkix.Extension{Id: asn1.ObjectIdentifier{2, 5, 29, 14 + i}, Value: []byte{0x04, 0x01, byte(i)}}
	}
	for i := 0; i < n; i++ {
		if include && i == pos {
			exts = append(exts, gen.SgxExtension(sgx))
		} else {
			exts = append(exts, dummy(i))
		}
	}
	return &x509.Certificate{Extensions: exts}
}

func c13Extract(cert *x509.Certificate) (*pcs.PckExtensions, gen.Verdict) {
	var out *pcs.PckExtensions
	v := gen.Call(func() error {
		var err error
		out, err = pcs.PckCertificateExtensions(cert)
		return err
	})
	return out, v
}

func c13Exact(v *gen.SgxValues, got *pcs.PckExtensions) string {
	switch {
	case got == nil:
		return "nil result without error"
	case got.PPID != hex.EncodeToString(v.PPID[:]):
		return fmt.Sprintf("PPID %s want %x", got.PPID, v.PPID)
	case got.PCEID != hex.EncodeToString(v.PceID[:]):
		return fmt.Sprintf("PCEID %s want %x", got.PCEID, v.PceID)
	case got.FMSPC != hex.EncodeToString(v.Fmspc[:]):
		return fmt.Sprintf("FMSPC %s want %x", got.FMSPC, v.Fmspc)
	case got.TCB.PCESvn != v.PceSvn:
		return fmt.Sprintf("PCESVN %d want %d", got.TCB.PCESvn, v.PceSvn)
	case !bytes.Equal(got.TCB.CPUSvn, v.CpuSvn[:]):
		return fmt.Sprintf("CPUSVN %x want %x", got.TCB.CPUSvn, v.CpuSvn)
	case !bytes.Equal(got.TCB.CPUSvnComponents, v.Comp[:]):
		return fmt.Sprintf("components %v want %v", got.TCB.CPUSvnComponents, v.Comp)
	}
	return ""
}

// tcbNode returns the inner SEQUENCE of 18 TCB elements of a canonical tree.
func tcbNode(top *gen.Node) *gen.Node { return top.Kids[1].Kids[1] }

var c13Malformations = []string{
	"comp-256", "comp-neg", "comp-huge", "pcesvn-65536", "pcesvn-neg", "int-nonminimal", "int-empty",
	"ppid-short", "ppid-long", "pceid-short", "pceid-long", "fmspc-short", "fmspc-long", "cpusvn-short", "cpusvn-long",
	"comp-as-octet", "pcesvn-as-octet", "ppid-as-int", "fmspc-as-int", "cpusvn-as-int", "tcb-as-octet",
	"ppid-wrong-type-right-length", "pceid-wrong-type-right-length", "fmspc-wrong-type-right-length", "cpusvn-wrong-type-right-length",
	"comp-as-other-type", "comp-as-other-type", "pcesvn-as-other-type", "octet-field-wrapped-wrong-size", "octet-field-wrapped-wrong-size",
	"tcb-17", "tcb-19", "member-third-element", "member-third-element", "tcb-element-third-value", "tcb-list-trailing", "trailing-top", "trailing-inner", "trailing-tcb", "truncated", "no-sgx-ext", "ext-5", "ext-7", "top-3-elements", "top-not-sequence",
}

// c13Oddities are encodings the property does not classify (an element is replaced by one with an
// unknown OID, so a required value is simply absent): extraction may succeed or fail, but must not crash.
var c13Oddities = []string{"tcb-oid-arc-0", "tcb-oid-arc-19", "tcb-oid-arc-200", "tcb-oid-arc-huge", "tcb-oid-short", "tcb-oid-other-prefix", "top-oid-arc-0", "top-oid-arc-9", "tcb-dup-component", "pcesvn-oid-with-octet", "cpusvn-oid-with-int-at-comp"}

func c13Oddity(t *rapid.T, kind string, top *gen.Node) []byte {
	tcb := tcbNode(top)
	ci := rapid.IntRange(0, 17).Draw(t, "oi")
	pre := []int{1, 2, 840, 113741, 1, 13, 1}
	switch kind {
	case "tcb-oid-arc-0":
		tcb.Kids[ci].Kids[0] = gen.OID(append(append([]int{}, pre...), 2, 0)...)
	case "tcb-oid-arc-19":
		tcb.Kids[ci].Kids[0] = gen.OID(append(append([]int{}, pre...), 2, 19)...)
	case "tcb-oid-arc-200":
		tcb.Kids[ci].Kids[0] = gen.OID(append(append([]int{}, pre...), 2, 200)...)
	case "tcb-oid-arc-huge":
		tcb.Kids[ci].Kids[0] = gen.OID(append(append([]int{}, pre...), 2, 1<<30)...)
	case "tcb-oid-short":
		tcb.Kids[ci].Kids[0] = gen.OID(pre...)
	case "tcb-oid-other-prefix":
		tcb.Kids[ci].Kids[0] = gen.OID(2, 5, 29, 14)
	case "top-oid-arc-0":
		top.Kids[rapid.IntRange(0, 3).Draw(t, "ti")].Kids[0] = gen.OID(append(append([]int{}, pre...), 0)...)
	case "top-oid-arc-9":
		top.Kids[rapid.IntRange(0, 3).Draw(t, "ti")].Kids[0] = gen.OID(append(append([]int{}, pre...), 9)...)
	case "tcb-dup-component":
		tcb.Kids[ci].Kids[0] = tcb.Kids[(ci+1)%16].Kids[0].Clone()
	case "pcesvn-oid-with-octet":
		tcb.Kids[16].Kids[1] = gen.Octet([]byte{1, 2})
	case "cpusvn-oid-with-int-at-comp":
		tcb.Kids[ci%16].Kids[0] = gen.OID(append(append([]int{}, pre...), 2, 18)...)
	}
	return top.Encode()
}

// drawTooBig draws a non-negative integer that does not fit in `bits` bits: the first values past the
// field, the usual machine limits, and in-range low bits below a set bit at any higher position (so a
// range check done at the wrong width is visible).
func drawTooBig(t *rapid.T, bits uint) int64 {
	low := int64(rapid.Uint64Range(0, 1<<bits-1).Draw(t, "low"))
	switch rapid.IntRange(0, 3).Draw(t, "bigkind") {
	case 0:
		return int64(1)<<bits + int64(rapid.SampledFrom([]int{0, 1, 255}).Draw(t, "past"))
	case 1:
		return rapid.SampledFrom([]int64{65535 + 1, 1 << 20, 1<<31 - 1, 1 << 31, 1<<32 - 1, 1 << 32, 1<<63 - 1}).Draw(t, "limit")
	default:
		shift := uint(rapid.IntRange(int(bits), 62).Draw(t, "shift"))
		hi := int64(rapid.IntRange(1, 127).Draw(t, "hi")) << shift
		if hi <= 0 || hi>>shift == 0 {
			hi = 1 << shift
		}
		return (hi | low) & (1<<63 - 1)
	}
}

// drawNegative draws a negative integer: small ones, and ones whose low 8/16/32 bits look like a valid value.
func drawNegative(t *rapid.T, small int) int64 {
	if rapid.Bool().Draw(t, "smallneg") {
		return -int64(rapid.IntRange(1, small).Draw(t, "neg"))
	}
	shift := uint(rapid.SampledFrom([]int{8, 16, 24, 32, 40, 48, 56, 63}).Draw(t, "negshift"))
	low := int64(rapid.IntRange(0, 255).Draw(t, "neglow"))
	if shift == 63 {
		return -1<<63 + low
	}
	return -(int64(rapid.IntRange(1, 127).Draw(t, "neghi")) << shift) + low
}

func c13Mutate(t *rapid.T, kind string, top *gen.Node, s *gen.Stream) (der []byte, nExt int, include bool) {
	nExt, include = 6, true
	tcb := tcbNode(top)
	ci := rapid.IntRange(0, 15).Draw(t, "ci")
	oct := func(n int) []byte {
		b := s.Bytes(n)
		if n > 0 {
			b[0] |= 0x10
			if b[0] == 0x04 {
				b[0] = 0x14
			}
		}
		return b
	}
	switch kind {
	case "comp-256":
		tcb.Kids[ci].Kids[1] = gen.IntMin(drawTooBig(t, 8))
	case "comp-neg":
		tcb.Kids[ci].Kids[1] = gen.IntMin(drawNegative(t, 300))
	case "comp-huge":
		tcb.Kids[ci].Kids[1] = gen.IntRaw(append([]byte{0x7f}, s.Bytes(rapid.IntRange(8, 12).Draw(t, "w"))...))
	case "pcesvn-65536":
		tcb.Kids[16].Kids[1] = gen.IntMin(drawTooBig(t, 16))
	case "pcesvn-neg":
		tcb.Kids[16].Kids[1] = gen.IntMin(drawNegative(t, 70000))
	case "int-nonminimal":
		tcb.Kids[ci].Kids[1] = gen.IntRaw([]byte{0x00, byte(rapid.IntRange(0, 127).Draw(t, "v"))})
	case "int-empty":
		tcb.Kids[ci].Kids[1] = gen.IntRaw([]byte{})
	case "ppid-short":
		top.Kids[0].Kids[1] = gen.Octet(oct(15))
	case "ppid-long":
		// one byte too long, or too long by a multiple of 256 (a length compared in 8 bits would call it right), or doubled
		top.Kids[0].Kids[1] = gen.Octet(oct(16 + rapid.SampledFrom([]int{1, 1, 256, 512, 4096, 16}).Draw(t, "tooLongBy")))
	case "pceid-short":
		top.Kids[2].Kids[1] = gen.Octet(oct(1))
	case "pceid-long":
		// one byte too long, or too long by a multiple of 256 (a length compared in 8 bits would call it right), or doubled
		top.Kids[2].Kids[1] = gen.Octet(oct(2 + rapid.SampledFrom([]int{1, 1, 256, 512, 4096, 2}).Draw(t, "tooLongBy")))
	case "fmspc-short":
		top.Kids[3].Kids[1] = gen.Octet(oct(5))
	case "fmspc-long":
		// one byte too long, or too long by a multiple of 256 (a length compared in 8 bits would call it right), or doubled
		top.Kids[3].Kids[1] = gen.Octet(oct(6 + rapid.SampledFrom([]int{1, 1, 256, 512, 4096, 6}).Draw(t, "tooLongBy")))
	case "cpusvn-short":
		tcb.Kids[17].Kids[1] = gen.Octet(oct(15))
	case "cpusvn-long":
		// one byte too long, or too long by a multiple of 256 (a length compared in 8 bits would call it right), or doubled
		tcb.Kids[17].Kids[1] = gen.Octet(oct(16 + rapid.SampledFrom([]int{1, 1, 256, 512, 4096, 16}).Draw(t, "tooLongBy")))
	case "ppid-wrong-type-right-length", "pceid-wrong-type-right-length", "fmspc-wrong-type-right-length", "cpusvn-wrong-type-right-length":
		// the content has exactly the expected number of bytes, only the ASN.1 type is not OCTET STRING
		tag := rapid.SampledFrom([]byte{0x0c, 0x13, 0x16, 0x03, 0x02, 0x80, 0x30, 0x05 | 0x40}).Draw(t, "tag")
		mk := func(n int) *gen.Node {
			c := s.Bytes(n)
			c[0] = 0x31 // printable, positive, no unused-bits trouble: the type alone is wrong
			for i := range c {
				c[i] = '0' + c[i]%10
			}
			if tag == 0x03 {
				c[0] = 0
			}
			return &gen.Node{Tag: tag, Content: c}
		}
		switch kind {
		case "ppid-wrong-type-right-length":
			top.Kids[0].Kids[1] = mk(16)
		case "pceid-wrong-type-right-length":
			top.Kids[2].Kids[1] = mk(2)
		case "fmspc-wrong-type-right-length":
			top.Kids[3].Kids[1] = mk(6)
		default:
			tcb.Kids[17].Kids[1] = mk(16)
		}
	case "comp-as-other-type", "pcesvn-as-other-type":
		// the value of an INTEGER element encoded with a type that is not an INTEGER (incl. types a generic decoder has
		// no Go value for: ENUMERATED, NULL, BOOLEAN, REAL, constructed and non-universal tags); never the first element,
		// so that whatever the previous element left behind cannot stand in for it
		alt := rapid.SampledFrom([]*gen.Node{
			{Tag: 0x0a, Content: []byte{5}}, {Tag: 0x05}, {Tag: 0x01, Content: []byte{0xff}}, {Tag: 0x09, Content: []byte{0x80, 0x00, 0x05}}, {Tag: 0x80, Content: []byte{5}}, {Tag: 0x41, Content: []byte{5}},
			{Tag: 0xc2, Content: []byte{5}}, {Tag: 0x30, Kids: []*gen.Node{gen.IntMin(5)}}, {Tag: 0x31, Kids: []*gen.Node{gen.IntMin(5)}}, {Tag: 0xa0, Kids: []*gen.Node{gen.IntMin(5)}}, {Tag: 0x0c, Content: []byte("5")},
			{Tag: 0x06, Content: []byte{0x2a, 0x03}}, {Tag: 0x17, Content: []byte("310314000000Z")}, {Tag: 0x03, Content: []byte{0x00, 0x05}},
		}).Draw(t, "altType")
		i := 1 + ci%15
		if kind == "pcesvn-as-other-type" {
			i = 16
		}
		tcb.Kids[i].Kids[1] = alt.Clone()
	case "octet-field-wrapped-wrong-size":
		// the legacy form (an OCTET STRING holding an OCTET STRING) with an inner value that is too long or too short
		field := rapid.IntRange(0, 3).Draw(t, "wrappedField")
		size := []int{16, 2, 6, 16}[field]
		delta := rapid.SampledFrom([]int{1, 3, 8, -1, -3, -size}).Draw(t, "wrappedDelta")
		if size+delta < 0 || delta == -2 {
			delta = 1
		}
		inner := oct(size + delta)
		wrapped := gen.Octet(gen.Octet(inner).Encode())
		switch field {
		case 0:
			top.Kids[0].Kids[1] = wrapped
		case 1:
			top.Kids[2].Kids[1] = wrapped
		case 2:
			top.Kids[3].Kids[1] = wrapped
		default:
			tcb.Kids[17].Kids[1] = wrapped
		}
	case "comp-as-octet":
		tcb.Kids[ci].Kids[1] = gen.Octet([]byte{5})
	case "pcesvn-as-octet":
		tcb.Kids[16].Kids[1] = gen.Octet([]byte{0, 5})
	case "ppid-as-int":
		top.Kids[0].Kids[1] = gen.IntMin(77)
	case "fmspc-as-int":
		top.Kids[3].Kids[1] = gen.IntMin(77)
	case "cpusvn-as-int":
		tcb.Kids[17].Kids[1] = gen.IntMin(77)
	case "tcb-as-octet":
		top.Kids[1].Kids[1] = gen.Octet(oct(20))
	case "tcb-17":
		i := rapid.IntRange(0, 17).Draw(t, "drop")
		tcb.Kids = append(append([]*gen.Node{}, tcb.Kids[:i]...), tcb.Kids[i+1:]...)
	case "tcb-19":
		tcb.Kids = append(tcb.Kids, tcb.Kids[rapid.IntRange(0, 17).Draw(t, "dup")].Clone())
	case "member-third-element":
		// a further well-formed DER value inside a member, after its value (lengths stay consistent): a member is a pair
		k := rapid.SampledFrom([]int{1, 1, 1, 0, 2, 3}).Draw(t, "member")
		extra := []*gen.Node{gen.IntMin(5), gen.Octet(oct(3)), gen.Octet(nil), tcb.Clone(), gen.Seq()}[rapid.IntRange(0, 4).Draw(t, "extra")]
		top.Kids[k].Kids = append(top.Kids[k].Kids, extra)
	case "tcb-element-third-value":
		// an element of the TCB list with a further value behind its own (e.g. a second, contradicting integer)
		k := rapid.IntRange(0, 17).Draw(t, "element")
		extra := []*gen.Node{gen.IntMin(7), gen.Octet(oct(16)), gen.Seq(), tcb.Kids[k].Kids[1].Clone()}[rapid.IntRange(0, 3).Draw(t, "extra")]
		tcb.Kids[k].Kids = append(tcb.Kids[k].Kids, extra)
	case "tcb-list-trailing":
		tcb.Trailing = []byte{0x00}
	case "trailing-top":
		top.Trailing = []byte{0x00}
	case "trailing-inner":
		top.Kids[rapid.IntRange(0, 3).Draw(t, "k")].Trailing = []byte{0x00}
	case "trailing-tcb":
		tcb.Kids[rapid.IntRange(0, 17).Draw(t, "k")].Trailing = []byte{0x00}
	case "truncated":
		d := top.Encode()
		return d[:rapid.IntRange(1, len(d)-1).Draw(t, "cut")], 6, true
	case "no-sgx-ext":
		include = false
	case "ext-5":
		nExt = 5
	case "ext-7":
		nExt = 7
	case "top-3-elements":
		top.Kids = top.Kids[:3]
	case "top-not-sequence":
		return gen.Octet(top.Encode()).Encode(), 6, true
	}
	return top.Encode(), nExt, include
}

func c13Replay(c map[string]any) string {
	der, _ := hex.DecodeString(c["sgx_hex"].(string))
	cert := certWith(der, int(c["n_ext"].(float64)), int(c["pos"].(float64)), c["include"] == true)
	got, v := c13Extract(cert)
	if v.Panicked() {
		return "crashed: " + v.Panic
	}
	if c["expect"] == "nopanic" {
		return ""
	}
	if c["expect"] == "error" {
		if v.Accepted() {
			return fmt.Sprintf("malformed variant %v extracted without error: %+v", c["variant"], got)
		}
		return ""
	}
	if !v.Accepted() {
		return "well-formed extension rejected: " + v.String()
	}
	var want gen.SgxValues
	b, _ := hex.DecodeString(c["values_hex"].(string))
	copy(want.PPID[:], b[0:16])
	copy(want.Comp[:], b[16:32])
	want.PceSvn = uint16(b[32])<<8 | uint16(b[33])
	copy(want.CpuSvn[:], b[34:50])
	copy(want.PceID[:], b[50:52])
	copy(want.Fmspc[:], b[52:58])
	return c13Exact(&want, got)
}

func valuesHex(v *gen.SgxValues) string {
	var b []byte
	b = append(b, v.PPID[:]...)
	b = append(b, v.Comp[:]...)
	b = append(b, byte(v.PceSvn>>8), byte(v.PceSvn))
	b = append(b, v.CpuSvn[:]...)
	b = append(b, v.PceID[:]...)
	b = append(b, v.Fmspc[:]...)
	return hex.EncodeToString(b)
}

func init() { replayKinds["sgxext"] = c13Replay }

func TestC13(t *testing.T) {
	replayDir(t, "C13")
	// a caller that looks at members the library does not extract builds their identifiers from the exported ones the
	// usual way - append(pcs.OidSgxExtension, 6) - before, between and after extractions: the exported identifiers, and
	// what the extraction returns, stay what they are (everything below runs in a process where this has happened)
	gen.Direct(t, "identifiers-derived-from-the-exported-ones", func(t *testing.T) {
		exported := map[string]*asn1.ObjectIdentifier{"OidSgxExtension": &pcs.OidSgxExtension, "OidPPID": &pcs.OidPPID, "OidTCB": &pcs.OidTCB, "OidPCESvn": &pcs.OidPCESvn, "OidCPUSvn": &pcs.OidCPUSvn, "OidPCEID": &pcs.OidPCEID, "OidFMSPC": &pcs.OidFMSPC}
		before := map[string]string{}
		for n, o := range exported {
			before[n] = o.String()
		}
		s := gen.NewStream(gen.Seed(), "c13oids")
		for round := 0; round < 6; round++ {
			for _, o := range exported {
				for _, arc := range []int{6, 7, 5, 19, 1} {
					derived := append(*o, arc)
					_ = derived.String()
				}
			}
			v := &gen.SgxValues{PceSvn: uint16(7 + round)}
			s.Fill(v.PPID[:])
			s.Fill(v.CpuSvn[:])
			s.Fill(v.Fmspc[:])
			s.Fill(v.PceID[:])
			for i := range v.Comp {
				v.Comp[i] = byte(s.Intn(256))
			}
			top := gen.SgxTree(v)
			if round%2 == 1 {
				// the platform-CA shape: the optional members 5 (type), 6 (platform instance id) and 7 (configuration)
				top.Kids = append(top.Kids, gen.Seq(gen.OID(1, 2, 840, 113741, 1, 13, 1, 5), gen.Enum(1)), gen.Seq(gen.OID(1, 2, 840, 113741, 1, 13, 1, 6), gen.Octet(s.Bytes(16))))
			}
			gen.Eval()
			got, vv := c13Extract(certWith(top.Encode(), 6, 5, true))
			if !vv.Accepted() || c13Exact(v, got) != "" {
				why := vv.String()
				if vv.Accepted() {
					why = c13Exact(v, got)
				}
				gen.Fail(t, gen.Violation{Key: "wellformed-after-derived-identifiers", Oracle: "a well-formed extension yields exactly the encoded values", Detail: fmt.Sprintf("after the caller built identifiers with append(pcs.Oid..., n) (round %d): %s", round, why), Replay: map[string]any{"kind": "sgxext-derived-oids"}})
				return
			}
			for n, o := range exported {
				if o.String() != before[n] {
					gen.Fail(t, gen.Violation{Key: "exported-identifier-changed:" + n, Oracle: "a well-formed extension yields exactly the encoded values (the exported identifiers are constants)", Detail: fmt.Sprintf("pcs.%s was %s and is %s after append(pcs.Oid..., n) on OTHER exported identifiers", n, before[n], o.String()), Replay: map[string]any{"kind": "sgxext-derived-oids"}})
					return
				}
			}
			gen.NonTrivial("c13oids", round)
		}
		gen.Class("identifiers-derived-from-the-exported-ones")
	})
	gen.Prop(t, "unclassified-encodings-do-not-crash", gen.N(8000, 500000), c13OddityProp)
	gen.Prop(t, "wellformed", gen.N(60000, 5000000), func(t *rapid.T) {
		s := gen.NewStream(rapid.Uint64().Draw(t, "content"), "c13")
		v := drawSgxValues(t, s)
		top := gen.SgxTree(v)
		wrapped := false
		if rapid.IntRange(0, 3).Draw(t, "legacyWrapped") == 0 {
			wrapped = true
			// the legacy form of the fixed-size fields: an OCTET STRING holding an OCTET STRING of exactly the right size
			tcb0 := tcbNode(top)
			for fi, slot := range []**gen.Node{&top.Kids[0].Kids[1], &top.Kids[2].Kids[1], &top.Kids[3].Kids[1], &tcb0.Kids[17].Kids[1]} {
				if rapid.Bool().Draw(t, fmt.Sprintf("wrap%d", fi)) {
					val := [][]byte{v.PPID[:], v.PceID[:], v.Fmspc[:], v.CpuSvn[:]}[fi]
					*slot = gen.Octet(gen.Octet(val).Encode())
				}
			}
			gen.Class("octet-fields-in-legacy-wrapped-form")
		}
		// further members the decoder does not know, with object identifiers NEAR the known ones (children of a known
		// member, siblings whose dotted text merely starts like a known one, higher arcs) and values shaped like the real
		// ones: they may be ignored or refused, but they must never stand in for the real PPID / TCB / PCE-ID / FMSPC
		extras := false
		if rapid.IntRange(0, 3).Draw(t, "unknownNeighbours") == 0 {
			extras = true
			pre := []int{1, 2, 840, 113741, 1, 13, 1}
			nearTop := [][]int{{4, 1}, {1, 1}, {3, 7}, {2, 18}, {40}, {14}, {10}, {9}, {255}}
			for k, n := 0, rapid.IntRange(1, 3).Draw(t, "nExtras"); k < n; k++ {
				arcs := rapid.SampledFrom(nearTop).Draw(t, "extraOid")
				oid := append(append([]int{}, pre...), arcs...)
				if rapid.IntRange(0, 3).Draw(t, "textPrefix") == 0 {
					// 1.2.840.113741.1.13.1x.y : the dotted text starts like 1.2.840.113741.1.13.1 but the arc is another one
					oid = []int{1, 2, 840, 113741, 1, 13, rapid.SampledFrom([]int{10, 14, 19, 100}).Draw(t, "arc7"), rapid.IntRange(1, 4).Draw(t, "arc8")}
				}
				vb := s.Bytes(rapid.SampledFrom([]int{6, 2, 16}).Draw(t, "extraSize"))
				vb[0] |= 0x10
				val := gen.Octet(vb)
				m := gen.Seq(gen.OID(oid...), val)
				if rapid.Bool().Draw(t, "extraLast") {
					top.Kids = append(top.Kids, m)
				} else {
					top.Kids = append([]*gen.Node{m}, top.Kids...)
				}
			}
			gen.Class("unknown-members-near-the-known-ones")
		}
		order := "canonical"
		orderKind := rapid.IntRange(0, 5).Draw(t, "order")
		if extras {
			orderKind = 0 // the positions of the known members are no longer the canonical ones
			order = "with-unknown-members"
		}
		switch orderKind {
		case 1, 2:
			top.Kids = gen.Permute(top.Kids, rapid.Permutation(seqInts(len(top.Kids))).Draw(t, "topperm"))
			order = "top-permuted"
		case 3:
			tcb := tcbNode(top)
			tcb.Kids = gen.Permute(tcb.Kids, rapid.Permutation(seqInts(18)).Draw(t, "tcbperm"))
			order = "tcb-permuted"
		case 4:
			top.Kids = gen.Permute(top.Kids, rapid.Permutation(seqInts(len(top.Kids))).Draw(t, "topperm"))
			tcb := top.Kids[indexOfTCB(top)].Kids[1]
			tcb.Kids = gen.Permute(tcb.Kids, rapid.Permutation(seqInts(18)).Draw(t, "tcbperm"))
			order = "both-permuted"
		case 5:
			tcb := tcbNode(top)
			r := rapid.IntRange(1, 17).Draw(t, "rot")
			tcb.Kids = append(append([]*gen.Node{}, tcb.Kids[r:]...), tcb.Kids[:r]...)
			order = "tcb-rotated"
		}
		der := top.Encode()
		pos := rapid.IntRange(0, 5).Draw(t, "pos")
		var cert *x509.Certificate
		real := rapid.IntRange(0, 49).Draw(t, "real") == 0
		if real {
			p := gen.NewPKI(gen.PKISpec{Seed: "c13"})
			leaf := gen.MakeLeaf(p.Int, gen.LeafSpec{KeyLabel: "c13/leaf", SgxDER: der})
			cert = leaf.X
			gen.Class("through-signed-certificate")
		} else {
			cert = certWith(der, 6, pos, true)
		}
		gen.Eval()
		got, vd := c13Extract(cert)
		rp := map[string]any{"kind": "sgxext", "sgx_hex": hex.EncodeToString(der), "n_ext": 6, "pos": pos, "include": true, "expect": "values", "values_hex": valuesHex(v)}
		if vd.Panicked() {
			gen.Fail(t, gen.Violation{Key: "panic@" + gen.PanicSite(vd.Stack), Oracle: "extraction returns values or an error", Detail: vd.Panic, Replay: rp})
			return
		}
		if !vd.Accepted() && (wrapped || extras) {
			// whether the legacy wrapped form is understood at all is the implementation's choice; what it extracts must be right
			gen.Class("legacy-wrapped-form-rejected")
			return
		}
		if !vd.Accepted() {
			gen.Fail(t, gen.Violation{Key: "rejects-wellformed:" + order, Oracle: "well-formed extension yields exactly the encoded values", Detail: vd.String(), Replay: rp})
			return
		}
		if d := c13Exact(v, got); d != "" {
			gen.Fail(t, gen.Violation{Key: "wrong-value:" + order, Oracle: "well-formed extension yields exactly the encoded values", Detail: d, Replay: rp})
			return
		}
		hi := v.PceSvn >= 256
		for _, c := range v.Comp {
			if c >= 128 {
				hi = true
			}
		}
		gen.Class("order:" + order)
		if hi && order != "canonical" {
			gen.NonTrivial(der)
		}
		gen.Sample("wellformed", map[string]any{"order": order, "comp": fmt.Sprint(v.Comp), "pcesvn": v.PceSvn, "optional": []bool{v.WithSgxType, v.WithPlatformIns, v.WithConfig}})
	})
	gen.Prop(t, "malformed", gen.N(40000, 3000000), func(t *rapid.T) {
		s := gen.NewStream(rapid.Uint64().Draw(t, "content"), "c13m")
		v := drawSgxValues(t, s)
		top := gen.SgxTree(v)
		kind := rapid.SampledFrom(c13Malformations).Draw(t, "variant")
		der, nExt, include := c13Mutate(t, kind, top, s)
		pos := rapid.IntRange(0, nExt-1).Draw(t, "pos")
		cert := certWith(der, nExt, pos, include)
		gen.Eval()
		got, vd := c13Extract(cert)
		rp := map[string]any{"kind": "sgxext", "sgx_hex": hex.EncodeToString(der), "n_ext": nExt, "pos": pos, "include": include, "expect": "error", "variant": kind}
		if vd.Panicked() {
			gen.Fail(t, gen.Violation{Key: "panic@" + gen.PanicSite(vd.Stack), Oracle: "extraction returns values or an error", Detail: kind + ": " + vd.Panic, Replay: rp})
			return
		}
		if vd.Accepted() {
			gen.Fail(t, gen.Violation{Key: "accepts-malformed:" + kind, Oracle: "malformed variants yield an error, never a silently wrong value", Detail: fmt.Sprintf("variant %s extracted as %+v", kind, got), Replay: rp})
			return
		}
		gen.Class("variant:" + kind)
		gen.NonTrivial(kind, der)
		gen.Sample("malformed", map[string]any{"variant": kind, "error": vd.Err.Error()})
	})
	// byte-level differential against the reference reader (c13diff_test.go)
	c13Differential(t)
	c13Histories(t)
}

func c13OddityProp(t *rapid.T) {
	s := gen.NewStream(rapid.Uint64().Draw(t, "content"), "c13o")
	v := drawSgxValues(t, s)
	kind := rapid.SampledFrom(c13Oddities).Draw(t, "oddity")
	der := c13Oddity(t, kind, gen.SgxTree(v))
	gen.Eval()
	_, vd := c13Extract(certWith(der, 6, rapid.IntRange(0, 5).Draw(t, "pos"), true))
	if vd.Panicked() {
		gen.Fail(t, gen.Violation{Key: "panic@" + gen.PanicSite(vd.Stack), Oracle: "extraction returns values or an error", Detail: kind + ": " + vd.Panic,
			Replay: map[string]any{"kind": "sgxext", "sgx_hex": hex.EncodeToString(der), "n_ext": 6, "pos": 0, "include": true, "expect": "nopanic"}})
		return
	}
	gen.Class("oddity:" + kind + ":" + vd.Short())
	gen.NonTrivial("oddity", kind, der)
}

func seqInts(n int) []int {
	out := make([]int, n)
	for i := range out {
		out[i] = i
	}
	return out
}

// indexOfTCB finds the top-level element whose value is a SEQUENCE (the TCB element) after permutation.
func indexOfTCB(top *gen.Node) int {
	for i, k := range top.Kids {
		if len(k.Kids) == 2 && k.Kids[1].Tag == 0x30 && len(k.Kids[1].Kids) == 18 {
			return i
		}
	}
	return 1
}
