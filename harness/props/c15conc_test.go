package props

import (
	"bytes"
	"flag"
	"fmt"
	"sync"
	"testing"
	"time"

	"github.com/google/go-tdx-guest/client"
	labi "github.com/google/go-tdx-guest/client/linuxabi"
	"verifharness/gen"
)

// TestC15Concurrent (race build): several goroutines fetch quotes at the same time, each through its own
// device with its own report data, TD report and quote bytes. Every fetch must relay its OWN values.
func TestC15Concurrent(t *testing.T) {
	_ = flag.Set("tdx_guest_device_path", "/nonexistent/verif-tdx-guest")
	gen.Direct(t, "concurrent-fetches", func(t *testing.T) {
		rounds := gen.N(30, 2000)
		for round := 0; round < rounds; round++ {
			s := gen.NewStream(gen.ProcSeed()*41+uint64(round), "c15conc")
			n := 2 + s.Intn(10)
			reps := []int{1, 10, 100}[s.Intn(3)]
			type job struct {
				rd     [64]byte
				report [labi.TdReportSize]byte
				data   []byte
				outLen uint32
				bad    string
			}
			jobs := make([]*job, n)
			// every other round the fetches go through quote PROVIDERS (each caller its own, answering with its own bytes
			// after a millisecond or so), and in those rounds all callers may ask for the SAME report data - a verifier's
			// nonce relayed to several agents: every caller gets its own provider's answer
			viaProvider := round%2 == 1
			sameRD := viaProvider && round%4 == 1
			var common [64]byte
			s.Fill(common[:])
			for i := range jobs {
				j := &job{data: s.Bytes(labi.ReqBufSize), outLen: uint32(1 + s.Intn(labi.ReqBufSize))}
				s.Fill(j.rd[:])
				if sameRD {
					j.rd = common
				}
				s.Fill(j.report[:])
				jobs[i] = j
			}
			start := make(chan struct{})
			var wg sync.WaitGroup
			for i := range jobs {
				wg.Add(1)
				go func(j *job) {
					defer wg.Done()
					<-start
					for r := 0; r < reps && viaProvider; r++ {
						p := &slowProvider{bytes: j.data[:j.outLen], pause: time.Duration(200+int(j.outLen)%1800) * time.Microsecond}
						var got []byte
						v := gen.Call(func() error {
							var err error
							got, err = client.GetRawQuote(p, j.rd)
							return err
						})
						switch {
						case v.Panicked():
							j.bad = "crashed: " + v.Panic
						case !v.Accepted():
							j.bad = "rejects-good-provider: " + v.String()
						case p.calls != 1 || p.sawRD != j.rd:
							j.bad = fmt.Sprintf("provider-not-asked-once-with-the-callers-report-data: %d calls", p.calls)
						case !bytes.Equal(got, j.data[:j.outLen]):
							j.bad = "wrong-bytes: the caller got other bytes than its own provider answered with: " + firstDiff(got, j.data[:j.outLen])
						}
						if j.bad != "" {
							return
						}
					}
					for r := 0; r < reps && !viaProvider; r++ {
						d := &scriptDev{outLen: j.outLen, data: j.data, tdReport: j.report}
						var got []byte
						v := gen.Call(func() error {
							var err error
							got, err = client.GetRawQuote(d, j.rd)
							return err
						})
						switch {
						case v.Panicked():
							j.bad = "crashed: " + v.Panic
						case !v.Accepted():
							j.bad = "rejects-good-device: " + v.String()
						case len(d.sawReportData) != 1 || d.sawReportData[0] != j.rd:
							j.bad = "report-data-not-relayed"
						case len(d.sawQuoteReport) != 1 || !bytes.Equal(d.sawQuoteReport[0], j.report[:]):
							j.bad = "td-report-not-relayed: the quote request carries another TD report than the one this device returned"
						case !bytes.Equal(got, j.data[:j.outLen]):
							j.bad = "wrong-bytes: " + firstDiff(got, j.data[:j.outLen])
						}
						if j.bad != "" {
							return
						}
					}
				}(jobs[i])
			}
			close(start)
			wg.Wait()
			gen.EvalN(n * reps)
			rp := map[string]any{"kind": "c15-concurrent", "needs_race": true, "goroutines": n, "fetches_each": reps}
			for i, j := range jobs {
				if j.bad != "" {
					gen.Fail(t, gen.Violation{Key: "concurrent:" + keyClass(firstWord(j.bad)), Oracle: "every fetch relays its own report data, TD report and quote bytes, also while other fetches are in progress", Detail: fmt.Sprintf("goroutine %d of %d: %s", i, n, j.bad), Replay: rp})
					return
				}
			}
			if rep := raceLogs(); rep != "" {
				rp["race_report"] = rep[:min(len(rep), 6000)]
				gen.Fail(t, gen.Violation{Key: "data-race@" + raceSite(rep), Oracle: "fetches through different devices share no mutable state", Detail: "race detector report starts: " + firstLines(rep, 12), Replay: rp})
				return
			}
			gen.NonTrivial("c15conc", n, reps, jobs[0].rd[:8])
			gen.Class(fmt.Sprintf("concurrent-round:goroutines=%d", n/4*4))
			if round < 3 {
				gen.Sample("concurrent", map[string]any{"goroutines": n, "fetches_each": reps})
			}
		}
	})
}

func firstWord(s string) string {
	for i, c := range s {
		if c == ':' || c == ' ' {
			return s[:i]
		}
	}
	return s
}

// slowProvider is a supported quote provider that takes a moment to answer.
type slowProvider struct {
	bytes []byte
	pause time.Duration
	calls int
	sawRD [64]byte
}

func (p *slowProvider) IsSupported() error { return nil }
func (p *slowProvider) GetRawQuote(rd [64]byte) ([]uint8, error) {
	p.calls++
	p.sawRD = rd
	time.Sleep(p.pause)
	return p.bytes, nil
}
