package props

import (
	"bytes"
	"crypto/sha512"
	"crypto/x509"
	"encoding/binary"
	"fmt"
	"testing"
	"time"

	"github.com/google/go-eventlog/extract"
	"github.com/google/go-tdx-guest/rtmr"
	"github.com/google/go-tdx-guest/validate"
	"github.com/google/go-tdx-guest/verify"
	"pgregory.net/rapid"
	"verifharness/gen"
)

// ccelMeasured is an independent reader of the TCG crypto-agile event log: it returns, per CC
// measurement-register index, the SHA-384 extend chain of the events logged for it.
func ccelMeasured(log []byte) (map[uint32][48]byte, error) {
	// first event: legacy TCG_PCR_EVENT carrying the Spec ID header
	if len(log) < 32 {
		return nil, fmt.Errorf("log too short")
	}
	evSize := binary.LittleEndian.Uint32(log[28:32])
	hdr := log[32 : 32+evSize]
	if !bytes.HasPrefix(hdr, []byte("Spec ID Event03\x00")) {
		return nil, fmt.Errorf("no Spec ID Event03 header")
	}
	nAlg := binary.LittleEndian.Uint32(hdr[24:28])
	sizes := map[uint16]int{}
	for i := uint32(0); i < nAlg; i++ {
		o := 28 + 4*i
		sizes[binary.LittleEndian.Uint16(hdr[o:])] = int(binary.LittleEndian.Uint16(hdr[o+2:]))
	}
	regs := map[uint32][48]byte{}
	off := 32 + int(evSize)
	for off+12 <= len(log) {
		idx := binary.LittleEndian.Uint32(log[off:])
		typ := binary.LittleEndian.Uint32(log[off+4:])
		cnt := binary.LittleEndian.Uint32(log[off+8:])
		if idx == 0xffffffff || (idx == 0 && typ == 0 && cnt == 0) {
			break // padding
		}
		off += 12
		var sha384 []byte
		for i := uint32(0); i < cnt; i++ {
			alg := binary.LittleEndian.Uint16(log[off:])
			sz, ok := sizes[alg]
			if !ok {
				return nil, fmt.Errorf("unknown digest algorithm %#x", alg)
			}
			if alg == 0x000C {
				sha384 = log[off+2 : off+2+sz]
			}
			off += 2 + sz
		}
		es := int(binary.LittleEndian.Uint32(log[off:]))
		off += 4 + es
		if typ == 0x00000003 { // EV_NO_ACTION is not extended
			continue
		}
		if sha384 == nil {
			return nil, fmt.Errorf("event without SHA-384 digest")
		}
		r := regs[idx]
		h := sha512.New384()
		h.Write(r[:])
		h.Write(sha384)
		copy(r[:], h.Sum(nil))
		regs[idx] = r
	}
	return regs, nil
}

// ccelEventsEnd returns the offset just behind the last event of the log (where the padding starts).
func ccelEventsEnd(log []byte) (int, error) {
	if len(log) < 32 {
		return 0, fmt.Errorf("log too short")
	}
	evSize := binary.LittleEndian.Uint32(log[28:32])
	hdr := log[32 : 32+evSize]
	nAlg := binary.LittleEndian.Uint32(hdr[24:28])
	sizes := map[uint16]int{}
	for i := uint32(0); i < nAlg; i++ {
		o := 28 + 4*i
		sizes[binary.LittleEndian.Uint16(hdr[o:])] = int(binary.LittleEndian.Uint16(hdr[o+2:]))
	}
	if nAlg != 1 || sizes[0x000C] != 48 {
		return 0, fmt.Errorf("log does not use SHA-384 alone")
	}
	off := 32 + int(evSize)
	for off+12 <= len(log) {
		idx := binary.LittleEndian.Uint32(log[off:])
		typ := binary.LittleEndian.Uint32(log[off+4:])
		cnt := binary.LittleEndian.Uint32(log[off+8:])
		if idx == 0xffffffff || (idx == 0 && typ == 0 && cnt == 0) {
			return off, nil
		}
		o := off + 12
		for i := uint32(0); i < cnt; i++ {
			o += 2 + sizes[binary.LittleEndian.Uint16(log[o:])]
		}
		o += 4 + int(binary.LittleEndian.Uint32(log[o:]))
		off = o
	}
	return off, nil
}

type ccelEv struct {
	off, end  int // the event's bytes in the log
	idx, typ  uint32
	digestOff int // offset of the 48-byte SHA-384 digest
}

// ccelEvents lists the TCG_PCR_EVENT2 events of a log that uses SHA-384 alone.
func ccelEvents(log []byte) ([]ccelEv, error) {
	end, err := ccelEventsEnd(log)
	if err != nil {
		return nil, err
	}
	off := 32 + int(binary.LittleEndian.Uint32(log[28:32]))
	var out []ccelEv
	for off < end {
		e := ccelEv{off: off, idx: binary.LittleEndian.Uint32(log[off:]), typ: binary.LittleEndian.Uint32(log[off+4:])}
		if binary.LittleEndian.Uint32(log[off+8:]) != 1 || binary.LittleEndian.Uint16(log[off+12:]) != 0x000C {
			return nil, fmt.Errorf("event at %d does not carry exactly one SHA-384 digest", off)
		}
		e.digestOff = off + 14
		es := int(binary.LittleEndian.Uint32(log[off+62:]))
		e.end = off + 66 + es
		out = append(out, e)
		off = e.end
	}
	return out, nil
}

// ccelEvent encodes one TCG_PCR_EVENT2 with a single SHA-384 digest.
func ccelEvent(mr, typ uint32, digest, data []byte) []byte {
	b := make([]byte, 12, 12+50+4+len(data))
	binary.LittleEndian.PutUint32(b[0:], mr)
	binary.LittleEndian.PutUint32(b[4:], typ)
	binary.LittleEndian.PutUint32(b[8:], 1)
	b = append(b, 0x0C, 0x00)
	b = append(b, digest...)
	var l [4]byte
	binary.LittleEndian.PutUint32(l[:], uint32(len(data)))
	b = append(b, l[:]...)
	return append(b, data...)
}

func TestC18(t *testing.T) {
	replayDir(t, "C18")
	ccel := readRepoFile(t, "testing/testdata/ccel/ccel_data.dat")
	table := readRepoFile(t, "testing/testdata/ccel/ccel_table.dat")
	sampleRaw := readRepoFile(t, "testing/testdata/ccel/cos-113-tdx-quote.dat")
	nonce := readRepoFile(t, "testing/testdata/ccel/nonce.dat")
	sample, err := gen.RefParse(sampleRaw)
	if err != nil {
		gen.HarnessError(t, "reference parser rejects the CCEL sample quote: %v", err)
	}
	regs, err := ccelMeasured(ccel)
	if err != nil {
		gen.HarnessError(t, "own event-log reader failed: %v", err)
	}
	measured := map[int]bool{} // RTMR number -> has events
	for idx, r := range regs {
		if idx < 1 || idx > 4 {
			continue
		}
		if r != sample.Rtmr[idx-1] {
			gen.HarnessError(t, "own replay of MR index %d does not reproduce the sample quote's RTMR%d", idx, idx-1)
		}
		measured[int(idx-1)] = true
	}
	if len(measured) == 0 {
		gen.HarnessError(t, "sample log measures nothing")
	}

	mkWorld := func(seed uint64) *gen.World {
		w := gen.NewWorld(gen.NewPKI(gen.PKISpec{Seed: gen.PKISeeds[seed%4]}), gen.NewStream(seed, "c18"))
		// the sample's header and TD body (whose RTMRs match the log), re-signed under our PKI
		q := w.Q
		q.Word8, q.Word10, q.VendorID, q.UserData = sample.Word8, sample.Word10, sample.VendorID, sample.UserData
		q.TeeTcbSvn, q.MrSeam, q.MrSignerSeam, q.SeamAttr, q.TdAttr, q.Xfam = sample.TeeTcbSvn, sample.MrSeam, sample.MrSignerSeam, sample.SeamAttr, sample.TdAttr, sample.Xfam
		q.MrTd, q.MrConfigID, q.MrOwner, q.MrOwnerConfig, q.Rtmr, q.ReportData = sample.MrTd, sample.MrConfigID, sample.MrOwner, sample.MrOwnerConfig, sample.Rtmr, sample.ReportData
		w.HonestCollateral() // collateral matching the sample's TD body, for the collateral / revocation levels
		return w
	}
	logInUse := ccel
	parse := func(w *gen.World, raw []byte, nonceUsed []byte, pol func(*validate.Options), vopt func(*verify.Options)) (any, gen.Verdict) {
		opts := rtmr.TdxDefaultOpts(nonceUsed)
		opts.Verification = w.Options(gen.LvlBase, w.NewGetter(), nil)
		if vopt != nil {
			vopt(opts.Verification)
		}
		if pol != nil {
			pol(opts.Validation)
		}
		q, _ := gen.RefParse(raw)
		var m any
		if q != nil {
			m = q.ToProto()
		} else {
			return nil, gen.Verdict{Err: fmt.Errorf("unparsable")}
		}
		var st any
		gen.Eval()
		v := gen.Call(func() error {
			s, err := rtmr.ParseCcelWithTdQuote(logInUse, table, m, &opts)
			if s != nil {
				st = s
			}
			return err
		})
		return st, v
	}
	expectBlocked := func(t *testing.T, class, desc string, st any, v gen.Verdict) bool {
		if v.Panicked() {
			gen.Fail(t, gen.Violation{Key: "panic@" + gen.PanicSite(v.Stack), Oracle: "returns a state or an error", Detail: desc + ": " + v.Panic, Replay: map[string]any{"kind": "ccel", "class": class}})
			return false
		}
		if st != nil || v.Accepted() {
			gen.Fail(t, gen.Violation{Key: "state-despite:" + class, Oracle: "a firmware log state is returned only if verification and validation pass and every measured RTMR equals the replay", Detail: fmt.Sprintf("%s: state returned=%v error=%v", desc, st != nil, v.Err), Replay: map[string]any{"kind": "ccel", "class": class, "detail": desc}})
			return false
		}
		gen.Class("blocked:" + class)
		return true
	}

	// TdxDefaultOpts binds REPORT_DATA to the zero-padded nonce
	gen.Direct(t, "default-options-bind-nonce", func(t *testing.T) {
		for _, n := range [][]byte{nonce, nonce[:32], {}, bytes.Repeat([]byte{7}, 64)} {
			o := rtmr.TdxDefaultOpts(n)
			want := make([]byte, 64)
			copy(want, n)
			gen.Eval()
			if o.Validation == nil || !bytes.Equal(o.Validation.TdQuoteBodyOptions.ReportData, want) {
				gen.Fail(t, gen.Violation{Key: "default-opts-report-data", Oracle: "the default options bind REPORT_DATA to the 64-byte zero-padded nonce", Detail: fmt.Sprintf("nonce %x", n), Replay: map[string]any{"kind": "ccel", "class": "default-opts"}})
			}
			gen.NonTrivial("default-opts", n)
		}
	})

	// a PCK leaf whose SGX extension carries tens of thousands of further members (pairwise distinct identifiers, some
	// hundred kilobytes of certificate chain): the answer - a state for the genuinely issued leaf, an error for a forged
	// one - comes back in the time it takes to read the quote
	gen.Direct(t, "leaf-with-tens-of-thousands-of-extension-members", func(t *testing.T) {
		if sh, _ := gen.Shard(); sh != 0 {
			return
		}
		for i, forged := range []bool{false, true} {
			w := mkWorld(gen.Seed() + 77 + uint64(i))
			v := w.Sgx
			top := gen.SgxTree(&v)
			for k := 0; k < 36000; k++ {
				top.Kids = append(top.Kids, gen.Seq(gen.OID(1, 3, 6, 1, 4, 1, 99999, 1+k), &gen.Node{Tag: 0x05}))
			}
			w.SgxDER = top.Encode()
			w.Build()
			raw := w.Raw
			if forged {
				raw = append([]byte{}, w.Raw...)
				raw[48+100] ^= 0x04
			}
			var st any
			var vv gen.Verdict
			_, hung := gen.CallWatch(90*time.Second, func() error { st, vv = parse(w, raw, nonce, nil, nil); return nil })
			desc := fmt.Sprintf("quote of %d bytes whose PCK leaf carries 36000 extra SGX-extension members (forged=%v)", len(raw), forged)
			if hung {
				gen.Fail(t, gen.Violation{Key: "no-answer:large-leaf", Oracle: "the call returns a state or an error", Detail: desc + ": no answer within 90 s", Replay: map[string]any{"kind": "ccel", "class": "large-leaf"}})
				return
			}
			if forged {
				if !expectBlocked(t, "large-leaf-forged", desc, st, vv) {
					return
				}
			} else if vv.Panicked() {
				gen.Fail(t, gen.Violation{Key: "panic@" + gen.PanicSite(vv.Stack), Oracle: "returns a state or an error", Detail: desc + ": " + vv.Panic, Replay: map[string]any{"kind": "ccel", "class": "large-leaf"}})
				return
			}
			gen.NonTrivial("c18large", forged)
		}
		gen.Class("leaf-with-tens-of-thousands-of-extension-members")
	})
	// no time set in the verification options (what TdxDefaultOpts hands out): a world valid at the real clock with a
	// revocation-only fault, both flags on - the gate holds exactly as with an explicit time set
	gen.Direct(t, "revocation-faults-judged-at-the-real-clock", func(t *testing.T) {
		i := 0
		for _, c := range gen.Faults {
			switch c.Name {
			case "leaf-revoked", "intermediate-revoked", "tcb-signer-revoked", "pck-crl-endpoint-down", "root-crl-endpoint-down", "pck-crl-expired", "root-crl-expired", "intermediate-revoked-and-the-trusted-bundle-also-lists-it", "none":
			default:
				continue
			}
			i++
			if !gen.ShardOwns(i) {
				continue
			}
			w := mkWorld(gen.Seed() + 300 + uint64(i))
			w.UseRealNow()
			w.HonestCollateral()
			c.ApplyPre(w)
			w.Build()
			c.ApplyPost(w)
			for _, viaDefault := range []bool{false, true} {
				st, v := parse(w, w.Raw, nonce, nil, func(o *verify.Options) {
					n := w.Options(gen.LvlCRL, w.NewGetter(), nil)
					if viaDefault {
						d := verify.DefaultOptions()
						d.TrustedRoots, d.Getter, d.GetCollateral, d.CheckRevocations = n.TrustedRoots, n.Getter, true, true
						n = d
					}
					*o = *n
				})
				desc := fmt.Sprintf("fault %s, Options.Now nil (options from DefaultOptions(): %v), collateral and revocation checking on", c.Name, viaDefault)
				if c.Name == "none" {
					if st == nil || !v.Accepted() {
						gen.Inconclusive("real-clock control world blocked: " + v.String())
					}
					continue
				}
				if !expectBlocked(t, "real-clock:"+c.Name, desc, st, v) {
					return
				}
				gen.NonTrivial("c18now", c.Name, viaDefault)
			}
		}
	})
	gen.Direct(t, "control-and-rtmr-bits", func(t *testing.T) {
		nWorlds := 1
		step := 4
		if gen.Tier() == "thorough" {
			nWorlds, step = 2, 1
		}
		idx := 0
		for wi := 0; wi < nWorlds; wi++ {
			w := mkWorld(gen.Seed() + uint64(wi))
			w.Build()
			st, v := parse(w, w.Raw, nonce, nil, nil)
			if st == nil || !v.Accepted() {
				gen.Fail(t, gen.Violation{Key: "control-blocked:" + errClass(v.Err), Oracle: "control: the re-signed sample quote with the sample log returns a state", Detail: v.String(), Replay: map[string]any{"kind": "ccel", "class": "control"}})
				return
			}
			gen.Class("control-state-returned")
			for r := 0; r < 4; r++ {
				for bit := 0; bit < 48*8; bit++ {
					idx++
					if idx%step != 0 || !gen.ShardOwns(idx/step) {
						continue
					}
					q := w.Q.Clone()
					q.Rtmr[r][bit/8] ^= 1 << uint(bit%8)
					gen.SignBody(q, w.AttKey)
					st, v := parse(w, q.Encode(), nonce, nil, nil)
					desc := fmt.Sprintf("RTMR%d bit %d flipped (re-signed)", r, bit)
					if !measured[r] {
						gen.Class("dontcare:unmeasured-rtmr-flip")
						if v.Panicked() {
							expectBlocked(t, "rtmr-flip-unmeasured", desc, st, v)
							return
						}
						continue
					}
					gen.NonTrivial("rtmr-bit", r, bit, wi)
					if bit%97 == 0 {
						gen.Sample("rtmr-bit", desc)
					}
					if !expectBlocked(t, fmt.Sprintf("rtmr%d-bit", r), desc, st, v) {
						return
					}
				}
			}
		}
		gen.Exhaustive("every single bit of RTMR0-3 of the re-signed sample quote", step == 1)
	})

	// whole-register replacements of each measured RTMR (re-signed): the values a "never extended" / wrapped /
	// mixed-up register would show
	gen.Direct(t, "rtmr-whole-values", func(t *testing.T) {
		w := mkWorld(gen.Seed() + 3)
		w.Build()
		ff := bytes.Repeat([]byte{0xff}, 48)
		for r := 0; r < 4; r++ {
			if !measured[r] {
				continue
			}
			vals := map[string][]byte{"all-zero": make([]byte, 48), "all-ones": ff, "first-byte-only": append([]byte{w.Q.Rtmr[r][0]}, make([]byte, 47)...),
				"value-of-next-register": append([]byte{}, w.Q.Rtmr[(r+1)%4][:]...), "value-of-previous-register": append([]byte{}, w.Q.Rtmr[(r+3)%4][:]...),
				"halves-swapped": append(append([]byte{}, w.Q.Rtmr[r][24:]...), w.Q.Rtmr[r][:24]...), "byte-reversed": func() []byte {
					b := make([]byte, 48)
					for i := range b {
						b[i] = w.Q.Rtmr[r][47-i]
					}
					return b
				}()}
			for name, val := range vals {
				if bytes.Equal(val, w.Q.Rtmr[r][:]) {
					continue
				}
				q := w.Q.Clone()
				copy(q.Rtmr[r][:], val)
				gen.SignBody(q, w.AttKey)
				st, v := parse(w, q.Encode(), nonce, nil, nil)
				desc := fmt.Sprintf("RTMR%d replaced by %s (re-signed)", r, name)
				gen.NonTrivial("rtmr-whole", r, name)
				gen.Sample("rtmr-whole", desc)
				if !expectBlocked(t, fmt.Sprintf("rtmr%d-%s", r, name), desc, st, v) {
					return
				}
			}
			// two measured registers exchanged
			for r2 := r + 1; r2 < 4; r2++ {
				if !measured[r2] || w.Q.Rtmr[r] == w.Q.Rtmr[r2] {
					continue
				}
				q := w.Q.Clone()
				q.Rtmr[r], q.Rtmr[r2] = q.Rtmr[r2], q.Rtmr[r]
				gen.SignBody(q, w.AttKey)
				st, v := parse(w, q.Encode(), nonce, nil, nil)
				gen.NonTrivial("rtmr-swap", r, r2)
				if !expectBlocked(t, "rtmr-registers-exchanged", fmt.Sprintf("RTMR%d and RTMR%d exchanged (re-signed)", r, r2), st, v) {
					return
				}
			}
		}
	})

	// The sample log measures RTMR0..2 only. With events for RTMR3 (CC measurement register 4) appended - anything that
	// extends RTMR3 may log to the CCEL - the fourth register is a measured one as well: a state is returned for the
	// quote whose RTMR3 is the replay of those events, and for no other RTMR3 value.
	gen.Direct(t, "log-with-rtmr3-events", func(t *testing.T) {
		defer func() { logInUse = ccel }()
		end, err := ccelEventsEnd(ccel)
		if err != nil {
			gen.HarnessError(t, "own event-log reader failed: %v", err)
		}
		s := gen.NewStream(gen.Seed()+18, "c18rtmr3")
		for n := 1; n <= 3; n++ {
			var events []byte
			var reg [48]byte
			for k := 0; k < n; k++ {
				data := s.Bytes(4 + s.Intn(40))
				d := sha512.Sum384(data)
				events = append(events, ccelEvent(4, 0x00000006, d[:], data)...) // EV_EVENT_TAG
				reg = extendChain(reg, d[:])
			}
			log2 := append(append(append([]byte{}, ccel[:end]...), events...), ccel[end:]...)
			if regs2, err := ccelMeasured(log2); err != nil || regs2[4] != reg {
				gen.HarnessError(t, "own replay of the extended log does not give the expected RTMR3: %v", err)
			}
			logInUse = log2
			w := mkWorld(gen.Seed() + uint64(40+n))
			w.Q.Rtmr[3] = reg
			w.Build()
			st, v := parse(w, w.Raw, nonce, nil, nil)
			if v.Panicked() {
				gen.Fail(t, gen.Violation{Key: "panic@" + gen.PanicSite(v.Stack), Oracle: "returns a state or an error", Detail: v.Panic, Replay: map[string]any{"kind": "ccel", "class": "rtmr3-events"}})
				return
			}
			positive := st != nil && v.Accepted()
			gen.Class(fmt.Sprintf("rtmr3-events:matching-quote-gets-a-state=%v", positive))
			if !positive {
				// the library behind the extraction may not accept such a log at all; the blocked cases below still hold
				gen.Sample("rtmr3-events", fmt.Sprintf("%d RTMR3 events, matching quote: %s", n, v))
			}
			cases := map[string][48]byte{"all-zero (the sample's RTMR3)": {}, "digest-not-extended": sha512.Sum384(events), "value-of-RTMR2": w.Q.Rtmr[2]}
			for _, bit := range []int{0, 7, 191, 383} {
				f := reg
				f[bit/8] ^= 1 << uint(bit%8)
				cases[fmt.Sprintf("bit-%d-flipped", bit)] = f
			}
			if n > 1 {
				var one [48]byte
				first := events[:len(events)/n]
				_ = first
				cases["replay-of-all-but-the-last-event"] = func() [48]byte {
					r := one
					off := 0
					for k := 0; k < n-1; k++ {
						// each event: 12 bytes header, 2+48 digest, 4+len data
						dl := int(binary.LittleEndian.Uint32(events[off+12+50:]))
						r = extendChain(r, events[off+14:off+14+48])
						off += 12 + 50 + 4 + dl
					}
					return r
				}()
			}
			for name, val := range cases {
				if val == reg {
					continue
				}
				q := w.Q.Clone()
				q.Rtmr[3] = val
				gen.SignBody(q, w.AttKey)
				st, v := parse(w, q.Encode(), nonce, nil, nil)
				desc := fmt.Sprintf("log with %d RTMR3 events, quote's RTMR3 is %s (re-signed)", n, name)
				if positive {
					gen.NonTrivial("rtmr3", n, name)
				}
				if !expectBlocked(t, "rtmr3-differs-from-the-replay-of-its-events", desc, st, v) {
					return
				}
			}
		}
	})

	// The log itself altered (the quote stays genuine and re-signed under our PKI): a digest bit changed, two events of
	// one register exchanged, an event dropped, duplicated or moved to another register. Whatever the library makes
	// of such a log, a state is returned ONLY IF an own replay of the very log that was given reproduces the quote's value
	// of every register the log has events for.
	gen.Prop(t, "altered-logs", gen.N(400, 30000), func(t *rapid.T) {
		defer func() { logInUse = ccel }()
		evs, err := ccelEvents(ccel)
		if err != nil {
			gen.HarnessError(t, "own event-log reader failed: %v", err)
		}
		s := gen.NewStream(rapid.Uint64().Draw(t, "content"), "c18log")
		log2 := append([]byte{}, ccel...)
		var measuredEvs []int
		for i, e := range evs {
			if e.typ != 3 && e.idx >= 1 && e.idx <= 4 {
				measuredEvs = append(measuredEvs, i)
			}
		}
		pick := func(label string) ccelEv {
			return evs[measuredEvs[rapid.IntRange(0, len(measuredEvs)-1).Draw(t, label)]]
		}
		kind := rapid.SampledFrom([]string{"digest-bit", "digest-bit", "exchange-two-events-of-one-register", "drop-event", "duplicate-event", "move-to-another-register", "event-data-byte", "none"}).Draw(t, "alteration")
		switch kind {
		case "digest-bit":
			e := pick("event")
			log2[e.digestOff+rapid.IntRange(0, 47).Draw(t, "byte")] ^= 1 << uint(rapid.IntRange(0, 7).Draw(t, "bit"))
		case "exchange-two-events-of-one-register":
			a := pick("eventA")
			var same []ccelEv
			for _, i := range measuredEvs {
				if evs[i].idx == a.idx && evs[i].off != a.off {
					same = append(same, evs[i])
				}
			}
			if len(same) > 0 {
				b := same[rapid.IntRange(0, len(same)-1).Draw(t, "eventB")]
				da, db := append([]byte{}, log2[a.digestOff:a.digestOff+48]...), append([]byte{}, log2[b.digestOff:b.digestOff+48]...)
				copy(log2[a.digestOff:], db)
				copy(log2[b.digestOff:], da)
			}
		case "drop-event":
			e := pick("event")
			log2 = append(append([]byte{}, log2[:e.off]...), log2[e.end:]...)
		case "duplicate-event":
			e := pick("event")
			log2 = append(append(append([]byte{}, log2[:e.end]...), log2[e.off:e.end]...), log2[e.end:]...)
		case "move-to-another-register":
			e := pick("event")
			binary.LittleEndian.PutUint32(log2[e.off:], 1+(e.idx+uint32(rapid.IntRange(0, 2).Draw(t, "by")))%4)
		case "event-data-byte":
			e := pick("event")
			if e.end-(e.off+66) > 0 {
				log2[e.off+66+s.Intn(e.end-(e.off+66))] ^= 0x01
			}
		}
		regs2, err := ccelMeasured(log2)
		if err != nil {
			return // not a log our reader can replay: nothing to say
		}
		w := mkWorld(gen.Seed() + 77)
		followLog := rapid.Bool().Draw(t, "quoteFollowsTheAlteredLog")
		if followLog {
			for idx := uint32(1); idx <= 4; idx++ {
				if r, ok := regs2[idx]; ok {
					w.Q.Rtmr[idx-1] = r
				}
			}
		}
		w.Build()
		logInUse = log2
		st, v := parse(w, w.Raw, nonce, nil, nil)
		if v.Panicked() {
			gen.Fail(t, gen.Violation{Key: "panic@" + gen.PanicSite(v.Stack), Oracle: "returns a state or an error", Detail: kind + ": " + v.Panic, Replay: map[string]any{"kind": "ccel", "class": "altered-log"}})
			return
		}
		agrees := true
		for idx, r := range regs2 {
			if idx >= 1 && idx <= 4 && r != w.Q.Rtmr[idx-1] {
				agrees = false
			}
		}
		gen.Class(fmt.Sprintf("altered-log:%s,replay-agrees-with-quote=%v,state=%v", kind, agrees, st != nil))
		if !agrees {
			gen.NonTrivial("altered-log", kind, log2)
			if st != nil || v.Accepted() {
				gen.Fail(t, gen.Violation{Key: "state-despite:altered-log:" + kind, Oracle: "a firmware log state is returned only if replaying the log reproduces the quote's value of every RTMR the log has events for",
					Detail: fmt.Sprintf("log altered by %s, quote follows the altered log=%v: an own replay of the given log does not reproduce the quote's RTMRs, yet state returned=%v error=%v", kind, followLog, st != nil, v.Err), Replay: map[string]any{"kind": "ccel", "class": "altered-log", "detail": kind}})
			}
		}
	})

	// a quote MESSAGE can carry values wider than the signed 16-bit fields: the verification gate must judge the signed value
	gen.Direct(t, "message-wider-than-wire", func(t *testing.T) {
		for i, d := range []uint32{1 << 16, 1 << 17, 5 << 16, 1 << 31} {
			w := mkWorld(gen.Seed() + 20 + uint64(i))
			w.Q.QeIsvSvn = uint16(i)
			w.HonestCollateral()
			// the signed ISVSVN selects an OutOfDate QE level; the widened value would select the UpToDate one
			w.QeID.Levels = []gen.QeLevel{{Isvsvn: 1000, Status: "UpToDate"}, {Isvsvn: 0, Status: "OutOfDate"}}
			w.Build()
			m := w.Q.ToProto()
			m.SignedData.CertificationData.QeReportCertificationData.QeReport.IsvSvn += d
			opts := rtmr.TdxDefaultOpts(nonce)
			opts.Verification = w.Options(gen.LvlColl, w.NewGetter(), nil)
			var st any
			gen.Eval()
			v := gen.Call(func() error {
				s, err := rtmr.ParseCcelWithTdQuote(ccel, table, m, &opts)
				if s != nil {
					st = s
				}
				return err
			})
			gen.NonTrivial("msgwidth", i, d)
			if !expectBlocked(t, "verification-fault:qe-level-out-of-date-behind-widened-isvsvn", fmt.Sprintf("signed QE ISVSVN %d (OutOfDate level), message carries %d", i, uint32(i)+d), st, v) {
				return
			}
		}
	})

	gen.Direct(t, "gates", func(t *testing.T) {
		w := mkWorld(gen.Seed() + 10)
		w.Build()
		s := gen.NewStream(gen.Seed(), "c18g")
		other := gen.NewPKI(gen.PKISpec{Seed: "pki-c18-other"})
		flipMeasured := func(q *gen.RefQuote) {
			for r := 0; r < 4; r++ {
				if measured[r] {
					q.Rtmr[r][5] ^= 0x10
					return
				}
			}
		}
		// gate 1: signature-chain and trust faults (each C01 forgery expected to be rejected, wrong pool, expired leaf)
		for _, withRtmr := range []bool{false, true} {
			for _, f := range c01Forgeries {
				if f.expect != "reject" {
					continue
				}
				q := w.Q.Clone()
				if withRtmr {
					flipMeasured(q)
					gen.SignBody(q, w.AttKey)
				}
				f.apply(w, q, s)
				st, v := parse(w, q.Encode(), nonce, nil, nil)
				gen.NonTrivial("gate1", f.name, withRtmr)
				gen.Sample("gate1", fmt.Sprintf("forgery %s, measured RTMR flipped=%v", f.name, withRtmr))
				if !expectBlocked(t, "verification-fault:"+f.name, fmt.Sprintf("forgery %s, rtmr flipped=%v", f.name, withRtmr), st, v) {
					return
				}
			}
			q := w.Q.Clone()
			if withRtmr {
				flipMeasured(q)
				gen.SignBody(q, w.AttKey)
			}
			st, v := parse(w, q.Encode(), nonce, nil, func(o *verify.Options) { o.TrustedRoots = other.Pool() })
			gen.NonTrivial("gate1", "untrusted-root", withRtmr)
			if !expectBlocked(t, "verification-fault:untrusted-root", fmt.Sprintf("pool without the quote's root, rtmr flipped=%v", withRtmr), st, v) {
				return
			}
			st, v = parse(w, q.Encode(), nonce, nil, func(o *verify.Options) { o.CheckRevocations = true })
			if !expectBlocked(t, "verification-fault:crl-without-collateral", "CheckRevocations without GetCollateral", st, v) {
				return
			}
		}
		// gate 1 with the genuine Intel-signed sample (nobody can re-sign it, but its trust anchor can be withheld): under
		// the embedded root (TrustedRoots nil) a state is returned; under a pool that trusts NOTHING (non-nil, empty) or
		// only our own roots, none is
		{
			refCcel := time.Date(2024, time.November, 1, 0, 0, 0, 0, time.UTC)
			sm := sample.ToProto()
			for _, tc := range []struct {
				name  string
				pool  *x509.CertPool
				state bool
			}{{"embedded-root", nil, true}, {"empty-pool", x509.NewCertPool(), false}, {"only-another-root", other.Pool(), false}, {"only-our-root", w.PKI.Pool(), false}} {
				opts := rtmr.TdxDefaultOpts(nonce)
				ts := verify.TimeSet{PckCertChain: refCcel, TcbInfo: refCcel, QeIdentity: refCcel, PckCrl: refCcel, RootCaCrl: refCcel}
				opts.Verification = &verify.Options{Now: &ts, Getter: gen.FailGetter{}, TrustedRoots: tc.pool}
				var st any
				gen.Eval()
				v := gen.Call(func() error {
					s, err := rtmr.ParseCcelWithTdQuote(ccel, table, sm, &opts)
					if s != nil {
						st = s
					}
					return err
				})
				gen.NonTrivial("gate1-intel-sample", tc.name)
				if tc.state {
					if st == nil || !v.Accepted() {
						gen.Fail(t, gen.Violation{Key: "control-blocked:intel-sample", Oracle: "control: the genuine sample under the embedded root gets a state", Detail: v.String(), Replay: map[string]any{"kind": "ccel", "class": "control"}})
						return
					}
					continue
				}
				if !expectBlocked(t, "verification-fault:intel-sample-under-"+tc.name, "the genuine Intel sample quote, TrustedRoots = "+tc.name, st, v) {
					return
				}
			}
		}
		// gate 1, field by field: one bit of each header / TD-body field of the genuine quote changed, nothing re-signed
		// (through the message and through the raw bytes), with a policy that pins the changed value where one can
		{
			type fld struct {
				name     string
				off, len int
			}
			fields := []fld{{"header.qe_svn", 10, 2}, {"header.pce_svn", 8, 2}, {"header.qe_vendor_id", 12, 16}, {"header.user_data", 28, 20},
				{"tee_tcb_svn", 48, 16}, {"mr_seam", 64, 48}, {"mr_signer_seam", 112, 48}, {"seam_attributes", 160, 8}, {"td_attributes", 168, 8}, {"xfam", 176, 8},
				{"mr_td", 184, 48}, {"mr_config_id", 232, 48}, {"mr_owner", 280, 48}, {"mr_owner_config", 328, 48}, {"rtmr0", 376, 48}, {"rtmr1", 424, 48}, {"rtmr2", 472, 48}, {"rtmr3", 520, 48}, {"report_data", 568, 64}}
			for _, f := range fields {
				raw := append([]byte{}, w.Raw...)
				raw[f.off+s.Intn(f.len)] ^= byte(1 << uint(s.Intn(8)))
				pol := func(o *validate.Options) {
					// the nonce binding would notice a REPORT_DATA change on its own: drop it, the signature gate must hold alone
					o.TdQuoteBodyOptions.ReportData = nil
				}
				st, v := parse(w, raw, nonce, pol, nil)
				gen.NonTrivial("gate1-field", f.name)
				if !expectBlocked(t, "verification-fault:unsigned-change-in-"+f.name, "one bit of "+f.name+" changed, not re-signed, no policy on it", st, v) {
					return
				}
			}
		}
		// gate 1 under the collateral / revocation levels: controls, and download failures (nothing was verified then)
		for _, l := range []gen.Level{gen.LvlColl, gen.LvlCRL} {
			l := l
			st, v := parse(w, w.Raw, nonce, nil, func(o *verify.Options) { *o = *w.Options(l, w.NewGetter(), nil) })
			if st == nil || !v.Accepted() {
				gen.Fail(t, gen.Violation{Key: "control-blocked:" + l.String(), Oracle: "control: honest collateral does not block the state", Detail: v.String(), Replay: map[string]any{"kind": "ccel", "class": "control"}})
				return
			}
		}
		for _, fname := range []string{"pck-crl-endpoint-down", "root-crl-endpoint-down", "tcbinfo-endpoint-down", "leaf-revoked", "tcb-level-out-of-date", "module-out-of-date-with-lenient-identity-listed-last", "qe-level-revoked", "tcbinfo-signature-corrupt", "qe-identity-signed-under-a-look-alike-of-the-trusted-root", "quote-carries-an-expired-edition-of-the-trusted-root", "leaf-revoked-with-an-entry-dated-after-the-verification-time", "intermediate-revoked-with-an-entry-dated-after-the-verification-time", "signed-tcbinfo-lacks-the-module-identities-an-unsigned-twin-supplies-them", "tcbinfo-signature-member-missing", "qeid-signature-member-null", "intermediate-revoked-and-the-trusted-bundle-also-lists-it"} {
			for _, forged := range []bool{false, true} {
				w2 := mkWorld(gen.Seed() + 10)
				var f gen.Fault
				for _, c := range gen.Faults {
					if c.Name == fname {
						f = c
					}
				}
				f.ApplyPre(w2)
				w2.Build()
				f.ApplyPost(w2)
				raw := w2.Raw
				if forged {
					raw = append([]byte{}, raw...)
					raw[48+300] ^= 0x40 // a body bit, not re-signed
				}
				for _, lvl := range []gen.Level{gen.LvlCRL, gen.LvlColl} {
					if !f.RejectedAt(lvl) {
						continue // the fault lives in data this level does not look at
					}
					st, v := parse(w2, raw, nonce, nil, func(o *verify.Options) { *o = *w2.Options(lvl, w2.NewGetter(), nil) })
					gen.NonTrivial("gate1-collateral", fname, forged, int(lvl))
					if !expectBlocked(t, "verification-fault:"+fname, fmt.Sprintf("%s at level %s, body forged=%v", fname, lvl, forged), st, v) {
						return
					}
				}
			}
		}
		// the revocation faults again, with the lists in other legal encodings: issuer name spelled with UTF8String
		// values (it prints like the certificate's PrintableString name), no CRL number, serial numbers shared across
		// issuers; each encoding first with nothing revoked (control: a state), then with the revocation (blocked)
		for _, enc := range []string{"crl-issuer-name-as-utf8", "crl-without-number", "serials-shared-across-issuers"} {
			for _, fname := range []string{"none", "leaf-revoked", "intermediate-revoked", "tcb-signer-revoked"} {
				w2 := mkWorld(gen.Seed() + 10)
				switch enc {
				case "crl-issuer-name-as-utf8":
					w2.CRLIssuerUTF8 = true
				case "crl-without-number":
					w2.CRLNoNumber = 3
				default:
					w2.CrossIssuerSerials = true
				}
				var f gen.Fault
				for _, c := range gen.Faults {
					if c.Name == fname {
						f = c
					}
				}
				f.ApplyPre(w2)
				w2.Build()
				f.ApplyPost(w2)
				st, v := parse(w2, w2.Raw, nonce, nil, func(o *verify.Options) { *o = *w2.Options(gen.LvlCRL, w2.NewGetter(), nil) })
				if fname == "none" {
					if st == nil || !v.Accepted() {
						gen.Fail(t, gen.Violation{Key: "control-blocked:" + enc, Oracle: "control: honest revocation lists in another legal encoding do not block the state", Detail: v.String(), Replay: map[string]any{"kind": "ccel", "class": "control"}})
						return
					}
					continue
				}
				gen.NonTrivial("gate1-crl-encoding", enc, fname)
				if !expectBlocked(t, "verification-fault:"+fname+":"+enc, fmt.Sprintf("%s, lists encoded as %s, revocation checking on", fname, enc), st, v) {
					return
				}
			}
		}
		// gate 1 over time: ONE verification options value, first with honest collateral (a state is returned), then the
		// PCS serves worse news for the same platform (level out of date, leaf revoked, QE level revoked, document
		// expired): the second call must be blocked — what an earlier call fetched does not count any more
		for _, f := range gen.CollateralOnlyFaults() {
			if f.Name == "tcbinfo-wrong-fmspc" {
				continue
			}
			w3 := mkWorld(gen.Seed() + 30)
			w3.Build()
			vo := w3.Options(gen.LvlCRL, w3.NewGetter(), nil)
			first := rtmr.TdxDefaultOpts(nonce)
			first.Verification = vo // this very value is used again below
			var st any
			gen.Eval()
			v := gen.Call(func() error {
				s, err := rtmr.ParseCcelWithTdQuote(ccel, table, w3.Q.ToProto(), &first)
				if s != nil {
					st = s
				}
				return err
			})
			if st == nil || !v.Accepted() {
				gen.Fail(t, gen.Violation{Key: "control-blocked:first-call", Oracle: "control: honest collateral does not block the state", Detail: v.String(), Replay: map[string]any{"kind": "ccel", "class": "control"}})
				return
			}
			twin := w3.CollateralTwin(f)
			vo.Getter = twin.NewGetter()
			opts := rtmr.TdxDefaultOpts(nonce)
			opts.Verification = vo // the very options value the first call used
			m := w3.Q.ToProto()
			var st2 any
			gen.Eval()
			v2 := gen.Call(func() error {
				s, err := rtmr.ParseCcelWithTdQuote(ccel, table, m, &opts)
				if s != nil {
					st2 = s
				}
				return err
			})
			gen.NonTrivial("gate1-later", f.Name)
			if !expectBlocked(t, "verification-fault:later-collateral:"+f.Name, "same options value, second call after the PCS started serving "+f.Name, st2, v2) {
				return
			}
		}
		// gate 2: each policy field mismatching by one bit, wrong nonce
		type polCase struct {
			name string
			set  func(o *validate.Options)
		}
		bit := func(b []byte) []byte { c := append([]byte{}, b...); c[len(c)/2] ^= 0x02; return c }
		q := w.Q
		pols := []polCase{
			{"qe_vendor_id", func(o *validate.Options) { o.HeaderOptions.QeVendorID = bit(q.VendorID[:]) }},
			{"mr_seam", func(o *validate.Options) { o.TdQuoteBodyOptions.MrSeam = bit(q.MrSeam[:]) }},
			{"td_attributes", func(o *validate.Options) { o.TdQuoteBodyOptions.TdAttributes = bit(q.TdAttr[:]) }},
			{"xfam", func(o *validate.Options) { o.TdQuoteBodyOptions.Xfam = bit(q.Xfam[:]) }},
			{"mr_td", func(o *validate.Options) { o.TdQuoteBodyOptions.MrTd = bit(q.MrTd[:]) }},
			{"mr_config_id", func(o *validate.Options) { o.TdQuoteBodyOptions.MrConfigID = bit(q.MrConfigID[:]) }},
			{"mr_owner", func(o *validate.Options) { o.TdQuoteBodyOptions.MrOwner = bit(q.MrOwner[:]) }},
			{"mr_owner_config", func(o *validate.Options) { o.TdQuoteBodyOptions.MrOwnerConfig = bit(q.MrOwnerConfig[:]) }},
			{"rtmr", func(o *validate.Options) { o.TdQuoteBodyOptions.Rtmrs = [][]byte{nil, nil, bit(q.Rtmr[2][:]), nil} }},
			{"any_mr_td", func(o *validate.Options) { o.TdQuoteBodyOptions.AnyMrTd = [][]byte{bit(q.MrTd[:]), make([]byte, 48)} }},
			{"minimum_tee_tcb_svn", func(o *validate.Options) {
				m := append([]byte{}, q.TeeTcbSvn[:]...)
				m[0]++
				o.TdQuoteBodyOptions.MinimumTeeTcbSvn = m
			}},
			{"minimum_tee_tcb_svn-mixed", func(o *validate.Options) {
				// lower than the quote in an earlier component, higher in a later one: component-wise this is a miss
				m := append([]byte{}, q.TeeTcbSvn[:]...)
				for i := range m {
					if m[i] > 0 {
						m[i]--
						break
					}
				}
				m[15]++
				m[7]++
				o.TdQuoteBodyOptions.MinimumTeeTcbSvn = m
			}},
			// two expectations on the same field, one met and one missed: both count
			{"mr_td-pinned-wrong-while-the-allow-list-has-it", func(o *validate.Options) {
				o.TdQuoteBodyOptions.MrTd = bit(q.MrTd[:])
				o.TdQuoteBodyOptions.AnyMrTd = [][]byte{make([]byte, 48), append([]byte{}, q.MrTd[:]...)}
			}},
			{"mr_td-pinned-right-while-the-allow-list-lacks-it", func(o *validate.Options) {
				o.TdQuoteBodyOptions.MrTd = append([]byte{}, q.MrTd[:]...)
				o.TdQuoteBodyOptions.AnyMrTd = [][]byte{bit(q.MrTd[:]), make([]byte, 48)}
			}},
			{"rtmr-one-right-one-wrong", func(o *validate.Options) {
				o.TdQuoteBodyOptions.Rtmrs = [][]byte{append([]byte{}, q.Rtmr[0][:]...), nil, nil, bit(q.Rtmr[3][:])}
			}},
			{"minimum_qe_svn", func(o *validate.Options) { o.HeaderOptions.MinimumQeSvn = binary.LittleEndian.Uint16(q.Word10[:]) + 1 }},
			{"minimum_pce_svn", func(o *validate.Options) { o.HeaderOptions.MinimumPceSvn = binary.LittleEndian.Uint16(q.Word8[:]) + 1 }},
		}
		for _, pc := range pols {
			st, v := parse(w, w.Raw, nonce, pc.set, nil)
			gen.NonTrivial("gate2", pc.name)
			gen.Sample("gate2", "policy expects another "+pc.name)
			if !expectBlocked(t, "policy-mismatch:"+pc.name, "policy expects another "+pc.name, st, v) {
				return
			}
		}
		for i := 0; i < 8; i++ {
			wrong := append([]byte{}, nonce...)
			wrong[s.Intn(len(wrong))] ^= 1 << uint(s.Intn(8))
			st, v := parse(w, w.Raw, wrong, nil, nil)
			gen.NonTrivial("gate2", "nonce", i)
			if !expectBlocked(t, "policy-mismatch:nonce", "another nonce", st, v) {
				return
			}
		}
		// matching explicit policy on top of the nonce: positive control for gate 2
		st, v := parse(w, w.Raw, nonce, func(o *validate.Options) {
			o.TdQuoteBodyOptions.MrTd = append([]byte{}, q.MrTd[:]...)
			o.TdQuoteBodyOptions.Rtmrs = [][]byte{append([]byte{}, q.Rtmr[0][:]...), nil, nil, nil}
		}, nil)
		if st == nil || !v.Accepted() {
			gen.Fail(t, gen.Violation{Key: "control-blocked:matching-policy", Oracle: "control: a satisfied policy does not block the state", Detail: v.String(), Replay: map[string]any{"kind": "ccel", "class": "control"}})
		}
		_ = extract.Opts{}
	})
}
