package props

import (
	"crypto/x509"
	"errors"
	"fmt"
	pb "github.com/google/go-tdx-guest/proto/tdx"
	"github.com/google/go-tdx-guest/verify/trust"
	"google.golang.org/protobuf/proto"
	"strings"
	"testing"
	"time"

	"github.com/google/go-tdx-guest/verify"
	"pgregory.net/rapid"
	"verifharness/gen"
)

// drawFaultWorld draws a world with one catalogue fault applied.
func drawFaultWorld(t *rapid.T, simple bool) (*gen.World, gen.Fault) {
	f := rapid.SampledFrom(append(append([]gen.Fault{}, gen.Faults...), gen.RelationOnlyFaults...)).Draw(t, "fault")
	cfg := gen.WorldCfg{MaxAuth: 64, Simple: simple}
	var w *gen.World
	if f.NewPKI != nil {
		seed := rapid.SampledFrom(gen.PKISeeds).Draw(t, "pkiseed")
		s := gen.NewStream(rapid.Uint64().Draw(t, "content"), "world")
		w = gen.NewWorld(gen.NewPKI(f.NewPKI(seed)), s)
	} else {
		w, _ = gen.DrawWorld(t, cfg)
	}
	f.ApplyPre(w)
	w.Build()
	f.ApplyPost(w)
	return w, f
}

func isCrlURL(w *gen.World, u string) bool {
	if strings.Contains(u, "/pckcrl") {
		return true
	}
	for _, d := range w.PKI.Root.X.CRLDistributionPoints {
		if d == u {
			return true
		}
	}
	return false
}

func sameOutcome(a, b gen.Verdict) bool {
	if a.Short() != b.Short() {
		return false
	}
	if a.Err != nil && b.Err != nil {
		return errClass(a.Err) == errClass(b.Err)
	}
	return true
}

func TestC12(t *testing.T) {
	replayDir(t, "C12")
	done := make(chan struct{})
	go realClockScenario(done)

	gen.Prop(t, "gating-and-monotonicity", gen.N(1200, 60000), func(t *rapid.T) {
		w, f := drawFaultWorld(t, rapid.Bool().Draw(t, "simple"))
		levels := []gen.Level{gen.LvlBase, gen.LvlColl, gen.LvlCRL, gen.LvlCRLNoColl}
		var verdicts [4]gen.Verdict
		var logs [4][]string
		zeroUnused := rapid.Bool().Draw(t, "unusedTimesLeftZero")
		for i, l := range levels {
			g := w.NewGetter()
			o := w.Options(l, g, nil)
			if zeroUnused && o.Now != nil {
				// a caller that fills in only the times of the checks it asked for
				if !o.GetCollateral {
					o.Now.TcbInfo, o.Now.QeIdentity = time.Time{}, time.Time{}
				}
				if !o.CheckRevocations {
					o.Now.PckCrl, o.Now.RootCaCrl = time.Time{}, time.Time{}
				}
			}
			var before verify.TimeSet
			if o.Now != nil {
				before = *o.Now
			}
			gen.Eval()
			verdicts[i] = gen.Call(func() error { return verify.RawTdxQuote(w.Raw, o) })
			if !o.GetCollateral {
				// the exported level report on the same options value: with collateral checking off it has nothing to
				// report on, and it downloads nothing either
				if m, err := gen.RefParse(w.Raw); err == nil {
					mm := m.ToProto()
					_ = gen.Call(func() error { _, _, err := verify.SupportedTcbLevelsFromCollateral(mm, o); return err })
				}
			}
			logs[i] = g.Requests()
			if o.Now != nil && *o.Now != before {
				gen.Fail(t, gen.Violation{Key: "callers-time-set-modified", Oracle: "the verdict depends only on the quote, the option settings and the fetched data (a call that rewrites the caller's time set changes the settings of the next call)", Detail: fmt.Sprintf("fault=%s level=%s: time set before %+v, after %+v", f.Name, l, before, *o.Now), Replay: w.CaseFile(l, nil, nil, nil, "nopanic")})
				return
			}
		}
		rp := func(l gen.Level, expect string) map[string]any { return w.CaseFile(l, nil, nil, nil, expect) }
		// the same call again gives the same verdict (the verdict is a function of quote, options and fetched data)
		for i, l := range levels {
			for rep := 0; rep < 3; rep++ {
				o := w.Options(l, w.NewGetter(), nil)
				gen.Eval()
				if v := gen.Call(func() error { return verify.RawTdxQuote(w.Raw, o) }); v.Short() != verdicts[i].Short() {
					gen.Fail(t, gen.Violation{Key: "verdict-changes-between-identical-calls:" + f.Name, Oracle: "the verdict depends only on the quote, the option settings and the fetched data", Detail: fmt.Sprintf("fault=%s level=%s: first %s, then %s", f.Name, l, verdicts[i], v), Replay: rp(l, "nopanic")})
					return
				}
			}
		}
		for i, v := range verdicts {
			if v.Panicked() {
				gen.Fail(t, gen.Violation{Key: "panic@" + gen.PanicSite(v.Stack), Oracle: "verification returns a verdict", Detail: fmt.Sprintf("fault=%s level=%s: %s", f.Name, levels[i], v.Panic), Replay: rp(levels[i], "nopanic")})
				return
			}
		}
		// (1) monotonicity
		if verdicts[2].Accepted() && !verdicts[1].Accepted() {
			gen.Fail(t, gen.Violation{Key: "non-monotone:crl-accepts-collateral-rejects", Oracle: "accepted with collateral+revocation => accepted with collateral alone", Detail: fmt.Sprintf("fault=%s: %s", f.Name, verdicts[1]), Replay: rp(gen.LvlColl, "accept")})
			return
		}
		if verdicts[1].Accepted() && !verdicts[0].Accepted() {
			gen.Fail(t, gen.Violation{Key: "non-monotone:collateral-accepts-base-rejects", Oracle: "accepted with collateral => accepted with signature and chain checking alone", Detail: fmt.Sprintf("fault=%s: %s", f.Name, verdicts[0]), Replay: rp(gen.LvlBase, "accept")})
			return
		}
		if verdicts[3].Accepted() {
			gen.Fail(t, gen.Violation{Key: "crl-without-collateral-accepted", Oracle: "asking for revocation checks without collateral fetching always fails", Detail: "fault=" + f.Name, Replay: rp(gen.LvlCRLNoColl, "reject")})
			return
		}
		// catalogue expectation (soundness/completeness of the fault classes themselves)
		for i, l := range levels {
			if f.Unjudged {
				break // the statement does not classify this world; only the relations above apply
			}
			if f.RejectedAt(l) && verdicts[i].Accepted() {
				// Whether each fault class is noticed is the business of C01-C07; here it only
				// tells how discriminating the generated verdict vectors are.
				gen.Class("catalogue-fault-accepted:" + f.Name + "@" + l.String())
			}
			if !f.RejectedAt(l) && !verdicts[i].Accepted() {
				gen.Fail(t, gen.Violation{Key: "fault-noticed-too-early:" + f.Name + "@" + l.String(), Oracle: "a fault confined to data of a disabled check must not affect the verdict", Detail: verdicts[i].String(), Replay: rp(l, "accept")})
				return
			}
		}
		// (2) request gating
		if len(logs[0]) != 0 || len(logs[3]) != 0 {
			gen.Fail(t, gen.Violation{Key: "fetch-without-get-collateral", Oracle: "with collateral checking off the verifier performs no fetch at all", Detail: fmt.Sprintf("base: %v, crl-only: %v", logs[0], logs[3]), Replay: rp(gen.LvlBase, "nopanic")})
			return
		}
		for _, u := range logs[1] {
			if isCrlURL(w, u) {
				gen.Fail(t, gen.Violation{Key: "crl-fetched-without-check-revocations", Oracle: "CRL endpoints are contacted only when revocation checking is on", Detail: u, Replay: rp(gen.LvlColl, "nopanic")})
				return
			}
		}
		wantTcb := gen.TcbInfoURL(w.FmspcHex())
		wantCrl := gen.PckCrlURL(w.IssuerCA())
		for li, lg := range [][]string{logs[1], logs[2]} {
			if f.MinLevel > gen.LvlBase || f.Benign || f.Name == "processor-ca" || f.Name == "leaf-expired" {
				// the chain parses, so the fetch sequence starts with the TCB info of this platform
				if len(lg) == 0 || lg[0] != wantTcb {
					gen.Fail(t, gen.Violation{Key: "tcb-info-url", Oracle: "the TCB Info request names the FMSPC of the quote's PCK certificate", Detail: fmt.Sprintf("level %d: requests %v, want first %s", li+1, lg, wantTcb), Replay: rp(gen.LvlColl, "nopanic")})
					return
				}
			}
			for _, u := range lg {
				if strings.Contains(u, "/tcb?") && u != wantTcb {
					gen.Fail(t, gen.Violation{Key: "tcb-info-url", Oracle: "the TCB Info request names the FMSPC of the quote's PCK certificate", Detail: u + " want " + wantTcb, Replay: rp(gen.LvlColl, "nopanic")})
					return
				}
				if strings.Contains(u, "/pckcrl") && u != wantCrl {
					gen.Fail(t, gen.Violation{Key: "pck-crl-url", Oracle: "the PCK CRL request names the CA (platform or processor) that issued the PCK certificate", Detail: u + " want " + wantCrl, Replay: rp(gen.LvlCRL, "nopanic")})
					return
				}
			}
		}
		if verdicts[2].Accepted() || f.Name == "processor-ca" || f.Name == "leaf-revoked" {
			found := false
			for _, u := range logs[2] {
				if u == wantCrl {
					found = true
				}
			}
			if !found {
				gen.Fail(t, gen.Violation{Key: "pck-crl-not-fetched", Oracle: "with revocation checking on the PCK CRL of the issuing CA is requested", Detail: fmt.Sprint(logs[2]), Replay: rp(gen.LvlCRL, "nopanic")})
				return
			}
		}
		vec := verdicts[0].Short() + "," + verdicts[1].Short() + "," + verdicts[2].Short()
		gen.Class("fault:" + f.Name)
		gen.Class("vector:" + vec)
		if !(verdicts[0].Short() == verdicts[1].Short() && verdicts[1].Short() == verdicts[2].Short()) || f.Name == "processor-ca" {
			gen.NonTrivial(w.Raw, vec, f.Name)
		}
		gen.Sample("gating", map[string]any{"fault": f.Name, "verdicts": vec, "requests_collateral": len(logs[1]), "requests_crl": len(logs[2])})
	})

	// (2b) time-shift twins: ONE plan, expressed relative to the pinned verification time T (validity windows, issue and
	// next-update dates, which root distribution point serves which list), built at several T: decades in the past, a day
	// before and after the wall clock, decades in the future. With Options.Now pinned the verifier has no other time
	// reference, so the verdicts at every level are the same for every T: shifting all the data and the pinned time by
	// D is shifting the wall clock by -D.
	gen.Prop(t, "time-shift-twins", gen.N(250, 12000), func(t *rapid.T) {
		content := rapid.Uint64().Draw(t, "content")
		day := 24 * time.Hour
		offs := []time.Duration{time.Hour, 30 * day, 400 * day, 20 * 365 * day}
		off := func(label string) time.Duration { return rapid.SampledFrom(offs).Draw(t, label) }
		dps := []string{gen.RootCrlURL, "https://crl.example.test/second.der", "https://crl.example.test/third.der"}[:rapid.IntRange(1, 3).Draw(t, "rootDistributionPoints")]
		dpKind := make([]string, len(dps))
		dpNext := make([]time.Duration, len(dps))
		for i := range dps {
			dpKind[i] = rapid.SampledFrom([]string{"good", "good", "revokes-intermediate", "unreachable", "not-a-list", "due-before-T"}).Draw(t, fmt.Sprintf("dp%d", i))
			dpNext[i] = off(fmt.Sprintf("dp%dNext", i))
		}
		pckNext, tcbNext, qeNext, certAfter := off("pckCrlNext"), off("tcbInfoNext"), off("qeIdentityNext"), off("certificatesValidFor")
		pckRevokesLeaf := rapid.IntRange(0, 5).Draw(t, "pckCrlRevokesLeaf") == 0
		wall := time.Now().UTC().Truncate(day)
		allBases := []time.Time{time.Date(2001, 6, 1, 12, 0, 0, 0, time.UTC), time.Date(2015, 2, 3, 4, 5, 6, 0, time.UTC), wall.Add(-36 * time.Hour), wall.Add(36 * time.Hour), wall.Add(-45 * day), time.Date(2060, 1, 2, 3, 4, 5, 0, time.UTC), time.Date(2090, 7, 8, 9, 10, 11, 0, time.UTC)}
		bases := []time.Time{allBases[rapid.IntRange(0, 1).Draw(t, "past")], allBases[rapid.IntRange(2, 4).Draw(t, "nearNow")], allBases[rapid.IntRange(5, 6).Draw(t, "future")]}
		build := func(T time.Time) *gen.World {
			cw := gen.Window{NotBefore: T.AddDate(-9, 0, 0), NotAfter: T.Add(certAfter)}
			w := gen.NewWorld(gen.NewPKI(gen.PKISpec{Seed: "c12shift", RootCRLDP: dps, RootW: cw, IntW: cw, TcbW: cw, QeW: cw}), gen.NewStream(content, "c12shift"))
			w.LeafSpec.W = cw
			w.Times = verify.TimeSet{PckCertChain: T, TcbInfo: T.Add(time.Minute), QeIdentity: T.Add(2 * time.Minute), PckCrl: T.Add(3 * time.Minute), RootCaCrl: T.Add(4 * time.Minute)}
			w.HonestCollateral()
			w.TcbInfo.IssueDate, w.TcbInfo.NextUpdate = T.Add(-day), T.Add(tcbNext)
			w.QeID.IssueDate, w.QeID.NextUpdate = T.Add(-2*day), T.Add(qeNext)
			w.SignQuote() // issues the leaf
			w.PckCrl = gen.CRLSpec{ThisUpdate: T.Add(-day), NextUpdate: T.Add(pckNext), Number: 5}
			if pckRevokesLeaf {
				w.PckCrl.Revoked = [][]byte{w.Leaf.X.SerialNumber.Bytes()}
			}
			w.RootCrl = gen.CRLSpec{ThisUpdate: T.Add(-day), NextUpdate: T.Add(dpNext[0]), Number: 7}
			w.RootDPSpec, w.RootDPResp = map[int]*gen.CRLSpec{}, map[int]gen.Response{}
			for i, k := range dpKind {
				spec := &gen.CRLSpec{ThisUpdate: T.Add(-day), NextUpdate: T.Add(dpNext[i]), Number: int64(7 + i)}
				switch k {
				case "good":
					w.RootDPSpec[i] = spec
				case "revokes-intermediate":
					spec.Revoked = [][]byte{w.PKI.Int.X.SerialNumber.Bytes()}
					w.RootDPSpec[i] = spec
				case "due-before-T":
					spec.ThisUpdate, spec.NextUpdate = T.Add(-40*day), T.Add(-time.Hour)
					w.RootDPSpec[i] = spec
				case "unreachable":
					w.RootDPResp[i] = gen.Response{Err: errors.New("scripted: distribution point unreachable")}
				default:
					w.RootDPResp[i] = gen.Response{Body: []byte("<html><body>503 Service Unavailable</body></html>")}
				}
			}
			w.BuildCollateral()
			return w
		}
		levels := []gen.Level{gen.LvlBase, gen.LvlColl, gen.LvlCRL}
		var worlds []*gen.World
		var vecs []string
		for _, T := range bases {
			w := build(T)
			worlds = append(worlds, w)
			vec := ""
			for _, l := range levels {
				o := w.Options(l, w.NewGetter(), nil)
				gen.Eval()
				v := gen.Call(func() error { return verify.RawTdxQuote(w.Raw, o) })
				if v.Panicked() {
					gen.Fail(t, gen.Violation{Key: "panic@" + gen.PanicSite(v.Stack), Oracle: "verification returns a verdict", Detail: v.Panic, Replay: w.CaseFile(l, nil, nil, nil, "nopanic")})
					return
				}
				vec += map[bool]string{true: "A", false: "R"}[v.Accepted()]
			}
			vecs = append(vecs, vec)
		}
		plan := fmt.Sprintf("root DPs %v next %v, pck next %v (revokes leaf %v), tcb next %v, qe next %v, certificates valid for %v", dpKind, dpNext, pckNext, pckRevokesLeaf, tcbNext, qeNext, certAfter)
		for i := 1; i < len(vecs); i++ {
			if vecs[i] != vecs[0] {
				li := 0
				for li < 2 && vecs[i][li] == vecs[0][li] {
					li++
				}
				expect := map[byte]string{'A': "accept", 'R': "reject"}[vecs[0][li]]
				gen.Fail(t, gen.Violation{Key: "verdict-depends-on-the-wall-clock:" + levels[li].String(), Oracle: "with the verification times pinned in the options, the verdict depends only on the quote, the options and the fetched data: the same plan built around another pinned time gives the same verdicts",
					Detail: fmt.Sprintf("plan [%s]: pinned at %s verdicts (base,collateral,revocation) = %s, pinned at %s = %s (wall clock %s)", plan, bases[0].Format(time.RFC3339), vecs[0], bases[i].Format(time.RFC3339), vecs[i], wall.Format("2006-01-02")),
					Replay: worlds[i].CaseFile(levels[li], nil, nil, nil, expect)})
				return
			}
		}
		straddles := false
		for _, d := range append(append([]time.Duration{}, dpNext...), pckNext, tcbNext, qeNext, certAfter) {
			if bases[0].Add(d).Before(wall) || bases[1].Add(d).Before(wall) != bases[2].Add(d).Before(wall) {
				straddles = true
			}
		}
		if straddles {
			gen.NonTrivial("shift", plan, vecs[0])
		}
		gen.Class("time-shift:verdicts=" + vecs[0])
		gen.Class(fmt.Sprintf("time-shift:root-distribution-points=%d", len(dps)))
		gen.Sample("time-shift", map[string]any{"plan": plan, "verdicts": vecs[0], "pinned": []string{bases[0].Format("2006-01-02"), bases[1].Format("2006-01-02"), bases[2].Format("2006-01-02")}})
	})

	// (2c) what an options value downloaded in its previous call is not part of the next call's data: the same quote
	// again, the PCS now serving the same document WITHOUT its signature (member absent, null, empty) - the verdict is that
	// of fresh options
	gen.Direct(t, "same-document-without-its-signature-after-a-good-download", func(t *testing.T) {
		i := 0
		for _, which := range []string{"tcbInfo", "enclaveIdentity"} {
			for _, how := range []string{"absent", "null", "empty-string", "whole-body-is-the-member"} {
				for _, l := range []gen.Level{gen.LvlColl, gen.LvlCRL} {
					i++
					if !gen.ShardOwns(i) {
						continue
					}
					w := gen.NewWorld(gen.NewPKI(gen.PKISpec{Seed: gen.PKISeeds[i%len(gen.PKISeeds)]}), gen.NewStream(gen.Seed()+uint64(i), "c12nosig"))
					w.HonestCollateral()
					w.Build()
					good := w.NewGetter()
					bad := w.NewGetter()
					u, doc := gen.TcbInfoURL(w.FmspcHex()), w.TcbInfo.Render()
					if which == "enclaveIdentity" {
						u, doc = gen.QeIdentityURL, w.QeID.Render()
					}
					r := bad.Resp[u]
					switch how {
					case "absent":
						r.Body = []byte(`{"` + which + `":` + string(doc) + `}`)
					case "null":
						r.Body = []byte(`{"` + which + `":` + string(doc) + `,"signature":null}`)
					case "empty-string":
						r.Body = []byte(`{"` + which + `":` + string(doc) + `,"signature":""}`)
					default:
						r.Body = doc
					}
					bad.Resp[u] = r
					shared := w.Options(l, good, nil)
					gen.Eval()
					v1 := gen.Call(func() error { return verify.RawTdxQuote(w.Raw, shared) })
					shared.Getter = bad
					v2 := gen.Call(func() error { return verify.RawTdxQuote(w.Raw, shared) })
					bad2 := w.NewGetter()
					bad2.Resp[u] = r
					vf := gen.Call(func() error { return verify.RawTdxQuote(w.Raw, w.Options(l, bad2, nil)) })
					if !sameOutcome(v2, vf) {
						gen.Fail(t, gen.Violation{Key: "history-dependent-verdict:signature-" + how, Oracle: "re-using an options value that earlier verified other quotes gives the same verdict as a fresh one", Detail: fmt.Sprintf("level %s: first call with honest collateral %s; second call, the %s response now carries the same document with its signature %s: shared options %s, fresh options %s", l, v1.Short(), which, how, v2, vf), Replay: map[string]any{"kind": "c12-no-signature", "which": which, "how": how, "level": int(l)}})
						return
					}
					gen.NonTrivial("c12nosig", which, how, int(l))
				}
			}
		}
		gen.Class("same-document-without-its-signature")
	})

	// (3) histories through one shared options value.
	gen.Prop(t, "histories", gen.N(400, 20000), func(t *rapid.T) {
		nW := rapid.IntRange(2, 4).Draw(t, "worlds")
		var worlds []*gen.World
		var faults []gen.Fault
		for i := 0; i < nW; i++ {
			w, f := drawFaultWorld(t, rapid.IntRange(0, 2).Draw(t, "simpleWorld") > 0)
			worlds = append(worlds, w)
			faults = append(faults, f)
		}
		// what the PCS serves may change between two verifications of the SAME quote: an honest world may get a twin
		// whose collateral has since turned bad (level out of date, leaf revoked, document expired, endpoint down ...)
		for i := 0; i < nW; i++ {
			if faults[i].Benign && rapid.Bool().Draw(t, fmt.Sprintf("twin%d", i)) {
				tf := rapid.SampledFrom(gen.CollateralOnlyFaults()).Draw(t, fmt.Sprintf("twinFault%d", i))
				worlds = append(worlds, worlds[i].CollateralTwin(tf))
				tf.Name = "same-quote-later-collateral:" + tf.Name
				faults = append(faults, tf)
			}
		}
		nW = len(worlds)
		getters := make([]*gen.Getter, nW)
		for i, w := range worlds {
			getters[i] = w.NewGetter()
		}
		cur := struct {
			gc, cr bool
			getter int
			pool   int
			times  int
		}{getter: 0, pool: 0, times: 0}
		pools := make([]*x509.CertPool, nW)
		for i, w := range worlds {
			pools[i] = w.PKI.Pool()
		}
		ts0 := worlds[0].Times
		shared := &verify.Options{Getter: getters[0], TrustedRoots: pools[0], Now: &ts0}
		var hist []string
		distinctWorlds := map[int]bool{}
		toggles := 0
		kept := make([]*pb.QuoteV4, nW)
		keptOrig := make([][]byte, nW)
		keptDamaged := make([]bool, nW)
		t.Repeat(map[string]func(*rapid.T){
			"verify": func(t *rapid.T) {
				i := rapid.IntRange(0, nW-1).Draw(t, "world")
				raw := rapid.Bool().Draw(t, "raw")
				fts := worlds[cur.times].Times
				fresh := &verify.Options{GetCollateral: cur.gc, CheckRevocations: cur.cr, Getter: worlds[cur.getter].NewGetter(), TrustedRoots: pools[cur.pool], Now: &fts}
				shared.GetCollateral, shared.CheckRevocations = cur.gc, cur.cr
				msg := worlds[i].Q.ToProto()
				if rq, err := gen.RefParse(worlds[i].Raw); err == nil {
					msg = rq.ToProto()
				}
				gen.Eval()
				var vs, vf gen.Verdict
				if raw {
					vs = gen.Call(func() error { return verify.RawTdxQuote(worlds[i].Raw, shared) })
					vf = gen.Call(func() error { return verify.RawTdxQuote(worlds[i].Raw, fresh) })
				} else {
					vs = gen.Call(func() error { return verify.TdxQuote(msg, shared) })
					vf = gen.Call(func() error { return verify.TdxQuote(msg, fresh) })
				}
				hist = append(hist, fmt.Sprintf("verify world %d (%s) gc=%v cr=%v getter=%d pool=%d times=%d -> shared %s / fresh %s", i, faults[i].Name, cur.gc, cur.cr, cur.getter, cur.pool, cur.times, vs.Short(), vf.Short()))
				distinctWorlds[i] = true
				// the stateless expectation, whatever this process verified before: applicable when pool, getter and times are the quote's own
				if cur.getter == i && cur.pool == i && cur.times == i && !vf.Panicked() {
					l := gen.LvlBase
					switch {
					case cur.gc && cur.cr:
						l = gen.LvlCRL
					case cur.gc:
						l = gen.LvlColl
					case cur.cr:
						l = gen.LvlCRLNoColl
					}
					if faults[i].RejectedAt(l) == vf.Accepted() {
						gen.Fail(t, gen.Violation{Key: "history:verdict-differs-from-stateless-expectation:" + faults[i].Name + "@" + l.String(), Oracle: "the verdict depends only on the quote, the option settings and the fetched data, not on what was verified before",
							Detail: fmt.Sprintf("after %d steps a world with fault %q at level %s got %s from FRESH options; history: %s", len(hist), faults[i].Name, l, vf, strings.Join(hist, " ; ")), Replay: map[string]any{"kind": "history", "history": hist}})
					}
				}
				for _, u := range fresh.Getter.(*gen.Getter).Requests() {
					if strings.Contains(u, "/tcb?") && u != gen.TcbInfoURL(worlds[i].FmspcHex()) {
						gen.Fail(t, gen.Violation{Key: "tcb-info-url", Oracle: "the TCB Info request names the FMSPC of the quote's PCK certificate", Detail: fmt.Sprintf("%s want %s; history: %s", u, gen.TcbInfoURL(worlds[i].FmspcHex()), strings.Join(hist, " ; ")), Replay: map[string]any{"kind": "history", "history": hist}})
					}
					if strings.Contains(u, "/pckcrl") && u != gen.PckCrlURL(worlds[i].IssuerCA()) {
						gen.Fail(t, gen.Violation{Key: "pck-crl-url", Oracle: "the PCK CRL request names the CA (platform or processor) that issued the PCK certificate", Detail: fmt.Sprintf("%s want %s; history: %s", u, gen.PckCrlURL(worlds[i].IssuerCA()), strings.Join(hist, " ; ")), Replay: map[string]any{"kind": "history", "history": hist}})
					}
				}
				if !sameOutcome(vs, vf) {
					gen.Fail(t, gen.Violation{Key: "history-dependent-verdict", Oracle: "re-using an options value that earlier verified other quotes gives the same verdict as a fresh one",
						Detail: fmt.Sprintf("after %d steps: shared=%s fresh=%s; history: %s", len(hist), vs, vf, strings.Join(hist, " ; ")), Replay: map[string]any{"kind": "history", "history": hist}})
				}
			},
			// a caller keeps ONE message object per quote and verifies it again and again; between two verifications it may
			// overwrite bytes of the message IN PLACE (here: one character of the PCK leaf inside the certificate chain, or
			// the original bytes again). The verdict is that of the message as it is now.
			"verify-kept-message": func(t *rapid.T) {
				i := rapid.IntRange(0, nW-1).Draw(t, "world")
				if kept[i] == nil {
					rq, err := gen.RefParse(worlds[i].Raw)
					if err != nil {
						t.Skip("world's quote does not parse")
					}
					kept[i] = rq.ToProto()
					chain := kept[i].GetSignedData().GetCertificationData().GetQeReportCertificationData().GetPckCertificateChainData().GetPckCertChain()
					keptOrig[i] = append([]byte{}, chain...)
				}
				chain := kept[i].GetSignedData().GetCertificationData().GetQeReportCertificationData().GetPckCertificateChainData().GetPckCertChain()
				edit := rapid.SampledFrom([]string{"none", "none", "damage-leaf-in-place", "restore-in-place"}).Draw(t, "inPlaceEdit")
				if len(chain) > 400 && len(chain) == len(keptOrig[i]) {
					switch edit {
					case "damage-leaf-in-place":
						pos := 120 + rapid.IntRange(0, 200).Draw(t, "pos")
						if c := chain[pos]; c != '\n' && c != '-' {
							chain[pos] = map[bool]byte{true: 'B', false: 'A'}[c == 'A']
							keptDamaged[i] = true
						}
					case "restore-in-place":
						copy(chain, keptOrig[i])
						keptDamaged[i] = false
					}
				}
				fts := worlds[cur.times].Times
				fresh := &verify.Options{GetCollateral: cur.gc, CheckRevocations: cur.cr, Getter: worlds[cur.getter].NewGetter(), TrustedRoots: pools[cur.pool], Now: &fts}
				shared.GetCollateral, shared.CheckRevocations = cur.gc, cur.cr
				gen.Eval()
				vs := gen.Call(func() error { return verify.TdxQuote(kept[i], shared) })
				// the comparison: fresh options and, as long as the CALLER has not edited the kept message, a message freshly
				// made from the quote's bytes (the library has no business editing the caller's message either)
				var other proto.Message = proto.Clone(kept[i])
				if !keptDamaged[i] {
					if rq, err := gen.RefParse(worlds[i].Raw); err == nil {
						other = rq.ToProto()
					}
				}
				vf := gen.Call(func() error { return verify.TdxQuote(other, fresh) })
				hist = append(hist, fmt.Sprintf("verify the kept message of world %d (%s) after in-place edit %q -> shared %s / fresh options and a copy of the message %s", i, faults[i].Name, edit, vs.Short(), vf.Short()))
				distinctWorlds[i] = true
				if !sameOutcome(vs, vf) {
					gen.Fail(t, gen.Violation{Key: "history-dependent-verdict:kept-message", Oracle: "the verdict depends only on the quote (as it is now), the option settings and the fetched data",
						Detail: fmt.Sprintf("after %d steps: shared options and the kept message = %s, fresh options and a copy of it = %s; history: %s", len(hist), vs, vf, strings.Join(hist, " ; ")), Replay: map[string]any{"kind": "history", "history": hist}})
				}
			},
			// the exported level report through the shared options value: it never downloads while collateral checking is off
			"level-report": func(t *rapid.T) {
				i := rapid.IntRange(0, nW-1).Draw(t, "world")
				rq, err := gen.RefParse(worlds[i].Raw)
				if err != nil {
					t.Skip("world's quote does not parse")
				}
				msg := rq.ToProto()
				shared.GetCollateral, shared.CheckRevocations = cur.gc, cur.cr
				before := len(getters[cur.getter].Requests())
				gen.Eval()
				v := gen.Call(func() error { _, _, err := verify.SupportedTcbLevelsFromCollateral(msg, shared); return err })
				made := getters[cur.getter].Requests()[before:]
				hist = append(hist, fmt.Sprintf("level report for world %d gc=%v -> %s, %d requests", i, cur.gc, v.Short(), len(made)))
				if !cur.gc && len(made) > 0 {
					gen.Fail(t, gen.Violation{Key: "fetch-without-get-collateral:level-report", Oracle: "with collateral checking off the verifier performs no fetch at all", Detail: fmt.Sprintf("SupportedTcbLevelsFromCollateral on an options value with GetCollateral=false requested %v; history: %s", made, strings.Join(hist, " ; ")), Replay: map[string]any{"kind": "history", "history": hist}})
				}
			},
			// the getter is the caller's code: here it verifies ANOTHER quote through the same options value while the
			// library waits for its first answer (one goroutine, a nested call). The outer verdict is that of fresh options.
			"verify-while-the-getter-verifies-another-quote": func(t *rapid.T) {
				i, j := rapid.IntRange(0, nW-1).Draw(t, "world"), rapid.IntRange(0, nW-1).Draw(t, "nestedWorld")
				if !cur.gc {
					t.Skip("no download, no nested call")
				}
				fts := worlds[cur.times].Times
				fresh := &verify.Options{GetCollateral: cur.gc, CheckRevocations: cur.cr, Getter: worlds[cur.getter].NewGetter(), TrustedRoots: pools[cur.pool], Now: &fts}
				shared.GetCollateral, shared.CheckRevocations = cur.gc, cur.cr
				nested := false
				inner := shared.Getter
				shared.Getter = nestingGetter{inner: inner, f: func() {
					if !nested {
						nested = true
						_ = gen.Call(func() error { return verify.RawTdxQuote(worlds[j].Raw, shared) })
					}
				}}
				gen.Eval()
				vs := gen.Call(func() error { return verify.RawTdxQuote(worlds[i].Raw, shared) })
				shared.Getter = inner
				vf := gen.Call(func() error { return verify.RawTdxQuote(worlds[i].Raw, fresh) })
				hist = append(hist, fmt.Sprintf("verify world %d (%s) while the getter verifies world %d (%s) through the same options value (nested=%v) gc=%v cr=%v -> shared %s / fresh %s", i, faults[i].Name, j, faults[j].Name, nested, cur.gc, cur.cr, vs.Short(), vf.Short()))
				distinctWorlds[i], distinctWorlds[j] = true, true
				if !sameOutcome(vs, vf) {
					gen.Fail(t, gen.Violation{Key: "history-dependent-verdict:nested-call-from-the-getter", Oracle: "the verdict depends only on the quote, the option settings and the fetched data",
						Detail: fmt.Sprintf("after %d steps: shared=%s fresh=%s; history: %s", len(hist), vs, vf, strings.Join(hist, " ; ")), Replay: map[string]any{"kind": "history", "history": hist}})
				}
			},
			// the caller copies its options value (a struct) and goes on with the copy, as callers that keep options in a
			// configuration struct by value do
			"go-on-with-a-copy-of-the-options-value": func(t *rapid.T) {
				c := *shared
				shared = &c
				hist = append(hist, "options value copied by value")
			},
			"toggle-collateral": func(t *rapid.T) { cur.gc = !cur.gc; toggles++; hist = append(hist, "toggle gc") },
			"toggle-revocation": func(t *rapid.T) { cur.cr = !cur.cr; toggles++; hist = append(hist, "toggle cr") },
			"swap-getter": func(t *rapid.T) {
				cur.getter = rapid.IntRange(0, nW-1).Draw(t, "g")
				shared.Getter = getters[cur.getter]
				hist = append(hist, fmt.Sprint("getter=", cur.getter))
			},
			"swap-pool": func(t *rapid.T) {
				cur.pool = rapid.IntRange(0, nW-1).Draw(t, "p")
				shared.TrustedRoots = pools[cur.pool]
				hist = append(hist, fmt.Sprint("pool=", cur.pool))
			},
			"set-times": func(t *rapid.T) {
				cur.times = rapid.IntRange(0, nW-1).Draw(t, "ts")
				ts := worlds[cur.times].Times
				shared.Now = &ts
				hist = append(hist, fmt.Sprint("times=", cur.times))
			},
		})
		if len(distinctWorlds) >= 2 && toggles >= 1 {
			gen.NonTrivial(strings.Join(hist, ";"))
		}
		gen.Class(fmt.Sprintf("history:worlds=%d,toggles>0=%v", len(distinctWorlds), toggles > 0))
		gen.Sample("history", hist)
	})

	<-done
	gen.Direct(t, "embedded-root-and-process-history", func(t *testing.T) {
		intelReRootedCheck(t, "the verdict depends only on the quote, the option settings and the fetched data, not on what the process verified before")
	})
}

// realClockScenario covers the default time set (Options.Now == nil): a leaf that expires two
// seconds from now must be rejected after expiry by the SAME options value that accepted it before.
func realClockScenario(done chan struct{}) {
	defer close(done)
	defer func() {
		if r := recover(); r != nil {
			gen.Inconclusive(fmt.Sprint("real-clock scenario crashed in the harness: ", r))
		}
	}()
	now := time.Now()
	expiry := now.Truncate(time.Second).Add(3 * time.Second)
	p := gen.NewPKI(gen.PKISpec{Seed: "pki-clock", RootW: gen.Window{NotBefore: now.AddDate(-1, 0, 0), NotAfter: now.AddDate(5, 0, 0)}, IntW: gen.Window{NotBefore: now.AddDate(-1, 0, 0), NotAfter: now.AddDate(5, 0, 0)}})
	w := gen.NewWorld(p, gen.NewStream(uint64(now.UnixNano()), "clock"))
	w.LeafSpec.W = gen.Window{NotBefore: now.AddDate(0, 0, -1), NotAfter: expiry}
	w.LeafSpec.Serial = []byte{byte(now.Unix() >> 8), byte(now.Unix()), 7}
	w.Build()
	shared := &verify.Options{TrustedRoots: w.PKI.Pool(), Getter: gen.FailGetter{}}
	v1 := gen.Call(func() error { return verify.RawTdxQuote(w.Raw, shared) })
	if time.Now().After(expiry.Add(-200 * time.Millisecond)) {
		gen.Inconclusive("real-clock scenario: the machine was too slow to verify before the leaf expired")
		return
	}
	gen.Eval()
	if !v1.Accepted() {
		// not this scenario's property (completeness is C11); record and stop
		gen.Inconclusive("real-clock scenario: in-date quote rejected before expiry: " + v1.String())
		return
	}
	time.Sleep(time.Until(expiry.Add(1500 * time.Millisecond)))
	gen.Eval()
	v2 := gen.Call(func() error { return verify.RawTdxQuote(w.Raw, shared) })
	v3 := gen.Call(func() error {
		return verify.RawTdxQuote(w.Raw, &verify.Options{TrustedRoots: w.PKI.Pool(), Getter: gen.FailGetter{}})
	})
	gen.NonTrivial("real-clock", "default-time-set")
	gen.Class("real-clock-scenario")
	if v3.Accepted() {
		realClockViolation("expired-leaf-accepted-by-fresh-options", "fresh options with the default time set accepted a leaf that expired 1.5 s ago")
		return
	}
	if v2.Accepted() {
		realClockViolation("default-time-set-pinned-by-first-use", "the same options value that verified the quote before its leaf expired still accepts it 1.5 s after expiry, while fresh options reject it: the verdict depends on the options value's history")
	}
}

var realClockFail func(key, detail string)

func realClockViolation(key, detail string) {
	v := gen.Violation{Property: "C12", Key: key, Oracle: "the verdict depends only on the quote, the option settings and the fetched data (default time set = time of the call)", Detail: detail,
		Replay: map[string]any{"kind": "real-clock"}}
	gen.FailAsync(v)
}

func init() {
	replayKinds["real-clock"] = func(c map[string]any) string {
		done := make(chan struct{})
		before := gen.AsyncViolations()
		realClockScenario(done)
		<-done
		if after := gen.AsyncViolations(); after > before {
			return "real-clock scenario violated again"
		}
		return ""
	}
}

// nestingGetter runs f before every request it passes on.
type nestingGetter struct {
	inner trust.HTTPSGetter
	f     func()
}

func (n nestingGetter) Get(u string) (map[string][]string, []byte, error) {
	n.f()
	return n.inner.Get(u)
}
