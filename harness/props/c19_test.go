package props

import (
	"bytes"
	"encoding/binary"
	"encoding/hex"
	"errors"
	"fmt"
	"os"
	"os/exec"
	"path/filepath"
	"sort"
	"strconv"
	"strings"
	"syscall"
	"testing"
	"time"

	ccpb "github.com/google/go-tdx-guest/proto/checkconfig"
	"github.com/google/go-tdx-guest/testing/testdata"
	"github.com/google/go-tdx-guest/verify"
	"github.com/google/go-tdx-guest/verify/trust"
	"google.golang.org/protobuf/encoding/prototext"
	"google.golang.org/protobuf/proto"
	"pgregory.net/rapid"
	"verifharness/gen"
)

// ---- exit-code model of the check tool (README + flag documentation) ----

const (
	clsUsage   = 1
	clsVerify  = 2
	clsNetwork = 3
	clsPolicy  = 4
)

type byteField struct {
	flag  string
	size  int
	get   func(q *gen.RefQuote) []byte
	toCfg func(p *ccpb.Policy, v []byte)
}

var c19Fields = []byteField{
	{"qe_vendor_id", 16, func(q *gen.RefQuote) []byte { return q.VendorID[:] }, func(p *ccpb.Policy, v []byte) { p.HeaderPolicy.QeVendorId = v }},
	{"mr_seam", 48, func(q *gen.RefQuote) []byte { return q.MrSeam[:] }, func(p *ccpb.Policy, v []byte) { p.TdQuoteBodyPolicy.MrSeam = v }},
	{"td_attributes", 8, func(q *gen.RefQuote) []byte { return q.TdAttr[:] }, func(p *ccpb.Policy, v []byte) { p.TdQuoteBodyPolicy.TdAttributes = v }},
	{"xfam", 8, func(q *gen.RefQuote) []byte { return q.Xfam[:] }, func(p *ccpb.Policy, v []byte) { p.TdQuoteBodyPolicy.Xfam = v }},
	{"mr_td", 48, func(q *gen.RefQuote) []byte { return q.MrTd[:] }, func(p *ccpb.Policy, v []byte) { p.TdQuoteBodyPolicy.MrTd = v }},
	{"mr_config_id", 48, func(q *gen.RefQuote) []byte { return q.MrConfigID[:] }, func(p *ccpb.Policy, v []byte) { p.TdQuoteBodyPolicy.MrConfigId = v }},
	{"mr_owner", 48, func(q *gen.RefQuote) []byte { return q.MrOwner[:] }, func(p *ccpb.Policy, v []byte) { p.TdQuoteBodyPolicy.MrOwner = v }},
	{"mr_owner_config", 48, func(q *gen.RefQuote) []byte { return q.MrOwnerConfig[:] }, func(p *ccpb.Policy, v []byte) { p.TdQuoteBodyPolicy.MrOwnerConfig = v }},
	{"report_data", 64, func(q *gen.RefQuote) []byte { return q.ReportData[:] }, func(p *ccpb.Policy, v []byte) { p.TdQuoteBodyPolicy.ReportData = v }},
	{"minimum_tee_tcb_svn", 16, func(q *gen.RefQuote) []byte { return q.TeeTcbSvn[:] }, func(p *ccpb.Policy, v []byte) { p.TdQuoteBodyPolicy.MinimumTeeTcbSvn = v }},
}

type c19Case struct {
	args         []string
	stdin        []byte
	classes      map[int]string // fault class -> why
	parse12      bool           // unparsable quote: 1 or 2
	desc         []string
	overrideBoth bool
	netMode      string                  // "unreachable" | "fake-pcs"
	resp         map[string]gen.Response // served by the fake PCS
	tz           string                  // TZ of the tool's process ("" = inherited)
	nearNow      bool                    // the case depends on the time it was generated at
}

func (c *c19Case) fault(cls int, why string) {
	if _, ok := c.classes[cls]; !ok {
		c.classes[cls] = why
	}
	c.desc = append(c.desc, fmt.Sprintf("fault%d:%s", cls, why))
}

func flip(b []byte, s *gen.Stream) []byte {
	o := append([]byte{}, b...)
	o[s.Intn(len(o))] ^= 1 << uint(s.Intn(8))
	return o
}

func mismatchFor(f byteField, actual []byte, s *gen.Stream) []byte {
	if f.flag == "minimum_tee_tcb_svn" {
		// a minimum the quote misses in ONE component only, at any position
		o := append([]byte{}, actual...)
		start := s.Intn(len(o))
		for k := range o {
			i := (start + k) % len(o)
			if o[i] < 255 {
				o[i]++
				return o
			}
		}
	}
	return flip(actual, s)
}

func drawC19(t *rapid.T, dir string, toolQuote map[string][]byte) *c19Case {
	c := &c19Case{classes: map[int]string{}, netMode: "unreachable"}
	s := gen.NewStream(rapid.Uint64().Draw(t, "content"), "c19")
	// fault budgets: most cases carry at most one class of fault, so every exit code is exercised
	allowUsage := rapid.IntRange(0, 3).Draw(t, "allowUsageFaults") == 0
	allowPolicy := rapid.IntRange(0, 2).Draw(t, "allowPolicyFaults") == 0
	allowVerify := rapid.IntRange(0, 2).Draw(t, "allowVerifyFaults") == 0
	pick := func(label string, options []string) string {
		v := rapid.SampledFrom(options).Draw(t, label)
		switch v {
		case "nothex", "toolong", "wronglen", "wide", "garbage", "three", "maybe", "garbage-binary", "garbage-text", "text-unknown-field", "missing", "empty", "bogus":
			if !allowUsage {
				return options[0]
			}
		case "mismatch", "toohigh", "leading-zero-toohigh", "mismatch-behind-an-empty-entry":
			if !allowPolicy {
				return options[0]
			}
		case "forged", "unparsable", "B", "expired-3h-ago", "valid-from-3h-ahead":
			if !allowVerify {
				return options[0]
			}
		}
		return v
	}
	pA, pB := gen.NewPKI(gen.PKISpec{Seed: "pki-A"}), gen.NewPKI(gen.PKISpec{Seed: "pki-B"})
	w := gen.NewWorld(pA, s)
	binary.LittleEndian.PutUint64(w.Q.Xfam[:], gen.XfamFixed1|(s.Uint64()&gen.XfamFixed0))
	binary.LittleEndian.PutUint64(w.Q.TdAttr[:], s.Uint64()&gen.TdAttrAllowed)
	for i := range w.Q.TeeTcbSvn {
		w.Q.TeeTcbSvn[i] = byte(1 + s.Intn(200))
	}
	// component 1 is the TDX module's major version on modules since 1.5 (0 before): the policy's minimum is compared
	// component by component either way
	w.Q.TeeTcbSvn[1] = byte(rapid.SampledFrom([]int{0, 0, 1, 1, 2}).Draw(t, "tdxModuleMajor"))
	w.HonestCollateral()
	// the tool judges validity at the current time, whatever the time zone of its process: a leaf whose window
	// ends or starts a few hours from now, and a TZ on either side of UTC
	now0 := time.Now()
	leafTime := pick("leafTime", []string{"wide", "wide", "wide", "wide", "expired-3h-ago", "valid-from-3h-ahead", "expires-in-3h", "valid-since-3h"})
	switch leafTime {
	case "expired-3h-ago":
		w.LeafSpec.W = gen.Window{NotBefore: gen.Wide.NotBefore, NotAfter: now0.Add(-3 * time.Hour).Truncate(time.Second)}
	case "valid-from-3h-ahead":
		w.LeafSpec.W = gen.Window{NotBefore: now0.Add(3 * time.Hour).Truncate(time.Second), NotAfter: gen.Wide.NotAfter}
	case "expires-in-3h":
		w.LeafSpec.W = gen.Window{NotBefore: gen.Wide.NotBefore, NotAfter: now0.Add(3 * time.Hour).Truncate(time.Second)}
	case "valid-since-3h":
		w.LeafSpec.W = gen.Window{NotBefore: now0.Add(-3 * time.Hour).Truncate(time.Second), NotAfter: gen.Wide.NotAfter}
	}
	c.tz = rapid.SampledFrom([]string{"", "", "UTC", "America/Los_Angeles", "Asia/Tokyo", "Pacific/Kiritimati", "Pacific/Pago_Pago"}).Draw(t, "TZ")
	w.Build()
	q := w.Q
	write := func(name string, b []byte) string {
		p := filepath.Join(dir, name)
		if err := os.WriteFile(p, b, 0o644); err != nil {
			gen.HarnessError(t, "write %s: %v", p, err)
		}
		return p
	}
	// ---- quote ----
	quoteKind := pick("quote", []string{"valid", "valid", "valid", "valid", "forged", "forged-and-re-signed", "unparsable", "empty", "intel-sample"})
	raw := w.Raw
	rootIsA := true
	switch quoteKind {
	case "forged":
		raw = append([]byte{}, w.Raw...)
		raw[48+s.Intn(584)] ^= 1 << uint(s.Intn(8))
		q, _ = gen.RefParse(raw)
		c.fault(clsVerify, "forged quote")
	case "forged-and-re-signed":
		// one of the forgeries of the signature-link catalogue: built with the keys the forger has (its own attestation
		// key, the PCK key of this world), every signature it can make is made - one link does not hold
		var rej []forgery
		for _, f := range c01Forgeries {
			if f.expect == "reject" {
				rej = append(rej, f)
			}
		}
		f := rej[s.Intn(len(rej))]
		fq := w.Q.Clone()
		f.apply(w, fq, s)
		raw = fq.Encode()
		if pq, err := gen.RefParse(raw); err == nil {
			q = pq
			c.fault(clsVerify, "forged quote ("+f.name+")")
		} else {
			c.parse12 = true
			c.desc = append(c.desc, "forged quote that does not parse ("+f.name+")")
		}
	case "unparsable":
		raw = s.Bytes(1300)
		raw[0] = 9
		c.parse12 = true
		c.desc = append(c.desc, "unparsable quote")
	case "empty":
		raw = []byte{}
		c.parse12 = true
		c.desc = append(c.desc, "empty quote")
	case "intel-sample":
		raw = testdata.RawQuote
		q, _ = gen.RefParse(raw)
		rootIsA = false
	}
	if leafTime != "wide" && (quoteKind == "valid" || quoteKind == "forged" || quoteKind == "forged-and-re-signed") {
		c.nearNow = true
		c.desc = append(c.desc, "leaf:"+leafTime, "TZ="+c.tz)
		if leafTime == "expired-3h-ago" || leafTime == "valid-from-3h-ahead" {
			c.fault(clsVerify, "PCK leaf "+leafTime)
		}
	}
	inform := pick("inform", []string{"bin", "bin", "proto", "textproto", "default", "bogus"})
	data := raw
	if inform == "proto" || inform == "textproto" {
		if c.parse12 {
			data = s.Bytes(50)
			data[0] = 0xff
			if inform == "textproto" {
				data = []byte("header { version: ")
			}
			if quoteKind == "empty" {
				data = []byte{} // an empty proto/textproto is an empty message: fails the structural check
			}
		} else {
			m := q.ToProto()
			// a message can say more than the wire format holds: a 16-bit field of the quote given as the genuine value
			// plus a multiple of 65536 (the low 16 bits are the signed ones). Such a message is no quote.
			if rapid.IntRange(0, 5).Draw(t, "fieldWiderThanTheWire") == 0 {
				add := uint32(rapid.SampledFrom([]int{1, 2, 255, 65535}).Draw(t, "highBits")) << 16
				qr := m.GetSignedData().GetCertificationData().GetQeReportCertificationData().GetQeReport()
				which := rapid.SampledFrom([]string{"qe_report.isv_svn", "qe_report.isv_prod_id", "header.qe_svn", "header.pce_svn", "certification_data.certificate_data_type", "qe_auth_data.parsed_data_size", "header.version"}).Draw(t, "wideField")
				switch which {
				case "qe_report.isv_svn":
					qr.IsvSvn += add
				case "qe_report.isv_prod_id":
					qr.IsvProdId += add
				case "header.qe_svn":
					m.Header.QeSvn = append(append([]byte{}, m.Header.QeSvn...), 1)
				case "header.pce_svn":
					m.Header.PceSvn = append(append([]byte{}, m.Header.PceSvn...), 0)
				case "certification_data.certificate_data_type":
					m.SignedData.CertificationData.CertificateDataType += add
				case "qe_auth_data.parsed_data_size":
					m.SignedData.CertificationData.QeReportCertificationData.QeAuthData.ParsedDataSize += add
				default:
					m.Header.Version += add
				}
				c.fault(clsVerify, "message field wider than the wire format: "+which)
			}
			if inform == "proto" {
				data, _ = proto.Marshal(m)
			} else {
				data, _ = prototext.Marshal(m)
			}
		}
	}
	switch inform {
	case "default":
	case "bogus":
		c.args = append(c.args, "-inform=pem")
		c.fault(clsUsage, "unknown -inform")
	default:
		c.args = append(c.args, "-inform="+inform)
	}
	inCase := rapid.IntRange(0, 9).Draw(t, "in")
	if inCase == 1 && !allowUsage {
		inCase = 2
	}
	switch inCase {
	case 0:
		c.stdin = data
		if rapid.Bool().Draw(t, "dash") {
			c.args = append(c.args, "-in=-")
		}
	case 1:
		c.args = append(c.args, "-in="+filepath.Join(dir, "no-such-quote.dat"))
		c.fault(clsUsage, "missing quote file")
		c.parse12 = false
	default:
		c.args = append(c.args, "-in="+write("quote.dat", data))
	}
	// ---- config ----
	var cfg *ccpb.Config
	if rapid.IntRange(0, 3).Draw(t, "config") > 0 {
		cfg = &ccpb.Config{}
		switch rapid.IntRange(0, 5).Draw(t, "policyShape") {
		case 0: // no policy at all
		case 1:
			cfg.Policy = &ccpb.Policy{}
		case 2:
			cfg.Policy = &ccpb.Policy{HeaderPolicy: &ccpb.HeaderPolicy{}}
		case 3:
			cfg.Policy = &ccpb.Policy{TdQuoteBodyPolicy: &ccpb.TDQuoteBodyPolicy{}}
		default:
			cfg.Policy = &ccpb.Policy{HeaderPolicy: &ccpb.HeaderPolicy{}, TdQuoteBodyPolicy: &ccpb.TDQuoteBodyPolicy{}}
		}
		if rapid.IntRange(0, 3).Draw(t, "rotShape") > 0 {
			cfg.RootOfTrust = &ccpb.RootOfTrust{}
		}
	}
	full := cfg != nil && cfg.Policy != nil && cfg.Policy.HeaderPolicy != nil && cfg.Policy.TdQuoteBodyPolicy != nil
	canParse := !c.parse12 && c.classes[clsUsage] != "missing quote file"
	// ---- byte-string expectations: config state x flag state ----
	for _, f := range c19Fields {
		actual := make([]byte, f.size)
		if q != nil {
			actual = f.get(q)
		}
		cfgState := "absent"
		if full {
			cfgState = pick("cfg-"+f.flag, []string{"absent", "absent", "absent", "match", "mismatch", "wronglen"})
		}
		flagState := pick("flag-"+f.flag, []string{"absent", "absent", "absent", "absent", "match", "mismatch", "nothex", "toolong"})
		switch cfgState {
		case "match":
			f.toCfg(cfg.Policy, append([]byte{}, actual...))
		case "mismatch":
			f.toCfg(cfg.Policy, mismatchFor(f, actual, s))
		case "wronglen":
			f.toCfg(cfg.Policy, append(append([]byte{}, actual...), 0))
		}
		switch flagState {
		case "match":
			c.args = append(c.args, "-"+f.flag+"="+hex.EncodeToString(actual))
		case "mismatch":
			c.args = append(c.args, "-"+f.flag+"="+hex.EncodeToString(mismatchFor(f, actual, s)))
		case "nothex":
			c.args = append(c.args, "-"+f.flag+"=!!not_hex!!")
			c.fault(clsUsage, "malformed flag -"+f.flag)
		case "toolong":
			c.args = append(c.args, "-"+f.flag+"="+hex.EncodeToString(append(append([]byte{}, actual...), 7)))
			c.fault(clsUsage, "over-long flag -"+f.flag)
		}
		eff := cfgState
		if flagState == "match" || flagState == "mismatch" {
			if cfgState != "absent" {
				c.overrideBoth = true
			}
			eff = flagState
		}
		switch eff {
		case "mismatch":
			if canParse {
				c.fault(clsPolicy, f.flag+" mismatches")
			}
		case "wronglen":
			c.fault(clsUsage, "config "+f.flag+" has wrong length")
		}
		if cfgState != "absent" || flagState != "absent" {
			c.desc = append(c.desc, fmt.Sprintf("%s:cfg=%s,flag=%s", f.flag, cfgState, flagState))
		}
	}
	// ---- SVN minimums ----
	for _, sv := range []struct {
		flag   string
		actual uint16
		set    func(v uint32)
	}{
		{"minimum_qe_svn", svnOf(q, true), func(v uint32) { cfg.Policy.HeaderPolicy.MinimumQeSvn = v }},
		{"minimum_pce_svn", svnOf(q, false), func(v uint32) { cfg.Policy.HeaderPolicy.MinimumPceSvn = v }},
	} {
		cfgState := "absent"
		if full {
			cfgState = pick("cfg-"+sv.flag, []string{"absent", "absent", "ok", "toohigh", "wide"})
		}
		flagState := pick("flag-"+sv.flag, []string{"absent", "absent", "absent", "ok", "zero", "hex-ok", "leading-zero-ok", "toohigh", "leading-zero-toohigh", "wide", "garbage"})
		high := uint32(sv.actual) + 1
		if sv.actual == 65535 {
			// cannot exceed: treat "toohigh" as ok
			high = 65535
		}
		switch cfgState {
		case "ok":
			sv.set(uint32(sv.actual))
		case "toohigh":
			sv.set(high)
		case "wide":
			sv.set(65536 + uint32(s.Intn(1000)))
		}
		switch flagState {
		case "ok":
			c.args = append(c.args, fmt.Sprintf("-%s=%d", sv.flag, sv.actual))
		case "zero":
			c.args = append(c.args, "-"+sv.flag+"=0")
		case "hex-ok":
			c.args = append(c.args, fmt.Sprintf("-%s=0x%x", sv.flag, sv.actual))
		case "leading-zero-ok":
			// plain decimal digits are a decimal number, leading zeros or not
			c.args = append(c.args, fmt.Sprintf("-%s=00%d", sv.flag, sv.actual))
			flagState = "ok"
		case "leading-zero-toohigh":
			c.args = append(c.args, fmt.Sprintf("-%s=0%d", sv.flag, high))
			flagState = "toohigh"
		case "toohigh":
			c.args = append(c.args, fmt.Sprintf("-%s=%d", sv.flag, high))
		case "wide":
			c.args = append(c.args, "-"+sv.flag+"=65536")
			c.fault(clsUsage, sv.flag+" flag exceeds 16 bits")
		case "garbage":
			c.args = append(c.args, "-"+sv.flag+"=12abc")
			c.fault(clsUsage, sv.flag+" flag is not a number")
		}
		eff := cfgState
		if flagState != "absent" && flagState != "garbage" {
			eff = flagState
			if cfgState != "absent" {
				c.overrideBoth = true
			}
		}
		switch eff {
		case "toohigh":
			if canParse && sv.actual != 65535 {
				c.fault(clsPolicy, sv.flag+" above the quote's value")
			}
		case "wide":
			if flagState == "absent" || flagState == "garbage" {
				c.fault(clsUsage, "config "+sv.flag+" exceeds 16 bits")
			}
		}
		if cfgState != "absent" || flagState != "absent" {
			c.desc = append(c.desc, fmt.Sprintf("%s:cfg=%s,flag=%s", sv.flag, cfgState, flagState))
		}
	}
	// ---- rtmrs ----
	if q != nil {
		cfgState := "absent"
		if full {
			cfgState = pick("cfg-rtmrs", []string{"absent", "absent", "match", "mismatch", "three", "mismatch-behind-an-empty-entry"})
		}
		flagState := pick("flag-rtmrs", []string{"absent", "absent", "absent", "match", "partial-match", "mismatch", "three", "nothex", "mismatch-behind-an-empty-entry", "mismatch-behind-an-empty-entry"})
		all := [][]byte{q.Rtmr[0][:], q.Rtmr[1][:], q.Rtmr[2][:], q.Rtmr[3][:]}
		hexes := func(l [][]byte) string {
			var p []string
			for _, e := range l {
				p = append(p, hex.EncodeToString(e))
			}
			return strings.Join(p, ",")
		}
		switch cfgState {
		case "match":
			cfg.Policy.TdQuoteBodyPolicy.Rtmrs = [][]byte{all[0], all[1], all[2], all[3]}
		case "mismatch-behind-an-empty-entry":
			cfg.Policy.TdQuoteBodyPolicy.Rtmrs = [][]byte{{}, {}, flip(all[2], s), {}}
			cfgState = "mismatch"
		case "mismatch":
			cfg.Policy.TdQuoteBodyPolicy.Rtmrs = [][]byte{all[0], flip(all[1], s), all[2], all[3]}
		case "three":
			cfg.Policy.TdQuoteBodyPolicy.Rtmrs = [][]byte{all[0], all[1], all[2]}
		}
		switch flagState {
		case "match":
			c.args = append(c.args, "-rtmrs="+hexes(all))
		case "partial-match":
			c.args = append(c.args, "-rtmrs="+hex.EncodeToString(all[0])+",,,"+hex.EncodeToString(all[3]))
		case "mismatch-behind-an-empty-entry":
			// an empty entry leaves ITS register unchecked, not the ones behind it
			k := 1 + s.Intn(3)
			parts := []string{"", "", "", ""}
			parts[k] = hex.EncodeToString(flip(all[k], s))
			if k > 1 && s.Intn(2) == 0 {
				parts[0] = hex.EncodeToString(all[0])
			}
			c.args = append(c.args, "-rtmrs="+strings.Join(parts, ","))
			flagState = "mismatch"
		case "mismatch":
			c.args = append(c.args, "-rtmrs="+hexes([][]byte{all[0], all[1], flip(all[2], s), all[3]}))
		case "three":
			c.args = append(c.args, "-rtmrs="+hexes(all[:3]))
		case "nothex":
			c.args = append(c.args, "-rtmrs=zz,,,")
			c.fault(clsUsage, "rtmrs flag not hex")
		}
		eff := cfgState
		if flagState != "absent" && flagState != "nothex" {
			eff = flagState
		}
		switch eff {
		case "mismatch":
			if canParse {
				c.fault(clsPolicy, "rtmrs mismatch")
			}
		case "three":
			c.fault(clsUsage, "rtmrs list of three")
		}
		if cfgState != "absent" || flagState != "absent" {
			c.desc = append(c.desc, fmt.Sprintf("rtmrs:cfg=%s,flag=%s", cfgState, flagState))
		}
	}
	// ---- root of trust ----
	rot := (*ccpb.RootOfTrust)(nil)
	if cfg != nil {
		rot = cfg.RootOfTrust
	}
	trusted := map[string]bool{} // "A", "B"
	bundles := 0
	broken := ""
	mkBundle := func(kind, name string) string {
		switch kind {
		case "A":
			trusted["A"] = true
			return write(name, pA.Root.PEM)
		case "B":
			trusted["B"] = true
			return write(name, pB.Root.PEM)
		case "A+B":
			trusted["A"], trusted["B"] = true, true
			return write(name, append(append([]byte{}, pB.Root.PEM...), pA.Root.PEM...))
		case "empty":
			broken = "empty bundle file"
			return write(name, []byte{})
		default:
			broken = "missing bundle file"
			return filepath.Join(dir, "no-such-bundle.pem")
		}
	}
	bundleKinds := []string{"A", "A", "A", "B", "A+B", "empty", "missing"}
	flagRoots := rapid.IntRange(0, 2).Draw(t, "flagRoots")
	if !allowVerify && rootIsA && flagRoots == 0 && rot == nil {
		flagRoots = 1 // a generated quote needs its root configured somewhere to verify
	}
	cfgPaths, cfgInline := 0, 0
	if rot != nil {
		cfgPaths = rapid.IntRange(0, 1).Draw(t, "cfgPaths")
		cfgInline = rapid.IntRange(0, 1).Draw(t, "cfgInline")
	}
	// config paths are only in force when no -trusted_roots flag overrides them
	saveTrusted := func() map[string]bool {
		m := map[string]bool{}
		for k, v := range trusted {
			m[k] = v
		}
		return m
	}
	if cfgPaths > 0 {
		before, beforeBroken := saveTrusted(), broken
		p := mkBundle(pick("cfgBundle", bundleKinds), "cfg-bundle.pem")
		rot.CabundlePaths = []string{p}
		if flagRoots > 0 { // overridden: its content (and brokenness) does not count
			trusted, broken = before, beforeBroken
		} else {
			bundles++
		}
	}
	if cfgInline > 0 {
		k := pick("inlineBundle", []string{"A", "A", "B", "empty"})
		switch k {
		case "A":
			rot.Cabundles = []string{string(pA.Root.PEM)}
			trusted["A"] = true
		case "B":
			rot.Cabundles = []string{string(pB.Root.PEM)}
			trusted["B"] = true
		default:
			rot.Cabundles = []string{"not a certificate"}
			broken = "inline bundle without certificates"
		}
		bundles++
	}
	if flagRoots > 0 {
		var ps []string
		for i := 0; i < flagRoots; i++ {
			ps = append(ps, mkBundle(pick("flagBundle", bundleKinds), fmt.Sprintf("flag-bundle-%d.pem", i)))
			bundles++
		}
		c.args = append(c.args, "-trusted_roots="+strings.Join(ps, ","))
		if cfgPaths > 0 {
			c.overrideBoth = true
		}
	}
	if broken != "" {
		c.fault(clsUsage, broken)
	}
	// ---- collateral / revocation flags ----
	cfgGC, cfgCR := false, false
	if rot != nil {
		cfgGC = rapid.IntRange(0, 3).Draw(t, "cfgGC") == 0
		cfgCR = rapid.IntRange(0, 5).Draw(t, "cfgCR") == 0
		rot.GetCollateral, rot.CheckCrl = cfgGC, cfgCR
	}
	effBool := func(name string, cfgVal bool) bool {
		switch pick("flag-"+name, []string{"absent", "absent", "absent", "absent", "true", "false", "maybe"}) {
		case "true":
			c.args = append(c.args, "-"+name+"=true")
			return true
		case "false":
			c.args = append(c.args, "-"+name+"=false")
			if cfgVal {
				c.overrideBoth = true
			}
			return false
		case "maybe":
			c.args = append(c.args, "-"+name+"=maybe")
			c.fault(clsUsage, "-"+name+"=maybe")
		}
		return cfgVal
	}
	gc := effBool("get_collateral", cfgGC)
	cr := effBool("check_crl", cfgCR)
	if cr && !gc && !allowUsage {
		c.args = append(c.args, "-get_collateral=true")
		gc = true
	}
	if cr && !gc {
		c.fault(clsUsage, "check_crl without get_collateral")
	}
	localGetter := rapid.IntRange(0, 4).Draw(t, "localGetter") == 0
	if localGetter {
		c.args = append(c.args, "-test_local_getter")
	}
	// network: unreachable (the sandbox has none) or a fake PCS reached through HTTPS_PROXY
	collFault := gen.Fault{Name: "none", Benign: true}
	if gc && !localGetter && rapid.IntRange(0, 2).Draw(t, "fakePCS") > 0 {
		c.netMode = "fake-pcs"
		var cands []gen.Fault
		for _, f := range gen.Faults {
			if f.Benign || (f.MinLevel >= gen.LvlColl && f.NewPKI == nil && !f.GetterOnly && !f.EditsQuote) {
				cands = append(cands, f)
			}
		}
		collFault = rapid.SampledFrom(cands).Draw(t, "collateralFault")
		w2 := *w
		w2.TcbInfo.Levels = append([]gen.PlatformLevel{}, w.TcbInfo.Levels...)
		w2.QeID.Levels = append([]gen.QeLevel{}, w.QeID.Levels...)
		w2.QeID.Mrsigner = append([]byte{}, w.QeID.Mrsigner...)
		now := time.Now()
		w2.Times = verifyTimes(now)
		collFault.ApplyPre(&w2)
		w2.BuildCollateral()
		collFault.ApplyPost(&w2)
		c.resp = w2.Resp
		c.args = append(c.args, "-timeout=1500ms", "-max_retry_delay=100ms")
		c.desc = append(c.desc, "fake-pcs:"+collFault.Name)
	} else {
		c.args = append(c.args, "-timeout=80ms", "-max_retry_delay=10ms")
	}
	// ---- verification outcome ----
	if canParse {
		ok := false
		if bundles == 0 {
			ok = !rootIsA // embedded Intel root
		} else {
			ok = rootIsA && trusted["A"]
		}
		if !ok {
			c.fault(clsVerify, "quote's root is not trusted by the effective root of trust")
		}
		if gc {
			// collateral is fetched before the chain and the signatures are judged
			switch {
			case quoteKind == "intel-sample" && localGetter:
				c.fault(clsVerify, "recorded Intel collateral is expired / has no matching level")
			case c.netMode == "fake-pcs" && quoteKind != "intel-sample":
				lvl := gen.LvlColl
				if cr {
					lvl = gen.LvlCRL
				}
				if !collFault.Benign && lvl >= collFault.MinLevel {
					if strings.HasSuffix(collFault.Name, "endpoint-down") {
						c.fault(clsNetwork, "fake PCS: "+collFault.Name)
					} else {
						c.fault(clsVerify, "fake PCS serves collateral with "+collFault.Name)
					}
				}
			default:
				c.fault(clsNetwork, "collateral cannot be downloaded")
			}
		}
	}
	// ---- config file ----
	if cfg != nil {
		switch pick("configFormat", []string{"binary", "text", "text", "garbage-binary", "garbage-text", "text-unknown-field", "missing"}) {
		case "text-unknown-field":
			// a well-formed text config with a field name the schema does not have (misspelled or misplaced): malformed
			b, _ := prototext.Marshal(cfg)
			extra := "no_such_field: 1\n"
			switch {
			case cfg.RootOfTrust == nil && rapid.Bool().Draw(t, "misspelledRot"):
				extra = "root_of_trust { cabundle_path: \"/nonexistent.pem\" }\n"
			case cfg.Policy == nil && rapid.Bool().Draw(t, "misplacedPolicyField"):
				extra = "policy { mr_td: \"00\" }\n"
			}
			if rapid.Bool().Draw(t, "unknownFirst") {
				b = append([]byte(extra), b...)
			} else {
				b = append(append(b, '\n'), extra...)
			}
			c.args = append(c.args, "-config="+write("config.textproto", b))
			c.fault(clsUsage, "text config with an unknown field")
		case "binary":
			b, _ := proto.Marshal(cfg)
			c.args = append(c.args, "-config="+write("config.pb", b))
		case "text":
			b, _ := prototext.Marshal(cfg)
			c.args = append(c.args, "-config="+write("config.textproto", b))
		case "garbage-binary":
			c.args = append(c.args, "-config="+write("config.pb", []byte{0xff, 0xff, 0xff, 0x01}))
			c.fault(clsUsage, "undecodable config")
		case "garbage-text":
			c.args = append(c.args, "-config="+write("config.textproto", []byte("policy { nonsense ")))
			c.fault(clsUsage, "undecodable config")
		case "missing":
			c.args = append(c.args, "-config="+filepath.Join(dir, "no-such-config.textproto"))
			c.fault(clsUsage, "missing config file")
		}
		c.desc = append(c.desc, "config-present")
	}
	c.desc = append([]string{"quote=" + quoteKind, "inform=" + inform}, c.desc...)
	return c
}

func svnOf(q *gen.RefQuote, qe bool) uint16 {
	if q == nil {
		return 0
	}
	if qe {
		return binary.LittleEndian.Uint16(q.Word10[:])
	}
	return binary.LittleEndian.Uint16(q.Word8[:])
}

func (c *c19Case) allowed() map[int]bool {
	a := map[int]bool{}
	for cls := range c.classes {
		a[cls] = true
	}
	if c.parse12 {
		a[1], a[2] = true, true
	}
	if len(a) == 0 {
		a[0] = true
	}
	return a
}

var thePCS *fakePCS

func verifyTimes(now time.Time) verify.TimeSet {
	return verify.TimeSet{PckCertChain: now, TcbInfo: now, QeIdentity: now, PckCrl: now, RootCaCrl: now}
}

func runTool(tool string, c *c19Case) (int, string, error) {
	cmd := exec.Command(tool, c.args...)
	cmd.Env = os.Environ()
	if c.tz != "" {
		cmd.Env = append(cmd.Env, "TZ="+c.tz)
	}
	if c.netMode == "fake-pcs" && thePCS != nil {
		thePCS.set(c.resp)
		cmd.Env = append(cmd.Env, thePCS.env()...)
	}
	cmd.Stdin = bytes.NewReader(c.stdin)
	var stderr, stdout bytes.Buffer
	cmd.Stderr, cmd.Stdout = &stderr, &stdout
	done := make(chan error, 1)
	if err := cmd.Start(); err != nil {
		return -1, "", err
	}
	go func() { done <- cmd.Wait() }()
	select {
	case err := <-done:
		code := 0
		if err != nil {
			var ee *exec.ExitError
			if errors.As(err, &ee) {
				code = ee.ExitCode()
			} else {
				return -1, "", err
			}
		}
		return code, stderr.String(), nil
	case <-time.After(60 * time.Second):
		_ = cmd.Process.Kill()
		return -2, stderr.String(), nil
	}
}

func TestC19(t *testing.T) {
	replayDir(t, "C19")
	tool := os.Getenv("VERIF_CHECK_TOOL")
	if tool == "" {
		gen.HarnessError(t, "VERIF_CHECK_TOOL is not set (the driver builds tools/check from the working tree)")
	}
	sh, _ := gen.Shard()
	base := filepath.Join(gen.VerifDir(), ".build", "c19work", fmt.Sprintf("%d-%d", sh, os.Getpid())) // (two runs at the same time do not share it)
	_ = os.RemoveAll(base)
	defer os.RemoveAll(base)
	_ = os.MkdirAll(base, 0o755)
	pcsSrv, err := startFakePCS(base)
	if err != nil {
		gen.HarnessError(t, "cannot start the fake PCS: %v", err)
	}
	thePCS = pcsSrv
	n := 0
	gen.Prop(t, "exit-codes", gen.N(1600, 60000), func(t *rapid.T) {
		n++
		dir := filepath.Join(base, fmt.Sprintf("case%d", n%8))
		_ = os.RemoveAll(dir)
		if err := os.MkdirAll(dir, 0o755); err != nil {
			gen.HarnessError(t, "mkdir: %v", err)
		}
		c := drawC19(t, dir, nil)
		gen.Eval()
		code, stderr, err := runTool(tool, c)
		if err != nil {
			gen.HarnessError(t, "cannot execute the tool: %v", err)
		}
		allowed := c.allowed()
		if !allowed[code] && code == 3 && c.netMode == "fake-pcs" && strings.Contains(stderr, "timeout") {
			// a loaded machine can miss the short retry window: judge with a generous one
			for i, a := range c.args {
				if strings.HasPrefix(a, "-timeout=") {
					c.args[i] = "-timeout=10s"
				}
			}
			code, stderr, err = runTool(tool, c)
			if err != nil {
				gen.HarnessError(t, "cannot execute the tool: %v", err)
			}
			gen.Class("retried-with-long-timeout")
		}
		var al []int
		for k := range allowed {
			al = append(al, k)
		}
		sort.Ints(al)
		files := map[string]string{}
		if ents, err := os.ReadDir(dir); err == nil {
			for _, e := range ents {
				if b, err := os.ReadFile(filepath.Join(dir, e.Name())); err == nil {
					files[e.Name()] = hex.EncodeToString(b)
				}
			}
		}
		rp := map[string]any{"kind": "tool", "args": templArgs(c.args, dir), "desc": c.desc, "files": files, "stdin_hex": hex.EncodeToString(c.stdin), "allowed": al, "dir": dir, "tz": c.tz, "near_now": c.nearNow, "made_at": time.Now().Unix()}
		detail := fmt.Sprintf("args=%v case=%v: exit %d, allowed %v; stderr: %s", relArgs(c.args, dir), c.desc, code, al, lastLine(stderr))
		if code == -2 {
			gen.Fail(t, gen.Violation{Key: "tool-hangs", Oracle: "the tool terminates", Detail: detail, Replay: rp})
			return
		}
		if strings.Contains(stderr, "panic:") || strings.Contains(stderr, "goroutine ") || strings.Contains(stderr, "SIGSEGV") {
			gen.Fail(t, gen.Violation{Key: "tool-crash:" + crashSite(stderr), Oracle: "no input makes the tool crash", Detail: detail, Replay: rp})
			return
		}
		if !allowed[code] {
			key := fmt.Sprintf("exit-code:%d-instead-of-%v", code, al)
			if code == 0 {
				key = fmt.Sprintf("exit-0-despite-fault:%v", al)
			}
			gen.Fail(t, gen.Violation{Key: key, Oracle: "exit 0 only without faults; usage 1, verification 2, network 3, policy 4; flags override config", Detail: detail, Replay: rp})
			return
		}
		if code == 2 && !strings.Contains(stderr, "FATAL:") {
			gen.Fail(t, gen.Violation{Key: "exit-2-without-fatal-line", Oracle: "a verification failure is reported", Detail: detail, Replay: rp})
			return
		}
		gen.Class(fmt.Sprintf("exit:%d", code))
		gen.Class("net:" + c.netMode)
		if c.netMode == "fake-pcs" {
			gen.Class(fmt.Sprintf("fake-pcs:exit%d", code))
			gen.NonTrivial("fake-pcs", strings.Join(c.desc, ";"))
		}
		gen.Class(fmt.Sprintf("fault-classes:%d", len(c.classes)))
		if c.overrideBoth || strings.Contains(strings.Join(c.desc, " "), "quote=forged") {
			gen.NonTrivial(strings.Join(c.desc, ";"), al)
		}
		gen.Sample("tool", map[string]any{"case": c.desc, "exit": code})
	})

	// Root-of-trust precedence on its own: a valid quote under PKI A and every combination of config bundle paths,
	// inline config bundles and the -trusted_roots flag (several paths, equal file names in different directories,
	// the same path twice). The flag, when given, replaces the config's paths; inline bundles stay in force; with
	// nothing configured the embedded Intel root is used. Exit 0 iff root A is in the effective set, else 2.
	gen.Direct(t, "root-of-trust-precedence", func(t *testing.T) {
		dir := filepath.Join(base, "rot")
		_ = os.RemoveAll(dir)
		for _, d := range []string{dir, filepath.Join(dir, "custom"), filepath.Join(dir, "intel")} {
			if err := os.MkdirAll(d, 0o755); err != nil {
				gen.HarnessError(t, "mkdir: %v", err)
			}
		}
		pA, pB := gen.NewPKI(gen.PKISpec{Seed: "pki-A"}), gen.NewPKI(gen.PKISpec{Seed: "pki-B"})
		w := gen.NewWorld(pA, gen.NewStream(gen.Seed()+5, "c19rot"))
		binary.LittleEndian.PutUint64(w.Q.Xfam[:], gen.XfamFixed1)
		binary.LittleEndian.PutUint64(w.Q.TdAttr[:], 0)
		w.Q.TeeTcbSvn[1] = 0
		w.HonestCollateral()
		w.Build()
		wr := func(rel string, b []byte) string {
			p := filepath.Join(dir, rel)
			if err := os.WriteFile(p, b, 0o644); err != nil {
				gen.HarnessError(t, "write %s: %v", p, err)
			}
			return p
		}
		quote := wr("quote.dat", w.Raw)
		fileA, fileB := wr("a.pem", pA.Root.PEM), wr("b.pem", pB.Root.PEM)
		// equal base names in different directories
		sameB, sameA := wr("custom/root.pem", pB.Root.PEM), wr("intel/root.pem", pA.Root.PEM)
		type flagCase struct {
			name  string
			paths []string
			hasA  bool
		}
		flags := []flagCase{{"none", nil, false}, {"A", []string{fileA}, true}, {"B", []string{fileB}, false}, {"B,A", []string{fileB, fileA}, true}, {"A,B", []string{fileA, fileB}, true},
			{"B,B", []string{fileB, fileB}, false}, {"A,A", []string{fileA, fileA}, true}, {"custom/root.pem(B),intel/root.pem(A)", []string{sameB, sameA}, true}, {"intel/root.pem(A),custom/root.pem(B)", []string{sameA, sameB}, true}}
		i := 0
		for _, cfgPath := range []string{"none", "A", "B"} {
			for _, cfgInline := range []string{"none", "A", "B"} {
				for _, fl := range flags {
					for _, format := range []string{"text", "binary"} {
						i++
						if !gen.ShardOwns(i) {
							continue
						}
						c := &c19Case{classes: map[int]string{}, netMode: "unreachable"}
						c.args = []string{"-inform=bin", "-in=" + quote}
						rot := &ccpb.RootOfTrust{}
						hasA := false
						configured := 0
						switch cfgPath {
						case "A":
							rot.CabundlePaths = []string{fileA}
						case "B":
							rot.CabundlePaths = []string{fileB}
						}
						if len(fl.paths) > 0 {
							c.args = append(c.args, "-trusted_roots="+strings.Join(fl.paths, ","))
							hasA = hasA || fl.hasA
							configured++
						} else if cfgPath != "none" {
							hasA = hasA || cfgPath == "A"
							configured++
						}
						switch cfgInline {
						case "A":
							rot.Cabundles = []string{string(pA.Root.PEM)}
							hasA = true
							configured++
						case "B":
							rot.Cabundles = []string{string(pB.Root.PEM)}
							configured++
						}
						if cfgPath != "none" || cfgInline != "none" || format == "binary" {
							cfg := &ccpb.Config{RootOfTrust: rot}
							if format == "text" {
								b, _ := prototext.Marshal(cfg)
								c.args = append(c.args, "-config="+wr("config.textproto", b))
							} else {
								b, _ := proto.Marshal(cfg)
								c.args = append(c.args, "-config="+wr("config.pb", b))
							}
						}
						desc := fmt.Sprintf("config paths=%s inline=%s (%s) flag=%s", cfgPath, cfgInline, format, fl.name)
						want := 2
						if hasA {
							want = 0
						}
						gen.Eval()
						code, stderr, err := runTool(tool, c)
						if err != nil {
							gen.HarnessError(t, "cannot execute the tool: %v", err)
						}
						gen.NonTrivial("rot", desc)
						gen.Class(fmt.Sprintf("root-of-trust-precedence:exit%d", want))
						if i%13 == 0 {
							gen.Sample("root-of-trust-precedence", map[string]any{"case": desc, "exit": code})
						}
						if code != want {
							files := map[string]string{}
							for _, rel := range []string{"quote.dat", "a.pem", "b.pem", "custom/root.pem", "intel/root.pem", "config.textproto", "config.pb"} {
								if b, err := os.ReadFile(filepath.Join(dir, rel)); err == nil {
									files[rel] = hex.EncodeToString(b)
								}
							}
							gen.Fail(t, gen.Violation{Key: fmt.Sprintf("root-of-trust-precedence:exit-%d-instead-of-%d", code, want), Oracle: "exit 0 only if the quote verifies under the EFFECTIVE root of trust: the flag, when given, replaces the config's bundle paths; inline bundles stay; nothing configured = embedded Intel root",
								Detail: fmt.Sprintf("%s: exit %d, want %d; stderr: %s", desc, code, want, lastLine(stderr)),
								Replay: map[string]any{"kind": "tool", "args": templArgs(c.args, dir), "desc": []string{desc}, "files": files, "stdin_hex": "", "allowed": []int{want}, "dir": dir}})
							return
						}
					}
				}
			}
		}
		gen.Exhaustive("3 config path settings x 3 inline settings x 9 flag settings x 2 config formats, quote under root A", true)
	})

	// One setting at a time: a quote that verifies (root A given by flag), no network, and exactly ONE policy setting —
	// a numeric minimum written in one of many spellings, or the config's MR_TD allow-list together with the -mr_td
	// flag — so that no other fault can hide how that one setting is read.
	// minimum_tee_tcb_svn, component by component: the quote's own value with exactly one of the sixteen components
	// raised by one is a minimum the quote misses (exit 4), whatever kind of TDX module the quote comes from
	// (TEE_TCB_SVN[1] = 0: before 1.5; > 0: the module's major version); the quote's own value is met (exit 0).
	gen.Direct(t, "minimum-tee-tcb-svn-components", func(t *testing.T) {
		dir := filepath.Join(base, "teetcb")
		_ = os.RemoveAll(dir)
		if err := os.MkdirAll(dir, 0o755); err != nil {
			gen.HarnessError(t, "mkdir: %v", err)
		}
		pA := gen.NewPKI(gen.PKISpec{Seed: "pki-A"})
		i := 0
		for _, major := range []byte{0, 1, 2} {
			s := gen.NewStream(gen.Seed()+uint64(major)+50, "c19tee")
			w := gen.NewWorld(pA, s)
			binary.LittleEndian.PutUint64(w.Q.Xfam[:], gen.XfamFixed1)
			binary.LittleEndian.PutUint64(w.Q.TdAttr[:], 0)
			for k := range w.Q.TeeTcbSvn {
				w.Q.TeeTcbSvn[k] = byte(1 + s.Intn(250))
			}
			w.Q.TeeTcbSvn[1] = major
			w.HonestCollateral()
			w.Build()
			quote, roots := filepath.Join(dir, fmt.Sprintf("quote%d.dat", major)), filepath.Join(dir, "roots.pem")
			if os.WriteFile(quote, w.Raw, 0o644) != nil || os.WriteFile(roots, pA.Root.PEM, 0o644) != nil {
				gen.HarnessError(t, "cannot write the case files")
			}
			for k := -1; k < 16; k++ {
				i++
				if !gen.ShardOwns(i) {
					continue
				}
				min := append([]byte{}, w.Q.TeeTcbSvn[:]...)
				want, what := 0, fmt.Sprintf("minimum_tee_tcb_svn equal to the quote's %x", min)
				if k >= 0 {
					min[k]++
					want, what = 4, fmt.Sprintf("minimum_tee_tcb_svn = the quote's %x with component %d raised by one", w.Q.TeeTcbSvn[:], k)
				}
				c := &c19Case{classes: map[int]string{}, netMode: "unreachable", desc: []string{what}}
				c.args = []string{"-inform=bin", "-in=" + quote, "-trusted_roots=" + roots, "-minimum_tee_tcb_svn=" + hex.EncodeToString(min)}
				gen.Eval()
				code, stderr, err := runTool(tool, c)
				if err != nil {
					gen.HarnessError(t, "cannot execute the tool: %v", err)
				}
				gen.NonTrivial("tee-tcb", major, k)
				gen.Class(fmt.Sprintf("minimum-tee-tcb-svn:exit%d", want))
				if code != want {
					files := map[string]string{filepath.Base(quote): hex.EncodeToString(w.Raw), "roots.pem": hex.EncodeToString(pA.Root.PEM)}
					gen.Fail(t, gen.Violation{Key: fmt.Sprintf("one-setting:exit-%d-instead-of-%d", code, want), Oracle: "exit 0 only if the effective policy is satisfied; a policy mismatch exits 4",
						Detail: fmt.Sprintf("%s: exit %d, want %d; stderr: %s", what, code, want, lastLine(stderr)), Replay: map[string]any{"kind": "tool", "args": templArgs(c.args, dir), "desc": c.desc, "files": files, "stdin_hex": "", "allowed": []int{want}, "dir": dir}})
					return
				}
			}
		}
		gen.Exhaustive("3 kinds of TDX module x (the quote's own TEE_TCB_SVN + each of its 16 components raised by one) as -minimum_tee_tcb_svn", true)
	})

	gen.Prop(t, "one-setting-at-a-time", gen.N(300, 8000), func(t *rapid.T) {
		n++
		dir := filepath.Join(base, fmt.Sprintf("one%d", n%8))
		_ = os.RemoveAll(dir)
		if err := os.MkdirAll(dir, 0o755); err != nil {
			gen.HarnessError(t, "mkdir: %v", err)
		}
		s := gen.NewStream(rapid.Uint64().Draw(t, "content"), "c19one")
		pA := gen.NewPKI(gen.PKISpec{Seed: "pki-A"})
		w := gen.NewWorld(pA, s)
		binary.LittleEndian.PutUint64(w.Q.Xfam[:], gen.XfamFixed1|(s.Uint64()&gen.XfamFixed0))
		binary.LittleEndian.PutUint64(w.Q.TdAttr[:], s.Uint64()&gen.TdAttrAllowed)
		for i := range w.Q.TeeTcbSvn {
			w.Q.TeeTcbSvn[i] = byte(1 + s.Intn(250))
		}
		w.Q.TeeTcbSvn[1] = byte(rapid.SampledFrom([]int{0, 0, 1, 3}).Draw(t, "tdxModuleMajor"))
		// header SVNs that leave room on both sides
		binary.LittleEndian.PutUint16(w.Q.Word10[:], uint16(1+s.Intn(60000)))
		binary.LittleEndian.PutUint16(w.Q.Word8[:], uint16(1+s.Intn(60000)))
		w.HonestCollateral()
		w.Build()
		wr := func(name string, b []byte) string {
			p := filepath.Join(dir, name)
			if err := os.WriteFile(p, b, 0o644); err != nil {
				gen.HarnessError(t, "write %s: %v", p, err)
			}
			return p
		}
		c := &c19Case{classes: map[int]string{}, netMode: "unreachable"}
		c.args = []string{"-inform=bin", "-in=" + wr("quote.dat", w.Raw), "-trusted_roots=" + wr("roots.pem", pA.Root.PEM)}
		want := 0
		what := ""
		settingKind := rapid.SampledFrom([]string{"numeric", "numeric", "allow-list", "allow-list", "tee-tcb-svn", "separate-argument", "roots-flag-naming-no-file", "retry-settings", "rtmrs-flag-over-config", "rtmrs-flag-over-config"}).Draw(t, "setting")
		if settingKind == "rtmrs-flag-over-config" {
			// the -rtmrs flag REPLACES the config's rtmrs list as a whole: an empty entry of the flag leaves its register
			// unchecked, whatever the config says about that register
			all := [][]byte{w.Q.Rtmr[0][:], w.Q.Rtmr[1][:], w.Q.Rtmr[2][:], w.Q.Rtmr[3][:]}
			k := rapid.IntRange(0, 3).Draw(t, "register")
			cfgList := [][]byte{append([]byte{}, all[0]...), append([]byte{}, all[1]...), append([]byte{}, all[2]...), append([]byte{}, all[3]...)}
			cfgWrongAtK := rapid.Bool().Draw(t, "configWrongAtRegister")
			if cfgWrongAtK {
				cfgList[k][s.Intn(48)] ^= byte(1 + s.Intn(255))
			}
			cfg := &ccpb.Config{Policy: &ccpb.Policy{HeaderPolicy: &ccpb.HeaderPolicy{}, TdQuoteBodyPolicy: &ccpb.TDQuoteBodyPolicy{Rtmrs: cfgList}}}
			if rapid.Bool().Draw(t, "text") {
				b, _ := prototext.Marshal(cfg)
				c.args = append(c.args, "-config="+wr("config.textproto", b))
			} else {
				b, _ := proto.Marshal(cfg)
				c.args = append(c.args, "-config="+wr("config.pb", b))
			}
			flagKind := rapid.SampledFrom([]string{"absent", "empty-at-register", "empty-at-register", "only-register", "wrong-at-another-register", "all-empty"}).Draw(t, "rtmrsFlag")
			parts := []string{hex.EncodeToString(all[0]), hex.EncodeToString(all[1]), hex.EncodeToString(all[2]), hex.EncodeToString(all[3])}
			switch flagKind {
			case "absent":
				if cfgWrongAtK {
					want = 4
				}
			case "empty-at-register":
				parts[k] = ""
				c.args = append(c.args, "-rtmrs="+strings.Join(parts, ","))
			case "only-register":
				for i := range parts {
					if i != k {
						parts[i] = ""
					}
				}
				c.args = append(c.args, "-rtmrs="+strings.Join(parts, ","))
			case "wrong-at-another-register":
				o := (k + 1 + s.Intn(3)) % 4
				wrong := append([]byte{}, all[o]...)
				wrong[s.Intn(48)] ^= 0x10
				parts[o], parts[k] = hex.EncodeToString(wrong), ""
				c.args = append(c.args, "-rtmrs="+strings.Join(parts, ","))
				want = 4
			case "all-empty":
				c.args = append(c.args, "-rtmrs=,,,")
			}
			what = fmt.Sprintf("config rtmrs (wrong at register %d: %v), -rtmrs flag %s", k, cfgWrongAtK, flagKind)
		} else if settingKind == "tee-tcb-svn" {
			// minimum_tee_tcb_svn is compared component by component, all sixteen of them, whatever kind of TDX module the
			// quote comes from: the quote's value with ONE component raised is missed, with one lowered is met
			k := rapid.IntRange(0, 15).Draw(t, "component")
			min := append([]byte{}, w.Q.TeeTcbSvn[:]...)
			how := rapid.SampledFrom([]string{"equal", "one-component-higher", "one-component-lower", "one-component-255", "all-zero"}).Draw(t, "minimum")
			switch how {
			case "one-component-higher":
				min[k]++
				want = 4
			case "one-component-lower":
				if min[k] > 0 {
					min[k]--
				}
			case "one-component-255":
				min[k] = 255
				want = 4
			case "all-zero":
				min = make([]byte, 16)
			}
			if rapid.Bool().Draw(t, "viaConfig") {
				cfg := &ccpb.Config{Policy: &ccpb.Policy{HeaderPolicy: &ccpb.HeaderPolicy{}, TdQuoteBodyPolicy: &ccpb.TDQuoteBodyPolicy{MinimumTeeTcbSvn: min}}}
				if rapid.Bool().Draw(t, "text") {
					b, _ := prototext.Marshal(cfg)
					c.args = append(c.args, "-config="+wr("config.textproto", b))
				} else {
					b, _ := proto.Marshal(cfg)
					c.args = append(c.args, "-config="+wr("config.pb", b))
				}
			} else {
				c.args = append(c.args, "-minimum_tee_tcb_svn="+hex.EncodeToString(min))
			}
			what = fmt.Sprintf("minimum_tee_tcb_svn %s (component %d), quote has %x", how, k, w.Q.TeeTcbSvn[:])
		} else if settingKind == "roots-flag-naming-no-file" {
			// -trusted_roots names no existing file (a plain name, or a name with characters that mean something to a shell
			// or a glob routine): the flag was given, so it is a malformed flag (exit 1) - never "as if not given", which
			// would leave the embedded Intel root, or the config's bundles, in force. The quote is one that WOULD verify
			// under what is silently used instead.
			name := rapid.SampledFrom([]string{"no-such-roots.pem", "*.crt", "roots/*.pem", "no-such-dir/*.pem", "root?.pem", "[ab].pem", "roots.pem*x", "$HOME-roots.pem", "~roots.pem"}).Draw(t, "name")
			args := []string{"-inform=bin"}
			if rapid.Bool().Draw(t, "intelSample") {
				args = append(args, "-in="+wr("quote.dat", testdata.RawQuote))
			} else {
				cfg := &ccpb.Config{RootOfTrust: &ccpb.RootOfTrust{CabundlePaths: []string{wr("config-roots.pem", pA.Root.PEM)}}, Policy: &ccpb.Policy{HeaderPolicy: &ccpb.HeaderPolicy{}, TdQuoteBodyPolicy: &ccpb.TDQuoteBodyPolicy{}}}
				b, _ := prototext.Marshal(cfg)
				args = append(args, "-in="+wr("quote.dat", w.Raw), "-config="+wr("config.textproto", b))
			}
			sepArg := rapid.Bool().Draw(t, "separate")
			if sepArg {
				args = append(args, "-trusted_roots", filepath.Join(dir, name))
			} else {
				args = append(args, "-trusted_roots="+filepath.Join(dir, name))
			}
			c.args = args
			want = 1
			what = "-trusted_roots naming no existing file: " + name
		} else if settingKind == "retry-settings" {
			// collateral wanted, the PCS unreachable: a download failure (exit 3) whatever the retry settings are - zero,
			// negative, tiny, larger than the timeout
			c.args = append(c.args, "-get_collateral=true", "-timeout="+rapid.SampledFrom([]string{"120ms", "300ms", "1ms", "0s"}).Draw(t, "timeout"),
				"-max_retry_delay="+rapid.SampledFrom([]string{"-1s", "-1ns", "-5m", "0s", "1ns", "10ms", "1h"}).Draw(t, "maxRetryDelay"))
			want = 3
			what = "collateral wanted with the PCS unreachable, retry settings " + strings.Join(c.args[len(c.args)-2:], " ")
		} else if settingKind == "separate-argument" {
			// "-flag value" is the other spelling package flag documents for every non-boolean flag, and all of the
			// tool's flags but -test_local_getter are such: the value is consumed and the flags behind it still count
			var args []string
			sep := func(name, val string) {
				if rapid.Bool().Draw(t, "separate-"+name) {
					args = append(args, "-"+name, val)
				} else {
					args = append(args, "-"+name+"="+val)
				}
			}
			args = append(args, "-inform", "bin", "-in", wr("quote.dat", w.Raw))
			switch rapid.SampledFrom([]string{"both-false", "collateral-false", "crl-false", "none"}).Draw(t, "switches") {
			case "both-false":
				args = append(args, "-get_collateral", "false", "-check_crl", "false")
			case "collateral-false":
				args = append(args, "-get_collateral", "false")
			case "crl-false":
				args = append(args, "-check_crl", "false")
			}
			sep("trusted_roots", wr("roots.pem", pA.Root.PEM))
			other := append([]byte{}, w.Q.MrTd[:]...)
			other[s.Intn(48)] ^= 0x20
			switch rapid.SampledFrom([]string{"none", "match", "mismatch", "malformed"}).Draw(t, "trailingFlag") {
			case "match":
				sep("mr_td", hex.EncodeToString(w.Q.MrTd[:]))
			case "mismatch":
				sep("mr_td", hex.EncodeToString(other))
				want = 4
			case "malformed":
				sep("mr_td", "zz")
				want = 1
			}
			c.args = args
			what = "flags with their value as a separate argument: " + strings.Join(relArgs(args, dir), " ")
		} else if settingKind == "numeric" {
			qe := rapid.Bool().Draw(t, "qe")
			name, actual := "minimum_pce_svn", uint64(svnOf(w.Q, false))
			if qe {
				name, actual = "minimum_qe_svn", uint64(svnOf(w.Q, true))
			}
			type sp struct {
				text string
				want int
			}
			spell := []sp{{"0", 0}, {fmt.Sprint(actual), 0}, {fmt.Sprintf("0x%x", actual), 0}, {fmt.Sprintf("0X%X", actual), 0}, {fmt.Sprintf("00%d", actual), 0}, {fmt.Sprintf("0b%b", actual), 0}, {fmt.Sprintf("0o%o", actual), 0},
				{fmt.Sprint(actual - 1), 0}, {fmt.Sprint(actual + 1), 4}, {fmt.Sprintf("0%d", actual+1), 4}, {fmt.Sprintf("000%d", actual+1), 4}, {fmt.Sprintf("0%d", actual), 0}, {"65535", 4}, {fmt.Sprintf("0x%x", actual+1), 4},
				{"65536", 1}, {"0x10000", 1}, {"70000", 1}, {"268435456", 1}, {"4026531843", 1}, {"4294967295", 1}, {"4294967296", 1}, {"0x100000000", 1}, {"8589934592", 1}, {fmt.Sprint(4294967296 + actual), 1}, {fmt.Sprint(uint64(1)<<48 + actual), 1},
				{"18446744073709551615", 1}, {"18446744073709551616", 1}, {"-1", 1}, {"+5", 1}, {" 5", 1}, {"5 ", 1}, {"1e3", 1}, {"12abc", 1}, {"0x", 1}, {"five", 1}, {"0x1_0", 1}, {"1.0", 1}}
			v := rapid.SampledFrom(spell).Draw(t, "spelling")
			if rapid.IntRange(0, 3).Draw(t, "viaConfig") == 0 && v.want != 1 || rapid.IntRange(0, 5).Draw(t, "wideViaConfig") == 0 && v.want == 1 {
				// the same number in a config file (only numbers a uint32 field can hold)
				if num, err := strconv.ParseUint(strings.TrimPrefix(strings.ToLower(v.text), "0x"), map[bool]int{true: 16, false: 10}[strings.HasPrefix(strings.ToLower(v.text), "0x")], 32); err == nil && !strings.HasPrefix(v.text, "00") && !strings.HasPrefix(v.text, "0b") && !strings.HasPrefix(v.text, "0o") {
					cfg := &ccpb.Config{Policy: &ccpb.Policy{HeaderPolicy: &ccpb.HeaderPolicy{}, TdQuoteBodyPolicy: &ccpb.TDQuoteBodyPolicy{}}}
					if qe {
						cfg.Policy.HeaderPolicy.MinimumQeSvn = uint32(num)
					} else {
						cfg.Policy.HeaderPolicy.MinimumPceSvn = uint32(num)
					}
					b, _ := prototext.Marshal(cfg)
					c.args = append(c.args, "-config="+wr("config.textproto", b))
					what = fmt.Sprintf("config %s: %d", name, num)
					want = map[bool]int{true: 1, false: map[bool]int{true: 4, false: 0}[num > actual]}[num > 65535]
				}
			}
			if what == "" {
				c.args = append(c.args, "-"+name+"="+v.text)
				what = fmt.Sprintf("-%s=%q (quote has %d)", name, v.text, actual)
				want = v.want
			}
		} else {
			other := func() []byte { b := append([]byte{}, w.Q.MrTd[:]...); b[s.Intn(48)] ^= byte(1 + s.Intn(255)); return b }
			listKind := rapid.SampledFrom([]string{"absent", "[actual]", "[other]", "[other,actual]", "[actual,other]", "[other,other]", "[wrong-length]", "nine-others", "nine-with-actual-last"}).Draw(t, "allowList")
			flagKind := rapid.SampledFrom([]string{"absent", "match", "mismatch"}).Draw(t, "mrTdFlag")
			cfg := &ccpb.Config{Policy: &ccpb.Policy{HeaderPolicy: &ccpb.HeaderPolicy{}, TdQuoteBodyPolicy: &ccpb.TDQuoteBodyPolicy{}}}
			inList, malformed := true, false
			switch listKind {
			case "[actual]":
				cfg.Policy.TdQuoteBodyPolicy.AnyMrTd = [][]byte{append([]byte{}, w.Q.MrTd[:]...)}
			case "[other]":
				cfg.Policy.TdQuoteBodyPolicy.AnyMrTd, inList = [][]byte{other()}, false
			case "[other,actual]":
				cfg.Policy.TdQuoteBodyPolicy.AnyMrTd = [][]byte{other(), append([]byte{}, w.Q.MrTd[:]...)}
			case "[actual,other]":
				cfg.Policy.TdQuoteBodyPolicy.AnyMrTd = [][]byte{append([]byte{}, w.Q.MrTd[:]...), other()}
			case "[other,other]":
				cfg.Policy.TdQuoteBodyPolicy.AnyMrTd, inList = [][]byte{other(), other()}, false
			case "[wrong-length]":
				cfg.Policy.TdQuoteBodyPolicy.AnyMrTd, malformed = [][]byte{w.Q.MrTd[:47]}, true
			case "nine-others", "nine-with-actual-last":
				for i := 0; i < 9; i++ {
					cfg.Policy.TdQuoteBodyPolicy.AnyMrTd = append(cfg.Policy.TdQuoteBodyPolicy.AnyMrTd, other())
				}
				inList = false
				if listKind == "nine-with-actual-last" {
					cfg.Policy.TdQuoteBodyPolicy.AnyMrTd[8], inList = append([]byte{}, w.Q.MrTd[:]...), true
				}
			}
			if listKind != "absent" {
				if rapid.Bool().Draw(t, "text") {
					b, _ := prototext.Marshal(cfg)
					c.args = append(c.args, "-config="+wr("config.textproto", b))
				} else {
					b, _ := proto.Marshal(cfg)
					c.args = append(c.args, "-config="+wr("config.pb", b))
				}
			}
			flagOK := true
			switch flagKind {
			case "match":
				c.args = append(c.args, "-mr_td="+hex.EncodeToString(w.Q.MrTd[:]))
			case "mismatch":
				c.args, flagOK = append(c.args, "-mr_td="+hex.EncodeToString(other())), false
			}
			if rapid.IntRange(0, 2).Draw(t, "verbose") == 0 {
				c.args = append(c.args, "-verbosity=2")
			}
			switch {
			case malformed:
				want = 1
			case !flagOK || !inList:
				want = 4
			}
			what = fmt.Sprintf("config any_mr_td %s, -mr_td flag %s", listKind, flagKind)
		}
		c.desc = []string{what}
		gen.Eval()
		code, stderr, err := runTool(tool, c)
		if err != nil {
			gen.HarnessError(t, "cannot execute the tool: %v", err)
		}
		files := map[string]string{}
		if ents, err := os.ReadDir(dir); err == nil {
			for _, e := range ents {
				if b, err := os.ReadFile(filepath.Join(dir, e.Name())); err == nil {
					files[e.Name()] = hex.EncodeToString(b)
				}
			}
		}
		rp := map[string]any{"kind": "tool", "args": templArgs(c.args, dir), "desc": c.desc, "files": files, "stdin_hex": "", "allowed": []int{want}, "dir": dir}
		detail := fmt.Sprintf("%s: exit %d, want %d; stderr: %s", what, code, want, lastLine(stderr))
		if strings.Contains(stderr, "panic:") || strings.Contains(stderr, "goroutine ") {
			gen.Fail(t, gen.Violation{Key: "tool-crash:" + crashSite(stderr), Oracle: "no input makes the tool crash", Detail: detail, Replay: rp})
			return
		}
		if code != want {
			gen.Fail(t, gen.Violation{Key: fmt.Sprintf("one-setting:exit-%d-instead-of-%d", code, want), Oracle: "exit 0 only if the effective policy is satisfied; a malformed flag or config exits 1; a policy mismatch exits 4", Detail: detail, Replay: rp})
			return
		}
		gen.Class(fmt.Sprintf("one-setting:exit%d", want))
		gen.NonTrivial("one-setting", what)
		gen.Sample("one-setting", map[string]any{"setting": what, "exit": code})
	})

	// Config decoding on its own: a quote that verifies and a config whose content (when it decodes) is satisfied,
	// so that the ONLY thing deciding between exit 0 and exit 1 is whether the config file is well-formed.
	gen.Prop(t, "config-decoding", gen.N(250, 8000), func(t *rapid.T) {
		n++
		dir := filepath.Join(base, fmt.Sprintf("cfg%d", n%8))
		_ = os.RemoveAll(dir)
		if err := os.MkdirAll(dir, 0o755); err != nil {
			gen.HarnessError(t, "mkdir: %v", err)
		}
		s := gen.NewStream(rapid.Uint64().Draw(t, "content"), "c19cfg")
		pA := gen.NewPKI(gen.PKISpec{Seed: "pki-A"})
		w := gen.NewWorld(pA, s)
		binary.LittleEndian.PutUint64(w.Q.Xfam[:], gen.XfamFixed1|(s.Uint64()&gen.XfamFixed0))
		binary.LittleEndian.PutUint64(w.Q.TdAttr[:], s.Uint64()&gen.TdAttrAllowed)
		w.Q.TeeTcbSvn[1] = 0
		w.HonestCollateral()
		w.Build()
		wr := func(name string, b []byte) string {
			p := filepath.Join(dir, name)
			if err := os.WriteFile(p, b, 0o644); err != nil {
				gen.HarnessError(t, "write %s: %v", p, err)
			}
			return p
		}
		cfg := &ccpb.Config{}
		if rapid.Bool().Draw(t, "rot") {
			cfg.RootOfTrust = &ccpb.RootOfTrust{Cabundles: []string{string(pA.Root.PEM)}}
		}
		if rapid.Bool().Draw(t, "policy") {
			cfg.Policy = &ccpb.Policy{HeaderPolicy: &ccpb.HeaderPolicy{QeVendorId: append([]byte{}, w.Q.VendorID[:]...)}, TdQuoteBodyPolicy: &ccpb.TDQuoteBodyPolicy{MrTd: append([]byte{}, w.Q.MrTd[:]...)}}
		}
		c := &c19Case{classes: map[int]string{}, netMode: "unreachable"}
		c.args = []string{"-inform=bin", "-in=" + wr("quote.dat", w.Raw)}
		if cfg.RootOfTrust == nil {
			c.args = append(c.args, "-trusted_roots="+wr("roots.pem", pA.Root.PEM))
		}
		text, _ := prototext.Marshal(cfg)
		bin, _ := proto.Marshal(cfg)
		unknownText := []string{"no_such_field: 1\n", "rootoftrust { }\n", "Policy { }\n", "policy_v2 { header_policy { } }\n"}
		if cfg.RootOfTrust == nil {
			unknownText = append(unknownText, "root_of_trust { cabundle_path: \"/nonexistent.pem\" }\n", "root_of_trust { check_crls: false }\n")
		}
		if cfg.Policy == nil {
			unknownText = append(unknownText, "policy { mr_td: \"00\" }\n", "policy { td_quote_body_policy { mrtd: \"00\" } }\n", "policy { header_policy { min_qe_svn: 0 } }\n")
		}
		kind := rapid.SampledFrom([]string{"text", "binary", "text-unknown-field", "text-unknown-field", "text-unterminated", "text-wrong-type", "binary-truncated", "missing", "empty-text", "empty-binary"}).Draw(t, "configKind")
		malformed := true
		switch kind {
		case "text":
			c.args, malformed = append(c.args, "-config="+wr("config.textproto", text)), false
		case "binary":
			c.args, malformed = append(c.args, "-config="+wr("config.pb", bin)), false
		case "empty-text":
			c.args, malformed = append(c.args, "-config="+wr("config.textproto", []byte{})), false
			if cfg.RootOfTrust != nil {
				// the empty config configures no root and no flag does either: the quote's root is then not trusted (exit 2, not a decoding matter)
				c.fault(clsVerify, "empty config: no root of trust")
			}
		case "empty-binary":
			c.args, malformed = append(c.args, "-config="+wr("config.pb", []byte{})), false
			if cfg.RootOfTrust != nil {
				c.fault(clsVerify, "empty config: no root of trust")
			}
		case "text-unknown-field":
			extra := rapid.SampledFrom(unknownText).Draw(t, "unknown")
			b := append(append(append([]byte{}, text...), '\n'), extra...)
			if rapid.Bool().Draw(t, "first") {
				b = append([]byte(extra), text...)
			}
			c.args = append(c.args, "-config="+wr("config.textproto", b))
			c.desc = append(c.desc, "unknown:"+strings.TrimSpace(extra))
		case "text-unterminated":
			c.args = append(c.args, "-config="+wr("config.textproto", append(append([]byte{}, text...), "\npolicy { header_policy { "...)))
		case "text-wrong-type":
			c.args = append(c.args, "-config="+wr("config.textproto", append(append([]byte{}, text...), "\nroot_of_trust: 7\n"...)))
		case "binary-truncated":
			b := append(append([]byte{}, bin...), 0x0a, 0x20, 0x01) // a length-delimited field announcing 32 bytes, 1 present
			c.args = append(c.args, "-config="+wr("config.pb", b))
		case "missing":
			c.args = append(c.args, "-config="+filepath.Join(dir, "no-such-config.textproto"))
		}
		if malformed {
			c.fault(clsUsage, "config "+kind)
		}
		c.desc = append(c.desc, "config-decoding:"+kind)
		gen.Eval()
		code, stderr, err := runTool(tool, c)
		if err != nil {
			gen.HarnessError(t, "cannot execute the tool: %v", err)
		}
		allowed := c.allowed()
		var al []int
		for k := range allowed {
			al = append(al, k)
		}
		files := map[string]string{}
		if ents, err := os.ReadDir(dir); err == nil {
			for _, e := range ents {
				if b, err := os.ReadFile(filepath.Join(dir, e.Name())); err == nil {
					files[e.Name()] = hex.EncodeToString(b)
				}
			}
		}
		rp := map[string]any{"kind": "tool", "args": templArgs(c.args, dir), "desc": c.desc, "files": files, "stdin_hex": "", "allowed": al, "dir": dir}
		detail := fmt.Sprintf("args=%v case=%v: exit %d, allowed %v; stderr: %s", relArgs(c.args, dir), c.desc, code, al, lastLine(stderr))
		if strings.Contains(stderr, "panic:") || strings.Contains(stderr, "goroutine ") {
			gen.Fail(t, gen.Violation{Key: "tool-crash:" + crashSite(stderr), Oracle: "no input makes the tool crash", Detail: detail, Replay: rp})
			return
		}
		if !allowed[code] {
			key := fmt.Sprintf("config-decoding:%s:exit-%d-instead-of-%v", kind, code, al)
			gen.Fail(t, gen.Violation{Key: key, Oracle: "a malformed config exits 1; a well-formed, satisfied one exits 0", Detail: detail, Replay: rp})
			return
		}
		gen.Class("config-decoding:" + kind)
		gen.NonTrivial("config-decoding", kind, strings.Join(c.desc, ";"), cfg.RootOfTrust != nil, cfg.Policy != nil)
		gen.Sample("config-decoding", map[string]any{"config": kind, "exit": code})
	})

	// Library-level companion: fetch failures are reported as distinguishable error types.
	gen.Direct(t, "typed-fetch-errors", func(t *testing.T) {
		for i, f := range gen.Faults {
			if !strings.HasSuffix(f.Name, "endpoint-down") {
				continue
			}
			w := gen.NewWorld(gen.NewPKI(gen.PKISpec{Seed: "pki-A"}), gen.NewStream(uint64(i), "c19lib"))
			f.ApplyPre(w)
			w.Build()
			f.ApplyPost(w)
			o := w.Options(gen.LvlCRL, w.NewGetter(), nil)
			gen.Eval()
			v := gen.Call(func() error { return verify.RawTdxQuote(w.Raw, o) })
			var are *trust.AttestationRecreationErr
			var cue verify.CRLUnavailableErr
			if v.Err == nil || !(errors.As(v.Err, &are) || errors.As(v.Err, &cue)) {
				gen.Fail(t, gen.Violation{Key: "fetch-error-not-typed:" + f.Name, Oracle: "the library reports download failures as distinguishable error types", Detail: fmt.Sprintf("%s: error %v does not carry *trust.AttestationRecreationErr or verify.CRLUnavailableErr", f.Name, v.Err), Replay: map[string]any{"kind": "typed-error", "fault": f.Name}})
				return
			}
			gen.NonTrivial("typed", f.Name)
		}
	})
}

func templArgs(args []string, dir string) []string {
	out := make([]string, len(args))
	for i, a := range args {
		out[i] = strings.ReplaceAll(a, dir+"/", "{dir}/")
	}
	return out
}

func init() {
	replayKinds["tool"] = func(c map[string]any) string {
		tool := os.Getenv("VERIF_CHECK_TOOL")
		if tool == "" {
			return "VERIF_CHECK_TOOL not set"
		}
		// config files carry absolute bundle paths: recreate the case directory where it was
		dir, _ := c["dir"].(string)
		if dir == "" || !strings.Contains(dir, "c19work") {
			return "replay file has no case directory"
		}
		// (the directory is named in the file: two processes replaying the same file at the same time take turns)
		_ = os.MkdirAll(filepath.Join(gen.VerifDir(), ".build"), 0o755)
		if lk, err := os.OpenFile(filepath.Join(gen.VerifDir(), ".build", "c19replay.lock"), os.O_CREATE|os.O_RDWR, 0o644); err == nil {
			if syscall.Flock(int(lk.Fd()), syscall.LOCK_EX) == nil {
				defer syscall.Flock(int(lk.Fd()), syscall.LOCK_UN)
			}
			defer lk.Close()
		}
		if err := os.MkdirAll(dir, 0o755); err != nil {
			return err.Error()
		}
		defer os.RemoveAll(dir)
		for name, hx := range c["files"].(map[string]any) {
			b, _ := hex.DecodeString(hx.(string))
			_ = os.MkdirAll(filepath.Dir(filepath.Join(dir, name)), 0o755)
			_ = os.WriteFile(filepath.Join(dir, name), b, 0o644)
		}
		cs := &c19Case{}
		for _, a := range c["args"].([]any) {
			cs.args = append(cs.args, strings.ReplaceAll(a.(string), "{dir}/", dir+"/"))
		}
		cs.stdin, _ = hex.DecodeString(c["stdin_hex"].(string))
		cs.tz, _ = c["tz"].(string)
		if nn, _ := c["near_now"].(bool); nn {
			if made, _ := c["made_at"].(float64); time.Since(time.Unix(int64(made), 0)) > 30*time.Minute {
				fmt.Println("replay: the case holds a certificate window relative to the time it was generated at; too old to be judged again")
				return ""
			}
		}
		code, stderr, err := runTool(tool, cs)
		if err != nil {
			return err.Error()
		}
		if strings.Contains(stderr, "panic:") || strings.Contains(stderr, "SIGSEGV") {
			return "tool crashed: " + lastLine(stderr)
		}
		for _, a := range c["allowed"].([]any) {
			if int(a.(float64)) == code {
				return ""
			}
		}
		return fmt.Sprintf("exit %d, allowed %v: %s", code, c["allowed"], lastLine(stderr))
	}
	replayKinds["typed-error"] = func(c map[string]any) string {
		for i, f := range gen.Faults {
			if f.Name != c["fault"] {
				continue
			}
			w := gen.NewWorld(gen.NewPKI(gen.PKISpec{Seed: "pki-A"}), gen.NewStream(uint64(i), "c19lib"))
			f.ApplyPre(w)
			w.Build()
			f.ApplyPost(w)
			o := w.Options(gen.LvlCRL, w.NewGetter(), nil)
			v := gen.Call(func() error { return verify.RawTdxQuote(w.Raw, o) })
			var are *trust.AttestationRecreationErr
			var cue verify.CRLUnavailableErr
			if v.Err == nil || !(errors.As(v.Err, &are) || errors.As(v.Err, &cue)) {
				return fmt.Sprintf("error %v is not typed", v.Err)
			}
		}
		return ""
	}
}

func relArgs(args []string, dir string) []string {
	out := make([]string, len(args))
	for i, a := range args {
		out[i] = strings.ReplaceAll(a, dir+"/", "")
		if len(out[i]) > 70 {
			out[i] = out[i][:70] + "…"
		}
	}
	return out
}

func lastLine(s string) string {
	lines := strings.Split(strings.TrimSpace(s), "\n")
	for i := len(lines) - 1; i >= 0; i-- {
		if strings.Contains(lines[i], "FATAL") || strings.Contains(lines[i], "panic") {
			return lines[i]
		}
	}
	if len(lines) > 0 {
		l := lines[len(lines)-1]
		if len(l) > 200 {
			l = l[:200]
		}
		return l
	}
	return ""
}

func crashSite(stderr string) string {
	for _, l := range strings.Split(stderr, "\n") {
		l = strings.TrimSpace(l)
		if strings.HasPrefix(l, "main.") || strings.HasPrefix(l, "github.com/google/go-tdx-guest/") {
			return strings.Split(strings.TrimPrefix(l, "github.com/google/go-tdx-guest/"), "(")[0]
		}
	}
	return "unknown"
}
