package props

import (
	"bytes"
	"encoding/binary"
	"encoding/hex"
	"encoding/json"
	"fmt"
	"runtime"
	"strconv"
	"strings"
	"testing"

	"github.com/google/go-tdx-guest/verify"
	"pgregory.net/rapid"
	"verifharness/gen"
)

func c07Run(t gen.TB, w *gen.World, desc string) {
	w.SignQuote()
	w.Resp[gen.QeIdentityURL] = w.QeIDResponse()
	m := gen.QeModel(w)
	o := w.Options(gen.LvlColl, w.NewGetter(), nil)
	pk := prehistoryKind(w.Raw)
	if ph := optionsPrehistory(w.Raw, o, pk, w.NewGetter()); ph != "" {
		desc += " [" + ph + "]"
		gen.Class("options-value-used-before")
	}
	gen.Eval()
	v := gen.Call(func() error { return verify.RawTdxQuote(w.Raw, o) })
	rp := w.CaseFile(gen.LvlColl, nil, nil, nil, map[bool]string{true: "accept", false: "reject"}[m.Accept])
	rp["prehistory"] = pk
	if v.Panicked() {
		gen.Fail(t, gen.Violation{Key: "panic@" + gen.PanicSite(v.Stack), Oracle: "verification returns a verdict", Detail: desc + ": " + v.Panic, Replay: rp})
		return
	}
	if v.Accepted() && !m.Accept {
		gen.Fail(t, gen.Violation{Key: "accepts-bad-qe:" + keyClass(m.Reason), Oracle: "accepted only if the QE report matches the QE identity under its masks and the selected QE level is UpToDate", Detail: fmt.Sprintf("%s: model rejects (%s)", desc, m.Reason), Replay: rp})
		return
	}
	if !v.Accepted() && m.Accept {
		gen.Fail(t, gen.Violation{Key: "rejects-good-qe:" + errClass(v.Err), Oracle: "a QE that matches the identity with an UpToDate level is accepted", Detail: fmt.Sprintf("%s: %s", desc, v), Replay: rp})
		return
	}
	gen.Class("model:" + map[bool]string{true: "accept", false: "reject:" + keyClass(m.Reason)}[m.Accept])
	nt := m.Level > 0
	for _, b := range append(append([]byte{}, w.QeID.MiscselectMask...), w.QeID.AttributesMask...) {
		if b != 0xff {
			nt = true
		}
	}
	if m.Level >= 0 && w.QeID.Levels[m.Level].Status != "UpToDate" && w.QeID.Levels[m.Level].Status != "OutOfDate" {
		nt = true
	}
	if nt {
		gen.NonTrivial(w.QeID.Render(), w.Q.QeReportBytes()[:260])
	}
}

// c07WideLevels: QE levels whose isvsvn does not fit a signed 32-bit number (it is a uint32 in the document), listed
// first with UpToDate; the level the report really reaches is OutOfDate. Run on this build and, as the companion
// TestC07WordSize, on a 32-bit build, where int has 32 bits.
func c07WideLevels(t *testing.T) {
	for i, sv := range []uint32{1 << 31, 1<<31 + 1, 3 << 30, 1<<32 - 1, 1<<31 - 1} {
		for _, rep := range []uint16{0, 5, 65535} {
			w := gen.NewWorld(gen.NewPKI(gen.PKISpec{Seed: gen.PKISeeds[i%len(gen.PKISeeds)]}), gen.NewStream(gen.Seed()+uint64(i), "c07wide"))
			w.Q.QeIsvSvn = rep
			w.HonestCollateral()
			w.QeID.Levels = []gen.QeLevel{{Isvsvn: sv, Status: "UpToDate"}, {Isvsvn: 0, Status: "OutOfDate"}}
			w.Build()
			c07Run(t, w, fmt.Sprintf("levels [{isvsvn %d UpToDate} {isvsvn 0 OutOfDate}], report ISVSVN %d (GOARCH %s)", sv, rep, runtime.GOARCH))
		}
	}
	gen.Class("qe-levels-above-int32")
}

// c07AliasedMessage: a quote MESSAGE made by a non-copying reader - its attestation key and the QE report's MRSIGNER are
// slices of one buffer holding the raw quote, in quote order - whose QE report (genuinely PCK-signed) names a foreign
// MRSIGNER. Its QE authentication data mirrors the bytes that follow the key in the buffer, with the identity's MRSIGNER
// where the report's stands: a verifier that ever writes "key || authentication data" into the key's spare capacity
// rewrites the report it is about to compare. The report does not match the identity: rejected.
func c07AliasedMessage(t *testing.T) {
	for i, seed := range gen.PKISeeds {
		if !gen.ShardOwns(i) {
			continue
		}
		w := gen.NewWorld(gen.NewPKI(gen.PKISpec{Seed: seed}), gen.NewStream(gen.Seed()+uint64(i), "c07alias"))
		w.HonestCollateral()
		for k := range w.Q.QeMrSigner {
			w.Q.QeMrSigner[k] = 0xaa // a foreign quoting enclave
		}
		keyEnd := 48 + 584 + 4 + 64 + 64
		w.Q.Auth = make([]byte, 6+128+32)
		w.Build()
		raw0 := w.Q.Encode()
		auth := append([]byte{}, raw0[keyEnd:keyEnd+6+128]...)
		auth = append(auth, w.QeID.Mrsigner...)
		w.Q.Auth = auth
		w.Build()
		raw := w.Q.Encode()
		if !bytes.Equal(raw[keyEnd:keyEnd+6+128], auth[:6+128]) {
			gen.HarnessError(t, "the bytes behind the key changed with the authentication data")
		}
		m := w.Q.ToProto()
		buf := append(make([]byte, 0, len(raw)+64), raw...)
		qer := keyEnd + 6
		m.SignedData.EcdsaAttestationKey = buf[keyEnd-64 : keyEnd]
		rep := m.SignedData.CertificationData.QeReportCertificationData.QeReport
		rep.MrSigner = buf[qer+128 : qer+160]
		rep.Attributes = buf[qer+48 : qer+64]
		for _, l := range []gen.Level{gen.LvlColl, gen.LvlCRL} {
			o := w.Options(l, w.NewGetter(), nil)
			gen.Eval()
			v := gen.Call(func() error { return verify.TdxQuote(m, o) })
			if v.Panicked() || v.Accepted() {
				gen.Fail(t, gen.Violation{Key: "accepts-bad-qe:foreign-mrsigner-in-a-message-that-shares-one-buffer", Oracle: "accepted only if the QE report matches the QE identity under its masks and the selected QE level is UpToDate", Detail: fmt.Sprintf("pki=%s level=%s: QE report with MRSIGNER aa..aa, message fields are slices of one buffer, authentication data of %d bytes mirroring the bytes behind the key with the identity's MRSIGNER: %s", seed, l, len(auth), v), Replay: w.CaseFile(l, raw, nil, nil, "reject")})
				return
			}
			if !bytes.Equal(buf[:len(raw)], raw) {
				gen.Fail(t, gen.Violation{Key: "accepts-bad-qe:message-buffer-rewritten", Oracle: "accepted only if the QE report matches the QE identity (the report that was signed, not one rewritten during verification)", Detail: fmt.Sprintf("pki=%s level=%s: the buffer the message's fields point into was changed by verification", seed, l), Replay: w.CaseFile(l, raw, nil, nil, "reject")})
				return
			}
			gen.NonTrivial("c07alias", seed, int(l))
		}
	}
	gen.Class("message-sharing-one-buffer")
}

// TestC07WordSize is the companion built for a 32-bit target.
func TestC07WordSize(t *testing.T) {
	gen.Direct(t, "qe-levels-above-int32", c07WideLevels)
}

func TestC07(t *testing.T) {
	replayDir(t, "C07")
	gen.Direct(t, "qe-levels-above-int32", c07WideLevels)
	gen.Direct(t, "message-sharing-one-buffer", c07AliasedMessage)
	gen.Direct(t, "message-field-width", c07MessageWidth)
	gen.Prop(t, "signed-identity-omits-what-an-unsigned-twin-supplies", gen.N(600, 40000), c07Omitted)
	gen.Direct(t, "status-spellings", func(t *testing.T) {
		for i, sp := range statusNearMisses {
			if !gen.ShardOwns(i) {
				continue
			}
			w := gen.NewWorld(gen.NewPKI(gen.PKISpec{Seed: gen.PKISeeds[i%len(gen.PKISeeds)]}), gen.NewStream(gen.Seed()+uint64(i), "c07status"))
			w.HonestCollateral()
			for k := range w.QeID.Levels {
				w.QeID.Levels[k].Status = sp
			}
			w.Build()
			o := w.Options(gen.LvlColl, w.NewGetter(), nil)
			gen.Eval()
			v := gen.Call(func() error { return verify.RawTdxQuote(w.Raw, o) })
			if v.Panicked() || v.Accepted() {
				gen.Fail(t, gen.Violation{Key: "accepts-bad-qe:status-near-miss", Oracle: "accepted only if the QE report matches the QE identity under its masks and the selected QE level is UpToDate", Detail: fmt.Sprintf("every QE level carries tcbStatus %q: %s", sp, v), Replay: w.CaseFile(gen.LvlColl, nil, nil, nil, "reject")})
				return
			}
			gen.NonTrivial("c07status", sp)
		}
		gen.Class("status-spellings")
	})
	gen.Prop(t, "model", gen.N(5000, 300000), func(t *rapid.T) {
		w, _ := gen.DrawWorld(t, gen.WorldCfg{MaxAuth: 16, Simple: true, NoModule: true})
		s := gen.NewStream(rapid.Uint64().Draw(t, "c"), "c07")
		w.BuildLeaf()
		w.BuildCollateral()
		q, d := w.Q, &w.QeID
		// masks of any content; identity values consistent with the report under the mask
		d.MiscselectMask = gen.DrawMask(t, s, 4, "miscMask")
		d.AttributesMask = gen.DrawMask(t, s, 16, "attrMask")
		var ms [4]byte
		binary.LittleEndian.PutUint32(ms[:], q.QeMiscSelect)
		d.Miscselect = and(ms[:], d.MiscselectMask)
		d.Attributes = and(q.QeAttributes[:], d.AttributesMask)
		// level list
		n := rapid.IntRange(0, 4).Draw(t, "levels")
		d.Levels = nil
		for i := 0; i < n; i++ {
			isv := rapid.SampledFrom([]int64{int64(q.QeIsvSvn) - 1, int64(q.QeIsvSvn), int64(q.QeIsvSvn) + 1, 0, 65535, int64(q.QeIsvSvn) + 2}).Draw(t, "isv")
			if isv < 0 {
				isv = 0
			}
			d.Levels = append(d.Levels, gen.QeLevel{Date: gen.LevelDates[s.Intn(len(gen.LevelDates))], Isvsvn: uint32(isv), Status: rapid.SampledFrom([]string{"UpToDate", "UpToDate", "UpToDate", "SWHardeningNeeded", "ConfigurationNeeded", "ConfigurationAndSWHardeningNeeded", "OutOfDate", "OutOfDateConfigurationNeeded", "Revoked"}).Draw(t, "status")})
		}
		pert := rapid.SampledFrom([]string{"none", "none", "report-misc-bit", "report-attr-bit", "id-misc-bit", "id-attr-bit", "mask-misc-bit", "mask-attr-bit", "mrsigner-bit", "report-mrsigner-bit", "prodid", "report-prodid",
			"misc-3", "misc-5", "miscmask-3", "miscmask-5", "attr-15", "attr-17", "attrmask-15", "attrmask-17", "mrsigner-31", "mrsigner-33", "upper-hex", "report-isvsvn", "mrsigner-prodid-boundary-shift", "mrsigner-prodid-boundary-shift", "number-out-of-range", "number-out-of-range", "report-attr-words-cancel", "report-attr-words-cancel", "attributes-and-mask-both-short", "attributes-and-mask-both-short", "miscselect-and-mask-both-short", "many-levels", "many-levels"}).Draw(t, "perturb")
		switch pert {
		case "report-misc-bit":
			q.QeMiscSelect ^= 1 << uint(rapid.IntRange(0, 31).Draw(t, "bit"))
		case "report-attr-bit":
			bit := rapid.IntRange(0, 127).Draw(t, "bit")
			q.QeAttributes[bit/8] ^= 1 << uint(bit%8)
		case "id-misc-bit":
			bit := rapid.IntRange(0, 31).Draw(t, "bit")
			d.Miscselect[bit/8] ^= 1 << uint(bit%8)
		case "id-attr-bit":
			bit := rapid.IntRange(0, 127).Draw(t, "bit")
			d.Attributes[bit/8] ^= 1 << uint(bit%8)
		case "mask-misc-bit":
			bit := rapid.IntRange(0, 31).Draw(t, "bit")
			d.MiscselectMask[bit/8] ^= 1 << uint(bit%8)
		case "mask-attr-bit":
			bit := rapid.IntRange(0, 127).Draw(t, "bit")
			d.AttributesMask[bit/8] ^= 1 << uint(bit%8)
		case "mrsigner-bit":
			bit := rapid.IntRange(0, 255).Draw(t, "bit")
			d.Mrsigner[bit/8] ^= 1 << uint(bit%8)
		case "report-mrsigner-bit":
			bit := rapid.IntRange(0, 255).Draw(t, "bit")
			q.QeMrSigner[bit/8] ^= 1 << uint(bit%8)
		case "prodid":
			d.IsvProdID ^= 1 << uint(rapid.IntRange(0, 15).Draw(t, "bit"))
		case "report-prodid":
			q.QeIsvProdID ^= 1 << uint(rapid.IntRange(0, 15).Draw(t, "bit"))
		case "misc-3":
			d.Miscselect = d.Miscselect[:3]
		case "misc-5":
			d.Miscselect = append(d.Miscselect, longTail(t, s)...)
		case "miscmask-3":
			d.MiscselectMask = d.MiscselectMask[:3]
		case "miscmask-5":
			d.MiscselectMask = append(d.MiscselectMask, longTail(t, s)...)
		case "attr-15":
			d.Attributes = d.Attributes[:15]
		case "attr-17":
			d.Attributes = append(d.Attributes, longTail(t, s)...)
		case "attrmask-15":
			d.AttributesMask = d.AttributesMask[:15]
		case "attrmask-17":
			d.AttributesMask = append(d.AttributesMask, longTail(t, s)...)
		case "mrsigner-31":
			d.Mrsigner = d.Mrsigner[:31]
		case "mrsigner-33":
			d.Mrsigner = append(d.Mrsigner, longTail(t, s)...)
		case "mrsigner-prodid-boundary-shift":
			// neither field equal, but "mrsigner followed by isvprodid" written without a separator reads the same: the
			// identity's mrsigner lacks the report's last one or two bytes (decimal-looking in hex), and its isvprodid is
			// those hex digits followed by the report's ISVPRODID, read as one decimal number
			n := rapid.IntRange(1, 2).Draw(t, "shiftBytes")
			tail := []byte{0x12, 0x34}[:n]
			if n == 1 {
				tail = []byte{byte(rapid.SampledFrom([]int{0x12, 0x01, 0x99, 0x10}).Draw(t, "tailByte"))}
			}
			copy(q.QeMrSigner[32-n:], tail)
			q.QeIsvProdID = uint16(rapid.IntRange(0, 9).Draw(t, "reportProdID"))
			d.Mrsigner = append([]byte{}, q.QeMrSigner[:32-n]...)
			v, _ := strconv.Atoi(fmt.Sprintf("%x%d", tail, q.QeIsvProdID))
			if v > 65535 {
				v %= 65536 // (then the two renderings differ anyway)
			}
			d.IsvProdID = uint16(v)
		case "number-out-of-range":
			// a number the field cannot hold (or not a number at all) in the SIGNED identity: it must not quietly read as 0
			// or as its low bits
			bad := rapid.SampledFrom([]string{"65536", "4294967296", "-1", "1.5", "\"7\"", "1e20", "18446744073709551616", "true", "null", "[]"}).Draw(t, "badNumber")
			if rapid.Bool().Draw(t, "inProdID") || len(d.Levels) == 0 {
				if bad == "65536" || bad == "4294967296" || bad == "18446744073709551616" {
					q.QeIsvProdID = 0 // the low 16 bits of the out-of-range number
				}
				d.RawIsvProdID = bad
				if bad == "null" {
					d.RawIsvProdID = "65537"
				}
			} else {
				// put in front a level that no report reaches when read properly but every report reaches when read as 0
				lv := gen.QeLevel{Status: "UpToDate", RawSvn: bad}
				if bad == "65536" || bad == "null" || bad == "true" || bad == "[]" || bad == "\"7\"" || bad == "1.5" || bad == "-1" {
					lv.RawSvn = "4294967296"
				}
				d.Levels = append([]gen.QeLevel{lv}, d.Levels...)
				for i := 1; i < len(d.Levels); i++ {
					if d.Levels[i].Status == "UpToDate" {
						d.Levels[i].Status = "OutOfDate"
					}
				}
			}
		case "report-attr-words-cancel":
			// the report's ATTRIBUTES differ from the identity's in two 1/2/4/8-byte words whose differences cancel under
			// addition (x and -x) or are equal (x and x): a comparison that folds the words would not see it
			for i := range d.AttributesMask {
				d.AttributesMask[i] = 0xff
			}
			d.Attributes = append([]byte{}, q.QeAttributes[:]...)
			width := []int{1, 2, 4, 8}[s.Intn(4)]
			n := 16 / width
			i := s.Intn(n)
			j := (i + 1 + s.Intn(n-1)) % n
			x := s.Bytes(width)
			x[s.Intn(width)] |= 0x02
			y := append([]byte{}, x...)
			if s.Intn(2) == 0 {
				be := s.Intn(2) == 0
				carry := 1
				for k := 0; k < width; k++ {
					idx := k
					if be {
						idx = width - 1 - k
					}
					v := int(^x[idx]) + carry
					y[idx] = byte(v)
					carry = v >> 8
				}
			}
			for k := 0; k < width; k++ {
				q.QeAttributes[i*width+k] ^= x[k]
				q.QeAttributes[j*width+k] ^= y[k]
			}
		case "attributes-and-mask-both-short":
			// identity attributes and mask of the SAME length N < 16, agreeing with the report on those N bytes, while the
			// report differs from what a full-length identity would ask for behind them: 16 bytes or nothing
			n := rapid.SampledFrom([]int{0, 1, 8, 15}).Draw(t, "n")
			d.Attributes, d.AttributesMask = d.Attributes[:n], d.AttributesMask[:n]
		case "miscselect-and-mask-both-short":
			n := rapid.SampledFrom([]int{0, 1, 3}).Draw(t, "n")
			d.Miscselect, d.MiscselectMask = d.Miscselect[:n], d.MiscselectMask[:n]
		case "many-levels":
			// 255 .. 600 levels the report does not reach in front of the first one it reaches (or of none)
			n := rapid.SampledFrom([]int{255, 256, 257, 300, 511, 512, 600}).Draw(t, "leading")
			if q.QeIsvSvn > 60000 {
				q.QeIsvSvn = 7
			}
			tail := d.Levels
			d.Levels = nil
			for i := 0; i < n; i++ {
				st := "UpToDate"
				if i > 0 && i != n%256 && s.Intn(3) == 0 {
					st = "OutOfDate"
				}
				d.Levels = append(d.Levels, gen.QeLevel{Isvsvn: uint32(q.QeIsvSvn) + 1 + uint32(n-i), Status: st})
			}
			if rapid.Bool().Draw(t, "noneReached") {
				tail = nil
			}
			for i := range tail {
				if tail[i].Isvsvn > uint32(q.QeIsvSvn) {
					tail[i].Isvsvn = uint32(q.QeIsvSvn)
				}
			}
			d.Levels = append(d.Levels, tail...)
		case "upper-hex":
			d.UpperHex = true
		case "report-isvsvn":
			q.QeIsvSvn = uint16(rapid.SampledFrom([]int{0, 1, 65535, int(q.QeIsvSvn) + 1, int(q.QeIsvSvn) - 1}).Draw(t, "isvsvn"))
		}
		gen.Class("perturb:" + pert)
		gen.Sample("qe", map[string]any{"perturb": pert, "levels": fmt.Sprint(d.Levels), "report_isvsvn": q.QeIsvSvn})
		c07Run(t, w, pert)
	})
}

// c07Omitted: the SIGNED identity lacks a value the comparison needs (a top-level field, or the status of a level)
// while an unsigned, differently spelled sibling member carries a complete, matching identity. "The QE identity"
// is the signed one: with the value missing the report cannot match / no level can be UpToDate, so the quote
// must be rejected.
func c07Omitted(t *rapid.T) { c07OmittedMember(t, "") }

// c07OmittedMember: forced != "" fixes the omitted member (used by C06 for the end date).
func c07OmittedMember(t *rapid.T, forced string) {
	w, _ := gen.DrawWorld(t, gen.WorldCfg{MaxAuth: 16, Simple: true, NoModule: true})
	w.Build()
	full := w.QeID.Render()
	var m map[string]any
	dec := json.NewDecoder(bytes.NewReader(full))
	dec.UseNumber()
	if err := dec.Decode(&m); err != nil {
		gen.HarnessError(t, "own identity does not decode: %v", err)
	}
	drop := rapid.SampledFrom([]string{"mrsigner", "isvprodid", "miscselect", "miscselectMask", "attributes", "attributesMask", "tcbLevels", "level.tcbStatus", "level.tcbStatus", "nextUpdate", "nextUpdate"}).Draw(t, "omitted")
	if forced != "" {
		drop = forced
	}
	if strings.HasPrefix(drop, "level.") {
		for _, l := range m["tcbLevels"].([]any) {
			delete(l.(map[string]any), strings.TrimPrefix(drop, "level."))
		}
	} else {
		delete(m, drop)
	}
	if drop == "isvprodid" && w.Q.QeIsvProdID == 0 {
		return // an absent number reads as 0, which is this report's value
	}
	partial, _ := json.Marshal(m)
	sig := hex.EncodeToString(w.PKI.QeSig.Key.SignRaw(partial))
	twin := rapid.SampledFrom(gen.FoldVariants("enclaveIdentity")).Draw(t, "twinSpelling")
	var body string
	if rapid.IntRange(0, 2).Draw(t, "afterAFailedDecode") == 0 {
		// no twin in the response: instead, the PREVIOUS response the process saw carried the complete, favourable identity
		// and failed to decode at its very last member (so that everything before it had been read). What a response
		// that was refused said is no part of the next one.
		tail := rapid.SampledFrom([]string{`"nextUpdate":"soon"`, `"issueDate":20240101`, `"nextUpdate":{"$date":1}`, `"version":"two"`, `"tcbEvaluationDataNumber":"x"`}).Draw(t, "undecodableLastMember")
		key := tail[1 : strings.Index(tail[1:], `"`)+1]
		var fm map[string]json.RawMessage
		_ = json.Unmarshal(full, &fm)
		var sb strings.Builder
		sb.WriteString("{")
		for _, k := range []string{"id", "version", "issueDate", "nextUpdate", "tcbEvaluationDataNumber", "miscselect", "miscselectMask", "attributes", "attributesMask", "mrsigner", "isvprodid", "tcbLevels"} {
			if k == key {
				continue
			}
			fmt.Fprintf(&sb, "%q:%s,", k, fm[k])
		}
		sb.WriteString(tail + "}")
		bad := sb.String()
		w.Resp[gen.QeIdentityURL] = gen.Response{Header: map[string][]string{gen.HdrQeID: {gen.IssuerChainHeader(w.PKI.QeSig, w.PKI.Root)}}, Body: []byte(`{"enclaveIdentity":` + bad + `,"signature":"` + hex.EncodeToString(w.PKI.QeSig.Key.SignRaw([]byte(bad))) + `"}`)}
		o0 := w.Options(gen.LvlColl, w.NewGetter(), nil)
		gen.Eval()
		if v0 := gen.Call(func() error { return verify.RawTdxQuote(w.Raw, o0) }); v0.Panicked() {
			gen.Class("omitted:pre-call-crashed")
		}
		w.Resp[gen.QeIdentityURL] = gen.Response{Header: map[string][]string{gen.HdrQeID: {gen.IssuerChainHeader(w.PKI.QeSig, w.PKI.Root)}}, Body: []byte(`{"enclaveIdentity":` + string(partial) + `,"signature":"` + sig + `"}`)}
		o := w.Options(gen.LvlColl, w.NewGetter(), nil)
		gen.Eval()
		v := gen.Call(func() error { return verify.RawTdxQuote(w.Raw, o) })
		gen.Class("omitted-after-a-failed-decode:" + drop)
		gen.NonTrivial("omitted-after", drop, tail, w.Raw[:64])
		if v.Accepted() {
			gen.Fail(t, gen.Violation{Key: "accepts-bad-qe:signed-identity-lacks-" + drop + ":after-a-refused-response", Oracle: "accepted only if the QE report matches the (signed) QE identity under its masks and the selected QE level is UpToDate", Detail: fmt.Sprintf("the signed identity has no %s; the response before it (refused: its last member %s does not decode) carried a complete identity; the quote is accepted", drop, tail), Replay: w.CaseFile(gen.LvlColl, nil, nil, nil, "reject")})
		}
		return
	}
	switch rapid.IntRange(0, 2).Draw(t, "order") {
	case 0:
		body = `{"` + twin + `":` + string(full) + `,"enclaveIdentity":` + string(partial) + `,"signature":"` + sig + `"}`
	case 1:
		body = `{"enclaveIdentity":` + string(partial) + `,"` + twin + `":` + string(full) + `,"signature":"` + sig + `"}`
	default:
		body = `{"enclaveIdentity":` + string(partial) + `,"signature":"` + sig + `","` + twin + `":` + string(full) + `}`
	}
	w.Resp[gen.QeIdentityURL] = gen.Response{Header: map[string][]string{gen.HdrQeID: {gen.IssuerChainHeader(w.PKI.QeSig, w.PKI.Root)}}, Body: []byte(body)}
	o := w.Options(gen.LvlColl, w.NewGetter(), nil)
	gen.Eval()
	v := gen.Call(func() error { return verify.RawTdxQuote(w.Raw, o) })
	gen.Class("omitted:" + drop)
	gen.NonTrivial("omitted", drop, twin, w.Raw[:64])
	gen.Sample("omitted", map[string]any{"omitted": drop, "unsigned_twin": twin, "verdict": v.Short()})
	if v.Accepted() {
		gen.Fail(t, gen.Violation{Key: "accepts-bad-qe:signed-identity-lacks-" + drop, Oracle: "accepted only if the QE report matches the (signed) QE identity under its masks and the selected QE level is UpToDate", Detail: fmt.Sprintf("the signed identity has no %s; an unsigned member %q supplies a complete identity; the quote is accepted", drop, twin), Replay: w.CaseFile(gen.LvlColl, nil, nil, nil, "reject")})
	}
}

// A QuoteV4 MESSAGE can carry ISVSVN / ISVPRODID values wider than the 16 bits that are signed: the level
// selection must not be driven by the unsigned high bits.
func c07MessageWidth(t *testing.T) {
	for i, d := range []uint32{1 << 16, 1 << 17, 3 << 16, 1 << 31} {
		w := gen.NewWorld(gen.NewPKI(gen.PKISpec{Seed: "pki-C"}), gen.NewStream(gen.Seed()+uint64(i), "c07msg"))
		w.Q.QeIsvSvn = uint16(i) // 0, 1, 2, 3
		w.HonestCollateral()
		// the genuine (signed) ISVSVN selects an OutOfDate level; the widened one would select the UpToDate level
		w.QeID.Levels = []gen.QeLevel{{Isvsvn: 1000, Status: "UpToDate"}, {Isvsvn: 0, Status: "OutOfDate"}}
		w.Build()
		m := w.Q.ToProto()
		m.SignedData.CertificationData.QeReportCertificationData.QeReport.IsvSvn += d
		o := w.Options(gen.LvlColl, w.NewGetter(), nil)
		gen.Eval()
		v := gen.Call(func() error { return verify.TdxQuote(m, o) })
		if v.Accepted() {
			gen.Fail(t, gen.Violation{Key: "accepts-bad-qe:unsigned-high-bits-of-isvsvn", Oracle: "the QE level is selected by the report's (signed) ISVSVN", Detail: fmt.Sprintf("signed ISVSVN %d (OutOfDate level), message carries %d and is accepted", i, uint32(i)+d), Replay: w.CaseFile(gen.LvlColl, nil, nil, nil, "reject")})
			return
		}
		gen.NonTrivial("msgwidth", i, d)
		gen.Class("message-width")
	}
}

// longTail is what a too-long identity field carries after its (correct) beginning.
func longTail(t *rapid.T, s *gen.Stream) []byte {
	n := rapid.SampledFrom([]int{1, 1, 4, 16, 48}).Draw(t, "tail")
	if rapid.Bool().Draw(t, "tailZero") {
		return make([]byte, n)
	}
	return s.Bytes(n)
}

func and(a, m []byte) []byte {
	out := make([]byte, len(a))
	for i := range a {
		out[i] = a[i] & m[i]
	}
	return out
}
