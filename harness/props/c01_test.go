package props

import (
	"bytes"
	"crypto/sha256"
	"encoding/hex"
	"fmt"
	"github.com/google/go-tdx-guest/abi"
	"hash/crc32"
	"math/big"
	"runtime"
	"sort"
	"strings"
	"testing"
	"time"

	pb "github.com/google/go-tdx-guest/proto/tdx"
	"google.golang.org/protobuf/proto"

	"github.com/google/go-tdx-guest/testing/testdata"
	"github.com/google/go-tdx-guest/verify"
	"pgregory.net/rapid"
	"verifharness/gen"
)

// c01Verify runs the library on raw bytes (and, when the bytes still parse, on the message
// form) and applies: accepted => the reference link verifier confirms all three links.
// expect is "", "reject" or "accept" (verdict known by construction).
func c01Verify(t gen.TB, w *gen.World, raw []byte, l gen.Level, expect, class string) {
	check := func(via string, v gen.Verdict, st gen.LinkStatus) bool {
		gen.Eval()
		rp := w.CaseFile(l, raw, nil, nil, map[string]string{"": "links", "reject": "reject", "accept": "accept"}[expect])
		if v.Accepted() && !st.AllHold() {
			gen.Fail(t, gen.Violation{Key: "accepts-broken-link:" + class, Oracle: "accepted => header/body signature, hash binding and QE report signature all hold on the given bytes",
				Detail: fmt.Sprintf("%s level=%s class=%s: accepted although reference links are %+v", via, l, class, st), Replay: rp})
			return false
		}
		if expect == "reject" && v.Accepted() {
			gen.Fail(t, gen.Violation{Key: "accepts-forgery:" + class, Oracle: "this forgery must be rejected", Detail: fmt.Sprintf("%s level=%s class=%s accepted", via, l, class), Replay: rp})
			return false
		}
		if expect == "accept" && !v.Accepted() {
			gen.Fail(t, gen.Violation{Key: "rejects-control:" + class, Oracle: "positive control (valid re-signed quote) must be accepted", Detail: fmt.Sprintf("%s level=%s class=%s: %s", via, l, class, v), Replay: rp})
			return false
		}
		return true
	}
	o := w.Options(l, w.NewGetter(), nil)
	// the options value may have been in use: earlier calls (on siblings of the world's genuine quote) that failed at
	// one stage or another - see optionsPrehistory
	if pk := prehistoryKind(raw); pk != 0 {
		optionsPrehistory(w.Raw, o, pk, w.NewGetter())
		gen.Class("options-value-used-before")
	}
	v := gen.Call(func() error { return verify.RawTdxQuote(raw, o) })
	st := gen.RefLinks(raw)
	if !check("raw", v, st) {
		return
	}
	if st.Parsed {
		if blocks := bytes.Count(raw, []byte("-----BEGIN CERTIFICATE-----")); blocks == 3 {
			gen.NonTrivial(raw, int(l))
		}
		q, _ := gen.RefParse(raw)
		m := q.ToProto()
		o2 := w.Options(l, w.NewGetter(), nil)
		v2 := gen.Call(func() error { return verify.TdxQuote(m, o2) })
		check("message", v2, gen.RefLinksQuote(q, append(q.HeaderBytes(), q.BodyBytes()...)))
	}
	gen.Class("class:" + class)
	gen.Class("verdict:" + v.Short())
}

type region struct {
	name     string
	from, to int
}

func c01Regions(authLen int) []region {
	return []region{
		{"header", 0, 48}, {"td-body", 48, 632}, {"signed-data-size", 632, 636}, {"quote-signature", 636, 700}, {"attestation-key", 700, 764},
		{"cert-type-size", 764, 770}, {"qe-report", 770, 1154}, {"qe-report-signature", 1154, 1218}, {"auth-size", 1218, 1220}, {"auth-data", 1220, 1220 + authLen},
	}
}

var curveN, _ = new(big.Int).SetString("ffffffff00000000ffffffffffffffffbce6faada7179e84f3b9cac2fc632551", 16)

// forgery mutates a built world's quote and returns the new raw bytes and the verdict known by construction.
type forgery struct {
	name   string
	expect string
	apply  func(w *gen.World, q *gen.RefQuote, s *gen.Stream)
}

func bytesOfLen(n int, v byte) []byte {
	b := make([]byte, n)
	for i := range b {
		b[i] = v
	}
	return b
}

func foreignKey(s *gen.Stream) *gen.Key { return gen.DeriveKey(fmt.Sprintf("foreign/%d", s.Intn(8))) }

var c01Forgeries = []forgery{
	{"control-untouched", "accept", func(w *gen.World, q *gen.RefQuote, s *gen.Stream) {}},
	{"body-resigned-foreign-key-kept-original-key", "reject", func(w *gen.World, q *gen.RefQuote, s *gen.Stream) { gen.SignBody(q, foreignKey(s)) }},
	{"key-replaced-resigned-qe-untouched", "reject", func(w *gen.World, q *gen.RefQuote, s *gen.Stream) {
		k := foreignKey(s)
		copy(q.AttKey[:], k.PubRaw())
		gen.SignBody(q, k)
	}},
	{"key-replaced-rehashed-qe-not-resigned", "reject", func(w *gen.World, q *gen.RefQuote, s *gen.Stream) {
		k := foreignKey(s)
		copy(q.AttKey[:], k.PubRaw())
		gen.SignBody(q, k)
		gen.BindHash(q)
	}},
	{"key-replaced-rehashed-qe-signed-foreign", "reject", func(w *gen.World, q *gen.RefQuote, s *gen.Stream) {
		k := foreignKey(s)
		copy(q.AttKey[:], k.PubRaw())
		gen.SignBody(q, k)
		gen.BindHash(q)
		gen.SignQe(q, foreignKey(s))
	}},
	{"key-replaced-rehashed-qe-signed-intermediate-ca", "reject", func(w *gen.World, q *gen.RefQuote, s *gen.Stream) {
		k := foreignKey(s)
		copy(q.AttKey[:], k.PubRaw())
		gen.SignBody(q, k)
		gen.BindHash(q)
		gen.SignQe(q, w.PKI.Int.Key)
	}},
	{"key-replaced-rehashed-qe-signed-root", "reject", func(w *gen.World, q *gen.RefQuote, s *gen.Stream) {
		k := foreignKey(s)
		copy(q.AttKey[:], k.PubRaw())
		gen.SignBody(q, k)
		gen.BindHash(q)
		gen.SignQe(q, w.PKI.Root.Key)
	}},
	{"key-replaced-rehashed-qe-signed-tcb-signer", "reject", func(w *gen.World, q *gen.RefQuote, s *gen.Stream) {
		k := foreignKey(s)
		copy(q.AttKey[:], k.PubRaw())
		gen.SignBody(q, k)
		gen.BindHash(q)
		gen.SignQe(q, w.PKI.TcbSig.Key)
	}},
	{"control-key-replaced-rehashed-qe-signed-pck", "accept", func(w *gen.World, q *gen.RefQuote, s *gen.Stream) {
		k := foreignKey(s)
		copy(q.AttKey[:], k.PubRaw())
		gen.SignBody(q, k)
		gen.BindHash(q)
		gen.SignQe(q, w.Leaf.Key)
	}},
	// a QE report properly signed by the PCK key whose report data is the hash of only PART of (attestation key ||
	// authentication data): a prefix as long as the 16-bit wrap of the total length, the key alone, the data alone, all
	// but the last byte, nothing. Authentication data of 65472..65535 bytes make the total length pass 65535.
	{"report-data-is-the-hash-of-part-of-the-input-qe-signed-pck", "reject", func(w *gen.World, q *gen.RefQuote, s *gen.Stream) {
		k := foreignKey(s)
		copy(q.AttKey[:], k.PubRaw())
		q.Auth = s.Bytes([]int{65472, 65473, 65500, 65535, 65535, 300, 32, 0}[s.Intn(8)])
		gen.SignBody(q, k)
		full := append(append([]byte{}, q.AttKey[:]...), q.Auth...)
		var part []byte
		switch s.Intn(5) {
		case 0:
			part = full[:len(full)%65536%len(full)] // what a 16-bit length makes of it
		case 1:
			part = full[:64]
		case 2:
			part = full[64:]
		case 3:
			part = full[:len(full)-1]
		default:
			part = nil
		}
		if len(part) == len(full) {
			part = full[:len(full)-1]
		}
		d := sha256.Sum256(part)
		var rd [64]byte
		copy(rd[:], d[:])
		q.QeReportData = rd
		q.FixSizes()
		gen.SignQe(q, w.Leaf.Key)
	}},
	{"body-field-changed-not-resigned", "reject", func(w *gen.World, q *gen.RefQuote, s *gen.Stream) {
		switch s.Intn(5) {
		case 0:
			q.ReportData[s.Intn(64)] ^= 1 << uint(s.Intn(8))
		case 1:
			q.MrTd[s.Intn(48)] ^= 1 << uint(s.Intn(8))
		case 2:
			q.Rtmr[s.Intn(4)][s.Intn(48)] ^= 1 << uint(s.Intn(8))
		case 3:
			q.UserData[s.Intn(20)] ^= 1 << uint(s.Intn(8))
		default:
			q.TdAttr[s.Intn(8)] ^= 1 << uint(s.Intn(8))
		}
	}},
	{"control-body-field-changed-resigned", "accept", func(w *gen.World, q *gen.RefQuote, s *gen.Stream) {
		q.ReportData[s.Intn(64)] ^= 1 << uint(s.Intn(8))
		q.MrOwner[s.Intn(48)] ^= 0x10
		gen.SignBody(q, w.AttKey)
	}},
	{"qe-report-field-changed-not-resigned", "reject", func(w *gen.World, q *gen.RefQuote, s *gen.Stream) {
		switch s.Intn(4) {
		case 0:
			q.QeMrSigner[s.Intn(32)] ^= 1
		case 1:
			q.QeIsvSvn ^= 1
		case 2:
			q.QeRes3[s.Intn(96)] ^= 0x80
		default:
			q.QeMiscSelect ^= 1 << uint(s.Intn(32))
		}
	}},
	{"control-qe-reserved-changed-resigned", "accept", func(w *gen.World, q *gen.RefQuote, s *gen.Stream) {
		q.QeRes3[s.Intn(96)] ^= 0x80
		q.QeMrEnclave[s.Intn(32)] ^= 1
		gen.SignQe(q, w.Leaf.Key)
	}},
	{"hash-over-auth-then-key", "reject", func(w *gen.World, q *gen.RefQuote, s *gen.Stream) {
		if len(q.Auth) == 0 {
			q.Auth = []byte{7}
			q.FixSizes()
		}
		h := sha256.New()
		h.Write(q.Auth)
		h.Write(q.AttKey[:])
		var rd [64]byte
		copy(rd[:], h.Sum(nil))
		q.QeReportData = rd
		gen.SignQe(q, w.Leaf.Key)
	}},
	{"hash-over-key-only", "reject", func(w *gen.World, q *gen.RefQuote, s *gen.Stream) {
		if len(q.Auth) == 0 {
			q.Auth = []byte{7}
			q.FixSizes()
		}
		h := sha256.Sum256(q.AttKey[:])
		var rd [64]byte
		copy(rd[:], h[:])
		q.QeReportData = rd
		gen.SignQe(q, w.Leaf.Key)
	}},
	{"hash-correct-but-relocated", "reject", func(w *gen.World, q *gen.RefQuote, s *gen.Stream) {
		// the right digest at another offset of the 64-byte field (zeros before and behind it), or in the second half,
		// or byte-reversed, or twice: the field is digest || 32 zero bytes and nothing else
		gen.BindHash(q)
		var h [32]byte
		copy(h[:], q.QeReportData[:32])
		var rd [64]byte
		switch k := s.Intn(6); k {
		case 0:
			copy(rd[32:], h[:])
		case 1:
			copy(rd[:32], h[:])
			copy(rd[32:], h[:])
		case 2:
			for i := range h {
				rd[i] = h[31-i]
			}
		default:
			copy(rd[1+s.Intn(31):], h[:])
		}
		if rd == q.QeReportData {
			rd[63] = 1
		}
		q.QeReportData = rd
		gen.SignQe(q, w.Leaf.Key)
	}},
	{"hash-correct-trailing-nonzero", "reject", func(w *gen.World, q *gen.RefQuote, s *gen.Stream) {
		gen.BindHash(q)
		q.QeReportData[32+s.Intn(32)] = byte(1 + s.Intn(255))
		gen.SignQe(q, w.Leaf.Key)
	}},
	{"key-bytes-rearranged", "reject", func(w *gen.World, q *gen.RefQuote, s *gen.Stream) {
		// the attestation key's 64 bytes in another arrangement (each coordinate byte-reversed = the little-endian
		// spelling of the same numbers, the whole key reversed, X and Y exchanged), nothing else touched: the key that
		// verified the body signature is the 64 bytes as they stand in the quote, and the hash binding covers those bytes
		k := q.AttKey
		rev := func(b []byte) {
			for i, j := 0, len(b)-1; i < j; i, j = i+1, j-1 {
				b[i], b[j] = b[j], b[i]
			}
		}
		switch s.Intn(4) {
		case 0:
			rev(k[:32])
			rev(k[32:])
		case 1:
			rev(k[:])
		case 2:
			copy(k[:32], q.AttKey[32:])
			copy(k[32:], q.AttKey[:32])
		default:
			rev(k[:32])
		}
		if k == q.AttKey {
			k[0] ^= 1
		}
		q.AttKey = k
	}},
	{"hash-digest-altered-qe-resigned", "reject", func(w *gen.World, q *gen.RefQuote, s *gen.Stream) {
		// the QE report (validly re-signed by the PCK key) carries a digest that differs from SHA-256(key || auth)
		// in one bit, in the case bit of a byte, or in one byte >= 0x80 replaced by another: a comparison that is
		// looser than byte equality (text folding, prefix, skipping) would let it through
		gen.BindHash(q)
		d := q.QeReportData[:32]
		switch s.Intn(5) {
		case 0:
			bit := s.Intn(256)
			d[bit/8] ^= 1 << uint(bit%8)
		case 1:
			// the 0x20 bit of a byte that is an ASCII letter either way, if there is one
			done := false
			for off := 0; off < 32 && !done; off++ {
				i := (off + s.Intn(32)) % 32
				c := d[i] | 0x20
				if c >= 'a' && c <= 'z' {
					d[i] ^= 0x20
					done = true
				}
			}
			if !done {
				d[s.Intn(32)] ^= 0x20
			}
		case 2:
			// a byte >= 0x80 replaced by another byte >= 0x80 (both invalid as UTF-8 on their own)
			i := s.Intn(32)
			for k := 0; k < 32 && d[i] < 0x80; k++ {
				i = (i + 1) % 32
			}
			nv := byte(0x80 | s.Intn(128))
			if nv == d[i] {
				nv ^= 0x01
			}
			d[i] = nv
		case 3:
			d[31] ^= 0x01 // last byte only
		default:
			d[0] ^= 0x80 // first byte only
		}
		gen.SignQe(q, w.Leaf.Key)
	}},
	{"hash-correct-trailing-words-cancel", "reject", func(w *gen.World, q *gen.RefQuote, s *gen.Stream) {
		// non-zero padding whose 1/2/4/8-byte words cancel under addition or under xor (little- or big-endian): a
		// zero test that folds the words instead of looking at each byte would let it through
		gen.BindHash(q)
		pad := q.QeReportData[32:]
		width := []int{1, 2, 4, 8}[s.Intn(4)]
		n := 32 / width
		i := s.Intn(n)
		j := (i + 1 + s.Intn(n-1)) % n
		x := s.Bytes(width)
		x[s.Intn(width)] |= byte(1 << uint(s.Intn(8)))
		if s.Intn(3) == 0 {
			x = make([]byte, width)
			x[s.Intn(width)] = 0x80
		}
		y := append([]byte{}, x...)
		if s.Intn(2) == 0 {
			// two's complement of x read as a little- or big-endian integer: x + y == 0 mod 2^(8*width)
			be := s.Intn(2) == 0
			carry := 1
			for k := 0; k < width; k++ {
				idx := k
				if be {
					idx = width - 1 - k
				}
				v := int(^x[idx]) + carry
				y[idx] = byte(v)
				carry = v >> 8
			}
		}
		copy(pad[i*width:], x)
		copy(pad[j*width:], y)
		gen.SignQe(q, w.Leaf.Key)
	}},
	{"hash-first-32-zero-rest-hash", "reject", func(w *gen.World, q *gen.RefQuote, s *gen.Stream) {
		gen.BindHash(q)
		var rd [64]byte
		copy(rd[32:], q.QeReportData[:32])
		q.QeReportData = rd
		gen.SignQe(q, w.Leaf.Key)
	}},
	{"auth-altered-consistent-sizes", "reject", func(w *gen.World, q *gen.RefQuote, s *gen.Stream) {
		switch s.Intn(3) {
		case 0:
			q.Auth = append(q.Auth, byte(s.Intn(256)))
		case 1:
			if len(q.Auth) > 0 {
				q.Auth = q.Auth[:len(q.Auth)-1]
			} else {
				q.Auth = []byte{0}
			}
		default:
			if len(q.Auth) > 0 {
				q.Auth[s.Intn(len(q.Auth))] ^= 1
			} else {
				q.Auth = []byte{0}
			}
		}
		q.FixSizes()
	}},
	{"auth-appended-zero-byte", "reject", func(w *gen.World, q *gen.RefQuote, s *gen.Stream) {
		q.Auth = append(q.Auth, 0)
		q.FixSizes()
	}},
	{"body-sig-r-s-swapped", "reject", func(w *gen.World, q *gen.RefQuote, s *gen.Stream) {
		var t [64]byte
		copy(t[:32], q.Sig[32:])
		copy(t[32:], q.Sig[:32])
		q.Sig = t
	}},
	{"body-sig-zero-r", "reject", func(w *gen.World, q *gen.RefQuote, s *gen.Stream) { copy(q.Sig[:32], make([]byte, 32)) }},
	{"body-sig-zero-s", "reject", func(w *gen.World, q *gen.RefQuote, s *gen.Stream) { copy(q.Sig[32:], make([]byte, 32)) }},
	{"body-sig-all-zero", "reject", func(w *gen.World, q *gen.RefQuote, s *gen.Stream) { q.Sig = [64]byte{} }},
	{"body-sig-r-plus-n", "reject", func(w *gen.World, q *gen.RefQuote, s *gen.Stream) {
		// r + n does not fit 32 bytes unless r is tiny; use r = n (== 0 mod n) instead
		curveN.FillBytes(q.Sig[:32])
	}},
	{"qe-sig-r-s-swapped", "reject", func(w *gen.World, q *gen.RefQuote, s *gen.Stream) {
		var t [64]byte
		copy(t[:32], q.QeSig[32:])
		copy(t[32:], q.QeSig[:32])
		q.QeSig = t
	}},
	{"qe-sig-all-zero", "reject", func(w *gen.World, q *gen.RefQuote, s *gen.Stream) { q.QeSig = [64]byte{} }},
	{"qe-sig-is-body-sig", "reject", func(w *gen.World, q *gen.RefQuote, s *gen.Stream) { q.QeSig = q.Sig }},
	{"qe-sig-by-attestation-key", "reject", func(w *gen.World, q *gen.RefQuote, s *gen.Stream) { gen.SignQe(q, w.AttKey) }},
	{"body-sig-by-pck-key", "reject", func(w *gen.World, q *gen.RefQuote, s *gen.Stream) { gen.SignBody(q, w.Leaf.Key) }},
	{"key-off-curve", "reject", func(w *gen.World, q *gen.RefQuote, s *gen.Stream) { q.AttKey[63] ^= 1 }},
	{"key-zero", "reject", func(w *gen.World, q *gen.RefQuote, s *gen.Stream) { q.AttKey = [64]byte{} }},
	{"key-zero-sig-zero", "reject", func(w *gen.World, q *gen.RefQuote, s *gen.Stream) { q.AttKey, q.Sig = [64]byte{}, [64]byte{} }},
	{"key-x-only", "reject", func(w *gen.World, q *gen.RefQuote, s *gen.Stream) { copy(q.AttKey[32:], make([]byte, 32)) }},
	{"key-negated-y", "reject", func(w *gen.World, q *gen.RefQuote, s *gen.Stream) {
		// (x, p - y) is on the curve but a different key: the signature no longer verifies
		p, _ := new(big.Int).SetString("ffffffff00000001000000000000000000000000ffffffffffffffffffffffff", 16)
		y := new(big.Int).SetBytes(q.AttKey[32:])
		y.Sub(p, y)
		y.FillBytes(q.AttKey[32:])
	}},
	{"leaf-swapped-for-sibling-leaf", "reject", func(w *gen.World, q *gen.RefQuote, s *gen.Stream) {
		sib := gen.MakeLeaf(w.PKI.Int, gen.LeafSpec{KeyLabel: w.PKI.Spec.Seed + "/sibling-leaf", SgxDER: gen.SgxTree(&w.Sgx).Encode()})
		q.Chain = gen.ChainPEM(sib, w.PKI.Int, w.PKI.Root)
		q.FixSizes()
	}},
	{"control-leaf-swapped-and-qe-resigned-by-sibling", "accept", func(w *gen.World, q *gen.RefQuote, s *gen.Stream) {
		sib := gen.MakeLeaf(w.PKI.Int, gen.LeafSpec{KeyLabel: w.PKI.Spec.Seed + "/sibling-leaf", SgxDER: gen.SgxTree(&w.Sgx).Encode()})
		q.Chain = gen.ChainPEM(sib, w.PKI.Int, w.PKI.Root)
		q.FixSizes()
		gen.SignQe(q, sib.Key)
	}},
	{"header-version-field-resigned-consistent", "reject", func(w *gen.World, q *gen.RefQuote, s *gen.Stream) {
		q.TeeType = 0 // SGX tee type: not a TDX quote even if signed
		gen.SignBody(q, w.AttKey)
	}},
}

func TestC01(t *testing.T) {
	replayDir(t, "C01")
	levels := []gen.Level{gen.LvlBase, gen.LvlColl, gen.LvlCRL, gen.LvlCRLNoColl}

	// (1) exhaustive single-bit mutants of every signed / binding region of generated worlds.
	gen.Direct(t, "all-bits", func(t *testing.T) {
		nWorlds := 1
		if gen.Tier() == "thorough" {
			nWorlds = 8
		}
		idx := 0
		for wi := 0; wi < nWorlds; wi++ {
			s := gen.NewStream(gen.Seed()*100+uint64(wi), "c01bits")
			w := gen.NewWorld(gen.NewPKI(gen.PKISpec{Seed: gen.PKISeeds[wi%len(gen.PKISeeds)]}), s)
			w.Q.Auth = s.Bytes([]int{16, 0, 1, 33, 64, 5, 100, 32}[wi])
			if wi%2 == 1 {
				w.Q.Extra = s.Bytes(9)
				w.ChainNUL = true
			}
			w.Build()
			if sc := w.SelfCheck(); sc != "" {
				gen.HarnessError(t, "world not self-consistent: %s", sc)
			}
			for _, r := range c01Regions(len(w.Q.Auth)) {
				for off := r.from; off < r.to; off++ {
					for bit := 0; bit < 8; bit++ {
						idx++
						if !gen.ShardOwns(idx) {
							continue
						}
						mut := append([]byte{}, w.Raw...)
						mut[off] ^= 1 << uint(bit)
						l := levels[idx%3] // the three meaningful levels in rotation
						expect := "reject"
						c01Verify(t, w, mut, l, expect, "bit:"+r.name)
					}
				}
			}
		}
		gen.Exhaustive("every single bit of header, TD body, size/type fields, both signatures, attestation key, QE report and auth data", true)
	})

	// (1b) the Intel sample under the embedded root: sampled (quick) / all (thorough) bits of the listed regions.
	gen.Direct(t, "intel-sample-bits", func(t *testing.T) {
		raw := testdata.RawQuote
		ref, err := gen.RefParse(raw)
		if err != nil {
			gen.HarnessError(t, "reference parser rejects the Intel sample: %v", err)
		}
		if st := gen.RefLinks(raw); !st.AllHold() {
			gen.HarnessError(t, "reference link verifier rejects the Intel sample: %+v", st)
		}
		at := time.Date(2023, time.July, 1, 1, 0, 0, 0, time.UTC)
		step := 5
		if gen.Tier() == "thorough" {
			step = 1
		}
		idx := 0
		for _, r := range c01Regions(len(ref.Auth)) {
			for off := r.from; off < r.to; off++ {
				for bit := 0; bit < 8; bit++ {
					idx++
					if idx%step != 0 || !gen.ShardOwns(idx/step) {
						continue
					}
					mut := append([]byte{}, raw...)
					mut[off] ^= 1 << uint(bit)
					ts := verify.TimeSet{PckCertChain: at, TcbInfo: at, QeIdentity: at, PckCrl: at, RootCaCrl: at}
					o := &verify.Options{Now: &ts, Getter: gen.FailGetter{}}
					gen.Eval()
					v := gen.Call(func() error { return verify.RawTdxQuote(mut, o) })
					if v.Accepted() {
						gen.Fail(t, gen.Violation{Key: "accepts-broken-link:intel-bit:" + r.name, Oracle: "no bit of a genuine quote's signed regions can change without rejection",
							Detail: fmt.Sprintf("Intel sample with bit %d of byte %d (%s) flipped was accepted", bit, off, r.name),
							Replay: map[string]any{"kind": "intel-bit", "offset": off, "bit": bit}})
					}
					gen.NonTrivial("intel", off, bit)
					gen.Class("class:intel-bit:" + r.name)
				}
			}
		}
	})

	// (1c) message-level mutants: fields of the QuoteV4 message that no byte string can express
	// (32-bit message fields that serialise to 16 bits) and single bits of every signed field.
	gen.Direct(t, "message-fields", func(t *testing.T) {
		w := gen.NewWorld(gen.NewPKI(gen.PKISpec{Seed: "pki-B"}), gen.NewStream(gen.Seed()+5, "c01msg"))
		// ISVSVN and ISVPRODID of zero, and a QE identity whose first level demands more: a message value of
		// exactly 65536 serialises to the signed 0 but compares as 65536
		w.Q.QeIsvSvn, w.Q.QeIsvProdID = 0, 0
		w.HonestCollateral()
		w.QeID.Levels = []gen.QeLevel{{Isvsvn: 3, Status: "UpToDate"}, {Isvsvn: 0, Status: "UpToDate"}}
		w.Build()
		type mm struct {
			name  string
			apply func(m *pb.QuoteV4)
		}
		var muts []mm
		for _, d := range []uint32{1 << 16, 1 << 17, 1 << 31, 0xffff0000} {
			d := d
			muts = append(muts,
				mm{fmt.Sprintf("header.version+%#x", d), func(m *pb.QuoteV4) { m.Header.Version += d }},
				mm{fmt.Sprintf("header.attestation_key_type+%#x", d), func(m *pb.QuoteV4) { m.Header.AttestationKeyType += d }},
				mm{fmt.Sprintf("header.tee_type^%#x", d), func(m *pb.QuoteV4) { m.Header.TeeType ^= d }},
				mm{fmt.Sprintf("qe.isv_svn+%#x", d), func(m *pb.QuoteV4) { m.SignedData.CertificationData.QeReportCertificationData.QeReport.IsvSvn += d }},
				mm{fmt.Sprintf("qe.isv_prod_id+%#x", d), func(m *pb.QuoteV4) { m.SignedData.CertificationData.QeReportCertificationData.QeReport.IsvProdId += d }},
				mm{fmt.Sprintf("qe.misc_select^%#x", d), func(m *pb.QuoteV4) { m.SignedData.CertificationData.QeReportCertificationData.QeReport.MiscSelect ^= d }},
			)
		}
		for _, d := range []uint32{1, 2, 0x8000} {
			d := d
			muts = append(muts,
				mm{fmt.Sprintf("qe.isv_svn^%#x", d), func(m *pb.QuoteV4) { m.SignedData.CertificationData.QeReportCertificationData.QeReport.IsvSvn ^= d }},
				mm{fmt.Sprintf("qe.isv_prod_id^%#x", d), func(m *pb.QuoteV4) { m.SignedData.CertificationData.QeReportCertificationData.QeReport.IsvProdId ^= d }},
			)
		}
		// registers appended to the (repeated) RTMR field of the message: nothing the attestation key signed
		for _, extra := range [][]byte{make([]byte, 48), bytesOfLen(48, 0x5a), {}, bytesOfLen(1, 1), bytesOfLen(96, 7)} {
			extra := extra
			for n := 1; n <= 3; n += 2 {
				n := n
				muts = append(muts, mm{fmt.Sprintf("body.rtmrs+%dx%d-bytes", n, len(extra)), func(m *pb.QuoteV4) {
					for i := 0; i < n; i++ {
						m.TdQuoteBody.Rtmrs = append(m.TdQuoteBody.Rtmrs, append([]byte{}, extra...))
					}
				}})
			}
		}
		muts = append(muts, mm{"body.rtmrs+copy-of-rtmr0", func(m *pb.QuoteV4) {
			m.TdQuoteBody.Rtmrs = append(m.TdQuoteBody.Rtmrs, append([]byte{}, m.TdQuoteBody.Rtmrs[0]...))
		}})
		bytesFields := func(m *pb.QuoteV4) map[string]*[]byte {
			r := m.SignedData.CertificationData.QeReportCertificationData
			b := m.TdQuoteBody
			out := map[string]*[]byte{"header.pce_svn": &m.Header.PceSvn, "header.qe_svn": &m.Header.QeSvn, "header.qe_vendor_id": &m.Header.QeVendorId, "header.user_data": &m.Header.UserData,
				"body.tee_tcb_svn": &b.TeeTcbSvn, "body.mr_seam": &b.MrSeam, "body.mr_signer_seam": &b.MrSignerSeam, "body.seam_attributes": &b.SeamAttributes, "body.td_attributes": &b.TdAttributes, "body.xfam": &b.Xfam,
				"body.mr_td": &b.MrTd, "body.mr_config_id": &b.MrConfigId, "body.mr_owner": &b.MrOwner, "body.mr_owner_config": &b.MrOwnerConfig, "body.report_data": &b.ReportData,
				"body.rtmr0": &b.Rtmrs[0], "body.rtmr1": &b.Rtmrs[1], "body.rtmr2": &b.Rtmrs[2], "body.rtmr3": &b.Rtmrs[3],
				"signature": &m.SignedData.Signature, "attestation_key": &m.SignedData.EcdsaAttestationKey,
				"qe.cpu_svn": &r.QeReport.CpuSvn, "qe.reserved1": &r.QeReport.Reserved1, "qe.attributes": &r.QeReport.Attributes, "qe.mr_enclave": &r.QeReport.MrEnclave, "qe.reserved2": &r.QeReport.Reserved2,
				"qe.mr_signer": &r.QeReport.MrSigner, "qe.reserved3": &r.QeReport.Reserved3, "qe.reserved4": &r.QeReport.Reserved4, "qe.report_data": &r.QeReport.ReportData,
				"qe_report_signature": &r.QeReportSignature, "qe_auth_data": &r.QeAuthData.Data}
			return out
		}
		names := []string{}
		for n := range bytesFields(w.Q.ToProto()) {
			names = append(names, n)
		}
		sort.Strings(names)
		for _, n := range names {
			n := n
			for _, pos := range []string{"first", "last", "middle"} {
				pos := pos
				muts = append(muts, mm{n + ":" + pos + "-bit", func(m *pb.QuoteV4) {
					b := *bytesFields(m)[n]
					if len(b) == 0 {
						return
					}
					switch pos {
					case "first":
						b[0] ^= 0x80
					case "last":
						b[len(b)-1] ^= 0x01
					default:
						b[len(b)/2] ^= 0x10
					}
				}})
			}
		}
		// every signed bytes field of the message in another size: bytes appended (the signed region only holds the
		// field's own width: what is appended is signed by nobody), the last byte dropped, absent
		for _, n := range names {
			n := n
			if n == "qe_auth_data" || n == "signature" || n == "qe_report_signature" {
				continue
			}
			for _, how := range []string{"byte-appended", "doubled", "last-byte-dropped", "nil", "replaced-by-a-copy-with-one-bit-changed"} {
				how := how
				muts = append(muts, mm{n + ":" + how, func(m *pb.QuoteV4) {
					f := bytesFields(m)[n]
					switch how {
					case "replaced-by-a-copy-with-one-bit-changed":
						// not an edit in place: the field is ASSIGNED a fresh slice (as a caller filling in a message does)
						if len(*f) > 0 {
							nb := append([]byte{}, *f...)
							nb[len(nb)/2] ^= 0x10
							*f = nb
						}
					case "byte-appended":
						*f = append(append([]byte{}, *f...), 0x5a)
					case "doubled":
						*f = append(append([]byte{}, *f...), *f...)
					case "last-byte-dropped":
						if len(*f) > 0 {
							*f = (*f)[:len(*f)-1]
						}
					default:
						*f = nil
					}
				}})
			}
		}
		for i, mu := range muts {
			if !gen.ShardOwns(i) {
				continue
			}
			for li, l := range []gen.Level{gen.LvlBase, gen.LvlColl, gen.LvlBase} {
				m := w.Q.ToProto()
				if li == 2 {
					// the same alteration applied to the message the library's own parser made of the genuine quote
					pm, err := abi.QuoteToProto(append([]byte{}, w.Raw...))
					if err != nil {
						continue
					}
					m = pm.(*pb.QuoteV4)
				}
				mu.apply(m)
				o := w.Options(l, w.NewGetter(), nil)
				gen.Eval()
				v := gen.Call(func() error { return verify.TdxQuote(m, o) })
				if v.Accepted() {
					mb, _ := proto.Marshal(m)
					gen.Fail(t, gen.Violation{Key: "accepts-altered-message-field:" + strings.SplitN(mu.name, ":", 2)[0], Oracle: "no bit of the header, TD body, attestation key, QE report or QE authentication data of a genuine quote can change without the quote being rejected",
						Detail: fmt.Sprintf("message mutant %s accepted at level %s", mu.name, l), Replay: withFields(w.CaseFile(l, nil, nil, nil, "reject"), map[string]any{"proto_hex": hex.EncodeToString(mb), "mutation": mu.name})})
					return
				}
				gen.NonTrivial("msgfield", mu.name, int(l))
				gen.Class("class:message-field")
			}
		}
		gen.Exhaustive("message-level mutants: high bits of every 16-bit-on-the-wire message field, three bit positions of every signed bytes field", true)
	})

	// (1d) histories: ONE Options value serves raw-bytes and message verifications of genuine and forged quotes in any
	// order, including calls that fail early (a damaged chain, revocation asked for without collateral). A forged quote
	// may carry the length and the CRC-32 of the genuine one. Whatever came before, only the genuine quote is accepted.
	gen.Prop(t, "histories-on-one-options-value", gen.N(500, 40000), func(t *rapid.T) {
		s := gen.NewStream(rapid.Uint64().Draw(t, "content"), "c01h")
		w := gen.NewWorld(gen.NewPKI(gen.PKISpec{Seed: rapid.SampledFrom(gen.PKISeeds).Draw(t, "pki")}), s)
		if rapid.IntRange(0, 2).Draw(t, "defaultTimeSet") == 0 {
			w.UseRealNow()
		}
		w.Build()
		o := w.Options(gen.LvlBase, nil, nil)
		genuine := w.Raw
		mkForged := func(kind string) []byte {
			b := append([]byte{}, genuine...)
			switch kind {
			case "body-bit":
				b[48+s.Intn(584)] ^= byte(1 << uint(s.Intn(8)))
			case "header-bit":
				b[8+s.Intn(40)] ^= byte(1 << uint(s.Intn(8))) // QE SVN .. user data (the fixed fields would fail parsing)
			case "same-length-and-crc32":
				b[48+s.Intn(300)] ^= byte(1 + s.Intn(255))
				gen.ForgeCRC32(b, 48+400+s.Intn(100), crc32.ChecksumIEEE(genuine))
			case "damaged-chain":
				i := bytes.Index(b, []byte("-----BEGIN CERTIFICATE-----"))
				copy(b[i:], "-----BEGIN CERTIFICATE+++++")
			}
			return b
		}
		var hist []string
		check := func(what string, isGenuine bool, v gen.Verdict) {
			hist = append(hist, what+" -> "+v.Short())
			want := isGenuine && !(o.CheckRevocations && !o.GetCollateral)
			rp := map[string]any{"kind": "c01-history", "history": append([]string{}, hist...)}
			if v.Panicked() {
				gen.Fail(t, gen.Violation{Key: "panic@" + gen.PanicSite(v.Stack), Oracle: "verification returns a verdict", Detail: v.Panic, Replay: rp})
			}
			if v.Accepted() && !want {
				gen.Fail(t, gen.Violation{Key: "history:accepts-" + strings.SplitN(what, " ", 3)[1], Oracle: "accepted => header/body signature, hash binding and QE report signature all hold on the quote given in THIS call, whatever the Options value was used for before", Detail: "history: " + strings.Join(hist, " ; "), Replay: rp})
			}
			if !v.Accepted() && want {
				gen.Fail(t, gen.Violation{Key: "history:rejects-genuine", Oracle: "the genuine quote is accepted, whatever the Options value was used for before", Detail: "history: " + strings.Join(hist, " ; ") + ": " + v.String(), Replay: rp})
			}
		}
		forgedKinds := []string{"body-bit", "header-bit", "same-length-and-crc32"}
		nForged := 0
		t.Repeat(map[string]func(*rapid.T){
			"raw-genuine": func(t *rapid.T) {
				gen.Eval()
				check("raw genuine", true, gen.Call(func() error { return verify.RawTdxQuote(genuine, o) }))
			},
			"raw-forged": func(t *rapid.T) {
				k := rapid.SampledFrom(append(forgedKinds, "damaged-chain")).Draw(t, "kind")
				b := mkForged(k)
				gen.Eval()
				nForged++
				check("raw "+k, false, gen.Call(func() error { return verify.RawTdxQuote(b, o) }))
			},
			"message-genuine": func(t *rapid.T) {
				q, _ := gen.RefParse(genuine)
				m := q.ToProto()
				gen.Eval()
				check("message genuine", true, gen.Call(func() error { return verify.TdxQuote(m, o) }))
			},
			"message-forged": func(t *rapid.T) {
				k := rapid.SampledFrom(forgedKinds[:2]).Draw(t, "kind")
				q, err := gen.RefParse(mkForged(k))
				if err != nil {
					t.Skip("forgery does not parse")
				}
				m := q.ToProto()
				gen.Eval()
				nForged++
				check("message "+k, false, gen.Call(func() error { return verify.TdxQuote(m, o) }))
			},
			"toggle-revocation-without-collateral": func(t *rapid.T) {
				o.CheckRevocations = !o.CheckRevocations
				hist = append(hist, fmt.Sprintf("CheckRevocations=%v (GetCollateral stays off)", o.CheckRevocations))
			},
		})
		if nForged > 0 && len(hist) >= 3 {
			gen.NonTrivial(strings.Join(hist, ";"))
		}
		gen.Class(fmt.Sprintf("history:default-time-set=%v", w.NowNil))
		gen.Sample("history", hist)
	})

	// (2) structured forgeries with a verdict known by construction.
	// the number of processors is the machine's business: every forgery is rejected (and every control accepted) with
	// 1, 2, 3, 4, 5, 8 processors in use
	gen.Direct(t, "forgeries-under-every-processor-count", func(t *testing.T) {
		defer runtime.GOMAXPROCS(runtime.GOMAXPROCS(0))
		for pi, procs := range []int{1, 2, 3, 4, 5, 8} {
			if !gen.ShardOwns(pi) {
				continue
			}
			runtime.GOMAXPROCS(procs)
			s := gen.NewStream(gen.Seed()+uint64(procs), "c01procs")
			w := gen.NewWorld(gen.NewPKI(gen.PKISpec{Seed: gen.PKISeeds[procs%len(gen.PKISeeds)]}), s)
			w.Build()
			for _, f := range c01Forgeries {
				q := w.Q.Clone()
				f.apply(w, q, s)
				raw := q.Encode()
				o := w.Options(gen.LvlBase, nil, nil)
				gen.Eval()
				v := gen.Call(func() error { return verify.RawTdxQuote(raw, o) })
				if v.Panicked() || v.Accepted() != (f.expect == "accept") {
					gen.Fail(t, gen.Violation{Key: fmt.Sprintf("processors:%s:%s", map[bool]string{true: "accepts", false: "rejects"}[v.Accepted()], f.name), Oracle: "accepted <=> header/body signature, hash binding and QE report signature all hold - whatever the number of processors", Detail: fmt.Sprintf("GOMAXPROCS=%d forgery=%s: %s", procs, f.name, v), Replay: withFields(w.CaseFile(gen.LvlBase, raw, nil, nil, f.expect), map[string]any{"gomaxprocs": procs})})
					return
				}
				gen.NonTrivial("c01procs", procs, f.name)
			}
			gen.Class(fmt.Sprintf("processors=%d", procs))
		}
	})
	gen.Prop(t, "forgeries", gen.N(5000, 400000), func(t *rapid.T) {
		w, _ := gen.DrawWorld(t, gen.WorldCfg{MaxAuth: 300, Simple: rapid.Bool().Draw(t, "simple")})
		oddExt := rapid.IntRange(0, 5).Draw(t, "leafWithOddSgxExtension") == 0
		if oddExt {
			// the (genuinely issued) leaf carries an SGX extension of a shape the statement does not classify or a
			// malformed one: whatever the extension decoder makes of it, a forged quote stays rejected
			v := w.Sgx
			top := gen.SgxTree(&v)
			if rapid.Bool().Draw(t, "oddity") {
				w.SgxDER = c13Oddity(t, rapid.SampledFrom(c13Oddities).Draw(t, "oddityKind"), top)
			} else {
				w.SgxDER, _, _ = c13Mutate(t, rapid.SampledFrom(c13Malformations[:30]).Draw(t, "malformation"), top, gen.NewStream(7, "c01odd"))
			}
			gen.Class("leaf-with-odd-sgx-extension")
		}
		if !func() (ok bool) {
			defer func() {
				if recover() != nil {
					ok = false // the standard library refuses to issue a certificate with this extension value
				}
			}()
			w.Build()
			return true
		}() {
			return
		}
		f := rapid.SampledFrom(c01Forgeries).Draw(t, "forgery")
		if oddExt && f.expect == "accept" {
			f = c01Forgeries[1+rapid.IntRange(0, 5).Draw(t, "forgeryInstead")] // no acceptance is promised for such a leaf: use a forgery
		}
		s := gen.NewStream(rapid.Uint64().Draw(t, "fcontent"), "forge")
		q := w.Q.Clone()
		f.apply(w, q, s)
		raw := q.Encode()
		l := rapid.SampledFrom(levels).Draw(t, "level")
		expect := f.expect
		if l == gen.LvlCRLNoColl {
			expect = "reject"
		}
		if expect == "accept" && l != gen.LvlBase && f.name != "control-untouched" && f.name != "control-body-field-changed-resigned" && f.name != "control-key-replaced-rehashed-qe-signed-pck" {
			// controls that alter QE report fields or the leaf are only guaranteed at the base level
			l = gen.LvlBase
		}
		gen.Sample("forgery", map[string]any{"forgery": f.name, "expect": expect, "level": l.String(), "auth": len(q.Auth)})
		c01Verify(t, w, raw, l, expect, f.name)
	})

	// (3) random multi-byte mutation, including splices from a second valid quote.
	gen.Prop(t, "mutation", gen.N(6000, 500000), func(t *rapid.T) {
		w, _ := gen.DrawWorld(t, gen.WorldCfg{MaxAuth: 80, Simple: true})
		w.Build()
		mut := append([]byte{}, w.Raw...)
		var other []byte
		signedLen := 1220 + len(w.Q.Auth)
		n := rapid.IntRange(1, 8).Draw(t, "edits")
		for i := 0; i < n; i++ {
			if len(mut) < 2 {
				break
			}
			// bias positions to the signed regions
			var pos int
			if rapid.IntRange(0, 3).Draw(t, "where") > 0 && signedLen < len(mut) {
				pos = rapid.IntRange(0, signedLen-1).Draw(t, "pos")
			} else {
				pos = rapid.IntRange(0, len(mut)-1).Draw(t, "pos")
			}
			switch rapid.SampledFrom([]string{"flip", "flip", "overwrite", "insert", "delete", "splice"}).Draw(t, "op") {
			case "flip":
				mut[pos] ^= 1 << uint(rapid.IntRange(0, 7).Draw(t, "bit"))
			case "overwrite":
				mut[pos] = rapid.Byte().Draw(t, "byte")
			case "insert":
				mut = append(mut[:pos], append([]byte{rapid.Byte().Draw(t, "ins")}, mut[pos:]...)...)
			case "delete":
				mut = append(mut[:pos], mut[pos+1:]...)
			case "splice":
				if other == nil {
					w2 := gen.NewWorld(w.PKI, gen.NewStream(rapid.Uint64().Draw(t, "other"), "c01other"))
					w2.Q.Auth = append([]byte{}, w.Q.Auth...)
					w2.Sgx = w.Sgx
					w2.Build()
					other = w2.Raw
				}
				ln := rapid.IntRange(1, 128).Draw(t, "spliceLen")
				if pos+ln <= len(mut) && pos+ln <= len(other) {
					copy(mut[pos:pos+ln], other[pos:pos+ln])
				}
			}
		}
		if bytes.Equal(mut, w.Raw) {
			return
		}
		c01Verify(t, w, mut, rapid.SampledFrom(levels[:3]).Draw(t, "level"), "", "random-mutation")
	})
	c01LongHistories(t)
}

func init() {
	replayKinds["intel-bit"] = func(c map[string]any) string {
		mut := append([]byte{}, testdata.RawQuote...)
		mut[int(c["offset"].(float64))] ^= 1 << uint(c["bit"].(float64))
		at := time.Date(2023, time.July, 1, 1, 0, 0, 0, time.UTC)
		ts := verify.TimeSet{PckCertChain: at, TcbInfo: at, QeIdentity: at, PckCrl: at, RootCaCrl: at}
		o := &verify.Options{Now: &ts, Getter: gen.FailGetter{}}
		if v := gen.Call(func() error { return verify.RawTdxQuote(mut, o) }); v.Accepted() {
			return "bit-flipped Intel sample accepted"
		}
		return ""
	}
}
