package props

import (
	"bytes"
	"encoding/binary"
	"encoding/hex"
	"fmt"
	"google.golang.org/protobuf/proto"
	"runtime"
	"sort"
	"strings"
	"testing"
	"time"

	ccpb "github.com/google/go-tdx-guest/proto/checkconfig"
	"github.com/google/go-tdx-guest/validate"
	"pgregory.net/rapid"
	"verifharness/gen"
)

func fieldsToPolicy(p *gen.PolicyFields, noHeader, noBody bool) *ccpb.Policy {
	pol := &ccpb.Policy{}
	if !noHeader {
		pol.HeaderPolicy = &ccpb.HeaderPolicy{MinimumQeSvn: p.MinQeSvn, MinimumPceSvn: p.MinPceSvn, QeVendorId: p.QeVendorID}
	}
	if !noBody {
		pol.TdQuoteBodyPolicy = &ccpb.TDQuoteBodyPolicy{MinimumTeeTcbSvn: p.MinTeeTcbSvn, MrSeam: p.MrSeam, TdAttributes: p.TdAttributes, Xfam: p.Xfam,
			MrTd: p.MrTd, MrConfigId: p.MrConfigID, MrOwner: p.MrOwner, MrOwnerConfig: p.MrOwnerConfig, Rtmrs: p.Rtmrs, ReportData: p.ReportData, AnyMrTd: p.AnyMrTd}
	}
	return pol
}

type c14Class struct {
	mustFail    string // non-empty: conversion must fail for this reason
	emptyNonNil bool   // some byte string is empty but non-nil (don't-care for conversion)
	badCount    bool   // rtmrs count not in {0,4}
}

func c14Classify(p *gen.PolicyFields) c14Class {
	var c c14Class
	if p.MinQeSvn > 65535 {
		c.mustFail = "minimum_qe_svn > 65535"
	}
	if p.MinPceSvn > 65535 {
		c.mustFail = "minimum_pce_svn > 65535"
	}
	chk := func(name string, size int, b []byte) {
		if b != nil && len(b) == 0 {
			c.emptyNonNil = true
		}
		if len(b) != 0 && len(b) != size {
			c.mustFail = name + " has wrong length"
		}
	}
	chk("qe_vendor_id", 16, p.QeVendorID)
	chk("minimum_tee_tcb_svn", 16, p.MinTeeTcbSvn)
	chk("mr_seam", 48, p.MrSeam)
	chk("td_attributes", 8, p.TdAttributes)
	chk("xfam", 8, p.Xfam)
	chk("mr_td", 48, p.MrTd)
	chk("mr_config_id", 48, p.MrConfigID)
	chk("mr_owner", 48, p.MrOwner)
	chk("mr_owner_config", 48, p.MrOwnerConfig)
	chk("report_data", 64, p.ReportData)
	for _, r := range p.Rtmrs {
		chk("rtmrs[i]", 48, r)
	}
	for _, r := range p.AnyMrTd {
		chk("any_mr_td[i]", 48, r)
	}
	if len(p.Rtmrs) != 0 && len(p.Rtmrs) != 4 {
		c.badCount = true
	}
	return c
}

// literal returns the message's literal meaning for the model: empty == unset.
func literal(p *gen.PolicyFields, noHeader, noBody bool) *gen.PolicyFields {
	z := func(b []byte) []byte {
		if len(b) == 0 {
			return nil
		}
		return b
	}
	l := &gen.PolicyFields{}
	if !noHeader {
		l.MinQeSvn, l.MinPceSvn, l.QeVendorID = p.MinQeSvn, p.MinPceSvn, z(p.QeVendorID)
	}
	if !noBody {
		l.MinTeeTcbSvn, l.MrSeam, l.TdAttributes, l.Xfam, l.MrTd = z(p.MinTeeTcbSvn), z(p.MrSeam), z(p.TdAttributes), z(p.Xfam), z(p.MrTd)
		l.MrConfigID, l.MrOwner, l.MrOwnerConfig, l.ReportData = z(p.MrConfigID), z(p.MrOwner), z(p.MrOwnerConfig), z(p.ReportData)
		l.Rtmrs, l.AnyMrTd = p.Rtmrs, p.AnyMrTd
	}
	return l
}

func c14Oracle(q *gen.RefQuote, p *gen.PolicyFields, noHeader, noBody, nilPolicy bool) (string, string, string) {
	var pol *ccpb.Policy
	if !nilPolicy {
		pol = fieldsToPolicy(p, noHeader, noBody)
	} else {
		noHeader, noBody = true, true
	}
	lit := literal(p, noHeader, noBody)
	cls := c14Classify(lit)
	{ // empty-but-non-nil is judged on the message as built (before the literal reading drops it)
		shown := *p
		if noHeader {
			shown.QeVendorID = nil
		}
		if noBody {
			shown = gen.PolicyFields{QeVendorID: shown.QeVendorID}
		}
		cls.emptyNonNil = c14Classify(&shown).emptyNonNil
	}
	gen.Eval()
	var opts *validate.Options
	v := gen.Call(func() error {
		var err error
		opts, err = validate.PolicyToOptions(pol)
		return err
	})
	if v.Panicked() {
		return "panic@" + gen.PanicSite(v.Stack), "conversion fails or yields options", v.Panic
	}
	if cls.mustFail != "" {
		gen.Class("mustfail")
		gen.NonTrivial("mustfail", cls.mustFail, fmt.Sprint(fieldsJSON(lit)))
		if v.Accepted() {
			// pin the key to the kind of field, not to its content
			return "converts-malformed:" + cls.mustFail, "conversion fails on over-wide SVN minimums and wrongly sized byte strings", "PolicyToOptions returned options for a policy where " + cls.mustFail
		}
		return "", "", ""
	}
	if !v.Accepted() {
		if cls.emptyNonNil || cls.badCount {
			gen.Class("dontcare:conversion-fails-on-empty-or-count")
			return "", "", ""
		}
		return "rejects-wellformed-policy", "a policy whose every field is absent or correctly sized converts", v.String()
	}
	gen.Class("converted")
	// converted: validation must not crash and must mean what the message says
	mv := gen.PolicyModel(q, lit)
	m := q.ToProto()
	vv := gen.Call(func() error { return validate.TdxQuote(m, opts) })
	if vv.Panicked() {
		return "converted-policy-crashes@" + gen.PanicSite(vv.Stack), "a policy that converts cannot crash validation", vv.Panic
	}
	if mv.DontCare {
		return "", "", ""
	}
	if mv.Malformed {
		// only reachable for rtmrs count (conversion is allowed to let it through only if validation then rejects)
		if vv.Accepted() {
			return "converted-malformed-accepted", "a policy that converts cannot be partly ignored", "RTMR list of wrong count converted and validation accepted"
		}
		return "", "", ""
	}
	n := 0
	for _, b := range [][]byte{lit.QeVendorID, lit.MinTeeTcbSvn, lit.MrSeam, lit.TdAttributes, lit.Xfam, lit.MrTd, lit.MrConfigID, lit.MrOwner, lit.MrOwnerConfig, lit.ReportData} {
		if len(b) > 0 {
			n++
		}
	}
	if n >= 2 || len(lit.Rtmrs) > 0 || len(lit.AnyMrTd) > 0 {
		gen.NonTrivial("converted", mv.Miss, fmt.Sprint(fieldsJSON(lit)), q.MrTd[:8])
	}
	if mv.Miss != "" && vv.Accepted() {
		return "partly-ignored:" + mv.Miss, "validation under converted options gives the verdict the message literally describes", "message expects " + mv.Miss + " which the quote misses, validation returned nil"
	}
	if mv.Miss == "" && !vv.Accepted() {
		return "converted-rejects-conforming", "validation under converted options gives the verdict the message literally describes", vv.String()
	}
	// The caller adjusts the options it got (pins its request's nonce, raises a minimum, ...) and the same message is
	// converted again, as for the next request: the new result describes the message, not the earlier caller's edits.
	opts.TdQuoteBodyOptions.ReportData = bytesOfLen(64, 0xee)
	opts.TdQuoteBodyOptions.MrTd = bytesOfLen(48, 0xdd)
	opts.TdQuoteBodyOptions.AnyMrTd = append(opts.TdQuoteBodyOptions.AnyMrTd, bytesOfLen(48, 0xcc))
	opts.TdQuoteBodyOptions.Rtmrs = [][]byte{bytesOfLen(48, 1), bytesOfLen(48, 2), bytesOfLen(48, 3), bytesOfLen(48, 4)}
	opts.HeaderOptions.MinimumQeSvn, opts.HeaderOptions.MinimumPceSvn = 65535, 65535
	opts.HeaderOptions.QeVendorID = bytesOfLen(16, 0xbb)
	var opts2 *validate.Options
	v2 := gen.Call(func() error {
		var err error
		opts2, err = validate.PolicyToOptions(pol)
		return err
	})
	if !v2.Accepted() {
		return "second-conversion-differs", "converting a message yields options that describe that message, whatever was done with the result of an earlier conversion", "first conversion succeeded, second: " + v2.String()
	}
	m2 := q.ToProto()
	vv2 := gen.Call(func() error { return validate.TdxQuote(m2, opts2) })
	if vv2.Panicked() || vv2.Accepted() != vv.Accepted() {
		return "second-conversion-differs", "converting a message yields options that describe that message, whatever was done with the result of an earlier conversion", fmt.Sprintf("first conversion: validation %s; the caller then changed the options it had received; second conversion of the same message: validation %s", vv, vv2)
	}
	return "", "", ""
}

func init() {
	replayKinds["policy"] = func(c map[string]any) string {
		raw, _ := hex.DecodeString(c["raw_hex"].(string))
		q, err := gen.RefParse(raw)
		if err != nil {
			return "bad replay quote"
		}
		p := fieldsFromJSON(c["policy"].(map[string]any))
		if key, oracle, detail := c14Oracle(q, p, c["no_header"] == true, c["no_body"] == true, c["nil_policy"] == true); key != "" {
			return key + " (" + oracle + "): " + detail
		}
		return ""
	}
}

// drawWideSvn draws an SVN minimum that does not fit in 16 bits: the first values past the field, the usual limits,
// and a low half the quote satisfies below one set bit at any position 16..31 (a range check done with the wrong mask
// would truncate it to a harmless minimum).
func drawWideSvn(t *rapid.T, label string, actual uint16) uint32 {
	low := rapid.SampledFrom([]uint32{0, uint32(actual), uint32(actual) / 2, 3}).Draw(t, label+"-low")
	switch rapid.IntRange(0, 2).Draw(t, label+"-kind") {
	case 0:
		return rapid.SampledFrom([]uint32{65536, 65537, 70000, 1 << 17, 1<<32 - 1, 1 << 31}).Draw(t, label+"-limit")
	case 1:
		return uint32(1)<<uint(rapid.IntRange(16, 31).Draw(t, label+"-bit")) | low
	default:
		return uint32(rapid.IntRange(1, 15).Draw(t, label+"-nibble"))<<uint(4*rapid.IntRange(4, 7).Draw(t, label+"-pos")) | low
	}
}

func TestC14(t *testing.T) {
	replayDir(t, "C14")
	run := func(t *rapid.T, sparse bool) {
		s := gen.NewStream(rapid.Uint64().Draw(t, "content"), "c14")
		q := drawPolicyQuote(t, s)
		binary.LittleEndian.PutUint64(q.Xfam[:], gen.XfamFixed1|(s.Uint64()&gen.XfamFixed0))
		binary.LittleEndian.PutUint64(q.TdAttr[:], s.Uint64()&gen.TdAttrAllowed)
		var p *gen.PolicyFields
		if sparse {
			p = &gen.PolicyFields{}
			switch rapid.IntRange(0, 13).Draw(t, "which") {
			case 0:
				p.QeVendorID = drawField(t, "f", q.VendorID[:], s)
			case 1:
				p.MrSeam = drawField(t, "f", q.MrSeam[:], s)
			case 2:
				p.TdAttributes = drawField(t, "f", q.TdAttr[:], s)
			case 3:
				p.Xfam = drawField(t, "f", q.Xfam[:], s)
			case 4:
				p.MrTd = drawField(t, "f", q.MrTd[:], s)
			case 5:
				p.MrConfigID = drawField(t, "f", q.MrConfigID[:], s)
			case 6:
				p.MrOwner = drawField(t, "f", q.MrOwner[:], s)
			case 7:
				p.MrOwnerConfig = drawField(t, "f", q.MrOwnerConfig[:], s)
			case 8:
				p.ReportData = drawField(t, "f", q.ReportData[:], s)
			case 9:
				i := rapid.IntRange(0, 3).Draw(t, "rtmr")
				p.Rtmrs = make([][]byte, 4)
				p.Rtmrs[i] = drawField(t, "f", q.Rtmr[i][:], s)
			case 10:
				p.AnyMrTd = drawList(t, "any", [][]byte{q.MrTd[:]}, s, 4, 0)
			case 11:
				p.MinTeeTcbSvn = drawMinTee(t, q.TeeTcbSvn[:], s)
			case 12:
				p.MinQeSvn = rapid.OneOf(rapid.SampledFrom([]uint32{0, 1, 65535, 65536, 1<<32 - 1, uint32(binary.LittleEndian.Uint16(q.Word10[:]))}), rapid.Just(drawWideSvn(t, "minqe-wide", binary.LittleEndian.Uint16(q.Word10[:])))).Draw(t, "minqe")
			case 13:
				p.MinPceSvn = rapid.OneOf(rapid.SampledFrom([]uint32{0, 1, 65535, 65536, 1<<32 - 1, uint32(binary.LittleEndian.Uint16(q.Word8[:])) + 1}), rapid.Just(drawWideSvn(t, "minpce-wide", binary.LittleEndian.Uint16(q.Word8[:])))).Draw(t, "minpce")
			}
		} else {
			p = drawPolicyFields(t, q, s)
			if rapid.IntRange(0, 4).Draw(t, "widesvn") == 0 {
				p.MinQeSvn = drawWideSvn(t, "wideqe", binary.LittleEndian.Uint16(q.Word10[:]))
			}
			if rapid.IntRange(0, 4).Draw(t, "widesvn2") == 0 {
				p.MinPceSvn = drawWideSvn(t, "widepce", binary.LittleEndian.Uint16(q.Word8[:]))
			}
		}
		shape := rapid.SampledFrom([]string{"full", "full", "full", "no-header", "no-body", "neither", "nil"}).Draw(t, "shape")
		noH, noB, nilP := shape == "no-header" || shape == "neither", shape == "no-body" || shape == "neither", shape == "nil"
		gen.Class("shape:" + shape)
		gen.Sample("policy", map[string]any{"policy": fieldsJSON(p), "shape": shape})
		if key, oracle, detail := c14Oracle(q, p, noH, noB, nilP); key != "" {
			gen.Fail(t, gen.Violation{Key: key, Oracle: oracle, Detail: detail,
				Replay: map[string]any{"kind": "policy", "raw_hex": hex.EncodeToString(q.Encode()), "policy": fieldsJSON(p), "no_header": noH, "no_body": noB, "nil_policy": nilP}})
		}
	}
	// Long allow-lists against values at the ends of the byte order: the quote's MR_TD all-ones, all-zero, just above /
	// below every entry, equal to the first / the last / a middle entry; lists of 1 .. 65 well-formed entries, as drawn,
	// ascending and descending.
	// one converted policy serving a history of validations: an allow-list of 3..7 entries, quotes whose MR_TD is this
	// or that entry of it (or none); every verdict is membership in the list AS WRITTEN, the message is what it was
	// afterwards, and a second conversion means the same
	gen.Prop(t, "allow-list-histories-on-one-options-value", gen.N(2500, 150000), func(t *rapid.T) {
		s := gen.NewStream(rapid.Uint64().Draw(t, "content"), "c14hist")
		n := rapid.SampledFrom([]int{3, 4, 5, 7, 8, 9, 10, 12, 17}).Draw(t, "entries")
		list := make([][]byte, n)
		for k := range list {
			list[k] = s.Bytes(48)
		}
		pf := &gen.PolicyFields{AnyMrTd: list}
		pol := fieldsToPolicy(pf, false, false)
		keep := proto.Clone(pol).(*ccpb.Policy)
		opts, err := validate.PolicyToOptions(pol)
		if err != nil {
			gen.Fail(t, gen.Violation{Key: "rejects-wellformed-policy", Oracle: "a policy whose every field is absent or correctly sized converts", Detail: err.Error(), Replay: map[string]any{"kind": "c14-allow-list-history"}})
			return
		}
		want := func(mr []byte) bool {
			for _, e := range keep.GetTdQuoteBodyPolicy().GetAnyMrTd() {
				if bytes.Equal(e, mr) {
					return true
				}
			}
			return false
		}
		var hist []string
		steps := rapid.IntRange(2, 7).Draw(t, "validations")
		for i := 0; i < steps; i++ {
			k := rapid.IntRange(-1, n-1).Draw(t, "entry")
			q := gen.RandomRefQuote(s, 8, 16, 0)
			binary.LittleEndian.PutUint64(q.Xfam[:], gen.XfamFixed1)
			binary.LittleEndian.PutUint64(q.TdAttr[:], 0)
			if k >= 0 {
				copy(q.MrTd[:], list[k])
			}
			o := opts
			if i > 0 && rapid.IntRange(0, 3).Draw(t, "convertAgain") == 0 {
				if o, err = validate.PolicyToOptions(pol); err != nil {
					gen.Fail(t, gen.Violation{Key: "second-conversion-fails", Oracle: "converting a policy message either fails or yields options that mean what the message says", Detail: fmt.Sprintf("after %v: %v", hist, err), Replay: map[string]any{"kind": "c14-allow-list-history"}})
					return
				}
				hist = append(hist, "convert again")
			}
			m := q.ToProto()
			gen.Eval()
			v := gen.Call(func() error { return validate.TdxQuote(m, o) })
			hist = append(hist, fmt.Sprintf("MR_TD=entry %d -> %s", k, v.Short()))
			if v.Panicked() || v.Accepted() != want(q.MrTd[:]) {
				gen.Fail(t, gen.Violation{Key: fmt.Sprintf("allow-list-history:%s", map[bool]string{true: "accepts-non-member", false: "rejects-member"}[v.Accepted()]), Oracle: "validation under the converted options gives the verdict the message literally describes (MR_TD is a member of any_mr_td), whatever was validated before", Detail: fmt.Sprintf("any_mr_td of %d entries; history %v", n, hist), Replay: map[string]any{"kind": "c14-allow-list-history", "history": hist}})
				return
			}
		}
		if !proto.Equal(pol, keep) {
			gen.Fail(t, gen.Violation{Key: "allow-list-history:policy-message-rewritten", Oracle: "validation under the converted options gives the verdict the message literally describes", Detail: fmt.Sprintf("after %v the caller's policy message is another message", hist), Replay: map[string]any{"kind": "c14-allow-list-history", "history": hist}})
			return
		}
		gen.NonTrivial("c14hist", fmt.Sprint(hist), list[0][:8])
		gen.Class("allow-list-history")
	})
	// a refused conversion is refused in the time it takes to read the message: 16000 wrongly sized list entries
	gen.Direct(t, "many-wrongly-sized-entries-in-bounded-time", func(t *testing.T) {
		if sh, _ := gen.Shard(); sh != 0 {
			return
		}
		for _, c := range []struct {
			n, size int
		}{{16000, 1}, {16000, 47}, {4000, 49}} {
			list := make([][]byte, c.n)
			for k := range list {
				list[k] = bytes.Repeat([]byte{byte(k)}, c.size)
			}
			pol := fieldsToPolicy(&gen.PolicyFields{AnyMrTd: list}, false, false)
			gen.Eval()
			runtime.GC()
			cpu0 := gen.CPUSeconds()
			v, hung := gen.CallWatch(20*time.Second, func() error { _, err := validate.PolicyToOptions(pol); return err })
			cpu := gen.CPUSeconds() - cpu0
			rp := map[string]any{"kind": "c14-many-entries", "entries": c.n, "size": c.size}
			// (reading the message takes microseconds; the bound is on processor time, which a busy machine does not stretch)
			if hung || v.Panicked() || cpu > 1 {
				gen.Fail(t, gen.Violation{Key: "no-answer:many-wrongly-sized-entries", Oracle: "conversion fails whenever a byte-string expectation is non-empty and of the wrong length", Detail: fmt.Sprintf("any_mr_td with %d entries of %d bytes: no answer within 20 s / %.1f s of processor time where reading the message takes microseconds %s", c.n, c.size, cpu, v.Panic), Replay: rp})
				return
			}
			if v.Accepted() {
				gen.Fail(t, gen.Violation{Key: "converts-malformed:many-entries", Oracle: "conversion fails whenever a byte-string expectation is non-empty and of the wrong length", Detail: fmt.Sprintf("any_mr_td with %d entries of %d bytes converted", c.n, c.size), Replay: rp})
				return
			}
			gen.NonTrivial("c14many", c.n, c.size)
		}
		gen.Class("many-wrongly-sized-entries")
	})
	// every ordered pair of expectations, the first one met and the second one missed (nothing else stated): the quote
	// misses the policy, whichever two they are and in whichever order an implementation looks at them
	gen.Direct(t, "one-expectation-met-one-missed", func(t *testing.T) {
		type setter struct {
			name string
			set  func(p *gen.PolicyFields, q *gen.RefQuote, met bool)
		}
		flipb := func(b []byte, met bool) []byte {
			c := append([]byte{}, b...)
			if !met {
				c[len(c)/2] ^= 0x04
			}
			return c
		}
		setters := []setter{
			{"qe_vendor_id", func(p *gen.PolicyFields, q *gen.RefQuote, met bool) { p.QeVendorID = flipb(q.VendorID[:], met) }},
			{"mr_seam", func(p *gen.PolicyFields, q *gen.RefQuote, met bool) { p.MrSeam = flipb(q.MrSeam[:], met) }},
			{"td_attributes", func(p *gen.PolicyFields, q *gen.RefQuote, met bool) { p.TdAttributes = flipb(q.TdAttr[:], met) }},
			{"xfam", func(p *gen.PolicyFields, q *gen.RefQuote, met bool) { p.Xfam = flipb(q.Xfam[:], met) }},
			{"mr_td", func(p *gen.PolicyFields, q *gen.RefQuote, met bool) { p.MrTd = flipb(q.MrTd[:], met) }},
			{"mr_config_id", func(p *gen.PolicyFields, q *gen.RefQuote, met bool) { p.MrConfigID = flipb(q.MrConfigID[:], met) }},
			{"mr_owner", func(p *gen.PolicyFields, q *gen.RefQuote, met bool) { p.MrOwner = flipb(q.MrOwner[:], met) }},
			{"mr_owner_config", func(p *gen.PolicyFields, q *gen.RefQuote, met bool) { p.MrOwnerConfig = flipb(q.MrOwnerConfig[:], met) }},
			{"report_data", func(p *gen.PolicyFields, q *gen.RefQuote, met bool) { p.ReportData = flipb(q.ReportData[:], met) }},
			{"rtmrs", func(p *gen.PolicyFields, q *gen.RefQuote, met bool) {
				p.Rtmrs = [][]byte{append([]byte{}, q.Rtmr[0][:]...), append([]byte{}, q.Rtmr[1][:]...), flipb(q.Rtmr[2][:], met), append([]byte{}, q.Rtmr[3][:]...)}
			}},
			{"rtmrs-one-register", func(p *gen.PolicyFields, q *gen.RefQuote, met bool) {
				p.Rtmrs = [][]byte{nil, nil, nil, flipb(q.Rtmr[3][:], met)}
			}},
			{"any_mr_td", func(p *gen.PolicyFields, q *gen.RefQuote, met bool) {
				other := flipb(q.MrTd[:], false)
				other[0] ^= 0x80
				p.AnyMrTd = [][]byte{other, flipb(q.MrTd[:], met)}
			}},
			{"minimum_qe_svn", func(p *gen.PolicyFields, q *gen.RefQuote, met bool) {
				v := uint32(binary.LittleEndian.Uint16(q.Word10[:]))
				if !met {
					v++
				}
				p.MinQeSvn = v
			}},
			{"minimum_pce_svn", func(p *gen.PolicyFields, q *gen.RefQuote, met bool) {
				v := uint32(binary.LittleEndian.Uint16(q.Word8[:]))
				if !met {
					v++
				}
				p.MinPceSvn = v
			}},
			{"minimum_tee_tcb_svn", func(p *gen.PolicyFields, q *gen.RefQuote, met bool) {
				m := append([]byte{}, q.TeeTcbSvn[:]...)
				if !met {
					m[7]++
				}
				p.MinTeeTcbSvn = m
			}},
		}
		i := 0
		for _, a := range setters {
			for _, b := range setters {
				if a.name == b.name || (strings.HasPrefix(a.name, "rtmrs") && strings.HasPrefix(b.name, "rtmrs")) || (a.name == "mr_td" && b.name == "any_mr_td") || (a.name == "any_mr_td" && b.name == "mr_td") {
					continue
				}
				i++
				if !gen.ShardOwns(i) {
					continue
				}
				s := gen.NewStream(gen.Seed()+uint64(i), "c14pair")
				q := gen.RandomRefQuote(s, 8, 16, 0)
				binary.LittleEndian.PutUint64(q.Xfam[:], gen.XfamFixed1)
				binary.LittleEndian.PutUint64(q.TdAttr[:], 0)
				binary.LittleEndian.PutUint16(q.Word8[:], uint16(1+s.Intn(60000)))
				binary.LittleEndian.PutUint16(q.Word10[:], uint16(1+s.Intn(60000)))
				q.TeeTcbSvn[7] = byte(s.Intn(200))
				pf := &gen.PolicyFields{}
				a.set(pf, q, true)
				b.set(pf, q, false)
				gen.NonTrivial("c14pair", a.name, b.name)
				if key, oracle, detail := c14Oracle(q, pf, false, false, false); key != "" {
					gen.Fail(t, gen.Violation{Key: key + ":pair", Oracle: oracle, Detail: fmt.Sprintf("%s met, %s missed, nothing else stated: %s", a.name, b.name, detail),
						Replay: map[string]any{"kind": "policy", "raw_hex": hex.EncodeToString(q.Encode()), "policy": fieldsJSON(pf), "no_header": false, "no_body": false, "nil_policy": false}})
					return
				}
			}
		}
		gen.Class("one-expectation-met-one-missed")
	})
	gen.Direct(t, "long-allow-lists-and-extreme-values", func(t *testing.T) {
		i := 0
		for _, n := range []int{1, 2, 15, 16, 17, 18, 32, 33, 64, 65} {
			for _, order := range []string{"as-drawn", "ascending", "descending"} {
				for _, val := range []string{"all-ones", "all-zero", "above-every-entry", "below-every-entry", "first-entry", "last-entry", "middle-entry", "random-absent"} {
					i++
					if !gen.ShardOwns(i) {
						continue
					}
					s := gen.NewStream(gen.Seed()+uint64(i), "c14long")
					q := gen.RandomRefQuote(s, 8, 16, 0)
					binary.LittleEndian.PutUint64(q.Xfam[:], gen.XfamFixed1)
					binary.LittleEndian.PutUint64(q.TdAttr[:], 0)
					list := make([][]byte, n)
					for k := range list {
						list[k] = s.Bytes(48)
						list[k][0] = byte(0x10 + s.Intn(0xd0)) // leaves room above and below
					}
					switch order {
					case "ascending":
						sort.Slice(list, func(a, b int) bool { return bytes.Compare(list[a], list[b]) < 0 })
					case "descending":
						sort.Slice(list, func(a, b int) bool { return bytes.Compare(list[a], list[b]) > 0 })
					}
					var mr []byte
					switch val {
					case "all-ones":
						mr = bytes.Repeat([]byte{0xff}, 48)
					case "all-zero":
						mr = make([]byte, 48)
					case "above-every-entry":
						mr = append([]byte{0xf0}, s.Bytes(47)...)
					case "below-every-entry":
						mr = append([]byte{0x01}, s.Bytes(47)...)
					case "first-entry":
						mr = append([]byte{}, list[0]...)
					case "last-entry":
						mr = append([]byte{}, list[n-1]...)
					case "middle-entry":
						mr = append([]byte{}, list[n/2]...)
					default:
						mr = s.Bytes(48)
					}
					copy(q.MrTd[:], mr)
					pf := &gen.PolicyFields{AnyMrTd: list}
					gen.Class("long-allow-list:" + val)
					gen.NonTrivial("long-list", n, order, val)
					if key, oracle, detail := c14Oracle(q, pf, false, false, false); key != "" {
						gen.Fail(t, gen.Violation{Key: key, Oracle: oracle, Detail: fmt.Sprintf("any_mr_td of %d entries (%s), quote's MR_TD %s: %s", n, order, val, detail),
							Replay: map[string]any{"kind": "policy", "raw_hex": hex.EncodeToString(q.Encode()), "policy": fieldsJSON(pf), "no_header": false, "no_body": false, "nil_policy": false}})
						return
					}
				}
			}
		}
		gen.Exhaustive("10 list lengths x 3 orders x 8 positions of the quote's MR_TD relative to the list", true)
	})
	gen.Prop(t, "dense", gen.N(40000, 4000000), func(t *rapid.T) { run(t, false) })
	gen.Prop(t, "sparse", gen.N(40000, 4000000), func(t *rapid.T) { run(t, true) })
}
