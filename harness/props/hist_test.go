package props

import (
	"bytes"
	"crypto/x509"
	"fmt"
	"github.com/google/go-tdx-guest/abi"
	"github.com/google/go-tdx-guest/pcs"
	"github.com/google/go-tdx-guest/verify/trust"
	"hash/crc32"
	"math/big"
	"strings"
	"testing"

	"github.com/google/go-tdx-guest/verify"
	"pgregory.net/rapid"
	"verifharness/gen"
)

// Long histories in ONE process over many distinct platforms, PKIs and issuer chains. Verification is a function of
// the quote, the options and the fetched data; nothing the process has seen before may change a verdict. Each step is
// judged by the same stateless expectation as a lone call. (State of the library that only shows after dozens of
// distinct certificates - a cache that evicts, a table that wraps - shows here.)

type histWorld struct {
	w *gen.World
	// forged is a quote that carries THIS world's certificate chain but whose QE report is signed by the PCK key of
	// another world (and whose body is signed by that world's attestation key): a complete forgery under this chain
	forged []byte
}

func histWorlds(s *gen.Stream, n int, tag string) ([]histWorld, *x509.CertPool) {
	ws := make([]histWorld, n)
	var roots []*gen.Cert
	for i := range ws {
		p := gen.NewPKI(gen.PKISpec{Seed: fmt.Sprintf("hist-%s-%d", tag, i)})
		w := gen.NewWorld(p, gen.NewStream(s.Uint64(), "hist"))
		w.Q.Auth = s.Bytes([]int{32, 0, 7}[i%3])
		w.HonestCollateral()
		w.Build()
		ws[i].w = w
		roots = append(roots, p.Root)
	}
	for i := range ws {
		o := ws[(i+1)%n].w
		q := o.Q.Clone() // signed by the other world's keys throughout
		q.Chain = ws[i].w.Q.Chain
		q.FixSizes()
		ws[i].forged = q.Encode()
	}
	return ws, gen.PoolOf(roots...)
}

func histVerify(w *gen.World, raw []byte, l gen.Level, pool *x509.CertPool) gen.Verdict {
	o := w.Options(l, w.NewGetter(), pool)
	gen.Eval()
	return gen.Call(func() error { return verify.RawTdxQuote(raw, o) })
}

// c11LongHistories: every honest world is accepted at every level, also when it comes back after many others.
func c11LongHistories(t *testing.T) {
	gen.Prop(t, "long-histories", gen.N(6, 400), func(t *rapid.T) {
		s := gen.NewStream(rapid.Uint64().Draw(t, "content"), "c11hist")
		n := rapid.SampledFrom([]int{20, 40, 70, 100, 140}).Draw(t, "distinctPlatforms")
		ws, pool := histWorlds(s, n, "c11")
		levels := []gen.Level{gen.LvlBase, gen.LvlColl, gen.LvlCRL}
		step := 0
		visit := func(i int, l gen.Level, phase string) bool {
			step++
			if v := histVerify(ws[i].w, ws[i].w.Raw, l, pool); !v.Accepted() {
				key := fmt.Sprintf("rejects-honest:history:%s:%s", l, errClass(v.Err))
				if v.Panicked() {
					key = "panic@" + gen.PanicSite(v.Stack)
				}
				gen.Fail(t, gen.Violation{Key: key, Oracle: "every honest in-date quote is accepted at every level (whatever the process has verified before)", Detail: fmt.Sprintf("step %d (%s) of a history over %d distinct platforms: platform %d at level %s: %s", step, phase, n, i, l, v), Replay: ws[i].w.CaseFile(l, nil, nil, nil, "accept")})
				return false
			}
			return true
		}
		for _, l := range levels {
			if !visit(0, l, "first visit") {
				return
			}
		}
		for i := 1; i < n; i++ {
			if !visit(i, levels[s.Intn(3)], "first visit") {
				return
			}
		}
		for i := 0; i < n && i < 12; i++ {
			for _, l := range levels {
				if !visit(i, l, "revisit") {
					return
				}
			}
		}
		gen.NonTrivial("c11hist", n, ws[0].w.Raw[:64])
		gen.Class(fmt.Sprintf("long-history:platforms>64=%v", n > 64))
	})
}

// c01LongHistories: a forged quote under a platform's chain is rejected and the platform's genuine quote accepted,
// also when the platform comes back after many others.
func c01LongHistories(t *testing.T) {
	gen.Prop(t, "long-histories", gen.N(6, 400), func(t *rapid.T) {
		s := gen.NewStream(rapid.Uint64().Draw(t, "content"), "c01hist")
		n := rapid.SampledFrom([]int{10, 34, 40, 70, 130}).Draw(t, "distinctPlatforms")
		ws, pool := histWorlds(s, n, "c01")
		step := 0
		check := func(i int, forged bool, phase string) bool {
			step++
			raw, want := ws[i].w.Raw, true
			if forged {
				raw, want = ws[i].forged, false
			}
			v := histVerify(ws[i].w, raw, gen.LvlBase, pool)
			if v.Panicked() || v.Accepted() != want {
				key := "history:accepts-forgery-under-another-platforms-chain"
				if want {
					key = "history:rejects-genuine"
				}
				if v.Panicked() {
					key = "panic@" + gen.PanicSite(v.Stack)
				}
				gen.Fail(t, gen.Violation{Key: key, Oracle: "accepted => header/body signature, hash binding and QE report signature all hold on the given bytes, under the chain the quote carries (whatever the process has verified before)",
					Detail: fmt.Sprintf("step %d (%s) of a history over %d distinct platforms: platform %d, forged=%v: %s", step, phase, n, i, forged, v), Replay: ws[i].w.CaseFile(gen.LvlBase, raw, nil, nil, map[bool]string{true: "accept", false: "reject"}[want])})
				return false
			}
			return true
		}
		for i := 0; i < n; i++ {
			if !check(i, s.Intn(4) == 0, "first visit") {
				return
			}
		}
		for i := 0; i < n && i < 12; i++ {
			if !check(i, true, "revisit") || !check(i, false, "revisit") {
				return
			}
		}
		gen.NonTrivial("c01hist", n, ws[0].w.Raw[:64])
		gen.Class(fmt.Sprintf("long-history:platforms>32=%v", n > 32))
	})
}

// c03LongHistories: collateral signed under a root the relying party does not trust is refused, also when the same
// answer is served again after many other issuer chains were judged against the same trusted pool.
func c03LongHistories(t *testing.T) {
	gen.Prop(t, "long-histories", gen.N(6, 400), func(t *rapid.T) {
		s := gen.NewStream(rapid.Uint64().Draw(t, "content"), "c03hist")
		n := rapid.SampledFrom([]int{6, 15, 16, 17, 18, 33, 40, 70}).Draw(t, "distinctIssuerChains")
		ws, pool := histWorlds(s, n, "c03")
		foreign := gen.NewPKI(gen.PKISpec{Seed: "hist-c03-foreign"})
		// world 0 answered by a foreign PCS: documents that say what the platform needs, signed under a root outside the pool
		bad := *ws[0].w
		bad.Resp = map[string]gen.Response{}
		for u, r := range ws[0].w.Resp {
			bad.Resp[u] = r
		}
		k := rapid.SampledFrom([]c03Kind{kindTcb, kindQe}).Draw(t, "document")
		hdr := gen.IssuerChainHeader(foreign.TcbSig, foreign.Root)
		bad.Resp[k.url(&bad)] = gen.Response{Header: map[string][]string{k.hdr: {hdr}}, Body: gen.SignedBody(k.member, k.render(&bad), foreign.TcbSig.Key)}
		step := 0
		judgeBad := func(phase string) bool {
			step++
			v := histVerify(&bad, bad.Raw, gen.LvlColl, pool)
			if v.Panicked() || v.Accepted() {
				key := "accepts-unauthentic:history:foreign-signer"
				if v.Panicked() {
					key = "panic@" + gen.PanicSite(v.Stack)
				}
				gen.Fail(t, gen.Violation{Key: key, Oracle: "collateral counts only if its signer chains to a trusted root (whatever was judged before against the same pool)", Detail: fmt.Sprintf("step %d (%s) of a history over %d issuer chains: %s signed under an untrusted root: %s", step, phase, n, k.name, v), Replay: bad.CaseFile(gen.LvlColl, nil, nil, nil, "reject")})
				return false
			}
			return true
		}
		if !judgeBad("first") {
			return
		}
		gap := rapid.SampledFrom([]int{n - 1, 14, 15, 16, 31}).Draw(t, "chainsInBetween")
		for i := 1; i < n && i <= gap; i++ {
			step++
			if v := histVerify(ws[i].w, ws[i].w.Raw, gen.LvlColl, pool); !v.Accepted() {
				gen.Fail(t, gen.Violation{Key: "rejects-authentic:history:" + errClass(v.Err), Oracle: "authentic collateral under a trusted root is accepted", Detail: fmt.Sprintf("step %d: world %d: %s", step, i, v), Replay: ws[i].w.CaseFile(gen.LvlColl, nil, nil, nil, "accept")})
				return
			}
			if i%5 == 0 && !judgeBad("in between") {
				return
			}
		}
		// the first genuine verification of world 0 (a first-time success right before the replay)
		step++
		if v := histVerify(ws[0].w, ws[0].w.Raw, gen.LvlColl, pool); !v.Accepted() {
			gen.Fail(t, gen.Violation{Key: "rejects-authentic:history:" + errClass(v.Err), Oracle: "authentic collateral under a trusted root is accepted", Detail: fmt.Sprintf("step %d: world 0 genuine: %s", step, v), Replay: ws[0].w.CaseFile(gen.LvlColl, nil, nil, nil, "accept")})
			return
		}
		if !judgeBad("replayed") {
			return
		}
		gen.NonTrivial("c03hist", n, gap, k.name)
		gen.Class(fmt.Sprintf("long-history:chains-in-between>=15=%v", gap >= 15 && n > 15))
	})
}

// optionsPrehistory makes the options value o one that has been in use: before the call a check is about, the caller
// made other calls with it - calls that failed early (bytes that are no quote, a chain that does not parse, a truncated
// quote), calls that failed in the collateral-free part (a tampered body, a tampered QE report), a download that
// failed, and the exported level report SupportedTcbLevelsFromCollateral before and after them. None of it changes
// what o asks for, so the verdict of the next call is that of a fresh options value. kind 0 = no earlier calls.
func optionsPrehistory(raw []byte, o *verify.Options, kind int, pre trust.HTTPSGetter) string {
	if kind <= 0 {
		return ""
	}
	// (the earlier calls go through a getter of their own - the caller's getter may answer differently from request to
	// request - and the options value gets its getter back before the call under test)
	if pre == nil {
		pre = gen.FailGetter{}
	}
	own := o.Getter
	o.Getter = pre
	defer func() { o.Getter = own }()
	var did []string
	call := func(name string, f func() error) {
		v := gen.Call(f)
		did = append(did, name+"->"+v.Short())
	}
	msg, _ := abi.QuoteToProto(append([]byte{}, raw...))
	early := func() {
		call("raw(not a quote)", func() error { return verify.RawTdxQuote([]byte("not a quote"), o) })
		damaged := append([]byte{}, raw...)
		if i := bytes.Index(damaged, []byte("-----BEGIN CERTIFICATE-----")); i >= 0 {
			copy(damaged[i:], "-----BEGIN CERTIFICATE+++++")
		}
		call("raw(chain does not parse)", func() error { return verify.RawTdxQuote(damaged, o) })
		if len(raw) > 600 {
			call("raw(truncated)", func() error { return verify.RawTdxQuote(raw[:600], o) })
		}
	}
	tampered := func() {
		b := append([]byte{}, raw...)
		if len(b) > 200 {
			b[48+100] ^= 0x04
			call("raw(body bit flipped)", func() error { return verify.RawTdxQuote(b, o) })
		}
		q := append([]byte{}, raw...)
		if len(q) > 1000 {
			q[770+130] ^= 0x01
			call("raw(QE report bit flipped)", func() error { return verify.RawTdxQuote(q, o) })
		}
	}
	report := func() {
		if msg != nil {
			call("SupportedTcbLevelsFromCollateral", func() error { _, _, err := verify.SupportedTcbLevelsFromCollateral(msg, o); return err })
		}
	}
	download := func() {
		o.Getter = gen.FailGetter{}
		call("raw(genuine, every download fails)", func() error { return verify.RawTdxQuote(raw, o) })
		report()
		o.Getter = pre
	}
	// what the caller did with values the API returned before: the PCK chain extracted from the quote (serial numbers
	// changed in place and by assignment - say, blanked for a log line) and the leaf's extension values (overwritten).
	// Returned values are the caller's; nothing the library uses later may be reachable through them.
	if msg != nil {
		if ch, err := verify.ExtractChainFromQuote(msg); err == nil && ch != nil {
			for _, c := range []*x509.Certificate{ch.PCKCertificate, ch.IntermediateCertificate, ch.RootCertificate} {
				if c != nil && c.SerialNumber != nil {
					c.SerialNumber.Add(c.SerialNumber, big.NewInt(1))
					c.SerialNumber = big.NewInt(7)
					c.NotAfter = c.NotAfter.AddDate(50, 0, 0)
				}
			}
			if ch.PCKCertificate != nil {
				if ext, err := pcs.PckCertificateExtensions(ch.PCKCertificate); err == nil && ext != nil {
					for i := range ext.TCB.CPUSvnComponents {
						ext.TCB.CPUSvnComponents[i] = 0xff
					}
					for i := range ext.TCB.CPUSvn {
						ext.TCB.CPUSvn[i] = 0xff
					}
					ext.TCB.PCESvn, ext.FMSPC, ext.PCEID = 0xffff, "ffffffffffff", "ffff"
				}
			}
			did = append(did, "returned chain and extension values overwritten")
		}
	}
	switch kind {
	case 1:
		early()
	case 2:
		tampered()
	case 3:
		report()
		download()
	case 4:
		report()
		early()
		report()
	default:
		report()
		early()
		tampered()
		download()
		report()
	}
	return "earlier calls on this options value: " + strings.Join(did, ", ")
}

// prehistoryKind picks the earlier calls of a case from its bytes (so that the case file alone reproduces it).
func prehistoryKind(raw []byte) int {
	k := int(crc32.ChecksumIEEE(raw) % 12)
	if k > 5 {
		return 0
	}
	return k
}
