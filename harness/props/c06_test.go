package props

import (
	"fmt"
	"testing"
	"time"

	"github.com/google/go-tdx-guest/verify"
	"pgregory.net/rapid"
	"verifharness/gen"
)

// Time-model (C06). Governing time indexes.
const (
	tChain = iota
	tTcb
	tQe
	tPckCrl
	tRootCrl
)

var timeNames = []string{"PckCertChain", "TcbInfo", "QeIdentity", "PckCrl", "RootCaCrl"}

// artifact is something with an expiry (and, for path-validated certificates, a start) judged at given times.
type artifact struct {
	name     string
	times    []int     // governing time indexes (the pool root is judged at three)
	nb       bool      // notBefore is verdict-relevant (certificate on a validated path)
	minLevel gen.Level // lowest level at which the artifact is in play
}

var c06Artifacts = []artifact{
	{"leaf", []int{tChain}, true, gen.LvlBase},
	{"intermediate", []int{tChain}, true, gen.LvlBase},
	{"quote-chain-root", []int{tChain}, false, gen.LvlBase},
	{"pool-root", []int{tChain, tTcb, tQe}, true, gen.LvlBase},
	{"tcbinfo-document", []int{tTcb}, false, gen.LvlColl},
	{"tcbinfo-signer", []int{tTcb}, true, gen.LvlColl},
	{"tcbinfo-header-root", []int{tTcb}, false, gen.LvlColl},
	{"qeidentity-document", []int{tQe}, false, gen.LvlColl},
	{"qeidentity-signer", []int{tQe}, true, gen.LvlColl},
	{"qeidentity-header-root", []int{tQe}, false, gen.LvlColl},
	{"pckcrl", []int{tPckCrl}, false, gen.LvlCRL},
	{"pckcrl-header-signer", []int{tPckCrl}, false, gen.LvlCRL},
	{"pckcrl-header-root", []int{tPckCrl}, false, gen.LvlCRL},
	{"rootcrl", []int{tRootCrl}, false, gen.LvlCRL},
}

type c06World struct {
	win   map[string]gen.Window
	times [5]time.Time
}

func (c *c06World) timeSet() verify.TimeSet {
	return verify.TimeSet{PckCertChain: c.times[0], TcbInfo: c.times[1], QeIdentity: c.times[2], PckCrl: c.times[3], RootCaCrl: c.times[4]}
}

// model returns the reason for rejection at level l, or "".
func (c *c06World) model(l gen.Level) string {
	for _, a := range c06Artifacts {
		if l < a.minLevel {
			continue
		}
		w := c.win[a.name]
		for _, ti := range a.times {
			if a.name == "pool-root" && ti != tChain && l < gen.LvlColl {
				continue
			}
			at := c.times[ti]
			if at.After(w.NotAfter) {
				return fmt.Sprintf("%s expired at %s", a.name, timeNames[ti])
			}
			if a.nb && at.Before(w.NotBefore) {
				return fmt.Sprintf("%s not yet valid at %s", a.name, timeNames[ti])
			}
		}
	}
	return ""
}

// build creates all certificates, documents and CRLs for the windows and returns the world and the pool root.
func (c *c06World) build(s *gen.Stream, id string) (*gen.World, *gen.Cert) {
	rootKey := "c06/" + id + "/root"
	mkRoot := func(name string, serial byte) *gen.Cert {
		w := c.win[name]
		return gen.MakeCert(gen.CertSpec{CN: gen.CNRoot, KeyLabel: rootKey, Serial: []byte{0x10, serial}, NotBefore: w.NotBefore, NotAfter: w.NotAfter, CA: true, CRLDP: []string{gen.RootCrlURL}}, nil)
	}
	poolRoot := mkRoot("pool-root", 1)
	quoteRoot := mkRoot("quote-chain-root", 2)
	tcbHdrRoot := mkRoot("tcbinfo-header-root", 3)
	qeHdrRoot := mkRoot("qeidentity-header-root", 4)
	crlHdrRoot := mkRoot("pckcrl-header-root", 5)
	mkInt := func(name string, serial byte) *gen.Cert {
		w := c.win[name]
		return gen.MakeCert(gen.CertSpec{CN: gen.CNPlatform, KeyLabel: "c06/" + id + "/int", Serial: []byte{0x20, serial}, NotBefore: w.NotBefore, NotAfter: w.NotAfter, CA: true, CRLDP: []string{gen.RootCrlURL}}, poolRoot)
	}
	inter := mkInt("intermediate", 1)
	crlHdrInt := mkInt("pckcrl-header-signer", 2)
	mkSigner := func(name, label string, serial byte) *gen.Cert {
		w := c.win[name]
		return gen.MakeCert(gen.CertSpec{CN: gen.CNTcbSigner, KeyLabel: "c06/" + id + "/" + label, Serial: []byte{0x30, serial}, NotBefore: w.NotBefore, NotAfter: w.NotAfter, CRLDP: []string{gen.RootCrlURL}}, poolRoot)
	}
	tcbSigner := mkSigner("tcbinfo-signer", "tcb", 1)
	qeSigner := mkSigner("qeidentity-signer", "qe", 2)
	p := &gen.PKI{Spec: gen.PKISpec{Seed: "c06/" + id}, Root: quoteRoot, Int: inter, TcbSig: tcbSigner, QeSig: qeSigner}
	w := gen.NewWorld(p, s)
	w.LeafSpec.W = c.win["leaf"]
	w.Times = c.timeSet()
	w.TcbInfo.NextUpdate = c.win["tcbinfo-document"].NotAfter
	w.QeID.NextUpdate = c.win["qeidentity-document"].NotAfter
	w.PckCrl.NextUpdate = c.win["pckcrl"].NotAfter
	w.RootCrl.NextUpdate = c.win["rootcrl"].NotAfter
	w.PckCrl.ThisUpdate = c.win["pckcrl"].NotAfter.AddDate(-40, 0, 0)
	w.RootCrl.ThisUpdate = c.win["rootcrl"].NotAfter.AddDate(-40, 0, 0)
	w.Build()
	// issuer-chain headers with their own root / signer variants
	r := w.Resp[gen.TcbInfoURL(w.FmspcHex())]
	r.Header = map[string][]string{gen.HdrTcbInfo: {gen.IssuerChainHeader(tcbSigner, tcbHdrRoot)}}
	w.Resp[gen.TcbInfoURL(w.FmspcHex())] = r
	r = w.Resp[gen.QeIdentityURL]
	r.Header = map[string][]string{gen.HdrQeID: {gen.IssuerChainHeader(qeSigner, qeHdrRoot)}}
	w.Resp[gen.QeIdentityURL] = r
	r = w.Resp[gen.PckCrlURL("platform")]
	r.Header = map[string][]string{gen.HdrPckCrl: {gen.IssuerChainHeader(crlHdrInt, crlHdrRoot)}}
	w.Resp[gen.PckCrlURL("platform")] = r
	return w, poolRoot
}

var farBefore = gen.T0.AddDate(-30, 0, 0)
var farAfter = gen.T0.AddDate(60, 0, 0)

func c06Fresh(times [5]time.Time) *c06World {
	c := &c06World{win: map[string]gen.Window{}, times: times}
	for _, a := range c06Artifacts {
		c.win[a.name] = gen.Window{NotBefore: farBefore, NotAfter: farAfter}
	}
	return c
}

func c06Check(t gen.TB, c *c06World, s *gen.Stream, id, desc string, levels []gen.Level) bool {
	w, poolRoot := c.build(s, id)
	pool := gen.PoolOf(poolRoot)
	for _, l := range levels {
		want := c.model(l)
		o := w.Options(l, w.NewGetter(), pool)
		gen.Eval()
		v := gen.Call(func() error { return verify.RawTdxQuote(w.Raw, o) })
		rp := w.CaseFile(l, nil, nil, []*gen.Cert{poolRoot}, map[bool]string{true: "reject", false: "accept"}[want != ""])
		if v.Panicked() {
			gen.Fail(t, gen.Violation{Key: "panic@" + gen.PanicSite(v.Stack), Oracle: "verification returns a verdict", Detail: desc + ": " + v.Panic, Replay: rp})
			return false
		}
		if want != "" && v.Accepted() {
			gen.Fail(t, gen.Violation{Key: "accepts-out-of-date:" + keyClass(want), Oracle: "accepted => every in-play artifact is in date at its own time", Detail: fmt.Sprintf("%s level=%s: model says %s", desc, l, want), Replay: rp})
			return false
		}
		if want == "" && !v.Accepted() {
			gen.Fail(t, gen.Violation{Key: "rejects-in-date:" + errClass(v.Err), Oracle: "each artifact is judged against its own entry of the time set (inclusive bounds)", Detail: fmt.Sprintf("%s level=%s: everything in date, library: %s", desc, l, v), Replay: rp})
			return false
		}
		gen.Class("model:" + map[bool]string{true: "reject", false: "accept"}[want != ""] + "@" + l.String())
		// monotonicity: once expired, later governing times stay rejected
		if want != "" && v.Rejected() {
			for ti := range timeNames {
				later := *c
				later.times = c.times
				later.times[ti] = c.times[ti].Add(time.Duration(1+s.Intn(5_000_000)) * time.Second)
				if later.model(l) == "" {
					continue // advancing this field un-does a not-yet-valid condition: not covered by the monotonicity clause
				}
				ts := later.timeSet()
				o2 := w.Options(l, w.NewGetter(), pool)
				o2.Now = &ts
				gen.Eval()
				if v2 := gen.Call(func() error { return verify.RawTdxQuote(w.Raw, o2) }); v2.Accepted() {
					gen.Fail(t, gen.Violation{Key: "expired-then-accepted-later", Oracle: "once expired, verification fails at that and every later time", Detail: fmt.Sprintf("%s level=%s: rejected, but accepted after advancing %s", desc, l, timeNames[ti]), Replay: rp})
					return false
				}
			}
		}
	}
	return true
}

func distinctTimes(s *gen.Stream) [5]time.Time {
	var ts [5]time.Time
	used := map[int64]bool{}
	for i := range ts {
		for {
			off := int64(s.Intn(20*365*86400)) - 10*365*86400
			if !used[off] {
				used[off] = true
				ts[i] = gen.T0.Add(time.Duration(off) * time.Second)
				break
			}
		}
	}
	return ts
}

func TestC06(t *testing.T) {
	replayDir(t, "C06")
	levels := []gen.Level{gen.LvlBase, gen.LvlColl, gen.LvlCRL}
	// (1) the boundary grid: every bound of every artifact x {-1s, 0, +1s} x each governing time, others far away.
	gen.Direct(t, "boundary-grid", func(t *testing.T) {
		reps := gen.N(1, 24)
		idx := 0
		for rep := 0; rep < reps; rep++ {
			s := gen.NewStream(gen.ProcSeed()*131+uint64(rep), "c06grid")
			for _, a := range c06Artifacts {
				for _, bound := range []string{"notAfter", "notBefore"} {
					if bound == "notBefore" && !a.nb {
						continue
					}
					for _, ti := range a.times {
						for _, off := range []int{-1, 0, 1} {
							idx++
							if gen.Tier() == "thorough" && !gen.ShardOwns(idx) {
								continue
							}
							c := c06Fresh(distinctTimes(s))
							w := c.win[a.name]
							at := c.times[ti].Add(time.Duration(-off) * time.Second) // governing time = bound + off
							if bound == "notAfter" {
								w.NotAfter = at
							} else {
								w.NotBefore = at
							}
							c.win[a.name] = w
							// the pool root is judged at three times: keep the other two inside the window
							if a.name == "pool-root" {
								for _, tj := range a.times {
									if tj == ti {
										continue
									}
									if bound == "notAfter" && c.times[tj].After(w.NotAfter) {
										c.times[tj] = w.NotAfter.Add(-time.Duration(1000+tj) * time.Hour)
									}
									if bound == "notBefore" && c.times[tj].Before(w.NotBefore) {
										c.times[tj] = w.NotBefore.Add(time.Duration(1000+tj) * time.Hour)
									}
								}
							}
							desc := fmt.Sprintf("%s.%s judged at %s = bound%+ds", a.name, bound, timeNames[ti], off)
							gen.NonTrivial(desc, rep)
							if idx%23 == 0 {
								gen.Sample("grid", desc)
							}
							if !c06Check(t, c, s, fmt.Sprintf("g%d", idx%7), desc, levels) {
								return
							}
						}
					}
				}
			}
		}
		gen.Exhaustive("boundary grid: every verdict-relevant bound x governing time x {-1s, at, +1s}, other artifacts decades away, five distinct times", true)
	})
	// (2) random assignments: several artifacts near / past their bounds at once.
	gen.Prop(t, "random-windows", gen.N(700, 60000), func(t *rapid.T) {
		s := gen.NewStream(rapid.Uint64().Draw(t, "content"), "c06r")
		c := c06Fresh(distinctTimes(s))
		k := rapid.IntRange(0, 3).Draw(t, "tight")
		var desc []string
		for i := 0; i < k; i++ {
			a := rapid.SampledFrom(c06Artifacts).Draw(t, "artifact")
			ti := rapid.SampledFrom(a.times).Draw(t, "time")
			off := rapid.SampledFrom([]int64{-86400 * 400, -3600, -1, 0, 1, 3600, 86400 * 400}).Draw(t, "offset")
			w := c.win[a.name]
			which := "notAfter"
			if a.nb && rapid.IntRange(0, 3).Draw(t, "nb") == 0 {
				which = "notBefore"
				w.NotBefore = c.times[ti].Add(time.Duration(-off) * time.Second)
			} else {
				w.NotAfter = c.times[ti].Add(time.Duration(-off) * time.Second)
			}
			if !w.NotAfter.After(w.NotBefore) {
				continue
			}
			c.win[a.name] = w
			desc = append(desc, fmt.Sprintf("%s.%s@%s%+ds", a.name, which, timeNames[ti], off))
		}
		d := fmt.Sprint(desc)
		if len(desc) >= 2 {
			gen.NonTrivial(d)
		}
		gen.Sample("random", d)
		c06Check(t, c, s, fmt.Sprintf("r%d", s.Intn(5)), d, []gen.Level{rapid.SampledFrom(levels).Draw(t, "level")})
	})
	// (4) the default time set: certificates valid around the real current time are accepted, a leaf expired a minute ago is not.
	gen.Direct(t, "default-time-set", func(t *testing.T) {
		now := time.Now()
		for _, expired := range []bool{false, true} {
			c := c06Fresh([5]time.Time{now, now, now, now, now})
			for n := range c.win {
				c.win[n] = gen.Window{NotBefore: now.AddDate(-2, 0, 0), NotAfter: now.AddDate(3, 0, 0)}
			}
			if expired {
				c.win["leaf"] = gen.Window{NotBefore: now.AddDate(-2, 0, 0), NotAfter: now.Add(-time.Minute)}
			}
			w, poolRoot := c.build(gen.NewStream(uint64(now.Unix()), "c06now"), "now")
			for _, l := range levels {
				o := w.Options(l, w.NewGetter(), gen.PoolOf(poolRoot))
				o.Now = nil
				gen.Eval()
				v := gen.Call(func() error { return verify.RawTdxQuote(w.Raw, o) })
				if v.Accepted() == expired {
					gen.Fail(t, gen.Violation{Key: fmt.Sprintf("default-time-set:expired=%v", expired), Oracle: "with no time set given, artifacts are judged at the current time", Detail: fmt.Sprintf("level=%s leaf expired=%v: %s", l, expired, v), Replay: map[string]any{"kind": "default-time-set"}})
					return
				}
				gen.NonTrivial("default-time-set", expired, int(l))
			}
		}
	})
}
