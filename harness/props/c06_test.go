package props

import (
	"bytes"
	"fmt"
	"github.com/google/go-tdx-guest/verify/trust"
	"net/http"
	"testing"
	"time"

	"github.com/google/go-tdx-guest/verify"
	"pgregory.net/rapid"
	"verifharness/gen"
)

// Time-model (C06). Governing time indexes.
const (
	tChain = iota
	tTcb
	tQe
	tPckCrl
	tRootCrl
)

var timeNames = []string{"PckCertChain", "TcbInfo", "QeIdentity", "PckCrl", "RootCaCrl"}

// judgement: window `name` is judged at time `ti`; notBefore matters when nb; in play from minLevel on.
type judgement struct {
	name     string
	ti       int
	nb       bool
	minLevel gen.Level
}

// Separate certificates for every role (each role has its own window).
var c06Separate = []judgement{
	{"leaf", tChain, true, gen.LvlBase},
	{"intermediate", tChain, true, gen.LvlBase},
	{"quote-chain-root", tChain, false, gen.LvlBase},
	{"pool-root", tChain, true, gen.LvlBase},
	{"pool-root", tTcb, true, gen.LvlColl},
	{"pool-root", tQe, true, gen.LvlColl},
	{"tcbinfo-document", tTcb, false, gen.LvlColl},
	{"tcbinfo-signer", tTcb, true, gen.LvlColl},
	{"tcbinfo-header-root", tTcb, false, gen.LvlColl},
	{"qeidentity-document", tQe, false, gen.LvlColl},
	{"qeidentity-signer", tQe, true, gen.LvlColl},
	{"qeidentity-header-root", tQe, false, gen.LvlColl},
	{"pckcrl", tPckCrl, false, gen.LvlCRL},
	{"pckcrl-header-signer", tPckCrl, false, gen.LvlCRL},
	{"pckcrl-header-root", tPckCrl, false, gen.LvlCRL},
	{"rootcrl", tRootCrl, false, gen.LvlCRL},
}

// The shape Intel's PCS actually serves: ONE root certificate everywhere, the PCK-CRL issuer
// chain is the quote's own intermediate and root, one signer certificate for both documents.
// The same certificate is then judged at several times.
var c06Shared = []judgement{
	{"leaf", tChain, true, gen.LvlBase},
	{"intermediate", tChain, true, gen.LvlBase},
	{"intermediate", tPckCrl, false, gen.LvlCRL},
	{"pool-root", tChain, true, gen.LvlBase},
	{"pool-root", tTcb, true, gen.LvlColl},
	{"pool-root", tQe, true, gen.LvlColl},
	{"pool-root", tPckCrl, false, gen.LvlCRL},
	{"tcbinfo-document", tTcb, false, gen.LvlColl},
	{"tcbinfo-signer", tTcb, true, gen.LvlColl},
	{"tcbinfo-signer", tQe, true, gen.LvlColl},
	{"qeidentity-document", tQe, false, gen.LvlColl},
	{"pckcrl", tPckCrl, false, gen.LvlCRL},
	{"rootcrl", tRootCrl, false, gen.LvlCRL},
}

var c06Names = []string{"leaf", "intermediate", "quote-chain-root", "pool-root", "tcbinfo-document", "tcbinfo-signer", "tcbinfo-header-root", "qeidentity-document", "qeidentity-signer", "qeidentity-header-root", "pckcrl", "pckcrl-header-signer", "pckcrl-header-root", "rootcrl"}

type c06World struct {
	win    map[string]gen.Window
	times  [5]time.Time
	shared bool
	// inverted: documents and CRLs carry an issue date / thisUpdate that lies AFTER their nextUpdate (a nonsensical but
	// parseable artifact): what ends their validity is still nextUpdate alone
	inverted bool
}

func (c *c06World) judgements() []judgement {
	if c.shared {
		return c06Shared
	}
	return c06Separate
}

// c06Zones: a verification time is an instant; the caller may hand it over in any Location.
var c06Zones = []*time.Location{time.UTC, time.FixedZone("UTC-8", -8*3600), time.FixedZone("UTC+5:30", 5*3600+1800), time.FixedZone("UTC+14", 14*3600), time.FixedZone("UTC-12", -12*3600), time.FixedZone("UTC+0:01", 60)}

func inSomeZone(t time.Time, salt int) time.Time {
	return t.In(c06Zones[int((t.Unix()/7+int64(salt))%int64(len(c06Zones))+int64(len(c06Zones)))%len(c06Zones)])
}

func (c *c06World) timeSet() verify.TimeSet {
	return verify.TimeSet{PckCertChain: inSomeZone(c.times[0], 0), TcbInfo: inSomeZone(c.times[1], 1), QeIdentity: inSomeZone(c.times[2], 2), PckCrl: inSomeZone(c.times[3], 3), RootCaCrl: inSomeZone(c.times[4], 4)}
}

// model returns the reason for rejection at level l, or "".
func (c *c06World) model(l gen.Level) string {
	for _, j := range c.judgements() {
		if l < j.minLevel {
			continue
		}
		w := c.win[j.name]
		at := c.times[j.ti]
		if at.After(w.NotAfter) {
			return fmt.Sprintf("%s expired at %s", j.name, timeNames[j.ti])
		}
		if j.nb && at.Before(w.NotBefore) {
			return fmt.Sprintf("%s not yet valid at %s", j.name, timeNames[j.ti])
		}
	}
	return ""
}

// build creates all certificates, documents and CRLs for the windows and returns the world and the pool root.
func (c *c06World) build(s *gen.Stream, id string) (*gen.World, *gen.Cert) {
	rootKey := "c06/" + id + "/root"
	mkRoot := func(name string, serial byte) *gen.Cert {
		w := c.win[name]
		return gen.MakeCert(gen.CertSpec{CN: gen.CNRoot, KeyLabel: rootKey, Serial: []byte{0x10, serial}, NotBefore: w.NotBefore, NotAfter: w.NotAfter, CA: true, CRLDP: []string{gen.RootCrlURL}}, nil)
	}
	poolRoot := mkRoot("pool-root", 1)
	quoteRoot := mkRoot("quote-chain-root", 2)
	tcbHdrRoot := mkRoot("tcbinfo-header-root", 3)
	qeHdrRoot := mkRoot("qeidentity-header-root", 4)
	crlHdrRoot := mkRoot("pckcrl-header-root", 5)
	if c.shared {
		quoteRoot, tcbHdrRoot, qeHdrRoot, crlHdrRoot = poolRoot, poolRoot, poolRoot, poolRoot
	}
	mkInt := func(name string, serial byte) *gen.Cert {
		w := c.win[name]
		return gen.MakeCert(gen.CertSpec{CN: gen.CNPlatform, KeyLabel: "c06/" + id + "/int", Serial: []byte{0x20, serial}, NotBefore: w.NotBefore, NotAfter: w.NotAfter, CA: true, CRLDP: []string{gen.RootCrlURL}}, poolRoot)
	}
	inter := mkInt("intermediate", 1)
	crlHdrInt := mkInt("pckcrl-header-signer", 2)
	if c.shared {
		crlHdrInt = inter
	}
	mkSigner := func(name, label string, serial byte) *gen.Cert {
		w := c.win[name]
		return gen.MakeCert(gen.CertSpec{CN: gen.CNTcbSigner, KeyLabel: "c06/" + id + "/" + label, Serial: []byte{0x30, serial}, NotBefore: w.NotBefore, NotAfter: w.NotAfter, CRLDP: []string{gen.RootCrlURL}}, poolRoot)
	}
	tcbSigner := mkSigner("tcbinfo-signer", "tcb", 1)
	qeSigner := mkSigner("qeidentity-signer", "qe", 2)
	if c.shared {
		qeSigner = tcbSigner
	}
	p := &gen.PKI{Spec: gen.PKISpec{Seed: "c06/" + id}, Root: quoteRoot, Int: inter, TcbSig: tcbSigner, QeSig: qeSigner}
	w := gen.NewWorld(p, s)
	w.LeafSpec.W = c.win["leaf"]
	w.Times = c.timeSet()
	w.TcbInfo.NextUpdate = c.win["tcbinfo-document"].NotAfter
	w.QeID.NextUpdate = c.win["qeidentity-document"].NotAfter
	// a document is issued while its signer is valid: at the start of the signer's validity (which may lie AFTER the time
	// the document is judged at — then the signer is not yet valid and nothing about the document's own dates changes that)
	w.TcbInfo.IssueDate = c.win["tcbinfo-signer"].NotBefore
	if c.shared {
		w.QeID.IssueDate = c.win["tcbinfo-signer"].NotBefore
	} else {
		w.QeID.IssueDate = c.win["qeidentity-signer"].NotBefore
	}
	w.PckCrl.NextUpdate = c.win["pckcrl"].NotAfter
	w.RootCrl.NextUpdate = c.win["rootcrl"].NotAfter
	w.PckCrl.ThisUpdate = c.win["pckcrl"].NotAfter.AddDate(-40, 0, 0)
	w.RootCrl.ThisUpdate = c.win["rootcrl"].NotAfter.AddDate(-40, 0, 0)
	// a window that starts centuries before its end: the document / list says so itself
	if nb := c.win["tcbinfo-document"].NotBefore; !nb.IsZero() && nb.Year() < 1800 {
		w.TcbInfo.IssueDate = nb
	}
	if nb := c.win["qeidentity-document"].NotBefore; !nb.IsZero() && nb.Year() < 1800 {
		w.QeID.IssueDate = nb
	}
	if nb := c.win["pckcrl"].NotBefore; !nb.IsZero() && nb.Year() < 1800 {
		w.PckCrl.ThisUpdate = nb
	}
	if nb := c.win["rootcrl"].NotBefore; !nb.IsZero() && nb.Year() < 1800 {
		w.RootCrl.ThisUpdate = nb
	}
	// the documents may spell their dates in another zone, with a numeric offset: the instants are the same
	zones := []*time.Location{nil, nil, time.FixedZone("east", 14*3600), time.FixedZone("west", -12*3600), time.FixedZone("half", 5*3600+1800)}
	w.TcbInfo.DateZone, w.QeID.DateZone = zones[s.Intn(len(zones))], zones[s.Intn(len(zones))]
	if c.inverted {
		w.TcbInfo.IssueDate = w.TcbInfo.NextUpdate.AddDate(3, 0, 0)
		w.QeID.IssueDate = w.QeID.NextUpdate.AddDate(3, 0, 0)
		w.PckCrl.ThisUpdate = c.win["pckcrl"].NotAfter.AddDate(3, 0, 0)
		w.RootCrl.ThisUpdate = c.win["rootcrl"].NotAfter.AddDate(3, 0, 0)
		w.CRLIssuerUTF8 = true // (the hand encoder: the standard library refuses to create such a list)
	}
	w.Build()
	// issuer-chain headers with their own root / signer variants
	r := w.Resp[gen.TcbInfoURL(w.FmspcHex())]
	r.Header = map[string][]string{gen.HdrTcbInfo: {gen.IssuerChainHeader(tcbSigner, tcbHdrRoot)}}
	w.Resp[gen.TcbInfoURL(w.FmspcHex())] = r
	r = w.Resp[gen.QeIdentityURL]
	r.Header = map[string][]string{gen.HdrQeID: {gen.IssuerChainHeader(qeSigner, qeHdrRoot)}}
	w.Resp[gen.QeIdentityURL] = r
	r = w.Resp[gen.PckCrlURL("platform")]
	r.Header = map[string][]string{gen.HdrPckCrl: {gen.IssuerChainHeader(crlHdrInt, crlHdrRoot)}}
	w.Resp[gen.PckCrlURL("platform")] = r
	// what else an HTTP answer carries (when the server sent it, how long a cache may keep it, when the file last changed)
	// says nothing about whether the artefact in its body is in date at the verifier's own times
	if s.Intn(3) > 0 {
		at := []time.Time{farBefore, farBefore.AddDate(20, 0, 0), time.Date(1994, 11, 6, 8, 49, 37, 0, time.UTC), farAfter.AddDate(-1, 0, 0)}[s.Intn(4)]
		for u, r := range w.Resp {
			h := map[string][]string{}
			for k, v := range r.Header {
				h[k] = v
			}
			h["Date"] = []string{at.Format(http.TimeFormat)}
			h["Last-Modified"] = []string{at.AddDate(0, 0, -1).Format(http.TimeFormat)}
			h["Expires"] = []string{farAfter.Format(http.TimeFormat)}
			h["Cache-Control"] = []string{"max-age=2592000"}
			h["Age"] = []string{"86400"}
			r.Header = h
			w.Resp[u] = r
		}
	}
	return w, poolRoot
}

var farBefore = gen.T0.AddDate(-30, 0, 0)
var farAfter = time.Date(2600, 1, 1, 0, 0, 0, 0, time.UTC)

// epochs around which verification times are drawn: the usual one, the instant where a nanosecond
// count stops fitting 63 bits, and beyond it
var c06Epochs = []time.Time{gen.T0, gen.T0, time.Date(2262, 4, 11, 23, 47, 16, 0, time.UTC), time.Date(2300, 6, 1, 0, 0, 0, 0, time.UTC)}

func c06Fresh(times [5]time.Time, shared bool) *c06World {
	c := &c06World{win: map[string]gen.Window{}, times: times, shared: shared}
	for _, n := range c06Names {
		c.win[n] = gen.Window{NotBefore: farBefore, NotAfter: farAfter}
	}
	return c
}

func c06Check(t gen.TB, c *c06World, s *gen.Stream, id, desc string, levels []gen.Level) bool {
	w, poolRoot := c.build(s, id)
	pool := gen.PoolOf(poolRoot)
	for _, l := range levels {
		want := c.model(l)
		o := w.Options(l, w.NewGetter(), pool)
		if s.Intn(3) == 0 {
			// a caller that starts from DefaultOptions() and fills in its own times field by field
			d := verify.DefaultOptions()
			d.TrustedRoots, d.Getter, d.GetCollateral, d.CheckRevocations = o.TrustedRoots, o.Getter, o.GetCollateral, o.CheckRevocations
			if d.Now == nil {
				d.Now = &verify.TimeSet{}
			}
			d.Now.PckCertChain = o.Now.PckCertChain
			d.Now.TcbInfo = o.Now.TcbInfo
			d.Now.QeIdentity = o.Now.QeIdentity
			d.Now.PckCrl = o.Now.PckCrl
			d.Now.RootCaCrl = o.Now.RootCaCrl
			o = d
			gen.Class("options:DefaultOptions-with-times-filled-in")
		}
		if s.Intn(2) == 0 && l < gen.LvlCRL {
			// a caller that only fills in the times of the checks it asked for: the entries of disabled checks stay zero
			if l < gen.LvlColl {
				o.Now.TcbInfo, o.Now.QeIdentity = time.Time{}, time.Time{}
			}
			o.Now.PckCrl, o.Now.RootCaCrl = time.Time{}, time.Time{}
			gen.Class("time-set:entries-of-disabled-checks-left-zero")
		}
		gen.Eval()
		v := gen.Call(func() error { return verify.RawTdxQuote(w.Raw, o) })
		rp := w.CaseFile(l, nil, nil, []*gen.Cert{poolRoot}, map[bool]string{true: "reject", false: "accept"}[want != ""])
		if v.Panicked() {
			gen.Fail(t, gen.Violation{Key: "panic@" + gen.PanicSite(v.Stack), Oracle: "verification returns a verdict", Detail: desc + ": " + v.Panic, Replay: rp})
			return false
		}
		if want != "" && v.Accepted() {
			gen.Fail(t, gen.Violation{Key: "accepts-out-of-date:" + keyClass(want), Oracle: "accepted => every in-play artifact is in date at its own time", Detail: fmt.Sprintf("%s level=%s: model says %s", desc, l, want), Replay: rp})
			return false
		}
		if want == "" && !v.Accepted() {
			gen.Fail(t, gen.Violation{Key: "rejects-in-date:" + errClass(v.Err), Oracle: "each artifact is judged against its own entry of the time set (inclusive bounds)", Detail: fmt.Sprintf("%s level=%s: everything in date, library: %s", desc, l, v), Replay: rp})
			return false
		}
		gen.Class("model:" + map[bool]string{true: "reject", false: "accept"}[want != ""] + "@" + l.String())
		// monotonicity: once expired, later governing times stay rejected
		if want != "" && v.Rejected() {
			for ti := range timeNames {
				later := *c
				later.times = c.times
				later.times[ti] = c.times[ti].Add(time.Duration(1+s.Intn(5_000_000)) * time.Second)
				if s.Intn(3) == 0 {
					later.times[ti] = time.Date(2263+s.Intn(300), 1, 1, 0, 0, 0, 0, time.UTC) // "every later time" includes the far future
					if !later.times[ti].After(c.times[ti]) {
						continue
					}
				}
				if later.model(l) == "" {
					continue // advancing this field un-does a not-yet-valid condition: not covered by the monotonicity clause
				}
				ts := later.timeSet()
				o2 := w.Options(l, w.NewGetter(), pool)
				o2.Now = &ts
				gen.Eval()
				if v2 := gen.Call(func() error { return verify.RawTdxQuote(w.Raw, o2) }); v2.Accepted() {
					gen.Fail(t, gen.Violation{Key: "expired-then-accepted-later", Oracle: "once expired, verification fails at that and every later time", Detail: fmt.Sprintf("%s level=%s: rejected, but accepted after advancing %s", desc, l, timeNames[ti]), Replay: rp})
					return false
				}
			}
		}
	}
	return true
}

func distinctTimes(s *gen.Stream) [5]time.Time {
	var ts [5]time.Time
	used := map[int64]bool{}
	epoch := c06Epochs[s.Intn(len(c06Epochs))]
	span := 20 * 365 * 86400
	if epoch.Year() == 2262 {
		span = 7200 // within an hour of the boundary, on both sides
	}
	for i := range ts {
		for {
			off := int64(s.Intn(span)) - int64(span/2)
			if !used[off] {
				used[off] = true
				ts[i] = epoch.Add(time.Duration(off) * time.Second)
				break
			}
		}
	}
	return ts
}

func TestC06(t *testing.T) {
	replayDir(t, "C06")
	levels := []gen.Level{gen.LvlBase, gen.LvlColl, gen.LvlCRL}
	// (1) the boundary grid: every judgement (artifact at a governing time) x bound x {-1s, 0, +1s}, others far
	// away; once with a separate certificate per role, once with the shared-certificate shape Intel serves.
	gen.Direct(t, "boundary-grid", func(t *testing.T) {
		reps := gen.N(1, 24)
		idx := 0
		for rep := 0; rep < reps; rep++ {
			s := gen.NewStream(gen.ProcSeed()*131+uint64(rep), "c06grid")
			for _, shared := range []bool{false, true} {
				js := c06Separate
				if shared {
					js = c06Shared
				}
				for _, j := range js {
					for _, bound := range []string{"notAfter", "notBefore"} {
						if bound == "notBefore" && !j.nb {
							continue
						}
						// the governing time relative to the (whole-second) bound: a second and a nanosecond before, at, and a
						// nanosecond, half a second, just under a second and a second after
						for _, off := range []time.Duration{-time.Second, -time.Nanosecond, 0, time.Nanosecond, 500 * time.Millisecond, time.Second - time.Nanosecond, time.Second} {
							idx++
							if gen.Tier() == "thorough" && !gen.ShardOwns(idx) {
								continue
							}
							c := c06Fresh(distinctTimes(s), shared)
							c.inverted = idx%3 == 0
							w := c.win[j.name]
							at := c.times[j.ti] // the bound; the governing time becomes bound + off
							c.times[j.ti] = at.Add(off)
							if bound == "notAfter" {
								w.NotAfter = at
							} else {
								w.NotBefore = at
							}
							c.win[j.name] = w
							// a certificate judged at several times: keep its other governing times well inside the window
							for _, o := range js {
								if o.name != j.name || o.ti == j.ti {
									continue
								}
								if bound == "notAfter" && !c.times[o.ti].Before(w.NotAfter) {
									c.times[o.ti] = w.NotAfter.Add(-time.Duration(1000+o.ti) * time.Hour)
								}
								if bound == "notBefore" && !c.times[o.ti].After(w.NotBefore) {
									c.times[o.ti] = w.NotBefore.Add(time.Duration(1000+o.ti) * time.Hour)
								}
							}
							desc := fmt.Sprintf("%s.%s judged at %s = bound%+v (shared certificates=%v)", j.name, bound, timeNames[j.ti], off, shared)
							gen.NonTrivial(desc, rep)
							if idx%23 == 0 {
								gen.Sample("grid", desc)
							}
							if !c06Check(t, c, s, fmt.Sprintf("g%d", idx%7), desc, levels) {
								return
							}
						}
					}
				}
			}
		}
		gen.Exhaustive("boundary grid: every verdict-relevant bound x governing time x {-1s, -1ns, at, +1ns, +0.5s, +1s-1ns, +1s}, other artifacts decades away, five distinct times; separate and shared certificate shapes", true)
	})
	// (1b) pairs: one artifact about to expire (still valid: 1 s, 1 h or 23 h left at its governing times) together
	// with another one that has expired (by 1 s or by a month): whatever is said or done about the first, the
	// second decides. Every ordered pair of artifacts.
	gen.Direct(t, "near-expiry-and-expired-pairs", func(t *testing.T) {
		lefts := []time.Duration{time.Hour}
		if gen.Tier() == "thorough" {
			lefts = []time.Duration{time.Second, time.Hour, 23 * time.Hour}
		}
		s := gen.NewStream(gen.ProcSeed()*137, "c06pairs")
		idx := 0
		for _, shared := range []bool{false, true} {
			js := c06Separate
			if shared {
				js = c06Shared
			}
			names := []string{}
			seen := map[string]bool{}
			for _, j := range js {
				if !seen[j.name] {
					seen[j.name] = true
					names = append(names, j.name)
				}
			}
			for _, x := range names {
				for _, y := range names {
					if x == y {
						continue
					}
					for _, left := range lefts {
						idx++
						if !gen.ShardOwns(idx) {
							continue
						}
						c := c06Fresh(distinctTimes(s), shared)
						// x: valid at all its governing times, the latest of which is `left` before its end
						var latest, earliest time.Time
						for _, j := range js {
							if j.name == x && (latest.IsZero() || c.times[j.ti].After(latest)) {
								latest = c.times[j.ti]
							}
							if j.name == y && (earliest.IsZero() || c.times[j.ti].Before(earliest)) {
								earliest = c.times[j.ti]
							}
						}
						wx := c.win[x]
						wx.NotAfter = latest.Add(left)
						c.win[x] = wx
						wy := c.win[y]
						ago := time.Second
						if idx%2 == 0 {
							ago = 30 * 24 * time.Hour
						}
						wy.NotAfter = earliest.Add(-ago)
						c.win[y] = wy
						desc := fmt.Sprintf("%s has %v left, %s expired %v ago (shared certificates=%v)", x, left, y, ago, shared)
						gen.NonTrivial(desc)
						gen.Class("near-expiry-and-expired-pair")
						if idx%29 == 0 {
							gen.Sample("pairs", desc)
						}
						if !c06Check(t, c, s, fmt.Sprintf("p%d", idx%7), desc, levels) {
							return
						}
					}
				}
			}
		}
		gen.Exhaustive("every ordered pair (artifact about to expire, artifact expired), separate and shared certificate shapes", true)
	})
	// (2) random assignments: several artifacts near / past their bounds at once.
	gen.Prop(t, "random-windows", gen.N(700, 60000), func(t *rapid.T) {
		s := gen.NewStream(rapid.Uint64().Draw(t, "content"), "c06r")
		c := c06Fresh(distinctTimes(s), rapid.Bool().Draw(t, "shared"))
		c.inverted = rapid.IntRange(0, 3).Draw(t, "inverted") == 0
		k := rapid.IntRange(0, 3).Draw(t, "tight")
		desc := []string{fmt.Sprintf("shared=%v", c.shared)}
		for i := 0; i < k; i++ {
			a := rapid.SampledFrom(c.judgements()).Draw(t, "artifact")
			ti := a.ti
			off := rapid.SampledFrom([]int64{-86400 * 400, -3600, -1, 0, 1, 3600, 86400 * 400}).Draw(t, "offset")
			w := c.win[a.name]
			which := "notAfter"
			if a.nb && rapid.IntRange(0, 3).Draw(t, "nb") == 0 {
				which = "notBefore"
				w.NotBefore = c.times[ti].Add(time.Duration(-off) * time.Second)
			} else {
				w.NotAfter = c.times[ti].Add(time.Duration(-off) * time.Second)
			}
			if which == "notAfter" && rapid.IntRange(0, 2).Draw(t, "ancientStart") == 0 {
				// a start of validity centuries before the end (a lifetime no Duration can hold): the end is the end
				w.NotBefore = time.Date(rapid.SampledFrom([]int{1700, 1601, 1}).Draw(t, "startYear"), 1, 1, 0, 0, 0, 0, time.UTC)
				which = "notAfter(start of validity in the distant past)"
				gen.Class("window-starting-centuries-before-its-end")
			}
			if !w.NotAfter.After(w.NotBefore) {
				continue
			}
			c.win[a.name] = w
			desc = append(desc, fmt.Sprintf("%s.%s@%s%+ds", a.name, which, timeNames[ti], off))
		}
		d := fmt.Sprint(desc)
		if len(desc) >= 3 {
			gen.NonTrivial(d)
		}
		gen.Sample("random", d)
		c06Check(t, c, s, fmt.Sprintf("r%d", s.Intn(5)), d, []gen.Level{rapid.SampledFrom(levels).Draw(t, "level")})
	})
	// (4) the default time set: certificates valid around the real current time are accepted, a leaf expired a minute ago is not.
	// Endpoints whose answer changes between two requests of ONE verification (a PCS rolling its documents over, a
	// verifier that asks twice). The first round of answers has one artefact past its end at that artefact's own time
	// and the others current; the second round has THAT one current and another one past its end. Whichever round a
	// verifier uses for which artefact, something it uses is out of date: the quote is rejected.
	gen.Direct(t, "answers-that-change-between-two-requests", func(t *testing.T) {
		arts := []string{"tcbinfo", "qeidentity", "pckcrl", "rootcrl"}
		i := 0
		for _, first := range arts {
			for _, second := range arts {
				if first == second {
					continue
				}
				i++
				if !gen.ShardOwns(i) {
					continue
				}
				build := func(stale string) *gen.World {
					w := gen.NewWorld(gen.NewPKI(gen.PKISpec{Seed: "pki-A"}), gen.NewStream(gen.Seed()+5, "c06chg"))
					w.HonestCollateral()
					w.SignQuote()
					past := func(at time.Time) time.Time { return at.Add(-time.Hour) }
					switch stale {
					case "tcbinfo":
						w.TcbInfo.NextUpdate = past(w.Times.TcbInfo)
					case "qeidentity":
						w.QeID.NextUpdate = past(w.Times.QeIdentity)
					case "pckcrl":
						w.PckCrl = gen.CRLSpec{ThisUpdate: gen.Wide.NotBefore, NextUpdate: past(w.Times.PckCrl)}
					case "rootcrl":
						w.RootCrl = gen.CRLSpec{ThisUpdate: gen.Wide.NotBefore, NextUpdate: past(w.Times.RootCaCrl)}
					}
					w.BuildCollateral()
					return w
				}
				w1, w2 := build(first), build(second)
				// control: each round on its own is rejected
				for k, w := range []*gen.World{w1, w2} {
					o := w.Options(gen.LvlCRL, w.NewGetter(), nil)
					if v := gen.Call(func() error { return verify.RawTdxQuote(w.Raw, o) }); v.Accepted() {
						gen.Fail(t, gen.Violation{Key: "accepts-out-of-date:" + []string{first, second}[k] + "_expired", Oracle: "accepted => every in-play artifact is in date at its own time", Detail: "control round " + fmt.Sprint(k+1), Replay: w.CaseFile(gen.LvlCRL, nil, nil, nil, "reject")})
						return
					}
				}
				g := w2.NewGetter()
				for u, r := range w1.Resp {
					g.Script[u] = []gen.Response{r}
				}
				o := w1.Options(gen.LvlCRL, nil, nil)
				o.Getter = g
				gen.Eval()
				v := gen.Call(func() error { return verify.RawTdxQuote(w1.Raw, o) })
				gen.NonTrivial("changing", first, second)
				gen.Class("changing-answers:first-" + first)
				if v.Accepted() {
					gen.Fail(t, gen.Violation{Key: "accepts-out-of-date:answers-changed-between-requests", Oracle: "accepted => every in-play artifact is in date at its own time", Detail: fmt.Sprintf("every endpoint first serves the round in which %s is past its end, afterwards the round in which %s is past its end: accepted (requests: %v)", first, second, g.Requests()), Replay: w1.CaseFile(gen.LvlCRL, nil, nil, nil, "reject")})
					return
				}
			}
		}
	})
	// a signed QE Identity that states no end date at all (member absent), next to an unsigned twin member - or after a
	// refused response - that states a comfortable one: a document without an end is not in date
	gen.Prop(t, "signed-document-without-an-end-date", gen.N(300, 20000), func(t *rapid.T) { c07OmittedMember(t, "nextUpdate") })
	// the issuing-CA certificate IN THE QUOTE has expired; the relying party's bundle lists the root and a renewed
	// certificate of that CA (same name and key), so a valid path exists - through a certificate the quote does not carry
	gen.Direct(t, "expired-issuing-ca-in-the-quote-renewed-one-in-the-bundle", func(t *testing.T) {
		var f *gen.Fault
		for i := range gen.Faults {
			if gen.Faults[i].Name == "quote-carries-an-expired-edition-of-the-issuing-ca-and-the-trusted-bundle-lists-the-renewed-one" {
				f = &gen.Faults[i]
			}
		}
		if f == nil {
			gen.HarnessError(t, "fault not in the catalogue")
		}
		for i, seed := range gen.PKISeeds {
			if !gen.ShardOwns(i) {
				continue
			}
			w := gen.NewWorld(gen.NewPKI(gen.PKISpec{Seed: seed}), gen.NewStream(gen.Seed()+uint64(i), "c06renewed"))
			w.Build()
			f.Post(w)
			for _, l := range levels {
				for _, bundle := range []string{"root+renewed-ca", "renewed-ca+root", "root-only"} {
					pool := gen.PoolOf(w.PKI.Root, w.PKI.Int)
					switch bundle {
					case "renewed-ca+root":
						pool = gen.PoolOf(w.PKI.Int, w.PKI.Root)
					case "root-only":
						pool = gen.PoolOf(w.PKI.Root)
					}
					o := w.Options(l, w.NewGetter(), pool)
					gen.Eval()
					v := gen.Call(func() error { return verify.RawTdxQuote(w.Raw, o) })
					if v.Accepted() {
						gen.Fail(t, gen.Violation{Key: "accepts-expired:intermediate-in-the-quote:" + bundle, Oracle: "accepted => no certificate of the PCK chain has expired at the PckCertChain time", Detail: fmt.Sprintf("pki=%s level=%s bundle=%s: the quote's issuing-CA certificate expired an hour before the verification time (a renewed one is in the bundle): accepted", seed, l, bundle), Replay: map[string]any{"kind": "c06-renewed-ca", "pki": seed, "level": int(l), "bundle": bundle}})
						return
					}
					gen.NonTrivial("c06renewed", seed, int(l), bundle)
				}
			}
		}
		gen.Class("expired-issuing-ca-renewed-in-bundle")
	})
	// no time set given and ONE options value serving a history of calls on the real clock: calls that fail early (bytes
	// that are no quote, a chain that does not parse, a collateral download that fails), a quote whose leaf is still
	// valid, the leaf's end of validity passes, early failures again, the quote again: it is judged at the time of THAT call
	gen.Direct(t, "default-time-set-across-a-history-of-calls", func(t *testing.T) {
		if sh, _ := gen.Shard(); sh != 0 {
			return
		}
		now := time.Now()
		expiry := now.Truncate(time.Second).Add(4 * time.Second)
		c := c06Fresh([5]time.Time{now, now, now, now, now}, false)
		for n := range c.win {
			c.win[n] = gen.Window{NotBefore: now.AddDate(-2, 0, 0), NotAfter: now.AddDate(3, 0, 0)}
		}
		c.win["leaf"] = gen.Window{NotBefore: now.AddDate(-2, 0, 0), NotAfter: expiry}
		w, poolRoot := c.build(gen.NewStream(uint64(now.Unix()), "c06hist"), "now-history")
		damaged := append([]byte{}, w.Raw...)
		if i := bytes.Index(damaged, []byte("-----BEGIN CERTIFICATE-----")); i >= 0 {
			copy(damaged[i:], "-----BEGIN CERTIFICATE+++++")
		}
		type ov struct {
			name string
			o    *verify.Options
			g    trust.HTTPSGetter
		}
		var opts []ov
		for _, l := range levels {
			g := w.NewGetter()
			o := w.Options(l, g, gen.PoolOf(poolRoot))
			o.Now = nil
			opts = append(opts, ov{l.String(), o, g})
		}
		early := func(o ov) {
			_ = gen.Call(func() error { return verify.RawTdxQuote([]byte("not a quote"), o.o) })
			_ = gen.Call(func() error { return verify.RawTdxQuote(damaged, o.o) })
			_ = gen.Call(func() error { return verify.RawTdxQuote(w.Raw[:600], o.o) })
			o.o.Getter = gen.FailGetter{}
			_ = gen.Call(func() error { return verify.RawTdxQuote(w.Raw, o.o) }) // (fails when collateral is asked for)
			o.o.Getter = o.g
		}
		for _, o := range opts {
			early(o)
			gen.Eval()
			v := gen.Call(func() error { return verify.RawTdxQuote(w.Raw, o.o) })
			if time.Now().After(expiry.Add(-300 * time.Millisecond)) {
				gen.Inconclusive("default time set across a history: the machine was too slow to verify before the leaf expired")
				return
			}
			if !v.Accepted() {
				gen.Inconclusive("default time set across a history: in-date quote rejected before expiry (" + o.name + "): " + v.String())
				return
			}
		}
		time.Sleep(time.Until(expiry.Add(1500 * time.Millisecond)))
		for _, o := range opts {
			early(o)
			gen.Eval()
			v := gen.Call(func() error { return verify.RawTdxQuote(w.Raw, o.o) })
			if v.Accepted() {
				gen.Fail(t, gen.Violation{Key: "default-time-set:history:expired-leaf-accepted", Oracle: "with no time set given, artifacts are judged at the current time - of the call being made", Detail: fmt.Sprintf("level=%s: one options value; calls that fail early, the quote accepted while its leaf was valid, 1.5 s after the leaf's end of validity calls that fail early and then the quote again: accepted", o.name), Replay: map[string]any{"kind": "c06-now-history"}})
				return
			}
			gen.NonTrivial("default-time-set-history", o.name)
		}
		gen.Class("default-time-set-across-a-history")
	})
	gen.Direct(t, "default-time-set", func(t *testing.T) {
		now := time.Now()
		for _, expired := range []bool{false, true} {
			c := c06Fresh([5]time.Time{now, now, now, now, now}, expired)
			for n := range c.win {
				c.win[n] = gen.Window{NotBefore: now.AddDate(-2, 0, 0), NotAfter: now.AddDate(3, 0, 0)}
			}
			if expired {
				c.win["leaf"] = gen.Window{NotBefore: now.AddDate(-2, 0, 0), NotAfter: now.Add(-time.Minute)}
			}
			w, poolRoot := c.build(gen.NewStream(uint64(now.Unix()), "c06now"), "now")
			for _, l := range levels {
				o := w.Options(l, w.NewGetter(), gen.PoolOf(poolRoot))
				o.Now = nil
				gen.Eval()
				v := gen.Call(func() error { return verify.RawTdxQuote(w.Raw, o) })
				if v.Accepted() == expired {
					gen.Fail(t, gen.Violation{Key: fmt.Sprintf("default-time-set:expired=%v", expired), Oracle: "with no time set given, artifacts are judged at the current time", Detail: fmt.Sprintf("level=%s leaf expired=%v: %s", l, expired, v), Replay: map[string]any{"kind": "default-time-set"}})
					return
				}
				gen.NonTrivial("default-time-set", expired, int(l))
			}
		}
	})
}
