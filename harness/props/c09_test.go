package props

import (
	"bytes"
	"encoding/base32"
	"encoding/base64"
	"encoding/binary"
	"encoding/hex"
	"encoding/pem"
	"fmt"
	"reflect"
	"strconv"
	"strings"
	"testing"

	"github.com/google/go-tdx-guest/abi"
	pb "github.com/google/go-tdx-guest/proto/tdx"
	"google.golang.org/protobuf/proto"
	"pgregory.net/rapid"
	"verifharness/gen"
)

// c09Oracle applies the full differential oracle to one byte string.
// It returns a violation (key, oracle, detail) or "" when the property holds on b.
func c09Oracle(b []byte) (key, oracle, detail string) {
	gen.Eval()
	ref, refErr := gen.RefParse(b)
	var got any
	in := append([]byte{}, b...) // the caller's buffer, which the caller goes on to re-use
	v := gen.Call(func() error {
		var err error
		got, err = abi.QuoteToProto(in)
		return err
	})
	if v.Panicked() {
		return "panic@" + gen.PanicSite(v.Stack), "parser must reject, not crash", v.Panic
	}
	if len(b) >= 1020 && len(b) >= 2 && binary.LittleEndian.Uint16(b) == 4 {
		gen.NonTrivial(b)
	}
	if refErr != nil {
		if v.Accepted() {
			return "accepts-nonconforming", "parser accepts exactly the v4 layout", "reference rejects (" + refErr.Error() + ") but abi.QuoteToProto accepted"
		}
		gen.Class("both-reject")
		return "", "", ""
	}
	if !v.Accepted() {
		return "rejects-conforming", "parser accepts exactly the v4 layout", "reference accepts but abi.QuoteToProto: " + v.Err.Error()
	}
	gen.Class("both-accept")
	m, ok := got.(*pb.QuoteV4)
	if !ok {
		return "wrong-type", "parse result is a QuoteV4", fmt.Sprintf("%T", got)
	}
	if d := ref.DiffProto(m); d != "" {
		return "field-mismatch", "every field is the corresponding slice of the input", d
	}
	var back []byte
	v2 := gen.Call(func() error {
		var err error
		back, err = abi.QuoteToAbiBytes(m)
		return err
	})
	if !v2.Accepted() {
		return "reserialise-fails", "serialise(parse(b)) == b", v2.String()
	}
	if !bytes.Equal(back, b) {
		return "roundtrip-bytes", "serialise(parse(b)) == b", firstDiff(back, b)
	}
	// the parsed quote is a value of its own: the caller overwrites its buffer, the quote still serialises to what was parsed
	for i := range in {
		in[i] ^= 0xa5
	}
	var again []byte
	if v4 := gen.Call(func() error {
		var err error
		again, err = abi.QuoteToAbiBytes(m)
		return err
	}); !v4.Accepted() || !bytes.Equal(again, b) {
		d := v4.String()
		if v4.Accepted() {
			d = firstDiff(again, b)
		}
		return "parsed-quote-shares-memory-with-input", "serialise(parse(b)) == b, also after the caller re-used its buffer", d
	}
	var hb, bb []byte
	v3 := gen.Call(func() error {
		var err error
		if hb, err = abi.HeaderToAbiBytes(m.GetHeader()); err != nil {
			return err
		}
		bb, err = abi.TdQuoteBodyToAbiBytes(m.GetTdQuoteBody())
		return err
	})
	if !v3.Accepted() {
		return "header-body-serialise-fails", "header||body re-serialisation", v3.String()
	}
	if !bytes.Equal(append(hb, bb...), b[:632]) {
		return "signed-region", "header||body serialisation equals bytes 0-631", firstDiff(append(hb, bb...), b[:632])
	}
	return "", "", ""
}

func firstDiff(a, b []byte) string {
	n := len(a)
	if len(b) < n {
		n = len(b)
	}
	for i := 0; i < n; i++ {
		if a[i] != b[i] {
			return fmt.Sprintf("first difference at offset %d (got %02x want %02x), lengths %d/%d", i, a[i], b[i], len(a), len(b))
		}
	}
	return fmt.Sprintf("lengths differ: %d vs %d", len(a), len(b))
}

func c09Check(t gen.TB, b []byte, how string) {
	if key, oracle, detail := c09Oracle(b); key != "" {
		gen.Fail(t, gen.Violation{Key: key, Oracle: oracle, Detail: how + ": " + detail,
			Replay: map[string]any{"kind": "parse", "raw_hex": hex.EncodeToString(b)}})
	}
}

var boundaryVals = func(fixed, actual uint64) []uint64 {
	return []uint64{0, 1, fixed - 1, fixed, fixed + 1, actual - 1, actual, actual + 1, 0x7fff, 0x8000, 0xffff, 0x10000, 0x7fffffff, 0x80000000, 0xffffffff}
}

func putLE(b []byte, off, n int, v uint64) {
	for i := 0; i < n; i++ {
		b[off+i] = byte(v >> (8 * uint(i)))
	}
}

func getLE(b []byte, off, n int) uint64 {
	var v uint64
	for i := 0; i < n; i++ {
		v |= uint64(b[off+i]) << (8 * uint(i))
	}
	return v
}

// fixedPart is the minimal legal value of each size field (used for "fixed-1, fixed").
func fixedPart(name string) uint64 {
	switch name {
	case "signed_data_size":
		return 64 + 64 + 6 + 384 + 64 + 2 + 6
	case "cert_size":
		return 384 + 64 + 2 + 6
	case "version":
		return 4
	case "key_type":
		return 2
	case "tee_type":
		return 0x81
	case "cert_type":
		return 6
	case "chain_type":
		return 5
	}
	return 0
}

func c09Truncations(t *testing.T) {
	for wi, al := range []int{0, 32} {
		q := gen.RandomRefQuote(gen.NewStream(gen.Seed(), fmt.Sprint("c09trunc", wi)), al, 40, 5*wi)
		b := q.Encode()
		for n := 0; n <= len(b); n++ {
			if !gen.ShardOwns(n) {
				continue
			}
			c09Check(t, b[:n], fmt.Sprintf("truncation to %d of %d", n, len(b)))
		}
	}
	gen.Exhaustive("all truncation lengths of 2 valid quotes", true)
}

func c09SizeBoundaries(t *testing.T) {
	al := 32
	q := gen.RandomRefQuote(gen.NewStream(gen.Seed(), "c09size"), al, 60, 0)
	base := q.Encode()
	fields := gen.SizeFields(al)
	i := 0
	for _, f := range fields {
		for _, v := range boundaryVals(fixedPart(f.Name), getLE(base, f.Off, f.Len)) {
			// singles
			b := append([]byte{}, base...)
			putLE(b, f.Off, f.Len, v)
			if gen.ShardOwns(i) {
				c09Check(t, b, fmt.Sprintf("%s=%#x", f.Name, v))
			}
			i++
			// pairs with every other size field (types excluded to keep it quadratic only in sizes)
			for _, g := range fields {
				if g.Off <= f.Off || g.Len != 4 && g.Name != "auth_size" {
					continue
				}
				for _, v2 := range boundaryVals(fixedPart(g.Name), getLE(base, g.Off, g.Len)) {
					b2 := append([]byte{}, b...)
					putLE(b2, g.Off, g.Len, v2)
					if gen.ShardOwns(i) {
						c09Check(t, b2, fmt.Sprintf("%s=%#x,%s=%#x", f.Name, v, g.Name, v2))
					}
					i++
				}
			}
		}
	}
	gen.Exhaustive("boundary values of every size/type field, singly and in pairs", true)
}

// TestC09WordSize is the part of the check whose outcome could depend on the width of int: it is also built and run
// for a 32-bit target (GOARCH=386) where that is possible.
func TestC09WordSize(t *testing.T) {
	gen.Direct(t, "truncations", c09Truncations)
	gen.Direct(t, "size-field-boundaries", c09SizeBoundaries)
	gen.Prop(t, "random-size-fields", gen.N(3000, 100000), func(t *rapid.T) {
		s := gen.NewStream(rapid.Uint64().Draw(t, "content"), "c09w")
		al := rapid.SampledFrom([]int{0, 1, 32, 300}).Draw(t, "auth")
		b := gen.RandomRefQuote(s, al, rapid.SampledFrom([]int{0, 10, 2000}).Draw(t, "chain"), rapid.SampledFrom([]int{0, 7}).Draw(t, "extra")).Encode()
		fields := gen.SizeFields(al)
		for i, n := 0, rapid.IntRange(1, 3).Draw(t, "edits"); i < n; i++ {
			f := fields[rapid.IntRange(0, len(fields)-1).Draw(t, "field")]
			v := rapid.OneOf(rapid.Uint64Range(0, 1<<32-1), rapid.SampledFrom([]uint64{0x7fffffff, 0x80000000, 0x80000001, 0xfffffffe, 0xffffffff, 0x7ffffb00, 0x80000400})).Draw(t, "value")
			putLE(b, f.Off, f.Len, v)
		}
		c09Check(t, b, "random size fields")
		gen.Class(fmt.Sprintf("word-size:int-is-%d-bits", strconv.IntSize))
	})
}

func TestC09(t *testing.T) {
	replayDir(t, "C09")
	// (a1) rapid: byte strings derived from structurally valid quotes by one of several alterations.
	gen.Prop(t, "bytes", gen.N(40000, 3000000), func(t *rapid.T) {
		s := gen.NewStream(rapid.Uint64().Draw(t, "content"), "c09")
		authLen := rapid.OneOf(rapid.IntRange(0, 64), rapid.SampledFrom([]int{0, 1, 32, 255, 256, 4096, 65535})).Draw(t, "authLen")
		chainLen := rapid.OneOf(rapid.IntRange(0, 64), rapid.SampledFrom([]int{0, 1, 3000, 70000})).Draw(t, "chainLen")
		extraLen := rapid.SampledFrom([]int{0, 0, 1, 7, 300}).Draw(t, "extraLen")
		q := gen.RandomRefQuote(s, authLen, chainLen, extraLen)
		b := q.Encode()
		kind := rapid.SampledFrom([]string{"valid", "truncate", "truncate-near", "size1", "size2", "trailing", "mutate", "grow-region", "shrink-region"}).Draw(t, "kind")
		fields := gen.SizeFields(authLen)
		switch kind {
		case "truncate":
			b = b[:rapid.IntRange(0, len(b)).Draw(t, "len")]
		case "truncate-near":
			// cut right around a region boundary
			f := rapid.SampledFrom(fields).Draw(t, "field")
			cut := f.Off + rapid.IntRange(-2, f.Len+2).Draw(t, "delta")
			if cut < 0 {
				cut = 0
			}
			if cut > len(b) {
				cut = len(b)
			}
			b = b[:cut]
		case "size1", "size2":
			n := 1
			if kind == "size2" {
				n = 2
			}
			for i := 0; i < n; i++ {
				f := rapid.SampledFrom(fields).Draw(t, "field")
				vals := boundaryVals(fixedPart(f.Name), getLE(b, f.Off, f.Len))
				putLE(b, f.Off, f.Len, rapid.SampledFrom(vals).Draw(t, "value"))
			}
		case "trailing":
			b = append(b, s.Bytes(rapid.IntRange(1, 40).Draw(t, "n"))...)
		case "mutate":
			for i, n := 0, rapid.IntRange(1, 6).Draw(t, "edits"); i < n; i++ {
				if len(b) == 0 {
					break
				}
				pos := rapid.IntRange(0, len(b)-1).Draw(t, "pos")
				switch rapid.IntRange(0, 3).Draw(t, "op") {
				case 0:
					b[pos] ^= 1 << uint(rapid.IntRange(0, 7).Draw(t, "bit"))
				case 1:
					b[pos] = rapid.Byte().Draw(t, "byte")
				case 2:
					b = append(b[:pos], b[pos+1:]...)
				case 3:
					b = append(b[:pos], append([]byte{rapid.Byte().Draw(t, "ins")}, b[pos:]...)...)
				}
			}
		case "grow-region", "shrink-region":
			// change a variable-length region while keeping (some of) the size fields stale
			d := rapid.IntRange(1, 3).Draw(t, "d")
			q2 := q.Clone()
			which := rapid.IntRange(0, 1).Draw(t, "which")
			if kind == "grow-region" {
				if which == 0 {
					q2.Auth = append(q2.Auth, s.Bytes(d)...)
				} else {
					q2.Chain = append(q2.Chain, s.Bytes(d)...)
				}
			} else {
				if which == 0 && len(q2.Auth) >= d {
					q2.Auth = q2.Auth[:len(q2.Auth)-d]
				} else if len(q2.Chain) >= d {
					q2.Chain = q2.Chain[:len(q2.Chain)-d]
				}
			}
			fix := rapid.IntRange(0, 15).Draw(t, "fixmask")
			if fix&1 != 0 {
				q2.AuthSize = uint16(len(q2.Auth))
			}
			if fix&2 != 0 {
				q2.ChainSize = uint32(len(q2.Chain))
			}
			if fix&4 != 0 {
				q2.CertSize = uint32(384 + 64 + 2 + len(q2.Auth) + 6 + len(q2.Chain))
			}
			if fix&8 != 0 {
				q2.SignedDataSize = 134 + uint32(384+64+2+len(q2.Auth)+6+len(q2.Chain))
			}
			b = q2.Encode()
		}
		gen.Class("kind:" + kind)
		gen.Sample("bytes:"+kind, map[string]any{"len": len(b), "authLen": authLen, "chainLen": chainLen, "head": gen.Hex(b)})
		c09Check(t, b, kind)
	})

	// (a2) exhaustive: every truncation length of two valid quotes, every boundary value of each field.
	gen.Direct(t, "truncations", c09Truncations)
	gen.Direct(t, "size-field-boundaries", c09SizeBoundaries)

	// a quote written down as text - base64 in its four flavours, hexadecimal, PEM armour, with line breaks or blanks
	// around it - is a byte string that does not follow the v4 layout; and every 16-bit content field of a quote takes
	// every value, 0xffff included
	gen.Direct(t, "text-encodings-and-16-bit-field-values", func(t *testing.T) {
		s := gen.NewStream(gen.Seed(), "c09text")
		for i, sizes := range [][3]int{{32, 0, 0}, {0, 10, 0}, {64, 1200, 7}, {32, 3600, 0}} {
			if !gen.ShardOwns(i) {
				continue
			}
			raw := gen.RandomRefQuote(s, sizes[0], sizes[1], sizes[2]).Encode()
			texts := map[string][]byte{
				"base64-std":         []byte(base64.StdEncoding.EncodeToString(raw)),
				"base64-std-nopad":   []byte(base64.RawStdEncoding.EncodeToString(raw)),
				"base64-url":         []byte(base64.URLEncoding.EncodeToString(raw)),
				"base64-url-nopad":   []byte(base64.RawURLEncoding.EncodeToString(raw)),
				"base64-with-breaks": []byte("\n" + base64.StdEncoding.EncodeToString(raw[:300]) + "\r\n" + base64.StdEncoding.EncodeToString(raw[300:]) + "\n"),
				"hex-lower":          []byte(hex.EncodeToString(raw)),
				"hex-upper":          []byte(strings.ToUpper(hex.EncodeToString(raw))),
				"hex-0x":             []byte("0x" + hex.EncodeToString(raw)),
				"pem":                pem.EncodeToMemory(&pem.Block{Type: "TDX QUOTE", Bytes: raw}),
				"json-string":        []byte(`"` + base64.StdEncoding.EncodeToString(raw) + `"`),
				"base32":             []byte(base32.StdEncoding.EncodeToString(raw)),
			}
			for name, txt := range texts {
				c09Check(t, txt, "text:"+name)
				gen.NonTrivial("c09text", name, i)
			}
			// 16-bit content fields: header words 8 and 10 (QE SVN, PCE SVN) and the QE report's ISV_PROD_ID / ISV_SVN
			qer := 48 + 584 + 4 + 64 + 64 + 6
			for _, off := range []int{8, 10, qer + 256, qer + 258} {
				for _, v := range []uint64{0, 1, 0x7f, 0x80, 0xff, 0x100, 0x7fff, 0x8000, 0xfffe, 0xffff} {
					b := append([]byte{}, raw...)
					putLE(b, off, 2, v)
					c09Check(t, b, fmt.Sprintf("16-bit field at %d = %#x", off, v))
				}
			}
		}
		gen.Class("text-encodings-and-16-bit-field-values")
	})

	// (b) messages: structurally valid messages with arbitrary contents.
	gen.Prop(t, "messages", gen.N(15000, 1000000), func(t *rapid.T) {
		s := gen.NewStream(rapid.Uint64().Draw(t, "content"), "c09m")
		authLen := rapid.OneOf(rapid.IntRange(0, 64), rapid.SampledFrom([]int{0, 1, 255, 256, 65535})).Draw(t, "authLen")
		chainLen := rapid.OneOf(rapid.IntRange(0, 64), rapid.SampledFrom([]int{0, 5000, 70000})).Draw(t, "chainLen")
		extraLen := rapid.SampledFrom([]int{0, 0, 1, 100}).Draw(t, "extraLen")
		q := gen.RandomRefQuote(s, authLen, chainLen, extraLen)
		m := q.ToProto()
		want := q.Encode()
		// an empty byte string may be held as nil or as an empty slice (protocol buffers do not distinguish them):
		// as built, every empty one nil, every empty one non-nil, or the message as it comes back from the wire encoding
		switch rep := rapid.SampledFrom([]string{"as-built", "nil-for-empty", "empty-for-nil", "through-wire"}).Draw(t, "representation"); rep {
		case "nil-for-empty", "empty-for-nil":
			setEmpties(m, rep == "nil-for-empty")
			gen.Class("msg:" + rep)
		case "through-wire":
			b, err := proto.Marshal(m)
			m2 := &pb.QuoteV4{}
			if err == nil && proto.Unmarshal(b, m2) == nil {
				m = m2
			}
			gen.Class("msg:through-wire")
		}
		// in half of the cases every byte string of the message is a sub-slice of ONE buffer with spare capacity behind
		// it (what a zero-copy decoder hands out): serialising must not write behind any field
		var arena, arenaBefore []byte
		if rapid.Bool().Draw(t, "fieldsShareOneBuffer") {
			arena = arenaize(m, s)
			arenaBefore = append([]byte{}, arena...)
			gen.Class("msg:fields-share-one-buffer")
		}
		before := proto.Clone(m)
		gen.Eval()
		var got []byte
		v := gen.Call(func() error {
			var err error
			got, err = abi.QuoteToAbiBytes(m)
			return err
		})
		rp := map[string]any{"kind": "parse", "raw_hex": hex.EncodeToString(want)}
		if v.Panicked() {
			gen.Fail(t, gen.Violation{Key: "panic@" + gen.PanicSite(v.Stack), Oracle: "serialiser must not crash", Detail: v.Panic, Replay: rp})
			return
		}
		if !v.Accepted() {
			gen.Fail(t, gen.Violation{Key: "serialise-rejects-wellformed", Oracle: "well-formed message serialises", Detail: v.String(), Replay: rp})
			return
		}
		if !bytes.Equal(got, want) {
			gen.Fail(t, gen.Violation{Key: "serialise-mismatch", Oracle: "refEncode(m) == abi.QuoteToAbiBytes(m)", Detail: firstDiff(got, want), Replay: rp})
			return
		}
		if !proto.Equal(before, m) || !bytes.Equal(arena, arenaBefore) {
			d := "the message differs from what it was before the call"
			if !bytes.Equal(arena, arenaBefore) {
				d = "the buffer holding the message's byte strings changed: " + firstDiff(arena, arenaBefore)
			}
			gen.Fail(t, gen.Violation{Key: "serialise-modifies-message", Oracle: "every well-formed quote message survives serialise-then-parse unchanged", Detail: d, Replay: rp})
			return
		}
		// what was returned stays what it was while OTHER messages are serialised and parsed (no output buffer is shared)
		q2 := gen.RandomRefQuote(s, (authLen+7)%300, (chainLen+13)%700, extraLen)
		if v0 := gen.Call(func() error {
			_, err := abi.QuoteToAbiBytes(q2.ToProto())
			if err == nil {
				_, err = abi.QuoteToProto(q2.Encode())
			}
			return err
		}); v0.Panicked() || !bytes.Equal(got, want) {
			d := v0.Panic
			if d == "" {
				d = "bytes returned for the first message changed when another message was serialised: " + firstDiff(got, want)
			}
			gen.Fail(t, gen.Violation{Key: "serialised-bytes-change-later", Oracle: "serialising reproduces the quote byte for byte (and what was returned is the caller's)", Detail: d, Replay: rp})
			return
		}
		// a second serialisation of the same message gives the same bytes
		var got2 []byte
		if v1 := gen.Call(func() error {
			var err error
			got2, err = abi.QuoteToAbiBytes(m)
			return err
		}); !v1.Accepted() || !bytes.Equal(got2, want) {
			gen.Fail(t, gen.Violation{Key: "serialise-mismatch:second-call", Oracle: "refEncode(m) == abi.QuoteToAbiBytes(m), every time", Detail: firstDiff(got2, want), Replay: rp})
			return
		}
		var back any
		v2 := gen.Call(func() error {
			var err error
			back, err = abi.QuoteToProto(got)
			return err
		})
		if !v2.Accepted() {
			gen.Fail(t, gen.Violation{Key: "parse-of-serialised-fails", Oracle: "parse(serialise(m)) == m", Detail: v2.String(), Replay: rp})
			return
		}
		if bm, ok := back.(*pb.QuoteV4); !ok || !proto.Equal(bm, m) {
			gen.Fail(t, gen.Violation{Key: "message-roundtrip", Oracle: "parse(serialise(m)) == m", Detail: q.DiffProto(bm), Replay: rp})
			return
		}
		gen.NonTrivial(want)
		gen.Class(fmt.Sprintf("msg:auth>%d", bucket(authLen)))
		gen.Sample("message", map[string]any{"authLen": authLen, "chainLen": chainLen, "extraLen": extraLen, "len": len(want)})
	})
	c09Histories(t)
}

// setEmpties makes every zero-length byte string of the message nil (toNil) or empty-but-non-nil.
func setEmpties(m any, toNil bool) {
	var walk func(v reflect.Value)
	walk = func(v reflect.Value) {
		switch v.Kind() {
		case reflect.Ptr:
			if !v.IsNil() {
				walk(v.Elem())
			}
		case reflect.Struct:
			for i := 0; i < v.NumField(); i++ {
				if v.Type().Field(i).PkgPath == "" {
					walk(v.Field(i))
				}
			}
		case reflect.Slice:
			if v.Type().Elem().Kind() == reflect.Uint8 {
				if v.CanSet() && v.Len() == 0 {
					if toNil {
						v.Set(reflect.Zero(v.Type()))
					} else {
						v.Set(reflect.ValueOf([]byte{}))
					}
				}
				return
			}
			for i := 0; i < v.Len(); i++ {
				walk(v.Index(i))
			}
		}
	}
	walk(reflect.ValueOf(m))
}

// arenaize re-homes every byte string of a message into one buffer, in field order, each as buf[off:off+len] so
// that its capacity extends over everything that follows. It returns the buffer.
func arenaize(m any, s *gen.Stream) []byte {
	var fields []*[]byte
	var walk func(v reflect.Value)
	walk = func(v reflect.Value) {
		switch v.Kind() {
		case reflect.Ptr:
			if !v.IsNil() {
				walk(v.Elem())
			}
		case reflect.Struct:
			for i := 0; i < v.NumField(); i++ {
				if v.Type().Field(i).PkgPath == "" {
					walk(v.Field(i))
				}
			}
		case reflect.Slice:
			if v.Type().Elem().Kind() == reflect.Uint8 {
				if v.CanAddr() && v.Len() > 0 {
					fields = append(fields, v.Addr().Interface().(*[]byte))
				}
				return
			}
			for i := 0; i < v.Len(); i++ {
				walk(v.Index(i))
			}
		}
	}
	walk(reflect.ValueOf(m))
	total := 0
	for _, f := range fields {
		total += len(*f)
	}
	buf := s.Bytes(total + 4096)
	off := 0
	for _, f := range fields {
		n := copy(buf[off:], *f)
		*f = buf[off : off+n]
		off += n
	}
	return buf
}

func bucket(n int) int {
	switch {
	case n == 0:
		return -1
	case n < 64:
		return 0
	case n < 1024:
		return 64
	default:
		return 1024
	}
}
