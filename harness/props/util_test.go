package props

import (
	"os"
	"path/filepath"
	"testing"

	"verifharness/gen"
)

func readRepoFile(t testing.TB, rel string) []byte {
	b, err := os.ReadFile(filepath.Join(gen.RepoDir(), rel))
	if err != nil {
		gen.HarnessError(t, "cannot read %s: %v", rel, err)
	}
	return b
}
