package props

import (
	"bytes"
	"crypto/sha256"
	"crypto/x509"
	"io"
	"net/http"
	"regexp"

	"encoding/hex"
	"encoding/json"
	"encoding/pem"
	"fmt"
	tdxtesting "github.com/google/go-tdx-guest/testing"
	"github.com/google/go-tdx-guest/testing/testdata"
	"net/url"
	"strings"
	"testing"
	"time"

	"github.com/google/go-tdx-guest/abi"
	"github.com/google/go-tdx-guest/pcs"
	"github.com/google/go-tdx-guest/verify"
	"pgregory.net/rapid"
	"verifharness/gen"
)

type c03Kind struct {
	name    string // "tcb" | "qe"
	member  string
	hdr     string
	wantID  string
	wantVer float64
}

var kindTcb = c03Kind{"tcb", "tcbInfo", gen.HdrTcbInfo, "TDX", 3}
var kindQe = c03Kind{"qe", "enclaveIdentity", gen.HdrQeID, "TD_QE", 2}

func (k c03Kind) url(w *gen.World) string {
	if k.name == "tcb" {
		return gen.TcbInfoURL(w.FmspcHex())
	}
	return gen.QeIdentityURL
}

func (k c03Kind) at(w *gen.World) time.Time {
	if k.name == "tcb" {
		return w.Times.TcbInfo
	}
	return w.Times.QeIdentity
}

func (k c03Kind) signer(w *gen.World) *gen.Cert {
	if k.name == "tcb" {
		return w.PKI.TcbSig
	}
	return w.PKI.QeSig
}

func (k c03Kind) render(w *gen.World) []byte {
	if k.name == "tcb" {
		return w.TcbInfo.Render()
	}
	return w.QeID.Render()
}

// c03Eval serves the altered response and applies the oracle. class is the stable alteration class.
// variantOrExact spells a member name exactly or in another letter case.
func variantOrExact(t *rapid.T, key string) string {
	if rapid.IntRange(0, 2).Draw(t, "exactSpelling") > 0 {
		return key
	}
	return rapid.SampledFrom(gen.FoldVariants(key)).Draw(t, "extraSpelling")
}

func c03Eval(t gen.TB, w *gen.World, k c03Kind, resp gen.Response, class, desc string) {
	u := k.url(w)
	saved := w.Resp[u]
	defer func() { w.Resp[u] = saved }()
	w.Resp[u] = resp
	// half of the evaluations also check revocation, with authentic CRLs that list unrelated certificates (what an
	// altered document may count for does not depend on which further checks are switched on)
	lvl := gen.LvlColl
	if h := sha256.Sum256(resp.Body); h[0]&1 == 1 {
		lvl = gen.LvlCRL
	}
	o := w.Options(lvl, w.NewGetter(), nil)
	// the options value may have been in use (earlier failing calls through a getter serving the SAME altered response)
	if pk := prehistoryKind(resp.Body); pk != 0 && len(resp.Body) < 1<<16 {
		optionsPrehistory(w.Raw, o, pk, w.NewGetter())
		gen.Class("options-value-used-before")
	}
	gen.Eval()
	v, hung := gen.CallWatch(30*time.Second, func() error { return verify.RawTdxQuote(w.Raw, o) })
	gen.Class("level:" + lvl.String())
	if hung {
		rp := w.CaseFile(gen.LvlColl, nil, nil, nil, "c03")
		rp["kind"], rp["which"] = "collateral", k.name
		gen.Fail(t, gen.Violation{Key: "no-verdict:" + class, Oracle: "an altered response leads to rejection (a verifier that never returns has not rejected it)", Detail: desc + ": no verdict after 30 s", Replay: rp})
		return
	}
	members, jsonOK := gen.SplitTopLevel(resp.Body)
	_ = members
	hv := resp.Header[k.hdr]
	twoCerts := len(hv) > 0 && len(gen.HeaderCerts(hv[0])) >= 2
	if jsonOK && twoCerts {
		gen.NonTrivial(resp.Body, strings.Join(hv, "|"))
	}
	gen.Class("class:" + class)
	gen.Class("verdict:" + v.Short())
	rp := w.CaseFile(gen.LvlColl, nil, nil, nil, "c03")
	rp["kind"] = "collateral"
	rp["which"] = k.name
	if v.Panicked() {
		// crash-freedom is C10's statement; for this oracle a crash counts as rejection
		gen.Class("crash-counted-as-reject")
		return
	}
	if !v.Accepted() {
		return
	}
	if msg := c03Judge(w, k, resp); msg != "" {
		key := "accepts-unauthentic:" + class
		if strings.HasPrefix(msg, "unsigned") {
			key = "unsigned-values-drive-verdict:" + class
		}
		gen.Fail(t, gen.Violation{Key: key, Oracle: "the values that drive the verdict are exactly those in the member whose raw bytes verify under an Intel TCB-signing certificate chaining to the trusted roots", Detail: desc + ": " + msg, Replay: rp})
	}
}

// c03Judge is called for an ACCEPTED altered response; it returns "" when acceptance is justified.
func c03Judge(w *gen.World, k c03Kind, resp gen.Response) string {
	pairs := gen.Authenticate(resp.Body, resp.Header[k.hdr], w.PKI.Pool(), k.at(w))
	if len(pairs) == 0 {
		return "accepted although no member of the response verifies under any signature value with an acceptable signer"
	}
	why := ""
	for _, p := range pairs {
		if !gen.DocFieldsOK(p.Raw, k.wantID, k.wantVer) {
			why = "accepted although the signed member does not carry the expected id / version / non-empty level list"
			continue
		}
		// verdict on the response reduced to exactly the signed member
		u := k.url(w)
		saved := w.Resp[u]
		w.Resp[u] = gen.Response{Header: resp.Header, Body: gen.WrapBody(k.member, p.Raw, p.SigHex)}
		o := w.Options(gen.LvlColl, w.NewGetter(), nil)
		vr := gen.Call(func() error { return verify.RawTdxQuote(w.Raw, o) })
		w.Resp[u] = saved
		if vr.Accepted() {
			return ""
		}
		why = "unsigned content replaced the signed values: the response reduced to its signed member is rejected (" + vr.String() + ") but the altered response is accepted"
	}
	return why
}

func init() {
	replayKinds["collateral"] = func(c map[string]any) string {
		raw, _ := hex.DecodeString(c["raw_hex"].(string))
		o, g := decodeOptions(c)
		v := gen.Call(func() error { return verify.RawTdxQuote(raw, o) })
		if !v.Accepted() {
			return ""
		}
		// rebuild what the judge needs
		k := kindTcb
		var u string
		for cand := range g.Resp {
			if c["which"] == "qe" && strings.HasSuffix(cand, "/qe/identity") {
				k, u = kindQe, cand
			}
			if c["which"] == "tcb" && strings.Contains(cand, "/tcb?") {
				u = cand
			}
		}
		resp := g.Resp[u]
		at := o.Now.TcbInfo
		if k.name == "qe" {
			at = o.Now.QeIdentity
		}
		pairs := gen.Authenticate(resp.Body, resp.Header[k.hdr], o.TrustedRoots, at)
		if len(pairs) == 0 {
			return "accepted although nothing in the response is authentically signed"
		}
		for _, p := range pairs {
			if !gen.DocFieldsOK(p.Raw, k.wantID, k.wantVer) {
				continue
			}
			g2 := &gen.Getter{Resp: map[string]gen.Response{}, Script: map[string][]gen.Response{}}
			for a, b := range g.Resp {
				g2.Resp[a] = b
			}
			g2.Resp[u] = gen.Response{Header: resp.Header, Body: gen.WrapBody(k.member, p.Raw, p.SigHex)}
			o2 := *o
			o2.Getter = g2
			if gen.Call(func() error { return verify.RawTdxQuote(raw, &o2) }).Accepted() {
				return ""
			}
		}
		return "accepted although the response reduced to its signed member is rejected"
	}
}

// badDoc makes the world's document of kind k "bad" (so that the signed verdict is reject) in a chosen way.
func makeBad(w *gen.World, k c03Kind, how int) string {
	if k.name == "tcb" {
		switch how % 4 {
		case 0:
			for i := range w.TcbInfo.Levels {
				w.TcbInfo.Levels[i].Status = "OutOfDate"
			}
			return "signed says OutOfDate"
		case 1:
			w.TcbInfo.Fmspc = "00112233aabb"
			return "signed has another FMSPC"
		case 2:
			w.TcbInfo.NextUpdate = w.Times.TcbInfo.Add(-time.Hour)
			return "signed is expired"
		default:
			for i := range w.TcbInfo.Levels {
				w.TcbInfo.Levels[i].Status = "Revoked"
			}
			return "signed says Revoked"
		}
	}
	switch how % 4 {
	case 0:
		for i := range w.QeID.Levels {
			w.QeID.Levels[i].Status = "OutOfDate"
		}
		return "signed says OutOfDate"
	case 1:
		w.QeID.Mrsigner[0] ^= 0xff
		return "signed has another MRSIGNER"
	case 2:
		w.QeID.NextUpdate = w.Times.QeIdentity.Add(-time.Hour)
		return "signed is expired"
	default:
		w.QeID.IsvProdID ^= 0x8000
		return "signed has another ISVPRODID"
	}
}

func TestC03(t *testing.T) {
	replayDir(t, "C03")
	kinds := []c03Kind{kindTcb, kindQe}

	// (A) single-bit flips over the body and the (unescaped) issuer-chain header of genuine responses.
	gen.Direct(t, "bit-flips", func(t *testing.T) {
		step := 7
		if gen.Tier() == "thorough" {
			step = 1
		}
		w := gen.NewWorld(gen.NewPKI(gen.PKISpec{Seed: "pki-A"}), gen.NewStream(gen.Seed(), "c03bits")).Build()
		idx := 0
		for _, k := range kinds {
			base := w.Resp[k.url(w)]
			for bit := 0; bit < len(base.Body)*8; bit++ {
				idx++
				if idx%step != 0 || !gen.ShardOwns(idx/step) {
					continue
				}
				b := append([]byte{}, base.Body...)
				b[bit/8] ^= 1 << uint(bit%8)
				c03Eval(t, w, k, gen.Response{Header: base.Header, Body: b}, "body-bit", fmt.Sprintf("%s body bit %d", k.name, bit))
			}
			un, _ := url.QueryUnescape(base.Header[k.hdr][0])
			for bit := 0; bit < len(un)*8; bit++ {
				idx++
				if idx%step != 0 || !gen.ShardOwns(idx/step) {
					continue
				}
				h := []byte(un)
				h[bit/8] ^= 1 << uint(bit%8)
				c03Eval(t, w, k, gen.Response{Header: map[string][]string{k.hdr: {url.QueryEscape(string(h))}}, Body: base.Body}, "header-bit", fmt.Sprintf("%s header bit %d", k.name, bit))
			}
		}
		gen.Exhaustive("single-bit flips of body and issuer-chain header of both responses", step == 1)
	})

	// (A2) Intel's recorded collateral for the sample quote under the EMBEDDED root (TrustedRoots == nil), always after a
	// genuine verification in the same process: altered bodies must not start to count because genuine ones were seen.
	gen.Direct(t, "intel-sample-collateral-history", func(t *testing.T) {
		at := time.Date(2023, time.July, 1, 1, 0, 0, 0, time.UTC)
		pool := x509.NewCertPool()
		pool.AddCert(embeddedIntelRoot(t))
		tcbURL := "https://api.trustedservices.intel.com/tdx/certification/v4/tcb?fmspc=50806f000000"
		genuine := map[string]gen.Response{}
		for u, r := range tdxtesting.TestGetter.Responses {
			genuine[u] = gen.Response{Header: r.Header, Body: r.Body}
		}
		run := func(resp map[string]gen.Response) gen.Verdict {
			ts := verify.TimeSet{PckCertChain: at, TcbInfo: at, QeIdentity: at, PckCrl: at, RootCaCrl: at}
			o := &verify.Options{GetCollateral: true, Now: &ts, Getter: &gen.Getter{Resp: resp, Script: map[string][]gen.Response{}}}
			gen.Eval()
			return gen.Call(func() error { return verify.RawTdxQuote(testdata.RawQuote, o) })
		}
		if v := run(genuine); v.Panicked() {
			gen.HarnessError(t, "genuine sample collateral crashes: %s", v.Panic)
		}
		alter := func(name string, u string, k c03Kind, f func([]byte) []byte) bool {
			run(genuine) // the genuine response is seen first, in this very process
			resp := map[string]gen.Response{}
			for a, b := range genuine {
				resp[a] = b
			}
			r := resp[u]
			r.Body = f(append([]byte{}, r.Body...))
			resp[u] = r
			v := run(resp)
			gen.Class("class:intel-sample-" + name)
			gen.NonTrivial("intel-history", name, r.Body)
			if v.Accepted() && len(gen.Authenticate(r.Body, r.Header[k.hdr], pool, at)) == 0 {
				gen.Fail(t, gen.Violation{Key: "accepts-unauthentic:intel-sample-" + name, Oracle: "an altered response is rejected even after the genuine one was verified", Detail: "the sample quote is accepted with an altered, unauthentic " + k.name + " response (" + name + ") served after a genuine one",
					Replay: map[string]any{"kind": "intel-collateral-history", "alteration": name}})
				return false
			}
			return true
		}
		svnRe := regexp.MustCompile(`"svn":\d+`)
		pceRe := regexp.MustCompile(`"pcesvn":\d+`)
		if !alter("all-svns-zero", tcbURL, kindTcb, func(b []byte) []byte {
			return pceRe.ReplaceAll(svnRe.ReplaceAll(b, []byte(`"svn":0`)), []byte(`"pcesvn":0`))
		}) {
			return
		}
		if !alter("statuses-up-to-date", tcbURL, kindTcb, func(b []byte) []byte {
			return bytes.ReplaceAll(pceRe.ReplaceAll(svnRe.ReplaceAll(b, []byte(`"svn":0`)), []byte(`"pcesvn":0`)), []byte(`"OutOfDate"`), []byte(`"UpToDate"`))
		}) {
			return
		}
		step := 211
		if gen.Tier() == "thorough" {
			step = 13
		}
		for _, kk := range []struct {
			u string
			k c03Kind
		}{{tcbURL, kindTcb}, {gen.QeIdentityURL, kindQe}} {
			n := len(genuine[kk.u].Body) * 8
			for bit := 0; bit < n; bit += step {
				if !gen.ShardOwns(bit / step) {
					continue
				}
				bit := bit
				if !alter("bit", kk.u, kk.k, func(b []byte) []byte { b[bit/8] ^= 1 << uint(bit%8); return b }) {
					return
				}
			}
		}
	})

	// (A3) Intel's genuine recorded collateral for a platform under a PRIVATE root: a look-alike of the sample platform
	// (same FMSPC / PCE-ID, the sample's TDX-module and QE identity values, top SVNs) certified by the harness's own PKI.
	// The recorded responses are authentic — signed by Intel's TCB signer under Intel's root — but the caller pinned a
	// private root only: the collateral does not chain to the trusted roots and must not count. With Intel's root added
	// to the pool the same quote is accepted (control: the scenario is not vacuous).
	gen.Direct(t, "intel-collateral-under-a-private-root", func(t *testing.T) {
		sample, err := gen.RefParse(testdata.RawQuote)
		if err != nil {
			gen.HarnessError(t, "reference parser rejects the sample quote: %v", err)
		}
		at := time.Date(2023, time.July, 1, 1, 0, 0, 0, time.UTC)
		for i := 0; i < 3; i++ {
			p := gen.NewPKI(gen.PKISpec{Seed: gen.PKISeeds[i]})
			w := gen.NewWorld(p, gen.NewStream(gen.Seed()+uint64(i), "c03intel"))
			copy(w.Sgx.Fmspc[:], []byte{0x50, 0x80, 0x6f, 0x00, 0x00, 0x00})
			w.Sgx.PceID = [2]byte{0, 0}
			for j := range w.Sgx.Comp {
				w.Sgx.Comp[j] = 255
			}
			w.Sgx.PceSvn = 65535
			q := w.Q
			for j := range q.TeeTcbSvn {
				q.TeeTcbSvn[j] = 255
			}
			q.TeeTcbSvn[1] = 0
			q.MrSignerSeam, q.SeamAttr = sample.MrSignerSeam, sample.SeamAttr
			q.QeMiscSelect, q.QeAttributes, q.QeMrSigner, q.QeIsvProdID, q.QeIsvSvn = sample.QeMiscSelect, sample.QeAttributes, sample.QeMrSigner, sample.QeIsvProdID, 65535
			w.Times = verify.TimeSet{PckCertChain: at, TcbInfo: at, QeIdentity: at, PckCrl: at, RootCaCrl: at}
			w.Build()
			resp := map[string]gen.Response{}
			for u, r := range tdxtesting.TestGetter.Responses {
				resp[u] = gen.Response{Header: r.Header, Body: r.Body}
			}
			run := func(pool *x509.CertPool) gen.Verdict {
				ts := w.Times
				o := &verify.Options{GetCollateral: true, TrustedRoots: pool, Now: &ts, Getter: &gen.Getter{Resp: resp, Script: map[string][]gen.Response{}}}
				gen.Eval()
				return gen.Call(func() error { return verify.RawTdxQuote(w.Raw, o) })
			}
			both := x509.NewCertPool()
			both.AddCert(p.Root.X)
			both.AddCert(embeddedIntelRoot(t))
			if v := run(both); !v.Accepted() {
				// the recorded collateral does not fit the look-alike after all: nothing to conclude from the private-pool run
				gen.Class("intel-collateral-control-rejected")
				gen.Inconclusive("intel-collateral-under-a-private-root: control (pool with both roots) rejected: " + v.String())
				return
			}
			v := run(p.Pool())
			gen.NonTrivial("intel-private", i)
			gen.Class("class:intel-collateral-under-a-private-root")
			gen.Sample("intel-collateral-under-a-private-root", map[string]any{"pki": gen.PKISeeds[i], "verdict": v.Short()})
			if v.Accepted() {
				gen.Fail(t, gen.Violation{Key: "accepts-unauthentic:intel-signed-collateral-under-a-private-root", Oracle: "collateral counts only if its signer chains to the TRUSTED roots (here: a private root only)", Detail: "a platform certified under a private root is accepted with Intel's recorded collateral although Intel's root is not in the pool",
					Replay: map[string]any{"kind": "intel-collateral-private-root", "pki": gen.PKISeeds[i]}})
				return
			}
		}
	})

	// (A4) the level-reporting API on an options value that verified a quote earlier: whatever it reports, and whenever it
	// is called (also after the kept documents have passed their nextUpdate, with the endpoint by then serving altered
	// documents), comes from authenticated documents. The altered documents carry a marker date no authentic one has.
	gen.Prop(t, "level-report-after-the-kept-documents-expired", gen.N(300, 20000), func(t *rapid.T) {
		w, _ := gen.DrawWorld(t, gen.WorldCfg{MaxAuth: 16, Simple: true})
		w.TcbInfo.NextUpdate = w.Times.TcbInfo.Add(time.Hour)
		w.QeID.NextUpdate = w.Times.QeIdentity.Add(time.Hour)
		w.Build()
		o := w.Options(gen.LvlColl, w.NewGetter(), nil)
		gen.Eval()
		if v := gen.Call(func() error { return verify.RawTdxQuote(w.Raw, o) }); !v.Accepted() {
			gen.HarnessError(t, "honest world rejected: %s", v)
		}
		const marker = "2037-07-07T07:07:07Z"
		forged := *w
		forged.TcbInfo.Levels = append([]gen.PlatformLevel{}, w.TcbInfo.Levels...)
		forged.QeID.Levels = append([]gen.QeLevel{}, w.QeID.Levels...)
		for i := range forged.TcbInfo.Levels {
			forged.TcbInfo.Levels[i].Date, forged.TcbInfo.Levels[i].Status = marker, "UpToDate"
		}
		for i := range forged.QeID.Levels {
			forged.QeID.Levels[i].Date, forged.QeID.Levels[i].Status = marker, "UpToDate"
		}
		forged.TcbInfo.NextUpdate, forged.QeID.NextUpdate = gen.Wide.NotAfter, gen.Wide.NotAfter
		fk := gen.NewPKI(gen.PKISpec{Seed: "pki-foreign"})
		how := rapid.SampledFrom([]string{"foreign-signer", "signature-zeroed", "genuine-header-foreign-key"}).Draw(t, "forgedHow")
		g2 := w.NewGetter()
		for _, k := range kinds {
			var body []byte
			hdr := g2.Resp[k.url(w)].Header
			switch how {
			case "foreign-signer":
				body = gen.SignedBody(k.member, k.render(&forged), fk.TcbSig.Key)
				hdr = map[string][]string{k.hdr: {gen.IssuerChainHeader(fk.TcbSig, fk.Root)}}
			case "signature-zeroed":
				body = gen.WrapBody(k.member, k.render(&forged), strings.Repeat("00", 64))
			default:
				body = gen.SignedBody(k.member, k.render(&forged), fk.TcbSig.Key)
			}
			g2.Resp[k.url(w)] = gen.Response{Header: hdr, Body: body}
		}
		which := rapid.SampledFrom([]string{"both-expired", "tcbinfo-expired", "qeidentity-expired", "none-expired"}).Draw(t, "expired")
		ts := *o.Now
		if which == "both-expired" || which == "tcbinfo-expired" {
			ts.TcbInfo = ts.TcbInfo.Add(2 * time.Hour)
		}
		if which == "both-expired" || which == "qeidentity-expired" {
			ts.QeIdentity = ts.QeIdentity.Add(2 * time.Hour)
		}
		o.Now = &ts
		o.Getter = g2
		msg, err := abi.QuoteToProto(w.Raw)
		if err != nil {
			gen.HarnessError(t, "own quote does not parse: %v", err)
		}
		gen.Eval()
		var tl, ql pcs.TcbLevel
		v := gen.Call(func() error {
			var err error
			tl, ql, err = verify.SupportedTcbLevelsFromCollateral(msg, o)
			return err
		})
		gen.Class("level-report:" + which + ":" + v.Short())
		gen.NonTrivial("level-report", how, which, w.Raw[:64])
		gen.Sample("level-report", map[string]any{"forged": how, "expired": which, "outcome": v.Short()})
		if v.Panicked() {
			return // C10's business
		}
		if v.Accepted() && (tl.TcbDate == marker || ql.TcbDate == marker) {
			gen.Fail(t, gen.Violation{Key: "level-report-from-unauthenticated-documents:" + how, Oracle: "the values reported come from members whose raw bytes verify under an Intel TCB-signing certificate chaining to the trusted roots",
				Detail: fmt.Sprintf("after a successful verification, with %s, the endpoint serves %s documents; the level report returned their values (TCB level date %q, QE level date %q) with a nil error", which, how, tl.TcbDate, ql.TcbDate),
				Replay: map[string]any{"kind": "c03-level-report", "forged": how, "expired": which}})
		}
	})

	// (A5) the trusted roots of a re-used options value are replaced by the caller between two calls: from then on
	// collateral (and chains) under the FORMER roots count for nothing
	gen.Prop(t, "trusted-roots-replaced-on-a-reused-options-value", gen.N(200, 15000), func(t *rapid.T) {
		w, _ := gen.DrawWorld(t, gen.WorldCfg{MaxAuth: 16, Simple: true})
		w.Build()
		lvl := rapid.SampledFrom([]gen.Level{gen.LvlColl, gen.LvlCRL}).Draw(t, "level")
		o := w.Options(lvl, w.NewGetter(), nil)
		if rapid.Bool().Draw(t, "firstCall") {
			gen.Eval()
			if v := gen.Call(func() error { return verify.RawTdxQuote(w.Raw, o) }); !v.Accepted() {
				gen.HarnessError(t, "honest world rejected: %s", v)
			}
		}
		// a quote under another PKI B whose collateral endpoint still serves (or is made to serve) documents signed under
		// the former root A with content matching B's quote
		other := gen.NewPKI(gen.PKISpec{Seed: "pki-replaced-roots"})
		wb := *w
		wb.PKI = other
		wb.Leaf = nil
		wb.Q = w.Q.Clone()
		wb.SignQuote()
		o.TrustedRoots = other.Pool() // the caller now trusts B only
		o.Getter = w.NewGetter()      // ... and the endpoint serves A-signed collateral
		target := wb.Raw
		if rapid.Bool().Draw(t, "sameQuoteAgain") {
			target = w.Raw // the very quote (chain and collateral under the former root A) verified before
		}
		gen.Eval()
		v := gen.Call(func() error { return verify.RawTdxQuote(target, o) })
		gen.NonTrivial("roots-replaced", lvl.String(), wb.Raw[:32])
		gen.Class("roots-replaced:" + v.Short())
		if v.Accepted() {
			gen.Fail(t, gen.Violation{Key: "accepts-unauthentic:collateral-under-former-roots", Oracle: "collateral counts only if its signer chains to the roots trusted NOW", Detail: fmt.Sprintf("level %s: after the options' TrustedRoots were replaced by another PKI's root, a quote is accepted with collateral signed under the former root", lvl),
				Replay: map[string]any{"kind": "c03-roots-replaced"}})
		}
	})

	// (B..F) structured alterations.
	alterations := []string{
		"foreign-signer-header-foreign", "foreign-signer-header-genuine", "signed-by-pck-leaf", "signed-by-intermediate", "signed-by-root", "signer-wrong-name", "signer-self-signed-lookalike-root",
		"signature-over-whole-body", "signature-over-reencoded", "reencoded-whitespace", "reencoded-key-order", "reencoded-number", "reencoded-hexcase", "reencoded-escape",
		"dup-member-after", "dup-member-before", "dup-exact-after", "dup-exact-before", "dup-signature-after", "dup-signature-before", "extra-unknown-member", "signature-hex-case", "signature-key-case",
		"wrong-id", "wrong-version", "empty-levels", "missing-member", "missing-signature", "signature-short", "signature-not-hex",
		"header-missing", "header-empty", "header-two-values", "header-one-cert", "header-three-certs", "header-wrong-pem-type", "header-foreign-pem-block", "header-not-escaped", "header-swapped-order", "header-other-key-case",
		"signed-omits-field-unsigned-supplies-it", "signed-omits-field-unsigned-supplies-it", "signer-clones-issuer-and-serial-lookalike-root", "signer-clones-issuer-and-serial-genuine-root", "signer-clones-issuer-and-serial-bitflipped-genuine-cert",
		"exact-key-unsigned-other-key-signed-after", "exact-key-unsigned-other-key-signed-before", "exact-key-unsigned-other-key-signed-after",
		"foreign-signer-not-yet-valid", "foreign-signer-expired", "foreign-signer-not-yet-valid-header-genuine-root",
		"id-and-version-of-the-other-document", "other-document-in-this-position", "version-with-a-fraction", "version-with-a-fraction",
		"signature-matches-bytes-parked-in-the-other-response", "signature-matches-bytes-parked-in-the-other-response",
		"header-escaped-very-many-times",
		"control-canonical",
	}
	gen.Prop(t, "alterations", gen.N(6000, 250000), func(t *rapid.T) {
		k := rapid.SampledFrom(kinds).Draw(t, "kind")
		alt := rapid.SampledFrom(alterations).Draw(t, "alteration")
		w, _ := gen.DrawWorld(t, gen.WorldCfg{MaxAuth: 16, Simple: true, NoModule: alt != "signed-omits-field-unsigned-supplies-it", ForceModule: alt == "signed-omits-field-unsigned-supplies-it" && k.name == "tcb"})
		for i, n := 0, rapid.IntRange(0, 3).Draw(t, "unrelatedRevocations"); i < n; i++ {
			w.RootCrl.Revoked = append(w.RootCrl.Revoked, []byte{0x31, byte(i), 0x77, 0x01})
			w.PckCrl.Revoked = append(w.PckCrl.Revoked, []byte{0x32, byte(i), 0x78})
		}
		w.Build()
		// Optionally the signed document is bad / good while the unsigned payload says the opposite.
		signedBad := rapid.IntRange(0, 2).Draw(t, "signedBad")
		how := rapid.IntRange(0, 3).Draw(t, "how")
		if strings.HasPrefix(alt, "exact-key-unsigned-other-key-signed") {
			// the unsigned payload under the exact key says "good", the signed bytes elsewhere say "bad"; mostly with
			// both of the same length (another FMSPC / MRSIGNER), so that one cannot be told from the other by size
			signedBad = 1
			if rapid.IntRange(0, 3).Draw(t, "equalLength") > 0 {
				how = 1
			}
		}
		goodRaw := k.render(w)
		bad := *w
		// deep-copy the documents that makeBad touches
		bad.TcbInfo.Levels = append([]gen.PlatformLevel{}, w.TcbInfo.Levels...)
		bad.QeID.Levels = append([]gen.QeLevel{}, w.QeID.Levels...)
		bad.QeID.Mrsigner = append([]byte{}, w.QeID.Mrsigner...)
		badDesc := makeBad(&bad, k, how)
		badRaw := k.render(&bad)
		signedRaw, unsignedRaw := goodRaw, badRaw
		if signedBad > 0 {
			signedRaw, unsignedRaw = badRaw, goodRaw
		}
		signer := k.signer(w)
		sigHex := hex.EncodeToString(signer.Key.SignRaw(signedRaw))
		hdrVal := gen.IssuerChainHeader(signer, w.PKI.Root)
		resp := gen.Response{Header: map[string][]string{k.hdr: {hdrVal}}, Body: gen.WrapBody(k.member, signedRaw, sigHex)}
		pb := gen.NewPKI(gen.PKISpec{Seed: "pki-foreign"})
		body := func(parts ...string) []byte { return []byte("{" + strings.Join(parts, ",") + "}") }
		mem := func(key string, raw []byte) string { return `"` + key + `":` + string(raw) }
		sigm := func(key, hexs string) string { return `"` + key + `":"` + hexs + `"` }
		variant := func(key string) string {
			vs := gen.FoldVariants(key)
			return rapid.SampledFrom(vs).Draw(t, "spelling")
		}
		switch alt {
		case "control-canonical":
		case "foreign-signer-header-foreign":
			resp.Body = gen.SignedBody(k.member, signedRaw, pb.TcbSig.Key)
			resp.Header = map[string][]string{k.hdr: {gen.IssuerChainHeader(pb.TcbSig, pb.Root)}}
		case "foreign-signer-header-genuine":
			resp.Body = gen.SignedBody(k.member, signedRaw, pb.TcbSig.Key)
		case "signed-by-pck-leaf":
			resp.Body = gen.SignedBody(k.member, signedRaw, w.Leaf.Key)
			resp.Header = map[string][]string{k.hdr: {gen.IssuerChainHeader(w.Leaf, w.PKI.Root)}}
		case "signed-by-intermediate":
			resp.Body = gen.SignedBody(k.member, signedRaw, w.PKI.Int.Key)
			resp.Header = map[string][]string{k.hdr: {gen.IssuerChainHeader(w.PKI.Int, w.PKI.Root)}}
		case "signed-by-root":
			resp.Body = gen.SignedBody(k.member, signedRaw, w.PKI.Root.Key)
			resp.Header = map[string][]string{k.hdr: {gen.IssuerChainHeader(w.PKI.Root, w.PKI.Root)}}
		case "signer-wrong-name":
			c := gen.MakeCert(gen.CertSpec{CN: "Intel SGX TCB Signing 2", KeyLabel: "c03/othername", Serial: []byte{7, 7}, NotBefore: gen.Wide.NotBefore, NotAfter: gen.Wide.NotAfter, CRLDP: []string{gen.RootCrlURL}}, w.PKI.Root)
			resp.Body = gen.SignedBody(k.member, signedRaw, c.Key)
			resp.Header = map[string][]string{k.hdr: {gen.IssuerChainHeader(c, w.PKI.Root)}}
		case "signer-self-signed-lookalike-root":
			// a TCB-signing certificate under a look-alike root that is NOT in the pool, header carries that root
			resp.Body = gen.SignedBody(k.member, signedRaw, pb.QeSig.Key)
			resp.Header = map[string][]string{k.hdr: {gen.IssuerChainHeader(pb.QeSig, pb.Root)}}
		case "signature-over-whole-body":
			whole := gen.WrapBody(k.member, signedRaw, "")
			resp.Body = gen.WrapBody(k.member, signedRaw, hex.EncodeToString(signer.Key.SignRaw(whole)))
		case "signature-over-reencoded":
			resp.Body = gen.WrapBody(k.member, signedRaw, hex.EncodeToString(signer.Key.SignRaw(append([]byte(" "), signedRaw...))))
		case "reencoded-whitespace":
			re := bytes.Replace(signedRaw, []byte(`,"`), []byte(`, "`), rapid.IntRange(1, 3).Draw(t, "n"))
			resp.Body = gen.WrapBody(k.member, re, sigHex)
		case "reencoded-key-order":
			// move the first member ("id") to the end
			i := bytes.IndexByte(signedRaw, ',')
			re := append([]byte("{"), signedRaw[i+1:len(signedRaw)-1]...)
			re = append(re, ',')
			re = append(re, signedRaw[1:i]...)
			re = append(re, '}')
			resp.Body = gen.WrapBody(k.member, re, sigHex)
		case "reencoded-number":
			re := bytes.Replace(signedRaw, []byte(`"version":`), []byte(`"version":0`), 1)
			if bytes.Equal(re, signedRaw) {
				re = bytes.Replace(signedRaw, []byte(`:17,`), []byte(`:17.0,`), 1)
			} else {
				re = bytes.Replace(signedRaw, []byte(`"tcbEvaluationDataNumber":17`), []byte(`"tcbEvaluationDataNumber":1.7e1`), 1)
			}
			resp.Body = gen.WrapBody(k.member, re, sigHex)
		case "reencoded-hexcase":
			re := append([]byte{}, signedRaw...)
			i := bytes.Index(re, []byte(`"mrsigner":"`)) + len(`"mrsigner":"`)
			for j := i; j < i+64 && j < len(re); j++ {
				if re[j] >= 'a' && re[j] <= 'f' {
					re[j] -= 32
					break
				} else if re[j] >= 'A' && re[j] <= 'F' {
					re[j] += 32
					break
				}
			}
			resp.Body = gen.WrapBody(k.member, re, sigHex)
		case "reencoded-escape":
			re := bytes.Replace(signedRaw, []byte(`"id":"T`), []byte(`"id":"T`), 1)
			resp.Body = gen.WrapBody(k.member, re, sigHex)
		case "signed-omits-field-unsigned-supplies-it":
			// the signed member lacks one field; an unsigned look-alike member offers a complete, favourable document
			var m map[string]any
			_ = json.Unmarshal(goodRaw, &m)
			keys := []string{"tdxModuleIdentities", "id", "version", "tcbLevels", "fmspc", "pceId", "tdxModule", "nextUpdate"}
			if k.name == "qe" {
				keys = []string{"id", "version", "tcbLevels", "mrsigner", "isvprodid", "miscselect", "miscselectMask", "attributes", "attributesMask", "nextUpdate"}
			}
			drop := rapid.SampledFrom(keys).Draw(t, "dropped")
			delete(m, drop)
			partial, _ := json.Marshal(m)
			psig := hex.EncodeToString(signer.Key.SignRaw(partial))
			if rapid.Bool().Draw(t, "before") {
				resp.Body = body(mem(variant(k.member), goodRaw), mem(k.member, partial), sigm("signature", psig))
			} else {
				resp.Body = body(mem(k.member, partial), mem(variant(k.member), goodRaw), sigm("signature", psig))
			}
			signedBad = 0
			badDesc = "signed member lacks " + drop
		case "signer-clones-issuer-and-serial-lookalike-root", "signer-clones-issuer-and-serial-genuine-root", "signer-clones-issuer-and-serial-bitflipped-genuine-cert":
			// a forged signing certificate that copies the issuer name and the serial number of the OTHER
			// document's genuine signer (so anything keyed on issuer+serial confuses the two)
			other := w.PKI.TcbSig
			if k.name == "tcb" {
				other = w.PKI.QeSig
			}
			fake := gen.MakeCert(gen.CertSpec{CN: gen.CNTcbSigner, KeyLabel: "c03/clone-key", Serial: other.X.SerialNumber.Bytes(), NotBefore: gen.Wide.NotBefore, NotAfter: gen.Wide.NotAfter, CRLDP: []string{gen.RootCrlURL}}, pb.Root)
			resp.Body = gen.SignedBody(k.member, signedRaw, fake.Key)
			switch alt {
			case "signer-clones-issuer-and-serial-lookalike-root":
				resp.Header = map[string][]string{k.hdr: {gen.IssuerChainHeader(fake, pb.Root)}}
			case "signer-clones-issuer-and-serial-genuine-root":
				resp.Header = map[string][]string{k.hdr: {gen.IssuerChainHeader(fake, w.PKI.Root)}}
			default:
				// the genuine other signer's certificate with one bit of its signature flipped, body signed by that signer's key
				der := append([]byte{}, other.DER...)
				der[len(der)-3] ^= 0x01
				pemB := pem.EncodeToMemory(&pem.Block{Type: "CERTIFICATE", Bytes: der})
				resp.Header = map[string][]string{k.hdr: {url.QueryEscape(string(pemB) + string(w.PKI.Root.PEM))}}
				resp.Body = gen.SignedBody(k.member, signedRaw, other.Key)
			}
		case "exact-key-unsigned-other-key-signed-after":
			other := rapid.SampledFrom([]string{"zzz", "advisory", k.member + "2", "signedData", "x"}).Draw(t, "otherKey")
			resp.Body = body(mem(k.member, unsignedRaw), sigm("signature", sigHex), mem(other, signedRaw))
			if rapid.Bool().Draw(t, "sigLast") {
				resp.Body = body(mem(k.member, unsignedRaw), mem(other, signedRaw), sigm("signature", sigHex))
			}
			if len(unsignedRaw) == len(signedRaw) {
				gen.Class("forged-member-has-the-length-of-the-signed-one")
			}
		case "exact-key-unsigned-other-key-signed-before":
			other := rapid.SampledFrom([]string{"aaa", "advisory", k.member + "2", "signedData"}).Draw(t, "otherKey")
			resp.Body = body(mem(other, signedRaw), mem(k.member, unsignedRaw), sigm("signature", sigHex))
		case "foreign-signer-not-yet-valid", "foreign-signer-expired", "foreign-signer-not-yet-valid-header-genuine-root":
			// a foreign hierarchy whose signing certificate is out of date at the judging time: "expired / not yet
			// valid" must not be mistaken for "valid apart from its dates" — no path to the trusted roots was ever found
			win := gen.Window{NotBefore: k.at(w).Add(time.Hour), NotAfter: gen.Wide.NotAfter.AddDate(1, 0, 0)}
			if alt == "foreign-signer-expired" {
				win = gen.Window{NotBefore: gen.Wide.NotBefore.AddDate(-1, 0, 0), NotAfter: k.at(w).Add(-time.Hour)}
			}
			pf := gen.NewPKI(gen.PKISpec{Seed: "pki-foreign-dated/" + alt + "/" + k.at(w).Format(time.RFC3339), TcbW: win, QeW: win})
			fs := pf.TcbSig
			if k.name == "qe" {
				fs = pf.QeSig
			}
			resp.Body = gen.SignedBody(k.member, signedRaw, fs.Key)
			resp.Header = map[string][]string{k.hdr: {gen.IssuerChainHeader(fs, pf.Root)}}
			if alt == "foreign-signer-not-yet-valid-header-genuine-root" {
				resp.Header = map[string][]string{k.hdr: {gen.IssuerChainHeader(fs, w.PKI.Root)}}
			}
		case "dup-member-after":
			resp.Body = body(mem(k.member, signedRaw), mem(variant(k.member), unsignedRaw), sigm("signature", sigHex))
		case "dup-member-before":
			resp.Body = body(mem(variant(k.member), unsignedRaw), mem(k.member, signedRaw), sigm("signature", sigHex))
		case "dup-exact-after":
			resp.Body = body(mem(k.member, signedRaw), sigm("signature", sigHex), mem(k.member, unsignedRaw))
		case "dup-exact-before":
			resp.Body = body(mem(k.member, unsignedRaw), mem(k.member, signedRaw), sigm("signature", sigHex))
		case "dup-signature-after":
			resp.Body = body(mem(k.member, signedRaw), sigm("signature", sigHex), sigm(rapid.SampledFrom(append(gen.FoldVariants("signature"), "signature")).Draw(t, "sigspelling"), hex.EncodeToString(pb.TcbSig.Key.SignRaw(signedRaw))))
		case "dup-signature-before":
			resp.Body = body(sigm(rapid.SampledFrom(append(gen.FoldVariants("signature"), "signature")).Draw(t, "sigspelling"), hex.EncodeToString(signer.Key.SignRaw(unsignedRaw))), mem(k.member, signedRaw), sigm("signature", sigHex), mem(variant(k.member), unsignedRaw))
		case "extra-unknown-member":
			resp.Body = body(mem("advisory", []byte(`{"note":"x"}`)), mem(k.member, signedRaw), sigm("signature", sigHex), mem("zzz", unsignedRaw))
		case "signature-hex-case":
			resp.Body = gen.WrapBody(k.member, signedRaw, strings.ToUpper(sigHex))
		case "signature-key-case":
			resp.Body = body(mem(k.member, signedRaw), sigm(variant("signature"), sigHex))
		case "wrong-id", "wrong-version", "empty-levels":
			ww := *w
			ww.TcbInfo.Levels = append([]gen.PlatformLevel{}, w.TcbInfo.Levels...)
			ww.QeID.Levels = append([]gen.QeLevel{}, w.QeID.Levels...)
			switch alt {
			case "wrong-id":
				ww.TcbInfo.ID = rapid.SampledFrom([]string{"SGX", "tdx", "TDX ", "TD_QE"}).Draw(t, "id")
				ww.QeID.ID = rapid.SampledFrom([]string{"QE", "td_qe", "TDX", "TD_QE2"}).Draw(t, "qid")
			case "wrong-version":
				ww.TcbInfo.Version = rapid.SampledFrom([]int{2, 4, 0, 255}).Draw(t, "ver")
				ww.QeID.Version = rapid.SampledFrom([]int{1, 3, 0, 255}).Draw(t, "qver")
			case "empty-levels":
				ww.TcbInfo.Levels = nil
				ww.QeID.Levels = nil
			}
			resp.Body = gen.SignedBody(k.member, k.render(&ww), signer.Key)
		case "version-with-a-fraction":
			// correctly signed, the version a number strictly between the expected one and the next (or just below it)
			doc := k.render(w)
			frac := rapid.SampledFrom([]string{".5", ".999", ".25", ".0000001", ".9999999999"}).Draw(t, "fraction")
			want := fmt.Sprintf(`"version":%d`, int(k.wantVer))
			spelled := want + frac
			if rapid.IntRange(0, 3).Draw(t, "justBelow") == 0 {
				spelled = fmt.Sprintf(`"version":%d.99999`, int(k.wantVer)-1)
			}
			doc = bytes.Replace(doc, []byte(want), []byte(spelled), 1)
			resp.Body = gen.SignedBody(k.member, doc, signer.Key)
		case "id-and-version-of-the-other-document":
			// wrong id AND wrong version together, in the one way that is right for the other document
			ww := *w
			ww.TcbInfo.ID, ww.TcbInfo.Version = "TD_QE", 2
			ww.QeID.ID, ww.QeID.Version = "TDX", 3
			resp.Body = gen.SignedBody(k.member, k.render(&ww), signer.Key)
		case "other-document-in-this-position":
			// the genuinely signed OTHER document served under this member name (both are signed by TCB signers)
			ok := kindQe
			if k.name == "qe" {
				ok = kindTcb
			}
			resp.Body = gen.SignedBody(k.member, ok.render(w), signer.Key)
		case "signature-matches-bytes-parked-in-the-other-response":
			// this response: a document the signature does NOT match (the signature is the genuine one, over other
			// bytes); the bytes it does match travel as an unsigned extra member of the same name in the OTHER response
			resp.Body = gen.WrapBody(k.member, unsignedRaw, sigHex)
			other := kindQe
			if k.name == "qe" {
				other = kindTcb
			}
			ou := other.url(w)
			ob := bytes.TrimSpace(w.Resp[ou].Body)
			if len(ob) > 2 && ob[0] == '{' {
				extra := mem(variantOrExact(t, k.member), signedRaw)
				var nb []byte
				if rapid.Bool().Draw(t, "extraMemberFirst") {
					nb = append([]byte("{"+extra+","), ob[1:]...)
				} else {
					nb = append(append([]byte{}, ob[:len(ob)-1]...), []byte(","+extra+"}")...)
				}
				r := w.Resp[ou]
				r.Body = nb
				w.Resp[ou] = r
			}
		case "missing-member":
			resp.Body = body(sigm("signature", sigHex))
		case "missing-signature":
			resp.Body = body(mem(k.member, signedRaw))
		case "signature-short":
			resp.Body = gen.WrapBody(k.member, signedRaw, sigHex[:126])
		case "signature-not-hex":
			resp.Body = gen.WrapBody(k.member, signedRaw, "zz"+sigHex[2:])
		case "header-missing":
			resp.Header = map[string][]string{}
		case "header-empty":
			resp.Header = map[string][]string{k.hdr: {""}}
		case "header-two-values":
			resp.Header = map[string][]string{k.hdr: {hdrVal, gen.IssuerChainHeader(pb.TcbSig, pb.Root)}}
		case "header-one-cert":
			resp.Header = map[string][]string{k.hdr: {gen.IssuerChainHeader(signer)}}
		case "header-three-certs":
			resp.Header = map[string][]string{k.hdr: {gen.IssuerChainHeader(signer, w.PKI.Root, w.PKI.Int)}}
		case "header-wrong-pem-type":
			resp.Header = map[string][]string{k.hdr: {url.QueryEscape(strings.Replace(string(gen.ChainPEM(signer, w.PKI.Root)), "CERTIFICATE", "TRUSTED CERTIFICATE", 2))}}
		case "header-foreign-pem-block":
			// a well-formed PEM block that is not a certificate before, between or behind the two certificates
			blk := string(pem.EncodeToMemory(&pem.Block{Type: rapid.SampledFrom([]string{"X509 CRL", "PUBLIC KEY", "CERTIFICATE REQUEST", "TRUSTED CERTIFICATE"}).Draw(t, "blockType"), Bytes: w.PKI.Int.DER}))
			parts := []string{string(signer.PEM), string(w.PKI.Root.PEM)}
			at := rapid.IntRange(0, 2).Draw(t, "blockAt")
			parts = append(parts[:at], append([]string{blk}, parts[at:]...)...)
			resp.Header = map[string][]string{k.hdr: {url.QueryEscape(strings.Join(parts, ""))}}
		case "header-escaped-very-many-times":
			// a few hundred kilobytes of header: a line feed (or the genuine chain) percent-encoded tens of thousands of
			// times over - %25 is the escape of the escape character. One round of decoding leaves no certificate.
			n := rapid.SampledFrom([]int{20000, 100000, 150000}).Draw(t, "escapeLevels")
			tail := "0A"
			if rapid.Bool().Draw(t, "genuineChainInside") {
				tail = strings.TrimPrefix(hdrVal, "%") // (the genuine header value starts with an escaped dash)
				if tail == hdrVal {
					tail = "0A" + hdrVal
				}
			}
			resp.Header = map[string][]string{k.hdr: {"%" + strings.Repeat("25", n) + tail}}
		case "header-not-escaped":
			resp.Header = map[string][]string{k.hdr: {string(gen.ChainPEM(signer, w.PKI.Root))}}
		case "header-swapped-order":
			resp.Header = map[string][]string{k.hdr: {gen.IssuerChainHeader(w.PKI.Root, signer)}}
		case "header-other-key-case":
			resp.Header = map[string][]string{strings.ToUpper(k.hdr): {hdrVal}}
		}
		desc := fmt.Sprintf("%s %s (signed document: %s)", k.name, alt, map[bool]string{true: badDesc, false: "good, unsigned payload " + badDesc}[signedBad > 0])
		gen.Sample("alteration", desc)
		c03Eval(t, w, k, resp, alt, desc)
		// completeness guard for the control: canonical good response must be accepted
		if alt == "control-canonical" && signedBad == 0 {
			w.Resp[k.url(w)] = resp
			o := w.Options(gen.LvlColl, w.NewGetter(), nil)
			if v := gen.Call(func() error { return verify.RawTdxQuote(w.Raw, o) }); !v.Accepted() {
				gen.Fail(t, gen.Violation{Key: "rejects-canonical-collateral", Oracle: "control: the canonical genuine response is accepted", Detail: v.String(), Replay: w.CaseFile(gen.LvlColl, nil, nil, nil, "accept")})
			}
		}
	})
	c03LongHistories(t)
	// Options WITHOUT a getter: the library then downloads through its default getter (net/http's default transport,
	// here replaced by one that serves a world's answers in process). What is downloaded that way is authenticated like
	// anything else: an altered document with a stale signature, or one signed under an untrusted root, is refused.
	gen.Direct(t, "no-getter-in-the-options", func(t *testing.T) {
		if sh, _ := gen.Shard(); sh != 0 {
			return // replaces a process-wide transport: one shard is enough
		}
		saved := http.DefaultTransport
		defer func() { http.DefaultTransport = saved }()
		for i, alt := range []string{"control", "tcb-status-altered-signature-stale", "qe-status-altered-signature-stale", "tcb-signed-under-an-untrusted-root", "qe-body-not-json"} {
			w := gen.NewWorld(gen.NewPKI(gen.PKISpec{Seed: gen.PKISeeds[i%4]}), gen.NewStream(gen.Seed()+uint64(i), "c03nogetter"))
			w.HonestCollateral()
			// the honest documents say OutOfDate; the altered (unauthenticated) ones say UpToDate
			if alt != "control" {
				for k := range w.TcbInfo.Levels {
					w.TcbInfo.Levels[k].Status = "OutOfDate"
				}
				for k := range w.QeID.Levels {
					w.QeID.Levels[k].Status = "OutOfDate"
				}
			}
			w.Build()
			tu := gen.TcbInfoURL(w.FmspcHex())
			switch alt {
			case "tcb-status-altered-signature-stale", "qe-status-altered-signature-stale":
				for _, u := range []string{tu, gen.QeIdentityURL} {
					r := w.Resp[u]
					r.Body = bytes.ReplaceAll(r.Body, []byte(`"OutOfDate"`), []byte(`"UpToDate"`))
					w.Resp[u] = r
				}
			case "tcb-signed-under-an-untrusted-root":
				f := gen.NewPKI(gen.PKISpec{Seed: "c03-nogetter-foreign"})
				up := *w
				up.TcbInfo.Levels = append([]gen.PlatformLevel{}, w.TcbInfo.Levels...)
				for k := range up.TcbInfo.Levels {
					up.TcbInfo.Levels[k].Status = "UpToDate"
				}
				w.Resp[tu] = gen.Response{Header: map[string][]string{gen.HdrTcbInfo: {gen.IssuerChainHeader(f.TcbSig, f.Root)}}, Body: gen.SignedBody("tcbInfo", up.TcbInfo.Render(), f.TcbSig.Key)}
				q := *w
				q.QeID.Levels = append([]gen.QeLevel{}, w.QeID.Levels...)
				for k := range q.QeID.Levels {
					q.QeID.Levels[k].Status = "UpToDate"
				}
				w.Resp[gen.QeIdentityURL] = gen.Response{Header: map[string][]string{gen.HdrQeID: {gen.IssuerChainHeader(f.QeSig, f.Root)}}, Body: gen.SignedBody("enclaveIdentity", q.QeID.Render(), f.QeSig.Key)}
			case "qe-body-not-json":
				r := w.Resp[gen.QeIdentityURL]
				r.Body = []byte("<html>maintenance</html>")
				w.Resp[gen.QeIdentityURL] = r
			}
			http.DefaultTransport = inProcessTransport{w.Resp}
			ts := w.Times
			o := &verify.Options{GetCollateral: true, TrustedRoots: w.PKI.Pool(), Now: &ts} // no Getter
			gen.Eval()
			v, hung := gen.CallWatch(100*time.Second, func() error { return verify.RawTdxQuote(w.Raw, o) })
			gen.NonTrivial("no-getter", alt)
			gen.Class("no-getter:" + alt)
			rp := w.CaseFile(gen.LvlColl, nil, nil, nil, map[bool]string{true: "accept", false: "reject"}[alt == "control"])
			rp["kind"] = "c03-no-getter"
			switch {
			case hung:
				gen.Fail(t, gen.Violation{Key: "no-verdict:no-getter:" + alt, Oracle: "an altered response leads to rejection", Detail: "no verdict after 100 s", Replay: rp})
				return
			case alt == "control" && !v.Accepted():
				gen.Fail(t, gen.Violation{Key: "rejects-authentic:no-getter", Oracle: "authentic collateral obtained through the default getter is accepted", Detail: v.String(), Replay: rp})
				return
			case alt != "control" && v.Accepted():
				gen.Fail(t, gen.Violation{Key: "accepts-unauthentic:no-getter:" + alt, Oracle: "the values that drive the verdict are exactly those in the member whose raw bytes verify under an Intel TCB-signing certificate chaining to the trusted roots", Detail: "options without a Getter (the library's default getter downloads through net/http): " + alt + ": accepted", Replay: rp})
				return
			}
		}
	})
	// A root certificate in an issuer-chain header that is the trusted root byte for byte EXCEPT for its public key
	// (serial, names, validity, key identifiers and even the signature value are the genuine root's), a signing
	// certificate issued under that key, and a document signed by it: for either document, at both levels, with the
	// other document genuine.
	gen.Direct(t, "root-look-alike-keeping-the-genuine-signature-bytes", func(t *testing.T) {
		i := 0
		for _, k := range []c03Kind{kindTcb, kindQe} {
			for _, l := range []gen.Level{gen.LvlColl, gen.LvlCRL} {
				i++
				if !gen.ShardOwns(i) {
					continue
				}
				w := gen.NewWorld(gen.NewPKI(gen.PKISpec{Seed: gen.PKISeeds[i%4]}), gen.NewStream(gen.Seed()+uint64(i), "c03lookalike"))
				w.HonestCollateral()
				// the genuine documents say OutOfDate / Revoked; the forged one says UpToDate
				for n := range w.TcbInfo.Levels {
					w.TcbInfo.Levels[n].Status = "OutOfDate"
				}
				for n := range w.QeID.Levels {
					w.QeID.Levels[n].Status = "Revoked"
				}
				w.Build()
				attacker := gen.DeriveKey("c03/look-alike-root-key")
				fake := gen.LookAlikeKeepingSignature(w.PKI.Root, attacker)
				signer := gen.MakeCert(gen.CertSpec{CN: gen.CNTcbSigner, KeyLabel: "c03/look-alike-signer", Serial: w.PKI.TcbSig.X.SerialNumber.Bytes(), NotBefore: gen.Wide.NotBefore, NotAfter: gen.Wide.NotAfter, CRLDP: []string{gen.RootCrlURL}}, fake)
				good := *w
				good.TcbInfo.Levels = append([]gen.PlatformLevel{}, w.TcbInfo.Levels...)
				good.QeID.Levels = append([]gen.QeLevel{}, w.QeID.Levels...)
				for n := range good.TcbInfo.Levels {
					good.TcbInfo.Levels[n].Status = "UpToDate"
				}
				for n := range good.QeID.Levels {
					good.QeID.Levels[n].Status = "UpToDate"
				}
				// the other document is genuinely UpToDate, so that the forged one alone decides
				other := kindQe
				if k.name == "qe" {
					other = kindTcb
				}
				w.Resp[other.url(w)] = gen.Response{Header: w.Resp[other.url(w)].Header, Body: gen.SignedBody(other.member, other.render(&good), other.signer(w).Key)}
				w.Resp[k.url(w)] = gen.Response{Header: map[string][]string{k.hdr: {gen.IssuerChainHeader(signer, fake)}}, Body: gen.SignedBody(k.member, k.render(&good), signer.Key)}
				o := w.Options(l, w.NewGetter(), nil)
				gen.Eval()
				v := gen.Call(func() error { return verify.RawTdxQuote(w.Raw, o) })
				gen.NonTrivial("look-alike-root", k.name, l.String())
				gen.Class("root-look-alike:" + k.name)
				if v.Accepted() {
					rp := w.CaseFile(l, nil, nil, nil, "reject")
					gen.Fail(t, gen.Violation{Key: "accepts-unauthentic:root-look-alike-keeping-the-genuine-signature-bytes:" + k.name, Oracle: "the values that drive the verdict are exactly those in the member whose raw bytes verify under an Intel TCB-signing certificate chaining to the trusted roots", Detail: fmt.Sprintf("%s signed under a root that copies the trusted root except for its public key (level %s, the other document genuine): accepted", k.name, l), Replay: rp})
					return
				}
			}
		}
	})
}

// inProcessTransport answers HTTP requests from a world's response table (status 200; anything else 404).
type inProcessTransport struct{ resp map[string]gen.Response }

func (t inProcessTransport) RoundTrip(req *http.Request) (*http.Response, error) {
	r, ok := t.resp[req.URL.String()]
	if !ok || r.Err != nil {
		return &http.Response{StatusCode: 404, Status: "404 Not Found", Header: http.Header{}, Body: io.NopCloser(bytes.NewReader(nil)), Request: req}, nil
	}
	h := http.Header{}
	for k, vs := range r.Header {
		for _, v := range vs {
			h.Add(k, v)
		}
	}
	return &http.Response{StatusCode: 200, Status: "200 OK", Header: h, Body: io.NopCloser(bytes.NewReader(r.Body)), ContentLength: int64(len(r.Body)), Request: req}, nil
}
