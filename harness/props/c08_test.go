package props

import (
	"bytes"
	"encoding/binary"
	"encoding/hex"
	"fmt"
	"google.golang.org/protobuf/proto"
	"sort"
	"strings"
	"testing"

	"github.com/google/go-tdx-guest/abi"
	ccpb "github.com/google/go-tdx-guest/proto/checkconfig"
	pb "github.com/google/go-tdx-guest/proto/tdx"
	"github.com/google/go-tdx-guest/rtmr"
	"github.com/google/go-tdx-guest/validate"
	"pgregory.net/rapid"
	"verifharness/gen"
)

// ---- generators shared by C08 / C14 ----------------------------------------------------

// drawField draws an expectation for a field whose actual value in the quote is `actual`.
func drawField(t *rapid.T, name string, actual []byte, s *gen.Stream) []byte {
	n := len(actual)
	kind := rapid.SampledFrom([]string{"nil", "nil", "nil", "equal", "equal", "empty", "flip-first", "flip-last", "flip-any", "short", "long", "random", "two-words-cancel", "two-words-cancel", "other-byte-order", "other-byte-order"}).Draw(t, name)
	gen.Class("opt:" + kind)
	switch kind {
	case "nil":
		return nil
	case "empty":
		return []byte{}
	case "equal":
		return append([]byte{}, actual...)
	case "flip-first":
		b := append([]byte{}, actual...)
		b[0] ^= 0x80
		return b
	case "flip-last":
		b := append([]byte{}, actual...)
		b[n-1] ^= 0x01
		return b
	case "flip-any":
		b := append([]byte{}, actual...)
		bit := rapid.IntRange(0, n*8-1).Draw(t, name+"-bit")
		b[bit/8] ^= 1 << uint(bit%8)
		return b
	case "other-byte-order":
		// the same number written in another byte order: the whole value reversed, every 2- / 4- / 8-byte word reversed,
		// or - for a 16-byte identifier - the "GUID" order with its first three groups (4-2-2 bytes) reversed. Another
		// value, unless the bytes happen to read the same both ways.
		b := append([]byte{}, actual...)
		rev := func(x []byte) {
			for i, j := 0, len(x)-1; i < j; i, j = i+1, j-1 {
				x[i], x[j] = x[j], x[i]
			}
		}
		switch how := s.Intn(5); {
		case n == 16 && how < 2:
			rev(b[0:4])
			rev(b[4:6])
			rev(b[6:8])
		case how == 2:
			rev(b)
		default:
			w := []int{2, 4, 8}[s.Intn(3)]
			for i := 0; i+w <= n; i += w {
				rev(b[i : i+w])
			}
		}
		if bytes.Equal(b, actual) {
			b[0] ^= 1
		}
		return b
	case "two-words-cancel":
		// differs from the actual value in two 1/2/4/8-byte words whose differences are equal (x, x) or cancel under
		// addition (x, -x), in either byte order: a comparison that folds the words into one accumulator would not see it
		b := append([]byte{}, actual...)
		width := []int{1, 2, 4, 8}[s.Intn(4)]
		if n < 2*width {
			b[0] ^= 1
			return b
		}
		nw := n / width
		i := s.Intn(nw)
		j := (i + 1 + s.Intn(nw-1)) % nw
		x := s.Bytes(width)
		x[s.Intn(width)] |= 0x01
		y := append([]byte{}, x...)
		if s.Intn(3) > 0 {
			be := s.Intn(2) == 0
			carry := 1
			for k := 0; k < width; k++ {
				idx := k
				if be {
					idx = width - 1 - k
				}
				v := int(^x[idx]) + carry
				y[idx] = byte(v)
				carry = v >> 8
			}
		}
		for k := 0; k < width; k++ {
			b[i*width+k] ^= x[k]
			b[j*width+k] ^= y[k]
		}
		return b
	case "short":
		// one byte short, or shorter still (a prefix of the actual value: a comparison over the common part would match)
		cut := rapid.SampledFrom([]int{1, 1, 2, n / 2, n - 1}).Draw(t, name+"-cut")
		return append([]byte{}, actual[:n-cut]...)
	case "long":
		// one byte long, or longer by an amount a narrow length comparison would lose (256, 512, 65536), or doubled
		extra := rapid.SampledFrom([]int{1, 1, 2, n, 255, 256, 257, 512, 65536}).Draw(t, name+"-extra")
		tail := make([]byte, extra)
		if rapid.Bool().Draw(t, name+"-tailrandom") {
			tail = s.Bytes(extra)
		}
		return append(append([]byte{}, actual...), tail...)
	default:
		return s.Bytes(n)
	}
}

func drawList(t *rapid.T, name string, actual [][]byte, s *gen.Stream, maxLen int, exactLen int) [][]byte {
	if exactLen == 0 && maxLen >= 2 && rapid.IntRange(0, 7).Draw(t, name+"-straddle") == 0 {
		// two (or three) well-formed entries none of which is the value, but whose concatenation contains it across
		// an entry boundary: membership is per entry, not a search in the joined list
		a := actual[0]
		n := len(a)
		k := rapid.IntRange(1, n-1).Draw(t, name+"-cut")
		e1 := append(s.Bytes(n-k), a[:k]...)
		e2 := append(append([]byte{}, a[k:]...), s.Bytes(k)...)
		e1[0] ^= 0x01 // make sure neither entry is the value itself
		e2[n-1] ^= 0x01
		out := [][]byte{e1, e2}
		if rapid.Bool().Draw(t, name+"-third") && maxLen >= 3 {
			out = append([][]byte{s.Bytes(n)}, out...)
		}
		gen.Class("opt:list-straddling-the-value")
		return out
	}
	n := rapid.IntRange(0, maxLen).Draw(t, name+"-len")
	if exactLen == 0 && rapid.IntRange(0, 9).Draw(t, name+"-manyEntries") == 0 {
		n = rapid.SampledFrom([]int{8, 9, 10, 16, 33}).Draw(t, name+"-many") // long lists (a log line or a table may treat them differently)
	}
	if exactLen > 0 && rapid.IntRange(0, 2).Draw(t, name+"-exact") > 0 {
		n = exactLen
	}
	if n == 0 {
		if rapid.Bool().Draw(t, name+"-nil") {
			return nil
		}
		return [][]byte{}
	}
	out := make([][]byte, n)
	if exactLen == 0 && n >= 8 {
		// a long list of well-formed other values, the value itself at one position in half of the cases, and
		// occasionally one entry of any kind
		for i := range out {
			out[i] = s.Bytes(len(actual[0]))
		}
		if rapid.Bool().Draw(t, name+"-containsValue") {
			out[rapid.IntRange(0, n-1).Draw(t, name+"-valueAt")] = append([]byte{}, actual[0]...)
		}
		if rapid.IntRange(0, 3).Draw(t, name+"-oneOdd") == 0 {
			i := rapid.IntRange(0, n-1).Draw(t, name+"-oddAt")
			out[i] = drawField(t, fmt.Sprintf("%s[%d]", name, i), actual[0], s)
		}
		return out
	}
	for i := range out {
		a := actual[i%len(actual)]
		out[i] = drawField(t, fmt.Sprintf("%s[%d]", name, i), a, s)
	}
	return out
}

// drawPolicyQuote draws a structurally valid quote whose XFAM / TD_ATTRIBUTES sit at or one bit off the legal set.
func drawPolicyQuote(t *rapid.T, s *gen.Stream) *gen.RefQuote {
	q := gen.RandomRefQuote(s, 8, 16, 0)
	if rapid.IntRange(0, 2).Draw(t, "intelVendorID") == 0 {
		// the one QE vendor there is: Intel's identifier, as every real quote carries it
		copy(q.VendorID[:], []byte{0x93, 0x9a, 0x72, 0x33, 0xf7, 0x9c, 0x4c, 0xa9, 0x94, 0x0a, 0x0d, 0xb3, 0x95, 0x7f, 0x06, 0x07})
	}
	x := gen.XfamFixed1 | (s.Uint64() & gen.XfamFixed0)
	a := s.Uint64() & gen.TdAttrAllowed
	switch rapid.IntRange(0, 5).Draw(t, "maskcase") {
	case 0:
		x ^= 1 << uint(rapid.IntRange(0, 63).Draw(t, "xfam-bit"))
	case 1:
		a ^= 1 << uint(rapid.IntRange(0, 63).Draw(t, "tdattr-bit"))
	case 2:
		x = s.Uint64()
	case 3:
		a = s.Uint64()
	}
	binary.LittleEndian.PutUint64(q.Xfam[:], x)
	binary.LittleEndian.PutUint64(q.TdAttr[:], a)
	if rapid.Bool().Draw(t, "smallsvn") {
		for i := range q.TeeTcbSvn {
			q.TeeTcbSvn[i] = byte(s.Intn(4))
		}
	}
	return q
}

func drawMinSvn(t *rapid.T, name string, actual uint16) uint32 {
	lo, hi := uint32(actual&0xff), uint32(actual>>8)
	cands := []uint32{0, 0, uint32(actual), uint32(actual) + 1, uint32(actual) - 1, 1, 65535}
	if hi > 0 && lo < 255 {
		// numerically below the quote's value but with a larger low byte (a byte-wise comparison would call it a miss)
		cands = append(cands, (hi-1)<<8|0xff, (hi-1)<<8|(lo+1), uint32(rapid.IntRange(0, int(hi)-1).Draw(t, name+"-hi"))<<8|uint32(rapid.IntRange(int(lo)+1, 255).Draw(t, name+"-lo")))
	}
	if hi < 255 && lo > 0 {
		// numerically above the quote's value but with a smaller low byte
		cands = append(cands, (hi+1)<<8, (hi+1)<<8|(lo-1))
	}
	return rapid.SampledFrom(cands).Draw(t, name) & 0xffff
}

func drawMinTee(t *rapid.T, actual []byte, s *gen.Stream) []byte {
	kind := rapid.SampledFrom([]string{"nil", "nil", "equal", "below", "one-above", "len0", "len1", "len15", "len17", "len-far", "len-prefix", "zeros", "random"}).Draw(t, "mintee")
	gen.Class("mintee:" + kind)
	switch kind {
	case "nil":
		return nil
	case "equal":
		return append([]byte{}, actual...)
	case "below":
		b := append([]byte{}, actual...)
		i := rapid.IntRange(0, 15).Draw(t, "mintee-i")
		if b[i] > 0 {
			b[i]--
		}
		return b
	case "one-above":
		b := append([]byte{}, actual...)
		i := rapid.IntRange(0, 15).Draw(t, "mintee-i")
		if b[i] < 255 {
			b[i]++
		}
		return b
	case "len0":
		return []byte{}
	case "len1":
		return []byte{0}
	case "len15":
		return make([]byte, 15)
	case "len17":
		return make([]byte, 17)
	case "len-far":
		// the quote's own value followed by 16, 255, 256, 512 or 65536 further bytes: not a 16-byte minimum
		extra := rapid.SampledFrom([]int{16, 255, 256, 512, 65536}).Draw(t, "mintee-extra")
		return append(append([]byte{}, actual...), make([]byte, extra)...)
	case "len-prefix":
		return append([]byte{}, actual[:rapid.IntRange(1, 15).Draw(t, "mintee-prefix")]...)
	case "zeros":
		return make([]byte, 16)
	default:
		return s.Bytes(16)
	}
}

func drawPolicyFields(t *rapid.T, q *gen.RefQuote, s *gen.Stream) *gen.PolicyFields {
	p := &gen.PolicyFields{}
	p.MinQeSvn = drawMinSvn(t, "minqe", binary.LittleEndian.Uint16(q.Word10[:]))
	p.MinPceSvn = drawMinSvn(t, "minpce", binary.LittleEndian.Uint16(q.Word8[:]))
	p.QeVendorID = drawField(t, "qe_vendor_id", q.VendorID[:], s)
	p.MinTeeTcbSvn = drawMinTee(t, q.TeeTcbSvn[:], s)
	p.MrSeam = drawField(t, "mr_seam", q.MrSeam[:], s)
	p.TdAttributes = drawField(t, "td_attributes", q.TdAttr[:], s)
	p.Xfam = drawField(t, "xfam", q.Xfam[:], s)
	p.MrTd = drawField(t, "mr_td", q.MrTd[:], s)
	p.MrConfigID = drawField(t, "mr_config_id", q.MrConfigID[:], s)
	p.MrOwner = drawField(t, "mr_owner", q.MrOwner[:], s)
	p.MrOwnerConfig = drawField(t, "mr_owner_config", q.MrOwnerConfig[:], s)
	p.ReportData = drawField(t, "report_data", q.ReportData[:], s)
	p.Rtmrs = drawList(t, "rtmrs", [][]byte{q.Rtmr[0][:], q.Rtmr[1][:], q.Rtmr[2][:], q.Rtmr[3][:]}, s, 5, 4)
	p.AnyMrTd = drawList(t, "any_mr_td", [][]byte{q.MrTd[:]}, s, 4, 0)
	return p
}

func fieldsToOptions(p *gen.PolicyFields) *validate.Options {
	return &validate.Options{
		HeaderOptions: validate.HeaderOptions{MinimumQeSvn: uint16(p.MinQeSvn), MinimumPceSvn: uint16(p.MinPceSvn), QeVendorID: p.QeVendorID},
		TdQuoteBodyOptions: validate.TdQuoteBodyOptions{
			MinimumTeeTcbSvn: p.MinTeeTcbSvn, MrSeam: p.MrSeam, TdAttributes: p.TdAttributes, Xfam: p.Xfam, MrTd: p.MrTd,
			MrConfigID: p.MrConfigID, MrOwner: p.MrOwner, MrOwnerConfig: p.MrOwnerConfig, Rtmrs: p.Rtmrs, ReportData: p.ReportData, AnyMrTd: p.AnyMrTd,
		},
	}
}

// syncOptions copies the model's fields into a long-lived options value field by field (the value itself, and
// whatever it keeps besides its exported fields, stays the same object).
func syncOptions(o *validate.Options, p *gen.PolicyFields) {
	o.HeaderOptions.MinimumQeSvn, o.HeaderOptions.MinimumPceSvn, o.HeaderOptions.QeVendorID = uint16(p.MinQeSvn), uint16(p.MinPceSvn), p.QeVendorID
	b := &o.TdQuoteBodyOptions
	b.MinimumTeeTcbSvn, b.MrSeam, b.TdAttributes, b.Xfam, b.MrTd = p.MinTeeTcbSvn, p.MrSeam, p.TdAttributes, p.Xfam, p.MrTd
	b.MrConfigID, b.MrOwner, b.MrOwnerConfig, b.Rtmrs, b.ReportData, b.AnyMrTd = p.MrConfigID, p.MrOwner, p.MrOwnerConfig, p.Rtmrs, p.ReportData, p.AnyMrTd
}

func hx(b []byte) any {
	if b == nil {
		return nil
	}
	return hex.EncodeToString(b)
}

func hxs(l [][]byte) any {
	if l == nil {
		return nil
	}
	out := []any{}
	for _, e := range l {
		out = append(out, hx(e))
	}
	return out
}

func fieldsJSON(p *gen.PolicyFields) map[string]any {
	return map[string]any{"min_qe_svn": p.MinQeSvn, "min_pce_svn": p.MinPceSvn, "qe_vendor_id": hx(p.QeVendorID), "min_tee_tcb_svn": hx(p.MinTeeTcbSvn),
		"mr_seam": hx(p.MrSeam), "td_attributes": hx(p.TdAttributes), "xfam": hx(p.Xfam), "mr_td": hx(p.MrTd), "mr_config_id": hx(p.MrConfigID),
		"mr_owner": hx(p.MrOwner), "mr_owner_config": hx(p.MrOwnerConfig), "report_data": hx(p.ReportData), "rtmrs": hxs(p.Rtmrs), "any_mr_td": hxs(p.AnyMrTd)}
}

func unhx(v any) []byte {
	if v == nil {
		return nil
	}
	b, _ := hex.DecodeString(v.(string))
	if b == nil {
		b = []byte{}
	}
	return b
}

func unhxs(v any) [][]byte {
	if v == nil {
		return nil
	}
	out := [][]byte{}
	for _, e := range v.([]any) {
		out = append(out, unhx(e))
	}
	return out
}

func fieldsFromJSON(m map[string]any) *gen.PolicyFields {
	return &gen.PolicyFields{MinQeSvn: uint32(m["min_qe_svn"].(float64)), MinPceSvn: uint32(m["min_pce_svn"].(float64)), QeVendorID: unhx(m["qe_vendor_id"]),
		MinTeeTcbSvn: unhx(m["min_tee_tcb_svn"]), MrSeam: unhx(m["mr_seam"]), TdAttributes: unhx(m["td_attributes"]), Xfam: unhx(m["xfam"]), MrTd: unhx(m["mr_td"]),
		MrConfigID: unhx(m["mr_config_id"]), MrOwner: unhx(m["mr_owner"]), MrOwnerConfig: unhx(m["mr_owner_config"]), ReportData: unhx(m["report_data"]),
		Rtmrs: unhxs(m["rtmrs"]), AnyMrTd: unhxs(m["any_mr_td"])}
}

// c08Oracle evaluates one (quote, options) pair; returns key, oracle, detail on violation.
func c08Oracle(q *gen.RefQuote, p *gen.PolicyFields, raw bool) (string, string, string) {
	mv := gen.PolicyModel(q, p)
	opts := fieldsToOptions(p)
	gen.Eval()
	var v gen.Verdict
	if raw {
		b := q.Encode()
		v = gen.Call(func() error { return validate.RawTdxQuote(b, opts) })
	} else {
		m := q.ToProto()
		v = gen.Call(func() error { return validate.TdxQuote(m, opts) })
	}
	return c08Judge(mv, v, p)
}

// c08Judge compares a verdict with the model's.
func c08Judge(mv gen.PolicyVerdict, v gen.Verdict, p *gen.PolicyFields) (string, string, string) {
	if v.Panicked() {
		return "panic@" + gen.PanicSite(v.Stack), "validation returns success or an error for every options value", v.Panic
	}
	if mv.DontCare {
		gen.Class("dontcare:any_mr_td-with-empty-entry")
		return "", "", ""
	}
	if mv.Malformed {
		gen.Class("malformed-options")
		gen.NonTrivial("malformed", mv.Miss, fmt.Sprint(fieldsJSON(p)))
		if mv.Miss != "" && v.Accepted() {
			return "accepts-miss-with-malformed:" + mv.Miss, "never accepts a quote that misses a configured expectation", "options malformed elsewhere, expectation " + mv.Miss + " missed, validation returned nil"
		}
		return "", "", ""
	}
	if mv.Configured > 0 && mv.Near {
		gen.NonTrivial("near", mv.Miss, fmt.Sprint(fieldsJSON(p)))
	}
	if mv.Miss != "" {
		gen.Class("model:reject")
		if v.Accepted() {
			return "accepts-miss:" + mv.Miss, "succeeds exactly when every configured expectation holds", "expectation " + mv.Miss + " is missed but validation returned nil"
		}
		return "", "", ""
	}
	gen.Class("model:accept")
	if !v.Accepted() {
		return "rejects-conforming", "succeeds exactly when every configured expectation holds", "every configured expectation holds but validation returned: " + v.String()
	}
	return "", "", ""
}

func c08Replay(c map[string]any) string {
	raw, _ := hex.DecodeString(c["raw_hex"].(string))
	q, err := gen.RefParse(raw)
	if err != nil {
		return "bad replay quote: " + err.Error()
	}
	p := fieldsFromJSON(c["options"].(map[string]any))
	if key, oracle, detail := c08Oracle(q, p, c["raw"] == true); key != "" {
		return key + " (" + oracle + "): " + detail
	}
	return ""
}

func init() { replayKinds["validate"] = c08Replay }

func TestC08(t *testing.T) {
	replayDir(t, "C08")
	gen.Prop(t, "model", gen.N(150000, 8000000), func(t *rapid.T) {
		s := gen.NewStream(rapid.Uint64().Draw(t, "content"), "c08")
		q := drawPolicyQuote(t, s)
		p := drawPolicyFields(t, q, s)
		raw := rapid.Bool().Draw(t, "raw")
		gen.Sample("validate", map[string]any{"options": fieldsJSON(p), "xfam": gen.Hex(q.Xfam[:]), "td_attributes": gen.Hex(q.TdAttr[:]), "raw": raw})
		if key, oracle, detail := c08Oracle(q, p, raw); key != "" {
			gen.Fail(t, gen.Violation{Key: key, Oracle: oracle, Detail: detail,
				Replay: map[string]any{"kind": "validate", "raw_hex": hex.EncodeToString(q.Encode()), "options": fieldsJSON(p), "raw": raw}})
		}
	})
	// Options that come out of a policy message (the route the check tool takes): when the conversion succeeds, validation
	// must still mean what the message says — in particular for SVN minimums that do not fit the 16-bit options fields.
	// validation options handed out by the library's own constructor for attestation sessions, rtmr.TdxDefaultOpts(nonce):
	// several sessions are prepared (several calls, different nonces), then quotes are validated against this or that
	// session's options in any order - each options value expects ITS nonce (zero-padded to 64 bytes) and nothing else
	gen.Prop(t, "options-from-TdxDefaultOpts-for-several-sessions", gen.N(3000, 200000), func(t *rapid.T) {
		s := gen.NewStream(rapid.Uint64().Draw(t, "content"), "c08sess")
		n := rapid.IntRange(2, 4).Draw(t, "sessions")
		nonces := make([][]byte, n)
		opts := make([]*validate.Options, n)
		for i := range nonces {
			nonces[i] = s.Bytes(rapid.SampledFrom([]int{64, 64, 64, 32, 1, 0}).Draw(t, "nonceLen"))
		}
		made := 0
		var hist []string
		t.Repeat(map[string]func(*rapid.T){
			"prepare-next-session": func(t *rapid.T) {
				if made >= n {
					t.Skip("all sessions prepared")
				}
				opts[made] = rtmr.TdxDefaultOpts(nonces[made]).Validation
				hist = append(hist, fmt.Sprintf("TdxDefaultOpts(nonce %d)", made))
				made++
			},
			"validate": func(t *rapid.T) {
				if made == 0 {
					t.Skip("no session yet")
				}
				oi := rapid.IntRange(0, made-1).Draw(t, "session")
				qi := rapid.IntRange(-1, n-1).Draw(t, "quoteCarriesNonceOf")
				q := gen.RandomRefQuote(s, 8, 16, 0)
				binary.LittleEndian.PutUint64(q.Xfam[:], gen.XfamFixed1)
				binary.LittleEndian.PutUint64(q.TdAttr[:], 0)
				if qi >= 0 {
					var rd [64]byte
					copy(rd[:], nonces[qi])
					q.ReportData = rd
				}
				var want [64]byte
				copy(want[:], nonces[oi])
				m := q.ToProto()
				gen.Eval()
				v := gen.Call(func() error { return validate.TdxQuote(m, opts[oi]) })
				hist = append(hist, fmt.Sprintf("validate(quote with nonce %d, session %d) -> %s", qi, oi, v.Short()))
				if v.Panicked() || v.Accepted() != (q.ReportData == want) {
					gen.Fail(t, gen.Violation{Key: "session-options:" + map[bool]string{true: "accepts-another-nonce", false: "rejects-own-nonce"}[v.Accepted()], Oracle: "validation succeeds exactly when every configured expectation holds (REPORT_DATA = the nonce the options were made for)", Detail: fmt.Sprintf("history %v", hist), Replay: map[string]any{"kind": "c08-sessions", "history": hist}})
				}
			},
		})
		if made >= 2 {
			gen.NonTrivial("c08sess", fmt.Sprint(hist))
		}
		gen.Class("options-from-TdxDefaultOpts")
	})
	// allow-lists of every length around the sizes at which an implementation might switch strategy (16/17, 32/33,
	// 64/65, 256/257), holding a NEAR MISS of the quote's MR_TD - the value followed or preceded by further bytes, all
	// but its last byte, one bit off - and no exact member: the quote misses the expectation
	gen.Direct(t, "long-allow-lists-with-near-misses", func(t *testing.T) {
		i := 0
		for _, n := range []int{1, 2, 3, 15, 16, 17, 18, 32, 33, 64, 65, 256, 257, 1000} {
			for _, miss := range []string{"value-then-1-byte", "value-then-16-bytes", "value-twice", "1-byte-then-value", "all-but-the-last-byte", "first-24-bytes", "last-bit-off", "first-bit-off"} {
				for _, where := range []string{"first", "middle", "last"} {
					i++
					if !gen.ShardOwns(i) {
						continue
					}
					s := gen.NewStream(gen.Seed()+uint64(i), "c08near")
					q := gen.RandomRefQuote(s, 8, 16, 0)
					binary.LittleEndian.PutUint64(q.Xfam[:], gen.XfamFixed1)
					binary.LittleEndian.PutUint64(q.TdAttr[:], 0)
					mr := q.MrTd[:]
					var near []byte
					switch miss {
					case "value-then-1-byte":
						near = append(append([]byte{}, mr...), 0)
					case "value-then-16-bytes":
						near = append(append([]byte{}, mr...), s.Bytes(16)...)
					case "value-twice":
						near = append(append([]byte{}, mr...), mr...)
					case "1-byte-then-value":
						near = append([]byte{0}, mr...)
					case "all-but-the-last-byte":
						near = append([]byte{}, mr[:47]...)
					case "first-24-bytes":
						near = append([]byte{}, mr[:24]...)
					case "last-bit-off":
						near = append([]byte{}, mr...)
						near[47] ^= 1
					default:
						near = append([]byte{}, mr...)
						near[0] ^= 0x80
					}
					list := make([][]byte, n)
					for k := range list {
						list[k] = s.Bytes(48)
					}
					list[map[string]int{"first": 0, "middle": n / 2, "last": n - 1}[where]] = near
					o := &validate.Options{TdQuoteBodyOptions: validate.TdQuoteBodyOptions{AnyMrTd: list}}
					m := q.ToProto()
					gen.Eval()
					v := gen.Call(func() error { return validate.TdxQuote(m, o) })
					if v.Panicked() || v.Accepted() {
						gen.Fail(t, gen.Violation{Key: "accepts-non-member:near-miss:" + miss, Oracle: "MR_TD is a member of the allowed set when a set of non-empty values is given", Detail: fmt.Sprintf("any_mr_td of %d non-empty entries, none equal to the quote's MR_TD, the %s one being a near miss (%s, %d bytes): %s", n, where, miss, len(near), v), Replay: map[string]any{"kind": "c08-near-miss", "n": n, "miss": miss, "where": where}})
						return
					}
					gen.NonTrivial("c08near", n, miss, where)
				}
			}
		}
		gen.Class("long-allow-lists-with-near-misses")
	})
	gen.Prop(t, "options-converted-from-a-policy", gen.N(6000, 400000), func(t *rapid.T) {
		s := gen.NewStream(rapid.Uint64().Draw(t, "content"), "c08p")
		q := drawPolicyQuote(t, s)
		binary.LittleEndian.PutUint64(q.Xfam[:], gen.XfamFixed1|(s.Uint64()&gen.XfamFixed0))
		binary.LittleEndian.PutUint64(q.TdAttr[:], s.Uint64()&gen.TdAttrAllowed)
		p := &gen.PolicyFields{}
		if rapid.Bool().Draw(t, "dense") {
			p = drawPolicyFields(t, q, s)
		}
		switch rapid.IntRange(0, 3).Draw(t, "wide") {
		case 0:
			p.MinQeSvn = drawWideSvn(t, "wideqe", binary.LittleEndian.Uint16(q.Word10[:]))
		case 1:
			p.MinPceSvn = drawWideSvn(t, "widepce", binary.LittleEndian.Uint16(q.Word8[:]))
		}
		if rapid.IntRange(0, 3).Draw(t, "onlyAnAllowList") == 0 {
			// a policy that states an allow-list and nothing else: 2..6 non-empty values, the quote's MR_TD among them or not
			p = &gen.PolicyFields{}
			for k, n := 0, rapid.IntRange(2, 6).Draw(t, "allowListLen"); k < n; k++ {
				p.AnyMrTd = append(p.AnyMrTd, s.Bytes(48))
			}
			if rapid.Bool().Draw(t, "member") {
				p.AnyMrTd[s.Intn(len(p.AnyMrTd))] = append([]byte{}, q.MrTd[:]...)
			}
		}
		// an allow-list may name a value twice (two releases with the same measurement): the same set
		if n := len(p.AnyMrTd); n > 0 && rapid.IntRange(0, 2).Draw(t, "allowListNamesAValueTwice") == 0 {
			k := rapid.IntRange(0, n-1).Draw(t, "repeated")
			dup := append([]byte{}, p.AnyMrTd[k]...)
			at := rapid.IntRange(0, n).Draw(t, "repeatedAt")
			p.AnyMrTd = append(p.AnyMrTd[:at:at], append([][]byte{dup}, p.AnyMrTd[at:]...)...)
			gen.Class("allow-list-names-a-value-twice")
		}
		mv := gen.PolicyModel(q, p)
		pol := fieldsToPolicy(p, false, false)
		var opts *validate.Options
		gen.Eval()
		vc := gen.Call(func() error {
			var err error
			opts, err = validate.PolicyToOptions(pol)
			return err
		})
		rp := map[string]any{"kind": "policy", "raw_hex": hex.EncodeToString(q.Encode()), "policy": fieldsJSON(p), "no_header": false, "no_body": false, "nil_policy": false}
		if vc.Panicked() {
			gen.Fail(t, gen.Violation{Key: "panic@" + gen.PanicSite(vc.Stack), Oracle: "conversion returns options or an error", Detail: vc.Panic, Replay: rp})
			return
		}
		if !vc.Accepted() || opts == nil {
			gen.Class("policy-conversion-fails")
			return
		}
		m := q.ToProto()
		gen.Eval()
		v := gen.Call(func() error { return validate.TdxQuote(m, opts) })
		if v.Panicked() {
			gen.Fail(t, gen.Violation{Key: "panic@" + gen.PanicSite(v.Stack), Oracle: "validation returns success or an error for every options value", Detail: v.Panic, Replay: rp})
			return
		}
		if mv.Miss != "" && !mv.DontCare && v.Accepted() {
			gen.Fail(t, gen.Violation{Key: "accepts-miss:converted-policy:" + mv.Miss, Oracle: "never accepts a quote that misses a configured expectation (options obtained by converting the policy message that states it)",
				Detail: fmt.Sprintf("policy %v: expectation %s is missed, the policy converted and validation returned nil", fieldsJSON(p), mv.Miss), Replay: rp})
			return
		}
		// the SAME policy message converted a second time (a service that converts per request), and the first options
		// value used again afterwards: both mean what the message says
		if opts2, err := validate.PolicyToOptions(pol); err == nil && opts2 != nil {
			for which, o := range map[string]*validate.Options{"the options of a second conversion of the same message": opts2, "the first options value after the message was converted again": opts} {
				gen.Eval()
				if v2 := gen.Call(func() error { return validate.TdxQuote(m, o) }); mv.Miss != "" && !mv.DontCare && (v2.Accepted() || v2.Panicked()) {
					gen.Fail(t, gen.Violation{Key: "accepts-miss:converted-policy-twice:" + mv.Miss, Oracle: "never accepts a quote that misses a configured expectation (options obtained by converting the policy message that states it)",
						Detail: fmt.Sprintf("policy %v: expectation %s is missed; %s: %s", fieldsJSON(p), mv.Miss, which, v2), Replay: rp})
					return
				}
			}
		} else if err != nil {
			gen.Fail(t, gen.Violation{Key: "second-conversion-fails", Oracle: "validation under options converted from a policy means what the policy says", Detail: fmt.Sprintf("policy %v converted once and fails to convert a second time: %v", fieldsJSON(p), err), Replay: rp})
			return
		}
		gen.Class("policy-conversion-succeeds")
		if p.MinQeSvn > 65535 || p.MinPceSvn > 65535 || mv.Miss != "" {
			gen.NonTrivial("converted", fmt.Sprint(fieldsJSON(p)), mv.Miss)
		}
	})

	// Options that START as the conversion of a policy without expectations (nil, empty, one empty sub-policy) and are
	// then filled in by the caller - the per-request nonce, a minimum, a measurement: from then on they are judged like any
	// other options value with those fields.
	gen.Prop(t, "options-from-an-empty-policy-then-filled-in", gen.N(4000, 300000), func(t *rapid.T) {
		s := gen.NewStream(rapid.Uint64().Draw(t, "content"), "c08e")
		q := drawPolicyQuote(t, s)
		binary.LittleEndian.PutUint64(q.Xfam[:], gen.XfamFixed1|(s.Uint64()&gen.XfamFixed0))
		binary.LittleEndian.PutUint64(q.TdAttr[:], s.Uint64()&gen.TdAttrAllowed)
		var pol *ccpb.Policy
		shape := rapid.SampledFrom([]string{"nil", "empty", "empty-header-policy", "empty-body-policy", "both-empty"}).Draw(t, "emptyPolicy")
		switch shape {
		case "empty":
			pol = &ccpb.Policy{}
		case "empty-header-policy":
			pol = &ccpb.Policy{HeaderPolicy: &ccpb.HeaderPolicy{}}
		case "empty-body-policy":
			pol = &ccpb.Policy{TdQuoteBodyPolicy: &ccpb.TDQuoteBodyPolicy{}}
		case "both-empty":
			pol = &ccpb.Policy{HeaderPolicy: &ccpb.HeaderPolicy{}, TdQuoteBodyPolicy: &ccpb.TDQuoteBodyPolicy{}}
		}
		var opts *validate.Options
		if vc := gen.Call(func() error {
			var err error
			opts, err = validate.PolicyToOptions(pol)
			return err
		}); !vc.Accepted() || opts == nil {
			gen.Fail(t, gen.Violation{Key: "rejects-wellformed-policy:" + shape, Oracle: "a policy without expectations converts", Detail: vc.String(), Replay: map[string]any{"kind": "c08-empty-policy"}})
			return
		}
		// exactly one or two expectations filled in, met or missed
		p := &gen.PolicyFields{}
		for i, n := 0, rapid.IntRange(1, 2).Draw(t, "filledIn"); i < n; i++ {
			switch rapid.IntRange(0, 6).Draw(t, "which") {
			case 0:
				p.ReportData = drawField(t, "rd", q.ReportData[:], s)
			case 1:
				p.MrTd = drawField(t, "mrtd", q.MrTd[:], s)
			case 2:
				p.MinTeeTcbSvn = drawMinTee(t, q.TeeTcbSvn[:], s)
			case 3:
				p.MinQeSvn = uint32(rapid.SampledFrom([]int{0, 1, int(binary.LittleEndian.Uint16(q.Word10[:])), int(binary.LittleEndian.Uint16(q.Word10[:])) + 1, 65535}).Draw(t, "minqe"))
			case 4:
				p.AnyMrTd = [][]byte{s.Bytes(48), drawField(t, "any", q.MrTd[:], s)}
			case 5:
				p.QeVendorID = drawField(t, "vendor", q.VendorID[:], s)
			default:
				p.Rtmrs = [][]byte{nil, drawField(t, "rtmr", q.Rtmr[1][:], s), nil, nil}
			}
		}
		syncOptions(opts, p)
		mv := gen.PolicyModel(q, p)
		m := q.ToProto()
		gen.Eval()
		v := gen.Call(func() error { return validate.TdxQuote(m, opts) })
		gen.Class("options-from-an-empty-policy:" + shape)
		if key, oracle, detail := c08Judge(mv, v, p); key != "" {
			gen.Fail(t, gen.Violation{Key: key + ":options-from-an-empty-policy", Oracle: oracle, Detail: fmt.Sprintf("options obtained from PolicyToOptions(%s policy) and then filled in with %v: %s", shape, fieldsJSON(p), detail), Replay: map[string]any{"kind": "c08-empty-policy"}})
		}
	})

	// Histories: ONE options value and a few parsed quote objects live through many validations (as in a service
	// whose policy is edited while it runs); between validations the caller edits option byte strings and list
	// entries in place or replaces them. Every validation is judged by the stateless model on the current values.
	gen.Prop(t, "histories-on-long-lived-options-and-quotes", gen.N(1500, 80000), func(t *rapid.T) {
		s := gen.NewStream(rapid.Uint64().Draw(t, "content"), "c08h")
		var quotes []*gen.RefQuote
		var msgs []*pb.QuoteV4
		for i := 0; i < 2; i++ {
			q := gen.RandomRefQuote(s, 8, 16, 0)
			binary.LittleEndian.PutUint64(q.Xfam[:], gen.XfamFixed1|(s.Uint64()&gen.XfamFixed0))
			binary.LittleEndian.PutUint64(q.TdAttr[:], s.Uint64()&gen.TdAttrAllowed)
			quotes = append(quotes, q)
			var m *pb.QuoteV4
			if i == 0 {
				// as the parser builds it (fields are sub-slices of one buffer)
				mm, err := abi.QuoteToProto(q.Encode())
				if err != nil {
					gen.HarnessError(t, "own quote does not parse: %v", err)
				}
				m = mm.(*pb.QuoteV4)
			} else {
				m = q.ToProto()
			}
			msgs = append(msgs, m)
		}
		p := &gen.PolicyFields{}
		// a policy that quote 0 satisfies, with an allow-list
		p.MrSeam = append([]byte{}, quotes[0].MrSeam[:]...)
		p.MrTd = nil
		p.ReportData = append([]byte{}, quotes[0].ReportData[:]...)
		p.AnyMrTd = [][]byte{s.Bytes(48), append([]byte{}, quotes[0].MrTd[:]...), s.Bytes(48)}[:1+rapid.IntRange(0, 2).Draw(t, "listLen")]
		if rapid.Bool().Draw(t, "pinLastRegister") {
			p.Rtmrs = [][]byte{nil, nil, nil, append([]byte{}, quotes[0].Rtmr[3][:]...)}
		}
		if rapid.Bool().Draw(t, "minimumTeeTcbSvn") {
			p.MinTeeTcbSvn = make([]byte, 16)
		}
		opts := fieldsToOptions(p)
		var hist []string
		edits, validations := 0, 0
		holds := []int{0, 1}       // which quote each message object currently holds
		broken := []string{"", ""} // non-empty: the message object has lost part of its structure
		fieldsOf := func() []*[]byte {
			return []*[]byte{&p.MrSeam, &p.ReportData, &p.QeVendorID, &p.MrConfigID, &p.MrOwner, &p.MrOwnerConfig, &p.TdAttributes, &p.Xfam, &p.MinTeeTcbSvn}
		}
		actualOf := func(qi, fi int) []byte {
			q := quotes[qi]
			return [][]byte{q.MrSeam[:], q.ReportData[:], q.VendorID[:], q.MrConfigID[:], q.MrOwner[:], q.MrOwnerConfig[:], q.TdAttr[:], q.Xfam[:], q.TeeTcbSvn[:]}[fi]
		}
		t.Repeat(map[string]func(*rapid.T){
			"validate": func(t *rapid.T) {
				qi := rapid.IntRange(0, 1).Draw(t, "quote")
				raw := rapid.IntRange(0, 3).Draw(t, "raw") == 0
				syncOptions(opts, p)
				mv := gen.PolicyModel(quotes[holds[qi]], p)
				gen.Eval()
				var v gen.Verdict
				if raw {
					b := quotes[holds[qi]].Encode()
					v = gen.Call(func() error { return validate.RawTdxQuote(b, opts) })
				} else {
					v = gen.Call(func() error { return validate.TdxQuote(msgs[qi], opts) })
					if broken[qi] != "" {
						// the message object has lost part of its structure since it was last validated: it is no quote
						validations++
						hist = append(hist, fmt.Sprintf("validate message object %d (%s) -> %s", qi, broken[qi], v.Short()))
						if v.Panicked() || v.Accepted() {
							key := "history:accepts-malformed-message:" + strings.SplitN(broken[qi], " ", 2)[0]
							if v.Panicked() {
								key = "history:panic@" + gen.PanicSite(v.Stack)
							}
							gen.Fail(t, gen.Violation{Key: key, Oracle: "validation judges the message it is given, as it is now (whatever was validated with this quote object before)", Detail: fmt.Sprintf("message object %d is now malformed (%s): %s; history: %s", qi, broken[qi], v, strings.Join(hist, " ; ")), Replay: map[string]any{"kind": "c08-history", "history": hist}})
						}
						return
					}
				}
				validations++
				hist = append(hist, fmt.Sprintf("validate quote %d raw=%v -> %s (model miss=%q malformed=%v)", qi, raw, v.Short(), mv.Miss, mv.Malformed))
				if key, oracle, detail := c08Judge(mv, v, p); key != "" {
					gen.Fail(t, gen.Violation{Key: "history:" + key, Oracle: oracle + " (whatever was validated with this options value or this quote object before)", Detail: detail + "; history: " + strings.Join(hist, " ; "),
						Replay: map[string]any{"kind": "c08-history", "history": hist}})
				}
			},
			"edit-allow-list-entry-in-place": func(t *rapid.T) {
				if len(p.AnyMrTd) == 0 {
					t.Skip("empty list")
				}
				i := rapid.IntRange(0, len(p.AnyMrTd)-1).Draw(t, "entry")
				switch rapid.IntRange(0, 3).Draw(t, "how") {
				case 0:
					p.AnyMrTd[i] = append([]byte{}, quotes[rapid.IntRange(0, 1).Draw(t, "of")].MrTd[:]...) // entry replaced, list header unchanged
				case 1:
					p.AnyMrTd[i] = s.Bytes(48)
				case 2:
					copy(p.AnyMrTd[i], quotes[rapid.IntRange(0, 1).Draw(t, "of")].MrTd[:]) // bytes overwritten in place
				default:
					p.AnyMrTd[i][rapid.IntRange(0, 47).Draw(t, "byte")] ^= 0x10
				}
				edits++
				hist = append(hist, fmt.Sprintf("edit any_mr_td[%d] in place", i))
			},
			"edit-field": func(t *rapid.T) {
				fs := fieldsOf()
				fi := rapid.IntRange(0, len(fs)-1).Draw(t, "field")
				f := fs[fi]
				switch rapid.IntRange(0, 3).Draw(t, "how") {
				case 0:
					*f = nil
				case 1:
					*f = append([]byte{}, actualOf(rapid.IntRange(0, 1).Draw(t, "of"), fi)...)
				case 2:
					if len(*f) > 0 {
						(*f)[rapid.IntRange(0, len(*f)-1).Draw(t, "byte")] ^= 0x01 // in place
					}
				default:
					if len(*f) > 0 {
						copy(*f, actualOf(rapid.IntRange(0, 1).Draw(t, "of"), fi)) // in place
					}
				}
				edits++
				hist = append(hist, fmt.Sprintf("edit field %d", fi))
			},
			// a long-lived message object is re-used for the next request: emptied and filled from the wire bytes of
			// (possibly another) quote
			"message-object-refilled": func(t *rapid.T) {
				qi, from := rapid.IntRange(0, 1).Draw(t, "object"), rapid.IntRange(0, 1).Draw(t, "fromQuote")
				wire, err := proto.Marshal(quotes[from].ToProto())
				if err != nil {
					t.Skip("no wire form")
				}
				proto.Reset(msgs[qi])
				if proto.Unmarshal(wire, msgs[qi]) != nil {
					gen.HarnessError(t, "own wire bytes do not decode")
				}
				holds[qi], broken[qi] = from, ""
				edits++
				hist = append(hist, fmt.Sprintf("message object %d refilled with quote %d", qi, from))
			},
			// ... or it is edited so that it is no well-formed quote any more
			"message-object-loses-structure": func(t *rapid.T) {
				qi := rapid.IntRange(0, 1).Draw(t, "object")
				m := msgs[qi]
				if m.GetTdQuoteBody() == nil || m.GetHeader() == nil {
					t.Skip("already without body or header")
				}
				how := rapid.SampledFrom([]string{"tee_tcb_svn-absent", "rtmrs-three", "qe_svn-absent", "mr_td-short", "xfam-absent", "body-absent", "report_data-long", "rtmrs-regrouped"}).Draw(t, "how")
				switch how {
				case "tee_tcb_svn-absent":
					m.TdQuoteBody.TeeTcbSvn = nil
				case "rtmrs-three":
					if len(m.TdQuoteBody.Rtmrs) > 3 {
						m.TdQuoteBody.Rtmrs = m.TdQuoteBody.Rtmrs[:3]
					}
				case "qe_svn-absent":
					m.Header.QeSvn = nil
				case "mr_td-short":
					if len(m.TdQuoteBody.MrTd) > 0 {
						m.TdQuoteBody.MrTd = m.TdQuoteBody.MrTd[:len(m.TdQuoteBody.MrTd)-1]
					}
				case "xfam-absent":
					m.TdQuoteBody.Xfam = nil
				case "body-absent":
					m.TdQuoteBody = nil
				case "report_data-long":
					m.TdQuoteBody.ReportData = append(append([]byte{}, m.TdQuoteBody.ReportData...), 0)
				default:
					m.TdQuoteBody.Rtmrs = [][]byte{make([]byte, 64), make([]byte, 64), make([]byte, 64)}
				}
				broken[qi] = how + " (edited in place)"
				edits++
				hist = append(hist, fmt.Sprintf("message object %d: %s", qi, how))
			},
			"grow-or-shrink-allow-list": func(t *rapid.T) {
				if len(p.AnyMrTd) > 0 && rapid.Bool().Draw(t, "shrink") {
					p.AnyMrTd = p.AnyMrTd[:len(p.AnyMrTd)-1]
				} else {
					p.AnyMrTd = append(p.AnyMrTd, append([]byte{}, quotes[rapid.IntRange(0, 1).Draw(t, "of")].MrTd[:]...))
				}
				edits++
				hist = append(hist, fmt.Sprintf("any_mr_td now %d entries", len(p.AnyMrTd)))
			},
		})
		if edits > 0 && validations >= 2 {
			gen.NonTrivial(strings.Join(hist, ";"))
		}
		gen.Class(fmt.Sprintf("history:validations>=2=%v,edits>0=%v", validations >= 2, edits > 0))
		gen.Sample("history", hist)
	})
	// Sparse policies: exactly one expectation configured (so a single dropped check cannot hide behind another miss).
	gen.Prop(t, "single-expectation", gen.N(40000, 3000000), func(t *rapid.T) {
		s := gen.NewStream(rapid.Uint64().Draw(t, "content"), "c08s")
		q := drawPolicyQuote(t, s)
		// force legal masks so only the chosen expectation decides
		binary.LittleEndian.PutUint64(q.Xfam[:], gen.XfamFixed1|(s.Uint64()&gen.XfamFixed0))
		binary.LittleEndian.PutUint64(q.TdAttr[:], s.Uint64()&gen.TdAttrAllowed)
		p := &gen.PolicyFields{}
		which := rapid.IntRange(0, 13).Draw(t, "which")
		switch which {
		case 0:
			p.QeVendorID = drawField(t, "f", q.VendorID[:], s)
		case 1:
			p.MrSeam = drawField(t, "f", q.MrSeam[:], s)
		case 2:
			p.TdAttributes = drawField(t, "f", q.TdAttr[:], s)
		case 3:
			p.Xfam = drawField(t, "f", q.Xfam[:], s)
		case 4:
			p.MrTd = drawField(t, "f", q.MrTd[:], s)
		case 5:
			p.MrConfigID = drawField(t, "f", q.MrConfigID[:], s)
		case 6:
			p.MrOwner = drawField(t, "f", q.MrOwner[:], s)
		case 7:
			p.MrOwnerConfig = drawField(t, "f", q.MrOwnerConfig[:], s)
		case 8:
			p.ReportData = drawField(t, "f", q.ReportData[:], s)
		case 9:
			i := rapid.IntRange(0, 3).Draw(t, "rtmr")
			p.Rtmrs = make([][]byte, 4)
			p.Rtmrs[i] = drawField(t, "f", q.Rtmr[i][:], s)
		case 10:
			p.AnyMrTd = drawList(t, "any", [][]byte{q.MrTd[:]}, s, 4, 0)
		case 11:
			p.MinTeeTcbSvn = drawMinTee(t, q.TeeTcbSvn[:], s)
		case 12:
			p.MinQeSvn = drawMinSvn(t, "minqe", binary.LittleEndian.Uint16(q.Word10[:]))
		case 13:
			p.MinPceSvn = drawMinSvn(t, "minpce", binary.LittleEndian.Uint16(q.Word8[:]))
		}
		gen.Class(fmt.Sprintf("single:%d", which))
		// the one expectation is the only CONFIGURED check; the fixed bits of XFAM / TD_ATTRIBUTES are checked for every
		// quote all the same, through either entry point: in a quarter of the cases one of them is violated
		if rapid.IntRange(0, 3).Draw(t, "fixedBitViolated") == 0 {
			if rapid.Bool().Draw(t, "inXfam") {
				x := binary.LittleEndian.Uint64(q.Xfam[:])
				if rapid.Bool().Draw(t, "clearFixed1") {
					x &^= 1 << uint(rapid.IntRange(0, 1).Draw(t, "bit1"))
				} else {
					x |= ^uint64(gen.XfamFixed0) & (1 << uint(rapid.IntRange(0, 63).Draw(t, "bit0")))
				}
				binary.LittleEndian.PutUint64(q.Xfam[:], x)
			} else {
				a := binary.LittleEndian.Uint64(q.TdAttr[:])
				a |= ^uint64(gen.TdAttrAllowed) & (1 << uint(rapid.IntRange(0, 63).Draw(t, "abit")))
				binary.LittleEndian.PutUint64(q.TdAttr[:], a)
			}
			gen.Class("single:with-a-fixed-bit-violated")
		}
		raw := rapid.Bool().Draw(t, "rawEntryPoint")
		if key, oracle, detail := c08Oracle(q, p, raw); key != "" {
			gen.Fail(t, gen.Violation{Key: key, Oracle: oracle, Detail: detail,
				Replay: map[string]any{"kind": "validate", "raw_hex": hex.EncodeToString(q.Encode()), "options": fieldsJSON(p), "raw": raw}})
		}
	})
	// A quote MESSAGE lacking a TD-body field (nil, empty, or of another size) is not a quote that meets any
	// expectation: with no option configured at all it must still be refused (the fixed-bit checks have nothing to judge)
	gen.Prop(t, "message-with-a-missing-or-resized-field", gen.N(3000, 200000), func(t *rapid.T) {
		s := gen.NewStream(rapid.Uint64().Draw(t, "content"), "c08m")
		q := drawPolicyQuote(t, s)
		binary.LittleEndian.PutUint64(q.Xfam[:], gen.XfamFixed1|(s.Uint64()&gen.XfamFixed0))
		binary.LittleEndian.PutUint64(q.TdAttr[:], s.Uint64()&gen.TdAttrAllowed)
		m := q.ToProto()
		b := m.TdQuoteBody
		fields := map[string]*[]byte{"xfam": &b.Xfam, "td_attributes": &b.TdAttributes, "tee_tcb_svn": &b.TeeTcbSvn, "mr_seam": &b.MrSeam, "mr_td": &b.MrTd, "report_data": &b.ReportData, "mr_config_id": &b.MrConfigId,
			"mr_owner": &b.MrOwner, "mr_owner_config": &b.MrOwnerConfig, "seam_attributes": &b.SeamAttributes, "mr_signer_seam": &b.MrSignerSeam, "header.qe_vendor_id": &m.Header.QeVendorId, "header.qe_svn": &m.Header.QeSvn, "header.pce_svn": &m.Header.PceSvn}
		names := make([]string, 0, len(fields))
		for n := range fields {
			names = append(names, n)
		}
		sort.Strings(names)
		name := rapid.SampledFrom(names).Draw(t, "field")
		f := fields[name]
		how := rapid.SampledFrom([]string{"nil", "empty", "one-short", "one-long", "doubled"}).Draw(t, "how")
		switch how {
		case "nil":
			*f = nil
		case "empty":
			*f = []byte{}
		case "one-short":
			*f = (*f)[:len(*f)-1]
		case "one-long":
			*f = append(append([]byte{}, *f...), 0)
		default:
			*f = append(append([]byte{}, *f...), *f...)
		}
		if rapid.Bool().Draw(t, "throughWire") {
			if wb, err := proto.Marshal(m); err == nil {
				m2 := &pb.QuoteV4{}
				if proto.Unmarshal(wb, m2) == nil {
					m = m2
				}
			}
		}
		// the expectation on that very field is configured with the quote's ORIGINAL value (XFAM and TD_ATTRIBUTES carry
		// the always-on fixed-bit expectations anyway): a resized or absent field misses it
		opts := &validate.Options{}
		orig := q
		switch name {
		case "mr_seam":
			opts.TdQuoteBodyOptions.MrSeam = append([]byte{}, orig.MrSeam[:]...)
		case "mr_td":
			opts.TdQuoteBodyOptions.MrTd = append([]byte{}, orig.MrTd[:]...)
		case "report_data":
			opts.TdQuoteBodyOptions.ReportData = append([]byte{}, orig.ReportData[:]...)
		case "mr_config_id":
			opts.TdQuoteBodyOptions.MrConfigID = append([]byte{}, orig.MrConfigID[:]...)
		case "mr_owner":
			opts.TdQuoteBodyOptions.MrOwner = append([]byte{}, orig.MrOwner[:]...)
		case "mr_owner_config":
			opts.TdQuoteBodyOptions.MrOwnerConfig = append([]byte{}, orig.MrOwnerConfig[:]...)
		case "header.qe_vendor_id":
			opts.HeaderOptions.QeVendorID = append([]byte{}, orig.VendorID[:]...)
		case "tee_tcb_svn":
			opts.TdQuoteBodyOptions.MinimumTeeTcbSvn = append([]byte{}, orig.TeeTcbSvn[:]...)
		case "td_attributes":
			opts.TdQuoteBodyOptions.TdAttributes = append([]byte{}, orig.TdAttr[:]...)
		case "xfam":
			if rapid.Bool().Draw(t, "pinXfam") {
				opts.TdQuoteBodyOptions.Xfam = append([]byte{}, orig.Xfam[:]...)
			}
		case "header.qe_svn":
			opts.HeaderOptions.MinimumQeSvn = binary.LittleEndian.Uint16(orig.Word10[:])
		case "header.pce_svn":
			opts.HeaderOptions.MinimumPceSvn = binary.LittleEndian.Uint16(orig.Word8[:])
		default:
			return // seam_attributes / mr_signer_seam: no expectation can be configured on them (C01 / C09 own their sizes)
		}
		if how == "one-long" && (name == "header.qe_svn" || name == "header.pce_svn") && (opts.HeaderOptions.MinimumQeSvn == 0 && opts.HeaderOptions.MinimumPceSvn == 0) {
			return // a zero minimum is no expectation
		}
		gen.Eval()
		v := gen.Call(func() error { return validate.TdxQuote(m, opts) })
		gen.Class("message-field:" + how)
		gen.NonTrivial("msg-field", name, how)
		if v.Panicked() {
			gen.Fail(t, gen.Violation{Key: "panic@" + gen.PanicSite(v.Stack), Oracle: "validation returns success or an error", Detail: name + " " + how + ": " + v.Panic, Replay: map[string]any{"kind": "c08-message-field", "field": name, "how": how}})
			return
		}
		if v.Accepted() {
			gen.Fail(t, gen.Violation{Key: "accepts-malformed-message:" + name, Oracle: "never accepts a quote that misses a configured expectation (here: the expectation on a field the message lacks or carries in another size)", Detail: fmt.Sprintf("quote message with %s %s, expectation on it configured with the original value: validation returned nil", name, how), Replay: map[string]any{"kind": "c08-message-field", "field": name, "how": how}})
		}
	})

	// Exactly two expectations configured, each one met or missed on its own (at least one missed): one check's success
	// must never cover for the other's failure. Every pair of the fourteen expectations.
	gen.Prop(t, "two-expectations", gen.N(20000, 1500000), func(t *rapid.T) {
		s := gen.NewStream(rapid.Uint64().Draw(t, "content"), "c08t")
		q := drawPolicyQuote(t, s)
		binary.LittleEndian.PutUint64(q.Xfam[:], gen.XfamFixed1|(s.Uint64()&gen.XfamFixed0))
		binary.LittleEndian.PutUint64(q.TdAttr[:], s.Uint64()&gen.TdAttrAllowed)
		// SVNs with room on both sides
		binary.LittleEndian.PutUint16(q.Word10[:], uint16(1+s.Intn(65000)))
		binary.LittleEndian.PutUint16(q.Word8[:], uint16(1+s.Intn(65000)))
		p := &gen.PolicyFields{}
		a := rapid.IntRange(0, 13).Draw(t, "first")
		b := rapid.IntRange(0, 12).Draw(t, "second")
		if b >= a {
			b++
		}
		meet := rapid.SampledFrom([][2]bool{{true, false}, {false, true}, {false, false}, {true, true}}).Draw(t, "met")
		set := func(which int, met bool) {
			val := func(actual []byte) []byte {
				v := append([]byte{}, actual...)
				if !met {
					v[s.Intn(len(v))] ^= byte(1 + s.Intn(255))
				}
				return v
			}
			switch which {
			case 0:
				p.QeVendorID = val(q.VendorID[:])
			case 1:
				p.MrSeam = val(q.MrSeam[:])
			case 2:
				p.TdAttributes = val(q.TdAttr[:])
			case 3:
				p.Xfam = val(q.Xfam[:])
			case 4:
				p.MrTd = val(q.MrTd[:])
			case 5:
				p.MrConfigID = val(q.MrConfigID[:])
			case 6:
				p.MrOwner = val(q.MrOwner[:])
			case 7:
				p.MrOwnerConfig = val(q.MrOwnerConfig[:])
			case 8:
				p.ReportData = val(q.ReportData[:])
			case 9:
				p.Rtmrs = make([][]byte, 4)
				p.Rtmrs[s.Intn(4)] = nil
				i := s.Intn(4)
				p.Rtmrs[i] = val(q.Rtmr[i][:])
			case 10:
				p.AnyMrTd = [][]byte{s.Bytes(48), val(q.MrTd[:]), s.Bytes(48)}[:1+s.Intn(3)]
				if len(p.AnyMrTd) == 1 {
					p.AnyMrTd[0] = val(q.MrTd[:])
				}
			case 11:
				m := append([]byte{}, q.TeeTcbSvn[:]...)
				if !met {
					i := s.Intn(16)
					if m[i] == 255 {
						q.TeeTcbSvn[i] = 254
					}
					m[i] = q.TeeTcbSvn[i] + 1
				}
				p.MinTeeTcbSvn = m
			case 12:
				p.MinQeSvn = uint32(binary.LittleEndian.Uint16(q.Word10[:]))
				if !met {
					p.MinQeSvn++
				}
			case 13:
				p.MinPceSvn = uint32(binary.LittleEndian.Uint16(q.Word8[:]))
				if !met {
					p.MinPceSvn++
				}
			}
		}
		set(a, meet[0])
		set(b, meet[1])
		gen.Class(fmt.Sprintf("two:%d+%d", min(a, b), max(a, b)))
		if key, oracle, detail := c08Oracle(q, p, rapid.Bool().Draw(t, "raw")); key != "" {
			gen.Fail(t, gen.Violation{Key: key, Oracle: oracle, Detail: fmt.Sprintf("two expectations (%d met=%v, %d met=%v): %s", a, meet[0], b, meet[1], detail),
				Replay: map[string]any{"kind": "validate", "raw_hex": hex.EncodeToString(q.Encode()), "options": fieldsJSON(p), "raw": false}})
		}
	})
	// Every single XFAM and TD_ATTRIBUTES bit, set on top of a legal value and cleared from it.
	gen.Direct(t, "mask-bits", func(t *testing.T) {
		s := gen.NewStream(gen.Seed(), "c08bits")
		for rep := 0; rep < 4; rep++ {
			for bit := 0; bit < 64; bit++ {
				for field := 0; field < 2; field++ {
					q := gen.RandomRefQuote(s, 0, 0, 0)
					x := gen.XfamFixed1 | (s.Uint64() & gen.XfamFixed0)
					a := s.Uint64() & gen.TdAttrAllowed
					if field == 0 {
						x ^= 1 << uint(bit)
					} else {
						a ^= 1 << uint(bit)
					}
					binary.LittleEndian.PutUint64(q.Xfam[:], x)
					binary.LittleEndian.PutUint64(q.TdAttr[:], a)
					if key, oracle, detail := c08Oracle(q, &gen.PolicyFields{}, rep%2 == 0); key != "" {
						gen.Fail(t, gen.Violation{Key: key, Oracle: oracle, Detail: fmt.Sprintf("field %d bit %d: %s", field, bit, detail),
							Replay: map[string]any{"kind": "validate", "raw_hex": hex.EncodeToString(q.Encode()), "options": fieldsJSON(&gen.PolicyFields{}), "raw": rep%2 == 0}})
					}
					gen.NonTrivial("maskbit", field, bit, rep)
				}
			}
		}
		gen.Exhaustive("every single XFAM / TD_ATTRIBUTES bit toggled on a legal value", true)
	})
}
